/-
C04 — tilings are exact partitions and blocks reassemble the mosaic.

Property theorems only (helpers are in `Lemmas/C04.lean`).  One axis is treated; the 2-D
statements at the end lift it through `zip2` exactly as the library zips `(y, x)`.

* regular tiles (`Tiles`): every `N`, every tile size `n > 0` (tile larger than the image,
  non-dividing sizes and 1-pixel tiles are not special cases);
* variable tiles (`VariableSizedTiles`): every chunk tuple with non-negative entries
  (zero-length chunks included) whose sum fits `int32` (`ChunksOK`; the wrap-around of larger
  sums is in the model and compared with the code, but nothing is claimed about it);
* `NSlice.Has s y` : pixel `y` lies in the region `[s.start, s.stop)`.
-/
import OdcGeo.Model.C04
import OdcGeo.Model.C04Roi
import OdcGeo.Lemmas.C04
import Mathlib.Tactic.Linarith
import Mathlib.Tactic.Ring
import Mathlib.Data.List.Nodup
import OdcGeo.Lemmas.Affine
namespace OdcGeo.C04
open OdcGeo OdcGeo.C17 OdcGeo.NpArray

/-- `count` is the ceiling of `N / n`: the least `T` with `N ≤ T * n`. -/
theorem count_is_ceil (N n : Int) (hn : 0 < n) : (count N n - 1) * n < N ∧ N ≤ count N n * n :=
  count_spec N n hn

/-! ## regular tiles -/

theorem getItem_idx (N n : Int) (hn : 0 < n) (i : Int) (hi : 0 ≤ i ∧ i < count N n) :
    getItem N n (.idx i) = .ok ⟨i * n, min ((i + 1) * n) N⟩ := by
  have h := (mul_lt_iff_lt_count N n i hn).2 hi.2
  have h0 : 0 ≤ i * n := Int.mul_nonneg hi.1 (by omega)
  have e : (i + 1) * n = i * n + n := by ring
  rw [getItem_of_norm N n _ i (i + 1) (by rw [normSlice_idx, if_neg (by omega)])]
  rw [if_pos ⟨h0, h, by omega⟩]

theorem getItem_negative_index (N n : Int) (i : Int) (hi : i < 0) :
    getItem N n (.idx i) = getItem N n (.idx (count N n + i)) ∨ count N n + i < 0 := by
  by_cases h : count N n + i < 0
  · exact Or.inr h
  · left
    rw [getItem_of_norm N n (.idx i) (count N n + i) (count N n + i + 1)
          (by rw [normSlice_idx, if_pos hi]),
        getItem_of_norm N n (.idx (count N n + i)) (count N n + i) (count N n + i + 1)
          (by rw [normSlice_idx, if_neg h])]

theorem tiles_partition (N n : Int) (hn : 0 < n) (y : Int) (hy : 0 ≤ y ∧ y < N) :
    ∃! i : Int, (0 ≤ i ∧ i < count N n) ∧
      ∃ s, getItem N n (.idx i) = .ok s ∧ s.Has y := by
  obtain ⟨b1, b2⟩ := ediv_bounds y n hn
  have hq0 : 0 ≤ y / n := Int.ediv_nonneg hy.1 (by omega)
  have hqT : y / n < count N n := (mul_lt_iff_lt_count N n _ hn).1 (by omega)
  refine ⟨y / n, ⟨⟨hq0, hqT⟩, _, getItem_idx N n hn _ ⟨hq0, hqT⟩, ?_⟩, ?_⟩
  · simp only [NSlice.Has]; omega
  · rintro j ⟨hj, s, hs, hy'⟩
    rw [getItem_idx N n hn j hj] at hs
    cases hs
    simp only [NSlice.Has] at hy'
    exact ediv_unique y n j hn hy'.1 (by omega)

theorem regions_disjoint (N n : Int) (hn : 0 < n) (i j : Int)
    (hi : 0 ≤ i ∧ i < count N n) (hj : 0 ≤ j ∧ j < count N n) (hij : i ≠ j) (si sj : NSlice)
    (hsi : getItem N n (.idx i) = .ok si) (hsj : getItem N n (.idx j) = .ok sj) (y : Int) :
    ¬ (si.Has y ∧ sj.Has y) := by
  rw [getItem_idx N n hn i hi] at hsi
  rw [getItem_idx N n hn j hj] at hsj
  cases hsi; cases hsj
  simp only [NSlice.Has]
  rintro ⟨⟨a1, a2⟩, b1, b2⟩
  exact hij ((ediv_unique y n i hn a1 (by omega)).trans (ediv_unique y n j hn b1 (by omega)).symm)

theorem region_within (N n : Int) (idx : PIdx) (s : NSlice)
    (h : getItem N n idx = .ok s) : 0 ≤ s.start ∧ s.start < N ∧ s.stop ≤ N := by
  simp only [getItem] at h
  split at h
  · next hc => cases h; simp only []; omega
  · cases h

theorem tile_region_nonempty (N n : Int) (hn : 0 < n) (i : Int) (s : NSlice)
    (h : getItem N n (.idx i) = .ok s) : s.start < s.stop := by
  rw [getItem_of_norm N n _ _ _ (normSlice_idx _ i)] at h
  generalize (if i < 0 then count N n + i else i) = j at h
  have e : (j + 1) * n = j * n + n := by ring
  by_cases hc : 0 ≤ j * n ∧ j * n < N ∧ (j + 1) * n < N + n
  · rw [if_pos hc] at h
    cases h
    simp only []
    omega
  · rw [if_neg hc] at h
    cases h

theorem tileShape_idx (N n : Int) (i : Int) (hi : 0 ≤ i ∧ i < count N n) :
    tileShape N n i = .ok (if i < count N n - 1 then n else N - i * n) := by
  rw [tileShape_of, if_neg (by omega : ¬ i < 0)]
  by_cases h : i < count N n - 1
  · rw [if_pos ⟨hi.1, h⟩, if_pos h]
  · rw [if_neg (by omega), if_pos ⟨hi.1, by omega⟩, if_neg h]

theorem tileShape_error_iff (N n : Int) (i : Int) :
    tileShape N n i = .error .indexError ↔ (i < -count N n ∨ count N n ≤ i) := by
  rw [tileShape_of]
  generalize hj : (if i < 0 then count N n + i else i) = j
  have : (i < 0 ∧ j = count N n + i) ∨ (¬ i < 0 ∧ j = i) := by
    by_cases h : i < 0
    · rw [if_pos h] at hj; exact Or.inl ⟨h, hj.symm⟩
    · rw [if_neg h] at hj; exact Or.inr ⟨h, hj.symm⟩
  by_cases h1 : 0 ≤ j ∧ j < count N n - 1
  · rw [if_pos h1]; simp; omega
  · rw [if_neg h1]
    by_cases h2 : 0 ≤ j ∧ j = count N n - 1
    · rw [if_pos h2]; simp; omega
    · rw [if_neg h2]; simp; omega

theorem tile_shape_eq_region_len (N n : Int) (hn : 0 < n) (i : Int) (s : NSlice)
    (h : getItem N n (.idx i) = .ok s) : tileShape N n i = .ok (s.stop - s.start) := by
  rw [getItem_of_norm N n _ _ _ (normSlice_idx _ i)] at h
  rw [tileShape_of]
  generalize (if i < 0 then count N n + i else i) = j at h ⊢
  have e : (j + 1) * n = j * n + n := by ring
  by_cases hc : 0 ≤ j * n ∧ j * n < N ∧ (j + 1) * n < N + n
  · rw [if_pos hc] at h
    cases h
    simp only []
    have hjT := (mul_lt_iff_lt_count N n j hn).1 hc.2.1
    have hj0 : 0 ≤ j := by
      by_contra hneg
      have : j * n < 0 := Int.mul_neg_of_neg_of_pos (by omega) hn
      omega
    by_cases h1 : j < count N n - 1
    · rw [if_pos ⟨hj0, h1⟩]
      have := (mul_lt_iff_lt_count N n (j + 1) hn).2 (by omega)
      congr 1; omega
    · rw [if_neg (by omega), if_pos ⟨hj0, by omega⟩]
      have : N ≤ (j + 1) * n := by
        have h2 := (count_spec N n hn).2
        have : count N n = j + 1 := by omega
        rw [this] at h2; exact h2
      congr 1; omega
  · rw [if_neg hc] at h; cases h

theorem chunks_spec (N n : Int) (hn : 0 < n) (hN : 0 < N) :
    ∃ cs, chunks N n = .ok cs ∧ (cs.length : Int) = count N n ∧ cs.sum = N ∧
      ∀ i : Nat, (i : Int) < count N n → ∃ c, cs[i]? = some c ∧ tileShape N n i = .ok c := by
  have hT := count_pos N n hn hN
  have h0 := tileShape_idx N n 0 ⟨le_refl 0, hT⟩
  have hl := tileShape_idx N n (count N n - 1) ⟨by omega, by omega⟩
  rw [if_neg (by omega)] at hl
  have hc : chunks N n = .ok (List.replicate (count N n - 1).toNat
      (if (0:Int) < count N n - 1 then n else N - 0 * n) ++ [N - (count N n - 1) * n]) := by
    simp only [chunks, h0, hl, bind, Except.bind, pure, Except.pure]
  refine ⟨_, hc, ?_, ?_, ?_⟩
  · simp; omega
  · rw [List.sum_append, sum_replicate]
    simp only [List.sum_cons, List.sum_nil]
    have : (((count N n - 1).toNat : Nat) : Int) = count N n - 1 := by omega
    rw [this]
    by_cases h1 : (0:Int) < count N n - 1
    · rw [if_pos h1]; ring
    · rw [if_neg h1]
      have : count N n - 1 = 0 := by omega
      rw [this]; ring
  · intro i hi
    rw [tileShape_idx N n i ⟨by omega, hi⟩]
    by_cases h1 : (i : Int) < count N n - 1
    · rw [if_pos h1]
      refine ⟨_, ?_, rfl⟩
      rw [List.getElem?_append_left (by simp; omega), List.getElem?_replicate]
      rw [if_pos (by omega), if_pos (by omega)]
    · rw [if_neg h1]
      refine ⟨_, ?_, rfl⟩
      rw [List.getElem?_append_right (by simp; omega)]
      have : i - (List.replicate (count N n - 1).toNat
          (if (0:Int) < count N n - 1 then n else N - 0 * n)).length = 0 := by simp; omega
      rw [this]
      have : (i : Int) = count N n - 1 := by omega
      simp [this]

theorem chunks_error_of_empty (N n : Int) (hn : 0 < n) (hN : N ≤ 0) :
    chunks N n = .error .indexError := by
  have hT := count_le_zero N n hn hN
  have : tileShape N n 0 = .error .indexError := (tileShape_error_iff N n 0).2 (Or.inr hT)
  simp only [chunks, this, bind, Except.bind]

theorem locate_inverse (N n : Int) (hn : 0 < n) (y : Int) (hy : 0 ≤ y ∧ y < N) :
    ∃ i s, locate N n y = .ok i ∧ (0 ≤ i ∧ i < count N n) ∧
      getItem N n (.idx i) = .ok s ∧ s.Has y := by
  have hT := count_pos N n hn (by omega)
  have h0 := tileShape_idx N n 0 ⟨le_refl 0, hT⟩
  have hloc : locate N n y = .ok (y / (if (0:Int) < count N n - 1 then n else N - 0 * n)) := by
    simp only [locate, h0, bind, Except.bind, pure, Except.pure]
    rw [if_neg (by omega)]
  by_cases h1 : (0:Int) < count N n - 1
  · rw [if_pos h1] at hloc
    obtain ⟨b1, b2⟩ := ediv_bounds y n hn
    have hq0 : 0 ≤ y / n := Int.ediv_nonneg hy.1 (by omega)
    have hqT : y / n < count N n := (mul_lt_iff_lt_count N n _ hn).1 (by omega)
    refine ⟨_, _, hloc, ⟨hq0, hqT⟩, getItem_idx N n hn _ ⟨hq0, hqT⟩, ?_⟩
    simp only [NSlice.Has]; omega
  · rw [if_neg h1] at hloc
    have hT1 : count N n = 1 := by omega
    have hq : y / (N - 0 * n) = 0 := by
      rw [Int.zero_mul, Int.sub_zero]; exact Int.ediv_eq_zero_of_lt hy.1 hy.2
    rw [hq] at hloc
    refine ⟨_, _, hloc, ⟨le_refl 0, hT⟩, getItem_idx N n hn _ ⟨le_refl 0, hT⟩, ?_⟩
    have := (count_spec N n hn).2
    rw [hT1] at this
    simp only [NSlice.Has]; omega

theorem locate_error_iff (N n : Int) (hn : 0 < n) (y : Int) :
    locate N n y = .error .indexError ↔ (y < 0 ∨ N ≤ y) := by
  constructor
  · intro h
    by_contra hc
    obtain ⟨i, s, hl, _⟩ := locate_inverse N n hn y (by omega)
    rw [hl] at h; cases h
  · intro h
    simp only [locate]
    rw [if_pos (by omega)]

theorem crop_is_tiling_of_crop (N n : Int) (hn : 0 < n) (idx : PIdx) (a b : Int)
    (hr : normSlice idx (count N n) = ⟨a, b⟩) (hab : 0 ≤ a ∧ a < b ∧ b ≤ count N n) :
    ∃ N', crop N n idx = .ok N' ∧ N' = min (b * n) N - a * n ∧ count N' n = b - a ∧
      ∀ k : Int, 0 ≤ k ∧ k < b - a →
        ∃ s s', getItem N n (.idx (a + k)) = .ok s ∧ getItem N' n (.idx k) = .ok s' ∧
          s.start = s'.start + a * n ∧ s.stop = s'.stop + a * n := by
  have hg := getItem_block N n hn idx a b hr hab
  have h2 := (mul_lt_iff_lt_count N n (b - 1) hn).2 (by omega)
  have e1 : (b - 1) * n = b * n - n := by ring
  have e2 : (b - a - 1) * n = b * n - a * n - n := by ring
  have e3 : (b - a) * n = b * n - a * n := by ring
  have hcnt : count (min (b * n) N - a * n) n = b - a :=
    count_eq_of_bounds _ n _ hn (by omega) (by omega)
  refine ⟨min (b * n) N - a * n, by simp only [crop, hg, bind, Except.bind, pure, Except.pure],
    rfl, hcnt, ?_⟩
  intro k hk
  rw [getItem_idx N n hn (a + k) ⟨by omega, by omega⟩,
      getItem_idx _ n hn k ⟨hk.1, by rw [hcnt]; exact hk.2⟩]
  refine ⟨_, _, rfl, rfl, by simp only []; ring, ?_⟩
  simp only []
  have e4 : (a + k + 1) * n = (k + 1) * n + a * n := by ring
  have e5 : (a + k + 1) * n ≤ b * n := Int.mul_le_mul_of_nonneg_right (by omega) (by omega)
  omega

theorem clip_rebases (N n : Int) (hn : 0 < n) (sel : List Int) (hne : sel ≠ [])
    (hsel : ∀ s ∈ sel, 0 ≤ s ∧ s < count N n) :
    ∃ N' y1 y2, clipTiles N n sel = .ok (N', ⟨y1, y2 + 1⟩, sel.map (· - y1)) ∧
      count N' n = y2 + 1 - y1 ∧
      ∀ s ∈ sel, ∃ r r', getItem N n (.idx s) = .ok r ∧ getItem N' n (.idx (s - y1)) = .ok r' ∧
        r.start = r'.start + y1 * n ∧ r.stop = r'.stop + y1 * n := by
  obtain ⟨y1, y2, hc, m1, m2, hb⟩ := clipSel_spec sel hne
  have b1 := hsel y1 m1
  have b2 := hsel y2 m2
  have b12 := (hb y2 m2).1
  have hr : normSlice (.slc (some y1) (some (y2 + 1))) (count N n) = ⟨y1, y2 + 1⟩ := by
    simp only [normSlice, wrapNeg]
    rw [if_pos (by omega), if_pos (by omega)]
  obtain ⟨N', hcrop, _, hcnt, htiles⟩ :=
    crop_is_tiling_of_crop N n hn _ y1 (y2 + 1) hr ⟨b1.1, by omega, by omega⟩
  refine ⟨N', y1, y2, by simp only [clipTiles, hc, hcrop, bind, Except.bind, pure, Except.pure],
    hcnt, ?_⟩
  intro s hs
  obtain ⟨r, r', h1, h2, h3, h4⟩ := htiles (s - y1) ⟨by have := hb s hs; omega, by have := hb s hs; omega⟩
  have : y1 + (s - y1) = s := by omega
  rw [this] at h1
  exact ⟨r, r', h1, h2, h3, h4⟩

theorem clipSel_empty : clipSel [] = .error .valueError := rfl

theorem searchsorted_eq_linear_scan (xs : List Int) (key : Int) (hs : Sorted xs) :
    searchsortedRight xs key = linearScanRight xs key := by
  obtain ⟨_, r2, r3, r4⟩ := bsearchRight_spec xs key hs (xs.length + 1) 0 xs.length
    (Nat.zero_le _) (le_refl _) (by omega) (fun i v h => by omega)
    (fun i v h hv => by
      have := (List.getElem?_eq_some_iff.1 hv).1
      omega)
  obtain ⟨t1, t2⟩ := takeWhile_length_spec (fun v => decide (v ≤ key)) xs
  have t3 := takeWhile_length_le (fun v => decide (v ≤ key)) xs
  unfold searchsortedRight linearScanRight
  generalize bsearchRight xs key (xs.length + 1) 0 xs.length = r at *
  generalize (List.takeWhile (fun v => decide (v ≤ key)) xs).length = r' at *
  by_contra hne
  rcases Nat.lt_or_gt_of_ne hne with h | h
  · have hr : r < xs.length := by omega
    have e := List.getElem?_eq_getElem hr
    have a := t1 r _ h e
    have b := r4 r _ (le_refl _) e
    simp at a; omega
  · have hr : r' < xs.length := by omega
    have e := List.getElem?_eq_getElem hr
    have a := t2 _ e
    have b := r3 r' _ h e
    simp at a; omega

theorem searchsorted_split (xs : List Int) (key : Int) (hs : Sorted xs) :
    searchsortedRight xs key ≤ xs.length ∧
    (∀ i v, i < searchsortedRight xs key → xs[i]? = some v → v ≤ key) ∧
    (∀ i v, searchsortedRight xs key ≤ i → xs[i]? = some v → key < v) := by
  obtain ⟨_, r2, r3, r4⟩ := bsearchRight_spec xs key hs (xs.length + 1) 0 xs.length
    (Nat.zero_le _) (le_refl _) (by omega) (fun i v h => by omega)
    (fun i v h hv => by
      have := (List.getElem?_eq_some_iff.1 hv).1
      omega)
  exact ⟨r2, r3, r4⟩

theorem vgetItem_idx (ch : List Int) (hok : ChunksOK ch) (i : Nat) (hi : i < ch.length) :
    vgetItem ch (.idx i) = .ok ⟨pre ch i, pre ch (i + 1)⟩ := by
  rw [vgetItem_of_norm ch _ i ((i : Int) + 1) (by rw [normSlice_idx, if_neg (by omega)])]
  rw [if_neg (by omega), npGet_offsets ch hok i (by omega)]
  have : ((i : Int) + 1) = ((i + 1 : Nat) : Int) := by push_cast; rfl
  rw [this, npGet_offsets ch hok (i + 1) (by omega)]
  rfl

theorem vindex_error_iff (ch : List Int) (i : Int) :
    vgetItem ch (.idx i) = .error .indexError ↔ (i < -(ch.length : Int) ∨ (ch.length : Int) ≤ i) := by
  rw [vgetItem_of_norm ch _ _ _ (normSlice_idx _ i), vcount_eq]
  generalize hj : (if i < 0 then (ch.length : Int) + i else i) = j
  have hcase : (i < 0 ∧ j = ch.length + i) ∨ (¬ i < 0 ∧ j = i) := by
    by_cases h : i < 0
    · rw [if_pos h] at hj; exact Or.inl ⟨h, hj.symm⟩
    · rw [if_neg h] at hj; exact Or.inr ⟨h, hj.symm⟩
  by_cases h0 : j < 0
  · rw [if_pos h0]; simp; omega
  · rw [if_neg h0]
    have hL := offsets_length ch
    by_cases h1 : j < ch.length
    · obtain ⟨x, hx, _⟩ := npGet_inrange (offsets ch) j (by omega)
      obtain ⟨y, hy, _⟩ := npGet_inrange (offsets ch) (j + 1) (by omega)
      rw [hx, hy]; simp [Except.bind]; omega
    · by_cases h2 : j = ch.length
      · obtain ⟨x, hx, _⟩ := npGet_inrange (offsets ch) j (by omega)
        rw [hx, npGet_outofrange (offsets ch) (j + 1) (by omega)]
        simp [Except.bind]; omega
      · rw [npGet_outofrange (offsets ch) j (by omega)]
        simp [Except.bind]; omega

theorem vtileShape_error_iff (ch : List Int) (i : Int) :
    vtileShape ch i = .error .indexError ↔ (i < -(ch.length : Int) ∨ (ch.length : Int) ≤ i) := by
  simp only [vtileShape, vcount_eq]
  generalize hj : (if i < 0 then (ch.length : Int) + i else i) = j
  have hcase : (i < 0 ∧ j = ch.length + i) ∨ (¬ i < 0 ∧ j = i) := by
    by_cases h : i < 0
    · rw [if_pos h] at hj; exact Or.inl ⟨h, hj.symm⟩
    · rw [if_neg h] at hj; exact Or.inr ⟨h, hj.symm⟩
  by_cases h0 : j < 0 ∨ j ≥ ch.length
  · rw [if_pos h0]; simp; omega
  · rw [if_neg h0]
    have hL := offsets_length ch
    obtain ⟨x, hx, _⟩ := npGet_inrange (offsets ch) j (by omega)
    obtain ⟨y, hy, _⟩ := npGet_inrange (offsets ch) (j + 1) (by omega)
    simp only [hx, hy, bind, Except.bind, pure, Except.pure]
    simp; omega

theorem vtile_shape_eq_region_len (ch : List Int) (i : Int) (s : NSlice)
    (h : vgetItem ch (.idx i) = .ok s) : vtileShape ch i = .ok (s.stop - s.start) := by
  rw [vgetItem_of_norm ch _ _ _ (normSlice_idx _ i)] at h
  simp only [vtileShape]
  generalize (if i < 0 then vcount ch + i else i) = j at h ⊢
  have hL := offsets_length ch
  have hT := vcount_eq ch
  by_cases h0 : j < 0
  · rw [if_pos h0] at h; cases h
  · rw [if_neg h0] at h
    by_cases h1 : j < ch.length
    · rw [if_neg (by omega)]
      obtain ⟨x, hx, _⟩ := npGet_inrange (offsets ch) j (by omega)
      obtain ⟨y, hy, _⟩ := npGet_inrange (offsets ch) (j + 1) (by omega)
      rw [hx, hy] at h
      simp only [Except.bind] at h
      cases h
      simp only [hx, hy, bind, Except.bind, pure, Except.pure]
    · exfalso
      by_cases h2 : j = ch.length
      · obtain ⟨x, hx, _⟩ := npGet_inrange (offsets ch) j (by omega)
        rw [hx, npGet_outofrange (offsets ch) (j + 1) (by omega)] at h
        simp [Except.bind] at h
      · rw [npGet_outofrange (offsets ch) j (by omega)] at h
        simp [Except.bind] at h

theorem vgetItem_negative_index (ch : List Int) (i : Int) (hi : -(ch.length : Int) ≤ i ∧ i < 0) :
    vgetItem ch (.idx i) = vgetItem ch (.idx (ch.length + i)) := by
  rw [vgetItem_of_norm ch (.idx i) (ch.length + i) (ch.length + i + 1)
        (by rw [normSlice_idx, if_pos hi.2, vcount_eq]),
      vgetItem_of_norm ch (.idx (ch.length + i)) (ch.length + i) (ch.length + i + 1)
        (by rw [normSlice_idx, if_neg (by omega)])]

theorem vtiles_partition (ch : List Int) (hok : ChunksOK ch) (y : Int) (hy : 0 ≤ y ∧ y < vbase ch) :
    ∃! i : Nat, i < ch.length ∧ ∃ s, vgetItem ch (.idx i) = .ok s ∧ s.Has y := by
  rw [vbase_eq_total ch hok, ← pre_length] at hy
  obtain ⟨i, hi, h1, h2⟩ := exists_interval (pre ch) y ch.length (by simpa [pre] using hy.1) hy.2
  refine ⟨i, ⟨hi, _, vgetItem_idx ch hok i hi, ⟨h1, h2⟩⟩, ?_⟩
  rintro j ⟨hj, s, hs, hys⟩
  rw [vgetItem_idx ch hok j hj] at hs
  cases hs
  simp only [NSlice.Has] at hys
  by_contra hne
  rcases Nat.lt_or_gt_of_ne hne with h | h
  · have := pre_mono ch hok.1 (j + 1) i (by omega); omega
  · have := pre_mono ch hok.1 (i + 1) j (by omega); omega

theorem vregion_within (ch : List Int) (hok : ChunksOK ch) (i : Nat) (hi : i < ch.length) (s : NSlice)
    (h : vgetItem ch (.idx i) = .ok s) : 0 ≤ s.start ∧ s.start ≤ s.stop ∧ s.stop ≤ vbase ch := by
  rw [vgetItem_idx ch hok i hi] at h
  cases h
  rw [vbase_eq_total ch hok]
  exact ⟨pre_nonneg ch hok.1 i, pre_mono_step ch hok.1 i, pre_le_total ch hok.1 _⟩

theorem vregions_disjoint (ch : List Int) (hok : ChunksOK ch) (i j : Nat) (hi : i < ch.length)
    (hj : j < ch.length) (hij : i ≠ j) (si sj : NSlice)
    (hsi : vgetItem ch (.idx i) = .ok si) (hsj : vgetItem ch (.idx j) = .ok sj) (y : Int) :
    ¬ (si.Has y ∧ sj.Has y) := by
  rw [vgetItem_idx ch hok i hi] at hsi
  rw [vgetItem_idx ch hok j hj] at hsj
  cases hsi; cases hsj
  simp only [NSlice.Has]
  rintro ⟨⟨a1, a2⟩, b1, b2⟩
  rcases Nat.lt_or_gt_of_ne hij with h | h
  · have := pre_mono ch hok.1 (i + 1) j (by omega); omega
  · have := pre_mono ch hok.1 (j + 1) i (by omega); omega

theorem vlocate_inverse (ch : List Int) (hok : ChunksOK ch) (y : Int) (hy : 0 ≤ y ∧ y < vbase ch) :
    ∃ (i : Nat) (s : NSlice), vlocate ch y = .ok (i : Int) ∧ i < ch.length ∧
      vgetItem ch (.idx i) = .ok s ∧ s.Has y := by
  obtain ⟨r1, r2, r3⟩ := searchsorted_split (cumsum32 0 ch) y (sorted_cumsum32 ch hok)
  have hloc : vlocate ch y = .ok ((searchsortedRight (cumsum32 0 ch) y : Nat) : Int) := by
    simp only [vlocate]; rw [if_neg (by omega)]
  generalize searchsortedRight (cumsum32 0 ch) y = r at *
  rw [cumsum32_length] at r1
  have hb : 0 + total ch < 2147483648 := by have := hok.2; omega
  have hyT := hy.2
  rw [vbase_eq_total ch hok] at hyT
  have hrT : r < ch.length := by
    by_contra hc
    have hr : r = ch.length := by omega
    by_cases h0 : ch.length = 0
    · have : total ch = 0 := by rw [← pre_length, h0]; cases ch <;> rfl
      omega
    · have := r2 (ch.length - 1) _ (by omega)
        (cumsum32_getElem? 0 ch hok.1 (le_refl 0) hb (ch.length - 1) (by omega))
      have e : ch.length - 1 + 1 = ch.length := by omega
      rw [e, pre_length] at this
      omega
  have hhi := r3 r _ (le_refl _) (cumsum32_getElem? 0 ch hok.1 (le_refl 0) hb r hrT)
  have hlo : pre ch r ≤ y := by
    cases r with
    | zero => simpa [pre] using hy.1
    | succ r =>
      have := r2 r _ (by omega) (cumsum32_getElem? 0 ch hok.1 (le_refl 0) hb r (by omega))
      omega
  refine ⟨r, _, hloc, hrT, vgetItem_idx ch hok r hrT, ?_⟩
  simp only [NSlice.Has]; omega

theorem vlocate_error_iff (ch : List Int) (y : Int) :
    vlocate ch y = .error .indexError ↔ (y < 0 ∨ vbase ch ≤ y) := by
  simp only [vlocate]
  by_cases h : y < 0 ∨ y ≥ vbase ch
  · rw [if_pos h]; simp; omega
  · rw [if_neg h]; simp; omega

theorem vchunks_spec (ch : List Int) (hok : ChunksOK ch) :
    vchunks ch = ch ∧ (vchunks ch).sum = vbase ch ∧ ((vchunks ch).length : Int) = vcount ch ∧
      ∀ (i : Nat) (c : Int), ch[i]? = some c → vtileShape ch i = .ok c := by
  have h1 : vchunks ch = ch := by
    unfold vchunks offsets
    exact diff32_cumsum32 0 ch hok.1 (le_refl 0) (by have := hok.2; omega)
  refine ⟨h1, by rw [h1, vbase_eq_total ch hok, total_eq_sum], by rw [h1, vcount_eq], ?_⟩
  intro i c hc
  have hi := (List.getElem?_eq_some_iff.1 hc).1
  rw [vtile_shape_eq_region_len ch i _ (vgetItem_idx ch hok i hi)]
  simp only []
  rw [pre_step ch i c hc]
  congr 1; omega

theorem vcrop_is_tiling_of_crop (ch : List Int) (hok : ChunksOK ch) (idx : PIdx) (a b : Nat)
    (hr : normSlice idx (vcount ch) = ⟨a, b⟩) (hab : a ≤ b ∧ b ≤ ch.length) :
    vcrop ch idx = (ch.drop a).take (b - a) ∧ ChunksOK (vcrop ch idx) ∧
      (vcrop ch idx).length = b - a ∧ vbase (vcrop ch idx) = pre ch b - pre ch a ∧
      ∀ k : Nat, k < b - a →
        ∃ s s', vgetItem ch (.idx ((a + k : Nat) : Int)) = .ok s ∧
          vgetItem (vcrop ch idx) (.idx (k : Int)) = .ok s' ∧
          s.start = s'.start + pre ch a ∧ s.stop = s'.stop + pre ch a := by
  have hc : vcrop ch idx = (ch.drop a).take (b - a) := by
    simp only [vcrop, hr, (vchunks_spec ch hok).1]
    exact pySlice_inrange ch a b hab
  have hpre : ∀ k, k ≤ b - a → pre ((ch.drop a).take (b - a)) k = pre ch (a + k) - pre ch a := by
    intro k hk
    rw [pre_take _ _ _ hk, pre_drop]
  have hok' : ChunksOK ((ch.drop a).take (b - a)) := by
    constructor
    · intro c hc'
      exact hok.1 c (List.mem_of_mem_drop (List.mem_of_mem_take hc'))
    · rw [total_take, pre_drop]
      have h1 := pre_le_total ch hok.1 (a + (b - a))
      have h2 := pre_nonneg ch hok.1 a
      have := hok.2
      omega
  have hlen : ((ch.drop a).take (b - a)).length = b - a := by
    simp; omega
  rw [hc]
  refine ⟨rfl, hok', hlen, ?_, ?_⟩
  · rw [vbase_eq_total _ hok', total_take, pre_drop]
    have : a + (b - a) = b := by omega
    rw [this]
  · intro k hk
    refine ⟨_, _, vgetItem_idx ch hok (a + k) (by omega), vgetItem_idx _ hok' k (by omega), ?_, ?_⟩
    · simp only []; rw [hpre k (by omega)]; omega
    · simp only []; rw [hpre (k + 1) (by omega)]
      have : a + (k + 1) = a + k + 1 := by omega
      rw [this]; omega

theorem vclip_rebases (ch : List Int) (hok : ChunksOK ch) (sel : List Int) (hne : sel ≠ [])
    (hsel : ∀ s ∈ sel, 0 ≤ s ∧ s < (ch.length : Int)) :
    ∃ ch' y1 y2, vclipTiles ch sel = .ok (ch', ⟨y1, y2 + 1⟩, sel.map (· - y1)) ∧
      ChunksOK ch' ∧ (ch'.length : Int) = y2 + 1 - y1 ∧
      ∀ s ∈ sel, ∃ r r', vgetItem ch (.idx s) = .ok r ∧ vgetItem ch' (.idx (s - y1)) = .ok r' ∧
        r.start = r'.start + pre ch y1.toNat ∧ r.stop = r'.stop + pre ch y1.toNat := by
  obtain ⟨y1, y2, hc, m1, m2, hb⟩ := clipSel_spec sel hne
  have b1 := hsel y1 m1
  have b2 := hsel y2 m2
  have b12 := (hb y2 m2).1
  have hr : normSlice (.slc (some y1) (some (y2 + 1))) (vcount ch) =
      ⟨(y1.toNat : Int), ((y2 + 1).toNat : Int)⟩ := by
    simp only [normSlice, wrapNeg]
    rw [if_pos (by omega), if_pos (by omega)]
    congr 1 <;> omega
  obtain ⟨_, hok', hlen, _, htiles⟩ :=
    vcrop_is_tiling_of_crop ch hok _ y1.toNat (y2 + 1).toNat hr ⟨by omega, by omega⟩
  refine ⟨_, y1, y2, by simp only [vclipTiles, hc, bind, Except.bind, pure, Except.pure],
    hok', by rw [hlen]; omega, ?_⟩
  intro s hs
  have hbs := hb s hs
  obtain ⟨r, r', h1, h2, h3, h4⟩ := htiles (s - y1).toNat (by omega)
  have e1 : ((y1.toNat + (s - y1).toNat : Nat) : Int) = s := by omega
  have e2 : (((s - y1).toNat : Nat) : Int) = s - y1 := by omega
  rw [e1] at h1
  rw [e2] at h2
  exact ⟨r, r', h1, h2, h3, h4⟩

/-! ## the 2-D lift -/

theorem axis_partition (t : Tiling) (hw : t.WF) (y : Int) (hy : 0 ≤ y ∧ y < t.base) :
    ∃! i : Int, (0 ≤ i ∧ i < t.count) ∧ ∃ s, t.getItem (.idx i) = .ok s ∧ s.Has y := by
  cases t with
  | reg N n => exact tiles_partition N n hw y hy
  | var ch =>
    obtain ⟨i, ⟨hi, s, hs, hys⟩, huniq⟩ := vtiles_partition ch hw y hy
    refine ⟨(i : Int), ⟨⟨by omega, by simp only [Tiling.count, vcount_eq]; omega⟩, s, hs, hys⟩, ?_⟩
    rintro j ⟨⟨hj0, hjT⟩, s', hs', hys'⟩
    simp only [Tiling.count, vcount_eq] at hjT
    have := huniq j.toNat ⟨by omega, s', by
      have : ((j.toNat : Nat) : Int) = j := by omega
      rw [this]; exact hs', hys'⟩
    omega

theorem tiles2_partition (t : Tiling2) (hy : t.y.WF) (hx : t.x.WF) (py px : Int)
    (hpy : 0 ≤ py ∧ py < t.y.base) (hpx : 0 ≤ px ∧ px < t.x.base) :
    ∃! rc : Int × Int, ((0 ≤ rc.1 ∧ rc.1 < t.y.count) ∧ (0 ≤ rc.2 ∧ rc.2 < t.x.count)) ∧
      ∃ sy sx, getItem2 t (.idx rc.1) (.idx rc.2) = .ok (sy, sx) ∧ sy.Has py ∧ sx.Has px := by
  obtain ⟨r, ⟨hr, sy, hsy, hyy⟩, ur⟩ := axis_partition t.y hy py hpy
  obtain ⟨c, ⟨hc, sx, hsx, hxx⟩, uc⟩ := axis_partition t.x hx px hpx
  refine ⟨(r, c), ⟨⟨hr, hc⟩, sy, sx, ?_, hyy, hxx⟩, ?_⟩
  · simp only [getItem2, zip2, hsy, hsx, bind, Except.bind, pure, Except.pure]
  · rintro ⟨r', c'⟩ ⟨⟨hr', hc'⟩, sy', sx', h2, hyy', hxx'⟩
    simp only [getItem2, zip2, bind, Except.bind, pure, Except.pure] at h2
    cases hA : t.y.getItem (.idx r') with
    | error e => rw [hA] at h2; cases h2
    | ok a =>
      cases hB : t.x.getItem (.idx c') with
      | error e => rw [hA, hB] at h2; cases h2
      | ok b =>
        rw [hA, hB] at h2
        cases h2
        have e1 := ur r' ⟨hr', _, hA, hyy'⟩
        have e2 := uc c' ⟨hc', _, hB, hxx'⟩
        rw [e1, e2]

theorem locate2_inverse (t : Tiling2) (hy : t.y.WF) (hx : t.x.WF) (py px : Int)
    (hpy : 0 ≤ py ∧ py < t.y.base) (hpx : 0 ≤ px ∧ px < t.x.base) :
    ∃ r c sy sx, locate2 t py px = .ok (r, c) ∧
      getItem2 t (.idx r) (.idx c) = .ok (sy, sx) ∧ sy.Has py ∧ sx.Has px := by
  have ax : ∀ (a : Tiling), a.WF → ∀ p, 0 ≤ p ∧ p < a.base →
      ∃ i s, a.locate p = .ok i ∧ a.getItem (.idx i) = .ok s ∧ s.Has p := by
    intro a ha p hp
    cases a with
    | reg N n =>
      obtain ⟨i, s, h1, _, h2, h3⟩ := locate_inverse N n ha p hp
      exact ⟨i, s, h1, h2, h3⟩
    | var ch =>
      obtain ⟨i, s, h1, _, h2, h3⟩ := vlocate_inverse ch ha p hp
      exact ⟨i, s, h1, h2, h3⟩
  obtain ⟨r, sy, l1, g1, y1⟩ := ax t.y hy py hpy
  obtain ⟨c, sx, l2, g2, x1⟩ := ax t.x hx px hpx
  refine ⟨r, c, sy, sx, ?_, ?_, y1, x1⟩
  · simp only [locate2, zip2, l1, l2, bind, Except.bind, pure, Except.pure]
  · simp only [getItem2, zip2, g1, g2, bind, Except.bind, pure, Except.pure]

/-! ## `GeoboxTiles` -/

theorem Tiling.getItem_nonneg (t : Tiling) (hw : t.WF) (idx : PIdx) (s : NSlice)
    (h : t.getItem idx = .ok s) : 0 ≤ s.start ∧ 0 ≤ s.stop := by
  cases t with
  | reg N n => exact C04.getItem_nonneg N n hw idx s h
  | var ch => exact vgetItem_nonneg ch hw idx s h

theorem gbt_tile_is_crop (g : GeoboxTiles) (hy : g.tiles.y.WF) (hx : g.tiles.x.WF)
    (iy ix : PIdx) (tile : GBox) (h : g.getItem iy ix = .ok tile) :
    ∃ ry rx, getItem2 g.tiles iy ix = .ok (ry, rx) ∧
      tile.ny = ry.stop - ry.start ∧ tile.nx = rx.stop - rx.start ∧
      ∀ p : Rat × Rat, tile.A.apply p = g.base.A.apply (p.1 + rx.start, p.2 + ry.start) := by
  simp only [GeoboxTiles.getItem, getItem2, zip2, bind, Except.bind, pure, Except.pure] at h ⊢
  cases hA : g.tiles.y.getItem iy with
  | error e => rw [hA] at h; cases h
  | ok ry =>
    cases hB : g.tiles.x.getItem ix with
    | error e => rw [hA, hB] at h; cases h
    | ok rx =>
      rw [hA, hB] at h
      cases h
      obtain ⟨a1, a2⟩ := Tiling.getItem_nonneg _ hy iy ry hA
      obtain ⟨b1, b2⟩ := Tiling.getItem_nonneg _ hx ix rx hB
      refine ⟨ry, rx, rfl, ?_, ?_, ?_⟩
      · simp only [GBox.crop, NSlice.toPIdx, normSlice, wrapNeg]
        rw [if_pos (by omega), if_pos (by omega)]
      · simp only [GBox.crop, NSlice.toPIdx, normSlice, wrapNeg]
        rw [if_pos (by omega), if_pos (by omega)]
      · intro p
        simp only [GBox.crop, NSlice.toPIdx, normSlice, wrapNeg]
        rw [if_pos (by omega), if_pos (by omega)]
        rw [Aff.apply_mul]
        congr 1
        simp [Aff.apply, Aff.translation]

/-! ## `BlockAssembler` -/

theorem vgetItem_tileReg (ch : List Int) (hok : ChunksOK ch) (i : Int)
    (hi : 0 ≤ i ∧ i < (ch.length : Int)) : vgetItem ch (.idx i) = .ok (tileReg ch i) := by
  have := vgetItem_idx ch hok i.toNat (by omega)
  have e : ((i.toNat : Nat) : Int) = i := by omega
  rw [e] at this
  exact this

theorem tileReg_ok (ch : List Int) (hok : ChunksOK ch) (i : Int) :
    0 ≤ (tileReg ch i).start ∧ (tileReg ch i).start ≤ (tileReg ch i).stop :=
  ⟨pre_nonneg ch hok.1 _, pre_mono_step ch hok.1 _⟩

section paste
variable {Val : Type}

theorem pasteBlock_spec (a : Assembler Val) (hy : ChunksOK a.chy) (hx : ChunksOK a.chx)
    (wl : List NSlice) (wy wx : NSlice) (wt : List NSlice)
    (hwy : 0 ≤ wy.start ∧ wy.start ≤ wy.stop) (hwx : 0 ≤ wx.start ∧ wx.start ≤ wx.stop)
    (hwl : WinOK wl a.lead) (hwt : WinOK wt a.trail) (xx : Arr Val) (k : Int × Int)
    (hk : KeyOK a k) :
    ∃ xx', pasteBlock a wl wy wx wt xx k = .ok xx' ∧
      ∀ l y x t, InBox l (lens wl) → (0 ≤ y ∧ y < wy.stop - wy.start) →
        (0 ≤ x ∧ x < wx.stop - wx.start) → InBox t (lens wt) →
        xx' l y x t =
          if ((tileReg a.chy k.1).start ≤ wy.start + y ∧ wy.start + y < (tileReg a.chy k.1).stop) ∧
             ((tileReg a.chx k.2).start ≤ wx.start + x ∧ wx.start + x < (tileReg a.chx k.2).stop)
          then a.blk k (shift wl l) (wy.start + y - (tileReg a.chy k.1).start)
                 (wx.start + x - (tileReg a.chx k.2).start) (shift wt t)
          else xx l y x t := by
  obtain ⟨sy, dy, aby, my, iy, ay, spy⟩ := axis_paste (tileReg a.chy k.1) wy (tileReg_ok _ hy _) hwy
  obtain ⟨sx, dx, abx, mx, ix, ax, spx⟩ := axis_paste (tileReg a.chx k.2) wx (tileReg_ok _ hx _) hwx
  obtain ⟨ml, eml, spl⟩ := extraMaps_spec a.lead wl hwl
  obtain ⟨mt, emt, spt⟩ := extraMaps_spec a.trail wt hwt
  simp only [pasteBlock, zip2, vgetItem_tileReg _ hy _ hk.1, vgetItem_tileReg _ hx _ hk.2, iy, ix,
    ay, ax, eml, emt, bind, Except.bind, pure, Except.pure]
  refine ⟨_, rfl, ?_⟩
  intro l y x t hl hyy hxx ht
  simp only [spl l hl, spt t ht, spy y hyy, spx x hxx]
  by_cases c1 : (tileReg a.chy k.1).start ≤ wy.start + y ∧ wy.start + y < (tileReg a.chy k.1).stop
  · by_cases c2 : (tileReg a.chx k.2).start ≤ wx.start + x ∧ wx.start + x < (tileReg a.chx k.2).stop
    · simp only [c1, c2, and_self, if_true]
    · simp only [c1, c2, and_false, and_true, if_true, if_false]
  · simp only [c1, false_and, if_false]

theorem tileReg_unique (ch : List Int) (hok : ChunksOK ch) (i j : Int) (hi : 0 ≤ i) (hj : 0 ≤ j)
    (y : Int) (h1 : (tileReg ch i).Has y) (h2 : (tileReg ch j).Has y) : i = j := by
  simp only [tileReg, NSlice.Has] at h1 h2
  by_contra hne
  rcases Int.lt_or_gt_of_ne hne with h | h
  · have := pre_mono ch hok.1 (i.toNat + 1) j.toNat (by omega); omega
  · have := pre_mono ch hok.1 (j.toNat + 1) i.toNat (by omega); omega

theorem owns_unique (a : Assembler Val) (hy : ChunksOK a.chy) (hx : ChunksOK a.chx)
    (k k' : Int × Int) (hk : KeyOK a k) (hk' : KeyOK a k') (Y X : Int)
    (h : Owns a k Y X) (h' : Owns a k' Y X) : k = k' := by
  have e1 := tileReg_unique a.chy hy k.1 k'.1 hk.1.1 hk'.1.1 Y h.1 h'.1
  have e2 := tileReg_unique a.chx hx k.2 k'.2 hk.2.1 hk'.2.1 X h.2 h'.2
  exact Prod.ext e1 e2

theorem pasteAll_spec (a : Assembler Val) (hy : ChunksOK a.chy) (hx : ChunksOK a.chx)
    (wl : List NSlice) (wy wx : NSlice) (wt : List NSlice)
    (hwy : 0 ≤ wy.start ∧ wy.start ≤ wy.stop) (hwx : 0 ≤ wx.start ∧ wx.start ≤ wx.stop)
    (hwl : WinOK wl a.lead) (hwt : WinOK wt a.trail) (ks : List (Int × Int)) :
    ∀ (xx : Arr Val), (∀ k ∈ ks, KeyOK a k) →
    ∃ out, pasteAll a wl wy wx wt xx ks = .ok out ∧
      ∀ l y x t, InBox l (lens wl) → (0 ≤ y ∧ y < wy.stop - wy.start) →
        (0 ≤ x ∧ x < wx.stop - wx.start) → InBox t (lens wt) →
        (∀ k ∈ ks, Owns a k (wy.start + y) (wx.start + x) →
          out l y x t = a.blk k (shift wl l) (wy.start + y - (tileReg a.chy k.1).start)
            (wx.start + x - (tileReg a.chx k.2).start) (shift wt t)) ∧
        ((∀ k ∈ ks, ¬ Owns a k (wy.start + y) (wx.start + x)) → out l y x t = xx l y x t) := by
  induction ks with
  | nil =>
    intro xx _
    refine ⟨xx, rfl, ?_⟩
    intro l y x t _ _ _ _
    exact ⟨fun k hk => by simp at hk, fun _ => rfl⟩
  | cons k ks ih =>
    intro xx hks
    have hk : KeyOK a k := hks k (by simp)
    obtain ⟨xx', hp, hspec⟩ := pasteBlock_spec a hy hx wl wy wx wt hwy hwx hwl hwt xx k hk
    obtain ⟨out, ho, hout⟩ := ih xx' (fun k' hk' => hks k' (List.mem_cons_of_mem _ hk'))
    refine ⟨out, by simp only [pasteAll, hp, ho, bind, Except.bind], ?_⟩
    intro l y x t hl hyy hxx ht
    obtain ⟨o1, o2⟩ := hout l y x t hl hyy hxx ht
    have hs := hspec l y x t hl hyy hxx ht
    constructor
    · intro k' hk' hown
      by_cases hin : ∃ k'' ∈ ks, Owns a k'' (wy.start + y) (wx.start + x)
      · obtain ⟨k'', hk'', hown''⟩ := hin
        have e : k' = k'' := owns_unique a hy hx k' k'' (hks k' hk')
          (hks k'' (List.mem_cons_of_mem _ hk'')) _ _ hown hown''
        rw [e]; exact o1 k'' hk'' hown''
      · have hnone : ∀ k'' ∈ ks, ¬ Owns a k'' (wy.start + y) (wx.start + x) :=
          fun k'' hk'' ho => hin ⟨k'', hk'', ho⟩
        rcases List.mem_cons.1 hk' with rfl | hk'
        · rw [o2 hnone, hs]; exact if_pos hown
        · exact absurd hown (hnone k' hk')
    · intro hnone
      rw [o2 (fun k' hk' => hnone k' (List.mem_cons_of_mem _ hk')), hs]
      exact if_neg (hnone k (by simp))

theorem assemble_window (a : Assembler Val) (hy : ChunksOK a.chy) (hx : ChunksOK a.chx)
    (hkeys : ∀ k ∈ a.present, KeyOK a k) (fill : Val)
    (rl : List PIdx) (ry rx : PIdx) (rt : List PIdx)
    (hrl : rl.length = a.lead.length) (hrt : rt.length = a.trail.length)
    (hwl : WinOK ((rl.zip a.lead).map fun p => normSlice p.1 p.2) a.lead)
    (hwt : WinOK ((rt.zip a.trail).map fun p => normSlice p.1 p.2) a.trail)
    (hwy : 0 ≤ (normSlice ry (total a.chy)).start ∧
      (normSlice ry (total a.chy)).start ≤ (normSlice ry (total a.chy)).stop)
    (hwx : 0 ≤ (normSlice rx (total a.chx)).start ∧
      (normSlice rx (total a.chx)).start ≤ (normSlice rx (total a.chx)).stop) :
    let wl := (rl.zip a.lead).map fun p => normSlice p.1 p.2
    let wt := (rt.zip a.trail).map fun p => normSlice p.1 p.2
    let wy := normSlice ry (total a.chy)
    let wx := normSlice rx (total a.chx)
    ∃ arr, extract a fill rl ry rx rt =
        .ok ((lens wl, wy.stop - wy.start, wx.stop - wx.start, lens wt), arr) ∧
      ∀ l y x t, InBox l (lens wl) → (0 ≤ y ∧ y < wy.stop - wy.start) →
        (0 ≤ x ∧ x < wx.stop - wx.start) → InBox t (lens wt) →
        (∀ k ∈ a.present, Owns a k (wy.start + y) (wx.start + x) →
          arr l y x t = a.blk k (shift wl l) (wy.start + y - (tileReg a.chy k.1).start)
            (wx.start + x - (tileReg a.chx k.2).start) (shift wt t)) ∧
        ((∀ k ∈ a.present, ¬ Owns a k (wy.start + y) (wx.start + x)) → arr l y x t = fill) := by
  intro wl wt wy wx
  obtain ⟨out, ho, hout⟩ := pasteAll_spec a hy hx wl wy wx wt hwy hwx hwl hwt a.present
    (fun _ _ _ _ => fill) hkeys
  refine ⟨out, ?_, hout⟩
  have n1 := lens_any_neg wl a.lead hwl
  have n2 := lens_any_neg wt a.trail hwt
  simp only [lens] at n1 n2
  simp only [extract]
  rw [if_neg (by omega), if_neg (by rw [n1, n2]; simp; omega)]
  rw [ho]
  rfl

end paste

/-! ## `planes_yx`: `np.ndindex` over the extra axes (the `Y, X` pair is spliced in by definition) -/

theorem ndindex_mem (shape idx : List Nat) : idx ∈ ndindex shape ↔ InShape idx shape := by
  induction shape generalizing idx with
  | nil =>
    cases idx with
    | nil => simp [ndindex, InShape]
    | cons i is => simp [ndindex, InShape]
  | cons n ns ih =>
    cases idx with
    | nil => simp [ndindex, InShape]
    | cons i is =>
      simp only [ndindex, List.mem_flatMap, List.mem_range, List.mem_map, InShape]
      constructor
      · rintro ⟨j, hj, rest, hrest, heq⟩
        have e := List.cons.inj heq
        rw [← e.1, ← e.2]
        exact ⟨hj, (ih rest).1 hrest⟩
      · rintro ⟨hi, his⟩
        exact ⟨i, hi, is, (ih is).2 his, rfl⟩

theorem ndindex_nodup (shape : List Nat) : (ndindex shape).Nodup := by
  induction shape with
  | nil => simp [ndindex]
  | cons n ns ih =>
    simp only [ndindex]
    rw [List.nodup_flatMap]
    refine ⟨?_, ?_⟩
    · intro i _
      exact (List.nodup_map_iff_inj_on ih).2 (fun a _ b _ h => by simpa using h)
    · apply List.Pairwise.imp _ (List.nodup_range (n := n))
      intro i j hij
      intro l h1 h2
      obtain ⟨r1, _, e1⟩ := List.mem_map.1 h1
      obtain ⟨r2, _, e2⟩ := List.mem_map.1 h2
      rw [← e2] at e1
      exact hij (by simpa using (List.cons.inj e1).1)


/-! ## `clip_tiles` depends on the *set* of selected tiles only (unsorted, duplicated selections) -/

theorem minL_eq_of_mem_iff (a b : Int) (xs ys : List Int) (h : ∀ v, v ∈ a :: xs ↔ v ∈ b :: ys) :
    minL a xs = minL b ys := by
  have m1 := minL_mem a xs
  have m2 := minL_mem b ys
  have l1 := minL_le a xs
  have l2 := minL_le b ys
  have le_all1 : ∀ v ∈ a :: xs, minL a xs ≤ v := by
    intro v hv; rcases List.mem_cons.1 hv with rfl | hv
    · exact l1.1
    · exact l1.2 v hv
  have le_all2 : ∀ v ∈ b :: ys, minL b ys ≤ v := by
    intro v hv; rcases List.mem_cons.1 hv with rfl | hv
    · exact l2.1
    · exact l2.2 v hv
  have := le_all1 _ ((h _).2 m2)
  have := le_all2 _ ((h _).1 m1)
  omega

theorem maxL_eq_of_mem_iff (a b : Int) (xs ys : List Int) (h : ∀ v, v ∈ a :: xs ↔ v ∈ b :: ys) :
    maxL a xs = maxL b ys := by
  have m1 := maxL_mem a xs
  have m2 := maxL_mem b ys
  have l1 := le_maxL a xs
  have l2 := le_maxL b ys
  have ge_all1 : ∀ v ∈ a :: xs, v ≤ maxL a xs := by
    intro v hv; rcases List.mem_cons.1 hv with rfl | hv
    · exact l1.1
    · exact l1.2 v hv
  have ge_all2 : ∀ v ∈ b :: ys, v ≤ maxL b ys := by
    intro v hv; rcases List.mem_cons.1 hv with rfl | hv
    · exact l2.1
    · exact l2.2 v hv
  have := ge_all1 _ ((h _).2 m2)
  have := ge_all2 _ ((h _).1 m1)
  omega

/-- **clip_tiles, any order, any multiplicity**: two selections with the same *set* of tile
indices (permuted, with duplicates, …) are clipped to the same block `[y1, y2]`, and each
re-based index is the original index minus the block origin, in the order given. -/
theorem clipSel_set_invariant (s t : List Int) (hs : s ≠ []) (h : ∀ v, v ∈ s ↔ v ∈ t) :
    ∃ y1 y2, clipSel s = .ok (y1, y2, s.map (· - y1)) ∧ clipSel t = .ok (y1, y2, t.map (· - y1)) := by
  cases s with
  | nil => exact absurd rfl hs
  | cons a xs =>
    cases t with
    | nil => exact absurd ((h a).1 (by simp)) (by simp)
    | cons b ys =>
      refine ⟨minL a xs, maxL a xs, rfl, ?_⟩
      simp only [clipSel]
      rw [minL_eq_of_mem_iff a b xs ys h, maxL_eq_of_mem_iff a b xs ys h]

/-- … hence the clipped regular tiling is the same for both spellings of the selection. -/
theorem clipTiles_set_invariant (N n : Int) (s t : List Int) (hs : s ≠ []) (h : ∀ v, v ∈ s ↔ v ∈ t) :
    (clipTiles N n s).map (fun r => (r.1, r.2.1)) = (clipTiles N n t).map (fun r => (r.1, r.2.1)) := by
  obtain ⟨y1, y2, h1, h2⟩ := clipSel_set_invariant s t hs h
  simp only [clipTiles, h1, h2, bind, Except.bind, pure, Except.pure]
  cases crop N n (.slc (some y1) (some (y2 + 1))) <;> rfl

/-! ## zero-size members: empty tile ranges and zero-length chunks are addressable -/

/-- **ranges of variable tiles, empty ones included**: for `0 ≤ a ≤ b ≤ T` the block of tiles
`a:b` is the region `[Σ ch[:a], Σ ch[:b])`; `a:a` is the empty region at that offset. -/
theorem vgetItem_range (ch : List Int) (hok : ChunksOK ch) (idx : PIdx) (a b : Nat)
    (hr : normSlice idx (vcount ch) = ⟨a, b⟩) (hab : a ≤ ch.length ∧ b ≤ ch.length) :
    vgetItem ch idx = .ok ⟨pre ch a, pre ch b⟩ := by
  rw [vgetItem_of_norm ch idx a b hr, if_neg (by omega), npGet_offsets ch hok a hab.1,
      npGet_offsets ch hok b hab.2]
  rfl

/-- a zero-length chunk is a legitimate tile: addressable, with an empty region and shape 0 -/
theorem vzero_chunk_tile (ch : List Int) (hok : ChunksOK ch) (i : Nat) (hc : ch[i]? = some 0) :
    ∃ s, vgetItem ch (.idx i) = .ok s ∧ s.start = s.stop ∧ vtileShape ch i = .ok 0 := by
  have hi := (List.getElem?_eq_some_iff.1 hc).1
  refine ⟨_, vgetItem_idx ch hok i hi, ?_, ((vchunks_spec ch hok).2.2.2 i 0 hc)⟩
  simp only []
  rw [pre_step ch i 0 hc]; omega

/-- **`GeoboxTiles[idx]` ≡ `.crop[idx].base`** for every index expression (ints, ranges, empty
ranges): whenever `crop` answers, `__getitem__` answers with the same GeoBox … -/
theorem gbt_getitem_eq_crop_base (g : GeoboxTiles) (iy ix : PIdx) (g' : GeoboxTiles)
    (h : g.crop iy ix = .ok g') : g.getItem iy ix = .ok g'.base := by
  simp only [GeoboxTiles.crop, GeoboxTiles.getItem, bind, Except.bind, pure, Except.pure] at h ⊢
  cases hA : getItem2 g.tiles iy ix with
  | error e => rw [hA] at h; cases h
  | ok r =>
    rw [hA] at h
    simp only [] at h ⊢
    cases hB : crop2 g.tiles iy ix with
    | error e => rw [hB] at h; cases h
    | ok t => rw [hB] at h; cases h; rfl

/-- … and it is the parent cropped to `roi[idx]` (`base[self.roi[idx]]`) by definition; on
variable tiles `crop` answers whenever `__getitem__` does, so the three spellings agree. -/
theorem gbt_getitem_eq_base_roi (g : GeoboxTiles) (iy ix : PIdx) (ry rx : NSlice)
    (h : getItem2 g.tiles iy ix = .ok (ry, rx)) :
    g.getItem iy ix = .ok (g.base.crop ry.toPIdx rx.toPIdx) := by
  simp only [GeoboxTiles.getItem, h, bind, Except.bind, pure, Except.pure]

theorem gbt_crop_of_getitem_var (base : GBox) (chy chx : List Int) (iy ix : PIdx) (tile : GBox)
    (h : (GeoboxTiles.mk base ⟨.var chy, .var chx⟩).getItem iy ix = .ok tile) :
    ∃ g', (GeoboxTiles.mk base ⟨.var chy, .var chx⟩).crop iy ix = .ok g' ∧ g'.base = tile := by
  simp only [GeoboxTiles.crop, GeoboxTiles.getItem, bind, Except.bind, pure, Except.pure] at h ⊢
  cases hA : getItem2 ⟨.var chy, .var chx⟩ iy ix with
  | error e => rw [hA] at h; cases h
  | ok r =>
    rw [hA] at h
    simp only [] at h ⊢
    cases h
    refine ⟨⟨base.crop r.1.toPIdx r.2.toPIdx, ⟨.var (vcrop chy iy), .var (vcrop chx ix)⟩⟩, ?_, rfl⟩
    simp only [crop2, zip2, Tiling.crop, bind, Except.bind, pure, Except.pure]



/-! ## `_norm_roi`: window spellings -/

/-- the index list a `Roi` stands for before padding -/
def Roi.given (shape : List Int) : Roi → List PIdx
  | .none => shape.map fullIdx
  | .single i => [i]
  | .tuple is => is

theorem padRoi_def (shape : List Int) (axis : Nat) (roi : Roi) :
    padRoi shape axis roi =
      if (roi.given shape).length = 2 then
        .ok ((shape.take axis).map fullIdx ++ roi.given shape ++ (shape.drop (axis + 2)).map fullIdx)
      else if (roi.given shape).length < shape.length then
        .ok (roi.given shape ++ (shape.drop (roi.given shape).length).map fullIdx)
      else if (roi.given shape).length > shape.length then .error .indexError
      else .ok (roi.given shape) := by
  cases roi <;> rfl

/-- `_norm_roi` raises (`IndexError`) exactly for a window with more entries than the array has
axes – except that a 2-tuple is always read as the `Y, X` window. -/
theorem padRoi_error_iff (shape : List Int) (axis : Nat) (roi : Roi) :
    padRoi shape axis roi = .error .indexError ↔
      ((roi.given shape).length ≠ 2 ∧ shape.length < (roi.given shape).length) := by
  rw [padRoi_def]
  by_cases h2 : (roi.given shape).length = 2
  · rw [if_pos h2]; simp [h2]
  · rw [if_neg h2]
    by_cases h3 : (roi.given shape).length < shape.length
    · rw [if_pos h3]; simp; omega
    · rw [if_neg h3]
      by_cases h4 : (roi.given shape).length > shape.length
      · rw [if_pos h4]; simp; omega
      · rw [if_neg h4]; simp; omega

/-- the padded window always has one entry per axis -/
theorem padRoi_length (shape : List Int) (axis : Nat) (hax : axis + 2 ≤ shape.length) (roi : Roi)
    (r : List PIdx) (h : padRoi shape axis roi = .ok r) : r.length = shape.length := by
  rw [padRoi_def] at h
  by_cases h2 : (roi.given shape).length = 2
  · rw [if_pos h2] at h; cases h
    have e := h2
    simp only [List.length_append, List.length_map, List.length_take, List.length_drop]
    omega
  · rw [if_neg h2] at h
    by_cases h3 : (roi.given shape).length < shape.length
    · rw [if_pos h3] at h; cases h
      simp only [List.length_append, List.length_map, List.length_drop]; omega
    · rw [if_neg h3] at h
      by_cases h4 : (roi.given shape).length > shape.length
      · rw [if_pos h4] at h; cases h
      · rw [if_neg h4] at h; cases h; omega

theorem squeezeFrom_append (axis k : Nat) (xs ys : List PIdx) :
    squeezeFrom axis k (xs ++ ys) = squeezeFrom axis k xs ++ squeezeFrom axis (k + xs.length) ys := by
  induction xs generalizing k with
  | nil => simp [squeezeFrom]
  | cons x xs ih =>
    simp only [List.cons_append, squeezeFrom, ih, List.length_cons, List.append_assoc]
    have : k + 1 + xs.length = k + (xs.length + 1) := by omega
    rw [this]

theorem squeezeFrom_full (axis k : Nat) (ns : List Int) : squeezeFrom axis k (ns.map fullIdx) = [] := by
  induction ns generalizing k with
  | nil => rfl
  | cons n ns ih => simp [squeezeFrom, fullIdx, isInt, ih]

/-- **which axes an int squeezes**: axis `j` is squeezed iff the padded window has a plain int at
position `j` and `j` is neither `Y` nor `X`. -/
theorem squeezeFrom_mem (axis k : Nat) (r : List PIdx) (j : Nat) :
    j ∈ squeezeFrom axis k r ↔
      ∃ i p, r[i]? = some p ∧ j = k + i ∧ isInt p = true ∧ j ≠ axis ∧ j ≠ axis + 1 := by
  induction r generalizing k with
  | nil => simp [squeezeFrom]
  | cons q qs ih =>
    simp only [squeezeFrom, List.mem_append, ih]
    constructor
    · rintro (h | ⟨i, p, hp, hj, hr⟩)
      · by_cases hc : (isInt q && k != axis && k != axis + 1) = true
        · rw [if_pos hc] at h
          simp at h hc
          exact ⟨0, q, by simp, by omega, hc.1.1, by omega, by omega⟩
        · rw [if_neg hc] at h; simp at h
      · exact ⟨i + 1, p, by simpa using hp, by omega, hr⟩
    · rintro ⟨i, p, hp, hj, h1, h2, h3⟩
      cases i with
      | zero =>
        left
        simp at hp; subst hp
        have : (isInt q && k != axis && k != axis + 1) = true := by simp [h1]; omega
        rw [if_pos this]; simp; omega
      | succ i =>
        right
        exact ⟨i, p, by simpa using hp, by omega, h1, h2, h3⟩

theorem squeeze_spec (axis : Nat) (r : List PIdx) (j : Nat) :
    j ∈ squeezeAxes axis r ↔ ∃ p, r[j]? = some p ∧ isInt p = true ∧ j ≠ axis ∧ j ≠ axis + 1 := by
  unfold squeezeAxes
  rw [squeezeFrom_mem]
  constructor
  · rintro ⟨i, p, hp, hj, h⟩
    have : i = j := by omega
    subst this; exact ⟨p, hp, h⟩
  · rintro ⟨p, hp, h⟩
    exact ⟨j, p, hp, by omega, h⟩

/-- **a 2-tuple is the `Y, X` window and squeezes nothing** (whatever the rank of the blocks and
whether the row / column is given as int or slice): the leading and trailing axes are taken in
full and stay in the result. -/
theorem normRoi_two_tuple (shape : List Int) (axis : Nat) (hax : axis ≤ shape.length) (wy wx : PIdx) :
    padRoi shape axis (.tuple [wy, wx]) =
      .ok ((shape.take axis).map fullIdx ++ [wy, wx] ++ (shape.drop (axis + 2)).map fullIdx) ∧
    squeezeAxes axis ((shape.take axis).map fullIdx ++ [wy, wx] ++ (shape.drop (axis + 2)).map fullIdx) = [] := by
  refine ⟨rfl, ?_⟩
  unfold squeezeAxes
  rw [squeezeFrom_append, squeezeFrom_append, squeezeFrom_full, squeezeFrom_full]
  have hl : ((shape.take axis).map fullIdx).length = axis := by simp; omega
  simp only [List.nil_append, List.append_nil, Nat.zero_add, hl, squeezeFrom]
  simp

/-- an int on a leading / trailing axis of a full-rank window is squeezed, an int on `Y` or `X`
is not -/
example : normRoi [3, 7, 5, 2] 1 (.tuple [.idx (-1), .idx 2, .slc (some 1) (some 4), .idx 0]) =
    .ok ([⟨2, 3⟩, ⟨2, 3⟩, ⟨1, 4⟩, ⟨0, 1⟩], [0, 3]) := by decide

theorem dropFrom_nil (k : Nat) (shape : List Int) : dropFrom [] k shape = shape := by
  induction shape generalizing k with
  | nil => rfl
  | cons n ns ih => simp [dropFrom, ih]

theorem Assembler.shape_take {Val} (a : Assembler Val) : a.shape.take a.lead.length = a.lead := by
  simp [Assembler.shape]

theorem Assembler.shape_drop {Val} (a : Assembler Val) : a.shape.drop (a.lead.length + 2) = a.trail := by
  simp only [Assembler.shape, List.append_assoc]
  rw [List.drop_append]
  simp

/-- **`extract` with a 2-tuple window** is `extract` with the leading / trailing axes in full and
no axis removed: so (with `assemble_window`) for blocks of any rank, `assembler[y, x-range]` has
the shape `lead ++ [h, w] ++ trail` – a row or column given as an int stays as a length-1
axis – and every cell is the block cell of the tile owning that mosaic pixel, else the fill. -/
theorem extractND_two_tuple {Val} (a : Assembler Val) (fill : Val) (ry rx : PIdx) :
    extractND a fill (.tuple [ry, rx]) =
      (extract a fill (a.lead.map fullIdx) ry rx (a.trail.map fullIdx)).map fun r =>
        (r.1.1 ++ [r.1.2.1, r.1.2.2.1] ++ r.1.2.2.2, r.1, r.2) := by
  have hp := (normRoi_two_tuple a.shape a.lead.length (by simp [Assembler.shape]) ry rx)
  rw [Assembler.shape_take, Assembler.shape_drop] at hp
  simp only [extractND, hp.1, bind, Except.bind, pure, Except.pure]
  have hl : (a.lead.map fullIdx).length = a.lead.length := by simp
  have e1 : (List.map fullIdx a.lead ++ [ry, rx] ++ List.map fullIdx a.trail).drop a.lead.length =
      ry :: rx :: a.trail.map fullIdx := by
    rw [List.append_assoc, List.drop_append, ← hl]; simp
  have e2 : (List.map fullIdx a.lead ++ [ry, rx] ++ List.map fullIdx a.trail).take a.lead.length =
      a.lead.map fullIdx := by
    rw [List.append_assoc, List.take_append, ← hl]; simp
  rw [e1, e2]
  simp only []
  cases extract a fill (a.lead.map fullIdx) ry rx (a.trail.map fullIdx) with
  | error e => rfl
  | ok r =>
    have hsq := hp.2
    simp only [List.append_assoc, List.cons_append, List.nil_append] at hsq
    simp only [Except.map, dropAxes, List.append_assoc, List.cons_append, List.nil_append, hsq, dropFrom_nil]

/-- full slices are legitimate extra-axis windows (hypothesis of `assemble_window`) -/
theorem winOK_full (ns : List Int) (h : ∀ n ∈ ns, 0 ≤ n) :
    WinOK (((ns.map fullIdx).zip ns).map fun p => normSlice p.1 p.2) ns := by
  induction ns with
  | nil => simp [WinOK]
  | cons n ns ih =>
    have hn := h n (by simp)
    simp only [List.map_cons, List.zip_cons_cons, WinOK, fullIdx, normSlice, wrapNeg]
    refine ⟨?_, ih (fun m hm => h m (List.mem_cons_of_mem _ hm))⟩
    simp; omega


theorem lens_full (ns : List Int) (h : ∀ n ∈ ns, 0 ≤ n) :
    lens (((ns.map fullIdx).zip ns).map fun p => normSlice p.1 p.2) = ns := by
  induction ns with
  | nil => rfl
  | cons n ns ih =>
    have hn := h n (by simp)
    have := ih (fun m hm => h m (List.mem_cons_of_mem _ hm))
    simp only [lens] at this ⊢
    simp only [List.map_cons, List.zip_cons_cons, fullIdx, normSlice, wrapNeg, this]
    congr 1
    simp; omega

/-- **assemble_window for the `assembler[y, x]` spelling, any block rank** (the C04-12 class):
with leading axes `lead` and trailing axes `trail`, a 2-tuple window – row and column each an
int, a negative int, a slice or an open slice – returns an array of shape
`lead ++ [h, w] ++ trail` (nothing is squeezed; an int row is a length-1 axis), whose cells are
the block cells of the tiles owning the mosaic pixels, else the fill value. -/
theorem assemble_window_two_tuple {Val} (a : Assembler Val) (hy : ChunksOK a.chy) (hx : ChunksOK a.chx)
    (hkeys : ∀ k ∈ a.present, KeyOK a k) (hlead : ∀ n ∈ a.lead, 0 ≤ n) (htrail : ∀ n ∈ a.trail, 0 ≤ n)
    (fill : Val) (ry rx : PIdx)
    (hwy : 0 ≤ (normSlice ry (total a.chy)).start ∧
      (normSlice ry (total a.chy)).start ≤ (normSlice ry (total a.chy)).stop)
    (hwx : 0 ≤ (normSlice rx (total a.chx)).start ∧
      (normSlice rx (total a.chx)).start ≤ (normSlice rx (total a.chx)).stop) :
    let wy := normSlice ry (total a.chy)
    let wx := normSlice rx (total a.chx)
    let wl := ((a.lead.map fullIdx).zip a.lead).map fun p => normSlice p.1 p.2
    let wt := ((a.trail.map fullIdx).zip a.trail).map fun p => normSlice p.1 p.2
    ∃ arr, extractND a fill (.tuple [ry, rx]) =
        .ok (a.lead ++ [wy.stop - wy.start, wx.stop - wx.start] ++ a.trail,
             (a.lead, wy.stop - wy.start, wx.stop - wx.start, a.trail), arr) ∧
      ∀ l y x t, InBox l a.lead → (0 ≤ y ∧ y < wy.stop - wy.start) →
        (0 ≤ x ∧ x < wx.stop - wx.start) → InBox t a.trail →
        (∀ k ∈ a.present, Owns a k (wy.start + y) (wx.start + x) →
          arr l y x t = a.blk k (shift wl l) (wy.start + y - (tileReg a.chy k.1).start)
            (wx.start + x - (tileReg a.chx k.2).start) (shift wt t)) ∧
        ((∀ k ∈ a.present, ¬ Owns a k (wy.start + y) (wx.start + x)) → arr l y x t = fill) := by
  intro wy wx wl wt
  obtain ⟨arr, he, hcells⟩ := assemble_window a hy hx hkeys fill (a.lead.map fullIdx) ry rx
    (a.trail.map fullIdx) (by simp) (by simp) (winOK_full a.lead hlead) (winOK_full a.trail htrail)
    hwy hwx
  have l1 := lens_full a.lead hlead
  have l2 := lens_full a.trail htrail
  rw [l1, l2] at he hcells
  refine ⟨arr, ?_, hcells⟩
  rw [extractND_two_tuple, he]
  rfl

/-! ## `planes_yx` enumerates every plane exactly once -/

theorem ndindex_length (shape idx : List Nat) (h : idx ∈ ndindex shape) : idx.length = shape.length := by
  induction shape generalizing idx with
  | nil => simp [ndindex] at h; simp [h]
  | cons n ns ih =>
    simp only [ndindex, List.mem_flatMap, List.mem_map] at h
    obtain ⟨i, _, rest, hr, rfl⟩ := h
    simp [ih rest hr]

/-- **planes_yx**: the planes are in one-to-one correspondence with the index vectors of the
other axes (`ndindex_mem`): no plane is produced twice, and the plane of index vector `p ++ q`
(`p` over the leading, `q` over the trailing axes) is `p ++ [Y, X] ++ q`. -/
theorem planesYX_nodup (lead trail : List Nat) : (planesYX lead trail).Nodup := by
  unfold planesYX
  refine (List.nodup_map_iff_inj_on (ndindex_nodup _)).2 ?_
  intro x hx y hy hxy
  have lx := ndindex_length _ _ hx
  have ly := ndindex_length _ _ hy
  simp only [List.length_append] at lx ly
  have h1 : ((x.take lead.length).map some).length = ((y.take lead.length).map some).length := by
    simp; omega
  have hxy' : (x.take lead.length).map some ++ ([none, none] ++ (x.drop lead.length).map some) =
      (y.take lead.length).map some ++ ([none, none] ++ (y.drop lead.length).map some) := by
    simpa [List.append_assoc] using hxy
  obtain ⟨e1, e2⟩ := List.append_inj hxy' h1
  have e3 := List.append_cancel_left e2
  have inj : Function.Injective (some : Nat → Option Nat) := fun _ _ h => Option.some.inj h
  have t := List.map_injective_iff.2 inj e1
  have d := List.map_injective_iff.2 inj e3
  rw [← List.take_append_drop lead.length x, ← List.take_append_drop lead.length y, t, d]

theorem planesYX_mem (lead trail p q : List Nat) (hp : p.length = lead.length) :
    (p.map some ++ [none, none] ++ q.map some) ∈ planesYX lead trail ↔ (p ++ q) ∈ ndindex (lead ++ trail) := by
  unfold planesYX
  constructor
  · intro h
    obtain ⟨idx, hidx, he⟩ := List.mem_map.1 h
    have hl := ndindex_length _ _ hidx
    simp only [List.length_append] at hl
    have h1 : ((idx.take lead.length).map some).length = (p.map some).length := by simp; omega
    have he' : (idx.take lead.length).map some ++ ([none, none] ++ (idx.drop lead.length).map some) =
        p.map some ++ ([none, none] ++ q.map some) := by simpa [List.append_assoc] using he
    obtain ⟨e1, e2⟩ := List.append_inj he' h1
    have e3 := List.append_cancel_left e2
    have inj : Function.Injective (some : Nat → Option Nat) := fun _ _ h => Option.some.inj h
    have t := List.map_injective_iff.2 inj e1
    have d := List.map_injective_iff.2 inj e3
    rw [← t, ← d, List.take_append_drop]; exact hidx
  · intro h
    refine List.mem_map.2 ⟨p ++ q, h, ?_⟩
    rw [← hp]; simp


/-! ## hypotheses are satisfiable / needed -/

example : ChunksOK [2, 0, 3] := ⟨by decide, by decide⟩
example : Tiling.WF (.reg 5 14) := by show (0:Int) < 14; decide
example : getItem 5 14 (.idx 0) = .ok ⟨0, 5⟩ := by decide
example : vgetItem [2, 0, 3] (.idx 1) = .ok ⟨2, 2⟩ := by decide
example : vlocate [2, 0, 3] 2 = .ok 2 := by decide

/-- the `int32` hypothesis of the variable-tile theorems is needed: with `Σ chunks = 2^31` the
cumulative sum wraps and `.base` is negative (the real code returns the same). -/
theorem vbase_wraps_cex : vbase [1073741824, 1073741824] = -2147483648 := by decide

end OdcGeo.C04
