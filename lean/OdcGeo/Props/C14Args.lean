/-
C14, growth round 2 — the public entry points of `GridSpec` from their RAW arguments to their results
(`Model/C14Args.lean`): argument normalisers and their order, `from_sample_tile` / `web_tiles` from raw
arguments, index spellings of `tile_geobox` / `__getitem__`, IEEE specials in query coordinates, lazy generators
sharing one `geobox_cache` under any interleaving, `__eq__` with foreign operands, `geojson()`.

The end-to-end theorems take as hypothesis only "the public constructor returned this object"
(`GridSpec.init id crs shape res origin fx fy = .ok g`) and conclude the statement of property C14.
-/
import OdcGeo.Model.C14Args
import OdcGeo.Lemmas.C14Args
import OdcGeo.Props.C14

namespace OdcGeo.C14

/-! ## `shape_`, `res_`, `origin`, `crs`: spellings and their order in `GridSpec.__init__` -/

/-- every integer spelling of a shape `(ny, nx)` — tuple, list, `Shape2d(x=nx, y=ny)`, `XY(x=nx, y=ny)` /
    `Index2d` — normalises to the same `(ny, nx)` -/
theorem shape_forms_agree (ny nx : Int) :
    shapeNorm (.tuple [.int ny, .int nx]) = .ok (ny, nx) ∧ shapeNorm (.list [.int ny, .int nx]) = .ok (ny, nx) ∧
    shapeNorm (.shape2d ny nx) = .ok (ny, nx) ∧ shapeNorm (.xy (.int nx) (.int ny)) = .ok (ny, nx) :=
  ⟨rfl, rfl, rfl, rfl⟩

/-- float members of a sequence / `XY` shape are truncated toward zero (`int()`), an integral float is its integer -/
theorem shape_float_truncates (a b : Rat) :
    shapeNorm (.tuple [.flt a, .flt b]) = .ok (pyTrunc a, pyTrunc b) ∧
    shapeNorm (.xy (.flt b) (.flt a)) = .ok (pyTrunc a, pyTrunc b) ∧
    (0 ≤ a → (pyTrunc a : Rat) ≤ a ∧ a < (pyTrunc a : Rat) + 1) ∧
    (a < 0 → a ≤ (pyTrunc a : Rat) ∧ (pyTrunc a : Rat) - 1 < a) ∧
    (∀ n : Int, pyTrunc (n : Rat) = n) :=
  ⟨rfl, rfl, pyTrunc_nonneg, pyTrunc_neg, pyTrunc_int⟩

/-- exactly which shape arguments `shape_` accepts: a `Shape2d`, an `XY` or a 2-sequence whose members are finite -/
theorem shape_norm_ok_iff (s : ShapeArg) :
    (∃ p, shapeNorm s = .ok p) ↔
      match s with
      | .shape2d _ _ => True
      | .xy x y => x.isFinite = true ∧ y.isFinite = true
      | .tuple [a, b] => a.isFinite = true ∧ b.isFinite = true
      | .list [a, b] => a.isFinite = true ∧ b.isFinite = true
      | _ => False := by
  have two : ∀ a b : Num, (∃ p, unpack2 [a, b] = .ok p) ↔ (a.isFinite = true ∧ b.isFinite = true) := by
    intro a b
    cases a <;> cases b <;> simp [unpack2, Num.toInt, Num.isFinite, bind, Except.bind, pure, Except.pure]
  have bad : ∀ l : List Num, (∀ a b, l ≠ [a, b]) → ¬ ∃ p, unpack2 l = .ok p := by
    intro l hl
    match l, hl with
    | [], _ => simp [unpack2]
    | [a], _ => cases a <;> simp [unpack2, Num.toInt, bind, Except.bind, throw, throwThe, MonadExceptOf.throw]
    | [a, b], hl => exact absurd rfl (hl a b)
    | a :: b :: c :: r, _ =>
      cases a <;> cases b <;> cases c <;>
        simp [unpack2, Num.toInt, bind, Except.bind, throw, throwThe, MonadExceptOf.throw]
  cases s with
  | shape2d ny nx => simp [shapeNorm]
  | xy x y =>
    cases x <;> cases y <;> simp [shapeNorm, Num.toInt, Num.isFinite, bind, Except.bind, pure, Except.pure]
  | tuple l =>
    match l with
    | [a, b] => exact two a b
    | [] => simpa [shapeNorm] using bad [] (by simp)
    | [a] => simpa [shapeNorm] using bad [a] (by simp)
    | a :: b :: c :: r => simpa [shapeNorm] using bad (a :: b :: c :: r) (by simp)
  | list l =>
    match l with
    | [a, b] => exact two a b
    | [] => simpa [shapeNorm] using bad [] (by simp)
    | [a] => simpa [shapeNorm] using bad [a] (by simp)
    | a :: b :: c :: r => simpa [shapeNorm] using bad (a :: b :: c :: r) (by simp)
  | other => simp [shapeNorm]

/-- a scalar resolution `r` means square pixels with the y axis pointing down: `(r, -r)` (the sign of `r` is kept) -/
theorem res_scalar_is_north_up (r : Rat) (n : Int) :
    resNorm id (.flt r) = .ok (r, -r) ∧ resNorm id (.int n) = .ok ((n : Rat), -(n : Rat)) ∧
    resNorm id .other = .error (.k .valueError) ∧ ∀ x y, resNorm id (.res x y) = .ok (x, y) :=
  ⟨rfl, rfl, rfl, fun _ _ => rfl⟩

section init
variable {crs : CrsArg} {shape : ShapeArg} {res : ResArg} {origin : OriginArg} {fx fy : Bool} {g : GridSpec}

/-- `GridSpec(crs, tile_shape, resolution, origin, flipx, flipy)` succeeds iff every argument normalises, the CRS is
    one pyproj understands, and both tile sizes are positive — and then it IS the numeric constructor on the
    normalised values. -/
theorem init_ok_iff (fl : Rnd) (crs : CrsArg) (shape : ShapeArg) (res : ResArg) (origin : OriginArg)
    (fx fy : Bool) (g : GridSpec) :
    GridSpec.init fl crs shape res origin fx fy = .ok g ↔
      ∃ s r o, shapeNorm shape = .ok s ∧ resNorm fl res = .ok r ∧ originNorm origin = .ok o ∧ crs = .valid ∧
        GridSpec.new fl s.1 s.2 r.1 r.2 o.1 o.2 fx fy = .ok g :=
  init_ok_decomp fl crs shape res origin fx fy g

/-- acceptance in terms of the arguments alone (exact arithmetic) -/
theorem init_accepts_iff (crs : CrsArg) (shape : ShapeArg) (res : ResArg) (origin : OriginArg) (fx fy : Bool) :
    (∃ g, GridSpec.init id crs shape res origin fx fy = .ok g) ↔
      ∃ s r, shapeNorm shape = .ok s ∧ resNorm id res = .ok r ∧ origin ≠ .other ∧ crs = .valid ∧
        0 < (s.2 : Rat) * rabs r.1 ∧ 0 < (s.1 : Rat) * rabs r.2 := by
  constructor
  · rintro ⟨g, h⟩
    obtain ⟨s, r, o, h1, h2, h3, h4, h5⟩ := (init_ok_iff id crs shape res origin fx fy g).mp h
    refine ⟨s, r, h1, h2, ?_, h4, (gridspec_new_ok_iff _ _ _ _ _ _ _ _).mp ⟨g, h5⟩⟩
    rintro rfl; simp [originNorm] at h3
  · rintro ⟨s, r, h1, h2, h3, h4, h5⟩
    obtain ⟨o, ho⟩ : ∃ o, originNorm origin = .ok o := by
      cases origin with
      | none => exact ⟨_, rfl⟩
      | xy x y => exact ⟨_, rfl⟩
      | other => exact absurd rfl h3
    obtain ⟨g, hg⟩ := (gridspec_new_ok_iff s.1 s.2 r.1 r.2 o.1 o.2 fx fy).mpr h5
    exact ⟨g, (init_ok_iff id crs shape res origin fx fy g).mpr ⟨s, r, o, h1, h2, ho, h4, hg⟩⟩

/-- the order in which `__init__` complains: shape, then resolution, then origin, then CRS (`None`, rejected by pyproj,
    `"utm"` without context), then the tile sizes
    (y before x) — whatever the later arguments are -/
theorem init_error_order (fl : Rnd) (crs : CrsArg) (shape : ShapeArg) (res : ResArg) (origin : OriginArg)
    (fx fy : Bool) :
    (∀ e, shapeNorm shape = .error e → GridSpec.init fl crs shape res origin fx fy = .error e) ∧
    (∀ s e, shapeNorm shape = .ok s → resNorm fl res = .error e →
      GridSpec.init fl crs shape res origin fx fy = .error e) ∧
    (∀ s r, shapeNorm shape = .ok s → resNorm fl res = .ok r → origin = .other →
      GridSpec.init fl crs shape res origin fx fy = .error (.k .assertion)) ∧
    (∀ s r, shapeNorm shape = .ok s → resNorm fl res = .ok r → origin ≠ .other → crs = .none →
      GridSpec.init fl crs shape res origin fx fy = .error (.k .valueError)) ∧
    (∀ s r, shapeNorm shape = .ok s → resNorm fl res = .ok r → origin ≠ .other → crs = .invalid →
      GridSpec.init fl crs shape res origin fx fy = .error (.k .runtimeError)) ∧
    (∀ s r, shapeNorm shape = .ok s → resNorm fl res = .ok r → origin ≠ .other → crs = .utm →
      GridSpec.init fl crs shape res origin fx fy = .error (.k .assertion)) ∧
    (∀ s r o, shapeNorm shape = .ok s → resNorm fl res = .ok r → originNorm origin = .ok o → crs = .valid →
      ¬ 0 < fl ((s.1 : Rat) * rabs r.2) →
      GridSpec.init fl crs shape res origin fx fy = .error (.k .assertion)) := by
  refine ⟨?_, ?_, ?_, ?_, ?_, ?_, ?_⟩
  · intro e h; simp [GridSpec.init, h, bind, Except.bind]
  · intro s e h1 h2; simp [GridSpec.init, h1, h2, bind, Except.bind]
  · intro s r h1 h2 h3; subst h3; simp [GridSpec.init, h1, h2, originNorm, bind, Except.bind]
  · intro s r h1 h2 h3 h4; subst h4
    cases origin with
    | other => exact absurd rfl h3
    | none => simp [GridSpec.init, h1, h2, originNorm, crsNorm, bind, Except.bind]
    | xy x y => simp [GridSpec.init, h1, h2, originNorm, crsNorm, bind, Except.bind]
  · intro s r h1 h2 h3 h4; subst h4
    cases origin with
    | other => exact absurd rfl h3
    | none => simp [GridSpec.init, h1, h2, originNorm, crsNorm, bind, Except.bind]
    | xy x y => simp [GridSpec.init, h1, h2, originNorm, crsNorm, bind, Except.bind]
  · intro s r h1 h2 h3 h4; subst h4
    cases origin with
    | other => exact absurd rfl h3
    | none => simp [GridSpec.init, h1, h2, originNorm, crsNorm, bind, Except.bind]
    | xy x y => simp [GridSpec.init, h1, h2, originNorm, crsNorm, bind, Except.bind]
  · intro s r o h1 h2 h3 h4 h5; subst h4
    have : GridSpec.new fl s.1 s.2 r.1 r.2 o.1 o.2 fx fy = .error .assertion := GridSpec.new_err_y h5
    simp [GridSpec.init, h1, h2, h3, crsNorm, this, liftK, bind, Except.bind]

/-- leaving `origin` out is the same as passing `xy_(0, 0)` -/
theorem init_default_origin (fl : Rnd) (crs : CrsArg) (shape : ShapeArg) (res : ResArg) (fx fy : Bool) :
    GridSpec.init fl crs shape res .none fx fy = GridSpec.init fl crs shape res (.xy 0 0) fx fy := rfl

/-- the grid depends on the VALUES of shape and resolution only, not on their spelling -/
theorem init_spelling_irrelevant (fl : Rnd) (crs : CrsArg) {shape shape' : ShapeArg} {res res' : ResArg}
    (origin : OriginArg) (fx fy : Bool) (hs : shapeNorm shape = shapeNorm shape')
    (hr : resNorm fl res = resNorm fl res') :
    GridSpec.init fl crs shape res origin fx fy = GridSpec.init fl crs shape' res' origin fx fy := by
  unfold GridSpec.init; rw [hs, hr]

/-- END TO END (no gaps, no overlaps): whatever the spelling of the arguments, if the public constructor returns a
    grid then its half-open tiles partition the plane. -/
theorem init_tiles_partition_plane (h : GridSpec.init id crs shape res origin fx fy = .ok g) (p : Rat × Rat) :
    ∃! k : Int × Int, (g.footprint k).memHalfOpen p := by
  obtain ⟨s, r, o, _, _, _, _, hg⟩ := (init_ok_iff id crs shape res origin fx fy g).mp h
  exact tiles_partition_plane hg p

/-- END TO END (interiors, shared edges, point lookup) -/
theorem init_tiles_disjoint_and_abut (h : GridSpec.init id crs shape res origin fx fy = .ok g) :
    (∀ k k' : Int × Int, k ≠ k' → ¬ ∃ p, (g.footprint k).memInterior p ∧ (g.footprint k').memInterior p) ∧
    (∀ x y, (g.footprint (g.pt2idx id x y)).memHalfOpen (x, y)) ∧
    (∀ ix iy : Int, (g.footprint (ix + g.xbin.dir, iy)).left = (g.footprint (ix, iy)).right ∧
      (g.footprint (ix, iy + g.ybin.dir)).bottom = (g.footprint (ix, iy)).top) := by
  obtain ⟨s, r, o, _, _, _, _, hg⟩ := (init_ok_iff id crs shape res origin fx fy g).mp h
  refine ⟨fun k k' hk => tiles_disjoint_interiors hg hk, fun x y => pt_in_its_tile hg x y, fun ix iy => ?_⟩
  obtain ⟨e, w⟩ := GridSpec.new_ok hg
  rw [GridSpec.footprint_eq g w, GridSpec.footprint_eq g w, GridSpec.footprint_eq g w]
  exact ⟨(Bin1D.hi_eq_lo_next _ w.x ix).symm, (Bin1D.hi_eq_lo_next _ w.y iy).symm⟩

/-- END TO END (tile GeoBox): from the raw constructor arguments and the raw index argument to the GeoBox handed
    out by `gs[idx]` / `gs.tile_geobox(idx)`: it has the normalised shape, the normalised signed resolution, no
    rotation, and a footprint of `nx·|rx|` by `ny·|ry|` located at the bins of the index. -/
theorem init_tile_geobox {s : Int × Int} {r : Rat × Rat} {i : IdxArg} {gb : GeoBox}
    (h : GridSpec.init id crs shape res origin fx fy = .ok g)
    (hs : shapeNorm shape = .ok s) (hr : resNorm id res = .ok r) (hi : g.tileGeoboxArg id i = .ok gb) :
    ∃ k, idxNorm i = .ok k ∧ gb.ny = s.1 ∧ gb.nx = s.2 ∧ gb.aff.a = r.1 ∧ gb.aff.e = r.2 ∧ gb.aff.b = 0 ∧ gb.aff.d = 0 ∧
      gb.bbox id = g.footprint k ∧
      (g.footprint k).right - (g.footprint k).left = (s.2 : Rat) * rabs r.1 ∧
      (g.footprint k).top - (g.footprint k).bottom = (s.1 : Rat) * rabs r.2 := by
  obtain ⟨s', r', o, h1, h2, _, _, hg⟩ := (init_ok_iff id crs shape res origin fx fy g).mp h
  rw [hs] at h1; rw [hr] at h2; cases h1; cases h2
  unfold GridSpec.tileGeoboxArg at hi
  cases hk : idxNorm i with
  | error e => rw [hk] at hi; cases hi
  | ok k =>
    rw [hk] at hi
    have : gb = g.tileGeobox id k := by cases hi; rfl
    subst this
    obtain ⟨a1, a2, a3, a4, a5, a6, _, a8, a9⟩ := tile_geobox_shape_res hg k
    exact ⟨k, rfl, a1, a2, a3, a6, a4, a5, rfl, a8, a9⟩

end init

example : ∃ g, GridSpec.init id .valid (.list [.flt (5 / 2), .int 3]) (.int 10) .none false true = .ok g ∧
    g.ny = 2 ∧ g.nx = 3 ∧ g.rx = 10 ∧ g.ry = -10 := by
  refine ⟨⟨2, 3, 10, -10, 0, 0, ⟨30, 0, 1⟩, ⟨20, 0, -1⟩⟩, by decide +kernel, rfl, rfl, rfl, rfl⟩

/-! ## `ixy_`: spellings of a tile index -/

/-- a tuple, an `Index2d` and an `XY` denote the same tile; a list — or a tuple that is not a pair — is rejected
    with `ValueError` -/
theorem tile_index_forms (fl : Rnd) (g : GridSpec) (x y : Int) (l : List Int) :
    g.tileGeoboxArg fl (.tuple [x, y]) = .ok (g.tileGeobox fl (x, y)) ∧
    g.tileGeoboxArg fl (.index2d x y) = .ok (g.tileGeobox fl (x, y)) ∧
    g.tileGeoboxArg fl (.xy x y) = .ok (g.tileGeobox fl (x, y)) ∧
    g.tileGeoboxArg fl (.list l) = .error (.k .valueError) ∧
    g.tileGeoboxArg fl .other = .error (.k .valueError) ∧
    (l.length ≠ 2 → g.tileGeoboxArg fl (.tuple l) = .error (.k .valueError)) := by
  refine ⟨rfl, rfl, rfl, rfl, rfl, ?_⟩
  intro hl
  rcases l with _ | ⟨a, _ | ⟨b, _ | ⟨c, r⟩⟩⟩
  · rfl
  · rfl
  · exact absurd rfl hl
  · rfl

/-! ## `from_sample_tile` / `web_tiles` from raw arguments -/

/-- the numeric model of `from_sample_tile` used by the theorems of `Props/C14.lean` is the sentinel test on an
    integer pair followed by the core -/
theorem from_sample_tile_is_sentinel_then_core (fl : Rnd) (q : BBox) (ny nx ix iy : Int) (fx fy : Bool) :
    GridSpec.fromSampleTile fl q ny nx ix iy fx fy =
      if ny = -1 ∧ nx = -1 then .error .valueError else GridSpec.fromSampleTileCore fl q ny nx ix iy fx fy := by
  unfold GridSpec.fromSampleTile GridSpec.fromSampleTileCore
  by_cases h : ny = -1 ∧ nx = -1
  · simp only [h, and_self, if_true]; rfl
  · simp only [h, if_false]

/-- with the conventional spellings (tuple shape, tuple index) the raw-argument model is the numeric model -/
theorem from_sample_tile_args_tuple (fl : Rnd) (q : BBox) (ny nx ix iy : Int) (fx fy : Bool) :
    GridSpec.fromSampleTileArgs fl .valid q (some (.tuple [.int ny, .int nx])) (some (.tuple [ix, iy])) fx fy =
      liftK (GridSpec.fromSampleTile fl q ny nx ix iy fx fy) := by
  rw [from_sample_tile_is_sentinel_then_core]
  unfold GridSpec.fromSampleTileArgs
  by_cases h : ny = -1 ∧ nx = -1
  · obtain ⟨rfl, rfl⟩ := h; rfl
  · have hs : (ShapeArg.tuple [.int ny, .int nx]).isSentinel = false := by
      simp only [ShapeArg.isSentinel, Num.isMinusOne, Bool.and_eq_false_iff, beq_eq_false_iff_ne]
      by_cases h1 : ny = -1
      · right; intro h2; exact h ⟨h1, h2⟩
      · left; exact h1
    simp only [Option.getD_some, hs, h, if_false]
    rfl

/-- The missing-shape sentinel `(-1, -1)` is recognised by comparing the RAW argument with a tuple: the default, the
    tuple `(-1, -1)`, the float tuple `(-1.0, -1.0)` and `Shape2d(-1, -1)` raise the documented `ValueError`; the same
    pair spelled as a list or as an `XY` is NOT recognised and runs into the `AssertionError` of `Bin1D` instead
    (negative tile size).  Either way no grid is built. -/
theorem from_sample_tile_sentinel_by_spelling (q : BBox) (i : Option IdxArg) (fx fy : Bool)
    (hx : q.left < q.right) (hy : q.bottom < q.top) (hi : ∃ k, idxNorm (i.getD (.tuple [0, 0])) = .ok k) :
    GridSpec.fromSampleTileArgs id .valid q none i fx fy = .error (.k .valueError) ∧
    GridSpec.fromSampleTileArgs id .valid q (some (.tuple [.int (-1), .int (-1)])) i fx fy = .error (.k .valueError) ∧
    GridSpec.fromSampleTileArgs id .valid q (some (.tuple [.flt (-1), .flt (-1)])) i fx fy = .error (.k .valueError) ∧
    GridSpec.fromSampleTileArgs id .valid q (some (.shape2d (-1) (-1))) i fx fy = .error (.k .valueError) ∧
    GridSpec.fromSampleTileArgs id .valid q (some (.list [.int (-1), .int (-1)])) i fx fy = .error (.k .assertion) ∧
    GridSpec.fromSampleTileArgs id .valid q (some (.xy (.int (-1)) (.int (-1)))) i fx fy = .error (.k .assertion) := by
  obtain ⟨k, hk⟩ := hi
  have core : GridSpec.fromSampleTileCore id q (-1) (-1) k.1 k.2 fx fy = .error .assertion := by
    unfold GridSpec.fromSampleTileCore
    rw [Bin1D.fromSampleBin_ok (GridSpec.dirOf_cases fx) hx, Bin1D.fromSampleBin_ok (GridSpec.dirOf_cases fy) hy]
    simp only [bind, Except.bind, show ¬ ((-1 : Int) = 0) by decide, if_false]
    apply GridSpec.new_err_y
    exact neg_one_mul_rabs_not_pos _
  refine ⟨rfl, rfl, ?_, rfl, ?_, ?_⟩
  · unfold GridSpec.fromSampleTileArgs
    have : (ShapeArg.tuple [.flt (-1), .flt (-1)]).isSentinel = true := by
      simp [ShapeArg.isSentinel, Num.isMinusOne]
    simp [this, throw, throwThe, MonadExceptOf.throw, bind, Except.bind]
  · unfold GridSpec.fromSampleTileArgs
    simp [ShapeArg.isSentinel, shapeNorm, unpack2, Num.toInt, hk, crsNorm, core, liftK, bind, Except.bind, pure,
      Except.pure]
  · unfold GridSpec.fromSampleTileArgs
    simp [ShapeArg.isSentinel, shapeNorm, Num.toInt, hk, crsNorm, core, liftK, bind, Except.bind, pure, Except.pure]

/-- END TO END (rebuild from a sample): a grid made by the public constructor from arguments in any spelling, rebuilt by
    `from_sample_tile` from the footprint of ANY of its tiles — shape and index again in any spelling that denotes the
    same values — has the same footprint for every index and the same point lookup. -/
theorem init_from_sample_roundtrip {crs : CrsArg} {shape shape' : ShapeArg} {res : ResArg} {origin : OriginArg}
    {fx fy : Bool} {g : GridSpec} {i : IdxArg} {j : Int × Int}
    (h : GridSpec.init id crs shape res origin fx fy = .ok g) (hs : shapeNorm shape' = shapeNorm shape)
    (hi : idxNorm i = .ok j) :
    ∃ g', GridSpec.fromSampleTileArgs id .valid (g.footprint j) (some shape') (some i) fx fy = .ok g' ∧
      (∀ k, g'.footprint k = g.footprint k) ∧ (∀ x y, g'.pt2idx id x y = g.pt2idx id x y) := by
  obtain ⟨s, r, o, h1, _, _, _, hg⟩ := (init_ok_iff id crs shape res origin fx fy g).mp h
  obtain ⟨g', a1, a2, a3, _⟩ := from_sample_roundtrip hg j
  refine ⟨g', ?_, a2, a3⟩
  have hpos : 0 < s.1 := by
    obtain ⟨e, w⟩ := GridSpec.new_ok hg
    have := w.y.sz_pos; rw [w.szy, e] at this; exact GridSpec.n_pos_of_sz this
  have hns : shape'.isSentinel = false := by
    by_contra hc
    have := isSentinel_norm (by simpa using hc : shape'.isSentinel = true)
    rw [hs, h1] at this
    cases this
    omega
  have hne : ¬ (s.1 = -1 ∧ s.2 = -1) := by omega
  rw [from_sample_tile_is_sentinel_then_core, if_neg hne] at a1
  unfold GridSpec.fromSampleTileArgs
  simp only [Option.getD_some, hns, hs, h1, hi, crsNorm, bind, Except.bind, a1, liftK]
  rfl

/-- `web_tiles(zoom, npix)` with `npix` given as an int is the numeric model; as a float with at least one whole pixel it
    is `web_tiles(zoom, int(npix))` — so all of `web_tile_extent` / `web_tiles_count` applies; `npix == -1` (int or
    float) hits the missing-shape sentinel, NaN / ±inf raise `ValueError` / `OverflowError`. -/
theorem web_tiles_npix_forms (fl : Rnd) (P : Rat) (z : Int) (n : Int) (v : Rat) :
    GridSpec.webTilesArgs fl P z (.int n) = liftK (GridSpec.webTiles fl P z n) ∧
    (0 < pyTrunc v → GridSpec.webTilesArgs fl P z (.flt v) = liftK (GridSpec.webTiles fl P z (pyTrunc v))) ∧
    GridSpec.webTilesArgs fl P z (.flt (-1)) = .error (.k .valueError) ∧
    GridSpec.webTilesArgs fl P z .nan = .error (.k .valueError) ∧
    GridSpec.webTilesArgs fl P z .pinf = .error .overflow ∧
    GridSpec.webTilesArgs fl P z .ninf = .error .overflow := by
  refine ⟨?_, ?_, ?_, rfl, rfl, rfl⟩
  · unfold GridSpec.webTilesArgs GridSpec.webTiles
    exact from_sample_tile_args_tuple fl _ n n 0 0 false true
  · intro hv
    unfold GridSpec.webTilesArgs GridSpec.webTiles
    rw [from_sample_tile_is_sentinel_then_core, if_neg (by omega)]
    have hne : v ≠ -1 := by
      rintro rfl
      rw [show ((-1 : Rat)) = (((-1 : Int)) : Rat) by norm_num, pyTrunc_int] at hv
      omega
    unfold GridSpec.fromSampleTileArgs
    have hs : (ShapeArg.tuple [.flt v, .flt v]).isSentinel = false := by
      simp [ShapeArg.isSentinel, Num.isMinusOne, hne]
    simp only [Option.getD_some, hs]
    rfl
  · unfold GridSpec.webTilesArgs GridSpec.fromSampleTileArgs
    have : (ShapeArg.tuple [.flt (-1), .flt (-1)]).isSentinel = true := by
      simp [ShapeArg.isSentinel, Num.isMinusOne]
    simp [this, throw, throwThe, MonadExceptOf.throw, bind, Except.bind]

/-- END TO END (slippy map): `web_tiles(zoom, npix)` with `npix` an int or a float holding at least one whole pixel:
    whenever it returns a grid, tile `(i, j)` has exactly the slippy-map extent, `int(npix)` pixels per side, and the tiles
    inside the world square are those with both indices in `[0, 2^zoom)`. -/
theorem web_tiles_public_extent {P : Rat} (hP : 0 < P) (z : Nat) (npix : Num) {g : GridSpec} {n : Int}
    (hn : npix.toInt = .ok n) (hpos : 0 < n) (hg : GridSpec.webTilesArgs id P (z : Int) npix = .ok g) (i j : Int) :
    g.footprint (i, j) =
      ⟨-P + (i : Rat) * (2 * P / 2 ^ z), P - ((j : Rat) + 1) * (2 * P / 2 ^ z),
       -P + ((i : Rat) + 1) * (2 * P / 2 ^ z), P - (j : Rat) * (2 * P / 2 ^ z)⟩ ∧
    g.ny = n ∧ g.nx = n ∧
    ((0 ≤ i ∧ i < 2 ^ z ∧ 0 ≤ j ∧ j < 2 ^ z) ↔
      (-P ≤ (g.footprint (i, j)).left ∧ (g.footprint (i, j)).right ≤ P ∧
       -P ≤ (g.footprint (i, j)).bottom ∧ (g.footprint (i, j)).top ≤ P)) := by
  have hw : GridSpec.webTiles id P (z : Int) n = .ok g := by
    cases npix with
    | int v =>
      cases hn
      rw [(web_tiles_npix_forms id P z n 0).1] at hg
      exact (liftK_ok_iff _ _).mp hg
    | flt v =>
      have : n = pyTrunc v := by cases hn; rfl
      subst this
      rw [(web_tiles_npix_forms id P z 0 v).2.1 hpos] at hg
      exact (liftK_ok_iff _ _).mp hg
    | nan => cases hn
    | pinf => cases hn
    | ninf => cases hn
  obtain ⟨a1, a2, a3, _, _⟩ := web_tile_extent hP z hpos hw i j
  exact ⟨a1, a2, a3, web_tiles_count hP z hpos hw i j⟩

example : ∃ g, GridSpec.webTilesArgs id 3 (2 : Nat) (.flt (513 / 2)) = .ok g ∧ g.nx = 256 := by
  refine ⟨⟨256, 256, 3 / 512, -3 / 512, -3, 3 / 2, ⟨3 / 2, -3, 1⟩, ⟨3 / 2, 3 / 2, -1⟩⟩, by decide +kernel, rfl⟩

/-! ## IEEE specials in query coordinates -/

/-- on finite bounds the extended `idx_bounds` / `tiles` are the ones all other theorems are about -/
theorem idx_bounds_x_finite (fl : Rnd) (tol : Rat) (g : GridSpec) (same : Bool) (q : BBox) :
    g.idxBoundsX fl tol same q.toX = liftK (g.idxBoundsChecked fl tol same q) ∧
    g.tilesX fl tol same q.toX = liftK (g.tilesChecked fl tol same q) := by
  cases same <;> exact ⟨rfl, rfl⟩

/-- A bounding-box query whose bounds contain NaN or ±inf (the bounds of an empty geometry, a point that failed to
    re-project) is never answered with tiles: the error of the first special coordinate in the order left, bottom,
    right, top is raised (`ValueError` for NaN, `OverflowError` for ±inf); with four finite coordinates the query
    succeeds. -/
theorem idx_bounds_x_specials (fl : Rnd) (tol : Rat) (g : GridSpec) (q : BBoxX) :
    (firstErr [q.left, q.bottom, q.right, q.top] = none → ∃ r, g.idxBoundsX fl tol true q = .ok r) ∧
    (∀ e, firstErr [q.left, q.bottom, q.right, q.top] = some e →
      g.idxBoundsX fl tol true q = .error e ∧ g.tilesX fl tol true q = .error e) := by
  obtain ⟨l, b, r, t⟩ := q
  cases l <;> cases b <;> cases r <;> cases t <;>
    simp [firstErr, XF.err?, GridSpec.idxBoundsX, GridSpec.tilesX, GridSpec.pt2idxX, Bin1D.binX, XF.add, XF.sub, bind,
      Except.bind, pure, Except.pure]

/-- the empty geometry: all four bounds NaN → `ValueError` (as the multi-part model says for no parts) -/
theorem empty_geometry_query_raises (fl : Rnd) (tol : Rat) (g : GridSpec) :
    g.tilesX fl tol true ⟨.nan, .nan, .nan, .nan⟩ = .error (.k .valueError) ∧
    g.tilesFromMulti fl tol [] = .error .valueError := ⟨rfl, rfl⟩

/-- point lookup: x is binned before y -/
theorem pt2idx_x_specials (fl : Rnd) (g : GridSpec) (x y : XF) :
    g.pt2idxX fl x y = match firstErr [x, y] with
      | some e => .error e
      | none => match x, y with
        | .fin a, .fin b => .ok (g.pt2idx fl a b)
        | _, _ => .error (.k .valueError) := by
  cases x <;> cases y <;> rfl

/-! ## lazy generators over one shared `geobox_cache` -/

section gens
variable (fl : Rnd) (tol : Rat) (g : GridSpec)

/-- creating a generator runs nothing; its first `next()` evaluates `idx_bounds` (and its CRS assertion) -/
theorem generator_is_lazy (q : BBox) (c : Cache) :
    ((Gen.ofTiles q false).next fl tol g c).1 = .error .assertion ∧
    ((Gen.ofTiles q false).next fl tol g c).2.2 = c ∧
    (((Gen.ofTiles q false).next fl tol g c).2.1.next fl tol g c).1 = .ok none :=
  ⟨rfl, rfl, rfl⟩

/-- ONE `next()`, coherent cache: the item is the next tile of the stateless query with the geobox of its index
    (`none` exactly when the stateless query is exhausted); the cache stays coherent. -/
theorem generator_next (s : Gen) (c : Cache) (hc : g.Coherent fl c) :
    (s.next fl tol g c).1 = (pureStep fl g (s.pure fl tol g)).1 ∧
    (s.next fl tol g c).2.1.pure fl tol g = (pureStep fl g (s.pure fl tol g)).2 ∧
    g.Coherent fl (s.next fl tol g c).2.2 :=
  Gen.next_spec fl tol g s c hc

/-- a `next()` touches the cache only for the tiles it pulls: afterwards the cache holds the old keys plus a prefix
    of the generator's pending tiles, and nothing else -/
theorem generator_next_cache_keys (dj : GeoBox → Bool) (ks : List (Int × Int)) (c : Cache) (hc : g.Coherent fl c) :
    ∃ pre, ks = pre ++ ((⟨none, ks, dj⟩ : Gen).next fl tol g c).2.1.rest ∧
      ∀ k', (((⟨none, ks, dj⟩ : Gen).next fl tol g c).2.2.lookup k').isSome ↔ ((c.lookup k').isSome ∨ k' ∈ pre) :=
  (GridSpec.pull_spec fl g dj ks c hc).2.1

/-- what a fresh generator stands for: the stateless bbox / polygon query -/
theorem generator_pure_of_query (q : BBox) (dj : GeoBox → Bool) :
    (Gen.ofTiles q true).pure fl tol g = (none, g.tiles fl tol q) ∧
    (Gen.ofPolygon q dj).pure fl tol g = (none, g.tilesFromPolygon fl tol q dj) := by
  constructor
  · simp [Gen.pure, Gen.ofTiles, Gen.remaining]
  · simp [Gen.pure, Gen.ofPolygon, Gen.remaining, GridSpec.tilesFromPolygon]

/-- ANY SCHEDULE: a program holding any number of live generators (bbox and polygon queries, also ones with a pending
    CRS assertion) over ONE shared cache, advancing them in any interleaving and clearing the cache at any moment,
    observes exactly what it would observe with cache-less iterators; the cache is coherent afterwards. -/
theorem schedule_transparent (ops : List SOp) :
    ∀ (gens : List Gen) (c : Cache), g.Coherent fl c →
      (g.sched fl tol ops gens c).1 = g.schedPure fl ops (gens.map (fun s => s.pure fl tol g)) ∧
      g.Coherent fl (g.sched fl tol ops gens c).2.2 := by
  induction ops with
  | nil => intro gens c hc; exact ⟨rfl, hc⟩
  | cons op ops ih =>
    intro gens c hc
    cases op with
    | clear =>
      obtain ⟨i1, i2⟩ := ih gens [] (cache_empty_coherent fl g)
      simp only [GridSpec.sched, GridSpec.schedPure]
      exact ⟨by rw [i1], i2⟩
    | next i =>
      simp only [GridSpec.sched, GridSpec.schedPure, List.getElem?_map]
      cases hg : gens[i]? with
      | none =>
        obtain ⟨i1, i2⟩ := ih gens c hc
        simp only [Option.map_none]
        exact ⟨by rw [i1], i2⟩
      | some s =>
        obtain ⟨n1, n2, n3⟩ := Gen.next_spec fl tol g s c hc
        obtain ⟨i1, i2⟩ := ih (setAt gens i (s.next fl tol g c).2.1) (s.next fl tol g c).2.2 n3
        simp only [Option.map_some]
        refine ⟨?_, i2⟩
        rw [i1, setAt_map, n1, n2]

end gens

example : let g : GridSpec := ⟨1, 1, 1, -1, 0, 0, ⟨1, 0, 1⟩, ⟨1, 0, 1⟩⟩
    (g.sched id tol8 [.next 0, .next 1, .clear, .next 0, .next 0] [Gen.ofTiles ⟨0, 0, 2, 1⟩ true, Gen.ofTiles ⟨0, 0, 1, 1⟩ false] []).1
      = [.ok (some ((0, 0), g.tileGeobox id (0, 0))), .error .assertion, .ok none,
         .ok (some ((1, 0), g.tileGeobox id (1, 0))), .ok none] := by
  decide +kernel

/-! ## `__eq__` with any operand, `geojson()` -/

/-- `gs == x` for `x` of another type is `False` (never an exception); `Bin1D.__eq__` is field equality -/
theorem eq_any_operand (g h : GridSpec) (c : Bool) (b b' : Bin1D) :
    g.beqAny .other = false ∧ g.beqAny (.grid h c) = g.beq h c ∧ b.beqAny none = false ∧
    (b.beqAny (some b') = true ↔ b = b') := by
  refine ⟨rfl, rfl, rfl, ?_⟩
  obtain ⟨s, o, d⟩ := b
  obtain ⟨s', o', d'⟩ := b'
  simp [Bin1D.beqAny, and_assoc]

/-- `geojson()`: one feature per tile of the selected query, in generator order — the polygon wins over the bbox, and
    with neither argument the query is the bounding box of the CRS' valid region; `properties` repeat the tile shape
    and the resolution of the grid. -/
theorem geojson_document (fl : Rnd) (tol : Rat) (g : GridSpec) (q q' valid : BBox) (dj : GeoBox → Bool) :
    (g.geojson fl tol none none valid).ids.length = (g.tiles fl tol valid).length ∧
    (g.geojson fl tol (some q) none valid).ids.length = (g.tiles fl tol q).length ∧
    g.geojson fl tol (some q') (some (q, dj)) valid = g.geojson fl tol none (some (q, dj)) valid ∧
    (g.geojson fl tol none (some (q, dj)) valid).ids.length = (g.tilesFromPolygon fl tol q dj).length ∧
    (g.geojson fl tol none none valid).shape = (g.ny, g.nx) ∧ (g.geojson fl tol none none valid).res = (g.rx, g.ry) := by
  simp [GridSpec.geojson]

end OdcGeo.C14
