/-
C17 — ROI (slice) helpers agree with array slicing semantics.

Property theorems only.  `Sel n s i` ("index `i` of a length-`n` array is selected by the
index expression `s`") is the reference numpy semantics of `Spec/PySlice.lean`.
-/
import OdcGeo.Model.C17
import OdcGeo.Spec.PySlice
import Mathlib.Tactic.Linarith
import Mathlib.Tactic.Ring
import Mathlib.Tactic.ByContra
import Mathlib.Algebra.Order.Field.Rat

namespace OdcGeo.C17
open OdcGeo.PySlice

/-! ## normalisation -/

/-- A normalised slice selects the same elements as the original (every length, every
open / negative / out-of-range bound). -/
theorem normalise_same_elements (n : Int) (_hn : 0 ≤ n) (a b : Option Int) (i : Int) :
    Sel n (normSlice (.slc a b) n).toPIdx i ↔ Sel n (.slc a b) i := by
  cases a <;> cases b <;>
    simp [Sel, normSlice, NSlice.toPIdx, bounds, clampBound, wrapNeg] <;> omega

/-- An in-range integer index normalises to the one-element slice selecting that element. -/
theorem normalise_int_index (n : Int) (k : Int) (hk : -n ≤ k ∧ k < n) (i : Int) :
    Sel n (normSlice (.idx k) n).toPIdx i ↔ Sel n (.idx k) i := by
  simp [Sel, normSlice, NSlice.toPIdx, bounds, clampBound]
  omega

/-- Normalised bounds are never negative and never `None`. -/
theorem normalise_nonneg (n : Int) (hn : 0 ≤ n) (a b : Option Int) :
    0 ≤ (normSlice (.slc a b) n).start ∧ 0 ≤ (normSlice (.slc a b) n).stop := by
  cases a <;> cases b <;> simp [normSlice, wrapNeg] <;> omega

/-- `_norm_slice_or_error` accepts exactly the slices with a closed non-negative range
and returns them unchanged. -/
theorem norm_or_error_spec (a : Option Int) (b : Option Int) :
    normSliceOrError (.slc a b) =
      match b with
      | none => .error .valueError
      | some o =>
        let st := match a with | none => 0 | some v => v
        if o < 0 ∨ st < 0 then .error .valueError else .ok ⟨st, o⟩ := by
  cases a <;> cases b <;> simp [normSliceOrError]

/-! ## three-way intersection: `X[a][a'] == X[b][b'] == X[ab']`, `ab' = a ∩ b` -/

/-- Indices of the original array that `X[a][a']` selects, for `a` with non-negative
closed bounds: `lo a + j` for the `j` selected by `a'` in the (clamped) array `X[a]`. -/
def SelTwo (n : Int) (a a' : NSlice) (i : Int) : Prop :=
  ∃ j, Sel (max 0 ((bounds n (some a.start) (some a.stop)).2 -
                  (bounds n (some a.start) (some a.stop)).1)) a'.toPIdx j ∧
       i = (bounds n (some a.start) (some a.stop)).1 + j

/-- `ab'` is exactly the common index set. -/
theorem intersect3_common (n : Int) (a b : NSlice) (i : Int)
    (_ha : 0 ≤ a.start ∧ 0 ≤ a.stop) (_hb : 0 ≤ b.start ∧ 0 ≤ b.stop) :
    Sel n (intersect3N a b).2.2.toPIdx i ↔ (Sel n a.toPIdx i ∧ Sel n b.toPIdx i) := by
  simp only [intersect3N]
  split
  · simp [Sel, NSlice.toPIdx, bounds, clampBound]; omega
  · split
    · simp [Sel, NSlice.toPIdx, bounds, clampBound]; omega
    · simp [Sel, NSlice.toPIdx, bounds, clampBound]; omega

/-- `X[a][a'] = X[ab']` (as sets of original indices). -/
theorem intersect3_left (n : Int) (_hn : 0 ≤ n) (a b : NSlice) (i : Int)
    (ha : 0 ≤ a.start ∧ 0 ≤ a.stop) (hb : 0 ≤ b.start ∧ 0 ≤ b.stop) :
    SelTwo n a (intersect3N a b).1 i ↔ Sel n (intersect3N a b).2.2.toPIdx i := by
  obtain ⟨ha1, ha2⟩ := ha
  obtain ⟨hb1, hb2⟩ := hb
  simp only [intersect3N, SelTwo]
  split
  · simp [Sel, NSlice.toPIdx, bounds, clampBound]; omega
  · split
    · simp [Sel, NSlice.toPIdx, bounds, clampBound]; omega
    · constructor
      · rintro ⟨j, hj, rfl⟩
        simp [Sel, NSlice.toPIdx, bounds, clampBound] at hj ⊢
        omega
      · intro h
        refine ⟨i - (bounds n (some a.start) (some a.stop)).1, ?_, by omega⟩
        simp [Sel, NSlice.toPIdx, bounds, clampBound] at h ⊢
        omega

/-- `X[b][b'] = X[ab']` (as sets of original indices). -/
theorem intersect3_right (n : Int) (_hn : 0 ≤ n) (a b : NSlice) (i : Int)
    (ha : 0 ≤ a.start ∧ 0 ≤ a.stop) (hb : 0 ≤ b.start ∧ 0 ≤ b.stop) :
    SelTwo n b (intersect3N a b).2.1 i ↔ Sel n (intersect3N a b).2.2.toPIdx i := by
  obtain ⟨ha1, ha2⟩ := ha
  obtain ⟨hb1, hb2⟩ := hb
  simp only [intersect3N, SelTwo]
  split
  · simp [Sel, NSlice.toPIdx, bounds, clampBound]; omega
  · split
    · simp [Sel, NSlice.toPIdx, bounds, clampBound]; omega
    · constructor
      · rintro ⟨j, hj, rfl⟩
        simp [Sel, NSlice.toPIdx, bounds, clampBound] at hj ⊢
        omega
      · intro h
        refine ⟨i - (bounds n (some b.start) (some b.stop)).1, ?_, by omega⟩
        simp [Sel, NSlice.toPIdx, bounds, clampBound] at h ⊢
        omega

/-- The error behaviour of `slice_intersect3`: it fails exactly when one operand is open
ended on the right or has a negative bound, otherwise it is `intersect3N`. -/
theorem intersect3_total (a b : PIdx) (a' b' : NSlice)
    (ha : normSliceOrError a = .ok a') (hb : normSliceOrError b = .ok b') :
    sliceIntersect3 a b = .ok (intersect3N a' b') := by
  simp [sliceIntersect3, ha, hb, bind, Except.bind, pure, Except.pure]

/-- `roi_intersect` is the common index set too. -/
theorem intersect_eq_set (n : Int) (a b : NSlice) (i : Int)
    (_ha : 0 ≤ a.start ∧ 0 ≤ a.stop) (_hb : 0 ≤ b.start ∧ 0 ≤ b.stop) :
    Sel n (intersectN a b).toPIdx i ↔ (Sel n a.toPIdx i ∧ Sel n b.toPIdx i) := by
  simp only [intersectN]
  split
  · simp [Sel, NSlice.toPIdx, bounds, clampBound]; omega
  · split
    · simp [Sel, NSlice.toPIdx, bounds, clampBound]; omega
    · simp [Sel, NSlice.toPIdx, bounds, clampBound]; omega

/-- `roi_intersect` agrees with the third component of `slice_intersect3`. -/
theorem intersect_eq_intersect3 (a b : NSlice) : intersectN a b = (intersect3N a b).2.2 := by
  simp only [intersectN, intersect3N]
  split
  · rfl
  · split <;> rfl

/-! ## shape / empty / full / centre / pad -/

theorem shape_closed (s e : Int) : sliceDim (.slc (some s) (some e)) = .ok (e - s) := rfl
theorem shape_open_left (e : Int) : sliceDim (.slc none (some e)) = .ok e := rfl
theorem shape_int (k : Int) : sliceDim (.idx k) = .ok 1 := rfl
theorem shape_open_right_errors (a : Option Int) : sliceDim (.slc a none) = .error .valueError := by
  cases a <;> rfl

/-- The selected set of an in-range region is the interval of `roi_shape` many indices
starting at `start`. -/
theorem shape_counts_selected (n : Int) (s e : Int) (h : 0 ≤ s ∧ s ≤ e ∧ e ≤ n) (i : Int) :
    Sel n (.slc (some s) (some e)) i ↔ s ≤ i ∧ i < s + (e - s) := by
  simp [Sel, bounds, clampBound]; omega

/-- One axis of `roi_is_empty`: "dimension ≤ 0" ⇔ the described index interval is empty. -/
theorem is_empty_iff (s e : Int) :
    (e - s ≤ 0) ↔ ¬ ∃ i, s ≤ i ∧ i < e := by
  constructor
  · rintro h ⟨i, hi⟩; omega
  · intro h
    by_contra hc
    exact h ⟨s, by omega⟩

/-- N-D `roi_is_empty` is "some axis is empty". -/
theorem roi_is_empty_closed (roi : List (Int × Int)) :
    roiIsEmpty (roi.map fun p => .slc (some p.1) (some p.2)) =
      .ok (roi.any fun p => decide (p.2 - p.1 ≤ 0)) := by
  have key : (roi.map fun p => PIdx.slc (some p.1) (some p.2)).mapM sliceDim
      = (.ok (roi.map fun p => p.2 - p.1) : Res (List Int)) := by
    induction roi with
    | nil => rfl
    | cons p ps ih =>
      simp only [List.map_cons, List.mapM_cons, ih, sliceDim, bind, Except.bind, pure, Except.pure]
  simp [roiIsEmpty, key, bind, Except.bind, pure, Except.pure, List.any_map, Function.comp_def]

/-- `roi_is_full` (one axis, closed in-range bounds, non-empty axis): full ⇔ every element
is selected. -/
theorem is_full_iff (n : Int) (hn : 0 < n) (s e : Int) (h : 0 ≤ s ∧ 0 ≤ e ∧ e ≤ n) :
    sliceFull (.slc (some s) (some e)) n = true ↔ ∀ i, 0 ≤ i ∧ i < n → Sel n (.slc (some s) (some e)) i := by
  simp only [sliceFull, Bool.and_eq_true, beq_iff_eq, Sel, bounds, clampBound]
  constructor
  · rintro ⟨rfl, rfl⟩ i hi
    omega
  · intro hall
    have h0 := hall 0 (by omega)
    have h1 := hall (n - 1) (by omega)
    omega

/-- Open bounds count as full on that side. -/
theorem is_full_open (n : Int) : sliceFull (.slc none none) n = true := rfl

/-! ## N-D regions: axis by axis, whatever container the shape comes in -/

/-- N-D normalisation has one entry per axis that both the region and the shape describe … -/
theorem roi_normalise_nd_length (roi : List PIdx) (shape : List Int) :
    (roiNormalise roi shape).length = min roi.length shape.length := by
  simp [roiNormalise]

/-- … and on every such axis the normalised slice selects the same elements as the original. -/
theorem roi_normalise_nd_same_elements (roi : List PIdx) (shape : List Int) (k : Nat)
    (hr : k < roi.length) (hs : k < shape.length) (a b : Option Int) (hk : roi[k] = .slc a b)
    (hn : 0 ≤ shape[k]) (i : Int) :
    Sel shape[k] ((roiNormalise roi shape)[k]'(by simp [roiNormalise]; omega)).toPIdx i ↔ Sel shape[k] roi[k] i := by
  simp only [roiNormalise, List.getElem_map, List.getElem_zip, hk]
  exact normalise_same_elements _ hn a b i

/-- N-D fullness is fullness on every described axis. -/
theorem roi_is_full_nd_iff (roi : List PIdx) (shape : List Int) :
    roiIsFull roi shape = true ↔
      ∀ k (hr : k < roi.length) (hs : k < shape.length), sliceFull roi[k] shape[k] = true := by
  simp only [roiIsFull, List.all_eq_true]
  constructor
  · intro h k hr hs
    exact h (roi[k], shape[k]) (by
      rw [List.mem_iff_getElem]
      exact ⟨k, by simp; omega, by simp⟩)
  · intro h p hp
    obtain ⟨k, hk, rfl⟩ := List.mem_iff_getElem.mp hp
    simp only [List.length_zip] at hk
    simpa using h k (by omega) (by omega)

/-- Index-set meaning of N-D fullness (closed in-range bounds, no empty axis, one slice per axis):
`roi_is_full` ⇔ on every axis every element is selected, i.e. `X[roi]` is all of `X`. -/
theorem roi_is_full_nd_selects_all (roi : List (Int × Int)) (shape : List Int) (_hlen : roi.length = shape.length)
    (hshape : ∀ k (hs : k < shape.length), 0 < shape[k])
    (hroi : ∀ k (hr : k < roi.length) (hs : k < shape.length),
      0 ≤ (roi[k]).1 ∧ 0 ≤ (roi[k]).2 ∧ (roi[k]).2 ≤ shape[k]) :
    roiIsFull (roi.map fun p => .slc (some p.1) (some p.2)) shape = true ↔
      ∀ k (hr : k < roi.length) (hs : k < shape.length) (i : Int), 0 ≤ i ∧ i < shape[k] →
        Sel shape[k] (.slc (some (roi[k]).1) (some (roi[k]).2)) i := by
  rw [roi_is_full_nd_iff]
  constructor
  · intro h k hr hs
    have := h k (by simpa using hr) hs
    simp only [List.getElem_map] at this
    exact (is_full_iff _ (hshape k hs) _ _ (hroi k hr hs)).mp this
  · intro h k hr hs
    have hr' : k < roi.length := by simpa using hr
    simp only [List.getElem_map]
    exact (is_full_iff _ (hshape k hs) _ _ (hroi k hr' hs)).mpr (h k hr' hs)

/-- the hypotheses are satisfiable and the answer is not constant: a full and a cropped 2-D region -/
example : roiIsFull [.slc (some 0) (some 3), .slc none none] [3, 4] = true
    ∧ roiIsFull [.slc (some 0) (some 3), .slc (some 1) (some 4)] [3, 4] = false := by decide

/-- N-D padding pads every described axis (`pad_spec` applies to each entry). -/
theorem roi_pad_nd_axis (roi : List PIdx) (pad : Int) (shape : List Int) (k : Nat)
    (hr : k < roi.length) (hs : k < shape.length) :
    (roiPad roi pad shape)[k]'(by simp [roiPad]; omega) = padSlice roi[k] pad shape[k] := by
  simp [roiPad]

/-- `roi_center` is the mid-point of the described interval. -/
theorem center_eq (s e : Int) (h : 0 ≤ s ∧ 0 ≤ e) :
    sliceCenter (.slc (some s) (some e)) = .ok (((s + e : Int) : Rat) / 2) := by
  have : ¬ (e < 0 ∨ s < 0) := by omega
  simp [sliceCenter, normSliceOrError, bind, Except.bind, pure, Except.pure, this]

/-- Padding grows the (normalised) region by `pad` on each side, clamped to the array. -/
theorem pad_spec (n : Int) (_hn : 0 ≤ n) (a b : Option Int) (pad : Int) (_hp : 0 ≤ pad) (i : Int) :
    ((padSlice (.slc a b) pad n).start ≤ i ∧ i < (padSlice (.slc a b) pad n).stop) ↔
      (0 ≤ i ∧ i < n ∧ (normSlice (.slc a b) n).start - pad ≤ i ∧
        i < (normSlice (.slc a b) n).stop + pad) := by
  simp only [padSlice]; omega

/-- The padded region always lies within the array. -/
theorem pad_within (n : Int) (_hn : 0 ≤ n) (s : PIdx) (pad : Int) :
    0 ≤ (padSlice s pad n).start ∧ (padSlice s pad n).stop ≤ n := by
  simp only [padSlice]; omega

/-! ## alignment, scaling -/

theorem align_down_spec (x a : Int) (ha : 0 < a) :
    a ∣ alignDown x a ∧ alignDown x a ≤ x ∧ x - alignDown x a < a := by
  unfold alignDown
  refine ⟨?_, ?_, ?_⟩
  · exact Int.dvd_self_sub_emod
  · have := Int.emod_nonneg x (by omega : a ≠ 0); omega
  · have := Int.emod_lt_of_pos x ha; omega

theorem align_up_spec (x a : Int) (ha : 0 < a) :
    a ∣ alignUp x a ∧ x ≤ alignUp x a ∧ alignUp x a - x < a := by
  have h := align_down_spec (x + (a - 1)) a ha
  unfold alignUp
  obtain ⟨h1, h2, h3⟩ := h
  refine ⟨h1, ?_, by omega⟩
  -- a ∣ y, y > x - 1 + ... : y ≥ x because y is a multiple of a within (x-1, x+a-1]
  obtain ⟨k, hk⟩ := h1
  have hx : x + (a - 1) - alignDown (x + (a - 1)) a < a := h3
  omega

/-- Scaling a region down and then up by `k` contains the original and exceeds it by
less than `k` on each side. -/
theorem scale_down_up (s : NSlice) (k : Int) (hk : 0 < k) :
    let r := scaledUpSlice (scaledDownSlice s k) k none
    r.start ≤ s.start ∧ s.start - r.start < k ∧ s.stop ≤ r.stop ∧ r.stop - s.stop < k := by
  simp only [scaledUpSlice, scaledDownSlice, fdiv]
  obtain ⟨⟨m, hm⟩, h2, h3⟩ := align_up_spec s.stop k hk
  have e1 := Int.emod_add_mul_ediv s.start k
  have e1' := Int.emod_nonneg s.start (by omega : k ≠ 0)
  have e1'' := Int.emod_lt_of_pos s.start hk
  have e2 : alignUp s.stop k / k * k = alignUp s.stop k := by
    rw [hm, Int.mul_ediv_cancel_left _ (by omega : k ≠ 0)]; exact Int.mul_comm m k
  refine ⟨?_, ?_, ?_, ?_⟩
  · rw [Int.mul_comm]; omega
  · rw [Int.mul_comm]; omega
  · rw [e2]; exact h2
  · rw [e2]; exact h3

/-- With a clamp shape the scaled-up region stays inside the image. -/
theorem scale_up_clamped (s : NSlice) (k d : Int) :
    (scaledUpSlice s k (some d)).start ≤ d ∧ (scaledUpSlice s k (some d)).stop ≤ d := by
  simp only [scaledUpSlice]; omega

/-- `scaled_down_shape`: the smallest overview size that covers the image. -/
theorem scaled_down_dim_spec (n k : Int) (hk : 0 < k) :
    n ≤ scaledDownDim n k * k ∧ scaledDownDim n k * k - n < k := by
  obtain ⟨⟨m, hm⟩, h2, h3⟩ := align_up_spec n k hk
  have e2 : alignUp n k / k * k = alignUp n k := by
    rw [hm, Int.mul_ediv_cancel_left _ (by omega : k ≠ 0)]; exact Int.mul_comm m k
  simp only [scaledDownDim, fdiv, e2]
  exact ⟨h2, h3⟩

/-! ## region from sample points -/

theorem clip_within (x n : Int) (hn : 0 ≤ n) : 0 ≤ clip x 0 n ∧ clip x 0 n ≤ n := by
  unfold clip; omega

/-- The region stays within the image whatever the points are. -/
theorem from_points_axis_within (lo hi : Rat) (n pad : Int) (al : Option Int) (hn : 0 ≤ n) :
    0 ≤ (fromPointsAxis lo hi n pad al).start ∧ (fromPointsAxis lo hi n pad al).stop ≤ n ∧
    0 ≤ (fromPointsAxis lo hi n pad al).stop ∧ (fromPointsAxis lo hi n pad al).start ≤ n := by
  cases al <;> simp only [fromPointsAxis] <;>
    exact ⟨(clip_within _ n hn).1, (clip_within _ n hn).2, (clip_within _ n hn).1, (clip_within _ n hn).2⟩

theorem foldl_min_le (xs : List Rat) (x0 : Rat) :
    xs.foldl min x0 ≤ x0 ∧ ∀ x ∈ xs, xs.foldl min x0 ≤ x := by
  induction xs generalizing x0 with
  | nil => simp
  | cons y ys ih =>
    simp only [List.foldl_cons, List.mem_cons, forall_eq_or_imp]
    obtain ⟨h1, h2⟩ := ih (min x0 y)
    exact ⟨le_trans h1 (min_le_left _ _), le_trans h1 (min_le_right _ _), h2⟩

theorem le_foldl_max (xs : List Rat) (x0 : Rat) :
    x0 ≤ xs.foldl max x0 ∧ ∀ x ∈ xs, x ≤ xs.foldl max x0 := by
  induction xs generalizing x0 with
  | nil => simp
  | cons y ys ih =>
    simp only [List.foldl_cons, List.mem_cons, forall_eq_or_imp]
    obtain ⟨h1, h2⟩ := ih (max x0 y)
    exact ⟨le_trans (le_max_left _ _) h1, le_trans (le_max_right _ _) h1, h2⟩

theorem minL_le (d : Rat) (xs : List Rat) : ∀ x ∈ xs, minL d xs ≤ x := by
  cases xs with
  | nil => simp
  | cons y ys =>
    intro x hx
    simp only [minL]
    rcases List.mem_cons.mp hx with rfl | h
    · exact (foldl_min_le ys x).1
    · exact (foldl_min_le ys y).2 x h

theorem le_maxL (d : Rat) (xs : List Rat) : ∀ x ∈ xs, x ≤ maxL d xs := by
  cases xs with
  | nil => simp
  | cons y ys =>
    intro x hx
    simp only [maxL]
    rcases List.mem_cons.mp hx with rfl | h
    · exact (le_foldl_max ys x).1
    · exact (le_foldl_max ys y).2 x h

/-- One axis: a coordinate `x` lying between the extreme finite coordinates and inside the
image is inside the region, together with its `padding` neighbourhood (clamped to the
image); no bound on the magnitude of `lo` / `hi` is needed. -/
theorem from_points_axis_contains (lo hi x : Rat) (n pad : Int) (al : Option Int)
    (hlo : lo ≤ x) (hhi : x ≤ hi) (hx0 : 0 ≤ x) (hxn : x ≤ n) (hp : 0 ≤ pad)
    (hal : ∀ a, al = some a → 0 < a) :
    ((fromPointsAxis lo hi n pad al).start : Rat) ≤ max 0 (x - pad) ∧
      min (n : Rat) (x + pad) ≤ (fromPointsAxis lo hi n pad al).stop := by
  have hn : (0:Rat) ≤ n := le_trans hx0 hxn
  have hfl : (lo.floor : Rat) ≤ x := le_trans (Rat.floor_le lo) hlo
  have hce : x ≤ (hi.ceil : Rat) := le_trans hhi Rat.le_ceil
  have key : ∀ i o : Int, i ≤ lo.floor - pad → hi.ceil + pad ≤ o →
      ((clip i 0 n : Int) : Rat) ≤ max 0 (x - pad) ∧ min (n : Rat) (x + pad) ≤ ((clip o 0 n : Int) : Rat) := by
    intro i o hi' ho'
    have h1 : (i : Rat) ≤ x - pad := by
      have : (i : Rat) ≤ (lo.floor : Rat) - pad := by exact_mod_cast hi'
      linarith
    have h2 : x + pad ≤ (o : Rat) := by
      have : (hi.ceil : Rat) + pad ≤ (o : Rat) := by exact_mod_cast ho'
      linarith
    have hp' : (0:Rat) ≤ pad := by exact_mod_cast hp
    unfold clip
    constructor
    · split
      · simp
      · split
        · rename_i h3 h4
          have : (n:Rat) < i := by exact_mod_cast h4
          linarith
        · exact le_trans h1 (le_max_right _ _)
    · split
      · rename_i h3
        have : (o:Rat) < 0 := by exact_mod_cast h3
        linarith
      · split
        · simp
        · exact le_trans (min_le_right _ _) h2
  cases al with
  | none => exact key _ _ (by omega) (by omega)
  | some a =>
    have ha := hal a rfl
    simp only [fromPointsAxis]
    apply key
    · have := (align_down_spec (lo.floor - pad) a ha).2.1; omega
    · have h := (align_down_spec (hi.ceil + pad + (a - 1)) a ha)
      unfold alignUp
      obtain ⟨⟨k, hk⟩, h2, h3⟩ := h
      omega

/-- Alignment is honoured: each bound is a multiple of `align` unless it was clipped to the
far image edge. -/
theorem from_points_axis_aligned (lo hi : Rat) (n pad a : Int) (ha : 0 < a) :
    (a ∣ (fromPointsAxis lo hi n pad (some a)).start ∨ (fromPointsAxis lo hi n pad (some a)).start = n) ∧
    (a ∣ (fromPointsAxis lo hi n pad (some a)).stop ∨ (fromPointsAxis lo hi n pad (some a)).stop = n) := by
  have h1 := (align_down_spec (lo.floor - pad) a ha).1
  have h2 := (align_up_spec (hi.ceil + pad) a ha).1
  simp only [fromPointsAxis, clip]
  constructor
  · split
    · left; exact Int.dvd_zero a
    · split
      · right; rfl
      · left; exact h1
  · split
    · left; exact Int.dvd_zero a
    · split
      · right; rfl
      · left; exact h2

theorem mem_finitePts (pts : List (Coord × Coord)) (x y : Rat)
    (h : (Coord.fin x, Coord.fin y) ∈ pts) : (x, y) ∈ finitePts pts := by
  unfold finitePts
  rw [List.mem_filterMap]
  exact ⟨_, h, rfl⟩

/-- **Region from sample points contains every finite in-image point**, with its padding
neighbourhood, whatever other points (non-finite, or arbitrarily far outside) are present. -/
theorem from_points_contains (pts : List (Coord × Coord)) (ny nx pad : Int) (al : Option Int)
    (x y : Rat) (hmem : (Coord.fin x, Coord.fin y) ∈ pts)
    (hx : 0 ≤ x ∧ x ≤ nx) (hy : 0 ≤ y ∧ y ≤ ny) (hp : 0 ≤ pad)
    (hal : ∀ a, al = some a → 0 < a) :
    let r := fromPoints pts ny nx pad al
    ((r.2.start : Rat) ≤ max 0 (x - pad) ∧ min (nx : Rat) (x + pad) ≤ r.2.stop) ∧
    ((r.1.start : Rat) ≤ max 0 (y - pad) ∧ min (ny : Rat) (y + pad) ≤ r.1.stop) := by
  have hm := mem_finitePts pts x y hmem
  simp only [fromPoints]
  cases hf : finitePts pts with
  | nil => rw [hf] at hm; simp at hm
  | cons p ps =>
    rw [hf] at hm
    simp only
    have hxm : x ∈ (p :: ps).map (·.1) := List.mem_map.mpr ⟨(x, y), hm, rfl⟩
    have hym : y ∈ (p :: ps).map (·.2) := List.mem_map.mpr ⟨(x, y), hm, rfl⟩
    exact ⟨from_points_axis_contains _ _ x nx pad al (minL_le 0 _ x hxm) (le_maxL 0 _ x hxm)
              hx.1 hx.2 hp hal,
           from_points_axis_contains _ _ y ny pad al (minL_le 0 _ y hym) (le_maxL 0 _ y hym)
              hy.1 hy.2 hp hal⟩

/-- The region never leaves the image. -/
theorem from_points_within_image (pts : List (Coord × Coord)) (ny nx pad : Int) (al : Option Int)
    (hny : 0 ≤ ny) (hnx : 0 ≤ nx) :
    let r := fromPoints pts ny nx pad al
    (0 ≤ r.1.start ∧ r.1.start ≤ ny ∧ 0 ≤ r.1.stop ∧ r.1.stop ≤ ny) ∧
    (0 ≤ r.2.start ∧ r.2.start ≤ nx ∧ 0 ≤ r.2.stop ∧ r.2.stop ≤ nx) := by
  simp only [fromPoints]
  cases finitePts pts with
  | nil => simp [hny, hnx]
  | cons p ps =>
    simp only
    have h1 := from_points_axis_within (minL 0 ((p :: ps).map (·.2))) (maxL 0 ((p :: ps).map (·.2))) ny pad al hny
    have h2 := from_points_axis_within (minL 0 ((p :: ps).map (·.1))) (maxL 0 ((p :: ps).map (·.1))) nx pad al hnx
    exact ⟨⟨h1.1, h1.2.2.2, h1.2.2.1, h1.2.1⟩, ⟨h2.1, h2.2.2.2, h2.2.2.1, h2.2.1⟩⟩

/-- Non-finite points are ignored: the result is a function of the finite points only. -/
theorem from_points_ignores_nonfinite (pts : List (Coord × Coord)) (ny nx pad : Int) (al : Option Int) :
    fromPoints pts ny nx pad al =
      fromPoints (pts.filter fun p => p.1.isFinite && p.2.isFinite) ny nx pad al := by
  have : finitePts (pts.filter fun p => p.1.isFinite && p.2.isFinite) = finitePts pts := by
    unfold finitePts
    induction pts with
    | nil => rfl
    | cons p ps ih =>
      obtain ⟨a, b⟩ := p
      have e1 : ∀ q, (Coord.fin q).isFinite = true := fun _ => rfl
      have e2 : Coord.nonfinite.isFinite = false := rfl
      cases a <;> cases b <;> simp only [List.filter_cons, List.filterMap_cons, e1, e2,
        Bool.and_true, Bool.and_false, Bool.false_and, ite_true, ite_false, ih, Bool.false_eq_true]
  simp only [fromPoints, this]

/-- No finite point at all gives the empty region `0:0, 0:0`. -/
theorem from_points_no_finite (pts : List (Coord × Coord)) (ny nx pad : Int) (al : Option Int)
    (h : finitePts pts = []) : fromPoints pts ny nx pad al = (⟨0, 0⟩, ⟨0, 0⟩) := by
  simp [fromPoints, h]

/-! ## non-vacuity: concrete instances meeting the hypotheses -/

example : Sel 5 (normSlice (.slc none (some (-7))) 5).toPIdx 0 ↔ Sel 5 (.slc none (some (-7))) 0 :=
  normalise_same_elements 5 (by decide) none (some (-7)) 0
example : (intersect3N ⟨2, 9⟩ ⟨5, 12⟩) = (⟨3, 7⟩, ⟨0, 4⟩, ⟨5, 9⟩) := by decide
example : (fromPoints [(.fin 5, .fin 5), (.fin 1000000000000, .fin 7), (.nonfinite, .fin 3)]
    100 100 0 none) = (⟨5, 7⟩, ⟨5, 100⟩) := by decide +kernel

end OdcGeo.C17
