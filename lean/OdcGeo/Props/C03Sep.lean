/-
C03 — the envelope hypotheses of `nonlinear_covers_partial` DISCHARGED for separable monotone pixel transforms.

A pixel transform is separable when the source column depends only on the destination column and the source row only
on the destination row: `(x, y) ↦ (f x, g y)`.  That is what two axis-aligned grids give in every pair of CRSs whose
transformer is itself separable — lon/lat ↔ Mercator (EPSG:4326 ↔ 3857 / 3395), lon/lat ↔ cylindrical equal area
(EPSG:6933), plate carrée — with the lon/lat clamp of `GbxPointTransform` included (a clamp is monotone).  If `f` and `g`
are monotone (increasing or decreasing: mirrored grids), the image of a rectangle is spanned by the images of its four
corners, the corners are among the 16 boundary samples, and so the padded envelope of the samples contains the image of
every pixel centre: coverage holds with NO envelope hypothesis, for the default padding (1) and any larger one.
-/
import OdcGeo.Props.C03Top
namespace OdcGeo.C03
open OdcGeo.C17

/-- increasing or decreasing -/
def MonoOrAnti (f : Rat → Rat) : Prop := (∀ a b, a ≤ b → f a ≤ f b) ∨ (∀ a b, a ≤ b → f b ≤ f a)

/-- the separable pixel transform `(x, y) ↦ (f x, g y)` -/
def sepTr (f g : Rat → Rat) : PtTr := fun p => (.fin (f p.1), .fin (g p.2))

theorem finitePts_sepTr (f g : Rat → Rat) (l : List (Rat × Rat)) :
    finitePts (l.map (sepTr f g)) = l.map (fun p => (f p.1, g p.2)) := by
  induction l with
  | nil => rfl
  | cons p ps ih =>
    simp only [List.map_cons, finitePts, List.filterMap_cons, sepTr] at ih ⊢
    rw [ih]

/-- between the end values -/
theorem monoOrAnti_between (f : Rat → Rat) (h : MonoOrAnti f) (a b u : Rat) (h1 : a ≤ u) (h2 : u ≤ b) :
    (f a ≤ f u ∨ f b ≤ f u) ∧ (f u ≤ f a ∨ f u ≤ f b) := by
  rcases h with h | h
  · exact ⟨Or.inl (h _ _ h1), Or.inr (h _ _ h2)⟩
  · exact ⟨Or.inr (h _ _ h2), Or.inl (h _ _ h1)⟩

/-- the four corners are among the boundary samples (5 per side) -/
theorem corners_mem_roiBoundary_five (r : ROI) :
    ((r.2.start : Rat), (r.1.start : Rat)) ∈ roiBoundary r 5 ∧ ((r.2.stop : Rat), (r.1.start : Rat)) ∈ roiBoundary r 5 ∧
    ((r.2.stop : Rat), (r.1.stop : Rat)) ∈ roiBoundary r 5 ∧ ((r.2.start : Rat), (r.1.stop : Rat)) ∈ roiBoundary r 5 := by
  have h4 : ∀ a b : Rat, a + 4 * ((b - a) / 4) = b := by intro a b; ring
  simp only [roiBoundary, linspace, edgeIndex, List.range_succ, List.range_zero, List.nil_append, List.map_cons, List.map_nil,
    List.cons_append, List.filterMap_cons, List.filterMap_nil, List.getElem?_cons_zero, List.getElem?_cons_succ]
  refine ⟨?_, ?_, ?_, ?_⟩ <;> simp [h4]

/-- the image of a point of a rectangle under a separable monotone map lies in the closed envelope of the images of
the boundary samples (it is spanned by the corner images) -/
theorem sep_inEnvClosed (f g : Rat → Rat) (hf : MonoOrAnti f) (hg : MonoOrAnti g) (rect : ROI) (p : Rat × Rat)
    (hx : (rect.2.start : Rat) ≤ p.1 ∧ p.1 ≤ rect.2.stop) (hy : (rect.1.start : Rat) ≤ p.2 ∧ p.2 ≤ rect.1.stop) :
    InEnvClosed (finitePts ((roiBoundary rect 5).map (sepTr f g))) (f p.1, g p.2) := by
  rw [finitePts_sepTr]
  obtain ⟨c00, c10, c11, c01⟩ := corners_mem_roiBoundary_five rect
  obtain ⟨lx, ux⟩ := monoOrAnti_between f hf _ _ p.1 hx.1 hx.2
  obtain ⟨ly, uy⟩ := monoOrAnti_between g hg _ _ p.2 hy.1 hy.2
  refine ⟨?_, ?_, ?_, ?_⟩
  · rcases lx with h | h
    · exact ⟨_, List.mem_map.mpr ⟨_, c00, rfl⟩, h⟩
    · exact ⟨_, List.mem_map.mpr ⟨_, c10, rfl⟩, h⟩
  · rcases ux with h | h
    · exact ⟨_, List.mem_map.mpr ⟨_, c00, rfl⟩, h⟩
    · exact ⟨_, List.mem_map.mpr ⟨_, c10, rfl⟩, h⟩
  · rcases ly with h | h
    · exact ⟨_, List.mem_map.mpr ⟨_, c00, rfl⟩, h⟩
    · exact ⟨_, List.mem_map.mpr ⟨_, c01, rfl⟩, h⟩
  · rcases uy with h | h
    · exact ⟨_, List.mem_map.mpr ⟨_, c00, rfl⟩, h⟩
    · exact ⟨_, List.mem_map.mpr ⟨_, c01, rfl⟩, h⟩

theorem sep_inEnvStrict (f g : Rat → Rat) (hf : MonoOrAnti f) (hg : MonoOrAnti g) (rect : ROI) (p : Rat × Rat)
    (pad : Int) (hpad : 1 ≤ pad)
    (hx : (rect.2.start : Rat) ≤ p.1 ∧ p.1 ≤ rect.2.stop) (hy : (rect.1.start : Rat) ≤ p.2 ∧ p.2 ≤ rect.1.stop) :
    InEnvStrict (finitePts ((roiBoundary rect 5).map (sepTr f g))) (f p.1, g p.2) pad := by
  obtain ⟨⟨a, ha, la⟩, ⟨b, hb, lb⟩, ⟨c, hc, lc⟩, ⟨d, hd, ld⟩⟩ := sep_inEnvClosed f g hf hg rect p hx hy
  have hp : (1 : Rat) ≤ pad := by exact_mod_cast hpad
  simp only at la lb lc ld
  exact ⟨⟨a, ha, by simp only; linarith⟩, ⟨b, hb, by simp only; linarith⟩, ⟨c, hc, by simp only; linarith⟩,
    ⟨d, hd, by simp only; linarith⟩⟩

/-- **Coverage for separable monotone pixel transforms — the FULL statement, no envelope hypothesis.**
`back = (x, y) ↦ (f x, g y)` maps destination to source pixels, `fwd = (x, y) ↦ (f' x, g' y)` the other way, all four
functions increasing or decreasing, `fwd` undoing `back`.  For `padding ≥ 1` (the default of the cross-CRS branch) and any
alignment: every destination pixel whose centre maps inside the source lies in `roi_dst`, and the source pixel it maps
to lies in `roi_src`. -/
theorem separable_monotone_covers (src dst : Shape) (f g f' g' : Rat → Rat)
    (hf : MonoOrAnti f) (hg : MonoOrAnti g) (hf' : MonoOrAnti f') (hg' : MonoOrAnti g')
    (hinvx : ∀ x, f' (f x) = x) (hinvy : ∀ y, g' (g y) = y)
    (pad : Int) (hpad : 1 ≤ pad) (al : Option Int) (hal : ∀ a, al = some a → 0 < a)
    (dy dx : Int) (hdy : 0 ≤ dy ∧ dy < dst.1) (hdx : 0 ≤ dx ∧ dx < dst.2)
    (hqx : 0 ≤ f ((dx : Rat) + 1 / 2) ∧ f ((dx : Rat) + 1 / 2) < src.2)
    (hqy : 0 ≤ g ((dy : Rat) + 1 / 2) ∧ g ((dy : Rat) + 1 / 2) < src.1) :
    let r := relativeRois src dst (sepTr f g) (sepTr f' g') 5 pad al
    (r.2.1.start ≤ dy ∧ dy < r.2.1.stop) ∧ (r.2.2.start ≤ dx ∧ dx < r.2.2.stop) ∧
    (r.1.2.start ≤ (f ((dx : Rat) + 1 / 2)).floor ∧ (f ((dx : Rat) + 1 / 2)).floor < r.1.2.stop) ∧
    (r.1.1.start ≤ (g ((dy : Rat) + 1 / 2)).floor ∧ (g ((dy : Rat) + 1 / 2)).floor < r.1.1.stop) := by
  have hdxq : (0 : Rat) ≤ dx ∧ (dx : Rat) + 1 ≤ dst.2 := ⟨by exact_mod_cast hdx.1, by exact_mod_cast hdx.2⟩
  have hdyq : (0 : Rat) ≤ dy ∧ (dy : Rat) + 1 ≤ dst.1 := ⟨by exact_mod_cast hdy.1, by exact_mod_cast hdy.2⟩
  have henvS : InEnvStrict (finitePts (srcSamples dst (sepTr f g) 5))
      (f ((dx : Rat) + 1 / 2), g ((dy : Rat) + 1 / 2)) pad := by
    have := sep_inEnvStrict f g hf hg (⟨0, dst.1⟩, ⟨0, dst.2⟩) ((dx : Rat) + 1 / 2, (dy : Rat) + 1 / 2) pad hpad
      ⟨by simp only; push_cast; linarith, by simp only; linarith⟩ ⟨by simp only; push_cast; linarith, by simp only; linarith⟩
    exact this
  have hs := relativeRois_src src dst (sepTr f g) (sepTr f' g') 5 pad al
    (f ((dx : Rat) + 1 / 2), g ((dy : Rat) + 1 / 2)) henvS hqx hqy hal
  obtain ⟨_, _, m1, m2⟩ := hs
  have bnd : ∀ (q : Rat) (lo hi : Int), lo ≤ q.floor → q.floor < hi → (lo : Rat) ≤ q ∧ q ≤ hi := by
    intro q lo hi h1 h2
    have f1 := Rat.floor_le q
    have f2 : q < (q.floor : Rat) + 1 := by
      have := Rat.lt_floor_add_one q; push_cast at this; exact this
    have a1 : (lo : Rat) ≤ (q.floor : Rat) := by exact_mod_cast h1
    have a2 : (q.floor : Rat) + 1 ≤ (hi : Rat) := by exact_mod_cast h2
    constructor <;> linarith
  have henvD : InEnvClosed (finitePts (dstSamples (relativeRois src dst (sepTr f g) (sepTr f' g') 5 pad al).1 (sepTr f' g') 5))
      ((dx : Rat) + 1 / 2, (dy : Rat) + 1 / 2) := by
    have := sep_inEnvClosed f' g' hf' hg' (relativeRois src dst (sepTr f g) (sepTr f' g') 5 pad al).1
      (f ((dx : Rat) + 1 / 2), g ((dy : Rat) + 1 / 2)) (bnd _ _ _ m1.1 m1.2) (bnd _ _ _ m2.1 m2.2)
    simp only [hinvx, hinvy] at this
    exact this
  exact nonlinear_covers_partial src dst (sepTr f g) (sepTr f' g') 5 pad al hal dy dx hdy hdx
    (f ((dx : Rat) + 1 / 2), g ((dy : Rat) + 1 / 2)) hqx hqy henvS henvD

/-! ### the pixel transform of two axis-aligned grids under a separable transformer IS separable monotone -/

theorem monoOrAnti_comp (f g : Rat → Rat) (hf : MonoOrAnti f) (hg : MonoOrAnti g) : MonoOrAnti (fun x => f (g x)) := by
  rcases hf with hf | hf <;> rcases hg with hg | hg
  · exact Or.inl fun a b h => hf _ _ (hg _ _ h)
  · exact Or.inr fun a b h => hf _ _ (hg _ _ h)
  · exact Or.inr fun a b h => hf _ _ (hg _ _ h)
  · exact Or.inl fun a b h => hf _ _ (hg _ _ h)

theorem monoOrAnti_affine (a c : Rat) : MonoOrAnti (fun x => a * x + c) := by
  rcases le_total 0 a with h | h
  · exact Or.inl fun x y hxy => by nlinarith
  · exact Or.inr fun x y hxy => by nlinarith

theorem monoOrAnti_clip (lo hi : Rat) : MonoOrAnti (fun x => npClip x lo hi) :=
  Or.inl fun a b h => by
    unfold npClip
    exact min_le_min (max_le_max h le_rfl) le_rfl

/-- `GbxPointTransform` of two AXIS-ALIGNED grids (`P`, `Qi` without rotation / shear) under a separable transformer
`(lon, lat) ↦ (u lon, v lat)` — lon/lat ↔ Mercator, cylindrical equal area, plate carrée — with or without the lon/lat
clamp, is the separable map `(x, y) ↦ (F x, G y)` with `F`, `G` monotone whenever `u`, `v` are. -/
theorem gbx_separable (P Qi : Aff) (geo : Bool) (u v : Rat → Rat) (hP : P.b = 0 ∧ P.d = 0) (hQ : Qi.b = 0 ∧ Qi.d = 0)
    (hu : MonoOrAnti u) (hv : MonoOrAnti v) :
    ∃ F G : Rat → Rat, MonoOrAnti F ∧ MonoOrAnti G ∧
      gbxApply P geo (fun w => (.fin (u w.1), .fin (v w.2))) Qi = sepTr F G := by
  cases geo with
  | false =>
    refine ⟨fun x => Qi.a * u (P.a * x + P.c) + Qi.c, fun y => Qi.e * v (P.e * y + P.f) + Qi.f, ?_, ?_, ?_⟩
    · exact monoOrAnti_comp (fun t => Qi.a * t + Qi.c) _ (monoOrAnti_affine _ _)
        (monoOrAnti_comp u _ hu (monoOrAnti_affine _ _))
    · exact monoOrAnti_comp (fun t => Qi.e * t + Qi.f) _ (monoOrAnti_affine _ _)
        (monoOrAnti_comp v _ hv (monoOrAnti_affine _ _))
    · funext p
      simp only [gbxApply, sepTr, Aff.apply, hP.1, hP.2, hQ.1, hQ.2, zero_mul, add_zero, zero_add, Bool.false_eq_true, if_false]
  | true =>
    refine ⟨fun x => Qi.a * u (npClip (P.a * x + P.c) (-180) 180) + Qi.c,
            fun y => Qi.e * v (npClip (P.e * y + P.f) (-90) 90) + Qi.f, ?_, ?_, ?_⟩
    · exact monoOrAnti_comp (fun t => Qi.a * t + Qi.c) _ (monoOrAnti_affine _ _)
        (monoOrAnti_comp u _ hu (monoOrAnti_comp (fun t => npClip t (-180) 180) _ (monoOrAnti_clip _ _) (monoOrAnti_affine _ _)))
    · exact monoOrAnti_comp (fun t => Qi.e * t + Qi.f) _ (monoOrAnti_affine _ _)
        (monoOrAnti_comp v _ hv (monoOrAnti_comp (fun t => npClip t (-90) 90) _ (monoOrAnti_clip _ _) (monoOrAnti_affine _ _)))
    · funext p
      simp only [gbxApply, sepTr, Aff.apply, clampGeo, hP.1, hP.2, hQ.1, hQ.2, zero_mul, add_zero, zero_add, if_true]

/-! ### non-vacuity -/

-- a Mercator-like pair: x ↦ 2x + 3 (increasing), y ↦ 40 - y/2 (decreasing: north-up against south-up), padding 1
example : MonoOrAnti (fun x : Rat => 2 * x + 3) ∧ MonoOrAnti (fun y : Rat => -(1 / 2) * y + 40) :=
  ⟨monoOrAnti_affine _ _, monoOrAnti_affine _ _⟩
example : relativeRois (60, 50) (20, 10) (sepTr (fun x => 2 * x + 3) (fun y => -(1 / 2) * y + 40))
    (sepTr (fun x => (x - 3) / 2) (fun y => (40 - y) * 2)) 5 1 none = ((⟨29, 41⟩, ⟨2, 24⟩), (⟨0, 20⟩, ⟨0, 10⟩)) := by
  decide +kernel

end OdcGeo.C03
