/-
C14 — web tiles: zoom `z` → `z+1` refinement.  Each slippy-map tile `(i, j)` at zoom `z` splits into exactly its four
children `(2i+a, 2j+b)`, `a, b ∈ {0, 1}`, at zoom `z+1`: the children quarter the parent's footprint (explicit extents) and
the half-open children partition the half-open parent.
-/
import OdcGeo.Props.C14

namespace OdcGeo.C14

section
variable {P : Rat} {npix : Int} {g g' : GridSpec}

/-- extents of the four children inside the parent (x index left→right, y index top→bottom) -/
theorem web_tiles_children_extent (hP : 0 < P) (z : Nat) (hn : 0 < npix)
    (hg : GridSpec.webTiles id P (z : Int) npix = .ok g)
    (hg' : GridSpec.webTiles id P ((z + 1 : Nat) : Int) npix = .ok g') (i j a b : Int) :
    let T := 2 * P / 2 ^ z
    (g'.footprint (2 * i + a, 2 * j + b)).left = (g.footprint (i, j)).left + (a : Rat) * (T / 2) ∧
    (g'.footprint (2 * i + a, 2 * j + b)).right = (g.footprint (i, j)).left + ((a : Rat) + 1) * (T / 2) ∧
    (g'.footprint (2 * i + a, 2 * j + b)).top = (g.footprint (i, j)).top - (b : Rat) * (T / 2) ∧
    (g'.footprint (2 * i + a, 2 * j + b)).bottom = (g.footprint (i, j)).top - ((b : Rat) + 1) * (T / 2) ∧
    g'.rx = g.rx / 2 ∧ g'.ry = g.ry / 2 := by
  intro T
  obtain ⟨e1, _, _, r1, r2⟩ := web_tile_extent hP z hn hg i j
  obtain ⟨e2, _, _, s1, s2⟩ := web_tile_extent hP (z + 1) hn hg' (2 * i + a) (2 * j + b)
  have hT : 2 * P / 2 ^ (z + 1) = T / 2 := by
    show 2 * P / 2 ^ (z + 1) = 2 * P / 2 ^ z / 2
    rw [pow_succ]; field_simp
  rw [e1, e2, r1, r2, s1, s2, hT]
  push_cast
  refine ⟨by ring, by ring, by ring, by ring, by ring, by ring⟩

/-- the four half-open children partition the half-open parent: every point of the parent lies in exactly the child
    `(2i+a, 2j+b)` with `a, b ∈ {0,1}` that point lookup at zoom `z+1` returns, and no child reaches outside the parent -/
theorem web_tiles_refinement (hP : 0 < P) (z : Nat) (hn : 0 < npix)
    (hg : GridSpec.webTiles id P (z : Int) npix = .ok g)
    (hg' : GridSpec.webTiles id P ((z + 1 : Nat) : Int) npix = .ok g') (i j : Int) (p : Rat × Rat) :
    (g.footprint (i, j)).memHalfOpen p ↔
      ∃ a b : Int, (a = 0 ∨ a = 1) ∧ (b = 0 ∨ b = 1) ∧ (g'.footprint (2 * i + a, 2 * j + b)).memHalfOpen p := by
  have hTpos : 0 < 2 * P / 2 ^ z := by positivity
  have ext := fun a b => web_tiles_children_extent hP z hn hg hg' i j a b
  obtain ⟨e1, _⟩ := web_tile_extent hP z hn hg i j
  have hw : (g.footprint (i, j)).right = (g.footprint (i, j)).left + 2 * P / 2 ^ z := by rw [e1]; ring
  have hh : (g.footprint (i, j)).bottom = (g.footprint (i, j)).top - 2 * P / 2 ^ z := by rw [e1]; ring
  unfold BBox.memHalfOpen
  simp only at ext
  generalize 2 * P / 2 ^ z = T at *
  generalize (g.footprint (i, j)).left = L at *
  generalize (g.footprint (i, j)).top = Tp at *
  constructor
  · rintro ⟨h1, h2, h3, h4⟩
    rw [hw] at h2; rw [hh] at h3
    by_cases hx : p.1 < L + T / 2 <;> by_cases hy : p.2 < Tp - T / 2
    · refine ⟨0, 1, Or.inl rfl, Or.inr rfl, ?_⟩
      obtain ⟨a1, a2, a3, a4, _⟩ := ext 0 1
      rw [a1, a2, a3, a4]; push_cast
      refine ⟨by linarith, by linarith, by linarith, by linarith⟩
    · refine ⟨0, 0, Or.inl rfl, Or.inl rfl, ?_⟩
      obtain ⟨a1, a2, a3, a4, _⟩ := ext 0 0
      rw [a1, a2, a3, a4]; push_cast
      refine ⟨by linarith, by linarith, by linarith, by linarith⟩
    · refine ⟨1, 1, Or.inr rfl, Or.inr rfl, ?_⟩
      obtain ⟨a1, a2, a3, a4, _⟩ := ext 1 1
      rw [a1, a2, a3, a4]; push_cast
      refine ⟨by linarith, by linarith, by linarith, by linarith⟩
    · refine ⟨1, 0, Or.inr rfl, Or.inl rfl, ?_⟩
      obtain ⟨a1, a2, a3, a4, _⟩ := ext 1 0
      rw [a1, a2, a3, a4]; push_cast
      refine ⟨by linarith, by linarith, by linarith, by linarith⟩
  · rintro ⟨a, b, ha, hb, h1, h2, h3, h4⟩
    obtain ⟨a1, a2, a3, a4, _⟩ := ext a b
    rw [a1] at h1; rw [a2] at h2; rw [a4] at h3; rw [a3] at h4
    rw [hw, hh]
    rcases ha with rfl | rfl <;> rcases hb with rfl | rfl <;> push_cast at h1 h2 h3 h4 <;>
      refine ⟨by linarith, by linarith, by linarith, by linarith⟩

end

example : ∃ g g', GridSpec.webTiles id 3 ((1 : Nat) : Int) 256 = .ok g ∧ GridSpec.webTiles id 3 ((1 + 1 : Nat) : Int) 256 = .ok g' :=
  ⟨_, _, GridSpec.webTiles_ok (P := 3) (by norm_num) ((1 : Nat) : Int) (npix := 256) (by norm_num),
    GridSpec.webTiles_ok (P := 3) (by norm_num) ((1 + 1 : Nat) : Int) (npix := 256) (by norm_num)⟩

end OdcGeo.C14
