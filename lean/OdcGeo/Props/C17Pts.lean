/-
C17 — `roi_from_points`: a sample point with exactly ONE non-finite coordinate is ignored entirely (the finite filter works
per row: `keep = ok_mask.T[0] * ok_mask.T[1]`), explicit corollaries of `Model/C17.lean::finitePts`.
-/
import OdcGeo.Model.C17

namespace OdcGeo.C17

/-- a row with a non-finite coordinate — in x only, in y only, or in both — does not pass the filter -/
theorem finitePts_half_finite (a b : List (Coord × Coord)) (p : Coord × Coord)
    (hp : p.1.isFinite = false ∨ p.2.isFinite = false) : finitePts (a ++ [p] ++ b) = finitePts (a ++ b) := by
  have h1 : finitePts [p] = [] := by
    obtain ⟨x, y⟩ := p
    cases x <;> cases y <;> simp_all [finitePts, Coord.isFinite]
  simp only [finitePts, List.filterMap_append] at h1 ⊢
  rw [h1, List.append_nil]

/-- **A point whose x is finite and whose y is not (or the other way round) is ignored ENTIRELY**: wherever it stands in
the array, the region is the region of the other points — its finite coordinate does not widen the envelope on its
axis (a per-column filter would let it). -/
theorem from_points_half_finite_point_ignored (a b : List (Coord × Coord)) (x : Rat) (ny nx pad : Int) (al : Option Int) :
    fromPoints (a ++ [(.fin x, .nonfinite)] ++ b) ny nx pad al = fromPoints (a ++ b) ny nx pad al ∧
    fromPoints (a ++ [(.nonfinite, .fin x)] ++ b) ny nx pad al = fromPoints (a ++ b) ny nx pad al := by
  have h1 := finitePts_half_finite a b (.fin x, .nonfinite) (Or.inr rfl)
  have h2 := finitePts_half_finite a b (.nonfinite, .fin x) (Or.inl rfl)
  simp only [fromPoints, h1, h2, and_self]

/-- the same for any row that is not finite in both coordinates -/
theorem from_points_nonfinite_row_ignored (a b : List (Coord × Coord)) (p : Coord × Coord)
    (hp : p.1.isFinite = false ∨ p.2.isFinite = false) (ny nx pad : Int) (al : Option Int) :
    fromPoints (a ++ [p] ++ b) ny nx pad al = fromPoints (a ++ b) ny nx pad al := by
  simp only [fromPoints, finitePts_half_finite a b p hp]

/-- a far outlier in the finite coordinate of such a row changes nothing: x = 10^12 beside a NaN y -/
example : fromPoints [(.fin 5, .fin 5), (.fin 1000000000000, .nonfinite), (.fin 7, .fin 9)] 100 100 0 none
    = fromPoints [(.fin 5, .fin 5), (.fin 7, .fin 9)] 100 100 0 none := by decide

/-- … whereas the same outlier with a finite y does widen the region (the hypothesis is not vacuous) -/
example : fromPoints [(.fin 5, .fin 5), (.fin 1000000000000, .fin 6), (.fin 7, .fin 9)] 100 100 0 none
    ≠ fromPoints [(.fin 5, .fin 5), (.fin 7, .fin 9)] 100 100 0 none := by decide

end OdcGeo.C17
