/-
C05 ∘ C06 ∘ C18 — `save_cog_with_dask(..., dst=<file>)` from the tile stream to the bytes on disk, in one statement:

* C05 (`Model/C05.lean`, read-only): the tiles are streamed in `writeOrder`, `_patch_hdr` turns the observed
  `(size, id)` list into the offset / byte-count tables of the header;
* C06 (`Model/C06Dask.lean`): `mpu_write` over ANY cutting of that stream into bags and partitions, with the graph
  shape the code builds (dask fold `split_every = 4`, collate), any spill size and writes-per-chunk;
* C18 (`Model/C18.lean`, read-only): the writer calls performed on `MPUFileSink`, finalised with the list C06 hands over.

No tree, no schedule, no "the parts concatenate to the stream" hypothesis: only the arguments.
-/
import OdcGeo.Props.C06Dask
import OdcGeo.Props.C05
import OdcGeo.Props.C18C06

set_option linter.unusedVariables false
set_option linter.unusedSimpArgs false

namespace OdcGeo.C06
open OdcGeo

/-- payloads of all chunks of a list of bags, in stream order -/
def bagsChunks {α : Type} (bags : List (List (List (List α × Int)))) : List (List α) :=
  (bags.flatten.map fun p => p.map (·.1)).flatten

theorem zipWith_obsOf_sz (wo : List (Nat × Nat × Nat × Nat)) (szs : List Nat) (h : wo.length = szs.length) :
    (List.zipWith C05.obsOf wo szs).map (·.sz) = szs := by
  induction wo generalizing szs with
  | nil => cases szs <;> simp_all
  | cons e es ih =>
    cases szs with
    | nil => simp at h
    | cons s ss => simp [C05.obsOf, ih ss (by simpa using h)]

/-- **A COG written through `mpu_write` to a file: every header entry addresses exactly its tile's bytes ON DISK.**

For every pyramid `ms = m0 :: rest` (same plane count on every level), every cutting of the tile stream into bags and
partitions (≥ 1 partition per bag, ≥ 1 tile per partition, as many tiles as `writeOrder ms` lists, tile sizes arbitrary
incl. 0), every writer limits with enough part numbers, spill size, writes-per-chunk, and a header callback whose
result has the fixed length `hdrSz`:

* `mpu_write` (graph shape derived in the model) succeeds and shows the callback the complete `(size, id)` list;
* `_patch_hdr` succeeds on the observed stream;
* the writer calls, performed on the file sink and finalised with C06's list, leave the destination file
  = header ++ all tiles in stream order, no parts directory, no error;
* for every tile with data the patched header holds `(off, size)` and the FILE holds exactly that tile's bytes at
  `[off, off + size)`. -/
theorem cog_file_end_to_end (W : Writer) (spill wpc : Nat) (bags : List (List (List (List Nat × Int))))
    (mkHdr : Option (List (Nat × Int) → List Nat))
    (hb : bags ≠ []) (hp : ∀ b ∈ bags, b ≠ []) (hc : ∀ b ∈ bags, ∀ p ∈ b, p ≠ [])
    (hcap : W.minPart + 1 + bags.flatten.length * wpc ≤ W.maxPart + 1)
    (hdrSz : Nat) (hH : (optBytes (mkHdr.map (fun f => f (bagsObs bags)))).length = hdrSz)
    (m0 : C05.Meta) (rest : List C05.Meta) (hpl : ∀ m ∈ rest, m.planes = m0.planes)
    (hcount : (bagsChunks bags).length = (C05.writeOrder (m0 :: rest)).length) :
    let ms := m0 :: rest
    let tiles := List.zipWith C05.obsOf (C05.writeOrder ms) ((bagsChunks bags).map List.length)
    ∃ wsF fp wsAll info,
      mpuWrite (some W) spill wpc bags mkHdr none = some (.ok (.written wsF fp, wsAll, bagsObs bags)) ∧
      C05.patchHdr ms tiles hdrSz = .ok info ∧
      (C18.Sink.finalise true (C18.sinkAfter wsAll) (fp.map (·.id)) false).2 = none ∧
      (C18.Sink.finalise true (C18.sinkAfter wsAll) (fp.map (·.id)) false).1.dirExists = false ∧
      (C18.Sink.finalise true (C18.sinkAfter wsAll) (fp.map (·.id)) false).1.dst =
        some (optBytes (mkHdr.map (fun f => f (bagsObs bags))) ++ bagsBytes bags) ∧
      ∀ file, (C18.Sink.finalise true (C18.sinkAfter wsAll) (fp.map (·.id)) false).1.dst = some file →
        ∀ i (hi : i < tiles.length) (hci : i < (bagsChunks bags).length), tiles[i].sz ≠ 0 →
          ∃ l f off, C05.obsKey ms tiles[i] = .ok (l, f) ∧ C05.look info l f = some (off, tiles[i].sz) ∧
            (file.drop off).take tiles[i].sz = (bagsChunks bags)[i] := by
  intro ms tiles
  -- the tree the code builds
  obtain ⟨t, ht, hleaf⟩ := mpuWriteTree_spec mpuWriteSplitEvery (by decide) bags hb hp
  have hbytes : t.bytes = bagsBytes bags := by rw [Tree.bytes_leafList, hleaf, bagsBytes]
  have hobs : t.obs = bagsObs bags := by rw [Tree.obs_leafList, hleaf, bagsObs]
  have hleaves : t.leaves = bags.flatten.length := by rw [Tree.leaves_leafList, hleaf]
  have hchunks : t.chunks = bagsChunks bags := by rw [Tree.chunks_leafList, hleaf, bagsChunks]
  have hne : t.NonEmpty := by
    rw [Tree.nonEmpty_leafList, hleaf]
    intro p hpm
    obtain ⟨b, hbm, hpb⟩ := List.mem_flatten.mp hpm
    exact hc b hbm p hpb
  have hcap' : W.minPart + 1 + t.leaves * wpc ≤ W.maxPart + 1 := by rw [hleaves]; exact hcap
  -- C18 ∘ C06 on that tree
  obtain ⟨wsF, fp, wsAll, hrun, _, hs2, hs3, hs4, _⟩ :=
    C18.mpu_write_to_file_sink W spill wpc t mkHdr none hne hcap'
  -- C06: where each chunk sits
  obtain ⟨wsF', fp', wsAll', hrun', hfile⟩ :=
    file_chunk_bytes W spill wpc t mkHdr hne hcap' hdrSz (by rw [hobs]; exact hH)
  have hsame : fp' = fp := by
    have h1 : run ⟨some W, spill, wpc, true⟩ t mkHdr none = .ok (.written wsF fp, wsAll, t.obs) := by
      simpa using hrun
    rw [h1] at hrun'
    simp only [Except.ok.injEq, Prod.mk.injEq, Out.written.injEq] at hrun'
    exact hrun'.1.2.symm
  subst hsame
  -- C05: the header table of the observed stream
  have hszs : tiles.map (·.sz) = (bagsChunks bags).map List.length :=
    zipWith_obsOf_sz _ _ (by simp only [List.length_map, hcount, ms])
  obtain ⟨info0, hinfo0, hlook0⟩ := C05.write_order_stream_exact m0 rest hpl ((bagsChunks bags).map List.length) 0
  cases hpatch : C05.patchHdr ms tiles hdrSz with
  | error e => simp [C05.patchHdr, ms, tiles, hinfo0, Except.map] at hpatch
  | ok info =>
    have hdst : (C18.Sink.finalise true (C18.sinkAfter wsAll) (fp'.map (·.id)) false).1.dst =
        some (optBytes (mkHdr.map (fun f => f (bagsObs bags))) ++ bagsBytes bags) := by
      rw [hs3, hobs, hbytes]; simp [optBytes]
    refine ⟨wsF, fp', wsAll, info, ?_, rfl, hs2, hs4, hdst, ?_⟩
    · have hbe : bags.isEmpty = false := by cases bags <;> simp_all
      simp only [mpuWrite, hbe, Bool.false_eq_true, if_false, ht, Option.map_some, Option.isNone_none]
      rw [← hobs]; exact congrArg some (by simpa using hrun)
    · intro file hfile' i hi hci hnz
      rw [hdst] at hfile'
      have hfile'' : file = partsBytes fp' := by
        have hx : partsBytes fp' = optBytes (mkHdr.map (fun f => f (bagsObs bags))) ++ bagsBytes bags := by
          obtain ⟨a, b, c, hr, hb', _⟩ := main W spill wpc t mkHdr none hne hcap'
          have h1 : run ⟨some W, spill, wpc, true⟩ t mkHdr none = .ok (.written wsF fp', wsAll, t.obs) := by
            simpa using hrun
          have h2 : run ⟨some W, spill, wpc, true⟩ t mkHdr none = .ok (.written a b, c, t.obs) := by simpa using hr
          rw [h1] at h2
          simp only [Except.ok.injEq, Prod.mk.injEq, Out.written.injEq] at h2
          rw [h2.1.2, hb', hobs, hbytes]; simp [optBytes]
        rw [hx]; exact (Option.some.inj hfile').symm
      obtain ⟨l, f, hkey, hlook⟩ := hlook0 i hi hnz
      have hlookP := C05.patch_hdr_exact ms tiles hdrSz info info0 hinfo0 hpatch l f _ _ hlook
      refine ⟨l, f, C05.streamOff 0 tiles i + hdrSz, hkey, hlookP, ?_⟩
      have htake : C05.sizes (tiles.take i) = ((bagsChunks bags).take i).flatten.length := by
        have h : (tiles.take i).map (·.sz) = ((bagsChunks bags).take i).map List.length := by
          rw [List.map_take, List.map_take, hszs]
        simp only [C05.sizes, h, List.length_flatten]
      have hoff : C05.streamOff 0 tiles i + hdrSz = hdrSz + ((bagsChunks bags).take i).flatten.length := by
        simp only [C05.streamOff, Nat.zero_add, htake]; omega
      have hlen : tiles[i].sz = ((bagsChunks bags)[i]).length := by
        have := congrArg (fun l => l[i]?) hszs
        simp only [List.getElem?_map, List.getElem?_eq_getElem hi, List.getElem?_eq_getElem hci,
          Option.map_some] at this
        exact Option.some.inj this
      rw [hfile'', hoff, hlen]
      have := hfile i (by rw [hchunks]; exact hci)
      simpa only [hchunks] using this

/-- non-vacuity: a two-level single-band pyramid (1×3 and 1×2 tiles), streamed as two bags -/
example :
    let ms : List C05.Meta := [⟨1, ⟨8, 40⟩, ⟨16, 16⟩⟩, ⟨1, ⟨4, 20⟩, ⟨16, 16⟩⟩]
    let bags : List (List (List (List Nat × Int))) := [[[([1, 2], 0), ([3], 1)]], [[([4], 2)], [([], 3), ([5, 6], 4)]]]
    bags ≠ [] ∧ (∀ b ∈ bags, b ≠ []) ∧ (∀ b ∈ bags, ∀ p ∈ b, p ≠ []) ∧
      (bagsChunks bags).length = (C05.writeOrder ms).length ∧ (1 + 1 + bags.flatten.length * 1 ≤ 10000 + 1) := by
  decide

end OdcGeo.C06
