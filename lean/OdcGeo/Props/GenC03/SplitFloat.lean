/-
C03 — source tie, piece `SplitFloat` (see OdcGeo/Props/GenC03.lean).  One compilation unit per tied function (or small
group), so that a tie that is lost in a run only removes its own theorems from that run's obligations.
-/
import OdcGeo.Gen.C03
import OdcGeo.Gen.Tie
import OdcGeo.Lemmas.GenC03
import OdcGeo.Props.C03

namespace OdcGeo.C03
open OdcGeo.Gen OdcGeo.C17

theorem tie_split_float (x : Rat) : Gen.C03.split_float x = splitFloat x := by
  tie_auto [Gen.C03.split_float, splitFloat, py_fmod_one]

end OdcGeo.C03
