/-
C03 — source tie, piece `MaybeInt` (see OdcGeo/Props/GenC03.lean).  One compilation unit per tied function (or small
group), so that a tie that is lost in a run only removes its own theorems from that run's obligations.
-/
import OdcGeo.Gen.C03
import OdcGeo.Gen.Tie
import OdcGeo.Lemmas.GenC03
import OdcGeo.Props.C03
import OdcGeo.Props.GenC03.SplitFloat

namespace OdcGeo.C03
open OdcGeo.Gen OdcGeo.C17

theorem tie_maybe_int (x tol : Rat) : Gen.C03.maybe_int x tol = maybeInt x tol := by
  tie_auto [Gen.C03.maybe_int, maybeInt, tie_split_float, py_absR_eq, py_trunc_eq, trunc_splitFloat_whole]

end OdcGeo.C03
