/-
C03 — source tie, piece `ComputeAxisOverlap` (see OdcGeo/Props/GenC03.lean).  One compilation unit per tied function (or small
group), so that a tie that is lost in a run only removes its own theorems from that run's obligations.
-/
import OdcGeo.Gen.C03
import OdcGeo.Gen.Tie
import OdcGeo.Lemmas.GenC03
import OdcGeo.Props.C03

namespace OdcGeo.C03
open OdcGeo.Gen OdcGeo.C17

/-- `compute_axis_overlap(Ns, Nd, s, t)` -/
theorem tie_compute_axis_overlap (Ns Nd : Int) (s t : Rat) :
    Gen.C03.compute_axis_overlap Ns Nd s t = axisOverlap Ns Nd s t := by
  tie_auto [Gen.C03.compute_axis_overlap, axisOverlap, axisPos]

/-- `axis_error_iff` for the source `compute_axis_overlap` -/
theorem gen_axis_error_iff (Ns Nd : Int) (s t : Rat) :
    (∃ e, Gen.C03.compute_axis_overlap Ns Nd s t = .error e) ↔ s = 0 := by
  rw [tie_compute_axis_overlap]; exact axis_error_iff Ns Nd s t

/-- `axis_within` for the source `compute_axis_overlap` -/
theorem gen_axis_within (Ns Nd : Int) (s t : Rat) (hNs : 0 ≤ Ns) (hNd : 0 ≤ Nd) (r : NSlice × NSlice)
    (h : Gen.C03.compute_axis_overlap Ns Nd s t = .ok r) :
    (0 ≤ r.1.start ∧ r.1.start ≤ r.1.stop ∧ r.1.stop ≤ Ns) ∧
    (0 ≤ r.2.start ∧ r.2.start ≤ r.2.stop ∧ r.2.stop ≤ Nd) := by
  rw [tie_compute_axis_overlap] at h; exact axis_within Ns Nd s t hNs hNd r h

/-- `axis_dst_covers` (never drops a needed destination pixel) for the source `compute_axis_overlap` -/
theorem gen_axis_dst_covers (Ns Nd : Int) (s t : Rat) (r : NSlice × NSlice)
    (h : Gen.C03.compute_axis_overlap Ns Nd s t = .ok r) (d : Int) (hd0 : 0 ≤ d) (hdN : d < Nd)
    (hx0 : 0 ≤ s * ((d : Rat) + 1 / 2) + t) (hxN : s * ((d : Rat) + 1 / 2) + t < Ns) :
    r.2.start ≤ d ∧ d < r.2.stop := by
  rw [tie_compute_axis_overlap] at h; exact axis_dst_covers Ns Nd s t r h d hd0 hdN hx0 hxN

end OdcGeo.C03
