/-
C03 — source tie, piece `PickReadScale` (see OdcGeo/Props/GenC03.lean).  One compilation unit per tied function (or small
group), so that a tie that is lost in a run only removes its own theorems from that run's obligations.
-/
import OdcGeo.Gen.C03
import OdcGeo.Gen.Tie
import OdcGeo.Lemmas.GenC03
import OdcGeo.Props.C03
import OdcGeo.Props.GenC03.MaybeInt

namespace OdcGeo.C03
open OdcGeo.Gen OdcGeo.C17

/-- `_pick_read_scale(scale, tol)` -/
theorem tie_pick_read_scale (scale tol : Rat) : Gen.C03.pick_read_scale scale tol = pickReadScale scale tol := by
  tie_auto [Gen.C03.pick_read_scale, pickReadScale, tie_maybe_int, py_trunc_eq]

/-- `read_shrink_pos_int` for the source `_pick_read_scale` -/
theorem gen_read_shrink_pos_int (scale tol : Rat) (rs : Int) (h : Gen.C03.pick_read_scale scale tol = .ok rs) :
    1 ≤ rs := by
  rw [tie_pick_read_scale] at h; exact read_shrink_pos_int scale tol rs h

/-- `read_shrink_bound` for the source `_pick_read_scale` -/
theorem gen_read_shrink_bound (scale tol : Rat) (rs : Int) (h : Gen.C03.pick_read_scale scale tol = .ok rs) :
    ((rs : Rat) ≤ max 1 scale ∨ (rs : Rat) - scale < tol) ∧ scale - 1 < rs := by
  rw [tie_pick_read_scale] at h; exact read_shrink_bound scale tol rs h

end OdcGeo.C03
