/-
C14 × C16 — composition of the GridSpec model with the BoundingBox model of property C16
(`BoundingBox.from_transform`, geom.py:276-292, as repaired on HEAD; imported read-only from `Model/C16.lean`).

* every tile handed out by a GridSpec, looked at through C16's `from_transform`, has the bin rectangle as bounding box;
* the public path `gs.tiles(geobox.boundingbox)` for ANY GeoBox (rotated, sheared, mirrored affine): the returned tiles
  cover the whole footprint of the GeoBox except possibly the `tol`-wide band along the edges of its bounding box, and
  nothing farther than `tol` from the bounding box is returned.
-/
import OdcGeo.Lemmas.C14C16
import OdcGeo.Props.C14

namespace OdcGeo.C14

section
variable {ny nx : Int} {rx ry ox oy : Rat} {fx fy : Bool} {g : GridSpec}

/-- every tile of a grid, through C16's `BoundingBox.from_transform(shape, affine)`: the bin rectangle -/
theorem c16_tile_boundingbox (hg : GridSpec.new id ny nx rx ry ox oy fx fy = .ok g) (k : Int × Int) (crs : Option Nat) :
    ofC16 (C16.BBox.fromTransform (g.tileGeobox id k).ny (g.tileGeobox id k).nx (g.tileGeobox id k).aff crs) =
      ⟨g.xbin.lo id k.1, g.ybin.lo id k.2, g.xbin.hi id k.1, g.ybin.hi id k.2⟩ ∧
    ofC16 (C16.BBox.fromTransform (g.tileGeobox id k).ny (g.tileGeobox id k).nx (g.tileGeobox id k).aff crs) = g.footprint k := by
  obtain ⟨_, w⟩ := GridSpec.new_ok hg
  have hf := GridSpec.footprint_eq g w k
  have e : ofC16 (C16.BBox.fromTransform (g.tileGeobox id k).ny (g.tileGeobox id k).nx (g.tileGeobox id k).aff crs) = g.footprint k := by
    unfold GridSpec.footprint GeoBox.bbox applyF ofC16 C16.BBox.fromTransform C16.bboxOfPoints Aff.apply
    simp only [List.map, C16.minL, C16.maxL, id, BBox.mk.injEq]
    refine ⟨?_, ?_, ?_, ?_⟩ <;> simp only [mul_comm]
  exact ⟨e.trans hf, e⟩

/-- END TO END `gs.tiles(geobox.boundingbox)` for any GeoBox `(ny', nx', A)`, any tolerance `0 ≤ tol` not wider than half the
    bounding box: the tile of EVERY point of the GeoBox footprint is returned unless the point lies in the `tol` band along the
    edges of the bounding box; conversely every returned tile comes within `tol` of the bounding box. -/
theorem geobox_bbox_query_covers (hg : GridSpec.new id ny nx rx ry ox oy fx fy = .ok g) (ny' nx' : Int) (A : Aff)
    (crs : Option Nat) {tol : Rat} (ht : 0 ≤ tol) :
    let q := ofC16 (C16.BBox.fromTransform ny' nx' A crs)
    q.left + tol ≤ q.right - tol → q.bottom + tol ≤ q.top - tol →
    (∀ u v : Rat, 0 ≤ u → u ≤ (nx' : Rat) → 0 ≤ v → v ≤ (ny' : Rat) →
      g.pt2idx id (A.apply (u, v)).1 (A.apply (u, v)).2 ∈ g.tiles id tol q ∨
      ¬ (q.left + tol ≤ (A.apply (u, v)).1 ∧ (A.apply (u, v)).1 ≤ q.right - tol ∧
         q.bottom + tol ≤ (A.apply (u, v)).2 ∧ (A.apply (u, v)).2 ≤ q.top - tol)) ∧
    (∀ u v : Rat, 0 ≤ u → u ≤ (nx' : Rat) → 0 ≤ v → v ≤ (ny' : Rat) → q.memClosed (A.apply (u, v))) ∧
    (∀ k ∈ g.tiles id tol q, ∃ p : Rat × Rat, q.left - tol ≤ p.1 ∧ p.1 ≤ q.right + tol ∧ q.bottom - tol ≤ p.2 ∧
      p.2 ≤ q.top + tol ∧ (g.footprint k).memHalfOpen p) := by
  intro q hx hy
  refine ⟨fun u v hu0 hu hv0 hv => ?_, fun u v hu0 hu hv0 hv => c16_from_transform_contains ny' nx' A crs u v hu0 hu hv0 hv,
    fun k hk => ?_⟩
  · by_cases hp : q.left + tol ≤ (A.apply (u, v)).1 ∧ (A.apply (u, v)).1 ≤ q.right - tol ∧
        q.bottom + tol ≤ (A.apply (u, v)).2 ∧ (A.apply (u, v)).2 ≤ q.top - tol
    · left
      rw [bbox_query_exact hg tol q hx hy]
      exact ⟨A.apply (u, v), hp.1, hp.2.1, hp.2.2.1, hp.2.2.2, pt_in_its_tile hg _ _⟩
    · right; exact hp
  · have hxx : q.left ≤ q.right := by linarith
    have hyy : q.bottom ≤ q.top := by linarith
    exact idx_bounds_sound hg ht q hxx hyy k ((tiles_mem g tol q k).mp hk)

end

example : ofC16 (C16.BBox.fromTransform 1 1 ⟨1, -1, 0, 1, 1, 0⟩ none) = ⟨-1, 0, 1, 2⟩ := by decide +kernel

end OdcGeo.C14
