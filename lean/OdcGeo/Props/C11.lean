/-
C11 — the output grid computed for another CRS encloses the source.

Property theorems only.  `computeOutput` is the model of `compute_output_geobox` for a `GeoBox`
source (Model/C11.lean); everything pyproj computes (`Captured`: footprint bbox in the destination
CRS, CRS / unit equality, source resolution, centre-pixel fit) is universally quantified.
-/
import OdcGeo.Model.C11
import OdcGeo.Lemmas.C11
import Mathlib.Tactic.Linarith
import Mathlib.Tactic.Ring
import Mathlib.Tactic.Positivity

namespace OdcGeo.C11
open OdcGeo

/-- world extent of an output grid on each axis -/
def Grid.xLo (g : Grid) : Rat := gridLo g.A.c g.A.a g.nx
def Grid.xHi (g : Grid) : Rat := gridHi g.A.c g.A.a g.nx
def Grid.yLo (g : Grid) : Rat := gridLo g.A.f g.A.e g.ny
def Grid.yHi (g : Grid) : Rat := gridHi g.A.f g.A.e g.ny

theorem fromBboxRes_ok (b : BBox) (rx ry : Rat) (snap : Option (Rat × Rat)) (tol : Rat) (g : Grid)
    (h : fromBboxRes b rx ry snap tol = .ok g) :
    ∃ offx nx offy ny, snapGrid b.left b.right rx (snap.map (·.1)) tol = .ok (offx, nx) ∧
      snapGrid b.bottom b.top ry (snap.map (·.2)) tol = .ok (offy, ny) ∧
      g = ⟨ny, nx, Aff.translation offx offy * Aff.scale rx ry⟩ := by
  unfold fromBboxRes at h
  simp only [bind, Except.bind, pure, Except.pure] at h
  split at h
  · cases h
  · rename_i p hp
    obtain ⟨offx, nx⟩ := p
    simp only at h
    split at h
    · cases h
    · rename_i q hq
      obtain ⟨offy, ny⟩ := q
      simp only [Except.ok.injEq] at h
      exact ⟨offx, nx, offy, ny, hp, hq, h.symm⟩

theorem fromBbox_none_some (b : BBox) (rx ry : Rat) (anchor : Anchor) (tight : Bool) (tol : Rat) :
    fromBbox b .none (some (rx, ry)) anchor tight tol = fromBboxRes b rx ry (snapOf anchor tight) tol := by
  simp [fromBbox]

/-- resolution-driven requests end in the resolution branch of `from_bbox` with the chosen pixel size -/
theorem out_res_form (c : Captured) (mode : ResMode) (tight : Bool) (anchor : Anchor) (tol : Rat)
    (rnd : Rounding) (g : Grid) (h : computeOutput c mode .none tight anchor tol rnd = .ok (.grid g)) :
    ∃ rx ry, chooseRes c mode .none rnd = .ok (some (rx, ry)) ∧
      fromBboxRes c.bbox rx ry (snapOf anchor tight) tol = .ok g := by
  unfold computeOutput at h
  split at h
  · cases h
  · split at h
    · cases h
    · rename_i res hres
      cases res with
      | none =>
        simp [fromBbox, Except.map] at h
      | some r =>
        obtain ⟨rx, ry⟩ := r
        rw [fromBbox_none_some] at h
        refine ⟨rx, ry, hres, ?_⟩
        cases hf : fromBboxRes c.bbox rx ry (snapOf anchor tight) tol with
        | error e => simp [hf, Except.map] at h
        | ok g' =>
          simp only [hf, Except.map, Except.ok.injEq, Out.grid.injEq] at h
          rw [h]

/-- **out_same_crs_identity** — asking for the source's own CRS with default options
(`resolution` auto or same, no shape, anchor "default"; any `tight`/`tol`/rounding) returns the
source GeoBox itself. -/
theorem out_same_crs_identity (c : Captured) (mode : ResMode) (tight : Bool) (tol : Rat) (rnd : Rounding)
    (hc : c.sameCrs = true) (hm : mode = .auto ∨ mode = .same) :
    computeOutput c mode .none tight .dflt tol rnd = .ok .source := by
  unfold computeOutput
  simp [hc, hm]

/-- **out_axis_aligned** — every grid computed for a resolution-driven request is axis-aligned
(pure scale + translation) with exactly the chosen pixel size. -/
theorem out_axis_aligned (c : Captured) (mode : ResMode) (tight : Bool) (anchor : Anchor) (tol : Rat)
    (rnd : Rounding) (g : Grid) (h : computeOutput c mode .none tight anchor tol rnd = .ok (.grid g)) :
    g.A.b = 0 ∧ g.A.d = 0 ∧ ∃ rx ry, chooseRes c mode .none rnd = .ok (some (rx, ry)) ∧ g.A.a = rx ∧ g.A.e = ry := by
  obtain ⟨rx, ry, hres, hf⟩ := out_res_form c mode tight anchor tol rnd g h
  obtain ⟨offx, nx, offy, ny, _, _, hg⟩ := fromBboxRes_ok _ _ _ _ _ _ hf
  subst hg
  refine ⟨by simp [Aff.mul_def, Aff.mul, Aff.translation, Aff.scale],
    by simp [Aff.mul_def, Aff.mul, Aff.translation, Aff.scale], rx, ry, hres, ?_, ?_⟩ <;>
  simp [Aff.mul_def, Aff.mul, Aff.translation, Aff.scale]

/-- **out_contains_bbox_up_to_tol** — the output grid contains the bounding box of the projected
(buffered, densified) footprint up to `tol` of an output pixel on every side, and has at least one
pixel on each axis; for every mode, anchor, `tight`, sign of the pixel size. -/
theorem out_contains_bbox_up_to_tol (c : Captured) (mode : ResMode) (tight : Bool) (anchor : Anchor) (tol : Rat)
    (rnd : Rounding) (g : Grid) (ht : 0 ≤ tol) (hbx : c.bbox.left ≤ c.bbox.right) (hby : c.bbox.bottom ≤ c.bbox.top)
    (h : computeOutput c mode .none tight anchor tol rnd = .ok (.grid g)) :
    g.xLo ≤ c.bbox.left + tol * rabs g.A.a ∧ c.bbox.right - tol * rabs g.A.a ≤ g.xHi ∧
    g.yLo ≤ c.bbox.bottom + tol * rabs g.A.e ∧ c.bbox.top - tol * rabs g.A.e ≤ g.yHi ∧
    1 ≤ g.nx ∧ 1 ≤ g.ny := by
  obtain ⟨rx, ry, _, hf⟩ := out_res_form c mode tight anchor tol rnd g h
  obtain ⟨offx, nx, offy, ny, hx, hy, hg⟩ := fromBboxRes_ok _ _ _ _ _ _ hf
  subst hg
  obtain ⟨x1, x2, x3, _⟩ := snapGrid_spec _ _ _ _ _ _ _ ht hbx hx
  obtain ⟨y1, y2, y3, _⟩ := snapGrid_spec _ _ _ _ _ _ _ ht hby hy
  simp only [Grid.xLo, Grid.xHi, Grid.yLo, Grid.yHi, Aff.mul_def, Aff.mul, Aff.translation, Aff.scale]
  simp only [one_mul, zero_mul, mul_zero, add_zero, zero_add]
  exact ⟨x1, x2, y1, y2, x3, y3⟩

/-- **out_alignment** — unless `tight` / floating, the lower pixel edges of the output are
`(k + o)·|pixel size|` for integers `k`, where `o` is the requested anchor fraction per axis:
`0` for the default / edge anchor (edges are multiples of the pixel size from the CRS origin),
`½` for centre, the given fractions for an explicit anchor. -/
theorem out_alignment (c : Captured) (mode : ResMode) (anchor : Anchor) (tol : Rat)
    (rnd : Rounding) (g : Grid) (ox oy : Rat) (ht : 0 ≤ tol) (hbx : c.bbox.left ≤ c.bbox.right)
    (hby : c.bbox.bottom ≤ c.bbox.top) (hs : snapOf anchor false = some (ox, oy))
    (h : computeOutput c mode .none false anchor tol rnd = .ok (.grid g)) :
    (∃ k : Int, g.xLo = ((k : Rat) + ox) * rabs g.A.a) ∧ (∃ k : Int, g.yLo = ((k : Rat) + oy) * rabs g.A.e) := by
  obtain ⟨rx, ry, _, hf⟩ := out_res_form c mode false anchor tol rnd g h
  obtain ⟨offx, nx, offy, ny, hx, hy, hg⟩ := fromBboxRes_ok _ _ _ _ _ _ hf
  subst hg
  rw [hs] at hx hy
  obtain ⟨_, _, _, x4⟩ := snapGrid_spec _ _ _ _ _ _ _ ht hbx hx
  obtain ⟨_, _, _, y4⟩ := snapGrid_spec _ _ _ _ _ _ _ ht hby hy
  simp only [Grid.xLo, Grid.yLo, Aff.mul_def, Aff.mul, Aff.translation, Aff.scale]
  simp only [one_mul, zero_mul, mul_zero, add_zero, zero_add]
  exact ⟨x4 ox rfl, y4 oy rfl⟩

theorem snapOf_default : snapOf .dflt false = some (0, 0) := rfl
theorem snapOf_center : snapOf .center false = some (1 / 2, 1 / 2) := rfl

/-- **explicit_anchor_never_source** — the identity fast path is taken **only** for the literal default
anchor: with any explicitly given anchor (edge, centre, floating, fractions — whatever they normalise to)
the source object is never returned, the grid is always recomputed. -/
theorem explicit_anchor_never_source (c : Captured) (mode : ResMode) (shape : ShapeReq) (tight : Bool)
    (anchor : Anchor) (tol : Rat) (rnd : Rounding) (ha : anchor ≠ .dflt) :
    computeOutput c mode shape tight anchor tol rnd ≠ .ok .source := by
  unfold computeOutput
  split
  · rename_i h
    exact absurd h.2.2.2 ha
  · split
    · simp
    · cases fromBbox c.bbox shape _ anchor tight tol <;> simp [Except.map]

/-- **out_alignment_explicit** — an explicitly requested snapping anchor is honoured also in the own-CRS /
auto-resolution / no-shape corner (where the default anchor would return the source unchanged): whenever
the call succeeds the result is a recomputed grid whose lower pixel edges are `(k + o)·|pixel|` for the
requested fractions `o`, even if the source was registered differently. -/
theorem out_alignment_explicit (c : Captured) (mode : ResMode) (anchor : Anchor) (tol : Rat)
    (rnd : Rounding) (o : Out) (ox oy : Rat) (ha : anchor ≠ .dflt) (ht : 0 ≤ tol)
    (hbx : c.bbox.left ≤ c.bbox.right) (hby : c.bbox.bottom ≤ c.bbox.top)
    (hs : snapOf anchor false = some (ox, oy))
    (h : computeOutput c mode .none false anchor tol rnd = .ok o) :
    ∃ g, o = .grid g ∧
      (∃ k : Int, g.xLo = ((k : Rat) + ox) * rabs g.A.a) ∧ (∃ k : Int, g.yLo = ((k : Rat) + oy) * rabs g.A.e) := by
  cases o with
  | source => exact absurd h (explicit_anchor_never_source c mode .none false anchor tol rnd ha)
  | grid g => exact ⟨g, rfl, out_alignment c mode anchor tol rnd g ox oy ht hbx hby hs h⟩

/-- **out_same_units_resolution** — with `resolution="auto"` and equal CRS units the output pixel
size is the source resolution (sign included); same for `resolution="same"` whatever the units. -/
theorem out_same_units_resolution (c : Captured) (mode : ResMode) (tight : Bool) (anchor : Anchor) (tol : Rat)
    (rnd : Rounding) (g : Grid) (hm : (mode = .auto ∧ c.sameUnits = true) ∨ mode = .same)
    (h : computeOutput c mode .none tight anchor tol rnd = .ok (.grid g)) :
    g.A.a = c.srcRes.1 ∧ g.A.e = c.srcRes.2 := by
  obtain ⟨_, _, rx, ry, hres, ha, he⟩ := out_axis_aligned c mode tight anchor tol rnd g h
  rcases hm with ⟨rfl, hu⟩ | rfl
  · simp [chooseRes, hu] at hres
    rw [ha, he, hres]
    exact ⟨rfl, rfl⟩
  · simp [chooseRes] at hres
    rw [ha, he, hres]
    exact ⟨rfl, rfl⟩

/-- **out_explicit_resolution** — an explicit resolution is used as given. -/
theorem out_explicit_resolution (c : Captured) (rx ry : Rat) (tight : Bool) (anchor : Anchor) (tol : Rat)
    (rnd : Rounding) (g : Grid)
    (h : computeOutput c (.explicit rx ry) .none tight anchor tol rnd = .ok (.grid g)) :
    g.A.a = rx ∧ g.A.e = ry := by
  obtain ⟨_, _, rx', ry', hres, ha, he⟩ := out_axis_aligned c _ tight anchor tol rnd g h
  simp [chooseRes] at hres
  rw [ha, he, ← hres.1, ← hres.2]
  exact ⟨rfl, rfl⟩

/-- **out_resolution_positive_square** — `resolution="fit"` (and `"auto"` across different units),
without custom rounding: the output pixels are square, positive in x and inverted in y; the size is
the average of the two centre-pixel estimates. -/
theorem out_resolution_positive_square (c : Captured) (mode : ResMode) (tight : Bool) (anchor : Anchor) (tol : Rat)
    (g : Grid) (hm : mode = .fit ∨ (mode = .auto ∧ c.sameUnits = false))
    (hcp : c.cpRes.1 ≠ 0 ∨ c.cpRes.2 ≠ 0)
    (h : computeOutput c mode .none tight anchor tol .none = .ok (.grid g)) :
    0 < g.A.a ∧ g.A.e = -g.A.a ∧
      g.A.a = (rabs (c.cpRes.1 / c.fitScale.1) + rabs (c.cpRes.2 / c.fitScale.2)) / 2 := by
  obtain ⟨_, _, rx, ry, hres, ha, he⟩ := out_axis_aligned c mode tight anchor tol .none g h
  have hfit : chooseRes.fit c .none = .ok (some (rx, ry)) := by
    rcases hm with rfl | ⟨rfl, hu⟩
    · simpa [chooseRes] using hres
    · simpa [chooseRes, hu] using hres
  unfold chooseRes.fit at hfit
  split at hfit
  · cases hfit
  · rename_i hz
    have hz' : c.fitScale.1 ≠ 0 ∧ c.fitScale.2 ≠ 0 := by
      constructor
      · intro h0; exact hz (Or.inl h0)
      · intro h0; exact hz (Or.inr h0)
    simp only [Except.ok.injEq, Option.some.injEq, Prod.mk.injEq] at hfit
    obtain ⟨h1, h2⟩ := hfit
    rw [ha, he, ← h1, ← h2]
    refine ⟨?_, rfl, rfl⟩
    have n1 := rabs_nonneg (c.cpRes.1 / c.fitScale.1)
    have n2 := rabs_nonneg (c.cpRes.2 / c.fitScale.2)
    rcases hcp with hne | hne
    · have := rabs_pos (div_ne_zero hne hz'.1)
      linarith
    · have := rabs_pos (div_ne_zero hne hz'.2)
      linarith

/-- **out_shape_request** — an explicit `(ny, nx)` request (whatever `resolution=` says) yields exactly
that shape and an axis-aligned grid whose pixels are `span / n` (y inverted), and the grid is displaced
from the projected footprint by **less than one pixel**: its left edge lies in
`(left − px, left + tol·px]` and its top edge in `[top − tol·py, top + py)`; with `tight=True` or a
floating anchor it is not displaced at all (`origin = (left, top)`).  For all bounding boxes with
positive spans, all positive shapes, anchors, and `0 ≤ tol < ½`. -/
theorem out_shape_request (c : Captured) (mode : ResMode) (ny nx : Int) (tight : Bool) (anchor : Anchor)
    (tol : Rat) (rnd : Rounding) (g : Grid) (ht : 0 ≤ tol) (ht2 : tol < 1 / 2)
    (hnx : 0 < nx) (hny : 0 < ny) (hbx : c.bbox.left < c.bbox.right) (hby : c.bbox.bottom < c.bbox.top)
    (h : computeOutput c mode (.exact ny nx) tight anchor tol rnd = .ok (.grid g)) :
    g.ny = ny ∧ g.nx = nx ∧ g.A.b = 0 ∧ g.A.d = 0 ∧
      g.A.a = (c.bbox.right - c.bbox.left) / nx ∧ g.A.e = -(c.bbox.top - c.bbox.bottom) / ny ∧
      (c.bbox.left - g.A.a < g.A.c ∧ g.A.c ≤ c.bbox.left + tol * g.A.a) ∧
      (c.bbox.top - tol * (-g.A.e) ≤ g.A.f ∧ g.A.f < c.bbox.top + (-g.A.e)) ∧
      (snapOf anchor tight = none → g.A.c = c.bbox.left ∧ g.A.f = c.bbox.top) := by
  have hnxq : (0 : Rat) < (nx : Rat) := by exact_mod_cast hnx
  have hnyq : (0 : Rat) < (ny : Rat) := by exact_mod_cast hny
  have hnx1 : (1 : Rat) ≤ (nx : Rat) := by exact_mod_cast hnx
  have hny1 : (1 : Rat) ≤ (ny : Rat) := by exact_mod_cast hny
  have hsx : 0 < c.bbox.right - c.bbox.left := by linarith
  have hsy : 0 < c.bbox.top - c.bbox.bottom := by linarith
  have hrx : 0 < (c.bbox.right - c.bbox.left) / nx := div_pos hsx hnxq
  have hry : -(c.bbox.top - c.bbox.bottom) / ny < 0 := by
    rw [neg_div]
    exact neg_neg_of_pos (div_pos hsy hnyq)
  have hrxle : (c.bbox.right - c.bbox.left) / nx ≤ c.bbox.right - c.bbox.left := div_le_self hsx.le hnx1
  have hryle : (c.bbox.top - c.bbox.bottom) / ny ≤ c.bbox.top - c.bbox.bottom := div_le_self hsy.le hny1
  have hneg : -(-(c.bbox.top - c.bbox.bottom) / ny) = (c.bbox.top - c.bbox.bottom) / ny := by
    rw [neg_div, neg_neg]
  unfold computeOutput at h
  split at h
  · rename_i hh
    simp at hh
  · simp only [chooseRes, ne_eq, reduceCtorEq, not_false_eq_true, if_true] at h
    simp only [fromBbox] at h
    split at h
    · simp [Except.map] at h
    · cases hs : snapOf anchor tight with
      | none =>
        simp only [hs, Except.map, Except.ok.injEq, Out.grid.injEq] at h
        subst h
        simp only [Aff.mul_def, Aff.mul, Aff.translation, Aff.scale]
        simp only [one_mul, zero_mul, mul_zero, add_zero, zero_add, mul_one]
        refine ⟨(by trivial), (by trivial), (by trivial), (by trivial), (by trivial), (by trivial), ⟨by linarith, ?_⟩, ⟨?_, ?_⟩, fun _ => ⟨(by trivial), (by trivial)⟩⟩
        · nlinarith
        · rw [hneg]; nlinarith [div_pos hsy hnyq]
        · rw [hneg]; linarith [div_pos hsy hnyq]
      | some sxy =>
        obtain ⟨sx, sy⟩ := sxy
        simp only [hs] at h
        split at h
        · rename_i offx n1 offy n2 hgx hgy
          simp only [Except.map, Except.ok.injEq, Out.grid.injEq] at h
          subst h
          have dx := (snapGrid_origin_displacement _ _ _ _ _ _ _ ht ht2
            (by rw [rabs_of_pos hrx]; exact hrxle) hgx).1 hrx
          have dy := (snapGrid_origin_displacement _ _ _ _ _ _ _ ht ht2
            (by rw [rabs_of_neg hry, hneg]; exact hryle) hgy).2 hry
          simp only [Aff.mul_def, Aff.mul, Aff.translation, Aff.scale]
          simp only [one_mul, zero_mul, mul_zero, add_zero, zero_add, mul_one]
          exact ⟨(by trivial), (by trivial), (by trivial), (by trivial), (by trivial), (by trivial), dx, dy, fun hn => by cases hn⟩
        · simp [Except.map] at h
        · simp [Except.map] at h

/-- non-vacuity of `out_shape_request`: a 3×5 request with the centre anchor on the bbox `[1/3, 16/3] × [0, 3]` -/
example :
    computeOutput ⟨false, false, (30, -30), ⟨1 / 3, 0, 16 / 3, 3⟩, (1, -1), (1, 1)⟩ .fit (.exact 3 5) false .center
      (1 / 100) .none = .ok (.grid ⟨3, 5, ⟨1, 0, -1 / 2, 0, -1, 7 / 2⟩⟩) := by
  decide +kernel

/-- **int_shape_plus_one_cex** — the full statement "a single-integer shape request yields that
longest side" is false for snapping anchors: the pixel size is derived first (`span / n`) and the
edges are then snapped outwards.  Witness: bbox `[1/2, 17/2] × [0, 4]`, `shape=8`, default anchor
→ 5 × 9.  (Known finding `int-shape-longest-side-plus-one`; exact with `tight=True`.) -/
theorem int_shape_plus_one_cex :
    fromBbox ⟨1 / 2, 0, 17 / 2, 4⟩ (.side 8) none .dflt false (1 / 100)
      = .ok ⟨4, 9, ⟨1, 0, 0, 0, -1, 4⟩⟩ ∧
    fromBbox ⟨1 / 2, 0, 17 / 2, 4⟩ (.side 8) none .dflt true (1 / 100)
      = .ok ⟨4, 8, ⟨1, 0, 1 / 2, 0, -1, 4⟩⟩ := by
  constructor <;> decide +kernel

/-- **out_encloses_every_pixel_partial** — if the bounding box of the buffered, densified footprint
contains the projected position `p` of a source pixel (the hypothesis about projection curvature
that is sampled, not proved), then `p` lies inside the output grid up to `tol` of an output pixel. -/
theorem out_encloses_every_pixel_partial (c : Captured) (mode : ResMode) (tight : Bool) (anchor : Anchor)
    (tol : Rat) (rnd : Rounding) (g : Grid) (p : Rat × Rat) (ht : 0 ≤ tol)
    (hin : c.bbox.left ≤ p.1 ∧ p.1 ≤ c.bbox.right ∧ c.bbox.bottom ≤ p.2 ∧ p.2 ≤ c.bbox.top)
    (h : computeOutput c mode .none tight anchor tol rnd = .ok (.grid g)) :
    g.xLo - tol * rabs g.A.a ≤ p.1 ∧ p.1 ≤ g.xHi + tol * rabs g.A.a ∧
    g.yLo - tol * rabs g.A.e ≤ p.2 ∧ p.2 ≤ g.yHi + tol * rabs g.A.e := by
  obtain ⟨h1, h2, h3, h4⟩ := hin
  obtain ⟨c1, c2, c3, c4, _, _⟩ :=
    out_contains_bbox_up_to_tol c mode tight anchor tol rnd g ht (by linarith) (by linarith) h
  refine ⟨by linarith, by linarith, by linarith, by linarith⟩

theorem lin_range (a x n : Rat) (h0 : 0 ≤ x) (hn : x ≤ n) :
    (0 ≤ a * x ∧ a * x ≤ a * n) ∨ (a * x ≤ 0 ∧ a * n ≤ a * x) := by
  rcases le_total 0 a with ha | ha
  · left
    exact ⟨mul_nonneg ha h0, mul_le_mul_of_nonneg_left hn ha⟩
  · right
    exact ⟨mul_nonpos_of_nonpos_of_nonneg ha h0, mul_le_mul_of_nonpos_left hn ha⟩

/-- an affine image of the pixel rectangle lies inside every box that contains its four corners -/
theorem rect_in_bbox (A : Aff) (nx ny : Nat) (b : BBox) (hc : ∀ p ∈ extentCorners A nx ny, b.contains p)
    (x y : Rat) (hx : 0 ≤ x ∧ x ≤ nx) (hy : 0 ≤ y ∧ y ≤ ny) : b.contains (A.apply (x, y)) := by
  have h00 := hc (A.apply (0, 0)) (by simp [extentCorners])
  have h10 := hc (A.apply ((nx : Rat), 0)) (by simp [extentCorners])
  have h11 := hc (A.apply ((nx : Rat), (ny : Rat))) (by simp [extentCorners])
  have h01 := hc (A.apply (0, (ny : Rat))) (by simp [extentCorners])
  simp only [BBox.contains, Aff.apply] at h00 h10 h11 h01 ⊢
  simp only [mul_zero, add_zero, zero_add] at h00 h10 h11 h01
  have ax := lin_range A.a x nx hx.1 hx.2
  have by_ := lin_range A.b y ny hy.1 hy.2
  have dx := lin_range A.d x nx hx.1 hx.2
  have ey := lin_range A.e y ny hy.1 hy.2
  refine ⟨?_, ?_, ?_, ?_⟩
  · rcases ax with ⟨p1, p2⟩ | ⟨p1, p2⟩ <;> rcases by_ with ⟨q1, q2⟩ | ⟨q1, q2⟩ <;> linarith
  · rcases ax with ⟨p1, p2⟩ | ⟨p1, p2⟩ <;> rcases by_ with ⟨q1, q2⟩ | ⟨q1, q2⟩ <;> linarith
  · rcases dx with ⟨p1, p2⟩ | ⟨p1, p2⟩ <;> rcases ey with ⟨q1, q2⟩ | ⟨q1, q2⟩ <;> linarith
  · rcases dx with ⟨p1, p2⟩ | ⟨p1, p2⟩ <;> rcases ey with ⟨q1, q2⟩ | ⟨q1, q2⟩ <;> linarith

/-- **out_encloses_every_pixel_linear** — the full enclosure claim whenever the change of coordinates
between source and destination is affine (in particular: the destination CRS is the source's own, with a
non-default anchor / resolution / shape-less request, or any rotated / mirrored / sheared source): if the
footprint bounding box the code works from contains the **four corners** of the source extent — a fact
about four points, checked exactly by the harness on the captured box of every same-CRS run — then the
position of *every* point of *every* source pixel (all `0 ≤ x ≤ nx`, `0 ≤ y ≤ ny`, no sampling, no
curvature hypothesis) lies inside the output grid up to `tol` of an output pixel. -/
theorem out_encloses_every_pixel_linear (c : Captured) (mode : ResMode) (tight : Bool) (anchor : Anchor)
    (tol : Rat) (rnd : Rounding) (g : Grid) (A : Aff) (nx ny : Nat) (ht : 0 ≤ tol)
    (hc : ∀ p ∈ extentCorners A nx ny, c.bbox.contains p)
    (h : computeOutput c mode .none tight anchor tol rnd = .ok (.grid g))
    (x y : Rat) (hx : 0 ≤ x ∧ x ≤ nx) (hy : 0 ≤ y ∧ y ≤ ny) :
    g.xLo - tol * rabs g.A.a ≤ (A.apply (x, y)).1 ∧ (A.apply (x, y)).1 ≤ g.xHi + tol * rabs g.A.a ∧
    g.yLo - tol * rabs g.A.e ≤ (A.apply (x, y)).2 ∧ (A.apply (x, y)).2 ≤ g.yHi + tol * rabs g.A.e := by
  have hin := rect_in_bbox A nx ny c.bbox hc x y hx hy
  unfold BBox.contains at hin
  generalize A.apply (x, y) = p at hin ⊢
  exact out_encloses_every_pixel_partial c mode tight anchor tol rnd g p ht hin h

/-- **utm_hemisphere** — for the WGS 84 UTM CRS of zone `z` found for the raster (EPSG `326zz`
north, `327zz` south): `utm` keeps it, `utm-n` resolves to `326zz`, `utm-s` to `327zz` — same zone,
requested hemisphere. -/
theorem utm_hemisphere (z : Int) (south : Bool) (_hz : 1 ≤ z ∧ z ≤ 60) :
    let epsg := (if south then 32700 else 32600) + z
    normUtm .utm epsg south = epsg ∧ normUtm .utmN epsg south = 32600 + z ∧
      normUtm .utmS epsg south = 32700 + z := by
  cases south <;> simp [normUtm] <;> omega

/-- **pick_best_is_max_overlap** — among several candidates the chosen CRS has the maximal key: the
largest overlap with the raster's polygon, or — for rasters too small to have a measurable area (a few
metres across; repaired on fix-C11) — a zone whose valid region contains the raster's location whenever
one of the candidates does; with a single candidate that one is returned; no candidate is an error. -/
theorem pick_best_is_max_overlap (cands : List (Nat × Rat)) (big : Bool) (r : Nat)
    (h : pickBest cands big = .ok r) :
    ∃ v, (r, v) ∈ cands ∧
      (∀ x ∈ cands, x.2 ≤ v) ∧
      (cands.length ≤ 1 → cands.head? = some (r, v)) := by
  cases cands with
  | nil => simp [pickBest] at h
  | cons first rest =>
    simp only [pickBest] at h
    split at h
    · rename_i hc
      cases ha : argmaxFirst (first :: rest) with
      | none =>
        simp [argmaxFirst] at ha
        cases h' : argmaxFirst rest <;> simp [h'] at ha
        split at ha <;> cases ha
      | some cmax =>
        rw [ha] at h
        simp only [Except.ok.injEq] at h
        obtain ⟨hm, hmax⟩ := argmaxFirst_spec _ _ ha
        refine ⟨cmax.2, ?_, hmax, fun hn => ?_⟩
        · rw [← h]
          exact hm
        · exfalso
          cases rest with
          | nil => exact hc rfl
          | cons _ _ => simp at hn
    · rename_i hc
      have hr : rest = [] := by
        by_contra hne
        exact hc hne
      subst hr
      simp only [Except.ok.injEq] at h
      refine ⟨first.2, ?_, ?_, ?_⟩
      · rw [← h]; exact List.mem_cons_self
      · intro x hx
        simp at hx
        rw [hx]
      · intro _
        rw [← h]
        rfl

/-- **pick_best_overlaps** — the 'utm*' zone choice and enclosure: whenever *any* candidate CRS has a
valid area overlapping the raster's footprint (key > 0: a positive overlap fraction, or for a point-like
footprint "contains the location"), the chosen CRS has one too — for every number and order of
candidates.  (With the pyproj query returning exactly the zones that intersect the footprint, the chosen
UTM CRS's valid area therefore always overlaps the raster.) -/
theorem pick_best_overlaps (cands : List (Nat × Rat)) (big : Bool) (r : Nat)
    (h : pickBest cands big = .ok r) (hex : ∃ x ∈ cands, 0 < x.2) :
    ∃ v, (r, v) ∈ cands ∧ 0 < v := by
  obtain ⟨v, hm, hmax, _⟩ := pick_best_is_max_overlap cands big r h
  obtain ⟨x, hx, hpos⟩ := hex
  exact ⟨v, hm, lt_of_lt_of_le hpos (hmax x hx)⟩

/-- non-vacuity: the wrong-side first candidate (key 0) loses against the containing zone -/
example : pickBest [(32643, 0), (32644, 1)] false = .ok 32644 := by decide +kernel

end OdcGeo.C11
