/- C11 — property theorems only. -/
import OdcGeo.Model.C11
namespace OdcGeo.C11

end OdcGeo.C11
