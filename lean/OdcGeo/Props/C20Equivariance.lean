/-
C20 / snap_grid — exact-arithmetic laws of the one-axis snapping model: shifting the interval by whole pixels shifts
the grid by the same pixels and keeps the pixel count (`maybe_int`, `_snap_edge_pos`, `_snap_edge`, `snap_grid`, both the
snapped and the floating branch).
-/
import OdcGeo.Props.C20

namespace OdcGeo.C20

theorem floor_add_int' (q : Rat) (j : Int) : (q + j).floor = q.floor + j := Rat.floor_add_intCast

theorem ceil_add_int' (q : Rat) (j : Int) : (q + j).ceil = q.ceil + j := by
  apply le_antisymm
  · rw [Rat.ceil_le_iff]; push_cast; linarith [Rat.le_ceil (x := q)]
  · have : q.ceil + j - 1 < (q + j).ceil := by
      rw [Rat.lt_ceil_iff]; push_cast; linarith [Rat.ceil_lt (x := q)]
    omega

/-- **`maybe_int` commutes with integer shifts** (`tol ≤ 1/2`): `maybe_int(x + j) = maybe_int(x) + j`. -/
theorem maybe_int_add_int (x tol : Rat) (j : Int) (ht : tol ≤ 1 / 2) :
    maybeInt (x + j) tol = maybeInt x tol + j := by
  cases h : maybeInt? x tol with
  | none =>
    rw [maybeInt_of_none h]
    cases h' : maybeInt? (x + j) tol with
    | none => rw [maybeInt_of_none h']
    | some k' =>
      exfalso
      have h1 := (maybeInt?_some h').2.1
      have h2 := maybeInt?_none h (k' - j)
      push_cast at h2
      have : x + (j : Rat) - k' = x - ((k' : Rat) - j) := by ring
      rw [this] at h1
      linarith
  | some k =>
    rw [maybeInt_of_some h]
    obtain ⟨_, hk1, _⟩ := maybeInt?_some h
    have hex : ∃ n : Int, |x + (j : Rat) - n| < tol := ⟨k + j, by push_cast; rw [show x + (j : Rat) - ((k : Rat) + j) = x - k by ring]; exact hk1⟩
    have hsome := (maybeInt?_isSome_iff (x + j) tol).mpr hex
    obtain ⟨k', hk'⟩ := Option.isSome_iff_exists.mp hsome
    rw [maybeInt_of_some hk']
    obtain ⟨_, hk'1, _⟩ := maybeInt?_some hk'
    -- two integers within `tol ≤ 1/2` of the same number
    have h1 := abs_lt.mp hk1
    have h2 := abs_lt.mp hk'1
    have hlt : ((k' : Rat) - (k + j)) < 1 ∧ (((k : Rat) + j) - k') < 1 := by constructor <;> linarith [h1.1, h1.2, h2.1, h2.2]
    have a1 : (k' - (k + j) : Int) < 1 := by exact_mod_cast hlt.1
    have a2 : ((k + j) - k' : Int) < 1 := by exact_mod_cast hlt.2
    have : k' = k + j := by omega
    rw [this]; push_cast; ring

/-- `_snap_edge_pos` under a shift by `j` whole pixels. -/
theorem snap_edge_pos_shift (x0 x1 res tol : Rat) (j : Int) (ht : tol ≤ 1 / 2) :
    snapEdgePos (x0 + j * res) (x1 + j * res) res tol =
      (snapEdgePos x0 x1 res tol).map fun r => (r.1 + j * res, r.2) := by
  unfold snapEdgePos
  by_cases hr : res > 0
  · have hr' : res ≠ 0 := ne_of_gt hr
    by_cases hx : x1 ≥ x0
    · have hx' : x1 + j * res ≥ x0 + j * res := by linarith
      simp only [hr, hx, hx', not_true_eq_false, if_false, Except.map]
      have e0 : (x0 + j * res) / res = x0 / res + j := by field_simp
      have e1 : (x1 + j * res) / res = x1 / res + j := by field_simp
      rw [e0, e1, maybe_int_add_int _ _ _ ht, maybe_int_add_int _ _ _ ht, floor_add_int', ceil_add_int']
      congr 2
      · push_cast; ring
      · congr 1; ring
    · have hx' : ¬ x1 + j * res ≥ x0 + j * res := by intro h; exact hx (by linarith)
      simp [hr, hx, hx', Except.map]
  · simp [hr, Except.map]

/-- `_snap_edge` (either sign of the resolution) under a shift by `j` pixels of size `|res|`. -/
theorem snap_edge_shift (x0 x1 res tol : Rat) (j : Int) (ht : tol ≤ 1 / 2) :
    snapEdge (x0 + j * |res|) (x1 + j * |res|) res tol =
      (snapEdge x0 x1 res tol).map fun r => (r.1 + j * |res|, r.2) := by
  unfold snapEdge
  by_cases hx : x1 ≥ x0
  · have hx' : x1 + j * |res| ≥ x0 + j * |res| := by linarith
    simp only [hx, hx', not_true_eq_false, if_false]
    by_cases hr : res > 0
    · simp only [hr, if_true, abs_of_pos hr]
      exact snap_edge_pos_shift x0 x1 res tol j ht
    · have hle : res ≤ 0 := not_lt.mp hr
      have habs : |res| = -res := abs_of_nonpos hle
      simp only [hr, if_false, habs]
      rw [snap_edge_pos_shift x0 x1 (-res) tol j ht]
      cases snapEdgePos x0 x1 (-res) tol with
      | error e => rfl
      | ok r => simp only [Except.map, bind, Except.bind, pure, Except.pure]; congr 2; ring
  · have hx' : ¬ x1 + j * |res| ≥ x0 + j * |res| := by intro h; exact hx (by linarith)
    simp [hx, hx', Except.map]

/-- **`snap_grid` is shift-equivariant**: translating the interval by `j` whole pixels translates the grid origin by the
same amount and leaves the pixel count unchanged — snapped (any anchor fraction) and floating, both signs of `res`. -/
theorem snap_grid_shift (x0 x1 res tol : Rat) (off : Option Rat) (j : Int) (ht : tol ≤ 1 / 2) :
    snapGrid (x0 + j * |res|) (x1 + j * |res|) res off tol =
      (snapGrid x0 x1 res off tol).map fun r => (r.1 + j * |res|, r.2) := by
  cases off with
  | some op =>
    unfold snapGrid
    simp only
    by_cases hop : 0 ≤ op ∧ op < 1
    · simp only [hop, not_true_eq_false, if_false, and_self]
      have habs : rabs res = |res| := by
        unfold rabs; split
        · rename_i h; rw [abs_of_neg h]
        · rename_i h; rw [abs_of_nonneg (not_lt.mp h)]
      have e0 : x0 + j * |res| - op * rabs res = (x0 - op * rabs res) + j * |res| := by ring
      have e1 : x1 + j * |res| - op * rabs res = (x1 - op * rabs res) + j * |res| := by ring
      rw [e0, e1, snap_edge_shift _ _ res tol j ht]
      cases snapEdge (x0 - op * rabs res) (x1 - op * rabs res) res tol with
      | error e => rfl
      | ok r => simp only [Except.map, bind, Except.bind, pure, Except.pure]; congr 2; ring
    · simp [hop, Except.map]
  | none =>
    unfold snapGrid
    simp only
    have e : x1 + j * |res| - (x0 + j * |res|) = x1 - x0 := by ring
    rw [e]
    by_cases hr : res > 0
    · simp [hr, Except.map]
    · by_cases h0 : res = 0
      · simp [h0, Except.map]
      · simp [hr, h0, Except.map]

/-! ## non-vacuity -/

example : snapGrid (1 / 4) (21 / 4) 1 (some (1 / 2)) (1 / 100) = .ok (-1 / 2, 6) ∧
    snapGrid (1 / 4 + 7) (21 / 4 + 7) 1 (some (1 / 2)) (1 / 100) = .ok (-1 / 2 + 7, 6) := by decide +kernel
example : maybeInt (5 / 2 + 1 / 1000) (1 / 100) = 5 / 2 + 1 / 1000 ∧ maybeInt (3 + 1 / 1000) (1 / 100) = 3 := by
  decide +kernel

end OdcGeo.C20
