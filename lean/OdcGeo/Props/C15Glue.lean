/-
C15, part 2 — theorems about the GLUE of `odc/geo/cog/_rio.py` (`Model/C15Glue.lean`): the option dictionaries handed to
GDAL, the order of effects of a call (overwrite guard → resampling check → open → write → overviews → copy), what a
window-by-window write leaves in the dataset, and the supplied-overviews path (`write_cog_layers`).

These theorems speak about the CALLS odc-geo makes; what GDAL does with them is the round trip of the harness.
-/
import OdcGeo.Lemmas.C15Glue
import OdcGeo.Lemmas.C05
import OdcGeo.Props.C05
import OdcGeo.Props.C15
import Mathlib.Tactic.Linarith

set_option linter.unusedVariables false
set_option linter.unusedSimpArgs false

namespace OdcGeo.C15
open OdcGeo.C05 (adjustBlocksize YX)

/-! ## option dictionaries -/

/-- the 12 options `_write_cog` computes itself, before `nodata` and the caller's extra options -/
def baseOpts (l : Layout) (dtype : String) (isFloat : Bool) (b : Nat) : Dict :=
  [("width", .int l.w), ("height", .int l.h), ("count", .int l.nbands), ("dtype", .str dtype), ("crs", .ext "crs"),
   ("transform", .ext "transform"), ("tiled", .bool true), ("blockxsize", .int (adjustBlocksize b l.w)),
   ("blockysize", .int (adjustBlocksize b l.h)), ("zlevel", .int 6), ("predictor", .int (if isFloat then 3 else 2)),
   ("compress", .str "DEFLATE")]

theorem rioOpts_eq (l : Layout) (dtype : String) (isFloat : Bool) (b : Nat) (nodata : V) (extra : Dict) :
    rioOpts l dtype isFloat b nodata extra =
      (if nodata = .none then baseOpts l dtype isFloat b else (baseOpts l dtype isFloat b).set "nodata" nodata).update extra := by
  rfl

/-- `default_cog_opts_precedence`: `_default_cog_opts(..., **other)` — a key of `other` replaces the computed default -/
theorem default_cog_opts_precedence (b w h : Nat) (fl : Bool) (other : Dict) (k : String) :
    Dict.get (defaultCogOpts b w h fl other) k =
      match other.lastGet k with
      | some v => some v
      | none => Dict.get [("tiled", .bool true), ("blockxsize", .int (adjustBlocksize b w)), ("blockysize", .int (adjustBlocksize b h)),
                  ("zlevel", .int 6), ("predictor", .int (if fl then 3 else 2)), ("compress", .str "DEFLATE")] k := by
  unfold defaultCogOpts
  rw [Dict.get_update]
  cases other.lastGet k <;> rfl

/-- `rio_opts_precedence`: what GDAL is told for key `k` — the caller's extra option if given, else (for `nodata`) the resolved
nodata when there is one, else odc-geo's own value -/
theorem rio_opts_precedence (l : Layout) (dtype : String) (isFloat : Bool) (b : Nat) (nodata : V) (extra : Dict) (k : String) :
    Dict.get (rioOpts l dtype isFloat b nodata extra) k =
      match extra.lastGet k with
      | some v => some v
      | none => if k = "nodata" then (if nodata = .none then none else some nodata)
                else Dict.get (baseOpts l dtype isFloat b) k := by
  rw [rioOpts_eq, Dict.get_update]
  cases extra.lastGet k with
  | some v => rfl
  | none =>
    simp only
    by_cases hn : nodata = .none
    · simp only [hn, if_true]
      by_cases hk : k = "nodata"
      · subst hk; rfl
      · simp only [hk, if_false]
    · simp only [hn, if_false, Dict.get_set]

/-- the block sizes in the dictionary are those of the decision core (`cogOpts`, multiples of 16 by `blocksize_mult16_le`)
unless the caller overrides them -/
theorem rio_opts_blocks (l : Layout) (dtype : String) (isFloat : Bool) (b : Nat) (nodata : V) (extra : Dict)
    (hx : extra.lastGet "blockxsize" = none) (hy : extra.lastGet "blockysize" = none) :
    Dict.get (rioOpts l dtype isFloat b nodata extra) "blockxsize" = some (.int (cogOpts (some b) l.w l.h isFloat).blockxsize) ∧
    Dict.get (rioOpts l dtype isFloat b nodata extra) "blockysize" = some (.int (cogOpts (some b) l.w l.h isFloat).blockysize) := by
  constructor
  · rw [rio_opts_precedence, hx]; rfl
  · rw [rio_opts_precedence, hy]; rfl

/-- `tmp_opts_spec`: options of the temporary (first pass) image: the intermediate-compression options win; otherwise
`compress` / `predictor` / `zlevel` are gone (also the caller's own) and everything else is as in `rio_opts` -/
theorem tmp_opts_spec (rio : Dict) (ic : IComp) (k : String) :
    Dict.get (tmpOpts rio ic) k =
      match ic.norm.lastGet k with
      | some v => some v
      | none => if k = "compress" ∨ k = "predictor" ∨ k = "zlevel" then none else Dict.get rio k := by
  unfold tmpOpts
  rw [Dict.get_update, Dict.get_without]
  cases ic.norm.lastGet k with
  | some v => rfl
  | none =>
    simp only [List.contains_cons, List.contains_nil, Bool.or_false, Bool.or_eq_true, beq_iff_eq]

/-- by default (`intermediate_compression=False`) the temporary image is written with `compress=None` -/
theorem tmp_opts_default_uncompressed (rio : Dict) : Dict.get (tmpOpts rio (.flag false)) "compress" = some .none := by
  rw [tmp_opts_spec]; rfl

/-- `mem_copy_agrees_with_file_copy`: the copy to memory is given `rio_opts` minus the seven keys that describe the dataset
(`width … nodata`); the temporary image it copies FROM carries exactly those seven with the same values — so the memory
destination ends up described like the file destination — PROVIDED the intermediate-compression dict does not itself
contain one of the seven (`hic`; it is meant to hold compression settings only).  At the excluded point (e.g.
`intermediate_compression={"nodata": 7}`) the two option dictionaries differ, but run on the real code the two destinations
still agree: GDAL's copy takes the dataset description from the temporary image on both routes (pinned by the harness,
key `mem-and-file-destinations-differ`) -/
theorem mem_copy_agrees_with_file_copy (rio : Dict) (ic : IComp) (k : String)
    (hic : k ∈ datasetKeys → ic.norm.lastGet k = none) :
    (match Dict.get (rio.without datasetKeys) k with
     | some v => some v
     | none => if k ∈ datasetKeys then Dict.get (tmpOpts rio ic) k else none) = Dict.get rio k := by
  rw [Dict.get_without]
  by_cases hk : k ∈ datasetKeys
  · have hc : datasetKeys.contains k = true := by simpa using hk
    have hne : ¬(k = "compress" ∨ k = "predictor" ∨ k = "zlevel") := by
      simp only [datasetKeys, List.mem_cons, List.not_mem_nil, or_false] at hk
      rcases hk with h | h | h | h | h | h | h <;> subst h <;> decide
    simp only [hc, if_true, hk, tmp_opts_spec, hic hk, hne, if_false]
  · have hc : datasetKeys.contains k = false := by simpa using hk
    simp only [hc, Bool.false_eq_true, if_false, hk]
    cases Dict.get rio k <;> rfl

example : (∀ k, k ∈ datasetKeys → (IComp.dict [("compress", .str "lzw")]).norm.lastGet k = none) := by
  intro k hk
  simp only [datasetKeys, List.mem_cons, List.not_mem_nil, or_false] at hk
  rcases hk with h | h | h | h | h | h | h <;> subst h <;> decide

/-! ## window-by-window writes (`use_windowed_writes=True`) -/

/-- cell `(y, x)` lies in window `wn` -/
def Win.has (wn : Win) (y x : Nat) : Prop := wn.row ≤ y ∧ y < wn.row + wn.h ∧ wn.col ≤ x ∧ x < wn.col + wn.w

instance (wn : Win) (y x : Nat) : Decidable (wn.has y x) := by unfold Win.has; infer_instance

theorem mem_blockWindows (h w bh bw : Nat) (wn : Win) :
    wn ∈ blockWindows h w bh bw ↔
      ∃ i j, i < (h + bh - 1) / bh ∧ j < (w + bw - 1) / bw ∧
        wn = ⟨i * bh, j * bw, min bh (h - i * bh), min bw (w - j * bw)⟩ := by
  simp only [blockWindows, List.mem_flatMap, List.mem_map, List.mem_range]
  constructor
  · rintro ⟨i, hi, j, hj, rfl⟩; exact ⟨i, j, hi, hj, rfl⟩
  · rintro ⟨i, j, hi, hj, rfl⟩; exact ⟨i, hi, j, hj, rfl⟩

/-- `block_windows_cover`: every cell of the image lies in some block window -/
theorem block_windows_cover (h w bh bw y x : Nat) (hbh : 0 < bh) (hbw : 0 < bw) (hy : y < h) (hx : x < w) :
    ∃ wn ∈ blockWindows h w bh bw, wn.has y x := by
  obtain ⟨y1, y2, y3⟩ := OdcGeo.C05.block_extents_partition h bh y hbh hy
  obtain ⟨x1, x2, x3⟩ := OdcGeo.C05.block_extents_partition w bw x hbw hx
  refine ⟨⟨y / bh * bh, x / bw * bw, min bh (h - y / bh * bh), min bw (w - x / bw * bw)⟩,
    (mem_blockWindows ..).mpr ⟨y / bh, x / bw, y1, x1, rfl⟩, ?_⟩
  simp only [OdcGeo.C05.blockExtent] at y3 x3
  exact ⟨y2, y3, x2, x3⟩

/-- `block_windows_disjoint`: … in exactly one: two windows that share a cell are the same window -/
theorem block_windows_disjoint (h w bh bw y x : Nat) (hbh : 0 < bh) (hbw : 0 < bw) (a b : Win)
    (ha : a ∈ blockWindows h w bh bw) (hb : b ∈ blockWindows h w bh bw) (hay : a.has y x) (hby : b.has y x) : a = b := by
  obtain ⟨i, j, _, _, rfl⟩ := (mem_blockWindows ..).mp ha
  obtain ⟨i', j', _, _, rfl⟩ := (mem_blockWindows ..).mp hb
  obtain ⟨a1, a2, a3, a4⟩ := hay
  obtain ⟨b1, b2, b3, b4⟩ := hby
  simp only at a1 a2 a3 a4 b1 b2 b3 b4
  have key : ∀ (t n r k k' : Nat), 0 < t → k * t ≤ r → r < k * t + min t (n - k * t) → k' * t ≤ r →
      r < k' * t + min t (n - k' * t) → k = k' := by
    intro t n r k k' ht h1 h2 h3 h4
    have e1 : r / t = k := Nat.div_eq_of_lt_le h1 (by rw [Nat.add_mul, Nat.one_mul]; omega)
    have e2 : r / t = k' := Nat.div_eq_of_lt_le h3 (by rw [Nat.add_mul, Nat.one_mul]; omega)
    omega
  have hi := key bh h y i i' hbh a1 a2 b1 b2
  have hj := key bw w x j j' hbw a3 a4 b3 b4
  subst hi; subst hj; rfl

/-- windows stay inside the image and are not empty -/
theorem block_windows_inside (h w bh bw : Nat) (hbh : 0 < bh) (hbw : 0 < bw) (wn : Win) (hm : wn ∈ blockWindows h w bh bw) :
    wn.row + wn.h ≤ h ∧ wn.col + wn.w ≤ w ∧ 0 < wn.h ∧ 0 < wn.w ∧ wn.h ≤ bh ∧ wn.w ≤ bw := by
  obtain ⟨i, j, hi, hj, rfl⟩ := (mem_blockWindows ..).mp hm
  have c1 := (OdcGeo.C05.chunked_covers h bh hbh).2
  have c2 := (OdcGeo.C05.chunked_covers w bw hbw).2
  have hi' : (i + 1) * bh ≤ (h + bh - 1) / bh * bh := Nat.mul_le_mul_right _ hi
  have hj' : (j + 1) * bw ≤ (w + bw - 1) / bw * bw := Nat.mul_le_mul_right _ hj
  rw [Nat.add_mul, Nat.one_mul] at hi' hj'
  simp only
  omega

/-- what the fold of window writes leaves in one cell -/
theorem writtenBy_spec {α : Type} (pix : Nat → Nat → Nat → α) (wins : List Win) (k y x : Nat) :
    writtenBy pix wins k y x = if ∃ wn ∈ wins, wn.has y x then some (pix k y x) else none := by
  unfold writtenBy
  suffices H : ∀ (acc : Option α), wins.foldl (fun acc wn =>
      if wn.row ≤ y ∧ y < wn.row + wn.h ∧ wn.col ≤ x ∧ x < wn.col + wn.w then
        some (pix k (wn.row + (y - wn.row)) (wn.col + (x - wn.col))) else acc) acc =
      if ∃ wn ∈ wins, wn.has y x then some (pix k y x) else acc from H none
  induction wins with
  | nil => intro acc; simp
  | cons wn rest ih =>
    intro acc
    rw [List.foldl_cons, ih]
    by_cases hr : ∃ w' ∈ rest, w'.has y x
    · have : ∃ w' ∈ wn :: rest, w'.has y x := by
        obtain ⟨w', hw, hh⟩ := hr; exact ⟨w', List.mem_cons_of_mem _ hw, hh⟩
      rw [if_pos hr, if_pos this]
    · rw [if_neg hr]
      by_cases hw : wn.row ≤ y ∧ y < wn.row + wn.h ∧ wn.col ≤ x ∧ x < wn.col + wn.w
      · have : ∃ w' ∈ wn :: rest, w'.has y x := ⟨wn, List.mem_cons_self, hw⟩
        rw [if_pos hw, if_pos this]
        have e1 : wn.row + (y - wn.row) = y := by omega
        have e2 : wn.col + (x - wn.col) = x := by omega
        rw [e1, e2]
      · have : ¬ ∃ w' ∈ wn :: rest, w'.has y x := by
          rintro ⟨w', hm, hh⟩
          rcases List.mem_cons.mp hm with rfl | hm
          · exact hw hh
          · exact hr ⟨w', hm, hh⟩
        rw [if_neg hw, if_neg this]

/-- `windowed_write_complete`: after `_write` went through `dst.block_windows()` every cell of every band holds the pixel of
the band-first array at that position — the window-by-window write equals the one-shot write (`dst.write(pix, band)`) -/
theorem windowed_write_complete {α : Type} (pix : Nat → Nat → Nat → α) (h w bh bw k y x : Nat)
    (hbh : 0 < bh) (hbw : 0 < bw) (hy : y < h) (hx : x < w) :
    writtenBy pix (blockWindows h w bh bw) k y x = some (pix k y x) := by
  rw [writtenBy_spec, if_pos (block_windows_cover h w bh bw y x hbh hbw hy hx)]

/-- and nothing outside the image is touched -/
theorem windowed_write_inside {α : Type} (pix : Nat → Nat → Nat → α) (h w bh bw k y x : Nat)
    (hbh : 0 < bh) (hbw : 0 < bw) (ho : h ≤ y ∨ w ≤ x) :
    writtenBy pix (blockWindows h w bh bw) k y x = none := by
  rw [writtenBy_spec, if_neg]
  rintro ⟨wn, hm, h1, h2, h3, h4⟩
  obtain ⟨i1, i2, _⟩ := block_windows_inside h w bh bw hbh hbw wn hm
  omega

example : writtenBy (fun k y x => 100 * k + 10 * y + x) (blockWindows 5 7 2 4) 1 4 6 = some 146 := by decide

/-- the grid GDAL is told in `rio_opts` is the image size and the decision core's block sizes (no overriding extras) -/
theorem ds_grid_of_rio_opts (l : Layout) (dtype : String) (isFloat : Bool) (b : Nat) (nodata : V) (extra : Dict)
    (hk : ∀ k ∈ ["height", "width", "blockysize", "blockxsize"], extra.lastGet k = none) :
    dsGrid (rioOpts l dtype isFloat b nodata extra) = some (l.h, l.w, adjustBlocksize b l.h, adjustBlocksize b l.w) := by
  unfold dsGrid
  rw [rio_opts_precedence, rio_opts_precedence, rio_opts_precedence, rio_opts_precedence,
    hk "height" (by simp), hk "width" (by simp), hk "blockysize" (by simp), hk "blockxsize" (by simp)]
  simp [baseOpts, Dict.get_cons, Dict.get_nil]

/-- `windowed_write_is_normalised_image`: END TO END for `use_windowed_writes=True` — for an array in any accepted layout
(2-D, band-first, band-last) over a GeoBox of shape `g`, with any block size `b ≥ 1` and any extra options that do not
override the grid, the windows of the dataset opened with `rio_opts` leave in cell `[k, y, x]` exactly `src[y, x, k]`
(band-last input) resp. `src[k, y, x]` -/
theorem windowed_write_is_normalised_image {α : Type} (src : Nat → Nat → Nat → α) (shape : List Nat) (g : YX) (l : Layout)
    (hl : normLayout shape g = .ok l) (dtype : String) (isFloat : Bool) (b : Nat) (hb : 0 < b) (nodata : V) (extra : Dict)
    (hk : ∀ k ∈ ["height", "width", "blockysize", "blockxsize"], extra.lastGet k = none)
    (k y x : Nat) (hy : y < l.h) (hx : x < l.w) :
    ∃ H W BH BW, dsGrid (rioOpts l dtype isFloat b nodata extra) = some (H, W, BH, BW) ∧
      writtenBy (normalise l src) (blockWindows H W BH BW) k y x = some (if l.transposed then src y x k else src k y x) := by
  refine ⟨_, _, _, _, ds_grid_of_rio_opts l dtype isFloat b nodata extra hk, ?_⟩
  rw [windowed_write_complete _ _ _ _ _ _ _ _ (OdcGeo.C05.blocksize_pos b l.h hb) (OdcGeo.C05.blocksize_pos b l.w hb) hy hx,
    normalised_pixel]

/-! ## order of effects of `_write_cog` -/

theorem unlink_not_mem_writeEvents (l : Layout) (ndim : Nat) (win : Bool) (opts : Dict) (q : String) :
    Ev.unlink q ∉ writeEvents l ndim win opts := by
  unfold writeEvents
  cases win with
  | false => simp
  | true =>
    simp only [Bool.not_true, Bool.false_eq_true, if_false]
    cases dsGrid opts with
    | none => simp
    | some g => obtain ⟨h, w, bh, bw⟩ := g; simp

/-- `write_cog_guard`: an existing destination without `overwrite` — the call raises `IOError` and has done NOTHING: nothing
unlinked, no dataset opened (whatever the other arguments, once the array / GeoBox pair is acceptable) -/
theorem write_cog_guard (a : WArgs) (l : Layout) (p : String) (hl : layoutOf a.shape a.g = .ok l)
    (hd : a.dst = .path p true) (ho : a.overwrite = false) : writeCog a = ([], .error .osError) := by
  unfold writeCog writeCogFrom
  simp [hl, hd, ho]

/-- a layout error comes first of all: nothing is checked on disk, nothing removed -/
theorem write_cog_layout_error_first (a : WArgs) (e : GErr) (hl : layoutOf a.shape a.g = .error e) :
    writeCog a = ([], .error e) := by
  unfold writeCog writeCogFrom
  simp [hl]

/-- `write_cog_unlink_iff`: the destination is removed exactly when it exists, overwriting was requested and the input was
acceptable — and then before anything else happens (it is the first event) -/
theorem write_cog_unlink_iff (a : WArgs) (q : String) :
    Ev.unlink q ∈ (writeCog a).1 ↔ (∃ l, layoutOf a.shape a.g = .ok l) ∧ a.dst = .path q true ∧ a.overwrite = true := by
  unfold writeCog writeCogFrom
  cases hl : layoutOf a.shape a.g with
  | error e => simp
  | ok l =>
    have hw := unlink_not_mem_writeEvents l a.shape.length a.windowed
    by_cases hlv : (levelsFor a.levels l.w l.h).length = 0 <;>
    by_cases hb : (a.blocksize.getD 512 % 16 != 0) = true <;>
    cases hr : resamplingS2rio (a.resampling.getD "nearest") <;>
    (cases hd : a.dst with
      | mem => simp [hlv, hb, hw, hr]
      | path p ex => cases ex <;> cases ho : a.overwrite <;> simp [hlv, hb, hw, hr, eq_comm])

theorem mem_writeEvents (l : Layout) (ndim : Nat) (win : Bool) (opts : Dict) (ev : Ev) (h : ev ∈ writeEvents l ndim win opts) :
    ∃ sh b w, ev = .write sh b w := by
  unfold writeEvents at h
  cases win with
  | false => simp at h; exact ⟨_, _, _, h⟩
  | true =>
    simp only [Bool.not_true, Bool.false_eq_true, if_false] at h
    cases hg : dsGrid opts with
    | none => simp [hg] at h
    | some g =>
      obtain ⟨hh, w, bh, bw⟩ := g
      simp only [hg, List.mem_map] at h
      obtain ⟨wn, _, rfl⟩ := h
      exact ⟨_, _, _, rfl⟩

/-- `write_cog_error_touches_gdal_never`: when `_write_cog` raises, GDAL has not been called at all — no dataset opened, nothing
written or copied; the only thing that can have happened is the removal of the destination the caller asked to overwrite
(then the error is the `ValueError` of an unknown resampling name).  An `IOError` (the overwrite guard) leaves no event. -/
theorem write_cog_error_touches_gdal_never (a : WArgs) (e : GErr) (he : (writeCog a).2 = .error e) :
    (∀ ev ∈ (writeCog a).1, ∃ p, ev = .unlink p) ∧ (e = .osError → (writeCog a).1 = []) ∧
    ((writeCog a).1 ≠ [] → e = .valueError ∧ resamplingS2rio (a.resampling.getD "nearest") = none) := by
  unfold writeCog writeCogFrom at he ⊢
  cases hl : layoutOf a.shape a.g with
  | error e' => simp [hl] at he ⊢
  | ok l =>
    by_cases hlv : (levelsFor a.levels l.w l.h).length = 0 <;>
    cases hr : resamplingS2rio (a.resampling.getD "nearest") <;>
    (cases hd : a.dst with
      | mem => simp [hl, hlv, hr, hd] at he ⊢
      | path p ex =>
        cases ex <;> cases ho : a.overwrite <;> simp [hl, hlv, hr, hd, ho] at he ⊢ <;> (try (subst he; simp)))

/-- `write_cog_returns`: a successful call returns the destination it was given: the path, or the bytes of a memory file -/
theorem write_cog_returns (a : WArgs) (r : Ret) (h : (writeCog a).2 = .ok r) :
    (a.dst = .mem → ∃ k, r = .bytesOf (.anon k)) ∧ (∀ p ex, a.dst = .path p ex → r = .path p) := by
  unfold writeCog writeCogFrom at h
  cases hl : layoutOf a.shape a.g with
  | error e' => simp [hl] at h
  | ok l =>
    by_cases hlv : (levelsFor a.levels l.w l.h).length = 0 <;>
    cases hr : resamplingS2rio (a.resampling.getD "nearest") <;>
    (cases hd : a.dst with
      | mem => simp [hl, hlv, hr, hd] at h ⊢ <;> exact ⟨_, h.symm⟩
      | path p ex =>
        cases ex <;> cases ho : a.overwrite <;> simp [hl, hlv, hr, hd, ho] at h ⊢ <;> exact h.symm)

/-- `write_cog_overviews_call`: which overview request reaches GDAL.  With an empty level list: none — no `build_overviews`, no
second pass (`rio_copy`), no `GDAL_TIFF_OVR_BLOCKSIZE` environment.  Otherwise exactly one `build_overviews(levels, resampling)`
with the resolved level list and the lower-cased resampling name, inside `Env(GDAL_TIFF_OVR_BLOCKSIZE = ovr_blocksize or
blocksize or 512)` and followed by the copy -/
theorem write_cog_overviews_call (a : WArgs) (l : Layout) (hl : layoutOf a.shape a.g = .ok l) (r : Ret)
    (h : (writeCog a).2 = .ok r) :
    let levels := levelsFor a.levels l.w l.h
    (levels = [] → ∀ ev ∈ (writeCog a).1, (∀ ls rs, ev ≠ .buildOverviews ls rs) ∧ (∀ s d o, ev ≠ .copy s d o) ∧ (∀ o, ev ≠ .envEnter o)) ∧
    (levels ≠ [] → ∃ rs, resamplingS2rio (a.resampling.getD "nearest") = some rs ∧
      Ev.buildOverviews levels rs ∈ (writeCog a).1 ∧
      Ev.envEnter [("GDAL_TIFF_OVR_BLOCKSIZE", .int ((a.ovrBlocksize.getD (a.blocksize.getD 512) : Nat) : Int))] ∈ (writeCog a).1 ∧
      ∃ s d o, Ev.copy s d o ∈ (writeCog a).1) := by
  intro levels
  have hwe := mem_writeEvents l a.shape.length a.windowed
  unfold writeCog writeCogFrom at h ⊢
  constructor
  · intro hlv0
    have hlv : (levelsFor a.levels l.w l.h).length = 0 := by simp [show levelsFor a.levels l.w l.h = [] from hlv0]
    intro ev hev
    by_cases hb : (a.blocksize.getD 512 % 16 != 0) = true <;>
    cases hr : resamplingS2rio (a.resampling.getD "nearest") <;>
    (cases hd : a.dst with
      | mem =>
        simp [hl, hlv, hr, hd, hb] at h hev
        try (rcases hev with rfl | rfl | hev | rfl <;> (try simp) <;> (obtain ⟨_, _, _, rfl⟩ := hwe _ _ hev; simp))
        try (rcases hev with rfl | hev | rfl <;> (try simp) <;> (obtain ⟨_, _, _, rfl⟩ := hwe _ _ hev; simp))
      | path p ex =>
        cases ex <;> cases ho : a.overwrite <;> simp [hl, hlv, hr, hd, ho, hb] at h hev <;>
        (try (rcases hev with rfl | rfl | rfl | hev | rfl <;> (try simp) <;> (obtain ⟨_, _, _, rfl⟩ := hwe _ _ hev; simp))) <;>
        (try (rcases hev with rfl | rfl | hev | rfl <;> (try simp) <;> (obtain ⟨_, _, _, rfl⟩ := hwe _ _ hev; simp))) <;>
        (try (rcases hev with rfl | hev | rfl <;> (try simp) <;> (obtain ⟨_, _, _, rfl⟩ := hwe _ _ hev; simp))))
  · intro hne
    have hlv : ¬ (levelsFor a.levels l.w l.h).length = 0 := by
      intro h0; exact hne (List.eq_nil_of_length_eq_zero h0)
    cases hr : resamplingS2rio (a.resampling.getD "nearest") <;>
    (cases hd : a.dst with
      | mem => simp [hl, hlv, hr, hd] at h ⊢ <;> (try exact ⟨Or.inr rfl, _, _, _, Or.inr ⟨rfl, rfl, rfl⟩⟩)
      | path p ex =>
        cases ex <;> cases ho : a.overwrite <;> simp [hl, hlv, hr, hd, ho] at h ⊢ <;>
          (try exact ⟨Or.inr rfl, _, _, _, Or.inr ⟨rfl, rfl, rfl⟩⟩))

/-- `write_cog_default_overviews`: END TO END for the default pyramid — an array in ANY accepted layout (2-D, band-first,
band-last) whose smaller SPATIAL side is at least 512, written to memory with every option left at its default: GDAL is asked
for `build_overviews([2, 4, 8, 16, 32], nearest)`; with a smaller side it is asked for none -/
theorem write_cog_default_overviews (shape : List Nat) (g : YX) (l : Layout) (hl : normLayout shape g = .ok l)
    (dtype : String) (fl : Bool) :
    let a : WArgs := { shape := shape, g := some g, dtype := dtype, isFloat := fl, dst := .mem }
    (512 ≤ min l.w l.h → Ev.buildOverviews [2, 4, 8, 16, 32] "nearest" ∈ (writeCog a).1) ∧
    (min l.w l.h < 512 → ∀ ev ∈ (writeCog a).1, ∀ ls rs, ev ≠ .buildOverviews ls rs) := by
  intro a
  have hlo : layoutOf a.shape a.g = .ok l := by simp [a, layoutOf, hl]
  have hrs : resamplingS2rio ((none : Option String).getD "nearest") = some "nearest" := by decide
  have hok : ∃ r, (writeCog a).2 = .ok r := by
    unfold writeCog writeCogFrom
    have hrs' : resamplingS2rio "nearest" = some "nearest" := by decide
    by_cases hlv : (levelsFor a.levels l.w l.h).length = 0 <;> simp [hlo, hlv, a, hrs']
  obtain ⟨r, hr⟩ := hok
  have key := write_cog_overviews_call a l hlo r hr
  constructor
  · intro h512
    have hlev : levelsFor a.levels l.w l.h = [2, 4, 8, 16, 32] := (default_levels l.w l.h).2.1 h512
    obtain ⟨rs, h1, h2, _⟩ := key.2 (by rw [hlev]; simp)
    have : rs = "nearest" := by
      have : resamplingS2rio (a.resampling.getD "nearest") = some "nearest" := hrs
      rw [this] at h1; exact (Option.some.inj h1).symm
    rw [hlev, this] at h2
    exact h2
  · intro hsm ev hev ls rs
    have hlev : levelsFor a.levels l.w l.h = [] := (default_levels l.w l.h).1.mpr hsm
    exact (key.1 hlev ev hev).1 ls rs

example : Ev.buildOverviews [2, 4, 8, 16, 32] "nearest" ∈
    (writeCog { shape := [600, 513, 3], g := some ⟨600, 513⟩, dtype := "uint8", isFloat := false, dst := .mem }).1 :=
  (write_cog_default_overviews [600, 513, 3] ⟨600, 513⟩ ⟨3, 600, 513, true⟩ (by decide) "uint8" false).1 (by decide)

/-! ## `write_cog_layers`, `write_cog`, `to_cog` -/

/-- an empty layer list: `None`, and nothing at all is looked at or touched (also an existing destination) -/
theorem layers_empty (a : LArgs) (h : a.layers = []) : writeCogLayers a = ([], .ok .none) := by
  unfold writeCogLayers writeCogLayersWith; simp [h]

/-- `layers_guard`: an existing destination without `overwrite` is refused before any layer is written -/
theorem layers_guard (a : LArgs) (p : String) (hne : a.layers ≠ []) (hd : a.dst = .path p true) (ho : a.overwrite = false) :
    writeCogLayers a = ([], .error .osError) := by
  unfold writeCogLayers writeCogLayersWith
  cases hl : a.layers with
  | nil => exact absurd hl hne
  | cons f rest => simp [hd, ho]

/-- `layers_nodata_flow`: on the supplied-overviews path the `nodata` of the final copy is the caller's `nodata=` option if
present in the extra options (whatever its value — also an explicit `None`, see `explicit_none_overrides_attrs_cex`), else the
FIRST layer's `attrs['nodata']`; and every first-pass `_write_cog` is handed that same value (the intermediate-compression
options cannot change it unless they themselves carry a `nodata` key) -/
theorem layers_nodata_flow (b w h : Nat) (fl : Bool) (attrs : V) (extra : Dict) (win : Bool) (ic : IComp) (ly : Layer) (name : String)
    (hic : ic.norm.lastGet "nodata" = none) :
    let rio := (defaultCogOpts b w h fl [("nodata", attrs)]).update extra
    Dict.get rio "nodata" = (match extra.lastGet "nodata" with | some v => some v | none => some attrs) ∧
    (layerArgs (firstPassCfg b rio win ic) ly name).nodata = rio.getNone "nodata" := by
  intro rio
  constructor
  · show Dict.get ((defaultCogOpts b w h fl [("nodata", attrs)]).update extra) "nodata" = _
    rw [Dict.get_update, default_cog_opts_precedence]
    cases extra.lastGet "nodata" <;> rfl
  · show (firstPassCfg b rio win ic).getNone "nodata" = _
    unfold firstPassCfg Dict.getNone
    rw [Dict.get_update, hic]
    rfl

/-- nodata options of the dataset the direct path (`write_cog` / `to_cog` without supplied overviews) creates: the resolved
value — keyword if not `None`, else attribute — and nothing else: the keyword was popped from the extra options -/
theorem entry_nodata_direct (l : Layout) (dtype : String) (fl : Bool) (b : Nat) (attrs : V) (extra : Dict) :
    let kw := extra.getNone "nodata"
    let nd := if kw = .none then attrs else kw
    Dict.get (rioOpts l dtype fl b nd (extra.without ["nodata"])) "nodata" = if nd = .none then none else some nd := by
  intro kw nd
  rw [rio_opts_precedence]
  have : (extra.without ["nodata"]).lastGet "nodata" = none := by
    apply Dict.lastGet_of_get_none
    rw [Dict.get_without]; rfl
  rw [this]; rfl

/-- options of the dataset a finished trace leaves at the destination: those of the last `rio_copy`, else of the first
dataset opened -/
def finalOpts (evs : List Ev) : Option Dict :=
  match evs.reverse.find? (fun e => match e with | .copy _ _ _ => true | _ => false) with
  | some (.copy _ _ o) => some o
  | _ => match evs.find? (fun e => match e with | .openW _ _ => true | _ => false) with
    | some (.openW _ o) => some o
    | _ => none

/-- `explicit_none_overrides_attrs_asfound_cex` (the code AS FOUND, before fix 4344a79 / finding F65): for an array with
`attrs['nodata'] = 255`, `to_cog(xx, nodata=None)` created the file with `nodata=255`, but `to_cog(xx, overviews=[ov],
nodata=None)` created it with `nodata=None` — the explicit `None` meant "not given" on one path and "no nodata" on the other -/
theorem explicit_none_overrides_attrs_asfound_cex :
    let im : Layer := { shape := [4, 4], g := some ⟨4, 4⟩, dtype := "uint8", isFloat := false, attrsNodata := .int 255 }
    let ov : Layer := { shape := [2, 2], g := some ⟨2, 2⟩, dtype := "uint8", isFloat := false, attrsNodata := .int 255 }
    ((finalOpts (toCogAsFound { im := im, dst := .mem, levels := some [], extra := [("nodata", .none)] }).1).map (Dict.get · "nodata")
      = some (some (.int 255))) ∧
    ((finalOpts (toCogAsFound { im := im, dst := .mem, overviews := some [ov], extra := [("nodata", .none)] }).1).map (Dict.get · "nodata")
      = some (some .none)) := by
  decide

/-- the same calls on the repaired code: the attribute's value on both paths -/
theorem explicit_none_keeps_attrs_witness :
    let im : Layer := { shape := [4, 4], g := some ⟨4, 4⟩, dtype := "uint8", isFloat := false, attrsNodata := .int 255 }
    let ov : Layer := { shape := [2, 2], g := some ⟨2, 2⟩, dtype := "uint8", isFloat := false, attrsNodata := .int 255 }
    ((finalOpts (toCog { im := im, dst := .mem, levels := some [], extra := [("nodata", .none)] }).1).map (Dict.get · "nodata")
      = some (some (.int 255))) ∧
    ((finalOpts (toCog { im := im, dst := .mem, overviews := some [ov], extra := [("nodata", .none)] }).1).map (Dict.get · "nodata")
      = some (some (.int 255))) ∧
    ((finalOpts (toCog { im := im, dst := .mem, overviews := some [ov], extra := [("nodata", .int 7)] }).1).map (Dict.get · "nodata")
      = some (some (.int 7))) := by
  decide

/-- `layers_nodata_resolution` (repaired code, all inputs): on the supplied-overviews path the `nodata` option of the final
copy is the caller's keyword when it is given and not `None`, else the first layer's `attrs['nodata']` (the `nodata` key is
always present there: `_default_cog_opts(nodata=attrs.get("nodata"))`) — the same rule as the direct path
(`entry_nodata_direct`); unique keyword names assumed as Python guarantees (`hu`: the last `nodata` entry is the first) -/
theorem layers_nodata_resolution (b w h : Nat) (fl : Bool) (attrs : V) (extra : Dict)
    (hu : extra.lastGet "nodata" = Dict.get extra "nodata") :
    Dict.get ((defaultCogOpts b w h fl [("nodata", attrs)]).update (layersExtra true extra)) "nodata" =
      some (if extra.getNone "nodata" = .none then attrs else extra.getNone "nodata") := by
  rw [(layers_nodata_flow b w h fl attrs (layersExtra true extra) false (.flag false) ⟨[], none, "", false, .none⟩ "" rfl).1]
  unfold layersExtra
  by_cases hn : extra.getNone "nodata" = .none
  · have : (extra.without ["nodata"]).lastGet "nodata" = none := by
      apply Dict.lastGet_of_get_none
      rw [Dict.get_without]; rfl
    simp only [hn, Bool.true_and, decide_true, if_true, this]
  · simp only [hn, Bool.true_and, decide_false, Bool.false_eq_true, if_false, hu]
    unfold Dict.getNone at hn ⊢
    cases hg : Dict.get extra "nodata" with
    | none => simp [hg] at hn
    | some v => simp

/-- with supplied overviews `overview_levels` / `overview_resampling` are not forwarded: they have no effect at all -/
theorem entry_overviews_ignore_levels (a : CArgs) (ovs : List Layer) (h : a.overviews = some ovs)
    (rs : Option String) (lv : Option (List Nat)) :
    writeCogEntry { a with resampling := rs, levels := lv } = writeCogEntry a := by
  unfold writeCogEntry writeCogEntryWith; simp [h]

/-- `to_cog` never removes anything from the file system -/
theorem to_cog_direct_never_unlinks (a : CArgs) (h : a.overviews = none) (q : String) : Ev.unlink q ∉ (toCog a).1 := by
  unfold toCog writeCogEntry writeCogEntryWith
  simp only [h]
  cases hg : a.im.g with
  | none => simp
  | some g =>
    simp only
    intro hm
    have := (write_cog_unlink_iff _ q).mp hm
    simp at this

/-- `ovr_chain`: the memory files of the layers form GDAL's side-car chain — the file of layer `i + 1` is the file of layer `i`
with `.ovr` appended (that is how the final `rio_copy(..., copy_src_overviews=True)` finds layer `i + 1` as the overview of
layer `i`) -/
theorem ovr_chain (tt : String) (n i : Nat) (hi : i + 1 < n) :
    (memfilesOvr tt n)[i + 1]? = ((memfilesOvr tt n)[i]?).map (· ++ ".ovr") := by
  have hj : ∀ k, String.join (List.replicate (k + 1) ".ovr") = String.join (List.replicate k ".ovr") ++ ".ovr" := by
    intro k
    rw [List.replicate_succ', String.join, String.join, List.foldl_append]
    rfl
  unfold memfilesOvr
  simp only [List.getElem?_map, List.getElem?_range hi, List.getElem?_range (Nat.lt_of_succ_lt hi), Option.map_some]
  simp only [vsimemName, hj, String.append_assoc]

/-! ## GCP geoboxes as writer input -/

/-- `gcp_geobox_never_reaches_gdal`: an array registered by ground control points cannot be written by `write_cog` / `to_cog`:
the call always ends in an error, GDAL is never called (no dataset, no gcps handed over) — the only things that can have
happened are the block-size warning and the removal of the destination the caller asked to overwrite -/
theorem gcp_geobox_never_reaches_gdal (a : WArgs) :
    (∃ e, (writeCogGcp a).2 = .error e) ∧ ∀ ev ∈ (writeCogGcp a).1, ev = .warnBlock ∨ ∃ p, ev = .unlink p := by
  unfold writeCogGcp
  cases hl : layoutOf a.shape a.g with
  | error e => simp
  | ok l =>
    by_cases hb : (a.blocksize.getD 512 % 16 != 0) = true <;>
    cases hr : resamplingS2rio (a.resampling.getD "nearest") <;>
    (cases hd : a.dst with
      | mem => simp [hb, hr, hd]
      | path p ex => cases ex <;> cases ho : a.overwrite <;> simp [hb, hr, hd, ho])

/-- `gcp_overwrite_removes_destination_cex` (code as it is): with an existing destination and `overwrite=True` the file is removed
BEFORE the missing `transform` is noticed — the call fails and the old file is gone, nothing written in its place -/
theorem gcp_overwrite_removes_destination_cex :
    writeCogGcp { shape := [4, 5], g := some ⟨4, 5⟩, dtype := "uint8", isFloat := false, dst := .path "out.tif" true, overwrite := true } =
      ([.unlink "out.tif"], .error .attributeError) := by decide

/-- up to the missing attribute a GCP geobox is treated like any other: same layout errors, same overwrite guard, same
resampling check as `_write_cog` on a linear GeoBox -/
theorem gcp_same_checks_first (a : WArgs) (e : GErr) (h : (writeCog a).2 = .error e) : (writeCogGcp a).2 = .error e := by
  unfold writeCog writeCogFrom at h
  unfold writeCogGcp
  cases hl : layoutOf a.shape a.g with
  | error e' => simp [hl] at h ⊢; exact h
  | ok l =>
    by_cases hlv : (levelsFor a.levels l.w l.h).length = 0 <;>
    cases hr : resamplingS2rio (a.resampling.getD "nearest") <;>
    (cases hd : a.dst with
      | mem => simp [hl, hlv, hr, hd] at h ⊢ <;> (try exact h)
      | path p ex => cases ex <;> cases ho : a.overwrite <;> simp [hl, hlv, hr, hd, ho] at h ⊢ <;> (try exact h))

/-! ## named parameters inside `intermediate_compression` -/

/-- without such keys the full binding is `layerArgs` -/
theorem layer_args_full_eq (cfg : Dict) (ly : Layer) (name : String)
    (h : ∀ k ∈ namedFirstPassKeys, Dict.get cfg k = none) : layerArgsFull cfg ly name = layerArgs cfg ly name := by
  have h1 := h "overwrite" (by simp [namedFirstPassKeys])
  have h2 := h "ovr_blocksize" (by simp [namedFirstPassKeys])
  have h3 := h "overview_resampling" (by simp [namedFirstPassKeys])
  have hw : (layerArgs cfg ly name).extra.without namedFirstPassKeys = (layerArgs cfg ly name).extra := by
    unfold Dict.without
    rw [List.filter_eq_self]
    intro p hp
    simp only [layerArgs, Dict.without, List.mem_filter] at hp
    by_contra hc
    have hk : p.1 ∈ namedFirstPassKeys := by simpa using hc
    have hget := h p.1 hk
    unfold Dict.get at hget
    rw [Option.map_eq_none_iff, List.find?_eq_none] at hget
    exact hget p hp.1 (by simp)
  unfold layerArgsFull
  simp only [Dict.getNone, h1, h2, h3, Option.getD_none, hw]
  rfl

/-- `first_pass_overwrite_is_inert`: an `overwrite` smuggled into the first pass through `intermediate_compression` cannot remove
anything: the first-pass images live under fresh `/vsimem/` names, which do not exist -/
theorem first_pass_overwrite_is_inert (cfg : Dict) (ly : Layer) (name q : String) :
    Ev.unlink q ∉ (writeCogFrom 0 (layerArgsFull cfg ly name)).1 := by
  intro hm
  have := (write_cog_unlink_iff (layerArgsFull cfg ly name) q).mp hm
  simp [layerArgsFull, layerArgs] at this

example : (layerArgsFull [("overwrite", .bool true), ("compress", .str "lzw")] ⟨[2, 2], some ⟨2, 2⟩, "uint8", false, .none⟩ "n").overwrite = true ∧
    (layerArgsFull [("overwrite", .bool true), ("compress", .str "lzw")] ⟨[2, 2], some ⟨2, 2⟩, "uint8", false, .none⟩ "n").extra =
      [("compress", .str "lzw")] := by decide

end OdcGeo.C15
