/-
C08 ∘ C07 — `GeoBox.from_geopolygon(geom, …, crs=…)` from its arguments to its result through C07's model of
`Geometry.to_crs` (no projection *parameter of C08* left: the projection is C07's `proj s t`, the re-projection step is
C07's `toCrs` with its CRS comparison, its "geometry without CRS" error and its default `resolution=None`).
-/
import OdcGeo.Model.C08C07
import OdcGeo.Props.C07
import OdcGeo.Props.C08

namespace OdcGeo.C08

theorem toPt_ofPt (p : C07.Pt Rat) : toPt (ofPt p) = p := by cases p; rfl

variable (E : C07.Env Rat) (proj : C01.CrsRec → C01.CrsRec → C07.Pt Rat → C07.Pt Rat) (autoRes : C07.Geom Rat → Rat)

/-- **`crs=None` / `Unset()`**: nothing is re-projected — the same-CRS construction `fromGeopolygon` on the vertices of
the geometry (all of them: exterior, holes, parts), tagged with the geometry's CRS. -/
theorem from_geopolygon_via_c07_unset (g : C07.Tagged Rat) (v : Rat × Rat) (vs : List (Rat × Rat))
    (hv : (C07.vertices g.geom).map ofPt = v :: vs) (res : ResArg) (align : Option (Rat × Rat)) (shape : ShapeArg)
    (tight : Bool) (anchor : AnchorArg) (tol : Rat) :
    fromGeopolygonVia E proj autoRes g .unset res align shape tight anchor tol =
      some ((fromGeopolygon v vs res align shape tight anchor tol).map fun gb => (gb, g.crs)) := by
  unfold fromGeopolygonVia fromGeopolygon
  cases alignToAnchor align res anchor with
  | error e => rfl
  | ok ra => simp only [hv, bind, Except.bind]

/-- **`crs=t` differing from the geometry's CRS `s`**: C07's `to_crs` maps every vertex through `proj s t` (no
densification), and the result is C08's cross-CRS construction `fromGeopolygonCrs` with exactly that projection,
tagged `t`. -/
theorem from_geopolygon_via_c07_projects (g : C07.Tagged Rat) (s t : C01.CrsRec) (hs : g.crs = some s)
    (hne : C01.tagEq (some s) (some t) = false) (v : Rat × Rat) (vs : List (Rat × Rat))
    (hv : (C07.vertices g.geom).map ofPt = v :: vs) (res : ResArg) (align : Option (Rat × Rat)) (shape : ShapeArg)
    (tight : Bool) (anchor : AnchorArg) (tol : Rat) :
    fromGeopolygonVia E proj autoRes g (.given (some t)) res align shape tight anchor tol =
      some ((fromGeopolygonCrs (fun q => ofPt (proj s t (toPt q))) v vs res align shape tight anchor tol).map
        fun gb => (gb, some t)) := by
  unfold fromGeopolygonVia fromGeopolygonCrs fromGeopolygon
  cases alignToAnchor align res anchor with
  | error e => rfl
  | ok ra =>
    have hto : C07.toCrs E proj autoRes g (some t) .none = .ok ⟨some t, C07.mapPts (proj s t) g.geom⟩ := by
      unfold C07.toCrs
      simp only [hs, hne, Bool.false_eq_true, if_false]
    have hvs : (C07.vertices (C07.mapPts (proj s t) g.geom)).map ofPt =
        (fun q => ofPt (proj s t (toPt q))) v :: vs.map (fun q => ofPt (proj s t (toPt q))) := by
      rw [C07.vertices_mapPts, List.map_map]
      have : (C07.vertices g.geom).map (ofPt ∘ proj s t) =
          ((C07.vertices g.geom).map ofPt).map (fun q => ofPt (proj s t (toPt q))) := by
        rw [List.map_map]
        apply List.map_congr_left
        intro p _
        simp [Function.comp, toPt_ofPt]
      rw [this, hv]; rfl
    simp only [hto, hvs, bind, Except.bind]

/-- **Same CRS given explicitly** (`crs == geom.crs` under `CRS.__eq__`): `to_crs` returns the geometry itself. -/
theorem from_geopolygon_via_c07_same_crs (g : C07.Tagged Rat) (t : C01.CrsRec)
    (heq : C01.tagEq g.crs (some t) = true) (crs res align shape tight anchor tol) (hc : crs = CrsArgTag.given (some t)) :
    fromGeopolygonVia E proj autoRes g crs res align shape tight anchor tol =
      fromGeopolygonVia E proj autoRes g .unset res align shape tight anchor tol := by
  subst hc
  unfold fromGeopolygonVia
  have : C07.toCrs E proj autoRes g (some t) .none = .ok g := by
    unfold C07.toCrs; simp [heq]
  simp only [this]

/-- A geometry **without CRS** cannot be given a `crs=`: `ValueError` (C07's "Cannot project geometries without CRS"),
once the old-style `align` handling got through. -/
theorem from_geopolygon_via_c07_no_crs (g : C07.Tagged Rat) (t : C01.CrsRec) (hs : g.crs = none)
    (res : ResArg) (align : Option (Rat × Rat)) (shape : ShapeArg) (tight : Bool) (anchor : AnchorArg) (tol : Rat)
    {ra : ResArg × AnchorArg} (hal : alignToAnchor align res anchor = .ok ra) :
    fromGeopolygonVia E proj autoRes g (.given (some t)) res align shape tight anchor tol = some (.error .valueError) := by
  unfold fromGeopolygonVia
  have : C07.toCrs E proj autoRes g (some t) .none = .error .valueError := by
    unfold C07.toCrs; simp [hs, C01.tagEq]
  simp only [hal, this]

/-- **End to end: every vertex of the geometry, re-projected by C07's `to_crs`, lies inside the geobox up to `tol` of a
pixel** — exterior, holes and parts alike, for any geometry kind. -/
theorem from_geopolygon_via_c07_covers (g : C07.Tagged Rat) (s t : C01.CrsRec) (hs : g.crs = some s)
    (hne : C01.tagEq (some s) (some t) = false) (v : Rat × Rat) (vs : List (Rat × Rat))
    (hv : (C07.vertices g.geom).map ofPt = v :: vs) {res : ResArg} {shape : ShapeArg} {tight : Bool}
    {anchor : AnchorArg} {tol rx ry : Rat} {gb : GeoBox} {tag : C01.Tag} (hsh : ∀ n, shape ≠ .int n)
    (hres : res.xy? = some (rx, ry))
    (val : ValidRes (bboxOfPts (ofPt (proj s t (toPt v))) (vs.map fun q => ofPt (proj s t (toPt q)))) rx ry tol
      (snapOf tight (normAnchor anchor)))
    (h : fromGeopolygonVia E proj autoRes g (.given (some t)) res none shape tight anchor tol = some (.ok (gb, tag))) :
    tag = some t ∧ ∀ p ∈ C07.vertices g.geom,
      gb.xmin - tol * |rx| ≤ (proj s t p).x ∧ (proj s t p).x ≤ gb.xmax + tol * |rx| ∧
      gb.ymin - tol * |ry| ≤ (proj s t p).y ∧ (proj s t p).y ≤ gb.ymax + tol * |ry| := by
  rw [from_geopolygon_via_c07_projects E proj autoRes g s t hs hne v vs hv] at h
  have h' := Option.some.inj h
  cases hc : fromGeopolygonCrs (fun q => ofPt (proj s t (toPt q))) v vs res none shape tight anchor tol with
  | error e => rw [hc] at h'; cases h'
  | ok gb' =>
    rw [hc] at h'
    simp only [Except.map] at h'
    have hinj := Except.ok.inj h'
    have hgb : gb' = gb := (Prod.mk.inj hinj).1
    have htag : some t = tag := (Prod.mk.inj hinj).2
    subst hgb
    refine ⟨htag.symm, ?_⟩
    have hcov := from_geopolygon_crs_covers_vertices (fun q => ofPt (proj s t (toPt q))) v vs hsh hres val hc
    intro p hp
    have hmem : ofPt p ∈ v :: vs := by rw [← hv]; exact List.mem_map.mpr ⟨p, hp, rfl⟩
    have := hcov (ofPt p) hmem
    simp only [toPt_ofPt] at this
    simpa [ofPt] using this

/-! ## non-vacuity -/

example : fromGeopolygonVia (E := ⟨fun _ _ => 0, fun _ _ _ => 0⟩) (fun _ _ p => ⟨p.x + p.y, p.y⟩) (fun _ => 0)
    ⟨some ⟨1, 4326, 1, 1⟩, .polygon [⟨0, 0⟩, ⟨4, 0⟩, ⟨0, 4⟩, ⟨0, 0⟩] []⟩ (.given (some ⟨2, 3857, 2, 1⟩)) (.scalar 1) none .none
    false (.name .default) (1 / 100) =
    some (.ok (⟨4, 4, ⟨1, 0, 0, 0, -1, 4⟩⟩, some ⟨2, 3857, 2, 1⟩)) := by decide +kernel

end OdcGeo.C08
