/-
C13, cross-CRS half — property theorems with the coordinate transformation as a parameter.

`proj` is ANY function (no continuity, injectivity or accuracy assumed): the theorems hold for the
exact PROJ transformation, for a wrong one, for a discontinuous one.  What is NOT covered is GDAL's
approximate transformer (the chunk and the whole array would have to use the *same* `proj`; with
linear interpolation per scan line they do so only up to 0.125 px — the harness compares
unambiguous pixels only, see `cross_one`).

The only hypothesis about dependencies is `deps_complete_P`, named; `deps_complete_P_of_general`
reduces it, through C12's model of the general path of `grid_intersect`, to
`FootprintsSuperset` — the statement that shapely/pyproj footprints over-approximate true overlap.
-/
import OdcGeo.Model.C13P
import OdcGeo.Lemmas.C13P
import OdcGeo.Props.C13C12

namespace OdcGeo.C13
open OdcGeo

/-! ## consistency with the same-CRS model -/

theorem samplePixM_apply (A : Aff) (h w : Int) (d : Int × Int) :
    samplePixM A.apply h w d = samplePix A h w d := rfl

/-- with no coordinate transformation the parametric pixel map is `~S * D` -/
theorem pixMapP_id (S D : Aff) : pixMapP id S D = (S.inv * D).apply := by
  funext q
  simp [pixMapP, Aff.apply_mul]

/-- the parametric in-memory path with `proj = id` is the same-CRS in-memory path -/
theorem wholeResultP_id (c : Cfg) (G : Gdal) (src buf : Img) :
    wholeResultP c id G src buf = wholeResult c G src buf := by
  funext d
  simp only [wholeResultP, wholeResult, rioReprojectP, rioReproject, rioReprojectPlaneP, rioReprojectPlane,
    pixMapP_id]
  rfl

/-! ## chunked = whole -/

/-- **Chunked equals whole, cross-CRS** (nearest neighbour, exact transformer `proj` as a parameter): for every source chunking, every
destination chunking, every *complete* dependency map (C12), every nodata pair that
`xr_reproject` can hand down, every dtype kind, every content of the uninitialised in-memory
buffer: each pixel of the computed dask array equals the pixel of the in-memory result. -/
theorem chunked_eq_whole_cross (c : Cfg) (proj : Proj) (G : Gdal) (src buf : Img)
    (hV : c.variant = Variant.repaired)
    (hbuf : WF buf c.dstH c.dstW)
    (hsy : Chain 0 c.sy c.srcH) (hsx : Chain 0 c.sx c.srcW)
    (hdy : Chain 0 c.dy c.dstH) (hdx : Chain 0 c.dx c.dstW)
    (hS : c.S.det ≠ 0)
    (hvalid : DepsValid c) (hcomplete : deps_complete_P c proj)
    (hnd : c.dstNd = none → c.srcNd = none)
    (hnd1 : NodataOk c.kind c.dstNd) (hnd2 : NodataOk c.kind c.srcNd)
    (d : Int × Int) (hd : 0 ≤ d.1 ∧ d.1 < c.dstH ∧ 0 ≤ d.2 ∧ d.2 < c.dstW) :
    daskResultP c proj G src d = wholeResultP c proj G src buf d := by
  have hw : wholeResultP c proj G src buf d = outPix c.variant G c.kind c.srcNd
      (rioNodataDefault c.kind c.dstNd) src (samplePixM (pixMapP proj c.S c.D) c.srcH c.srcW d) := by
    unfold wholeResultP rioReprojectP
    exact rioPlaneP_eq _ _ _ _ _ _ _ _ _ _ _ _ _ ((hbuf d).2 hd)
  obtain ⟨iy, ix, hiy, hix, hempty, htask⟩ := daskP_pixel c proj G src hsy hsx hdy hdx hS hvalid d hd
  have hdn := chunkDstNodata_eq_rio c.kind c.srcNd c.dstNd hnd
  by_cases he : lookupDeps c.deps (iy, ix) = []
  · -- constant block: completeness says the pixel samples nothing
    rw [hempty he, hw]
    cases hs : samplePixM (pixMapP proj c.S c.D) c.srcH c.srcW d with
    | some s =>
      obtain ⟨i, hi, _⟩ := hcomplete iy ix d hiy hix s hs
      rw [he] at hi
      simp at hi
    | none =>
      have := chunk_fill_eq c.kind c.srcNd c.dstNd hnd1 hnd2
      rw [hdn] at this
      simp only [outPix, Option.map_some, hV, this]
  · rw [hw, htask he, hV, hdn]
    cases hs : samplePixM (pixMapP proj c.S c.D) c.srcH c.srcW d with
    | none => trivial
    | some s => exact hcomplete iy ix d hiy hix s hs


/-! ## fill -/

/-- **Uniform fill, cross-CRS**: a destination pixel that no source pixel reaches holds
`resolve_fill_value(dst_nodata, src_nodata, dtype)` — in chunks computed by a task and in
constant chunks alike, for EVERY dependency map (complete or not), every nodata setting
(destination / source / none), every dtype kind. -/
theorem fill_uniform_cross (c : Cfg) (proj : Proj) (G : Gdal) (src : Img)
    (hV : c.variant = Variant.repaired)
    (hsy : Chain 0 c.sy c.srcH) (hsx : Chain 0 c.sx c.srcW)
    (hdy : Chain 0 c.dy c.dstH) (hdx : Chain 0 c.dx c.dstW)
    (hS : c.S.det ≠ 0) (hvalid : DepsValid c)
    (hnd1 : NodataOk c.kind c.dstNd) (hnd2 : NodataOk c.kind c.srcNd)
    (d : Int × Int) (hd : 0 ≤ d.1 ∧ d.1 < c.dstH ∧ 0 ≤ d.2 ∧ d.2 < c.dstW)
    (hun : samplePixM (pixMapP proj c.S c.D) c.srcH c.srcW d = none) :
    daskResultP c proj G src d = some (resolveFill c.dstNd c.srcNd c.kind) := by
  obtain ⟨iy, ix, _, _, hempty, htask⟩ := daskP_pixel c proj G src hsy hsx hdy hdx hS hvalid d hd
  by_cases he : lookupDeps c.deps (iy, ix) = []
  · exact hempty he
  · rw [htask he (by rw [hun]; trivial), hun, hV]
    simp only [outPix, Option.map_some, chunk_fill_eq c.kind c.srcNd c.dstNd hnd1 hnd2]


/-- disjoint rasters in different CRSs: all fill, not an error -/
theorem disjoint_all_fill_cross (c : Cfg) (proj : Proj) (G : Gdal) (src : Img)
    (hV : c.variant = Variant.repaired)
    (hsy : Chain 0 c.sy c.srcH) (hsx : Chain 0 c.sx c.srcW)
    (hdy : Chain 0 c.dy c.dstH) (hdx : Chain 0 c.dx c.dstW)
    (hS : c.S.det ≠ 0) (hvalid : DepsValid c)
    (hnd1 : NodataOk c.kind c.dstNd) (hnd2 : NodataOk c.kind c.srcNd)
    (hdisj : ∀ d, samplePixM (pixMapP proj c.S c.D) c.srcH c.srcW d = none) :
    ∀ d : Int × Int, 0 ≤ d.1 ∧ d.1 < c.dstH ∧ 0 ≤ d.2 ∧ d.2 < c.dstW →
      daskResultP c proj G src d = some (resolveFill c.dstNd c.srcNd c.kind) :=
  fun d hd => fill_uniform_cross c proj G src hV hsy hsx hdy hdx hS hvalid hnd1 hnd2 d hd (hdisj d)

/-! ## the dependency hypothesis, reduced through C12's general path -/

/-- **Named residual assumption of the cross-CRS path.**  The footprints that the general path of
`grid_intersect` hands to shapely over-approximate true overlap: whenever a pixel of destination
tile `(iy, ix)` samples (through `proj`) a pixel of source tile `(i, j)`, then `(iy, ix)` is a
candidate for the source footprint that shapely does not call disjoint, and `(i, j)` is a candidate
for the extent of `(iy, ix)` that shapely does not call disjoint.  (pyproj accuracy, densification
of the footprint, the 2-pixel buffer, the 4326 round trip — sampled by the oracle, not proved.) -/
def FootprintsSuperset (c : Cfg) (proj : Proj) (dstCand : List (Int × Int))
    (dstDisjoint : Int × Int → Bool) (srcCand : Int × Int → List (Int × Int))
    (srcDisjoint : Int × Int → Int × Int → Bool) : Prop :=
  ∀ (iy ix : Nat) (d : Int × Int), InTile c.dy iy d.1 → InTile c.dx ix d.2 →
    ∀ s, samplePixM (pixMapP proj c.S c.D) c.srcH c.srcW d = some s →
      ∀ (i j : Nat), InTile c.sy i s.1 → InTile c.sx j s.2 →
        ((iy : Int), (ix : Int)) ∈ dstCand ∧ dstDisjoint ((iy : Int), (ix : Int)) = false ∧
        ((i : Int), (j : Int)) ∈ srcCand ((iy : Int), (ix : Int)) ∧
        srcDisjoint ((iy : Int), (ix : Int)) ((i : Int), (j : Int)) = false

theorem lookup_depsOfC12_map (f : Int × Int → List (Int × Int)) (iy ix : Nat) :
    ∀ (ts : List (Int × Int)), (∀ t ∈ ts, 0 ≤ t.1 ∧ 0 ≤ t.2) → ((iy : Int), (ix : Int)) ∈ ts →
      lookupDeps (depsOfC12 (ts.map fun d => (d, f d))) (iy, ix) = (f ((iy : Int), (ix : Int))).map idxToNat
  | [], _, hm => by simp at hm
  | t :: r, hnn, hm => by
    by_cases ht : t = ((iy : Int), (ix : Int))
    · subst ht
      simp [depsOfC12, lookupDeps, idxToNat]
    · have hne : ((iy, ix) == idxToNat t) = false := by
        have h0 := hnn t (by simp)
        simp only [idxToNat, beq_eq_false_iff_ne, ne_eq, Prod.mk.injEq, not_and]
        intro h1 h2
        apply ht
        ext <;> simp <;> omega
      have hm' : ((iy : Int), (ix : Int)) ∈ r := by
        simp only [List.mem_cons] at hm
        rcases hm with h | h
        · exact absurd h.symm ht
        · exact h
      have ih := lookup_depsOfC12_map f iy ix r (fun x hx => hnn x (by simp [hx])) hm'
      simp only [depsOfC12, lookupDeps, List.map_cons, List.lookup, hne] at ih ⊢
      exact ih

/-- **The cross-CRS dependency hypothesis follows from C12's general path** (`gridIntersectGeneral`,
the model of `grid_intersect`'s footprint branch) under `FootprintsSuperset`. -/
theorem deps_complete_P_of_general (c : Cfg) (proj : Proj)
    (dstCand : List (Int × Int)) (dstDisjoint : Int × Int → Bool)
    (srcCand : Int × Int → List (Int × Int)) (srcDisjoint : Int × Int → Int × Int → Bool)
    (hsy : Chain 0 c.sy c.srcH) (hsx : Chain 0 c.sx c.srcW)
    (hnn : ∀ t ∈ dstCand, 0 ≤ t.1 ∧ 0 ≤ t.2)
    (hfoot : FootprintsSuperset c proj dstCand dstDisjoint srcCand srcDisjoint)
    (hdeps : c.deps = depsOfC12 (C12.gridIntersectGeneral dstCand dstDisjoint srcCand srcDisjoint)) :
    deps_complete_P c proj := by
  rintro iy ix d hiy hix s hs
  -- the sampled pixel lies inside the source image, hence in a source tile
  have hin : (0 ≤ s.1 ∧ s.1 < c.srcH) ∧ (0 ≤ s.2 ∧ s.2 < c.srcW) := by
    unfold samplePixM at hs
    simp only at hs
    split at hs
    · next h =>
      obtain ⟨p1, p2, p3, p4⟩ := h
      simp only [Option.some.injEq] at hs
      subst hs
      exact ⟨⟨Rat.le_floor_iff.2 (by exact_mod_cast p3), Rat.floor_lt_iff.2 p4⟩,
        ⟨Rat.le_floor_iff.2 (by exact_mod_cast p1), Rat.floor_lt_iff.2 p2⟩⟩
    · cases hs
  obtain ⟨i, hi⟩ := Chain.locate_some hsy hin.1.1 hin.1.2
  obtain ⟨j, hj⟩ := Chain.locate_some hsx hin.2.1 hin.2.2
  obtain ⟨sp, hsp, a1, a2⟩ := locate_spec hi
  obtain ⟨sq, hsq, a3, a4⟩ := locate_spec hj
  obtain ⟨m1, m2, m3, m4⟩ := hfoot iy ix d hiy hix s hs i j ⟨sp, hsp, a1, a2⟩ ⟨sq, hsq, a3, a4⟩
  refine ⟨(i, j), ?_, ⟨sp, hsp, a1, a2⟩, ⟨sq, hsq, a3, a4⟩⟩
  rw [hdeps]
  unfold C12.gridIntersectGeneral
  rw [lookup_depsOfC12_map (fun d => (srcCand d).filter fun s => !srcDisjoint d s) iy ix _
    (fun t ht => hnn t (List.mem_filter.1 ht).1) (List.mem_filter.2 ⟨m1, by simp [m2]⟩)]
  exact List.mem_map.2 ⟨((i : Int), (j : Int)), List.mem_filter.2 ⟨m3, by simp [m4]⟩, by simp [idxToNat]⟩

/-- **End to end, cross-CRS**: chunked == whole for the dependency map that C12's general path
computes, with `FootprintsSuperset` as the ONLY unproved ingredient. -/
theorem chunked_eq_whole_cross_general (c : Cfg) (proj : Proj) (G : Gdal) (src buf : Img)
    (dstCand : List (Int × Int)) (dstDisjoint : Int × Int → Bool)
    (srcCand : Int × Int → List (Int × Int)) (srcDisjoint : Int × Int → Int × Int → Bool)
    (hnn : ∀ t ∈ dstCand, 0 ≤ t.1 ∧ 0 ≤ t.2)
    (hfoot : FootprintsSuperset c proj dstCand dstDisjoint srcCand srcDisjoint)
    (hdeps : c.deps = depsOfC12 (C12.gridIntersectGeneral dstCand dstDisjoint srcCand srcDisjoint))
    (hV : c.variant = Variant.repaired)
    (hbuf : WF buf c.dstH c.dstW)
    (hsy : Chain 0 c.sy c.srcH) (hsx : Chain 0 c.sx c.srcW)
    (hdy : Chain 0 c.dy c.dstH) (hdx : Chain 0 c.dx c.dstW)
    (hS : c.S.det ≠ 0) (hvalid : DepsValid c)
    (hnd : c.dstNd = none → c.srcNd = none)
    (hnd1 : NodataOk c.kind c.dstNd) (hnd2 : NodataOk c.kind c.srcNd)
    (d : Int × Int) (hd : 0 ≤ d.1 ∧ d.1 < c.dstH ∧ 0 ≤ d.2 ∧ d.2 < c.dstW) :
    daskResultP c proj G src d = wholeResultP c proj G src buf d :=
  chunked_eq_whole_cross c proj G src buf hV hbuf hsy hsx hdy hdx hS hvalid
    (deps_complete_P_of_general c proj dstCand dstDisjoint srcCand srcDisjoint hsy hsx hnn hfoot hdeps)
    hnd hnd1 hnd2 d hd

/-- non-vacuity: a non-affine transformation (`x ↦ x + y²`-like fold, here a swap) on the witness grids -/
example : daskResultP (cexCfg Variant.repaired .float none none) (fun w => (w.1 + w.2 * w.2 - 1 / 4, w.2)) cexGdal
    (full 1 1 (.num 5)) (0, 0) = some (.num 5) := by
  decide +kernel

end OdcGeo.C13
