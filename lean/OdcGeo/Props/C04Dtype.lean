/-
C04 — dtype / fill-value glue of `BlockAssembler` (model: `Model/C04Dtype.lean`).

What the property needs from it: the mosaic's dtype can hold every block's values (pasting a block
never needs an unsafe cast, whatever the fill), a fill of a *higher* kind than the blocks (NaN into
integer tiles, -1 into unsigned tiles) upgrades the result so that it is held, an integer fill that
the result dtype cannot hold is refused by numpy instead of being wrapped, and the default fill is
NaN exactly for floating results.
-/
import OdcGeo.Model.C04Dtype
import Mathlib.Tactic.Linarith
namespace OdcGeo.C04

theorem maxOf_ge (f : DT → Nat) (l : List DT) (d : DT) (h : d ∈ l) : f d ≤ maxOf f l := by
  induction l with
  | nil => cases h
  | cons a as ih =>
    simp only [maxOf]
    rcases List.mem_cons.1 h with rfl | h'
    · exact Nat.le_max_left _ _
    · exact Nat.le_trans (ih h') (Nat.le_max_right _ _)

theorem maxOf_attained (f : DT → Nat) (l : List DT) (hne : l ≠ []) : ∃ d ∈ l, maxOf f l = f d := by
  induction l with
  | nil => exact absurd rfl hne
  | cons a as ih =>
    cases as with
    | nil => exact ⟨a, by simp, by simp [maxOf]⟩
    | cons b bs =>
      obtain ⟨d, hd, hm⟩ := ih (by simp)
      simp only [maxOf] at hm ⊢
      rcases Nat.le_total (f a) (max (f b) (maxOf f bs)) with h | h
      · exact ⟨d, List.mem_cons_of_mem _ hd, by rw [Nat.max_eq_right h]; exact hm⟩
      · exact ⟨a, by simp, by rw [Nat.max_eq_left h]⟩

theorem rank_le_four (k : Kind) : k.rank ≤ 4 := by cases k <;> decide

theorem floatNeed_le_64 (k : Kind) (bits : Nat) (h : k = .u ∨ k = .i) : floatNeed ⟨k, bits⟩ ≤ 64 := by
  rcases h with rfl | rfl <;> simp only [floatNeed] <;> split <;> [omega; (split <;> omega); omega; (split <;> omega)]

/-- **the promoted dtype holds every member** (`np.result_type(*dtypes)` vs `np.can_cast(·, ·, "safe")`):
any number of dtypes, any order -/
theorem result_type_holds_each (l : List DT) (d : DT) (h : d ∈ l) : safeCast d (resultTypeL l) = true := by
  have hK : d.kind.rank ≤ maxOf (·.kind.rank) l := maxOf_ge (·.kind.rank) l d h
  have hu := maxOf_ge uintNeed l d h
  have hi := maxOf_ge intNeed l d h
  have hf := maxOf_ge floatNeed l d h
  have hc := maxOf_ge complexNeed l d h
  have h4 : ∀ e ∈ l, e.kind.rank ≤ 4 := fun e _ => rank_le_four e.kind
  obtain ⟨k, bits⟩ := d
  unfold resultTypeL
  simp only
  by_cases h0 : maxOf (·.kind.rank) l = 0
  · rw [if_pos h0]
    rw [h0] at hK
    cases k <;> simp [Kind.rank] at hK <;> rfl
  rw [if_neg h0]
  by_cases h1 : maxOf (·.kind.rank) l = 1
  · rw [if_pos h1]
    rw [h1] at hK
    cases k <;> simp [Kind.rank] at hK
    · rfl
    · simp only [safeCast, uintNeed, if_true, decide_eq_true_eq] at hu ⊢; exact hu
  rw [if_neg h1]
  by_cases h2 : maxOf (·.kind.rank) l = 2
  · rw [if_pos h2]
    rw [h2] at hK
    by_cases hbig : maxOf intNeed l > 64
    · rw [if_pos hbig]
      cases k <;> simp [Kind.rank] at hK
      · rfl
      · simp only [safeCast, decide_eq_true_eq]; exact floatNeed_le_64 _ _ (Or.inl rfl)
      · simp only [safeCast, decide_eq_true_eq]; exact floatNeed_le_64 _ _ (Or.inr rfl)
    · rw [if_neg hbig]
      cases k <;> simp [Kind.rank] at hK
      · rfl
      · simp only [safeCast, intNeed, decide_eq_true_eq] at hi ⊢; exact hi
      · simp only [safeCast, intNeed, decide_eq_true_eq] at hi ⊢; exact hi
  rw [if_neg h2]
  by_cases h3 : maxOf (·.kind.rank) l = 3
  · rw [if_pos h3]
    rw [h3] at hK
    cases k <;> simp [Kind.rank] at hK
    · rfl
    · simp only [safeCast, decide_eq_true_eq]; exact hf
    · simp only [safeCast, decide_eq_true_eq]; exact hf
    · simp only [safeCast, decide_eq_true_eq]; exact hf
  rw [if_neg h3]
  cases k
  · rfl
  · simp only [safeCast, complexNeed, decide_eq_true_eq] at hc ⊢; simpa using hc
  · simp only [safeCast, complexNeed, decide_eq_true_eq] at hc ⊢; simpa using hc
  · simp only [safeCast, complexNeed, decide_eq_true_eq] at hc ⊢; simpa using hc
  · simp only [safeCast, complexNeed, if_true, decide_eq_true_eq] at hc ⊢; exact hc

/-- one of numpy's 14 numeric dtypes -/
def DT.Valid (d : DT) : Prop := d ∈ DT.all

instance : DecidablePred DT.Valid := fun d => by unfold DT.Valid; infer_instance

theorem resultTypeL_single : ∀ d ∈ DT.all, resultTypeL [d] = d := by decide

theorem valid_k1 : ∀ du ∈ DT.all, du.kind.rank ≤ 1 → (⟨.u, uintNeed du⟩ : DT) ∈ DT.all := by decide
theorem valid_k2 : ∀ di ∈ DT.all, di.kind.rank ≤ 2 →
    (if intNeed di > 64 then (⟨.f, 64⟩ : DT) else ⟨.i, intNeed di⟩) ∈ DT.all := by decide
theorem valid_k3 : ∀ dK ∈ DT.all, ∀ df ∈ DT.all, dK.kind.rank = 3 → df.kind.rank ≤ 3 →
    floatNeed dK ≤ floatNeed df → (⟨.f, floatNeed df⟩ : DT) ∈ DT.all := by decide
theorem valid_k4 : ∀ dc ∈ DT.all, (⟨.c, complexNeed dc⟩ : DT) ∈ DT.all := by decide

/-- promotion stays inside numpy's dtypes -/
theorem result_type_valid (l : List DT) (hne : l ≠ []) (hv : ∀ d ∈ l, d.Valid) : (resultTypeL l).Valid := by
  obtain ⟨dK, hdK, eK⟩ := maxOf_attained (·.kind.rank) l hne
  have rk : ∀ d ∈ l, d.kind.rank ≤ dK.kind.rank := fun d hd => by
    have := maxOf_ge (·.kind.rank) l d hd; rw [eK] at this; exact this
  unfold resultTypeL
  simp only
  rw [eK]
  by_cases h0 : dK.kind.rank = 0
  · rw [if_pos h0]; decide
  rw [if_neg h0]
  by_cases h1 : dK.kind.rank = 1
  · rw [if_pos h1]
    obtain ⟨du, hdu, eu⟩ := maxOf_attained uintNeed l hne
    rw [eu]
    exact valid_k1 du (hv du hdu) (by have := rk du hdu; omega)
  rw [if_neg h1]
  by_cases h2 : dK.kind.rank = 2
  · rw [if_pos h2]
    obtain ⟨di, hdi, ei⟩ := maxOf_attained intNeed l hne
    rw [ei]
    exact valid_k2 di (hv di hdi) (by have := rk di hdi; omega)
  rw [if_neg h2]
  by_cases h3 : dK.kind.rank = 3
  · rw [if_pos h3]
    obtain ⟨df, hdf, ef⟩ := maxOf_attained floatNeed l hne
    rw [ef]
    exact valid_k3 dK (hv dK hdK) df (hv df hdf) h3 (by have := rk df hdf; omega)
      (by have := maxOf_ge floatNeed l dK hdK; rw [ef] at this; exact this)
  rw [if_neg h3]
  obtain ⟨dc, hdc, ec⟩ := maxOf_attained complexNeed l hne
  rw [ec]
  exact valid_k4 dc (hv dc hdc)

/-! ## `BlockAssembler.__init__` -/

theorem assembler_dtype_empty : assemblerDtype [] = DT.f32 := rfl

theorem assembler_dtype_eq (blocks : List DT) (hne : blocks ≠ []) : assemblerDtype blocks = resultTypeL blocks := by
  cases blocks with
  | nil => exact absurd rfl hne
  | cons a as => rfl

/-- **the mosaic's dtype holds every block** (any number of blocks, any mix of numeric dtypes) -/
theorem assembler_dtype_holds_blocks (blocks : List DT) (d : DT) (h : d ∈ blocks) :
    safeCast d (assemblerDtype blocks) = true := by
  rw [assembler_dtype_eq blocks (List.ne_nil_of_mem h)]
  exact result_type_holds_each blocks d h

theorem assembler_dtype_valid (blocks : List DT) (hv : ∀ d ∈ blocks, d.Valid) : (assemblerDtype blocks).Valid := by
  cases blocks with
  | nil => decide
  | cons a as => exact result_type_valid (a :: as) (by simp) hv

/-! ## `extract(fill_value, dtype=…)` -/

/-- an explicit `dtype=` wins over everything -/
theorem extract_dtype_explicit (self d : DT) (fm : Option DT) : extractDtype self (some d) fm = d := rfl

/-- without a fill the assembler's dtype is used -/
theorem extract_dtype_no_fill (self : DT) : extractDtype self none none = self := rfl

/-- with a fill: only a fill of a *higher kind* (`"buifc"`) changes the dtype – to the promotion of both -/
theorem extract_dtype_fill (self m : DT) (hs : self.Valid) (hm : m.Valid) :
    extractDtype self none (some m) =
      if m.kind.rank > self.kind.rank then resultTypeL [self, m] else self := by
  simp only [extractDtype, findCommonType, resultTypeL_single self hs, resultTypeL_single m hm]

theorem safeCast_mono : ∀ d ∈ DT.all, ∀ a ∈ DT.all, ∀ m ∈ DT.all, safeCast d a = true →
    safeCast d (resultTypeL [a, m]) = true := by decide

/-- **whatever the fill, the allocated dtype holds every block** (`dtype=None`): pasting a block into
the window never needs an unsafe cast -/
theorem extract_dtype_holds_blocks (blocks : List DT) (hv : ∀ d ∈ blocks, d.Valid) (fm : Option DT)
    (hfm : ∀ m, fm = some m → m.Valid) (d : DT) (h : d ∈ blocks) :
    safeCast d (extractDtype (assemblerDtype blocks) none fm) = true := by
  have hself := assembler_dtype_holds_blocks blocks d h
  have vself := assembler_dtype_valid blocks hv
  cases fm with
  | none => exact hself
  | some m =>
    rw [extract_dtype_fill _ m vself (hfm m rfl)]
    split
    · exact safeCast_mono d (hv d h) _ vself m (hfm m rfl) hself
    · exact hself

/-- **a fill of a higher kind is held by the result**: NaN (or any float) into integer tiles gives a
float result, a negative int into unsigned tiles a signed one, … -/
theorem extract_dtype_holds_higher_fill (self m : DT) (hs : self.Valid) (hm : m.Valid)
    (hk : m.kind.rank > self.kind.rank) : safeCast m (extractDtype self none (some m)) = true := by
  rw [extract_dtype_fill self m hs hm, if_pos hk]
  exact result_type_holds_each [self, m] m (by simp)

/-- a fill of the same or a lower kind never changes the dtype – not even when it does not fit … -/
theorem extract_dtype_same_kind_unchanged (self m : DT) (hs : self.Valid) (hm : m.Valid)
    (hk : m.kind.rank ≤ self.kind.rank) : extractDtype self none (some m) = self := by
  rw [extract_dtype_fill self m hs hm, if_neg (by omega)]

/-- … an *integer* fill that does not fit is then refused by numpy (`OverflowError`), never wrapped:
when `extract` allocates an integer window for a Python-int fill, the fill is inside the dtype's range -/
theorem int_fill_never_wraps (blocks : List DT) (dt : Option DT) (v : Int) (d : DT)
    (h : extractAlloc blocks dt (.int v) = .ok d) :
    (d.kind = .u → 0 ≤ v ∧ v < 2 ^ d.bits) ∧
    (d.kind = .i → -(2 ^ (d.bits - 1)) ≤ v ∧ v < 2 ^ (d.bits - 1)) := by
  simp only [extractAlloc] at h
  split at h
  · cases h
  · next hr =>
    cases h
    simp only [fullRaises] at hr
    constructor
    · intro hk; rw [hk] at hr; simp only [decide_eq_true_eq, not_or, not_lt, not_le] at hr; exact hr
    · intro hk; rw [hk] at hr; simp only [decide_eq_true_eq, not_or, not_lt, not_le] at hr; exact hr

/-- `uint8` tiles, fill 300: refused (replayed on the real code: `OverflowError`) -/
theorem uint8_fill_300_refused_cex : extractAlloc [⟨.u, 8⟩] none (.int 300) = .error () := by decide

/-- `float32` tiles, fill `1e40`: the dtype stays `float32`, which cannot hold the fill – numpy writes
`inf` (replayed on the real code: the absent tiles read `inf`, with a RuntimeWarning).  Observation,
not a defect of the tiling logic: fills are expected to be representable in the data's kind. -/
theorem float32_fill_1e40_overflows_cex :
    extractAlloc [⟨.f, 32⟩] none (.float (.fin 10000000000000000303786028427003666890752)) = .ok ⟨.f, 32⟩ ∧
    safeCast (minScalarFloat (.fin 10000000000000000303786028427003666890752)) ⟨.f, 32⟩ = false := by
  decide +kernel

/-- the default fill is NaN exactly for floating results (complex and integer results get 0) -/
theorem default_fill_nan_iff (d : DT) : effFill d false = .nan ↔ d.kind = .f := by
  simp only [effFill]
  constructor
  · intro h; split at h <;> simp_all
  · intro h; simp [h]

/-! ## hypotheses are satisfiable -/
example : (⟨.u, 8⟩ : DT).Valid := by decide
example : extractDtype ⟨.u, 8⟩ none (some ⟨.f, 16⟩) = ⟨.f, 16⟩ := by decide
example : extractDtype ⟨.u, 8⟩ none (some ⟨.i, 8⟩) = ⟨.i, 16⟩ := by decide
example : extractAlloc [⟨.u, 8⟩, ⟨.i, 8⟩] none (.int 5) = .ok ⟨.i, 16⟩ := by decide
example : resultTypeL [⟨.u, 8⟩, ⟨.i, 8⟩, ⟨.f, 16⟩] = ⟨.f, 16⟩ := by decide

end OdcGeo.C04
