/-
C02 — GeoBox views agree with its pixel-to-world mapping.  Property theorems only.

Everything is over exact rationals (DESIGN §3.1); `g` ranges over *all* geoboxes (any
integer shape incl. 1×N / N×1, any affine: mirrored, non-square, rotated, sheared; any CRS
tag incl. `0 = None`), parameters over all values.  A hypothesis is present only where the
code itself needs it (`det ≠ 0` for the inverse, `0 < factor` for "covers", …).
-/
import OdcGeo.Model.C02
import OdcGeo.Model.C08
import OdcGeo.Spec.PySlice
import OdcGeo.Lemmas.Affine
import OdcGeo.Lemmas.C02
import Mathlib.Tactic.Linarith
import Mathlib.Tactic.Ring
import Mathlib.Tactic.FieldSimp
import Mathlib.Tactic.Positivity
import Mathlib.Tactic.LinearCombination
import Mathlib.Algebra.Order.Field.Rat

namespace OdcGeo.C02
open OdcGeo OdcGeo.C17 OdcGeo.PySlice

/-! ## 1. pixel ↔ world are mutual inverses -/

/-- `wld2pix (pix2wld p) = p` for every invertible affine. -/
theorem wld2pix_pix2wld (g : GeoBox) (h : g.A.det ≠ 0) (p : Pt) :
    wld2pix g (pix2wld g p) = .ok p := by
  simp [wld2pix, pix2wld, Aff.inv?, h, bind, Except.bind, pure, Except.pure,
    Aff.inv_apply_apply g.A h]

/-- `pix2wld (wld2pix w) = w` whenever `wld2pix` answers. -/
theorem pix2wld_wld2pix (g : GeoBox) (w p : Pt) (h : wld2pix g w = .ok p) :
    pix2wld g p = w := by
  unfold wld2pix Aff.inv? at h
  by_cases hd : g.A.det = 0
  · simp [hd, bind, Except.bind] at h
  · simp [hd, bind, Except.bind, pure, Except.pure] at h
    rw [← h, pix2wld, Aff.apply_inv_apply g.A hd]

/-- `wld2pix` raises exactly for degenerate affines. -/
theorem wld2pix_error_iff (g : GeoBox) (w : Pt) :
    wld2pix g w = .error .valueError ↔ g.A.det = 0 := by
  unfold wld2pix Aff.inv?
  by_cases hd : g.A.det = 0 <;> simp [hd, bind, Except.bind, pure, Except.pure]

/-! ## 2. footprint and bounding box are images of the pixel rectangle -/

/-- The footprint ring is the image of the four pixel-rectangle corners, in the order
`(0,0), (0,ny), (nx,ny), (nx,0)`, closed. -/
theorem extent_is_image (g : GeoBox) :
    extent g = [pix2wld g (0, 0), pix2wld g (0, g.ny), pix2wld g (g.nx, g.ny),
                pix2wld g (g.nx, 0), pix2wld g (0, 0)] := by
  simp [extent, corners, pix2wld]

/-- Every point of the pixel rectangle `[0,nx]×[0,ny]` (written with barycentric
weights `u, v ∈ [0,1]`) is mapped to the corresponding convex combination of the four
footprint vertices: the footprint polygon is exactly the image of the rectangle. -/
theorem extent_covers_rectangle (g : GeoBox) (u v : Rat) :
    pix2wld g (u * g.nx, v * g.ny) =
      let P0 := pix2wld g (0, 0); let P1 := pix2wld g (0, g.ny)
      let P2 := pix2wld g (g.nx, g.ny); let P3 := pix2wld g (g.nx, 0)
      ((1 - u) * (1 - v) * P0.1 + (1 - u) * v * P1.1 + u * v * P2.1 + u * (1 - v) * P3.1,
       (1 - u) * (1 - v) * P0.2 + (1 - u) * v * P1.2 + u * v * P2.2 + u * (1 - v) * P3.2) := by
  simp only [pix2wld, Aff.apply]
  ext <;> simp <;> ring

/-- The bounding box is the coordinate-wise min / max of the four corner images. -/
theorem bbox_is_image_hull (g : GeoBox) :
    let P0 := pix2wld g (0, 0); let P1 := pix2wld g (0, g.ny)
    let P2 := pix2wld g (g.nx, g.ny); let P3 := pix2wld g (g.nx, 0)
    boundingbox g = ⟨min4 P0.1 P1.1 P2.1 P3.1, min4 P0.2 P1.2 P2.2 P3.2,
                     max4 P0.1 P1.1 P2.1 P3.1, max4 P0.2 P1.2 P2.2 P3.2⟩ := by
  simp [boundingbox, pix2wld]

/-- … and it contains the image of every point of the pixel rectangle (any affine:
rotated, sheared, mirrored). -/
theorem bbox_contains_image (g : GeoBox) (x y : Rat)
    (hx0 : 0 ≤ x) (hx1 : x ≤ g.nx) (hy0 : 0 ≤ y) (hy1 : y ≤ g.ny) :
    (boundingbox g).left ≤ (pix2wld g (x, y)).1 ∧ (pix2wld g (x, y)).1 ≤ (boundingbox g).right ∧
    (boundingbox g).bottom ≤ (pix2wld g (x, y)).2 ∧ (pix2wld g (x, y)).2 ≤ (boundingbox g).top := by
  simp only [boundingbox, pix2wld, Aff.apply]
  exact ⟨lin_ge_min4 _ _ _ _ _ x y hx0 hx1 hy0 hy1, lin_le_max4 _ _ _ _ _ x y hx0 hx1 hy0 hy1,
         lin_ge_min4 _ _ _ _ _ x y hx0 hx1 hy0 hy1, lin_le_max4 _ _ _ _ _ x y hx0 hx1 hy0 hy1⟩

/-- … and it is tight: every side passes through a footprint vertex. -/
theorem bbox_tight (g : GeoBox) :
    (∃ p ∈ corners g, (boundingbox g).left = (pix2wld g p).1) ∧
    (∃ p ∈ corners g, (boundingbox g).right = (pix2wld g p).1) ∧
    (∃ p ∈ corners g, (boundingbox g).bottom = (pix2wld g p).2) ∧
    (∃ p ∈ corners g, (boundingbox g).top = (pix2wld g p).2) := by
  simp only [boundingbox, pix2wld, corners]
  refine ⟨?_, ?_, ?_, ?_⟩
  · rcases min4_mem (g.A.apply (0, 0)).1 (g.A.apply (0, (g.ny : Rat))).1
      (g.A.apply ((g.nx : Rat), (g.ny : Rat))).1 (g.A.apply ((g.nx : Rat), 0)).1 with h | h | h | h <;>
      simp [h]
  · rcases max4_mem (g.A.apply (0, 0)).1 (g.A.apply (0, (g.ny : Rat))).1
      (g.A.apply ((g.nx : Rat), (g.ny : Rat))).1 (g.A.apply ((g.nx : Rat), 0)).1 with h | h | h | h <;>
      simp [h]
  · rcases min4_mem (g.A.apply (0, 0)).2 (g.A.apply (0, (g.ny : Rat))).2
      (g.A.apply ((g.nx : Rat), (g.ny : Rat))).2 (g.A.apply ((g.nx : Rat), 0)).2 with h | h | h | h <;>
      simp [h]
  · rcases max4_mem (g.A.apply (0, 0)).2 (g.A.apply (0, (g.ny : Rat))).2
      (g.A.apply ((g.nx : Rat), (g.ny : Rat))).2 (g.A.apply ((g.nx : Rat), 0)).2 with h | h | h | h <;>
      simp [h]

/-- The code before `fix: BoundingBox.from_transform …` used only the images of `(0,0)`
and `(nx,ny)`. -/
def boundingboxOld (g : GeoBox) : BBox :=
  let p1 := g.A.apply (0, 0)
  let p2 := g.A.apply ((g.nx : Rat), (g.ny : Rat))
  ⟨min p1.1 p2.1, min p1.2 p2.2, max p1.1 p2.1, max p1.2 p2.2⟩

/-- Witness that the old two-corner box does not contain the footprint of a rotated grid:
2×2 pixels, `A = [[3,-4],[4,3]]` (a 3-4-5 rotation): corner `(0,2) ↦ (-8, 6)` lies left of
the old box `[-2, 0] × [0, 14]`.  Replayed on the real (unfixed) code by the harness. -/
theorem bbox_two_corners_cex :
    let g : GeoBox := ⟨2, 2, ⟨3, -4, 0, 4, 3, 0⟩, 0⟩
    ¬ ((boundingboxOld g).left ≤ (pix2wld g (0, 2)).1) := by
  decide +kernel

/-! ## 3. coordinate labels are pixel centres; resolution -/

/-- `coordinates` answers exactly for axis-aligned grids (`|b|,|d| < 1e-10`) and then has
one label per pixel. -/
theorem coords_defined_iff (g : GeoBox) :
    (∃ ys xs, coordinates g = .ok (ys, xs) ∧ ys.length = g.ny.toNat ∧ xs.length = g.nx.toNat) ↔
      isAffineST g.A = true := by
  unfold coordinates
  by_cases h : isAffineST g.A = true
  · simp [h, labels]
  · simp [h]

/-- The `i`-th x label is the x coordinate of the centre `(i+½, ·)` of pixel column `i`,
the `j`-th y label the y coordinate of the centre of row `j` — for **every** pixel of a
grid without rotation / shear terms. -/
theorem coords_are_centres (g : GeoBox) (hb : g.A.b = 0) (hd : g.A.d = 0)
    (ys xs : List Rat) (h : coordinates g = .ok (ys, xs)) :
    (∀ i : Nat, i < g.nx.toNat → ∀ y : Rat,
        xs[i]? = some (pix2wld g ((i : Rat) + 1 / 2, y)).1) ∧
    (∀ j : Nat, j < g.ny.toNat → ∀ x : Rat,
        ys[j]? = some (pix2wld g (x, (j : Rat) + 1 / 2)).2) := by
  unfold coordinates at h
  split at h
  · simp only [Except.ok.injEq, Prod.mk.injEq] at h
    obtain ⟨rfl, rfl⟩ := h
    constructor
    · intro i hi y
      simp [labels, hi, pix2wld, Aff.apply, hb]; ring
    · intro j hj x
      simp [labels, hj, pix2wld, Aff.apply, hd]; ring
  · simp at h

/-- With a sub-tolerance shear term (accepted by `is_affine_st`) the label is still the
centre's image up to that term: `label i = (pix2wld (i+½, y)).x − b·y`. -/
theorem coords_centres_upto_shear (g : GeoBox) (ys xs : List Rat)
    (h : coordinates g = .ok (ys, xs)) (i : Nat) (hi : i < g.nx.toNat) (y : Rat) :
    xs[i]? = some ((pix2wld g ((i : Rat) + 1 / 2, y)).1 - g.A.b * y) := by
  unfold coordinates at h
  split at h
  · simp only [Except.ok.injEq, Prod.mk.injEq] at h
    obtain ⟨rfl, rfl⟩ := h
    simp [labels, hi, pix2wld, Aff.apply]; ring
  · simp at h

/-- Axis-aligned resolution: the signed pixel sizes, i.e. one pixel step in x / y moves
the world point by `(rx, 0)` / `(0, ry)`. -/
theorem resolution_st (g : GeoBox) (hb : g.A.b = 0) (hd : g.A.d = 0) (n m : Rat) (p : Pt) :
    ∃ rx ry, resolution g n m = .ok (rx, ry) ∧
      pix2wld g (p.1 + 1, p.2) = ((pix2wld g p).1 + rx, (pix2wld g p).2) ∧
      pix2wld g (p.1, p.2 + 1) = ((pix2wld g p).1, (pix2wld g p).2 + ry) := by
  have hst : isAffineST g.A = true := by
    simp [isAffineST, hb, hd, rabs, tolST]; decide +kernel
  refine ⟨g.A.a, g.A.e, by simp [resolution, hst], ?_, ?_⟩
  · simp [pix2wld, Aff.apply, hb, hd]; ring
  · simp [pix2wld, Aff.apply, hb, hd]; ring

/-- Rotated / sheared resolution (`decompose_rws`): with `n = √(a²+d²)` and
`m = √(b²+e²-w²)`, `w = (ab+de)/n` supplied as witnesses, `rx = n` is the length of one
pixel step in x, and `rx·ry = det A` is the signed area of a pixel (so `|ry|` is the
pixel height measured perpendicular to the x step, negative for a mirrored grid). -/
theorem resolution_rotated (g : GeoBox) (hns : isAffineST g.A = false) (hdet : g.A.det ≠ 0)
    (n m : Rat) (hn : 0 < n) (hn2 : n * n = g.A.a * g.A.a + g.A.d * g.A.d)
    (hm : 0 < m)
    (hm2 : m * m = g.A.b * g.A.b + g.A.e * g.A.e
              - ((g.A.a * g.A.b + g.A.d * g.A.e) / n) * ((g.A.a * g.A.b + g.A.d * g.A.e) / n)) :
    ∃ rx ry, resolution g n m = .ok (rx, ry) ∧ rx = n ∧ rx * rx = g.A.a ^ 2 + g.A.d ^ 2 ∧
      rx * ry = g.A.det := by
  have hnm : 0 < n * m := mul_pos hn hm
  have hn0 : n ≠ 0 := ne_of_gt hn
  -- (n m)² = det²
  have key : (n * m) * (n * m) = g.A.det * g.A.det := by
    have : (n * m) * (n * m) = (n * n) * (m * m) := by ring
    rw [this, hm2]
    have e1 : (g.A.a * g.A.b + g.A.d * g.A.e) / n * ((g.A.a * g.A.b + g.A.d * g.A.e) / n) * (n * n)
        = (g.A.a * g.A.b + g.A.d * g.A.e) * (g.A.a * g.A.b + g.A.d * g.A.e) := by
      field_simp
    have : n * n * (g.A.b * g.A.b + g.A.e * g.A.e
        - (g.A.a * g.A.b + g.A.d * g.A.e) / n * ((g.A.a * g.A.b + g.A.d * g.A.e) / n))
        = (n * n) * (g.A.b * g.A.b + g.A.e * g.A.e)
          - (g.A.a * g.A.b + g.A.d * g.A.e) / n * ((g.A.a * g.A.b + g.A.d * g.A.e) / n) * (n * n) := by
      ring
    rw [this, e1, hn2]; simp only [Aff.det]; ring
  by_cases hneg : g.A.det / (n * m) < 0
  · have hd : g.A.det < 0 := by
      by_contra hc
      have : 0 ≤ g.A.det / (n * m) := div_nonneg (not_lt.mp hc) (le_of_lt hnm)
      linarith
    refine ⟨n, -m, by simp [resolution, hns, hdet, hneg], rfl, by rw [hn2]; ring, ?_⟩
    have : (n * m + g.A.det) * (n * m - g.A.det) = 0 := by linear_combination key
    rcases mul_eq_zero.mp this with h | h
    · linarith
    · exfalso; linarith
  · have hd : 0 < g.A.det := by
      rcases lt_trichotomy g.A.det 0 with h | h | h
      · exact absurd (div_neg_of_neg_of_pos h hnm) hneg
      · exact absurd h hdet
      · exact h
    refine ⟨n, m, by simp [resolution, hns, hdet, hneg], rfl, by rw [hn2]; ring, ?_⟩
    have : (n * m + g.A.det) * (n * m - g.A.det) = 0 := by linear_combination key
    rcases mul_eq_zero.mp this with h | h
    · exfalso; linarith
    · linarith

/-- the hypotheses of `resolution_rotated` are satisfiable: the 3-4-5 rotation scaled by 2 -/
example : ∃ rx ry, resolution ⟨5, 7, ⟨6, -8, 1, 8, 6, 2⟩, 1⟩ 10 10 = .ok (rx, ry) ∧ rx = 10 ∧
    rx * ry = 100 := ⟨10, 10, by decide +kernel, rfl, by norm_num⟩

/-! ## 4. pixel contracts of the view operations

For a view `g' = op g` the contract has the form
`pix2wld g' p = pix2wld g (T p)` for **all** (also fractional) pixel positions `p`,
together with the shape law and `g'.crs = g.crs`. -/

/-- `gbox * T` (pixel-side composition): `X_old = T · X_new`. -/
theorem mul_pixel (g : GeoBox) (T : Aff) (p : Pt) :
    pix2wld (mulPix g T) p = pix2wld g (T.apply p) ∧
    (mulPix g T).ny = g.ny ∧ (mulPix g T).nx = g.nx ∧ (mulPix g T).crs = g.crs := by
  simp [mulPix, pix2wld, Aff.apply_mul]

/-- `T * gbox` (world-side composition): the footprint is transformed by `T`. -/
theorem rmul_pixel (T : Aff) (g : GeoBox) (p : Pt) :
    pix2wld (mulWld T g) p = T.apply (pix2wld g p) ∧
    (mulWld T g).ny = g.ny ∧ (mulWld T g).nx = g.nx ∧ (mulWld T g).crs = g.crs := by
  simp [mulWld, pix2wld, Aff.apply_mul]

/-- Cropping / indexing with any pair of index expressions (ints, negative, open or closed
slices): pixel `(i,j)` of the view is pixel `(i + x0, j + y0)` of the parent, where
`x0, y0` are the normalised starts; the shape is the normalised ROI shape. -/
theorem crop_pixel (g : GeoBox) (sy sx : PIdx) (p : Pt) :
    pix2wld (crop g (.two sy sx)) p
      = pix2wld g (p.1 + ((normSlice sx g.nx).start : Rat), p.2 + ((normSlice sy g.ny).start : Rat)) ∧
    (crop g (.two sy sx)).ny = (normSlice sy g.ny).stop - (normSlice sy g.ny).start ∧
    (crop g (.two sy sx)).nx = (normSlice sx g.nx).stop - (normSlice sx g.nx).start ∧
    (crop g (.two sy sx)).crs = g.crs := by
  simp [crop, pix2wld, Aff.apply_mul, Aff.apply_translation]

/-- A bare index `gbox[s]` (int or slice) is `gbox[s, :]` — in particular `gbox[-1]` is the
last row (this is what `fix: GeoBox[-1] …` repairs). -/
theorem crop_one_eq_two (g : GeoBox) (s : PIdx) :
    crop g (.one s) = crop g (.two s (.slc none none)) := rfl

/-- Tie to numpy semantics (`Spec/PySlice`): for a slice whose normalised stop does not
exceed the axis length, column `i` of the view exists iff numpy selects column
`start + i` of the parent — the view has exactly the selected columns, in order. -/
theorem crop_selects_numpy (g : GeoBox) (sy : PIdx) (a b : Option Int) (hn : 0 ≤ g.nx)
    (hstop : (normSlice (.slc a b) g.nx).stop ≤ g.nx) (i : Int) :
    (0 ≤ i ∧ i < (crop g (.two sy (.slc a b))).nx) ↔
      (0 ≤ i ∧ Sel g.nx (.slc a b) ((normSlice (.slc a b) g.nx).start + i)) := by
  revert hstop
  cases a <;> cases b <;>
    simp [crop, Sel, normSlice, bounds, clampBound, wrapNeg] <;> omega

/-- An in-range integer index (also negative) gives a one-row view at numpy's row. -/
theorem crop_int_index (g : GeoBox) (k : Int) (hk : -g.ny ≤ k ∧ k < g.ny) (sx : PIdx) :
    (crop g (.two (.idx k) sx)).ny = 1 ∧
    Sel g.ny (.idx k) (normSlice (.idx k) g.ny).start := by
  simp [crop, normSlice, Sel]; omega

/-- The code does **not** clamp positive bounds to the parent shape (numpy does):
`gbox[5:30]` of a 10-row geobox has 25 rows.  Recorded behaviour, replayed by the harness. -/
theorem crop_beyond_parent_not_clamped_cex :
    (crop ⟨10, 20, Aff.id, 0⟩ (.one (.slc (some 5) (some 30)))).ny = 25 := by decide +kernel

/-- The code before `fix: GeoBox[-1] …`: a bare int `k` became `slice(k, k+1)`. -/
def cropIntOld (g : GeoBox) (k : Int) : GeoBox := crop g (.one (.slc (some k) (some (k + 1))))

/-- … which for `k = -1` gives a negative number of rows (`1 - ny`). -/
theorem crop_int_minus_one_old_cex : (cropIntOld ⟨10, 20, Aff.id, 0⟩ (-1)).ny = -9 := by
  decide +kernel

/-! ### cropping by a region (Geometry / BoundingBox / GeoBox used as an index) -/

/-- `gbox[region]` is a whole-pixel window of the parent (pixel `(i,j)` of the view is pixel
`(i+L, j+B)` of the parent, `L, B ≥ 0`, same crs) that contains every region vertex lying inside
the parent's pixel rectangle. -/
theorem crop_region_covers (g g' : GeoBox) (pts : List Pt) (h : cropRegionPix g pts = .ok g')
    (p : Pt) (hp : p ∈ pts) (hx : 0 ≤ p.1 ∧ p.1 ≤ g.nx) (hy : 0 ≤ p.2 ∧ p.2 ≤ g.ny) :
    ∃ L B : Int, 0 ≤ L ∧ 0 ≤ B ∧ g'.crs = g.crs ∧ 1 ≤ g'.nx ∧ 1 ≤ g'.ny ∧
      (∀ q : Pt, pix2wld g' q = pix2wld g (q.1 + L, q.2 + B)) ∧
      (L : Rat) ≤ p.1 ∧ p.1 ≤ (L : Rat) + g'.nx ∧ (B : Rat) ≤ p.2 ∧ p.2 ≤ (B : Rat) + g'.ny := by
  cases pts with
  | nil => cases hp
  | cons p0 ps =>
    simp only [cropRegionPix, Except.ok.injEq] at h
    subst h
    have hxm : p.1 ∈ (p0 :: ps).map (·.1) := List.mem_map_of_mem hp
    have hym : p.2 ∈ (p0 :: ps).map (·.2) := List.mem_map_of_mem hp
    generalize hxs : (p0 :: ps).map (·.1) = xs at hxm ⊢
    generalize hys : (p0 :: ps).map (·.2) = ys at hym ⊢
    have lo : ∀ (v : Rat) (l : List Rat), v ∈ l → 0 ≤ v → ((max (C17.minL 0 l).floor 0 : Int) : Rat) ≤ v := by
      intro v l hv h0
      rw [Int.cast_max]
      apply max_le _ (by simpa using h0)
      exact le_trans (Rat.floor_le _) (minL_le 0 l v hv)
    have hi : ∀ (v : Rat) (l : List Rat) (n : Int), v ∈ l → v ≤ n → v ≤ ((min (C17.maxL 0 l).ceil n : Int) : Rat) := by
      intro v l n hv hn
      rw [Int.cast_min]
      exact le_min (le_trans (le_maxL 0 l v hv) Rat.le_ceil) hn
    have wr : ∀ (n a : Int), 0 ≤ a → wrapNeg n a = a := by intro n a ha; simp [wrapNeg, ha]
    have hL : (0 : Int) ≤ max (C17.minL 0 xs).floor 0 := le_max_right _ _
    have hB : (0 : Int) ≤ max (C17.minL 0 ys).floor 0 := le_max_right _ _
    refine ⟨max (C17.minL 0 xs).floor 0, max (C17.minL 0 ys).floor 0, hL, hB, rfl, ?_, ?_, ?_,
      lo _ _ hxm hx.1, ?_, lo _ _ hym hy.1, ?_⟩
    · simp only [crop, normSlice]; rw [wr _ _ hL, wr _ _ (by omega)]; omega
    · simp only [crop, normSlice]; rw [wr _ _ hB, wr _ _ (by omega)]; omega
    · intro q
      rw [(crop_pixel g _ _ q).1]
      simp only [normSlice]; rw [wr _ _ hL, wr _ _ hB]
    · have h1 := hi _ _ g.nx hxm hx.2
      simp only [crop, normSlice]; rw [wr _ _ hL, wr _ _ (by omega)]
      have : min (C17.maxL 0 xs).ceil g.nx ≤ max (C17.minL 0 xs).floor 0 +
          (max (C17.minL 0 xs).floor 0 + max 1 (min (C17.maxL 0 xs).ceil g.nx - max (C17.minL 0 xs).floor 0)
            - max (C17.minL 0 xs).floor 0) := by omega
      have hc : ((min (C17.maxL 0 xs).ceil g.nx : Int) : Rat) ≤ _ := Int.cast_le.mpr this
      push_cast at hc h1 ⊢
      linarith
    · have h1 := hi _ _ g.ny hym hy.2
      simp only [crop, normSlice]; rw [wr _ _ hB, wr _ _ (by omega)]
      have : min (C17.maxL 0 ys).ceil g.ny ≤ max (C17.minL 0 ys).floor 0 +
          (max (C17.minL 0 ys).floor 0 + max 1 (min (C17.maxL 0 ys).ceil g.ny - max (C17.minL 0 ys).floor 0)
            - max (C17.minL 0 ys).floor 0) := by omega
      have hc : ((min (C17.maxL 0 ys).ceil g.ny : Int) : Rat) ≤ _ := Int.cast_le.mpr this
      push_cast at hc h1 ⊢
      linarith

/-- `g[g[roi]] = g[roi]`: indexing a geobox with one of its own (non-empty, in-range) windows
returns that window — for **every** invertible affine (rotated, sheared, mirrored) and every
CRS.  True in exact arithmetic; in doubles the projected corners land at `k ± 1e-12` pixels
and the outward rounding adds a pixel on most arbitrary float grids (reported finding
`window-of-self-grows-by-float-noise`, judged by the harness' float stream).  For a CRS-less
parent the code takes the window's (CRS-less) footprint for *pixel* coordinates, hence
`g.crs ≠ 0`. -/
theorem crop_window_of_self (g : GeoBox) (hdet : g.A.det ≠ 0) (hcrs : g.crs ≠ 0)
    (x0 x1 y0 y1 : Int) (hx : 0 ≤ x0 ∧ x0 < x1 ∧ x1 ≤ g.nx) (hy : 0 ≤ y0 ∧ y0 < y1 ∧ y1 ≤ g.ny) :
    cropGeoBox g (crop g (.two (.slc (some y0) (some y1)) (.slc (some x0) (some x1))))
      = .ok (crop g (.two (.slc (some y0) (some y1)) (.slc (some x0) (some x1)))) := by
  have wr : ∀ (n a : Int), 0 ≤ a → wrapNeg n a = a := by intro n a ha; simp [wrapNeg, ha]
  have hw : crop g (.two (.slc (some y0) (some y1)) (.slc (some x0) (some x1)))
      = ⟨y1 - y0, x1 - x0, g.A * Aff.translation (x0 : Rat) (y0 : Rat), g.crs⟩ := by
    simp only [crop, normSlice]
    rw [wr _ _ hx.1, wr _ _ hy.1, wr _ x1 (by omega), wr _ y1 (by omega)]
  rw [hw]
  have hc : ((g.crs == 0) = false) := by simp [hcrs]
  have hap : ∀ c : Pt, g.A.inv.apply ((g.A * Aff.translation (x0 : Rat) (y0 : Rat)).apply c)
      = (c.1 + x0, c.2 + y0) := by
    intro c
    rw [Aff.apply_mul, Aff.inv_apply_apply g.A hdet, Aff.apply_translation]
  simp only [cropGeoBox, cropRegion, hc, Aff.inv?, hdet, if_false, bind, Except.bind, extent, corners,
    List.map_cons, List.map_nil, List.cons_append, List.nil_append, hap, Bool.false_eq_true]
  simp only [cropRegionPix, List.map_cons, List.map_nil, C17.minL, C17.maxL, List.foldl_cons, List.foldl_nil,
    zero_add]
  have ex : (0 : Rat) ≤ ((x1 - x0 : Int) : Rat) := by exact_mod_cast (by omega : (0 : Int) ≤ x1 - x0)
  have ey : (0 : Rat) ≤ ((y1 - y0 : Int) : Rat) := by exact_mod_cast (by omega : (0 : Int) ≤ y1 - y0)
  have hbx : (x0 : Rat) ≤ ((x1 - x0 : Int) : Rat) + x0 := by linarith
  have hby : (y0 : Rat) ≤ ((y1 - y0 : Int) : Rat) + y0 := by linarith
  simp only [min_self, max_self, min_eq_left hbx, max_eq_left hbx, max_eq_right hbx,
    min_eq_left hby, max_eq_left hby, max_eq_right hby]
  have bx : ((x1 - x0 : Int) : Rat) + x0 = ((x1 : Int) : Rat) := by push_cast; ring
  have by' : ((y1 - y0 : Int) : Rat) + y0 = ((y1 : Int) : Rat) := by push_cast; ring
  rw [bx, by', floor_intCast', floor_intCast', ceil_intCast', ceil_intCast']
  have e1 : max x0 0 = x0 := max_eq_left hx.1
  have e2 : max y0 0 = y0 := max_eq_left hy.1
  have e3 : min x1 g.nx = x1 := min_eq_left hx.2.2
  have e4 : min y1 g.ny = y1 := min_eq_left hy.2.2
  have e5 : max 1 (x1 - x0) = x1 - x0 := max_eq_right (by omega)
  have e6 : max 1 (y1 - y0) = y1 - y0 := max_eq_right (by omega)
  rw [e1, e2, e3, e4, e5, e6]
  have e7 : x0 + (x1 - x0) = x1 := by omega
  have e8 : y0 + (y1 - y0) = y1 := by omega
  rw [e7, e8, hw]

theorem pad_pixel (g : GeoBox) (padx : Int) (pady : Option Int) (p : Pt) :
    pix2wld (pad g padx pady) p = pix2wld g (p.1 - padx, p.2 - ((pady.getD padx : Int) : Rat)) ∧
    (pad g padx pady).ny = g.ny + 2 * pady.getD padx ∧ (pad g padx pady).nx = g.nx + 2 * padx ∧
    (pad g padx pady).crs = g.crs := by
  cases pady <;>
    simp [pad, pix2wld, Aff.apply_mul, Aff.apply_translation, sub_eq_add_neg] <;> omega

/-- `pad` covers the original: the parent is the view's `[pad : pad+n]` crop. -/
theorem pad_covers (g : GeoBox) (padx pady : Int) (hx : 0 ≤ padx) (hy : 0 ≤ pady)
    (hny : 0 ≤ g.ny) (hnx : 0 ≤ g.nx) :
    crop (pad g padx (some pady))
        (.two (.slc (some pady) (some (pady + g.ny))) (.slc (some padx) (some (padx + g.nx)))) = g := by
  obtain ⟨ny, nx, A, crs⟩ := g
  simp only at hny hnx
  have h1 : wrapNeg (ny + pady * 2) pady = pady := by simp [wrapNeg, hy]
  have h2 : wrapNeg (ny + pady * 2) (pady + ny) = pady + ny := by simp [wrapNeg]; omega
  have h3 : wrapNeg (nx + padx * 2) padx = padx := by simp [wrapNeg, hx]
  have h4 : wrapNeg (nx + padx * 2) (padx + nx) = padx + nx := by simp [wrapNeg]; omega
  simp only [crop, pad, normSlice, h1, h2, h3, h4]
  congr 1
  · omega
  · omega
  · rw [Aff.mul_assoc']
    have : Aff.translation (-(padx : Rat)) (-(pady : Rat)) * Aff.translation (padx : Rat) (pady : Rat) = Aff.id := by
      simp only [Aff.mul_def, Aff.mul, Aff.translation, Aff.id]; ext <;> simp
    rw [this, Aff.mul_id]

/-- `pad_wh`: same affine and crs (so pixel `(i,j)` stays where it was), each side is the
least multiple of the alignment that is not smaller (for positive alignments). -/
theorem pad_wh_contract (g : GeoBox) (ax : Int) (ay : Option Int) (g' : GeoBox)
    (h : padWh g ax ay = .ok g') :
    g'.A = g.A ∧ g'.crs = g.crs ∧
    (0 < ax → g.nx ≤ g'.nx ∧ g'.nx < g.nx + ax ∧ g'.nx % ax = 0) ∧
    (0 < ay.getD ax → g.ny ≤ g'.ny ∧ g'.ny < g.ny + ay.getD ax ∧ g'.ny % ay.getD ax = 0) := by
  have key : ∀ (x a r : Int), alignUp x a = .ok r → 0 < a → x ≤ r ∧ r < x + a ∧ r % a = 0 := by
    intro x a r hr ha
    have ha0 : a ≠ 0 := by omega
    simp [alignUp, pyMod, ha0, bind, Except.bind, pure, Except.pure] at hr
    subst hr
    have hf : Int.fmod (x + (a - 1)) a = (x + (a - 1)) % a := Int.fmod_eq_emod_of_nonneg _ (by omega)
    rw [hf]
    have h1 := Int.emod_nonneg (x + (a - 1)) ha0
    have h2 := Int.emod_lt_of_pos (x + (a - 1)) ha
    refine ⟨by omega, by omega, ?_⟩
    have : x + (a - 1) - (x + (a - 1)) % a = a * ((x + (a - 1)) / a) := by
      have := Int.emod_add_mul_ediv (x + (a - 1)) a; omega
    rw [this]; simp
  have split : ∀ (ayv : Int), (do
        let ny ← alignUp g.ny ayv
        let nx ← alignUp g.nx ax
        pure (⟨ny, nx, g.A, g.crs⟩ : GeoBox)) = (Except.ok g' : Res GeoBox) →
      ∃ ny' nx', alignUp g.ny ayv = .ok ny' ∧ alignUp g.nx ax = .ok nx' ∧ g' = ⟨ny', nx', g.A, g.crs⟩ := by
    intro ayv hh
    cases hy : alignUp g.ny ayv with
    | error e => simp [hy, bind, Except.bind] at hh
    | ok ny' =>
      cases hx : alignUp g.nx ax with
      | error e => simp [hy, hx, bind, Except.bind] at hh
      | ok nx' =>
        simp [hy, hx, bind, Except.bind, pure, Except.pure] at hh
        exact ⟨ny', nx', rfl, rfl, hh.symm⟩
  cases ay with
  | none =>
    obtain ⟨ny', nx', hy, hx, rfl⟩ := split ax (by simpa [padWh] using h)
    exact ⟨rfl, rfl, fun hax => key _ _ _ hx hax, fun hay => key _ _ _ hy hay⟩
  | some v =>
    obtain ⟨ny', nx', hy, hx, rfl⟩ := split v (by simpa [padWh] using h)
    exact ⟨rfl, rfl, fun hax => key _ _ _ hx hax, fun hay => key _ _ _ hy hay⟩

/-- `pad_wh` raises `ZeroDivisionError` exactly for a zero alignment. -/
theorem pad_wh_error_iff (g : GeoBox) (ax : Int) (ay : Option Int) :
    padWh g ax ay = .error .zeroDiv ↔ (ax = 0 ∨ ay.getD ax = 0) := by
  have hal : ∀ x a : Int, alignUp x a =
      if a = 0 then .error .zeroDiv else .ok (x + (a - 1) - Int.fmod (x + (a - 1)) a) := by
    intro x a
    by_cases ha : a = 0 <;> simp [alignUp, pyMod, ha, bind, Except.bind, pure, Except.pure]
  cases ay with
  | none =>
    by_cases hx : ax = 0 <;> simp [padWh, hal, hx, bind, Except.bind, pure, Except.pure]
  | some v =>
    by_cases hx : ax = 0 <;> by_cases hv : v = 0 <;>
      simp [padWh, hal, hx, hv, bind, Except.bind, pure, Except.pure]

theorem resize_contract (g : GeoBox) (ny nx : Int) (p : Pt) :
    pix2wld (resize g ny nx) p = pix2wld g p ∧ (resize g ny nx).ny = ny ∧
    (resize g ny nx).nx = nx ∧ (resize g ny nx).crs = g.crs := by
  simp [resize, pix2wld]

theorem translate_pixel (g : GeoBox) (tx ty : Rat) (p : Pt) :
    pix2wld (translatePix g tx ty) p = pix2wld g (p.1 + tx, p.2 + ty) ∧
    (translatePix g tx ty).ny = g.ny ∧ (translatePix g tx ty).nx = g.nx ∧
    (translatePix g tx ty).crs = g.crs := by
  simp [translatePix, mulPix, pix2wld, Aff.apply_mul, Aff.apply_translation]

/-- Neighbours abut: pixel `(i,j)` of `left g` is pixel `(i - nx, j)` of `g` etc., so e.g.
the right edge `x = nx` of `left g` is the left edge `x = 0` of `g`, same shape, same crs. -/
theorem neighbours_abut (g : GeoBox) (p : Pt) :
    pix2wld (left g) p = pix2wld g (p.1 - g.nx, p.2) ∧
    pix2wld (right g) p = pix2wld g (p.1 + g.nx, p.2) ∧
    pix2wld (top g) p = pix2wld g (p.1, p.2 - g.ny) ∧
    pix2wld (bottom g) p = pix2wld g (p.1, p.2 + g.ny) ∧
    (∀ y : Rat, pix2wld (left g) (g.nx, y) = pix2wld g (0, y)) ∧
    (∀ y : Rat, pix2wld (right g) (0, y) = pix2wld g (g.nx, y)) ∧
    (∀ x : Rat, pix2wld (top g) (x, g.ny) = pix2wld g (x, 0)) ∧
    (∀ x : Rat, pix2wld (bottom g) (x, 0) = pix2wld g (x, g.ny)) := by
  simp [left, right, top, bottom, translatePix, mulPix, pix2wld, Aff.apply_mul,
    Aff.apply_translation, sub_eq_add_neg]

theorem neighbours_shape_crs (g : GeoBox) :
    ∀ h ∈ [left g, right g, top g, bottom g], h.ny = g.ny ∧ h.nx = g.nx ∧ h.crs = g.crs := by
  simp [left, right, top, bottom, translatePix, mulPix]

/-- `flipx`: pixel `(i,j)` of the view is pixel `(nx − i, j)` of the parent. -/
theorem flipx_pixel (g : GeoBox) (p : Pt) :
    pix2wld (flipx g) p = pix2wld g ((g.nx : Rat) - p.1, p.2) ∧
    (flipx g).ny = g.ny ∧ (flipx g).nx = g.nx ∧ (flipx g).crs = g.crs := by
  simp [flipx, mulPix, pix2wld, Aff.apply_mul, Aff.apply_translation, Aff.apply_scale]
  ring_nf

theorem flipy_pixel (g : GeoBox) (p : Pt) :
    pix2wld (flipy g) p = pix2wld g (p.1, (g.ny : Rat) - p.2) ∧
    (flipy g).ny = g.ny ∧ (flipy g).nx = g.nx ∧ (flipy g).crs = g.crs := by
  simp [flipy, mulPix, pix2wld, Aff.apply_mul, Aff.apply_translation, Aff.apply_scale]
  ring_nf

/-- Flips keep the footprint: the corner images are the same four points (in mirrored
order) and the bounding box is unchanged. -/
theorem flip_same_footprint (g : GeoBox) :
    (corners (flipx g)).map (pix2wld (flipx g)) = ((corners g).map (pix2wld g)).reverse ∧
    boundingbox (flipx g) = boundingbox g ∧ boundingbox (flipy g) = boundingbox g := by
  refine ⟨?_, ?_, ?_⟩
  · simp [corners, flipx, mulPix, pix2wld, Aff.apply_mul, Aff.apply_translation, Aff.apply_scale]
  · have e : ∀ q : Pt, (flipx g).A.apply q = g.A.apply ((g.nx : Rat) - q.1, q.2) := by
      intro q; have := (flipx_pixel g q).1; simpa [pix2wld] using this
    simp only [boundingbox, e, (flipx_pixel g (0, 0)).2.1, (flipx_pixel g (0, 0)).2.2.1]
    simp only [sub_zero, sub_self]
    rw [BBox.mk.injEq]
    exact ⟨min4_perm_rev _ _ _ _, min4_perm_rev _ _ _ _, max4_perm_rev _ _ _ _, max4_perm_rev _ _ _ _⟩
  · have e : ∀ q : Pt, (flipy g).A.apply q = g.A.apply (q.1, (g.ny : Rat) - q.2) := by
      intro q; have := (flipy_pixel g q).1; simpa [pix2wld] using this
    simp only [boundingbox, e, (flipy_pixel g (0, 0)).2.1, (flipy_pixel g (0, 0)).2.2.1]
    simp only [sub_zero, sub_self]
    rw [BBox.mk.injEq]
    exact ⟨min4_perm_swap _ _ _ _, min4_perm_swap _ _ _ _, max4_perm_swap _ _ _ _, max4_perm_swap _ _ _ _⟩

/-! ### rotation about the centre -/

/-- `rotate`: world-side rotation matrix about `c0 = pix2wld (nx/2, ny/2)`. -/
theorem rotate_pixel (g : GeoBox) (c s : Rat) (p : Pt) :
    pix2wld (rotate g c s) p
      = (rotationAbout c s (pix2wld g ((g.nx : Rat) * (1 / 2), (g.ny : Rat) * (1 / 2)))).apply (pix2wld g p) ∧
    (rotate g c s).ny = g.ny ∧ (rotate g c s).nx = g.nx ∧ (rotate g c s).crs = g.crs := by
  simp [rotate, mulWld, pix2wld, Aff.apply_mul]

/-- The centre of the footprint stays where it is (any `c`, `s`). -/
theorem rotate_fixes_centre (g : GeoBox) (c s : Rat) :
    pix2wld (rotate g c s) ((g.nx : Rat) / 2, (g.ny : Rat) / 2)
      = pix2wld g ((g.nx : Rat) / 2, (g.ny : Rat) / 2) := by
  simp only [rotate, mulWld, pix2wld, Aff.apply_mul]
  simp only [rotationAbout, Aff.apply]
  refine Prod.ext ?_ ?_ <;> dsimp only <;> ring

/-- With `c² + s² = 1` the view is the parent rotated counter-clockwise by the angle
`(cos, sin) = (c, s)` about the centre: displacement vectors from the centre are rotated,
distances to the centre and the pixel area (determinant) are preserved. -/
theorem rotate_is_rotation (g : GeoBox) (c s : Rat) (hcs : c * c + s * s = 1) (p : Pt) :
    let c0 := pix2wld g ((g.nx : Rat) / 2, (g.ny : Rat) / 2)
    let w := pix2wld g p
    let w' := pix2wld (rotate g c s) p
    w'.1 - c0.1 = c * (w.1 - c0.1) - s * (w.2 - c0.2) ∧
    w'.2 - c0.2 = s * (w.1 - c0.1) + c * (w.2 - c0.2) ∧
    (w'.1 - c0.1) ^ 2 + (w'.2 - c0.2) ^ 2 = (w.1 - c0.1) ^ 2 + (w.2 - c0.2) ^ 2 ∧
    (rotate g c s).A.det = g.A.det := by
  have e1 : ∀ q : Pt, (pix2wld (rotate g c s) q).1 - (pix2wld g ((g.nx : Rat) / 2, (g.ny : Rat) / 2)).1
      = c * ((pix2wld g q).1 - (pix2wld g ((g.nx : Rat) / 2, (g.ny : Rat) / 2)).1)
        - s * ((pix2wld g q).2 - (pix2wld g ((g.nx : Rat) / 2, (g.ny : Rat) / 2)).2) := by
    intro q
    simp only [rotate, mulWld, pix2wld, Aff.apply_mul]
    simp only [rotationAbout, Aff.apply]
    ring
  have e2 : ∀ q : Pt, (pix2wld (rotate g c s) q).2 - (pix2wld g ((g.nx : Rat) / 2, (g.ny : Rat) / 2)).2
      = s * ((pix2wld g q).1 - (pix2wld g ((g.nx : Rat) / 2, (g.ny : Rat) / 2)).1)
        + c * ((pix2wld g q).2 - (pix2wld g ((g.nx : Rat) / 2, (g.ny : Rat) / 2)).2) := by
    intro q
    simp only [rotate, mulWld, pix2wld, Aff.apply_mul]
    simp only [rotationAbout, Aff.apply]
    ring
  refine ⟨e1 p, e2 p, ?_, ?_⟩
  · show _ = _
    rw [e1 p, e2 p]
    linear_combination
      (((pix2wld g p).1 - (pix2wld g ((g.nx : Rat) / 2, (g.ny : Rat) / 2)).1) ^ 2
        + ((pix2wld g p).2 - (pix2wld g ((g.nx : Rat) / 2, (g.ny : Rat) / 2)).2) ^ 2) * hcs
  · simp only [rotate, mulWld, Aff.det_mul]
    simp only [rotationAbout, Aff.det]
    linear_combination (g.A.a * g.A.e - g.A.b * g.A.d) * hcs
/-- hypotheses satisfiable: the 3-4-5 rotation -/
example : ((3 : Rat) / 5) * (3 / 5) + (4 / 5) * (4 / 5) = 1 := by norm_num

/-! ### centre pixel -/

theorem center_pixel_contract (g : GeoBox) (hny : 0 ≤ g.ny) (hnx : 0 ≤ g.nx) (p : Pt) :
    (centerPixel g).ny = 1 ∧ (centerPixel g).nx = 1 ∧ (centerPixel g).crs = g.crs ∧
    pix2wld (centerPixel g) p = pix2wld g (p.1 + ((g.nx / 2 : Int) : Rat), p.2 + ((g.ny / 2 : Int) : Rat)) := by
  have h1 : ¬ g.ny / 2 < 0 := by omega
  have h2 : ¬ g.nx / 2 < 0 := by omega
  simp [centerPixel, crop, normSlice, h1, h2, pix2wld, Aff.apply_mul, Aff.apply_translation]

/-- The centre pixel contains the centre of the footprint: the (rational) centre
`(nx/2, ny/2)` is the point `(u, v)` of the one-pixel view with `0 ≤ u, v < 1`. -/
theorem center_pixel_contains_centre (g : GeoBox) (hny : 0 ≤ g.ny) (hnx : 0 ≤ g.nx) :
    ∃ u v : Rat, 0 ≤ u ∧ u < 1 ∧ 0 ≤ v ∧ v < 1 ∧
      pix2wld (centerPixel g) (u, v) = pix2wld g ((g.nx : Rat) / 2, (g.ny : Rat) / 2) := by
  have frac : ∀ n : Int, 0 ≤ n → 0 ≤ (n : Rat) / 2 - ((n / 2 : Int) : Rat) ∧
      (n : Rat) / 2 - ((n / 2 : Int) : Rat) < 1 := by
    intro n _
    have h := Int.emod_add_mul_ediv n 2
    have h0 := Int.emod_nonneg n (by decide : (2 : Int) ≠ 0)
    have h1 := Int.emod_lt_of_pos n (by decide : (0 : Int) < 2)
    have hc : (n : Rat) = ((n % 2 : Int) : Rat) + 2 * ((n / 2 : Int) : Rat) := by exact_mod_cast h.symm
    have h0' : (0 : Rat) ≤ ((n % 2 : Int) : Rat) := by exact_mod_cast h0
    have h1' : ((n % 2 : Int) : Rat) < 2 := by exact_mod_cast h1
    constructor <;> linarith
  refine ⟨(g.nx : Rat) / 2 - ((g.nx / 2 : Int) : Rat), (g.ny : Rat) / 2 - ((g.ny / 2 : Int) : Rat),
    (frac _ hnx).1, (frac _ hnx).2, (frac _ hny).1, (frac _ hny).2, ?_⟩
  rw [(center_pixel_contract g hny hnx _).2.2.2]
  congr 1; ext <;> simp

/-! ### zooming -/

theorem zoom_out_error_iff (g : GeoBox) (f : Rat) : zoomOut g f = .error .zeroDiv ↔ f = 0 := by
  by_cases h : f = 0 <;> simp [zoomOut, h]

/-- `zoom_out(f)`: pixel `(i,j)` of the view is at pixel `(f·i, f·j)` of the parent; each
side is `max(1, ⌈N/f⌉)`. -/
theorem zoom_out_pixel (g g' : GeoBox) (f : Rat) (h : zoomOut g f = .ok g') (p : Pt) :
    pix2wld g' p = pix2wld g (f * p.1, f * p.2) ∧ g'.crs = g.crs ∧
    g'.ny = max 1 ((g.ny : Rat) / f).ceil ∧ g'.nx = max 1 ((g.nx : Rat) / f).ceil := by
  by_cases hf : f = 0
  · simp [zoomOut, hf] at h
  · simp [zoomOut, hf] at h
    subst h
    simp [pix2wld, Aff.apply_mul, Aff.apply_scale, ceil1]

/-- `zoom_out` covers the original: in parent pixels the view spans `N'·f ≥ N` on each
axis, and it is tight (`N'·f < N + f`) unless the `max(1, ·)` floor of one pixel engaged. -/
theorem zoom_out_covers (g g' : GeoBox) (f : Rat) (hf : 0 < f) (h : zoomOut g f = .ok g') :
    (g.ny : Rat) ≤ (g'.ny : Rat) * f ∧ (g.nx : Rat) ≤ (g'.nx : Rat) * f ∧
    (1 ≤ ((g.ny : Rat) / f).ceil → (g'.ny : Rat) * f < g.ny + f) ∧
    (1 ≤ ((g.nx : Rat) / f).ceil → (g'.nx : Rat) * f < g.nx + f) := by
  obtain ⟨-, -, hy, hx⟩ := zoom_out_pixel g g' f h (0, 0)
  have cov : ∀ (N : Int) (N' : Int), N' = max 1 ((N : Rat) / f).ceil → (N : Rat) ≤ (N' : Rat) * f := by
    intro N N' hN
    have h1 := le_ceil_div_mul (N : Rat) f hf
    have h2 : (((N : Rat) / f).ceil : Rat) ≤ (N' : Rat) := by
      rw [hN]; exact_mod_cast le_max_right _ _
    calc (N : Rat) ≤ (((N : Rat) / f).ceil : Rat) * f := h1
      _ ≤ (N' : Rat) * f := mul_le_mul_of_nonneg_right h2 (le_of_lt hf)
  have tight : ∀ (N : Int) (N' : Int), N' = max 1 ((N : Rat) / f).ceil → 1 ≤ ((N : Rat) / f).ceil →
      (N' : Rat) * f < N + f := by
    intro N N' hN h1
    rw [hN, max_eq_right h1]
    exact ceil_div_mul_lt (N : Rat) f hf
  exact ⟨cov _ _ hy, cov _ _ hx, tight _ _ hy, tight _ _ hx⟩

/-- `zoom_to(shape)`: requested shape, same crs, and the **same footprint**: the point at
relative position `(u, v)` of the new pixel rectangle is the point at relative position
`(u, v)` of the old one (corners: `u, v ∈ {0,1}`). -/
theorem zoom_to_shape_same_footprint (g g' : GeoBox) (ny nx : Int)
    (h : zoomToShape g ny nx = .ok g') (u v : Rat) :
    g'.ny = ny ∧ g'.nx = nx ∧ g'.crs = g.crs ∧
    pix2wld g' (u * nx, v * ny) = pix2wld g (u * g.nx, v * g.ny) := by
  by_cases h0 : ny = 0 ∨ nx = 0
  · simp [zoomToShape, h0] at h
  · simp [zoomToShape, h0] at h
    subst h
    rw [not_or] at h0
    have hy : (ny : Rat) ≠ 0 := by exact_mod_cast h0.1
    have hx : (nx : Rat) ≠ 0 := by exact_mod_cast h0.2
    refine ⟨rfl, rfl, rfl, ?_⟩
    simp only [pix2wld, Aff.apply_mul, Aff.apply_scale]
    congr 1; ext <;> simp <;> field_simp

theorem zoom_to_shape_error_iff (g : GeoBox) (ny nx : Int) :
    zoomToShape g ny nx = .error .zeroDiv ↔ (ny = 0 ∨ nx = 0) := by
  by_cases h : ny = 0 ∨ nx = 0 <;> simp [zoomToShape, h]

/-- `zoom_to(n)`: **the longest side is exactly `n`** (every shape with a positive longest
side, every `n ≥ 1`), the other side is `max(1, ⌈s·n/nmax⌉)`, pixel `(i,j)` of the view is
at `(nmax/n)·(i,j)` of the parent.  True in exact arithmetic; the pre-fix code computed
`⌈N / (N/n)⌉` in doubles and returned `n+1` for ≈4 % of `(N, n)` (finding F13): that lives
in IEEE rounding and is judged by the harness' float stream. -/
theorem zoom_to_int_longest (g : GeoBox) (n : Int) (hn : 1 ≤ n) (hny : 0 ≤ g.ny) (hnx : 0 ≤ g.nx)
    (hmax : 1 ≤ max g.ny g.nx) :
    ∃ g', zoomToNum g n = .ok g' ∧ max g'.ny g'.nx = n ∧ g'.crs = g.crs ∧
      ∀ p : Pt, pix2wld g' p
        = pix2wld g (((max g.ny g.nx : Int) : Rat) / n * p.1, ((max g.ny g.nx : Int) : Rat) / n * p.2) := by
  have hn0 : (n : Rat) ≠ 0 := by exact_mod_cast (by omega : n ≠ 0)
  have hm0 : max g.ny g.nx ≠ 0 := by omega
  have hmpos : (0 : Rat) < ((max g.ny g.nx : Int) : Rat) := by exact_mod_cast (by omega : 0 < max g.ny g.nx)
  have hnpos : (0 : Rat) < (n : Rat) := by exact_mod_cast (by omega : 0 < n)
  have hz : zoomToNum g n = .ok
      ⟨ceil1 ((g.ny : Rat) * n / ((max g.ny g.nx : Int) : Rat)),
       ceil1 ((g.nx : Rat) * n / ((max g.ny g.nx : Int) : Rat)),
       g.A * Aff.scale (((max g.ny g.nx : Int) : Rat) / n) (((max g.ny g.nx : Int) : Rat) / n), g.crs⟩ := by
    simp only [zoomToNum, hn0, hm0, ↓reduceIte]
  refine ⟨_, hz, ?_, rfl, ?_⟩
  · -- side law
    have side_le : ∀ s : Int, 0 ≤ s → s ≤ max g.ny g.nx →
        ceil1 ((s : Rat) * n / ((max g.ny g.nx : Int) : Rat)) ≤ n := by
      intro s _ hs
      unfold ceil1
      apply max_le hn
      rw [Rat.ceil_le_iff]
      rw [div_le_iff₀ hmpos]
      have : (s : Rat) ≤ ((max g.ny g.nx : Int) : Rat) := by exact_mod_cast hs
      nlinarith
    have side_eq : ceil1 (((max g.ny g.nx : Int) : Rat) * n / ((max g.ny g.nx : Int) : Rat)) = n := by
      have e : ((max g.ny g.nx : Int) : Rat) * n / ((max g.ny g.nx : Int) : Rat) = (n : Rat) := by
        field_simp
      rw [e]; unfold ceil1
      have : ((n : Rat)).ceil = n := by
        apply le_antisymm
        · rw [Rat.ceil_le_iff]
        · have := @Rat.le_ceil (n : Rat); exact_mod_cast this
      rw [this]; omega
    show max (ceil1 _) (ceil1 _) = n
    rcases le_total g.ny g.nx with hle | hle
    · have hm : max g.ny g.nx = g.nx := max_eq_right hle
      have h1 := side_le g.ny hny (by omega)
      have h2 := side_eq
      rw [hm] at h1 h2 ⊢
      omega
    · have hm : max g.ny g.nx = g.ny := max_eq_left hle
      have h1 := side_le g.nx hnx (by omega)
      have h2 := side_eq
      rw [hm] at h1 h2 ⊢
      omega
  · intro p
    simp only [pix2wld, Aff.apply_mul, Aff.apply_scale]

/-- The repair of F13 is a pure refactoring in exact arithmetic: `s / (nmax / n)` (old) and
`s · n / nmax` (new) are the same rational, hence the same `max(1, ⌈·⌉)`. -/
theorem zoom_to_int_fix_is_exact_refactor (s nmax : Int) (n : Rat) (hn : n ≠ 0) (hm : nmax ≠ 0) :
    ceil1 ((s : Rat) / ((nmax : Rat) / n)) = ceil1 ((s : Rat) * n / (nmax : Rat)) := by
  have hm' : (nmax : Rat) ≠ 0 := by exact_mod_cast hm
  congr 1; field_simp

theorem zoom_to_num_error_iff (g : GeoBox) (n : Rat) :
    zoomToNum g n = .error .zeroDiv ↔ (n = 0 ∨ max g.ny g.nx = 0) := by
  by_cases h1 : n = 0 <;> by_cases h2 : max g.ny g.nx = 0 <;> simp [zoomToNum, h1, h2]

/-! ### integer down-scaling -/

/-- `scaled_down_geobox(g, k)`: defined exactly for `k > 1`; pixel `(i,j)` of the view is at
`(k·i, k·j)` of the parent; every side is `⌈N/k⌉`, i.e. the view covers the parent
(`N ≤ N'·k`) with less than one coarse pixel of padding (`N'·k < N + k`). -/
theorem scaled_down_covers (g g' : GeoBox) (k : Int) (h : scaledDown g k = .ok g') (p : Pt) :
    1 < k ∧ pix2wld g' p = pix2wld g ((k : Rat) * p.1, (k : Rat) * p.2) ∧ g'.crs = g.crs ∧
    g.ny ≤ g'.ny * k ∧ g'.ny * k < g.ny + k ∧ g.nx ≤ g'.nx * k ∧ g'.nx * k < g.nx + k := by
  by_cases hk : k > 1
  · simp [scaledDown, hk] at h
    subst h
    have side : ∀ X : Int, X ≤ (X / k + if X % k = 0 then 0 else 1) * k ∧
        (X / k + if X % k = 0 then 0 else 1) * k < X + k := by
      intro X
      have h1 := Int.emod_add_mul_ediv X k
      have h2 := Int.emod_nonneg X (by omega : k ≠ 0)
      have h3 := Int.emod_lt_of_pos X (by omega : 0 < k)
      have h4 : X / k * k = k * (X / k) := Int.mul_comm _ _
      by_cases h0 : X % k = 0
      · simp only [h0, if_true, add_zero]; omega
      · simp only [h0, if_false, Int.add_mul, Int.one_mul]; omega
    refine ⟨by omega, ?_, rfl, (side g.ny).1, (side g.ny).2, (side g.nx).1, (side g.nx).2⟩
    simp only [pix2wld, Aff.apply_mul, Aff.apply_scale]
  · simp [scaledDown, hk] at h

theorem scaled_down_error_iff (g : GeoBox) (k : Int) :
    scaledDown g k = .error .assertion ↔ k ≤ 1 := by
  by_cases hk : k > 1
  · simp [scaledDown, hk]
  · simp [scaledDown, hk]; omega

/-! ### buffered -/

/-- `_round_to_res(value, res)` is the least integer `b` with `b·|res| ≥ value − 0.1·|res|`
(`0.1` = the double, `tenth`). -/
theorem round_to_res_spec (value res : Rat) (b : Int) (h : roundToRes value res = .ok b) :
    res ≠ 0 ∧ value - tenth * |res| ≤ (b : Rat) * |res| ∧ ((b : Rat) - 1) * |res| < value - tenth * |res| := by
  unfold roundToRes at h
  rw [rabs_eq_abs] at h
  by_cases h0 : |res| = 0
  · simp [h0] at h
  · simp [h0] at h
    have hpos : 0 < |res| := lt_of_le_of_ne (abs_nonneg _) (Ne.symm h0)
    subst h
    refine ⟨by intro hr; exact h0 (by simp [hr]), ?_, ?_⟩
    · have := le_ceil_div_mul (value - tenth * |res|) |res| hpos
      exact this
    · have := ceil_div_mul_lt (value - tenth * |res|) |res| hpos
      have e : ((((value - tenth * |res|) / |res|).ceil : Rat) - 1) * |res|
          = (((value - tenth * |res|) / |res|).ceil : Rat) * |res| - |res| := by ring
      rw [e]; linarith

/-- `buffered(xbuff, ybuff)`: the view is the parent padded by `bx`, `by` whole pixels on
every side — pixel `(i,j)` of the view is pixel `(i − bx, j − by)` of the parent, shape
`(ny + 2by, nx + 2bx)`, same crs — and on each axis the pad is the least number of pixels
that leaves at most 0.1 pixel of the requested buffer uncovered:
`buffer − 0.1·|res| ≤ b·|res| < buffer + 0.9·|res|`. -/
theorem buffered_covers (g g' : GeoBox) (n m xb : Rat) (yb : Option Rat)
    (h : buffered g n m xb yb = .ok g') :
    ∃ (rx ry : Rat) (bx by_ : Int), resolution g n m = .ok (rx, ry) ∧
      g'.ny = g.ny + 2 * by_ ∧ g'.nx = g.nx + 2 * bx ∧ g'.crs = g.crs ∧
      (∀ p : Pt, pix2wld g' p = pix2wld g (p.1 - bx, p.2 - by_)) ∧
      xb - tenth * |rx| ≤ (bx : Rat) * |rx| ∧ ((bx : Rat) - 1) * |rx| < xb - tenth * |rx| ∧
      yb.getD xb - tenth * |ry| ≤ (by_ : Rat) * |ry| ∧
      ((by_ : Rat) - 1) * |ry| < yb.getD xb - tenth * |ry| := by
  have aux : ∀ ybv : Rat, bufferedCore g n m xb ybv = .ok g' →
      ∃ (rx ry : Rat) (bx by_ : Int), resolution g n m = .ok (rx, ry) ∧
        g'.ny = g.ny + 2 * by_ ∧ g'.nx = g.nx + 2 * bx ∧ g'.crs = g.crs ∧
        (∀ p : Pt, pix2wld g' p = pix2wld g (p.1 - bx, p.2 - by_)) ∧
        xb - tenth * |rx| ≤ (bx : Rat) * |rx| ∧ ((bx : Rat) - 1) * |rx| < xb - tenth * |rx| ∧
        ybv - tenth * |ry| ≤ (by_ : Rat) * |ry| ∧ ((by_ : Rat) - 1) * |ry| < ybv - tenth * |ry| := by
    intro ybv h
    unfold bufferedCore at h
    cases hr : resolution g n m with
    | error e => simp [hr, bind, Except.bind] at h
    | ok r =>
      obtain ⟨rx, ry⟩ := r
      cases hy : roundToRes ybv ry with
      | error e => simp [hr, hy, bind, Except.bind] at h
      | ok by_ =>
        cases hx : roundToRes xb rx with
        | error e => simp [hr, hy, hx, bind, Except.bind] at h
        | ok bx =>
          simp [hr, hy, hx, bind, Except.bind, pure, Except.pure] at h
          subst h
          have sx := round_to_res_spec _ _ _ hx
          have sy := round_to_res_spec _ _ _ hy
          refine ⟨rx, ry, bx, by_, rfl, rfl, rfl, rfl, ?_, sx.2.1, sx.2.2, sy.2.1, sy.2.2⟩
          intro p
          simp [pix2wld, Aff.apply_mul, Aff.apply_translation, sub_eq_add_neg]
  cases yb with
  | none => exact aux xb h
  | some v => exact aux v h

/-! ### zoom to a resolution -/

/-- One axis of the tight grid snap: the `n ≥ 1` cells of signed size `res` starting at the
returned offset reach from the near end of `[x0, x1]` to within `tol` cells of its far end
(and beyond). -/
theorem snap_grid_tight_covers (x0 x1 res tol off : Rat) (n : Int) (htol : 0 ≤ tol)
    (h : snapGridTight x0 x1 res tol = .ok (off, n)) :
    1 ≤ n ∧ res ≠ 0 ∧
    (0 < res → off = x0 ∧ x1 - tol * res ≤ off + (n : Rat) * res) ∧
    (res < 0 → off = x1 ∧ off + (n : Rat) * res ≤ x0 + tol * (-res)) := by
  have snap_ge : ∀ q : Rat, q - tol ≤ ((snapCeil q tol : Int) : Rat) := by
    intro q
    unfold snapCeil
    split
    · linarith
    · have : q ≤ ((q.ceil : Int) : Rat) := Rat.le_ceil
      linarith
  unfold snapGridTight at h
  by_cases hp : res > 0
  · simp [hp] at h
    obtain ⟨rfl, rfl⟩ := h
    refine ⟨le_max_left _ _, ne_of_gt hp, fun _ => ⟨rfl, ?_⟩, fun hneg => absurd hp (not_lt.mpr (le_of_lt hneg))⟩
    have h1 := snap_ge ((x1 - x0) / res)
    have h2 : (((snapCeil ((x1 - x0) / res) tol : Int)) : Rat) ≤ ((max 1 (snapCeil ((x1 - x0) / res) tol) : Int) : Rat) := by
      exact_mod_cast le_max_right _ _
    have h3 : ((x1 - x0) / res - tol) * res ≤ ((max 1 (snapCeil ((x1 - x0) / res) tol) : Int) : Rat) * res :=
      mul_le_mul_of_nonneg_right (le_trans h1 h2) (le_of_lt hp)
    have e : (x1 - x0) / res * res = x1 - x0 := by field_simp
    have : ((x1 - x0) / res - tol) * res = x1 - x0 - tol * res := by rw [sub_mul, e]
    linarith
  · by_cases hz : res = 0
    · simp [hz] at h
    · have hneg : res < 0 := lt_of_le_of_ne (not_lt.mp hp) hz
      simp [hp, hz] at h
      obtain ⟨rfl, rfl⟩ := h
      have hpos : 0 < -res := by linarith
      refine ⟨le_max_right _ _, hz, fun h' => absurd h' hp, fun _ => ⟨rfl, ?_⟩⟩
      have h1 := snap_ge ((x1 - x0) / (-res))
      have h2 : (((snapCeil ((x1 - x0) / (-res)) tol : Int)) : Rat) ≤ ((max (snapCeil ((x1 - x0) / (-res)) tol) 1 : Int) : Rat) := by
        exact_mod_cast le_max_left _ _
      have h3 : ((x1 - x0) / (-res) - tol) * (-res) ≤ ((max (snapCeil ((x1 - x0) / (-res)) tol) 1 : Int) : Rat) * (-res) :=
        mul_le_mul_of_nonneg_right (le_trans h1 h2) (le_of_lt hpos)
      have e : (x1 - x0) / (-res) * (-res) = x1 - x0 := by field_simp
      have : ((x1 - x0) / (-res) - tol) * (-res) = x1 - x0 - tol * (-res) := by rw [sub_mul, e]
      linarith

/-- `zoom_to(resolution=(rx, ry))`: an axis-aligned view with exactly that resolution and
the parent's crs whose pixel rectangle covers the parent's bounding box up to the
documented 1/100 pixel on the far side (stated for the x axis; y is symmetric), and
`ZeroDivisionError` is the only failure. -/
theorem zoom_to_res_covers (g g' : GeoBox) (rx ry : Rat) (h : zoomToRes g rx ry = .ok g') :
    g'.crs = g.crs ∧ g'.A.a = rx ∧ g'.A.b = 0 ∧ g'.A.d = 0 ∧ g'.A.e = ry ∧ 1 ≤ g'.nx ∧ 1 ≤ g'.ny ∧
    (0 < rx → g'.A.c = (boundingbox g).left ∧
        (boundingbox g).right - tolSnap * rx ≤ (pix2wld g' (g'.nx, 0)).1) ∧
    (rx < 0 → g'.A.c = (boundingbox g).right ∧
        (pix2wld g' (g'.nx, 0)).1 ≤ (boundingbox g).left + tolSnap * (-rx)) ∧
    (0 < ry → g'.A.f = (boundingbox g).bottom ∧
        (boundingbox g).top - tolSnap * ry ≤ (pix2wld g' (0, g'.ny)).2) ∧
    (ry < 0 → g'.A.f = (boundingbox g).top ∧
        (pix2wld g' (0, g'.ny)).2 ≤ (boundingbox g).bottom + tolSnap * (-ry)) := by
  have htol : (0 : Rat) ≤ tolSnap := by decide +kernel
  unfold zoomToRes at h
  cases hx : snapGridTight (boundingbox g).left (boundingbox g).right rx tolSnap with
  | error e => simp [hx, bind, Except.bind] at h
  | ok r1 =>
    obtain ⟨offx, nx⟩ := r1
    cases hy : snapGridTight (boundingbox g).bottom (boundingbox g).top ry tolSnap with
    | error e => simp [hx, hy, bind, Except.bind] at h
    | ok r2 =>
      obtain ⟨offy, ny⟩ := r2
      simp [hx, hy, bind, Except.bind, pure, Except.pure] at h
      subst h
      have sx := snap_grid_tight_covers _ _ _ _ _ _ htol hx
      have sy := snap_grid_tight_covers _ _ _ _ _ _ htol hy
      have ea : (Aff.translation offx offy * Aff.scale rx ry) = ⟨rx, 0, offx, 0, ry, offy⟩ := by
        simp only [Aff.mul_def, Aff.mul, Aff.translation, Aff.scale]; ext <;> simp
      refine ⟨rfl, by rw [ea], by rw [ea], by rw [ea], by rw [ea], sx.1, sy.1, ?_, ?_, ?_, ?_⟩
      · intro hp; obtain ⟨h1, h2⟩ := sx.2.2.1 hp
        refine ⟨by rw [ea]; exact h1, ?_⟩
        simp only [ea, pix2wld, Aff.apply, mul_zero, add_zero]; linarith
      · intro hp; obtain ⟨h1, h2⟩ := sx.2.2.2 hp
        refine ⟨by rw [ea]; exact h1, ?_⟩
        simp only [ea, pix2wld, Aff.apply, mul_zero, add_zero]; linarith
      · intro hp; obtain ⟨h1, h2⟩ := sy.2.2.1 hp
        refine ⟨by rw [ea]; exact h1, ?_⟩
        simp only [ea, pix2wld, Aff.apply, mul_zero, zero_add]; linarith
      · intro hp; obtain ⟨h1, h2⟩ := sy.2.2.2 hp
        refine ⟨by rw [ea]; exact h1, ?_⟩
        simp only [ea, pix2wld, Aff.apply, mul_zero, zero_add]; linarith

theorem zoom_to_res_error_iff (g : GeoBox) (rx ry : Rat) :
    (∃ e, zoomToRes g rx ry = .error e) ↔ (rx = 0 ∨ ry = 0) := by
  have hs : ∀ x0 x1 res, (∃ e, snapGridTight x0 x1 res tolSnap = .error e) ↔ res = 0 := by
    intro x0 x1 res
    unfold snapGridTight
    by_cases hp : res > 0
    · simp [hp]; exact ne_of_gt hp
    · by_cases hz : res = 0 <;> simp [hp, hz]
  unfold zoomToRes
  cases hx : snapGridTight (boundingbox g).left (boundingbox g).right rx tolSnap with
  | error e =>
    have := (hs _ _ _).mp ⟨e, hx⟩
    exact ⟨fun _ => Or.inl this, fun _ => ⟨e, by simp [bind, Except.bind, hx]⟩⟩
  | ok r1 =>
    have hrx : rx ≠ 0 := fun h0 => by
      obtain ⟨e, he⟩ := (hs (boundingbox g).left (boundingbox g).right rx).mpr h0
      rw [hx] at he; cases he
    cases hy : snapGridTight (boundingbox g).bottom (boundingbox g).top ry tolSnap with
    | error e =>
      have := (hs _ _ _).mp ⟨e, hy⟩
      exact ⟨fun _ => Or.inr this, fun _ => ⟨e, by simp [bind, Except.bind, hx, hy]⟩⟩
    | ok r2 =>
      have hry : ry ≠ 0 := fun h0 => by
        obtain ⟨e, he⟩ := (hs (boundingbox g).bottom (boundingbox g).top ry).mpr h0
        rw [hy] at he; cases he
      simp [bind, Except.bind, pure, Except.pure, hrx, hry, hx, hy]

/-! ## 5. CRS is carried by every view -/

theorem crs_preserved (g : GeoBox) :
    (∀ roi, (crop g roi).crs = g.crs) ∧
    (∀ px py, (pad g px py).crs = g.crs) ∧
    (∀ ny nx, (resize g ny nx).crs = g.crs) ∧
    (∀ tx ty, (translatePix g tx ty).crs = g.crs) ∧
    (left g).crs = g.crs ∧ (right g).crs = g.crs ∧ (top g).crs = g.crs ∧ (bottom g).crs = g.crs ∧
    (flipx g).crs = g.crs ∧ (flipy g).crs = g.crs ∧
    (∀ c s, (rotate g c s).crs = g.crs) ∧ (centerPixel g).crs = g.crs ∧
    (∀ T, (mulPix g T).crs = g.crs ∧ (mulWld T g).crs = g.crs) ∧
    (∀ ax ay g', padWh g ax ay = .ok g' → g'.crs = g.crs) ∧
    (∀ f g', zoomOut g f = .ok g' → g'.crs = g.crs) ∧
    (∀ ny nx g', zoomToShape g ny nx = .ok g' → g'.crs = g.crs) ∧
    (∀ n g', zoomToNum g n = .ok g' → g'.crs = g.crs) ∧
    (∀ rx ry g', zoomToRes g rx ry = .ok g' → g'.crs = g.crs) ∧
    (∀ k g', scaledDown g k = .ok g' → g'.crs = g.crs) ∧
    (∀ n m xb yb g', buffered g n m xb yb = .ok g' → g'.crs = g.crs) := by
  refine ⟨fun roi => by cases roi <;> rfl, fun _ _ => rfl, fun _ _ => rfl, fun _ _ => rfl,
    rfl, rfl, rfl, rfl, rfl, rfl, fun _ _ => rfl, rfl, fun _ => ⟨rfl, rfl⟩,
    fun ax ay g' h => (pad_wh_contract g ax ay g' h).2.1,
    fun f g' h => (zoom_out_pixel g g' f h (0, 0)).2.1,
    fun ny nx g' h => (zoom_to_shape_same_footprint g g' ny nx h 0 0).2.2.1,
    ?_, fun rx ry g' h => (zoom_to_res_covers g g' rx ry h).1,
    fun k g' h => (scaled_down_covers g g' k h (0, 0)).2.2.1,
    fun n m xb yb g' h => by obtain ⟨_, _, _, _, _, _, _, hc, _⟩ := buffered_covers g g' n m xb yb h; exact hc⟩
  intro n g' h
  unfold zoomToNum at h
  by_cases h1 : n = 0
  · simp [h1] at h
  · by_cases h2 : max g.ny g.nx = 0
    · simp [h1, h2] at h
    · simp [h1, h2] at h; subst h; rfl

/-! ## 6. GCP geoboxes: views compose with an arbitrary pixel→world function -/

/-- Model selection of the GCP fit: the largest of the three families (3, 4, 9 terms) whose
number of unknowns does not exceed the number of control points — in particular exactly nine
points (a 3×3 grid) get the bi-quadratic, which then interpolates them. -/
theorem fit_kind_spec (n : Nat) :
    (fitKind n = .error .valueError ↔ n < 3) ∧
    (∀ k, fitKind n = .ok k → k ≤ n ∧ (k = 3 ∨ k = 4 ∨ k = 9) ∧
      ∀ k', (k' = 3 ∨ k' = 4 ∨ k' = 9) → k' ≤ n → k' ≤ k) := by
  unfold fitKind
  refine ⟨?_, ?_⟩
  · split
    · simp [*]
    · split
      · simp; omega
      · split <;> simp <;> omega
  · intro k hk
    split at hk
    · simp at hk
    · split at hk
      · simp only [Except.ok.injEq] at hk; subst hk
        refine ⟨by omega, by simp, ?_⟩; intro k' h _; omega
      · split at hk
        · simp only [Except.ok.injEq] at hk; subst hk
          refine ⟨by omega, by simp, ?_⟩; intro k' h _; omega
        · simp only [Except.ok.injEq] at hk; subst hk
          refine ⟨by omega, by simp, ?_⟩; intro k' h _; omega

/-- Every pixel contract above lifts through the GCP mapping `P` (any function): if a view
operation relates the affine triples by `pix2wld g' p = pix2wld g (T p)`, the GCP geoboxes
built on the same mapping satisfy the same relation.  (`GCPGeoBox.__getitem__/pad/pad_wh/
zoom_out/zoom_to/center_pixel` act on the triple only.) -/
theorem gcp_views_compose (P : Pt → Pt) (g g' : GeoBox) (T : Pt → Pt)
    (h : ∀ p, pix2wld g' p = pix2wld g (T p)) (p : Pt) :
    gcpPix2wld P g' p = gcpPix2wld P g (T p) := by
  have := h p
  simp only [pix2wld] at this
  simp only [gcpPix2wld, this]

/-- instance: cropping a GCP geobox -/
theorem gcp_crop_pixel (P : Pt → Pt) (g : GeoBox) (sy sx : PIdx) (p : Pt) :
    gcpPix2wld P (crop g (.two sy sx)) p
      = gcpPix2wld P g (p.1 + ((normSlice sx g.nx).start : Rat), p.2 + ((normSlice sy g.ny).start : Rat)) :=
  gcp_views_compose P g _ (fun p => (p.1 + ((normSlice sx g.nx).start : Rat), p.2 + ((normSlice sy g.ny).start : Rat)))
    (fun q => (crop_pixel g sy sx q).1) p

/-- instance: zooming a GCP geobox -/
theorem gcp_zoom_out_pixel (P : Pt → Pt) (g g' : GeoBox) (f : Rat) (h : zoomOut g f = .ok g') (p : Pt) :
    gcpPix2wld P g' p = gcpPix2wld P g (f * p.1, f * p.2) :=
  gcp_views_compose P g g' (fun p => (f * p.1, f * p.2)) (fun q => (zoom_out_pixel g g' f h q).1) p

/-- If world→pixel `Q` inverts pixel→world `P` (as fitted polynomials do only up to the
fit error — here assumed exactly), the GCP geobox has mutually inverse mappings too. -/
theorem gcp_wld2pix_pix2wld (P Q : Pt → Pt) (hQP : ∀ q, Q (P q) = q) (g : GeoBox)
    (hd : g.A.det ≠ 0) (p : Pt) :
    gcpWld2pix Q g (gcpPix2wld P g p) = .ok p := by
  simp [gcpWld2pix, gcpPix2wld, Aff.inv?, hd, bind, Except.bind, pure, Except.pure, hQP,
    Aff.inv_apply_apply g.A hd]

/-- When the control points are affinely related (`P = B`), the GCP geobox *is* its linear
approximation `GeoBox(shape, B * affine, crs)`; that the least-squares fit then returns `B`
exactly is C20's `affine_fit_exact`, not re-proved here. -/
theorem gcp_exact_when_affine (P : Pt → Pt) (B : Aff) (hP : ∀ q, P q = B.apply q) (g : GeoBox) (p : Pt) :
    gcpPix2wld P g p = pix2wld (gcpApprox B g) p ∧
    (gcpApprox B g).ny = g.ny ∧ (gcpApprox B g).nx = g.nx ∧ (gcpApprox B g).crs = g.crs := by
  simp [gcpPix2wld, gcpApprox, mulWld, pix2wld, hP, Aff.apply_mul]


/-! ## 7. views of views: determinants, invertibility, chains -/

theorem det_mulPix (g : GeoBox) (T : Aff) : (mulPix g T).A.det = g.A.det * T.det := by
  simp [mulPix, Aff.det_mul]

/-- The pixel-side affine of every view stays invertible: crops, pads, translations, centre
pixel and buffers keep the determinant, flips negate it, zooms multiply it by the (non-zero)
zoom factors. -/
theorem views_det (g : GeoBox) :
    (∀ roi, (crop g roi).A.det = g.A.det) ∧
    (∀ px py, (pad g px py).A.det = g.A.det) ∧
    (∀ tx ty, (translatePix g tx ty).A.det = g.A.det) ∧
    (flipx g).A.det = -g.A.det ∧ (flipy g).A.det = -g.A.det ∧
    (centerPixel g).A.det = g.A.det ∧
    (∀ f g', zoomOut g f = .ok g' → g'.A.det = g.A.det * (f * f) ∧ f ≠ 0) ∧
    (∀ ny nx g', zoomToShape g ny nx = .ok g' →
        g'.A.det = g.A.det * (((g.nx : Rat) / nx) * ((g.ny : Rat) / ny)) ∧ ny ≠ 0 ∧ nx ≠ 0) ∧
    (∀ k g', scaledDown g k = .ok g' → g'.A.det = g.A.det * ((k : Rat) * k) ∧ 1 < k) ∧
    (∀ n m xb yb g', buffered g n m xb yb = .ok g' → g'.A.det = g.A.det) := by
  refine ⟨?_, ?_, ?_, ?_, ?_, ?_, ?_, ?_, ?_, ?_⟩
  · intro roi; cases roi <;> simp [crop, Aff.det_mul, Aff.det_translation]
  · intro px py; cases py <;> simp [pad, Aff.det_mul, Aff.det_translation]
  · intro tx ty; simp [translatePix, mulPix, Aff.det_mul, Aff.det_translation]
  · simp [flipx, mulPix, Aff.det_mul, Aff.det_translation, Aff.det_scale]
  · simp [flipy, mulPix, Aff.det_mul, Aff.det_translation, Aff.det_scale]
  · simp [centerPixel, crop, Aff.det_mul, Aff.det_translation]
  · intro f g' h
    by_cases hf : f = 0
    · simp [zoomOut, hf] at h
    · simp [zoomOut, hf] at h; subst h
      exact ⟨by simp [Aff.det_mul, Aff.det_scale], hf⟩
  · intro ny nx g' h
    by_cases h0 : ny = 0 ∨ nx = 0
    · simp [zoomToShape, h0] at h
    · simp [zoomToShape, h0] at h; subst h
      rw [not_or] at h0
      exact ⟨by simp [Aff.det_mul, Aff.det_scale], h0.1, h0.2⟩
  · intro k g' h
    have := scaled_down_covers g g' k h (0, 0)
    by_cases hk : k > 1
    · simp [scaledDown, hk] at h; subst h
      exact ⟨by simp [Aff.det_mul, Aff.det_scale], hk⟩
    · simp [scaledDown, hk] at h
  · intro n m xb yb g' h
    obtain ⟨rx, ry, bx, by_, _, _, _, _, hp, _⟩ := buffered_covers g g' n m xb yb h
    have hA : g'.A = g.A * Aff.translation (-(bx : Rat)) (-(by_ : Rat)) := by
      apply aff_ext_of_apply
      intro p
      have := hp p
      simp only [pix2wld] at this
      rw [this, Aff.apply_mul, Aff.apply_translation]
      simp [sub_eq_add_neg]
    rw [hA]; simp [Aff.det_mul, Aff.det_translation]


/-- GCP geobox, **zoom then crop then pad** (any factor, any index expressions, any pads):
world→pixel inverts pixel→world through the composed pixel-side affine, for every mapping
whose `w2p` inverts its `p2w`.  (Single operations keep either unit scale or zero offset; the
composition has neither.) -/
theorem gcp_chain_inverse (P Q : Pt → Pt) (hQP : ∀ q, Q (P q) = q) (g g1 : GeoBox)
    (hd : g.A.det ≠ 0) (f : Rat) (hz : zoomOut g f = .ok g1) (sy sx : PIdx) (px : Int)
    (py : Option Int) (p : Pt) :
    gcpWld2pix Q (pad (crop g1 (.two sy sx)) px py) (gcpPix2wld P (pad (crop g1 (.two sy sx)) px py) p)
      = .ok p := by
  apply gcp_wld2pix_pix2wld P Q hQP
  obtain ⟨hdet, hf⟩ := (views_det g).2.2.2.2.2.2.1 f g1 hz
  rw [(views_det (crop g1 (.two sy sx))).2.1, (views_det g1).1, hdet]
  exact mul_ne_zero hd (mul_ne_zero hf hf)

/-- … and pixel `p` of that composed view is pixel `f·(p + (x0−px, y0−py))` of the original. -/
theorem gcp_chain_pixel (P : Pt → Pt) (g g1 : GeoBox) (f : Rat) (hz : zoomOut g f = .ok g1)
    (sy sx : PIdx) (px py : Int) (p : Pt) :
    gcpPix2wld P (pad (crop g1 (.two sy sx)) px (some py)) p
      = gcpPix2wld P g (f * (p.1 - px + ((normSlice sx g1.nx).start : Rat)),
                        f * (p.2 - py + ((normSlice sy g1.ny).start : Rat))) := by
  have h1 := (pad_pixel (crop g1 (.two sy sx)) px (some py) p).1
  have h2 := fun q => (crop_pixel g1 sy sx q).1
  have h3 := fun q => (zoom_out_pixel g g1 f hz q).1
  simp only [pix2wld] at h1 h2 h3
  simp only [gcpPix2wld, h1, h2, h3, Option.getD]

/-! ### region crop: the window is (region ∩ image) rounded outward -/

/-- Exact description of `gbox[region]` for a non-empty vertex list (already in pixel
coordinates): with `mx, Mx` the extreme x of the region, the window starts at column
`L = max ⌊mx⌋ 0`, i.e. `L ≤ max mx 0 < L + 1`, and ends at `R = min ⌈Mx⌉ nx`, i.e.
`R − 1 < min Mx nx ≤ R` (same for rows): the smallest whole-pixel window containing the part
of the region's bounding box inside the image; its width is `max 1 (R − L)` (one pixel for a
degenerate or outside region), and the part cut off at the left / top does **not** widen it. -/
theorem crop_region_tight (g : GeoBox) (p0 : Pt) (ps : List Pt) :
    let xs := (p0 :: ps).map (·.1); let ys := (p0 :: ps).map (·.2)
    let mx := C17.minL 0 xs; let Mx := C17.maxL 0 xs; let my := C17.minL 0 ys; let My := C17.maxL 0 ys
    let L := max mx.floor 0; let R := min Mx.ceil g.nx; let B := max my.floor 0; let T := min My.ceil g.ny
    ∃ g', cropRegionPix g (p0 :: ps) = .ok g' ∧ g'.nx = max 1 (R - L) ∧ g'.ny = max 1 (T - B) ∧
      g'.crs = g.crs ∧ (∀ q : Pt, pix2wld g' q = pix2wld g (q.1 + L, q.2 + B)) ∧
      (L : Rat) ≤ max mx 0 ∧ max mx 0 < (L : Rat) + 1 ∧ min Mx g.nx ≤ (R : Rat) ∧ (R : Rat) - 1 < min Mx g.nx ∧
      (B : Rat) ≤ max my 0 ∧ max my 0 < (B : Rat) + 1 ∧ min My g.ny ≤ (T : Rat) ∧ (T : Rat) - 1 < min My g.ny := by
  intro xs ys mx Mx my My L R B T
  have wr : ∀ (n a : Int), 0 ≤ a → wrapNeg n a = a := by intro n a ha; simp [wrapNeg, ha]
  have hL : (0 : Int) ≤ L := le_max_right _ _
  have hB : (0 : Int) ≤ B := le_max_right _ _
  have lo1 : ∀ m : Rat, ((max m.floor 0 : Int) : Rat) ≤ max m 0 := by
    intro m; rw [Int.cast_max]; exact max_le_max (Rat.floor_le _) (by simp)
  have lo2 : ∀ m : Rat, max m 0 < ((max m.floor 0 : Int) : Rat) + 1 := by
    intro m; rw [Int.cast_max]
    have h1 : m < (m.floor : Rat) + 1 := by have := Rat.lt_floor_add_one m; push_cast at this; exact this
    rcases le_total m 0 with h | h
    · rw [max_eq_right h]; have : (0 : Rat) ≤ max ((m.floor : Int) : Rat) ((0 : Int) : Rat) := by simp
      linarith
    · rw [max_eq_left h]; have : ((m.floor : Int) : Rat) ≤ max ((m.floor : Int) : Rat) ((0 : Int) : Rat) := le_max_left _ _
      linarith
  have hi1 : ∀ (m : Rat) (n : Int), min m n ≤ ((min m.ceil n : Int) : Rat) := by
    intro m n; rw [Int.cast_min]; exact min_le_min Rat.le_ceil (le_refl _)
  have hi2 : ∀ (m : Rat) (n : Int), ((min m.ceil n : Int) : Rat) - 1 < min m n := by
    intro m n; rw [Int.cast_min]
    have h1 : (m.ceil : Rat) < m + 1 := Rat.ceil_lt
    rcases le_total m.ceil n with h | h
    · have hc : ((m.ceil : Int) : Rat) ≤ (n : Rat) := by exact_mod_cast h
      rw [min_eq_left hc]; apply lt_min <;> linarith
    · have hc : (n : Rat) ≤ ((m.ceil : Int) : Rat) := by exact_mod_cast h
      rw [min_eq_right hc]; apply lt_min <;> linarith
  refine ⟨_, rfl, ?_, ?_, rfl, ?_, lo1 mx, lo2 mx, hi1 Mx g.nx, hi2 Mx g.nx, lo1 my, lo2 my, hi1 My g.ny, hi2 My g.ny⟩
  · simp only [crop, normSlice]; rw [wr _ _ hL, wr _ _ (by omega)]
    simp only [L, R, mx, Mx, xs]; omega
  · simp only [crop, normSlice]; rw [wr _ _ hB, wr _ _ (by omega)]
    simp only [B, T, my, My, ys]; omega
  · intro q
    rw [(crop_pixel g _ _ q).1]
    simp only [normSlice]; rw [wr _ _ hL, wr _ _ hB]

/-- the hypotheses are satisfiable, and the overhang over the left edge does not widen the window:
a region spanning columns `[-6, 5.5]` of a 20-column image gives columns `0:6` (not `0:12`). -/
theorem crop_region_left_overhang_example :
    cropRegionPix ⟨10, 20, Aff.id, 1⟩ [(-6, 2), (11 / 2, 3)] = .ok ⟨1, 6, ⟨1, 0, 0, 0, 1, 2⟩, 1⟩ := by
  decide +kernel

/-! ### resolution of a sheared grid -/

/-- For a rotated / sheared grid `resolution.y` is the signed distance between consecutive
pixel rows (`det / |column 0|`), never longer than the slanted pixel edge `(b, e)`, and equal
to it in length exactly when the pixel edges are orthogonal; `|rx · ry|` is the pixel area. -/
theorem resolution_sheared_row_distance (g : GeoBox) (hns : isAffineST g.A = false) (hdet : g.A.det ≠ 0)
    (n m : Rat) (hn : 0 < n) (hn2 : n * n = g.A.a * g.A.a + g.A.d * g.A.d) (hm : 0 < m)
    (hm2 : m * m = g.A.b * g.A.b + g.A.e * g.A.e
              - ((g.A.a * g.A.b + g.A.d * g.A.e) / n) * ((g.A.a * g.A.b + g.A.d * g.A.e) / n)) :
    ∃ rx ry, resolution g n m = .ok (rx, ry) ∧ ry = g.A.det / rx ∧ |rx * ry| = |g.A.det| ∧
      ry * ry ≤ g.A.b * g.A.b + g.A.e * g.A.e ∧
      (ry * ry = g.A.b * g.A.b + g.A.e * g.A.e ↔ g.A.a * g.A.b + g.A.d * g.A.e = 0) := by
  obtain ⟨rx, ry, hr, hrx, _, hprod⟩ := resolution_rotated g hns hdet n m hn hn2 hm hm2
  have hrx0 : rx ≠ 0 := by rw [hrx]; exact ne_of_gt hn
  have hry2 : ry * ry = m * m := by
    unfold resolution at hr
    simp only [hns, hdet, if_false, Bool.false_eq_true, Except.ok.injEq, Prod.mk.injEq] at hr
    obtain ⟨_, h2⟩ := hr
    split at h2 <;> rw [← h2] <;> ring
  have hw : 0 ≤ ((g.A.a * g.A.b + g.A.d * g.A.e) / n) * ((g.A.a * g.A.b + g.A.d * g.A.e) / n) :=
    mul_self_nonneg _
  refine ⟨rx, ry, hr, by field_simp; linarith [hprod], by rw [hprod], by rw [hry2, hm2]; linarith, ?_⟩
  rw [hry2, hm2]
  constructor
  · intro h
    have h0 : ((g.A.a * g.A.b + g.A.d * g.A.e) / n) * ((g.A.a * g.A.b + g.A.d * g.A.e) / n) = 0 := by linarith
    have := mul_self_eq_zero.mp h0
    rcases div_eq_zero_iff.mp this with h | h
    · exact h
    · exact absurd h (ne_of_gt hn)
  · intro h; rw [h]; simp

/-- The slanted-edge length is *not* the resolution of a sheared grid: for the unit shear
`[[1, 1], [0, 1]]` the row distance is 1 while the edge `(1, 1)` has squared length 2. -/
theorem resolution_sheared_not_edge_length_cex :
    resolution ⟨3, 3, ⟨1, 1, 0, 0, 1, 0⟩, 0⟩ 1 1 = .ok (1, 1) ∧ ((1 : Rat) * 1 ≠ 1 * 1 + 1 * 1) := by
  decide +kernel


/-! ### alignment -/

/-- `alignment`: the offset of the pixel edges from the grid through the CRS origin,
`0 ≤ al < |pixel size|` with `translation − al` a whole number of pixels; it needs non-zero
diagonal terms (`ZeroDivisionError` otherwise, e.g. for a grid rotated by 90°). -/
theorem alignment_spec (g : GeoBox) :
    (∀ ax ay, alignment g = .ok (ax, ay) →
      g.A.a ≠ 0 ∧ g.A.e ≠ 0 ∧ 0 ≤ ax ∧ ax < |g.A.a| ∧ 0 ≤ ay ∧ ay < |g.A.e| ∧
      (∃ k : Int, g.A.c = ax + k * |g.A.a|) ∧ (∃ k : Int, g.A.f = ay + k * |g.A.e|)) ∧
    ((∃ e, alignment g = .error e) ↔ (g.A.a = 0 ∨ g.A.e = 0)) := by
  have key : ∀ (x m r : Rat), pyFMod x m = .ok r → 0 < m → 0 ≤ r ∧ r < m ∧ ∃ k : Int, x = r + k * m := by
    intro x m r h hm
    have hm0 : m ≠ 0 := ne_of_gt hm
    simp [pyFMod, hm0] at h
    subst h
    have e : x / m * m = x := by field_simp
    have h1 : ((x / m).floor : Rat) * m ≤ x / m * m := mul_le_mul_of_nonneg_right (Rat.floor_le _) (le_of_lt hm)
    have h2' : x / m < ((x / m).floor : Rat) + 1 := by
      have := Rat.lt_floor_add_one (x / m); push_cast at this; exact this
    have h2 : x / m * m < (((x / m).floor : Rat) + 1) * m := mul_lt_mul_of_pos_right h2' hm
    refine ⟨by linarith, by linarith, (x / m).floor, by ring⟩
  have hz : ∀ (x m : Rat), (∃ e, pyFMod x m = .error e) ↔ m = 0 := by
    intro x m; by_cases h : m = 0 <;> simp [pyFMod, h]
  have habs : ∀ v : Rat, rabs v = 0 ↔ v = 0 := by intro v; rw [rabs_eq_abs]; exact abs_eq_zero
  constructor
  · intro ax ay h
    unfold alignment at h
    cases hx : pyFMod g.A.c (rabs g.A.a) with
    | error e => simp [hx, bind, Except.bind] at h
    | ok rx =>
      cases hy : pyFMod g.A.f (rabs g.A.e) with
      | error e => simp [hx, hy, bind, Except.bind] at h
      | ok ry =>
        simp [hx, hy, bind, Except.bind, pure, Except.pure] at h
        obtain ⟨rfl, rfl⟩ := h
        have ha : g.A.a ≠ 0 := fun h0 => by
          have := (hz g.A.c (rabs g.A.a)).mpr ((habs _).mpr h0); rw [hx] at this; obtain ⟨_, h'⟩ := this; cases h'
        have he : g.A.e ≠ 0 := fun h0 => by
          have := (hz g.A.f (rabs g.A.e)).mpr ((habs _).mpr h0); rw [hy] at this; obtain ⟨_, h'⟩ := this; cases h'
        have pa : 0 < rabs g.A.a := by rw [rabs_eq_abs]; exact abs_pos.mpr ha
        have pe : 0 < rabs g.A.e := by rw [rabs_eq_abs]; exact abs_pos.mpr he
        obtain ⟨a1, a2, a3⟩ := key _ _ _ hx pa
        obtain ⟨b1, b2, b3⟩ := key _ _ _ hy pe
        rw [rabs_eq_abs] at a2 a3 b2 b3
        exact ⟨ha, he, a1, a2, b1, b2, a3, b3⟩
  · unfold alignment
    constructor
    · rintro ⟨e, h⟩
      cases hx : pyFMod g.A.c (rabs g.A.a) with
      | error e' => exact Or.inl ((habs _).mp ((hz _ _).mp ⟨e', hx⟩))
      | ok rx =>
        cases hy : pyFMod g.A.f (rabs g.A.e) with
        | error e' => exact Or.inr ((habs _).mp ((hz _ _).mp ⟨e', hy⟩))
        | ok ry => simp [hx, hy, bind, Except.bind, pure, Except.pure] at h
    · rintro (h | h)
      · obtain ⟨e, he⟩ := (hz g.A.c (rabs g.A.a)).mpr ((habs _).mpr h)
        exact ⟨e, by simp [he, bind, Except.bind]⟩
      · cases hx : pyFMod g.A.c (rabs g.A.a) with
        | error e' => exact ⟨e', by simp [bind, Except.bind]⟩
        | ok rx =>
          obtain ⟨e, he⟩ := (hz g.A.f (rabs g.A.e)).mpr ((habs _).mpr h)
          exact ⟨e, by simp [he, bind, Except.bind]⟩

/-! ### enclosing -/

/-- `enclosing(region)`: a geobox on the **same pixel grid** (integer pixel offset `(l, b)`,
same crs) that contains every vertex of the region — no clipping to the parent. -/
theorem enclosing_covers (g g' : GeoBox) (pts : List Pt) (h : enclosing g pts = .ok g') (w : Pt) (hw : w ∈ pts) :
    g.A.det ≠ 0 ∧ g'.crs = g.crs ∧ 1 ≤ g'.nx ∧ 1 ≤ g'.ny ∧
    ∃ (l b : Int) (q : Pt), (∀ r : Pt, pix2wld g' r = pix2wld g (r.1 + l, r.2 + b)) ∧
      pix2wld g' q = w ∧ 0 ≤ q.1 ∧ q.1 ≤ g'.nx ∧ 0 ≤ q.2 ∧ q.2 ≤ g'.ny := by
  unfold enclosing Aff.inv? at h
  by_cases hd : g.A.det = 0
  · simp [hd, bind, Except.bind] at h
  · simp only [hd, if_false, bind, Except.bind] at h
    have hmem : g.A.inv.apply w ∈ pts.map g.A.inv.apply := List.mem_map_of_mem hw
    cases hp : pts.map g.A.inv.apply with
    | nil => rw [hp] at hmem; cases hmem
    | cons p0 ps =>
      rw [hp] at h hmem
      simp only [pure, Except.pure, Except.ok.injEq] at h
      subst h
      have hx : (g.A.inv.apply w).1 ∈ (p0 :: ps).map (·.1) := List.mem_map_of_mem hmem
      have hy : (g.A.inv.apply w).2 ∈ (p0 :: ps).map (·.2) := List.mem_map_of_mem hmem
      generalize (p0 :: ps).map (·.1) = xs at hx ⊢
      generalize (p0 :: ps).map (·.2) = ys at hy ⊢
      have fl : ∀ (l : List Rat) (v : Rat), v ∈ l → ((C17.minL 0 l).floor : Rat) ≤ v :=
        fun l v hv => le_trans (Rat.floor_le _) (minL_le 0 l v hv)
      have ce : ∀ (l : List Rat) (v : Rat), v ∈ l → v ≤ ((C17.maxL 0 l).ceil : Rat) :=
        fun l v hv => le_trans (le_maxL 0 l v hv) Rat.le_ceil
      refine ⟨hd, rfl, le_max_left _ _, le_max_left _ _, (C17.minL 0 xs).floor, (C17.minL 0 ys).floor,
        ((g.A.inv.apply w).1 - ((C17.minL 0 xs).floor : Rat), (g.A.inv.apply w).2 - ((C17.minL 0 ys).floor : Rat)),
        ?_, ?_, by have := fl xs _ hx; simp only; linarith, ?_, by have := fl ys _ hy; simp only; linarith, ?_⟩
      · intro r; simp [pix2wld, Aff.apply_mul, Aff.apply_translation]
      · simp only [pix2wld, Aff.apply_mul, Aff.apply_translation, sub_add_cancel]
        exact Aff.apply_inv_apply g.A hd w
      · have h1 := ce xs _ hx
        have h2 : (((C17.maxL 0 xs).ceil : Int) : Rat) - (((C17.minL 0 xs).floor : Int) : Rat) ≤
            ((max 1 ((C17.maxL 0 xs).ceil - (C17.minL 0 xs).floor) : Int) : Rat) := by
          have : (C17.maxL 0 xs).ceil - (C17.minL 0 xs).floor ≤ max 1 ((C17.maxL 0 xs).ceil - (C17.minL 0 xs).floor) :=
            le_max_right _ _
          have h3 := (Int.cast_le (R := Rat)).mpr this
          rw [Int.cast_sub] at h3; exact h3
        simp only; linarith
      · have h1 := ce ys _ hy
        have h2 : (((C17.maxL 0 ys).ceil : Int) : Rat) - (((C17.minL 0 ys).floor : Int) : Rat) ≤
            ((max 1 ((C17.maxL 0 ys).ceil - (C17.minL 0 ys).floor) : Int) : Rat) := by
          have : (C17.maxL 0 ys).ceil - (C17.minL 0 ys).floor ≤ max 1 ((C17.maxL 0 ys).ceil - (C17.minL 0 ys).floor) :=
            le_max_right _ _
          have h3 := (Int.cast_le (R := Rat)).mpr this
          rw [Int.cast_sub] at h3; exact h3
        simp only; linarith

example : enclosing ⟨10, 20, ⟨2, 0, 100, 0, -2, 50⟩, 1⟩ [(90, 60), (107, 41)]
    = .ok ⟨10, 9, ⟨2, 0, 90, 0, -2, 60⟩, 1⟩ := by decide +kernel

/-! ### gcps(), map_bounds, algebraic laws of the views -/

/-- `gcps()` of a view: every returned `(col, row)` is the place where the view's own
pixel→world function takes the value of the mapping at the original control-point pixel,
and the world coordinates are untouched. -/
theorem gcps_consistent (P : Pt → Pt) (g : GeoBox) (cps out : List (Pt × Pt)) (h : gcpGcps g cps = .ok out) :
    g.A.det ≠ 0 ∧ out.map (fun cp => gcpPix2wld P g cp.1) = cps.map (fun cp => P cp.1) ∧
    out.map (·.2) = cps.map (·.2) := by
  unfold gcpGcps Aff.inv? at h
  by_cases hd : g.A.det = 0
  · simp [hd, bind, Except.bind] at h
  · simp only [hd, if_false, bind, Except.bind, pure, Except.pure, Except.ok.injEq] at h
    subst h
    refine ⟨hd, ?_, ?_⟩
    · simp only [List.map_map]; congr 1; funext cp
      simp [gcpPix2wld, Aff.apply_inv_apply g.A hd]
    · simp only [List.map_map]; congr 1

theorem map_bounds_corners (g : GeoBox) :
    mapBounds g = (((pix2wld g (0, 0)).2, (pix2wld g (0, 0)).1),
                   ((pix2wld g (g.nx, g.ny)).2, (pix2wld g (g.nx, g.ny)).1)) ∧
    (extent g)[0]? = some (pix2wld g (0, 0)) ∧ (extent g)[2]? = some (pix2wld g (g.nx, g.ny)) := by
  simp [mapBounds, extent, corners, pix2wld]

/-- Flips are involutions, pixel translations add up, neighbours cancel, a rotation by the
zero angle and a pad by zero are the identity. -/
theorem view_algebra (g : GeoBox) :
    flipx (flipx g) = g ∧ flipy (flipy g) = g ∧
    (∀ a b c d : Rat, translatePix (translatePix g a b) c d = translatePix g (a + c) (b + d)) ∧
    left (right g) = g ∧ right (left g) = g ∧ top (bottom g) = g ∧ bottom (top g) = g ∧
    rotate g 1 0 = g ∧ pad g 0 (some 0) = g ∧ pad g 0 none = g ∧ translatePix g 0 0 = g := by
  obtain ⟨ny, nx, ⟨a, b, c, d, e, f⟩, crs⟩ := g
  refine ⟨?_, ?_, ?_, ?_, ?_, ?_, ?_, ?_, ?_, ?_, ?_⟩ <;>
    simp [flipx, flipy, translatePix, left, right, top, bottom, rotate, rotationAbout, pad, mulPix, mulWld,
      Aff.mul_def, Aff.mul, Aff.translation, Aff.scale, Aff.apply] <;>
    (try intros) <;> (try refine ⟨?_, ?_⟩) <;> ring_nf



/-! ## 8. boundary sampling, buffered containment -/

theorem linspace_get (N : Int) (n i : Nat) (hn : 2 ≤ n) (hi : i < n) :
    (linspace N n)[i]? = some ((i : Rat) * ((N : Rat) / ((n : Rat) - 1))) := by
  have h1 : n ≠ 1 := by omega
  simp [linspace, h1, hi]

theorem edgeIndex_mem (n : Nat) (hn : 2 ≤ n) (ij : Nat × Nat) (h : ij ∈ edgeIndex n) :
    ij.1 < n ∧ ij.2 < n ∧ (ij.1 = 0 ∨ ij.1 = n - 1 ∨ ij.2 = 0 ∨ ij.2 = n - 1) := by
  simp only [edgeIndex, List.mem_append, List.mem_map, List.mem_range, List.mem_reverse] at h
  rcases h with ((⟨i, hi, rfl⟩ | ⟨j, hj, rfl⟩) | ⟨i, hi, rfl⟩) | ⟨j, hj, rfl⟩ <;> simp <;> omega

/-- `boundary(n)` (`n ≥ 2` points per side): every sample lies on the edge of the pixel
rectangle `[0, nx] × [0, ny]`, and the four corners are among the samples — so the footprint
of a GCP geobox (`gcpExtent`: these samples pushed through pix2wld) passes through the images
of the corners. -/
theorem boundary_on_edge (g : GeoBox) (n : Nat) (hn : 2 ≤ n) (hny : 0 ≤ g.ny) (hnx : 0 ≤ g.nx) :
    (∀ p ∈ boundary g n, 0 ≤ p.1 ∧ p.1 ≤ g.nx ∧ 0 ≤ p.2 ∧ p.2 ≤ g.ny ∧
        (p.1 = 0 ∨ p.1 = g.nx ∨ p.2 = 0 ∨ p.2 = g.ny)) ∧
    ((0 : Rat), (0 : Rat)) ∈ boundary g n ∧ ((g.nx : Rat), (0 : Rat)) ∈ boundary g n ∧
    ((g.nx : Rat), (g.ny : Rat)) ∈ boundary g n ∧ ((0 : Rat), (g.ny : Rat)) ∈ boundary g n := by
  have hn1 : (0 : Rat) < (n : Rat) - 1 := by
    have : (2 : Rat) ≤ (n : Rat) := by exact_mod_cast hn
    linarith
  have val : ∀ (N : Int) (i : Nat), 0 ≤ N → i < n →
      0 ≤ (i : Rat) * ((N : Rat) / ((n : Rat) - 1)) ∧ (i : Rat) * ((N : Rat) / ((n : Rat) - 1)) ≤ N ∧
      (i = 0 → (i : Rat) * ((N : Rat) / ((n : Rat) - 1)) = 0) ∧
      (i = n - 1 → (i : Rat) * ((N : Rat) / ((n : Rat) - 1)) = N) := by
    intro N i hN hi
    have hNr : (0 : Rat) ≤ (N : Rat) := by exact_mod_cast hN
    have hi0 : (0 : Rat) ≤ (i : Rat) := by exact_mod_cast Nat.zero_le i
    have hi1 : (i : Rat) ≤ (n : Rat) - 1 := by
      have : (i : Rat) + 1 ≤ (n : Rat) := by exact_mod_cast hi
      linarith
    have hd : 0 ≤ (N : Rat) / ((n : Rat) - 1) := div_nonneg hNr (le_of_lt hn1)
    refine ⟨mul_nonneg hi0 hd, ?_, ?_, ?_⟩
    · calc (i : Rat) * ((N : Rat) / ((n : Rat) - 1)) ≤ ((n : Rat) - 1) * ((N : Rat) / ((n : Rat) - 1)) :=
            mul_le_mul_of_nonneg_right hi1 hd
        _ = N := by field_simp
    · intro h; simp [h]
    · intro h
      have : (i : Rat) = (n : Rat) - 1 := by
        rw [h]; have : 1 ≤ n := by omega
        push_cast [Nat.cast_sub this]; ring
      rw [this]; field_simp
  have memb : ∀ (i j : Nat), (i, j) ∈ edgeIndex n → i < n → j < n →
      ((i : Rat) * ((g.nx : Rat) / ((n : Rat) - 1)), (j : Rat) * ((g.ny : Rat) / ((n : Rat) - 1))) ∈ boundary g n := by
    intro i j hij hi hj
    simp only [boundary, List.mem_filterMap]
    exact ⟨(i, j), hij, by simp [linspace_get _ _ _ hn hi, linspace_get _ _ _ hn hj]⟩
  refine ⟨?_, ?_, ?_, ?_, ?_⟩
  · intro p hp
    simp only [boundary, List.mem_filterMap] at hp
    obtain ⟨ij, hij, hf⟩ := hp
    obtain ⟨h1, h2, h3⟩ := edgeIndex_mem n hn ij hij
    rw [linspace_get _ _ _ hn h1, linspace_get _ _ _ hn h2] at hf
    simp only [Option.some.injEq] at hf
    subst hf
    obtain ⟨a1, a2, a3, a4⟩ := val g.nx ij.1 hnx h1
    obtain ⟨b1, b2, b3, b4⟩ := val g.ny ij.2 hny h2
    refine ⟨a1, a2, b1, b2, ?_⟩
    rcases h3 with h | h | h | h
    · exact Or.inl (a3 h)
    · exact Or.inr (Or.inl (a4 h))
    · exact Or.inr (Or.inr (Or.inl (b3 h)))
    · exact Or.inr (Or.inr (Or.inr (b4 h)))
  · have := memb 0 0 (by
      simp only [edgeIndex, List.mem_append, List.mem_map, List.mem_range]
      exact Or.inl (Or.inl (Or.inl ⟨0, by omega, rfl⟩))) (by omega) (by omega)
    simpa using this
  · have := memb (n - 1) 0 (by simp [edgeIndex]; omega) (by omega) (by omega)
    rw [(val g.nx (n - 1) hnx (by omega)).2.2.2 rfl] at this
    simpa using this
  · have := memb (n - 1) (n - 1) (by
      simp only [edgeIndex, List.mem_append, List.mem_map, List.mem_range]
      exact Or.inl (Or.inl (Or.inr ⟨n - 2, by omega, Prod.ext rfl (by simp; omega)⟩))) (by omega) (by omega)
    rw [(val g.nx (n - 1) hnx (by omega)).2.2.2 rfl, (val g.ny (n - 1) hny (by omega)).2.2.2 rfl] at this
    exact this
  · have := memb 0 (n - 1) (by simp [edgeIndex]; omega) (by omega) (by omega)
    rw [(val g.ny (n - 1) hny (by omega)).2.2.2 rfl] at this
    simpa using this

/-- `buffered` with non-negative pads contains the parent: the parent is the window
`[by : by+ny, bx : bx+nx]` of the buffered box. -/
theorem buffered_contains_parent (g g' : GeoBox) (n m xb : Rat) (yb : Option Rat)
    (h : buffered g n m xb yb = .ok g') (hny : 0 ≤ g.ny) (hnx : 0 ≤ g.nx)
    (hgx : g.nx ≤ g'.nx) (hgy : g.ny ≤ g'.ny) :
    ∃ bx by_ : Int, 0 ≤ bx ∧ 0 ≤ by_ ∧
      crop g' (.two (.slc (some by_) (some (by_ + g.ny))) (.slc (some bx) (some (bx + g.nx)))) = g := by
  obtain ⟨rx, ry, bx, by_, _, h1, h2, h3, hp, _⟩ := buffered_covers g g' n m xb yb h
  have hbx : 0 ≤ bx := by omega
  have hby : 0 ≤ by_ := by omega
  refine ⟨bx, by_, hbx, hby, ?_⟩
  have hA : g'.A = g.A * Aff.translation (-(bx : Rat)) (-(by_ : Rat)) := by
    apply aff_ext_of_apply
    intro p
    have := hp p
    simp only [pix2wld] at this
    rw [this, Aff.apply_mul, Aff.apply_translation]
    simp [sub_eq_add_neg]
  have wr : ∀ (n a : Int), 0 ≤ a → wrapNeg n a = a := by intro n a ha; simp [wrapNeg, ha]
  obtain ⟨ny', nx', A', crs'⟩ := g'
  obtain ⟨ny, nx, A, crs⟩ := g
  simp only at h1 h2 h3 hA hny hnx
  subst hA h3
  simp only [crop, normSlice]
  rw [wr _ _ hbx, wr _ _ hby, wr _ (bx + nx) (by omega), wr _ (by_ + ny) (by omega)]
  congr 1
  · omega
  · omega
  · rw [Aff.mul_assoc']
    have : Aff.translation (-(bx : Rat)) (-(by_ : Rat)) * Aff.translation (bx : Rat) (by_ : Rat) = Aff.id := by
      simp only [Aff.mul_def, Aff.mul, Aff.translation, Aff.id]; ext <;> simp
    rw [this, Aff.mul_id]


/-! ## 9. composition with C08 (`from_bbox`) -/

/-- `ceil(maybe_int(q, tol))` of C20's general model is this file's `snapCeil` for the quotients
that occur in a tight snap (`q ≥ 0`, `0 < tol ≤ 1/2`). -/
theorem maybeInt_ceil_eq_snapCeil (q tol : Rat) (hq : 0 ≤ q) (ht0 : 0 < tol) (ht : tol ≤ 1 / 2) :
    (C20.maybeInt q tol).ceil = snapCeil q tol := by
  have hfl : (q.floor : Rat) ≤ q := Rat.floor_le _
  have hlt : q < (q.floor : Rat) + 1 := by have := Rat.lt_floor_add_one q; push_cast at this; exact this
  have hfl0 : (0 : Rat) ≤ (q.floor : Rat) := by
    have : (0 : Int) ≤ q.floor := by rw [Rat.le_floor_iff]; simpa using hq
    exact_mod_cast this
  have htr : C20.trunc q = q.floor := by simp [C20.trunc, hq]
  have hpart : C20.fmod1 q = q - (q.floor : Rat) := by simp [C20.fmod1, htr]
  unfold snapCeil C20.maybeInt C20.maybeInt? C20.splitFloat
  simp only [hpart]
  have sub_self' : q - (q - (q.floor : Rat)) = (q.floor : Rat) := by ring
  by_cases h1 : q - (q.floor : Rat) > 1 / 2
  · -- fractional part above one half: snaps up iff 1 - part < tol
    have hn : ¬ (q - (q.floor : Rat) < tol) := by linarith
    have hnotint : (q.floor : Rat) < q := by linarith
    have hceil : q.ceil = q.floor + 1 := by
      apply le_antisymm
      · rw [Rat.ceil_le_iff]; push_cast; linarith
      · have : q.floor < q.ceil := by
          rw [Rat.lt_ceil_iff]; exact hnotint
        omega
    simp only [h1, if_true, hn, if_false, sub_self']
    have habs : C20.rabs (q - (q.floor : Rat) - 1) = 1 - (q - (q.floor : Rat)) := by
      have : q - (q.floor : Rat) - 1 < 0 := by linarith
      simp [C20.rabs, this]
    rw [habs]
    by_cases h2 : 1 - (q - (q.floor : Rat)) < tol
    · simp only [h2, if_true]
      have : C20.trunc ((q.floor : Rat) + 1) = q.floor + 1 := by
        have h0 : (0 : Rat) ≤ (q.floor : Rat) + 1 := by linarith
        have e : ((q.floor : Rat) + 1) = ((q.floor + 1 : Int) : Rat) := by push_cast; ring
        simp only [C20.trunc, h0, if_true]; rw [e, floor_intCast']
      rw [this, ceil_intCast', hceil]
    · simp only [h2, if_false]
  · have h1' : ¬ (q - (q.floor : Rat) > 1 / 2) := h1
    have h3 : ¬ (q - (q.floor : Rat) < -(1 / 2)) := by linarith
    simp only [h1', if_false, h3, sub_self']
    have habs : C20.rabs (q - (q.floor : Rat)) = q - (q.floor : Rat) := by
      have : ¬ (q - (q.floor : Rat) < 0) := by linarith
      simp [C20.rabs, this]
    rw [habs]
    by_cases h2 : q - (q.floor : Rat) < tol
    · simp only [h2, if_true]
      have : C20.trunc (q.floor : Rat) = q.floor := by
        simp only [C20.trunc, hfl0, if_true]; rw [floor_intCast']
      rw [this, ceil_intCast']
    · simp only [h2, if_false]

theorem min4_le_max4 (a b c d : Rat) : min4 a b c d ≤ max4 a b c d := by
  unfold min4 max4
  exact le_trans (le_trans (min_le_left _ _) (min_le_left _ _)) (le_trans (le_max_left _ _) (le_max_left _ _))

/-- my one-axis tight snap is C20's `snap_grid(x0, x1, res, None, tol)` for `x0 ≤ x1` -/
theorem snapGridTight_eq_snapGrid (x0 x1 res tol : Rat) (h01 : x0 ≤ x1) (ht0 : 0 < tol) (ht : tol ≤ 1 / 2) :
    snapGridTight x0 x1 res tol = C20.snapGrid x0 x1 res none tol := by
  unfold snapGridTight C20.snapGrid
  by_cases hp : res > 0
  · have hq : 0 ≤ (x1 - x0) / res := div_nonneg (by linarith) (le_of_lt hp)
    simp only [hp, if_true, maybeInt_ceil_eq_snapCeil _ _ hq ht0 ht]
  · by_cases hz : res = 0
    · simp [hz]
    · have hneg : 0 < -res := by
        rcases lt_trichotomy res 0 with h | h | h
        · linarith
        · exact absurd h hz
        · exact absurd h hp
      have hq : 0 ≤ (x1 - x0) / (-res) := div_nonneg (by linarith) (le_of_lt hneg)
      simp only [hp, if_false, hz, maybeInt_ceil_eq_snapCeil _ _ hq ht0 ht]

/-- **Link C02 ∘ C08**: `gbox.zoom_to(resolution=(rx, ry))` *is* C08's
`GeoBox.from_bbox(gbox.boundingbox, resolution=(rx, ry), tight=True)` (any anchor — `tight`
overrides it — tolerance 0.01) carrying the parent's crs; so C08's covering / snapping theorems
about `fromBbox` apply verbatim to the zoomed view of any (rotated, sheared) geobox. -/
theorem zoom_to_res_is_from_bbox (g : GeoBox) (rx ry : Rat) (anchor : C08.AnchorArg) :
    zoomToRes g rx ry =
      (C08.fromBbox ⟨(boundingbox g).left, (boundingbox g).bottom, (boundingbox g).right, (boundingbox g).top⟩
        true .none (.xy rx ry) anchor tolSnap).map
        (fun b => (⟨b.ny, b.nx, b.affine, g.crs⟩ : GeoBox)) := by
  have ht0 : (0 : Rat) < tolSnap := by decide +kernel
  have ht : tolSnap ≤ 1 / 2 := by decide +kernel
  have hx : (boundingbox g).left ≤ (boundingbox g).right := min4_le_max4 _ _ _ _
  have hy : (boundingbox g).bottom ≤ (boundingbox g).top := min4_le_max4 _ _ _ _
  have sn : C08.snapOf true (C08.normAnchor anchor) = none := by simp [C08.snapOf]
  unfold zoomToRes C08.fromBbox
  simp only [sn, C08.intShapeToRes, C08.ResArg.xy?, Option.map_none, bind, Except.bind, pure, Except.pure,
    snapGridTight_eq_snapGrid _ _ _ _ hx ht0 ht, snapGridTight_eq_snapGrid _ _ _ _ hy ht0 ht]
  cases C20.snapGrid (boundingbox g).left (boundingbox g).right rx none tolSnap with
  | error e => rfl
  | ok r1 =>
    cases C20.snapGrid (boundingbox g).bottom (boundingbox g).top ry none tolSnap with
    | error e => rfl
    | ok r2 => rfl


end OdcGeo.C02
