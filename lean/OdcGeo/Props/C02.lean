/- C02 — property theorems only. -/
import OdcGeo.Model.C02
namespace OdcGeo.C02

end OdcGeo.C02
