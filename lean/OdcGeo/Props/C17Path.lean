/-
C17 — `polygon_path` (`Model/C17Path.lean`): the ring of grid points, in `edge_index` order.
-/
import OdcGeo.Model.C17Path
import Mathlib.Tactic.Linarith

set_option linter.unusedVariables false
set_option linter.unusedSimpArgs false

namespace OdcGeo.C17

/-- number of ring indices: `2 (nx + ny) - 4` for a grid with at least two points per side, one more when closed -/
theorem edge_index_length (nx ny : Nat) (hx : 2 ≤ nx) (hy : 2 ≤ ny) (closed : Bool) :
    (edgeIndexC nx ny closed).length = 2 * (nx + ny) - 4 + (if closed then 1 else 0) := by
  cases closed <;> simp [edgeIndexC, C03.edgeIndex] <;> omega

/-- every ring index lies inside the grid (both sides non-empty) -/
theorem edge_index_in_grid (nx ny : Nat) (hx : 1 ≤ nx) (hy : 1 ≤ ny) (closed : Bool) :
    ∀ p ∈ edgeIndexC nx ny closed, p.1 < ny ∧ p.2 < nx := by
  intro p hp
  simp only [edgeIndexC, C03.edgeIndex, List.mem_append, List.mem_map, List.mem_range] at hp
  rcases hp with (((⟨k, hk, rfl⟩ | ⟨k, hk, rfl⟩) | ⟨k, hk, rfl⟩) | ⟨k, hk, rfl⟩) | hp
  · exact ⟨by omega, hk⟩
  · exact ⟨by omega, by omega⟩
  · exact ⟨by omega, by omega⟩
  · exact ⟨by omega, by omega⟩
  · cases closed
    · simp at hp
    · simp at hp; subst hp; exact ⟨by omega, by omega⟩

/-- … and on its border: first or last row, or first or last column -/
theorem edge_index_on_border (nx ny : Nat) (hx : 1 ≤ nx) (hy : 1 ≤ ny) (closed : Bool) :
    ∀ p ∈ edgeIndexC nx ny closed, p.1 = 0 ∨ p.1 = ny - 1 ∨ p.2 = 0 ∨ p.2 = nx - 1 := by
  intro p hp
  simp only [edgeIndexC, C03.edgeIndex, List.mem_append, List.mem_map, List.mem_range] at hp
  rcases hp with (((⟨k, hk, rfl⟩ | ⟨k, hk, rfl⟩) | ⟨k, hk, rfl⟩) | ⟨k, hk, rfl⟩) | hp
  · exact Or.inl rfl
  · exact Or.inr (Or.inr (Or.inr rfl))
  · exact Or.inr (Or.inl rfl)
  · exact Or.inr (Or.inr (Or.inl rfl))
  · cases closed
    · simp at hp
    · simp at hp; subst hp; exact Or.inl rfl

/-- **`polygon_path` never fails on non-empty coordinate vectors, and every point it returns is a grid point
`(x[ix], y[iy])` of the border** (`y = None`: `y = x`) -/
theorem polygon_path_spec (xs : List Rat) (ys : Option (List Rat)) (closed : Bool)
    (hx : xs ≠ []) (hy : ∀ v, ys = some v → v ≠ []) :
    ∃ pts, polygonPath xs ys closed = .ok pts ∧
      pts.length = (edgeIndexC xs.length (ys.getD xs).length closed).length ∧
      ∀ p ∈ pts, p.1 ∈ xs ∧ p.2 ∈ ys.getD xs := by
  have hxl : 1 ≤ xs.length := List.length_pos_iff.mpr hx
  have hyl : 1 ≤ (ys.getD xs).length := by
    cases ys with
    | none => exact hxl
    | some v => exact List.length_pos_iff.mpr (hy v rfl)
  unfold polygonPath
  generalize ys.getD xs = Y at hyl ⊢
  have hin := edge_index_in_grid xs.length Y.length hxl hyl closed
  have key : ∀ (idx : List (Nat × Nat)), (∀ p ∈ idx, p.1 < Y.length ∧ p.2 < xs.length) →
      ∃ pts, idx.mapM (pickPt xs Y) = .ok pts ∧ pts.length = idx.length ∧ ∀ q ∈ pts, q.1 ∈ xs ∧ q.2 ∈ Y := by
    intro idx
    induction idx with
    | nil => intro _; exact ⟨[], rfl, rfl, by simp⟩
    | cons p ps ih =>
      intro h
      obtain ⟨pts, e, hl, hm⟩ := ih (fun q hq => h q (by simp [hq]))
      have hp := h p (by simp)
      have e1 : xs[p.2]? = some xs[p.2] := List.getElem?_eq_getElem hp.2
      have e2 : Y[p.1]? = some Y[p.1] := List.getElem?_eq_getElem hp.1
      refine ⟨(xs[p.2], Y[p.1]) :: pts, ?_, by simp [hl], ?_⟩
      · simp only [List.mapM_cons, pickPt, e1, e2, e, bind, Except.bind, pure, Except.pure]
      · intro q hq
        rcases List.mem_cons.mp hq with rfl | hq
        · exact ⟨List.getElem_mem _, List.getElem_mem _⟩
        · exact hm q hq
  have hne : (edgeIndexC xs.length Y.length closed).isEmpty = false := by
    cases hn : xs.length with
    | zero => omega
    | succ n => simp [edgeIndexC, C03.edgeIndex, List.range_succ_eq_map]
  simp only [hne, Bool.false_eq_true, if_false]
  exact key _ hin

/-- a closed path ends where it starts: index `(0, 0)` first and last -/
theorem polygon_path_closed_ring (nx ny : Nat) (hx : 1 ≤ nx) :
    (edgeIndexC nx ny true).head? = some (0, 0) ∧ (edgeIndexC nx ny true).getLast? = some (0, 0) := by
  constructor
  · cases nx with
    | zero => omega
    | succ n => simp [edgeIndexC, C03.edgeIndex, List.range_succ_eq_map]
  · simp [edgeIndexC]

/-- an empty coordinate vector is numpy's `IndexError` as soon as the other one has two entries -/
theorem polygon_path_empty_x_cex : polygonPath [] (some [1, 2]) false = .error .indexError ∧
    polygonPath [] none false = .error .valueError := by decide

example : polygonPath [0, 1, 2] (some [7, 9]) true
    = .ok [(0, 7), (1, 7), (2, 7), (2, 9), (1, 9), (0, 9), (0, 7)] := by decide

example : polygonPath [0, 1] none true = .ok [(0, 0), (1, 0), (1, 1), (0, 1), (0, 0)] := by decide

end OdcGeo.C17
