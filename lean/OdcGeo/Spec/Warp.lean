/-
Reference semantics (NOT odc-geo code): nearest-neighbour warp of a whole source image onto a
destination grid.  `A` maps destination pixel coordinates to source pixel coordinates; the
centre of destination pixel `(dy, dx)` is `(dx + ½, dy + ½)`; a coordinate `x` with
`0 ≤ x < N` falls into source pixel `⌊x⌋`, anything else reads nodata.

    dst[dy, dx] = src[⌊y⌋, ⌊x⌋]  if (x, y) = A (dx + ½, dy + ½) lies inside the source image
                  nodata          otherwise

Validated against GDAL (`rasterio.warp.reproject`, nearest) by the C10 harness on every run.
-/
import OdcGeo.Model.Affine
namespace OdcGeo.Warp

/-- source pixel index on one axis of length `N` for coordinate `x`, if inside -/
def nnIndex (N : Int) (x : Rat) : Option Int := if 0 ≤ x ∧ x < N then some x.floor else none

/-- images are functions `row → col → value`; `shape = (ny, nx)` -/
def nnWarp {α : Type} (src : Int → Int → α) (shape : Int × Int) (A : Aff) (nodata : α) (dy dx : Int) : α :=
  let q := A.apply ((dx : Rat) + 1 / 2, (dy : Rat) + 1 / 2)
  match nnIndex shape.1 q.2, nnIndex shape.2 q.1 with
  | some iy, some ix => src iy ix
  | _, _ => nodata

/-- executable form on row-major lists (`-1`-style defaults are not used: out-of-range lookups can
not happen for indices produced by `nnIndex` on the list's own shape; they yield `nodata`). -/
def getPx (img : List (List Int)) (nodata : Int) (iy ix : Int) : Int :=
  if iy < 0 ∨ ix < 0 then nodata
  else match img[iy.toNat]? with
    | some row => match row[ix.toNat]? with
      | some v => v
      | none => nodata
    | none => nodata

def nnWarpList (img : List (List Int)) (shape dshape : Int × Int) (A : Aff) (nodata : Int) : List (List Int) :=
  (List.range dshape.1.toNat).map fun (dy : Nat) =>
    (List.range dshape.2.toNat).map fun (dx : Nat) =>
      nnWarp (getPx img nodata) shape A nodata dy dx

end OdcGeo.Warp
