/-
Reference semantics (NOT odc-geo code) of how a task scheduler executes the merge-tree graph that
`mpu_write` builds: every task (partition task = `_mpu_append_chunks_op`, merge task =
`_merge_and_spill_op`) runs once, after its inputs are available; WHICH enabled task runs next is
the scheduler's free choice.  This is the assumed dask contract of DESIGN §3.3, written out so that
"under any schedule" is a statement inside Lean.
-/
import OdcGeo.Model.C06
namespace OdcGeo.C06
variable {α : Type}

/-- A merge tree in the middle of being executed by a scheduler: evaluated sub-trees are replaced by
their result chunk (`done`), everything else is still to do. -/
inductive Run (α : Type) where
  | leafTodo (idx : Nat) (chunks : List (List α × Int))
  | nodeTodo (l r : Run α)
  | done (c : Chunk α)

/-- initial state of the task graph for tree `t` whose first partition has index `idx` -/
def Run.ofTree : Tree α → Nat → Run α
  | .leaf chunks, idx => .leafTodo idx chunks
  | .node l r, idx => .nodeTodo (Run.ofTree l idx) (Run.ofTree r (idx + l.leaves))

/-- One task of the graph fires: a partition task (`_mpu_append_chunks_op`) or a merge task
(`_merge_and_spill_op`) both of whose inputs are available, anywhere in the tree; its writer calls
are appended to the global call log.  Which enabled task fires is the scheduler's choice. -/
inductive Step (cfg : Cfg) (total : Nat) : Run α × List (Part α) → Run α × List (Part α) → Prop where
  | leaf (idx chunks c ws log) :
      appendChunksOp cfg.writer cfg.spill
        (mkChunk (cfg.base idx) cfg.wpc (cfg.markFinal && decide (idx + 1 = total)) cfg.lhsKeep) chunks
        = .ok (c, ws) →
      Step cfg total (.leafTodo idx chunks, log) (.done c, log ++ ws)
  | node (cl cr m wm log) :
      mergeAndSpill cfg.writer cfg.spill cl cr = .ok (m, wm) →
      Step cfg total (.nodeTodo (.done cl) (.done cr), log) (.done m, log ++ wm)
  | left (l l' r log log') : Step cfg total (l, log) (l', log') →
      Step cfg total (.nodeTodo l r, log) (.nodeTodo l' r, log')
  | right (l r r' log log') : Step cfg total (r, log) (r', log') →
      Step cfg total (.nodeTodo l r, log) (.nodeTodo l r', log')

/-- any finite execution: reflexive-transitive closure of `Step` -/
inductive Steps (cfg : Cfg) (total : Nat) : Run α × List (Part α) → Run α × List (Part α) → Prop where
  | refl (s) : Steps cfg total s s
  | tail (a b c) : Steps cfg total a b → Step cfg total b c → Steps cfg total a c

/-- `r` is a partial execution of `t` (first partition `idx`) and `ws` are the writer calls made by
its finished tasks -/
inductive Rel (cfg : Cfg) (total : Nat) : Run α → Tree α → Nat → List (Part α) → Prop where
  | leafTodo (idx chunks) : Rel cfg total (.leafTodo idx chunks) (.leaf chunks) idx []
  | nodeTodo (l r tl tr idx wl wr) : Rel cfg total l tl idx wl → Rel cfg total r tr (idx + tl.leaves) wr →
      Rel cfg total (.nodeTodo l r) (.node tl tr) idx (wl ++ wr)
  | done (c t idx ws ws') : eval cfg total t idx = .ok (c, ws) → List.Perm ws' ws →
      Rel cfg total (.done c) t idx ws'


/-- number of tasks still to run -/
def Run.todo : Run α → Nat
  | .leafTodo _ _ => 1
  | .nodeTodo l r => l.todo + r.todo + 1
  | .done _ => 0

end OdcGeo.C06
