/-
Reference semantics (NOT odc-geo code) of the three numpy / Python container operations the
tiling code of `odc/geo/roi.py` and `odc/geo/_blocks.py` leans on.  Each is validated against
the real library by `harness/c04.py` on every run (ops `ss`, `npget`, `pyslice`, `npassign`).

* `searchsortedRight xs key` – `int(np.searchsorted(xs, key, "right"))`: numpy's binary search
  (`while lo < hi: mid = lo + (hi-lo)//2; if key < xs[mid]: hi = mid else: lo = mid+1`).
* `npGet a i` – `a[i]` for a 1-D array / tuple and an int index (negative wraps once,
  otherwise `IndexError`).
* `pySlice xs a b` – `xs[a:b]` for a tuple.
* `assignMap nd ns d s` – which source index lands on which destination index in
  `np.copyto(dst[d], src[s])` on one axis (`dst` has length `nd`, `src` length `ns`):
  both slices are clamped as usual, lengths must agree unless the source length is 1
  (broadcast), otherwise numpy raises `ValueError`.
-/
import OdcGeo.Model.C17
import OdcGeo.Spec.PySlice
namespace OdcGeo.NpArray
open OdcGeo OdcGeo.C17

/-- binary search loop; `fuel` bounds the number of iterations (`hi - lo` halves each step). -/
def bsearchRight (xs : List Int) (key : Int) : Nat → Nat → Nat → Nat
  | 0, lo, _ => lo
  | fuel + 1, lo, hi =>
    if lo < hi then
      let mid := lo + (hi - lo) / 2
      match xs[mid]? with
      | some v => if key < v then bsearchRight xs key fuel lo mid
                  else bsearchRight xs key fuel (mid + 1) hi
      | none => lo    -- unreachable: mid < hi ≤ xs.length
    else lo

def searchsortedRight (xs : List Int) (key : Int) : Nat :=
  bsearchRight xs key (xs.length + 1) 0 xs.length

/-- The linear scan the binary search is specified against: number of leading elements
that are `≤ key`. -/
def linearScanRight (xs : List Int) (key : Int) : Nat :=
  (xs.takeWhile (fun v => decide (v ≤ key))).length

def npGet (a : List Int) (i : Int) : Res Int :=
  let L : Int := a.length
  let j := if i < 0 then i + L else i
  if j < 0 ∨ j ≥ L then .error .indexError
  else match a[j.toNat]? with
    | some v => .ok v
    | none => .error .indexError

def pySlice {α} (xs : List α) (a b : Int) : List α :=
  let bd := PySlice.bounds xs.length (some a) (some b)
  (xs.drop bd.1.toNat).take (bd.2 - bd.1).toNat

/-- effective `(lo, len)` of `slice(s.start, s.stop)` on an axis of length `n` -/
def effSlice (n : Int) (s : NSlice) : Int × Int :=
  let bd := PySlice.bounds n (some s.start) (some s.stop)
  (bd.1, max 0 (bd.2 - bd.1))

/-- destination index ↦ source index (if assigned) for `np.copyto(dst[d], src[s])`, one axis. -/
def assignMap (nd ns : Int) (d s : NSlice) : Res (Int → Option Int) :=
  let (dlo, dlen) := effSlice nd d
  let (slo, slen) := effSlice ns s
  if dlen = slen then
    .ok fun j => if dlo ≤ j ∧ j < dlo + dlen then some (slo + (j - dlo)) else none
  else if slen = 1 then
    .ok fun j => if dlo ≤ j ∧ j < dlo + dlen then some slo else none
  else .error .valueError

end OdcGeo.NpArray
