/-
Reference semantics (not odc-geo code): `shapely` / GEOS `disjoint` for two *convex* polygons
with non-empty interior given by their vertex rings, over exact rationals.

Two closed convex polygons are disjoint iff some edge normal of one of them strictly separates
their projections (separating-axis theorem).  Used only by the C14 driver as the instance of the
`disjoint` parameter of `tilesFromPolygon`; validated against shapely by the harness on every run.
-/
namespace OdcGeo.Spec.Convex

abbrev Pt := Rat × Rat

def dot (a b : Pt) : Rat := a.1 * b.1 + a.2 * b.2

/-- outward-or-inward normals of the edges of the closed ring `ps` -/
def normals : List Pt → List Pt
  | [] => []
  | p :: rest => List.zipWith (fun a b => (-(b.2 - a.2), b.1 - a.1)) (p :: rest) (rest ++ [p])

def minL : List Rat → Option Rat
  | [] => none
  | x :: xs => some (xs.foldl min x)

def maxL : List Rat → Option Rat
  | [] => none
  | x :: xs => some (xs.foldl max x)

/-- projections of `P` and `Q` on `ax` are strictly separated -/
def separated (ax : Pt) (P Q : List Pt) : Bool :=
  match minL (P.map (dot ax)), maxL (P.map (dot ax)), minL (Q.map (dot ax)), maxL (Q.map (dot ax)) with
  | some pmin, some pmax, some qmin, some qmax => decide (pmax < qmin) || decide (qmax < pmin)
  | _, _, _, _ => true

def disjoint (P Q : List Pt) : Bool :=
  (normals P ++ normals Q).any (fun ax => separated ax P Q)

end OdcGeo.Spec.Convex
