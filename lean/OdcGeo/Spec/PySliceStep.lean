/-
Reference semantics (NOT odc-geo code): which positions of a length-`n` axis does Python /
numpy / xarray positional indexing select for `X[start:stop:step]` (any non-zero step,
open / negative / out-of-range bounds) — `slice.indices(n)` of CPython
(`PySlice_AdjustIndices`).  Validated against numpy exhaustively for small `n` by the
C09 harness on every run (`c09 sel …`).
-/
namespace OdcGeo.PySliceStep

/-- clamp one bound: `None` → default, negative → `max (x+n) lower`, else `min x upper` -/
def adjust (n : Int) (lower upper : Int) (dflt : Int) : Option Int → Int
  | none => dflt
  | some x => if x < 0 then max (x + n) lower else min x upper

/-- `(start, length)` of `slice(start, stop, step).indices(n)`; the `k`-th selected position
is `start + k * step`.  `step ≠ 0` (Python raises `ValueError` for 0; callers check). -/
def indices (n : Nat) (start stop : Option Int) (step : Int) : Int × Nat :=
  if 0 < step then
    let lo := adjust n 0 n 0 start
    let hi := adjust n 0 n n stop
    (lo, if lo < hi then ((hi - lo - 1) / step + 1).toNat else 0)
  else
    let lo := adjust n (-1) (n - 1) (n - 1) start
    let hi := adjust n (-1) (n - 1) (-1) stop
    (lo, if hi < lo then ((lo - hi - 1) / (-step) + 1).toNat else 0)

/-- positions selected, in order -/
def sel (n : Nat) (start stop : Option Int) (step : Int) : List Int :=
  let (s, len) := indices n start stop step
  (List.range len).map (fun (k : Nat) => s + (k : Int) * step)

/-- integer index `X[i]`: position `i` or `n + i`; `none` = `IndexError` -/
def intIndex (n : Nat) (i : Int) : Option Nat :=
  let j := if i < 0 then i + n else i
  if 0 ≤ j ∧ j < n then some j.toNat else none

end OdcGeo.PySliceStep
