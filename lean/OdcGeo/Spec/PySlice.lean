/-
Reference semantics (NOT odc-geo code): which indices of a length-`n` array does
Python / numpy basic indexing select for `X[i]` and `X[a:b]` (step None)?

`slice.indices(n)` for a positive step: a bound `None` is 0 / n; a negative bound `x`
becomes `max(0, n + x)`; a non-negative bound is `min(x, n)`; selected = range(lo, hi).
This file is validated against numpy exhaustively for small `n` on every run.
-/
import OdcGeo.Model.C17
namespace OdcGeo.PySlice
open OdcGeo.C17

def clampBound (n : Int) (x : Int) : Int := if x < 0 then max 0 (n + x) else min x n

/-- `(lo, hi)` of `slice(a, b).indices(n)` -/
def bounds (n : Int) (a b : Option Int) : Int × Int :=
  (match a with | none => 0 | some v => clampBound n v,
   match b with | none => n | some v => clampBound n v)

/-- `i ∈ X[s]` as a proposition; an int index out of range selects nothing (IndexError). -/
def Sel (n : Int) (s : PIdx) (i : Int) : Prop :=
  match s with
  | .idx k => (if k < 0 then n + k else k) = i ∧ 0 ≤ i ∧ i < n
  | .slc a b => (bounds n a b).1 ≤ i ∧ i < (bounds n a b).2

instance (n : Int) (s : PIdx) (i : Int) : Decidable (Sel n s i) := by
  unfold Sel; cases s <;> infer_instance

/-- Does the index expression raise `IndexError`? -/
def raisesIndexError (n : Int) : PIdx → Bool
  | .idx k => let j := if k < 0 then n + k else k; !(0 ≤ j ∧ j < n)
  | .slc _ _ => false

/-- Executable form: list of selected indices, in order. -/
def selList (n : Nat) (s : PIdx) : List Int :=
  ((List.range n).map (fun (k : Nat) => (k : Int))).filter (fun i => decide (Sel n s i))

/-- Indices of the *original* array selected by `X[a][b]` (two-step indexing with slices). -/
def selList2 (n : Nat) (a b : PIdx) : List Int :=
  let first := selList n a
  let idx := selList first.length b
  idx.filterMap (fun j => first[j.toNat]?)

end OdcGeo.PySlice
