/-
Tactics shared by the tie theorems (`OdcGeo/Props/GenCxx.lean`): each theorem states that a definition
regenerated from the Python source (`OdcGeo/Gen/Cxx.lean`) equals the hand model for all inputs.  The
generated text changes with every harmless rewrite of the source, so the proofs are a *portfolio*: unfold
both sides, split every `if` / `match`, then close each leaf with whichever of `rfl`, `omega`,
`simp_all`, `grind` (with the floor-division facts) works.  Not imported by any driver.
-/
import OdcGeo.Gen.PyPrelude
import Mathlib.Tactic.Linarith
import Mathlib.Tactic.Ring
import Mathlib.Tactic.FieldSimp
import Mathlib.Tactic.NormNum
import Mathlib.Algebra.Order.Field.Rat

namespace OdcGeo.Gen

/-- closes one leaf goal of a tie proof -/
syntax "tie_fin" : tactic
macro_rules
  | `(tactic| tie_fin) => `(tactic| first
      | with_reducible rfl
      | contradiction
      | omega
      | (simp_all; done)
      | (simp_all <;> omega)
      | (exfalso; norm_num at *; linarith)
      | grind [Int.fdiv_eq_ediv, Int.fmod_eq_emod, Int.emod_def]
      | (simp_all [Int.fdiv_eq_ediv, Int.fmod_eq_emod, Int.emod_def] <;> grind)
      | (simp_all <;> (first | ring1 | linarith | (constructor <;> first | ring1 | linarith | omega)))
      | (norm_num at * <;> (first | linarith | ring1 | grind)))

/-- `tie_auto [defs, lemmas]`: unfold, sequence the error monad, split all branches, close the leaves -/
syntax "tie_auto" "[" Lean.Parser.Tactic.simpLemma,* "]" : tactic
macro_rules
  | `(tactic| tie_auto [$ls,*]) => `(tactic|
      ((try simp only [gen_helpers, $ls,*, bind, Except.bind, pure, Except.pure])
       (repeat' split)
       (all_goals tie_fin)))

end OdcGeo.Gen
