/-
Python-semantics prelude of the source-to-Lean translator `tools/py2lean.py` (core Lean only, no Mathlib).

Everything a *generated* definition (`OdcGeo/Gen/Cxx.lean`) may refer to besides the data types of the
property's model lives here:

  Python                         Lean
  ------------------------------ ---------------------------------------------------------------
  int                            `Int`  (unbounded)
  float                          `Rat`  (exact; DESIGN §3.1 — IEEE rounding is not modelled)
  a // b, a % b   (ints)         `Int.fdiv a b`, `Int.fmod a b` (floor semantics), guarded by `b = 0 → ZeroDivisionError`
  a // b, a % b   (floats)       `Py.rfloordiv`, `Py.rmod`
  a / b                          `Rat` division, guarded by `b = 0 → ZeroDivisionError`
  int(x)                         `Py.trunc`  (toward zero)
  round(x)                       `Py.roundHalfEven`
  math.floor / math.ceil         `Rat.floor` / `Rat.ceil`
  math.fmod(x, y)                `Py.fmod`   (sign of `x`, truncation semantics)
  abs                            `Py.absI`, `Py.absR`
  int(ceil(log2(x)))             `Py.ceilLog2` (exact value: least `n` with `x ≤ 2^n`; only on `x ≥ 1`)
  a ** n  (int, n ≥ 0)           `Py.ipow`   (negative exponent: not translated)
  assert / raise                 `Except ErrKind` (`OdcGeo.Res`)

The second half is the line protocol of the translator's differential self-check (`harness/gentie.py`):
arguments and results are flattened into space separated tokens, type-directed (`PyArg`, `PyOut`).
-/
import OdcGeo.Model.IO
import Lean.Meta.Tactic.Simp.RegisterCommand

/-- generated definitions of private helpers that have no hand-model counterpart (the model inlines them): the tie
proofs unfold whatever carries this attribute, so they never name a helper that a rewrite may inline or rename -/
register_simp_attr gen_helpers

namespace OdcGeo.Gen.Py

/-- `int(x)` on a float: truncation toward zero. -/
def trunc (x : Rat) : Int := if 0 ≤ x then x.floor else x.ceil

/-- `math.fmod(x, y)`: `x - y * trunc(x / y)` (C semantics: the result has the sign of `x`). -/
def fmod (x y : Rat) : Rat := x - y * (trunc (x / y) : Rat)

/-- `x // y` on floats. -/
def rfloordiv (x y : Rat) : Rat := ((x / y).floor : Rat)

/-- `x % y` on floats (sign of `y`). -/
def rmod (x y : Rat) : Rat := x - y * ((x / y).floor : Rat)

def absI (x : Int) : Int := if x < 0 then -x else x
def absR (x : Rat) : Rat := if x < 0 then -x else x

/-- `round(x)` (one argument): round half to even. -/
def roundHalfEven (x : Rat) : Int :=
  let f := x.floor
  let d := x - (f : Rat)
  if d < 1 / 2 then f
  else if d > 1 / 2 then f + 1
  else if f % 2 = 0 then f else f + 1

/-- exact value of `int(math.ceil(math.log2(x)))` for an integer `x ≥ 1`: the least `n` with `x ≤ 2 ^ n`. -/
def ceilLog2 (x : Int) : Int :=
  if x ≤ 1 then 0 else ((Nat.log2 (x.toNat - 1) + 1 : Nat) : Int)

/-- `a ** n` for an integer base and a non-negative integer exponent. -/
def ipow (a : Int) (n : Int) : Int := a ^ n.toNat

/-- a Python value that is an `int` or a pair of ints (`Union[int, Tuple[int, int]]`) -/
inductive IntOrPair where
  | one (i : Int)
  | two (a b : Int)
  deriving DecidableEq, Repr

/-- `a[i]` on a sequence of unknown length (tuple / list / 1-d array modelled as `List`): negative indices count from
the end, anything outside `[-len, len)` raises `IndexError` -/
def listGet {α : Type} (a : List α) (i : Int) : Res α :=
  let L : Int := a.length
  let j := if i < 0 then i + L else i
  if j < 0 ∨ j ≥ L then .error .indexError
  else match a[j.toNat]? with
    | some v => .ok v
    | none => .error .indexError

/-! ### facts the tie proofs use (positive divisor: floor semantics = `Int.ediv` / `Int.emod`) -/

theorem fdiv_pos (a : Int) {b : Int} (h : 0 < b) : Int.fdiv a b = a / b :=
  Int.fdiv_eq_ediv_of_nonneg a (Int.le_of_lt h)

theorem fmod_pos (a : Int) {b : Int} (h : 0 < b) : Int.fmod a b = a % b :=
  Int.fmod_eq_emod_of_nonneg a (Int.le_of_lt h)

/-! ### line protocol of the self-check -/

/-- consume the tokens of one argument -/
class PyArg (α : Type) where
  take : List String → Option (α × List String)

/-- print one result as tokens -/
class PyOut (α : Type) where
  out : α → String

instance : PyArg Int where
  take | t :: r => (t.toInt?).map (·, r) | [] => none
instance : PyArg Nat where
  take | t :: r => (t.toNat?).map (·, r) | [] => none
instance : PyArg Rat where
  take | t :: r => (OdcGeo.IO.parseRat? t).map (·, r) | [] => none
instance : PyArg Bool where
  take | t :: r => (OdcGeo.IO.parseBool? t).map (·, r) | [] => none
instance : PyArg Unit where
  take r := some ((), r)
instance {α} [PyArg α] : PyArg (Option α) where
  take
    | "N" :: r => some (none, r)
    | "S" :: r => (PyArg.take r).map fun (p : α × List String) => (some p.1, p.2)
    | _ => none
instance {α β} [PyArg α] [PyArg β] : PyArg (α × β) where
  take r := do
    let (a, r) ← (PyArg.take r : Option (α × List String))
    let (b, r) ← (PyArg.take r : Option (β × List String))
    return ((a, b), r)
def takeList {α} [PyArg α] : Nat → List String → Option (List α × List String)
  | 0, r => some ([], r)
  | n + 1, r => do
    let (a, r) ← (PyArg.take r : Option (α × List String))
    let (as, r) ← takeList n r
    return (a :: as, r)
instance {α} [PyArg α] : PyArg (List α) where
  take
    | t :: r => do
      let n ← t.toNat?
      takeList n r
    | [] => none

instance : PyArg IntOrPair where
  take
    | "i" :: t :: r => (t.toInt?).map (IntOrPair.one ·, r)
    | "p" :: t :: u :: r => do
      let a ← t.toInt?
      let b ← u.toInt?
      return (IntOrPair.two a b, r)
    | _ => none

instance : PyOut Int where out := toString
instance : PyOut Nat where out := toString
instance : PyOut Rat where out := OdcGeo.IO.fmtRat
instance : PyOut Bool where out := OdcGeo.IO.fmtBool
instance : PyOut Unit where out _ := "U"
instance {α} [PyOut α] : PyOut (Option α) where
  out | none => "N" | some a => "S " ++ PyOut.out a
instance {α β} [PyOut α] [PyOut β] : PyOut (α × β) where
  out p := PyOut.out p.1 ++ " " ++ PyOut.out p.2
instance {α} [PyOut α] : PyOut (List α) where
  out xs := " ".intercalate (toString xs.length :: xs.map PyOut.out)
instance {α} [PyOut α] : PyOut (OdcGeo.Res α) where
  out | .ok a => PyOut.out a | .error e => e.toStr

partial def checkLoop (run : List String → Option String) (hin hout : IO.FS.Stream) : IO Unit := do
  let line ← hin.getLine
  if line.isEmpty then return ()
  let toks := (line.trimAscii.toString.splitOn " ")
  hout.putStrLn ((run toks).getD "bad-op")
  checkLoop run hin hout

def checkMain (run : List String → Option String) : IO Unit := do
  let hin ← IO.getStdin
  let hout ← IO.getStdout
  checkLoop run hin hout
  hout.flush

end OdcGeo.Gen.Py
