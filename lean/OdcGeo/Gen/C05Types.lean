/-
Record used by the regenerated `CogMeta` index methods (`OdcGeo/Gen/C05.lean`): the integer fields of `CogMeta` the
layout depends on, as Python ints.  `planes` is `num_planes` (the hand model `OdcGeo.C05.Meta` abstracts it the same way).
Hand written (a data type, like the model's); core Lean only.
-/
namespace OdcGeo.Gen

structure CogMetaI where
  planes : Int
  shape_x : Int
  shape_y : Int
  tile_x : Int
  tile_y : Int
  deriving DecidableEq, Repr

end OdcGeo.Gen
