/-
Model of the glue AROUND the planning core of `odc/geo/overlap.py` (the core is `OdcGeo.Model.C03`):

* `decompose_rws` (math.py:383-436) in full — rotation, shear and scale factors, the `det < 0` flip, the
  `LinAlgError` of the Cholesky step — and `get_scale_from_linear_transform` (overlap.py:194-204) on top of it;
* `GbxPointTransform.__call__` (overlap.py:123-141): pixel → world through the source affine, the lon/lat clamp
  of geographic sources, the CRS transformer (a parameter), world → pixel through the inverse destination affine,
  non-finite results;
* `native_pix_transform` (overlap.py:328-339): dispatch on the argument types and on CRS equality;
* `compute_reproject_roi` (overlap.py:427-567) from its arguments: dispatch on `tr.linear is None`.

Core Lean only.
-/
import OdcGeo.Model.C03
namespace OdcGeo.C03
open OdcGeo.C17

/-! ### `decompose_rws`

`WS = cholesky(AᵀA)ᵀ` is upper triangular with positive diagonal: `[[n, m], [0, h]]` with `n = √(a²+d²)`,
`m = (ab+de)/n`, `h = |det A|/n`.  `numpy.linalg.cholesky` raises `LinAlgError` (a `ValueError`) when `AᵀA` is not
positive definite, i.e. when `det A = 0` (then `n = 0` or `h = 0`).  `R = A · WS⁻¹`; `det R = det A / (n h)` is the sign
of `det A`: when negative the last column of `R` and the last row of `WS` are negated.  `S = diag(WS)`, `W = WS · S⁻¹`.
As for `scale2` the root `n` is an input (`n·n = a²+d²`, `0 < n` are hypotheses of the theorems). -/

structure RWS where
  R : Aff
  W : Aff
  S : Aff
  deriving DecidableEq, Repr

/-- off-diagonal entry of `WS`: `m = (ab + de) / n` -/
def rwsM (A : Aff) (n : Rat) : Rat := (A.a * A.b + A.d * A.e) / n
/-- second diagonal entry of `WS` before the flip: `h = |det A| / n` -/
def rwsH (A : Aff) (n : Rat) : Rat := rabs A.det / n
/-- second column of `R = A @ inv(WS)`, `inv(WS) = [[1/n, -m/(n h)], [0, 1/h]]` -/
def rwsR12 (A : Aff) (n : Rat) : Rat := A.a * (-(rwsM A n) / (n * rwsH A n)) + A.b / rwsH A n
def rwsR22 (A : Aff) (n : Rat) : Rat := A.d * (-(rwsM A n) / (n * rwsH A n)) + A.e / rwsH A n
/-- `np.linalg.det(R) < 0` -/
def rwsFlip (A : Aff) (n : Rat) : Bool := decide (A.a / n * rwsR22 A n - rwsR12 A n * (A.d / n) < 0)

def decomposeRWS (A : Aff) (n : Rat) : Res RWS :=
  if n = 0 ∨ A.det = 0 then .error .valueError
  else
    -- `R[:, -1] *= -1; WS[-1, :] *= -1` when flipped (the first row of `WS` is untouched)
    let s : Rat := if rwsFlip A n then -1 else 1
    let h' := s * rwsH A n
    -- `W = WS @ diag(1 / ss)`, `ss = (n, h')`
    .ok ⟨⟨A.a / n, s * rwsR12 A n, A.c, A.d / n, s * rwsR22 A n, A.f⟩,
         ⟨n * (1 / n), rwsM A n * (1 / h'), 0, 0, h' * (1 / h'), 0⟩, ⟨n, 0, 0, 0, h', 0⟩⟩

/-- `get_scale_from_linear_transform(A)` = `(|S.a|, |S.e|)` -/
def getScale (A : Aff) (n : Rat) : Res (Rat × Rat) :=
  match decomposeRWS A n with
  | .error e => .error e
  | .ok f => .ok (rabs f.S.a, rabs f.S.e)

/-! ### `GbxPointTransform.__call__` -/

/-- `np.clip(x, lo, hi)` = `minimum(maximum(x, lo), hi)` -/
def npClip (x lo hi : Rat) : Rat := min (max x lo) hi

/-- the clamp of geographic sources: `((-180, 180), (-90, 90))` -/
def clampGeo (w : Rat × Rat) : Rat × Rat := (npClip w.1 (-180) 180, npClip w.2 (-90) 90)

/-- The CRS transformer: world → world, may answer with non-finite numbers (`inf` is what PROJ returns for a point
it can not convert). -/
abbrev Proj := Rat × Rat → Coord × Coord

/-- `GbxPointTransform(src, dst)(pts)` on one point: `P = src.transform`, `geographic = src.crs.geographic`,
`Qi = ~dst.transform`.  A non-finite coordinate coming out of the transformer makes BOTH pixel coordinates non-finite
(`a*inf + b*y + c` is `±inf` or `nan` whatever `a` is). -/
def gbxApply (P : Aff) (geographic : Bool) (proj : Proj) (Qi : Aff) : PtTr := fun p =>
  let w := P.apply p
  let w := if geographic then clampGeo w else w
  match proj w with
  | (.fin x, .fin y) => (.fin (Qi.apply (x, y)).1, .fin (Qi.apply (x, y)).2)
  | _ => (.nonfinite, .nonfinite)

/-- The description of one side that the planner reads: the class of the object (`GeoBox` or another `GeoBoxBase`
such as `GCPGeoBox`), its shape, its pixel → world affine, whether its CRS is geographic. -/
structure Side where
  isGeoBox : Bool
  shape : Shape
  aff : Aff
  geographic : Bool
  deriving Repr

/-! ### `native_pix_transform`, `compute_reproject_roi` -/

/-- `GbxPointTransform(src, dst)` as a function; `wld2pix` of the destination side inverts its affine on every call
and raises `TransformNotInvertibleError` (reported as `valueError`) for a singular one. -/
def gbxTr (P : Aff) (geographic : Bool) (proj : Proj) (Q : Aff) : Res PtTr :=
  match Q.inv? with
  | .error e => .error e
  | .ok Qi => .ok (gbxApply P geographic proj Qi)

/-- what `native_pix_transform` returns -/
inductive PixTr where
  /-- `LinearPointTransform(fwd)`, `fwd = ~dst.transform * src.transform` -/
  | linear (fwd : Aff)
  /-- `GbxPointTransform(src, dst)`: the forward map and its `.back`; constructing them never fails, calling one
  whose target affine is singular does -/
  | gbx (fwd back : Res PtTr)

/-- `native_pix_transform(src, dst)`; `crsEq` is `src.crs == dst.crs`, `projF` / `projB` the two CRS transformers
(`src.crs → dst.crs` and back).  `~dst.transform` raises for a singular affine (same-CRS case, eagerly). -/
def nativePixTransform (src dst : Side) (crsEq : Bool) (projF projB : Proj) : Res PixTr :=
  if src.isGeoBox ∧ dst.isGeoBox ∧ crsEq then
    match dst.aff.inv? with
    | .error e => .error e
    | .ok Di => .ok (.linear (Di * src.aff))
  else
    .ok (.gbx (gbxTr src.aff src.geographic projF dst.aff) (gbxTr dst.aff dst.geographic projB src.aff))

/-- a transform that is never called -/
def neverCalled : PtTr := fun _ => (.nonfinite, .nonfinite)

/-- `compute_reproject_roi(src, dst, ttol, stol, padding, align)` given the transform: `n` is the root for the scale
of the linear case, `scaleAt` stands for `get_scale_at_point(·, tr.back)` of the other.  In the cross-CRS branch
`tr.back` is called first (boundary of the destination), `tr` itself only when the source region is not empty. -/
def planWith (src dst : Shape) (tr : PixTr) (n : Rat) (scaleAt : Rat × Rat → Rat × Rat) (ttol stol : Rat)
    (padding align : Option Int) : Res Plan :=
  match tr with
  | .gbx fwd back =>
    match back with
    | .error e => .error e
    | .ok back =>
      match fwd with
      | .ok fwd => reprojectNonlinear src dst back fwd scaleAt padding align
      | .error e =>
        if ROI.isEmpty (relativeRois src dst back neverCalled 5 (padOr1 padding) (normAlign align)).1
        then reprojectNonlinear src dst back neverCalled scaleAt padding align
        else .error e
  | .linear fwd =>
    match fwd.inv? with
    | .error e => .error e
    | .ok A => reprojectLinear src dst fwd A n ttol stol padding align

/-- `compute_reproject_roi` from its arguments. -/
def computeReprojectRoi (src dst : Side) (crsEq : Bool) (projF projB : Proj) (n : Rat)
    (scaleAt : Rat × Rat → Rat × Rat) (ttol stol : Rat) (padding align : Option Int) : Res Plan :=
  match nativePixTransform src dst crsEq projF projB with
  | .error e => .error e
  | .ok tr => planWith src.shape dst.shape tr n scaleAt ttol stol padding align

/-! ### the error branch of the scale estimate

`get_scale_at_point` ends in `decompose_rws`, which raises (`LinAlgError`) when the fitted local map is singular —
e.g. where a clamp or the transformer collapses the neighbourhood of the centre of `roi_dst` onto a line.  The variants
below carry that error through the cross-CRS branch; with a scale estimate that never fails they are the functions
above (`nonlinearE_eq` in Props). -/

/-- `get_scale_at_point(pt, tr, r)` including the `LinAlgError` of a singular fit -/
def scaleAtPointE (tr : Rat × Rat → Rat × Rat) (pt : Rat × Rat) (r n : Rat) : Res (Rat × Rat) :=
  getScale (stencilAffine tr pt r) n

def reprojectNonlinearE (src dst : Shape) (back fwd : PtTr) (scaleAt : Rat × Rat → Res (Rat × Rat))
    (padding align : Option Int) : Res Plan :=
  let r := relativeRois src dst back fwd 5 (padOr1 padding) (normAlign align)
  if ¬ ROI.isEmpty r.2 then
    let c : Rat × Rat := (((r.2.2.start + r.2.2.stop : Int) : Rat) / 2, ((r.2.1.start + r.2.1.stop : Int) : Rat) / 2)
    match scaleAt c with
    | .error e => .error e
    | .ok sc =>
      let scale := min sc.1 sc.2
      match pickReadScale scale with
      | .error e => .error e
      | .ok rs => .ok ⟨r.1, r.2, false, rs, scale, sc⟩
  else .ok ⟨r.1, r.2, false, 1, 0, (0, 0)⟩

def planWithE (src dst : Shape) (tr : PixTr) (n : Rat) (scaleAt : Rat × Rat → Res (Rat × Rat)) (ttol stol : Rat)
    (padding align : Option Int) : Res Plan :=
  match tr with
  | .gbx fwd back =>
    match back with
    | .error e => .error e
    | .ok back =>
      match fwd with
      | .ok fwd => reprojectNonlinearE src dst back fwd scaleAt padding align
      | .error e =>
        if ROI.isEmpty (relativeRois src dst back neverCalled 5 (padOr1 padding) (normAlign align)).1
        then reprojectNonlinearE src dst back neverCalled scaleAt padding align
        else .error e
  | .linear fwd =>
    match fwd.inv? with
    | .error e => .error e
    | .ok A => reprojectLinear src dst fwd A n ttol stol padding align

def computeReprojectRoiE (src dst : Side) (crsEq : Bool) (projF projB : Proj) (n : Rat)
    (scaleAt : Rat × Rat → Res (Rat × Rat)) (ttol stol : Rat) (padding align : Option Int) : Res Plan :=
  match nativePixTransform src dst crsEq projF projB with
  | .error e => .error e
  | .ok tr => planWithE src.shape dst.shape tr n scaleAt ttol stol padding align

/-! ### a scale estimate that is not a number

When one of the five stencil points of `get_scale_at_point` has no image (the transformer answers `inf`: the point is
outside the other CRS's domain, e.g. on the far side of a full-disk view) `affine_from_pts` / `decompose_rws` produce
NaN without raising, `min(nan, nan)` is NaN and `_pick_read_scale` fails its `assert scale > 0`.  On `/repo` HEAD that is
the end of `compute_reproject_roi` (`AssertionError`, known finding `xcrs-scale-centre-off-domain-raises`); the repair on
branch `fix2-C03` measures the scale at the image of the centre of `roi_src` instead.  `scaleFallback` says which of the
two the model follows: it must be `true` once the repair is merged. -/

def scaleFallback : Bool := true

/-- outcome of `get_scale_at_point`: a scale, NaN (non-finite stencil image), or an exception -/
inductive ScaleRes where
  | ok (s : Rat × Rat)
  | nan
  | err (e : ErrKind)

/-- `get_scale_at_point(pt, tr.back)` for a point transform that may answer with non-finite coordinates;
`n` is the root for the fitted map as in `scaleAtPointE` -/
def scaleAtPointX (back : PtTr) (pt : Rat × Rat) (n : Rat × Rat → Rat) : ScaleRes :=
  let val : Rat × Rat → Option (Rat × Rat) := fun q => match back q with
    | (.fin x, .fin y) => some (x, y)
    | _ => none
  if ((stencilPts pt 1).all fun q => (val q).isSome) then
    match scaleAtPointE (fun q => (val q).getD (0, 0)) pt 1 (n pt) with
    | .ok s => .ok s
    | .error e => .err e
  else .nan

def reprojectNonlinearX (fb : Bool) (src dst : Shape) (back fwd : PtTr) (scaleAt : Rat × Rat → ScaleRes)
    (padding align : Option Int) : Res Plan :=
  let r := relativeRois src dst back fwd 5 (padOr1 padding) (normAlign align)
  let finish : Rat × Rat → Res Plan := fun sc =>
    let scale := min sc.1 sc.2
    match pickReadScale scale with
    | .error e => .error e
    | .ok rs => .ok ⟨r.1, r.2, false, rs, scale, sc⟩
  if ¬ ROI.isEmpty r.2 then
    let c : Rat × Rat := (((r.2.2.start + r.2.2.stop : Int) : Rat) / 2, ((r.2.1.start + r.2.1.stop : Int) : Rat) / 2)
    match scaleAt c with
    | .ok sc => finish sc
    | .err e => .error e
    | .nan =>
      if fb then
        -- `(center_pt,) = tr([xy_(roi_center(roi_src)[::-1])])`, then the estimate again
        let cs : Rat × Rat := (((r.1.2.start + r.1.2.stop : Int) : Rat) / 2, ((r.1.1.start + r.1.1.stop : Int) : Rat) / 2)
        match fwd cs with
        | (.fin x, .fin y) =>
          match scaleAt (x, y) with
          | .ok sc => finish sc
          | .err e => .error e
          | .nan => .error .assertion
        | _ => .error .assertion
      else .error .assertion        -- `assert scale > 0` on a NaN
  else .ok ⟨r.1, r.2, false, 1, 0, (0, 0)⟩

end OdcGeo.C03
