/-
`affine.Affine` over exact rationals (core Lean only).

    | x' |   | a  b  c | | x |
    | y' | = | d  e  f | | y |
    | 1  |   | 0  0  1 | | 1 |

Composition `A * B` applies `B` first (as `Affine.__matmul__`); `inv` follows
`Affine.__invert__` (defined for `det ≠ 0`, the code raises otherwise).
-/
import OdcGeo.Model.IO
namespace OdcGeo

structure Aff where
  a : Rat
  b : Rat
  c : Rat
  d : Rat
  e : Rat
  f : Rat
  deriving DecidableEq, Repr

namespace Aff

def id : Aff := ⟨1, 0, 0, 0, 1, 0⟩
def translation (tx ty : Rat) : Aff := ⟨1, 0, tx, 0, 1, ty⟩
def scale (sx sy : Rat) : Aff := ⟨sx, 0, 0, 0, sy, 0⟩

def det (A : Aff) : Rat := A.a * A.e - A.b * A.d

/-- `A * B` : apply `B`, then `A`. -/
def mul (A B : Aff) : Aff :=
  ⟨A.a * B.a + A.b * B.d, A.a * B.b + A.b * B.e, A.a * B.c + A.b * B.f + A.c,
   A.d * B.a + A.e * B.d, A.d * B.b + A.e * B.e, A.d * B.c + A.e * B.f + A.f⟩

instance : Mul Aff := ⟨mul⟩

/-- `A * (x, y)` -/
def apply (A : Aff) (p : Rat × Rat) : Rat × Rat :=
  (A.a * p.1 + A.b * p.2 + A.c, A.d * p.1 + A.e * p.2 + A.f)

/-- `~A` as computed by `Affine.__invert__` (meaningful when `det A ≠ 0`). -/
def inv (A : Aff) : Aff :=
  let idet := 1 / A.det
  let ra := A.e * idet
  let rb := -A.b * idet
  let rd := -A.d * idet
  let re := A.a * idet
  ⟨ra, rb, -A.c * ra - A.f * rb, rd, re, -A.c * rd - A.f * re⟩

/-- `~A` raising `TransformNotInvertibleError` (mapped to `valueError`) for `det = 0`. -/
def inv? (A : Aff) : Res Aff := if A.det = 0 then .error .valueError else .ok A.inv

end Aff

namespace IO

/-- `a;b;c;d;e;f` -/
def parseAff? (s : String) : Option Aff :=
  match (s.splitOn ";").mapM parseRat? with
  | some [a, b, c, d, e, f] => some ⟨a, b, c, d, e, f⟩
  | _ => none

def fmtAff (A : Aff) : String :=
  ";".intercalate ([A.a, A.b, A.c, A.d, A.e, A.f].map fmtRat)

end IO
end OdcGeo
