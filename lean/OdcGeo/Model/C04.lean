/- Model for C04 (core Lean only, no Mathlib). -/
import OdcGeo.Model.IO
namespace OdcGeo.C04

end OdcGeo.C04
