/-
Model for C04 (core Lean only, no Mathlib): `Tiles`, `VariableSizedTiles`, `clip_tiles`
(`odc/geo/roi.py`), `GeoboxTiles.__getitem__/chunk_shape/chunks/_crop/clip`
(`odc/geo/geobox.py`) and `BlockAssembler` (`odc/geo/_blocks.py`).

The library computes every 2-D answer by zipping a one-axis computation over `(y, x)`; the
model defines the one-axis functions and lifts them with `zip2` (first error wins – all errors
of one function are of the same kind, so evaluation order is not observable).

Python ints are unbounded → `Int`.  The only narrowing is the `int32` cumulative sum of
`VariableSizedTiles.__init__`; it is modelled (`wrap32`) and the theorems carry the
hypothesis `Σ chunks < 2^31`.
-/
import OdcGeo.Model.IO
import OdcGeo.Model.C17
import OdcGeo.Model.Affine
import OdcGeo.Spec.PySlice
import OdcGeo.Spec.NpArray
namespace OdcGeo.C04
open OdcGeo OdcGeo.C17 OdcGeo.NpArray

/-- the pixel range `[s.start, s.stop)` contains `y` -/
def _root_.OdcGeo.C17.NSlice.Has (s : NSlice) (y : Int) : Prop := s.start ≤ y ∧ y < s.stop

/-- lift a one-axis computation to `(y, x)` -/
def zip2 {α} (y x : Res α) : Res (α × α) := do
  let a ← y
  let b ← x
  return (a, b)

/-! ## `Tiles`  (roi.py:115-231) -/

/-- exact `ceil(N / n)` for `n ≠ 0`: `-(-N // n)` (as repaired: integer arithmetic instead of
`int(math.ceil(float(N) / n))`, which is off beyond `2^53`). -/
def ceilDiv (N n : Int) : Int :=
  if n > 0 then (N + n - 1) / n else ((-N) + (-n) - 1) / (-n)

/-- `Tiles.__init__`: number of tiles on one axis; `N // 0` raises `ZeroDivisionError`. -/
def mkCount (N n : Int) : Res Int :=
  if n = 0 then .error .zeroDiv else .ok (ceilDiv N n)

/-- `Tiles.shape` on one axis (for a constructed object, i.e. `n ≠ 0`). -/
def count (N n : Int) : Int := ceilDiv N n

/-- `Tiles.__getitem__`, one axis: `norm_slice_2d` then `_slice(i, N, n)`. -/
def getItem (N n : Int) (idx : PIdx) : Res NSlice :=
  let i := normSlice idx (count N n)
  let i_in := i.start * n
  let i_out := i.stop * n
  if 0 ≤ i_in ∧ i_in < N ∧ i_out < N + n then .ok ⟨i_in, min i_out N⟩
  else .error .indexError

/-- `Tiles.tile_shape`'s `_sz(i, n, tile_sz, total_sz)` (as repaired: the edge-tile test
`0 <= i == n - 1` no longer accepts index `-1` of an empty tiling). -/
def tileShape (N n : Int) (i : Int) : Res Int :=
  let T := count N n
  let i := if i < 0 then T + i else i
  if 0 ≤ i ∧ i < T - 1 then .ok n
  else if 0 ≤ i ∧ i = T - 1 then .ok (N - i * n)
  else .error .indexError

/-- `Tiles.chunks`, one axis: `(ny,) * (NY - 1) + (ny_,)`. -/
def chunks (N n : Int) : Res (List Int) := do
  let T := count N n
  let a ← tileShape N n 0
  let b ← tileShape N n (T - 1)
  return List.replicate (T - 1).toNat a ++ [b]

/-- `Tiles.locate`, one axis: range check, then `y // tile_shape((0, 0))`. -/
def locate (N n : Int) (y : Int) : Res Int :=
  if y < 0 ∨ y ≥ N then .error .indexError
  else do
    let ny ← tileShape N n 0
    return y / ny

/-- `Tiles.crop`, one axis: base size of the cropped tiling (tile size is kept). -/
def crop (N n : Int) (idx : PIdx) : Res Int := do
  let s ← getItem N n idx
  return s.stop - s.start

/-! ## `clip_tiles`  (roi.py:98-112) -/

def minL : Int → List Int → Int
  | a, [] => a
  | a, x :: xs => minL (min a x) xs
def maxL : Int → List Int → Int
  | a, [] => a
  | a, x :: xs => maxL (max a x) xs

/-- per-axis part of `clip_tiles`: `(y1, y2)` and the re-based selection;
`np.asarray([]).min()` raises `ValueError`. -/
def clipSel (sel : List Int) : Res (Int × Int × List Int) :=
  match sel with
  | [] => .error .valueError
  | x :: xs =>
    let y1 := minL x xs
    let y2 := maxL x xs
    .ok (y1, y2, sel.map (· - y1))

/-- `clip_tiles(Tiles, selection)`, one axis → `(base', roi, sel_new)`. -/
def clipTiles (N n : Int) (sel : List Int) : Res (Int × NSlice × List Int) := do
  let (y1, y2, new) ← clipSel sel
  let N' ← crop N n (.slc (some y1) (some (y2 + 1)))
  return (N', ⟨y1, y2 + 1⟩, new)

/-! ## `VariableSizedTiles`  (roi.py:234-327) — one axis is a chunk tuple `ch` -/

/-- value of a Python int after a round trip through `int32` arithmetic -/
def wrap32 (x : Int) : Int := (x + 2147483648) % 4294967296 - 2147483648

/-- `cumsum(dtype="int32")` continued from accumulator `acc` -/
def cumsum32 : Int → List Int → List Int
  | _, [] => []
  | acc, c :: cs => let a := wrap32 (acc + c); a :: cumsum32 a cs

/-- `np.asarray([0, *ch], dtype="int32").cumsum(dtype="int32")` (elements of `ch` are in
`int32` range, otherwise numpy 2 raises `OverflowError` – outside the modelled domain). -/
def offsets (ch : List Int) : List Int := 0 :: cumsum32 0 ch

/-- `.shape`: `len(offsets) - 1` -/
def vcount (ch : List Int) : Int := ((offsets ch).length : Int) - 1

def lastOr (a : Int) : List Int → Int
  | [] => a
  | x :: xs => lastOr x xs

/-- `.base`: `int(offsets[-1])` -/
def vbase (ch : List Int) : Int := lastOr 0 (cumsum32 0 ch)

/-- `np.diff` of an `int32` array (differences wrap like every `int32` operation) -/
def diff32 : List Int → List Int
  | a :: b :: rest => wrap32 (b - a) :: diff32 (b :: rest)
  | _ => []

/-- `.chunks`: `tuple(np.diff(offsets).tolist())` -/
def vchunks (ch : List Int) : List Int := diff32 (offsets ch)

/-- `VariableSizedTiles.__getitem__`, one axis (as repaired: an int index below `-T`,
which `_norm_slice` leaves negative, raises instead of wrapping around `offsets`). -/
def vgetItem (ch : List Int) (idx : PIdx) : Res NSlice :=
  let i := normSlice idx (vcount ch)
  if i.start < 0 then .error .indexError
  else do
    let a ← npGet (offsets ch) i.start
    let b ← npGet (offsets ch) i.stop
    return ⟨a, b⟩

/-- `VariableSizedTiles.tile_shape`, one axis (as repaired: negative indices count from the
end of the *tiles*, anything outside `[-T, T)` raises). -/
def vtileShape (ch : List Int) (i : Int) : Res Int :=
  let T := vcount ch
  let i := if i < 0 then T + i else i
  if i < 0 ∨ i ≥ T then .error .indexError
  else do
    let a ← npGet (offsets ch) i
    let b ← npGet (offsets ch) (i + 1)
    return b - a

/-- `VariableSizedTiles.locate`, one axis. -/
def vlocate (ch : List Int) (y : Int) : Res Int :=
  if y < 0 ∨ y ≥ vbase ch then .error .indexError
  else .ok (searchsortedRight (cumsum32 0 ch) y)

/-- `VariableSizedTiles.crop`, one axis: the chunk tuple of the cropped tiling. -/
def vcrop (ch : List Int) (idx : PIdx) : List Int :=
  let s := normSlice idx (vcount ch)
  pySlice (vchunks ch) s.start s.stop

/-- `clip_tiles(VariableSizedTiles, selection)`, one axis → `(chunks', roi, sel_new)`. -/
def vclipTiles (ch : List Int) (sel : List Int) : Res (List Int × NSlice × List Int) := do
  let (y1, y2, new) ← clipSel sel
  return (vcrop ch (.slc (some y1) (some (y2 + 1))), ⟨y1, y2 + 1⟩, new)

/-! ## the `RoiTiles` protocol on one axis, and its 2-D lift -/

inductive Tiling where
  | reg (N n : Int)
  | var (ch : List Int)
  deriving Repr

namespace Tiling
def count : Tiling → Int
  | .reg N n => C04.count N n
  | .var ch => vcount ch
def base : Tiling → Int
  | .reg N _ => N
  | .var ch => vbase ch
def getItem : Tiling → PIdx → Res NSlice
  | .reg N n, i => C04.getItem N n i
  | .var ch, i => vgetItem ch i
def tileShape : Tiling → Int → Res Int
  | .reg N n, i => C04.tileShape N n i
  | .var ch, i => vtileShape ch i
def chunks : Tiling → Res (List Int)
  | .reg N n => C04.chunks N n
  | .var ch => .ok (vchunks ch)
def locate : Tiling → Int → Res Int
  | .reg N n, y => C04.locate N n y
  | .var ch, y => vlocate ch y
def crop : Tiling → PIdx → Res Tiling
  | .reg N n, i => do let N' ← C04.crop N n i; return .reg N' n
  | .var ch, i => .ok (.var (vcrop ch i))
end Tiling

/-- a 2-D tiling: `(rows, cols)` -/
structure Tiling2 where
  y : Tiling
  x : Tiling

def getItem2 (t : Tiling2) (iy ix : PIdx) : Res (NSlice × NSlice) :=
  zip2 (t.y.getItem iy) (t.x.getItem ix)
def tileShape2 (t : Tiling2) (iy ix : Int) : Res (Int × Int) :=
  zip2 (t.y.tileShape iy) (t.x.tileShape ix)
def chunks2 (t : Tiling2) : Res (List Int × List Int) := zip2 t.y.chunks t.x.chunks
def locate2 (t : Tiling2) (py px : Int) : Res (Int × Int) :=
  zip2 (t.y.locate py) (t.x.locate px)
def crop2 (t : Tiling2) (iy ix : PIdx) : Res Tiling2 := do
  let (a, b) ← zip2 (t.y.crop iy) (t.x.crop ix)
  return ⟨a, b⟩

/-! ## `GeoboxTiles`  (geobox.py:1299-1395) -/

/-- a linear `GeoBox`: shape and pixel-to-world affine (the CRS is carried along unchanged) -/
structure GBox where
  ny : Int
  nx : Int
  A : Aff
  deriving Repr

/-- `GeoBox.__getitem__` for a pair of slices (`compute_crop`, geobox.py:305-339):
`roi_normalise`, then `affine * translation(tx, ty)` and `roi_shape`. -/
def GBox.crop (g : GBox) (ry rx : PIdx) : GBox :=
  let sy := normSlice ry g.ny
  let sx := normSlice rx g.nx
  ⟨sy.stop - sy.start, sx.stop - sx.start, g.A * Aff.translation sx.start sy.start⟩

structure GeoboxTiles where
  base : GBox
  tiles : Tiling2

/-- `GeoboxTiles.__getitem__`: `self._gbox[self._tiles[idx]]` -/
def GeoboxTiles.getItem (g : GeoboxTiles) (iy ix : PIdx) : Res GBox := do
  let (ry, rx) ← getItem2 g.tiles iy ix
  return g.base.crop ry.toPIdx rx.toPIdx

/-- `GeoboxTiles._crop(roi)` -/
def GeoboxTiles.crop (g : GeoboxTiles) (iy ix : PIdx) : Res GeoboxTiles := do
  let (ry, rx) ← getItem2 g.tiles iy ix
  let t ← crop2 g.tiles iy ix
  return ⟨g.base.crop ry.toPIdx rx.toPIdx, t⟩

/-- `GeoboxTiles.clip(selection)` (with `clip_tiles`): cropped tiling + re-based selection -/
def GeoboxTiles.clip (g : GeoboxTiles) (sel : List (Int × Int)) :
    Res (GeoboxTiles × List (Int × Int)) := do
  let (y1, y2, _) ← clipSel (sel.map (·.1))
  let (x1, x2, _) ← clipSel (sel.map (·.2))
  let iy : PIdx := .slc (some y1) (some (y2 + 1))
  let ix : PIdx := .slc (some x1) (some (x2 + 1))
  let t ← crop2 g.tiles iy ix
  let gb ← g.getItem iy ix
  return (⟨gb, t⟩, sel.map fun (y, x) => (y - y1, x - x1))

/-! ## `BlockAssembler`  (_blocks.py:33-167)

Arrays are functions from indices to cell values.  A block array has the index
`(lead, y, x, trail)` where `lead` / `trail` are the index vectors of the axes before / after
the `Y, X` pair (`axis = lead.length`).  The cell type is an arbitrary `Val`; casting / dtype
promotion is numpy's and is not modelled. -/

abbrev Arr (Val : Type) := List Int → Int → Int → List Int → Val

structure Assembler (Val : Type) where
  chy : List Int
  chx : List Int
  /-- keys of the `blocks` mapping, in iteration order -/
  present : List (Int × Int)
  /-- the block stored under a key -/
  blk : Int × Int → Arr Val
  /-- sizes of the axes before / after `Y, X` -/
  lead : List Int
  trail : List Int

/-- per-axis index maps of `zip`ped extra axes -/
def mapIdx : List (Int → Option Int) → List Int → Option (List Int)
  | [], [] => some []
  | f :: fs, j :: js => do
    let a ← f j
    let rest ← mapIdx fs js
    return a :: rest
  | _, _ => none

/-- extra axes: destination `slice(None)` of a `roi_shape`-sized axis, source `roi[k]` of the
block's axis of size `n`. -/
def extraMaps : List Int → List NSlice → Res (List (Int → Option Int))
  | [], [] => .ok []
  | n :: ns, w :: ws => do
    let len := w.stop - w.start
    let m ← assignMap len n ⟨0, len⟩ w
    let rest ← extraMaps ns ws
    return m :: rest
  | _, _ => .error .indexError

/-- Python `sum(chunks)` -/
def total : List Int → Int
  | [] => 0
  | c :: cs => c + total cs

/-- one iteration of the paste loop of `extract` -/
def pasteBlock {Val} (a : Assembler Val) (wl : List NSlice) (wy wx : NSlice) (wt : List NSlice)
    (xx : Arr Val) (key : Int × Int) : Res (Arr Val) := do
  -- yx_roi_b = self._tiles[idx]
  let (by_, bx) ← zip2 (vgetItem a.chy (.idx key.1)) (vgetItem a.chx (.idx key.2))
  -- s_roi, d_roi, _ = roi_intersect3(yx_roi_b, yx_roi)
  let (sy, dy, _) ← sliceIntersect3 by_.toPIdx wy.toPIdx
  let (sx, dx, _) ← sliceIntersect3 bx.toPIdx wx.toPIdx
  -- np.copyto(xx[d_roi], block[s_roi])
  let my ← assignMap (wy.stop - wy.start) (by_.stop - by_.start) dy sy
  let mx ← assignMap (wx.stop - wx.start) (bx.stop - bx.start) dx sx
  let ml ← extraMaps a.lead wl
  let mt ← extraMaps a.trail wt
  let src := a.blk key
  return fun l y x t =>
    match mapIdx ml l, my y, mx x, mapIdx mt t with
    | some l', some y', some x', some t' => src l' y' x' t'
    | _, _, _, _ => xx l y x t

def pasteAll {Val} (a : Assembler Val) (wl : List NSlice) (wy wx : NSlice) (wt : List NSlice) :
    Arr Val → List (Int × Int) → Res (Arr Val)
  | xx, [] => .ok xx
  | xx, k :: ks => do
    let xx' ← pasteBlock a wl wy wx wt xx k
    pasteAll a wl wy wx wt xx' ks

/-- `BlockAssembler.extract(fill, roi=...)` for a roi of slices / ints on `Y, X` and slices on
the other axes: `_norm_roi` (`roi_normalise` against the full shape), `np.full` of
`roi_shape` (a negative extent raises `ValueError`), then the paste loop.  Returns the result
shape `(lead, ny, nx, trail)` and the cells. -/
def extract {Val} (a : Assembler Val) (fill : Val) (rl : List PIdx) (ry rx : PIdx)
    (rt : List PIdx) : Res ((List Int × Int × Int × List Int) × Arr Val) :=
  if rl.length ≠ a.lead.length ∨ rt.length ≠ a.trail.length then .error .indexError
  else
    let wl := (rl.zip a.lead).map fun p => normSlice p.1 p.2
    let wt := (rt.zip a.trail).map fun p => normSlice p.1 p.2
    -- `self._shape` holds the Python `sum(chy), sum(chx)`
    let wy := normSlice ry (total a.chy)
    let wx := normSlice rx (total a.chx)
    let sl := wl.map fun w => w.stop - w.start
    let st := wt.map fun w => w.stop - w.start
    if sl.any (· < 0) ∨ wy.stop - wy.start < 0 ∨ wx.stop - wx.start < 0 ∨ st.any (· < 0) then
      .error .valueError
    else
      (pasteAll a wl wy wx wt (fun _ _ _ _ => fill) a.present).map fun xx =>
        ((sl, wy.stop - wy.start, wx.stop - wx.start, st), xx)

/-! ### `planes_yx`  (_blocks.py:156-167) -/

/-- `np.ndindex(shape)`: all index vectors in lexicographic order -/
def ndindex : List Nat → List (List Nat)
  | [] => [[]]
  | n :: ns => (List.range n).flatMap fun i => (ndindex ns).map fun rest => i :: rest

/-- `planes_yx`: the `Y, X` pair spliced into every index of the other axes at `axis`;
`none` stands for the `(ry, rx)` placeholder. -/
def planesYX (lead trail : List Nat) : List (List (Option Nat)) :=
  (ndindex (lead ++ trail)).map fun idx =>
    (idx.take lead.length).map some ++ [none, none] ++ (idx.drop lead.length).map some

end OdcGeo.C04
