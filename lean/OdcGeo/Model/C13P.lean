/-
C13, cross-CRS half: the same pipeline (`_dask_rio_reproject` / `_do_chunked_reproject` /
`rio_reproject`) with an arbitrary coordinate transformation between the two CRSs as a parameter.

`proj : Rat × Rat → Rat × Rat` maps world coordinates of the destination CRS to world coordinates
of the source CRS (pyproj / GDAL's reprojection transformer, exact — GDAL's *approximate*
transformer is not modelled).  A destination pixel centre `q` samples the source at
`~S (proj (D q))`.  Everything else is the code of `Model/C13.lean`, unchanged.
-/
import OdcGeo.Model.C13
namespace OdcGeo.C13

abbrev Proj := Rat × Rat → Rat × Rat

/-- `samplePix` for an arbitrary destination-pixel → source-pixel map -/
def samplePixM (M : Rat × Rat → Rat × Rat) (h w : Int) (d : Int × Int) : Option (Int × Int) :=
  let p := M ((d.2 : Rat) + 1 / 2, (d.1 : Rat) + 1 / 2)
  if 0 ≤ p.1 ∧ p.1 < (w : Rat) ∧ 0 ≤ p.2 ∧ p.2 < (h : Rat)
  then some (p.2.floor, p.1.floor) else none

/-- GDAL's `GenImgProjTransformer`: destination pixel → destination world → source world →
source pixel -/
def pixMapP (proj : Proj) (S D : Aff) : Rat × Rat → Rat × Rat :=
  fun q => S.inv.apply (proj (D.apply q))

/-- `gdalNearest` for an arbitrary pixel map -/
def gdalNearestM (G : Gdal) (src : Img) (sh sw : Int) (buf : Img) (M : Rat × Rat → Rat × Rat)
    (srcNd dstNd : Option Val) : Img := fun d =>
  match buf d with
  | none => none
  | some _ =>
    let dn := effNodata dstNd srcNd
    match samplePixM M sh sw d with
    | none => some (initVal dn)
    | some s =>
      match src s with
      | none => none
      | some v => if srcNd = some v then some (initVal dn) else some (G.emit dn v)

/-- `_rio_reproject` between geoboxes of different CRSs -/
def rioReprojectPlaneP (V : Variant) (G : Gdal) (k : DKind) (src : Img) (sh sw : Int) (buf : Img)
    (S D : Aff) (proj : Proj) (srcNd dstNd : Option Val) : Img := fun d =>
  (gdalNearestM G (encImg k src) sh sw (encImg k buf) (pixMapP proj S D)
    (encNodata V k srcNd) (encNodata V k dstNd) d).map (decVal k)

def rioReprojectP (V : Variant) (G : Gdal) (k : DKind) (src : Img) (sh sw : Int) (buf : Img)
    (S D : Aff) (proj : Proj) (srcNd dstNd : Option Val) : Img :=
  rioReprojectPlaneP V G k src sh sw buf S D proj srcNd (rioNodataDefault k dstNd)

/-- `_do_chunked_reproject` (one plane), cross-CRS -/
def doChunkedReprojectP (c : Cfg) (proj : Proj) (G : Gdal) (dstIdx : TIdx) (blocks : List Img) :
    Option Img := do
  let sel := lookupDeps c.deps dstIdx
  let (y1, y2) ← minMax (sel.map (·.1))
  let (x1, x2) ← minMax (sel.map (·.2))
  let (wy, cy) ← clipSpans c.sy y1 y2
  let (wx, cx) ← clipSpans c.sx x1 x2
  let selNew := sel.map fun i => (i.1 - y1, i.2 - x1)
  let S' := c.S * Aff.translation wx.1 wy.1
  let ty ← c.dy[dstIdx.1]?
  let tx ← c.dx[dstIdx.2]?
  let D' := c.D * Aff.translation tx.1 ty.1
  let h' := wy.2 - wy.1
  let w' := wx.2 - wx.1
  let asm ← assemble cy cx (selNew.zip blocks) (full h' w' (extractFill c.srcNd c.kind))
  let dst := full (ty.2 - ty.1) (tx.2 - tx.1) (.num 0)
  pure (rioReprojectPlaneP c.variant G c.kind asm h' w' dst S' D' proj c.srcNd
          (chunkDstNodata c.variant c.kind c.srcNd c.dstNd))

def dstTaskP (c : Cfg) (proj : Proj) (G : Gdal) (idx : TIdx) (blocks : List Img) : Option Img :=
  if (lookupDeps c.deps idx).isEmpty then constBlock c idx
  else doChunkedReprojectP c proj G idx blocks

def dstBlockP (c : Cfg) (proj : Proj) (G : Gdal) (src : Img) (idx : TIdx) : Option Img := do
  let blocks ← mapOpt (srcBlock src c.sy c.sx) (lookupDeps c.deps idx)
  dstTaskP c proj G idx blocks

def daskResultP (c : Cfg) (proj : Proj) (G : Gdal) (src : Img) : Img := fun d => do
  let iy ← locate c.dy d.1
  let ix ← locate c.dx d.2
  let ty ← c.dy[iy]?
  let tx ← c.dx[ix]?
  let blk ← dstBlockP c proj G src (iy, ix)
  blk (d.1 - ty.1, d.2 - tx.1)

def wholeResultP (c : Cfg) (proj : Proj) (G : Gdal) (src buf : Img) : Img :=
  rioReprojectP c.variant G c.kind src c.srcH c.srcW buf c.S c.D proj c.srcNd c.dstNd

/-- **The one unproved ingredient of the cross-CRS path, named**: the dependency map lists, for
every destination tile, the source tile of every source pixel that a pixel of that tile samples
through `proj`.  This is what C12's `general_deps_complete_partial` delivers once the footprints
handed to `GeoboxTiles.tiles` (pyproj densification, 4326 round trip, buffering) are supersets of
the true ones. -/
def deps_complete_P (c : Cfg) (proj : Proj) : Prop :=
  ∀ (iy ix : Nat) (d : Int × Int), InTile c.dy iy d.1 → InTile c.dx ix d.2 →
    ∀ s, samplePixM (pixMapP proj c.S c.D) c.srcH c.srcW d = some s →
      ∃ i ∈ lookupDeps c.deps (iy, ix), InTile c.sy i.1 s.1 ∧ InTile c.sx i.2 s.2

end OdcGeo.C13
