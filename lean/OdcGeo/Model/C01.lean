/- Model for C01 (core Lean only, no Mathlib). -/
import OdcGeo.Model.IO
namespace OdcGeo.C01

end OdcGeo.C01
