/-
Model for C01 — "operations never silently mix coordinate reference systems"
(core Lean only, no Mathlib).

What is modelled, function by function (odc-geo as found in /repo):

* `CRS.__eq__` / `__ne__`                     crs.py:252-271            → `crsEq`, `tagEq`, `tagNe`
* `wrap_shapely`                              geom.py:374-392           → walk `guardFirst false`
* `Geometry.split`                            geom.py:808-814           → walk `guardFirst true`
* `common_crs`, `multigeom`                   geom.py:1020-1036,1264    → walk `guardFirst true`
* `unary_union`                               geom.py:1276-1290         → walk `guardFirst false`
* `unary_intersection` (functools.reduce)     geom.py:1293-1297         → walk `reduce`
* `bbox_union`, `bbox_intersection`           geom.py:1330-1383         → walk `foldCheckInside`
* `pixel_translation` and its users           geobox.py:1108-1216, 712-738, 908-923
      `overlap_roi`, `snap_to`, `bounding_box_in_pixel_domain`          → walk `guardFirst _`
      `|`, `&`, `geobox_*_conservative` (generator drained by `bb, *bbs = bbs`
      inside `try … except ValueError`)                                  → walk `pixelEach`
* converting operations (`GeoBox.project/enclosing/__getitem__`,
  `GeoboxTiles.tiles/range_from_bbox/grid_intersect`)                   → `convRun`
* equality tests (`Geometry/BoundingBox/GeoBox/GeoboxTiles.__eq__`)     → `eqRun`

The shapely / pixel-grid arithmetic is a parameter (`Delegate`): C01 is about the guard,
not about the arithmetic.  The bounding-box folds are additionally instantiated with the
real min/max arithmetic over `Rat` (`bboxUnion`, `bboxIntersection`).
-/
import OdcGeo.Model.IO
namespace OdcGeo.C01

/-! ### CRS records and `CRS.__eq__` -/

/-- What `CRS.__eq__` can observe of a constructed `odc.geo.crs.CRS`. -/
structure CrsRec where
  /-- identity of the wrapped pyproj object (`self._crs is other._crs`) -/
  objId : Nat
  /-- `_epsg`; `0` when falsy (`EPSG_UNSET = 0`, or `None` after a failed lookup) -/
  epsg : Nat
  /-- `_str` (abstract: equal numbers ⇔ equal strings) -/
  str : Nat
  /-- class of the wrapped pyproj object under pyproj's own `==` -/
  cls : Nat
  deriving DecidableEq, Repr

/-- `CRS.__eq__(self, other)` for `other` a `CRS` (crs.py:259-268):
identity → EPSG codes (when both truthy) → string → pyproj equality. -/
def crsEq (a b : CrsRec) : Bool :=
  if a.objId = b.objId then true
  else if a.epsg ≠ 0 ∧ b.epsg ≠ 0 then decide (a.epsg = b.epsg)
  else if a.str = b.str then true
  else decide (a.cls = b.cls)

/-- The CRS attribute of a Geometry / BoundingBox / GeoBox: `None` or a `CRS`. -/
abbrev Tag := Option CrsRec

/-- Python `a == b` for `a b : Optional[CRS]`.  `crs == None` → `CRS(None)` raises inside
`__eq__` → `False`; `None == crs` → `NotImplemented` → reflected `crs.__eq__(None)` → `False`. -/
def tagEq : Tag → Tag → Bool
  | none, none => true
  | some a, some b => crsEq a b
  | some _, none => false
  | none, some _ => false

/-- Python `a != b` (`CRS.__ne__` is `not ==`; `None != crs` goes through the reflected `__ne__`). -/
def tagNe (a b : Tag) : Bool := !tagEq a b

/-- Records as produced by `_make_crs` are related as follows (checked on the harness' CRS
pool on every run; pyproj equality is assumed to be an equivalence, hence "class"). -/
structure WF (a b : CrsRec) : Prop where
  /-- the same pyproj object is the same CRS -/
  obj : a.objId = b.objId → a.cls = b.cls
  /-- the string determines the pyproj object up to pyproj equality -/
  str : a.str = b.str → a.cls = b.cls
  /-- two resolved EPSG codes agree exactly when pyproj says the CRSs are equal -/
  epsg : a.epsg ≠ 0 → b.epsg ≠ 0 → (a.epsg = b.epsg ↔ a.cls = b.cls)

/-! ### errors, operands, results -/

inductive Err where
  | crsMismatch      -- odc.geo.crs.CRSMismatchError (a ValueError)
  | valueError       -- plain ValueError
  | assertion
  | typeError
  | keyError
  | other (code : Nat)   -- anything the delegate raises
  deriving DecidableEq, Repr

/-- `except ValueError: raise ValueError(...)` around the drained generator in
`bbox_union`/`bbox_intersection`: every ValueError (CRSMismatchError included) leaves as a
plain ValueError, everything else propagates. -/
def Err.asValueError : Err → Err
  | .crsMismatch => .valueError
  | e => e

/-- `CRSMismatchError` is a subclass of `ValueError`. -/
def Err.isValueError : Err → Bool
  | .crsMismatch => true
  | .valueError => true
  | _ => false

/-- A CRS-tagged object: the tag and the raw shape (shapely geometry, 4 numbers, shape+affine). -/
structure Obj (S : Type) where
  crs : Tag
  raw : S

/-- Result of an operation. -/
inductive Out (R : Type) where
  /-- Python `None` (empty input of `unary_union`, `common_crs`) -/
  | nothing
  /-- `tag = none`: the result is not a CRS-tagged object (bool, ROI, XY, pixel-domain box);
      `tag = some t`: a Geometry / BoundingBox / GeoBox carrying CRS `t`. -/
  | val (tag : Option Tag) (r : R)

/-- How an operation walks over its operands and where the CRS comparison sits. -/
inductive Walk where
  /-- every check happens before the single delegate call; `rev = false`: `first.crs != arg.crs`
      (wrap_shapely, unary_union, pixel_translation(a,b)); `rev = true`: `arg.crs != first.crs`
      (split, common_crs, overlap_roi/snap_to via `pixel_translation(other, self)`) -/
  | guardFirst (rev : Bool)
  /-- `functools.reduce(Geometry.intersection, geoms)`: guard, delegate, guard, delegate … -/
  | reduce
  /-- `bbox_union` / `bbox_intersection`: min/max are updated first, then the CRS is compared,
      inside the loop -/
  | foldCheckInside
  /-- `bbox_*(bounding_box_in_pixel_domain(g, reference) for g in geoboxes)`: for every operand
      (the reference included) compare CRS then do the pixel arithmetic; all of it inside the
      `try … except ValueError` of the fold -/
  | pixelEach
  deriving DecidableEq, Repr

inductive Arity where
  | two | many
  deriving DecidableEq, Repr

/-- Behaviour of an n-ary operation on an empty operand list. -/
inductive OnEmpty where
  | err (e : Err) | nothing
  deriving DecidableEq, Repr

inductive ResTag where
  | first | untagged
  deriving DecidableEq, Repr

structure OpSpec where
  name : String
  walk : Walk
  arity : Arity
  onEmpty : OnEmpty
  resTag : ResTag
  /-- what is raised on a CRS mismatch: `CRSMismatchError` (geometry, bounding box) or a plain
      `ValueError("Geobox CRSs must match")` (GeoBox operations) -/
  mismatchErr : Err
  deriving Repr

/-- The un-modelled arithmetic (shapely, pixel grid).  `call` is the whole operation on raw
shapes; `init`/`step`/`stepT` are accumulator forms for the folds (`stepT` total: min/max);
`pix` is `bounding_box_in_pixel_domain` without its CRS check, `fin` the rest of
`geobox_*_conservative`. -/
structure Delegate (S R : Type) where
  call : String → List S → Except Err R
  init : String → S → R
  step : String → R → S → Except Err R
  stepT : String → R → S → R
  pix : String → S → S → Except Err R
  fin : String → S → List R → Except Err R

variable {S R : Type}

/-- the `for arg in args[1:]: if first.crs != arg.crs: raise` loop -/
def guardAll (rev : Bool) (e : Err) (t0 : Tag) : List (Obj S) → Except Err Unit
  | [] => .ok ()
  | x :: xs =>
    if (if rev then tagNe x.crs t0 else tagNe t0 x.crs) then .error e
    else guardAll rev e t0 xs

/-- `functools.reduce(Geometry.intersection, …)` after the first element: the accumulator
carries `first.crs` (wrap_shapely re-tags with `first.crs`). -/
def reduceGo (D : Delegate S R) (name : String) (e : Err) (t0 : Tag) : R → List (Obj S) → Except Err R
  | acc, [] => .ok acc
  | acc, x :: xs =>
    if tagNe t0 x.crs then .error e
    else match D.step name acc x.raw with
      | .error e' => .error e'
      | .ok acc' => reduceGo D name e t0 acc' xs

/-- loop body of `bbox_union`: `L = min(l, L) …` **then** `if crs != bb.crs: raise`. -/
def foldGo (D : Delegate S R) (name : String) (e : Err) (t0 : Tag) : R → List (Obj S) → Except Err R
  | acc, [] => .ok acc
  | acc, x :: xs =>
    let acc' := D.stepT name acc x.raw
    if tagNe t0 x.crs then .error e else foldGo D name e t0 acc' xs

/-- the generator `bounding_box_in_pixel_domain(g, reference) for g in geoboxes`:
`pixel_translation(g, reference)` compares `g.crs != reference.crs` before any arithmetic. -/
def pixGo (D : Delegate S R) (name : String) (e : Err) (ref : Obj S) : List (Obj S) → Except Err (List R)
  | [] => .ok []
  | x :: xs =>
    if tagNe x.crs ref.crs then .error e
    else match D.pix name x.raw ref.raw with
      | .error e' => .error e'
      | .ok b => match pixGo D name e ref xs with
        | .error e' => .error e'
        | .ok bs => .ok (b :: bs)

def outTag (op : OpSpec) (t0 : Tag) : Option Tag :=
  match op.resTag with
  | .first => some t0
  | .untagged => none

/-- One combining operation on CRS-tagged operands: `guard operands >>= delegate`. -/
def run (op : OpSpec) (D : Delegate S R) (xs : List (Obj S)) : Except Err (Out R) :=
  match xs with
  | [] =>
    match op.arity with
    | .two => .error .typeError
    | .many => match op.onEmpty with
      | .err e => .error e
      | .nothing => .ok .nothing
  | x0 :: rest =>
    if op.arity = .two ∧ rest.length ≠ 1 then .error .typeError
    else
      match op.walk with
      | .guardFirst rev =>
        match guardAll rev op.mismatchErr x0.crs rest with
        | .error e => .error e
        | .ok () => match D.call op.name (x0.raw :: rest.map (·.raw)) with
          | .error e => .error e
          | .ok r => .ok (.val (outTag op x0.crs) r)
      | .reduce =>
        match reduceGo D op.name op.mismatchErr x0.crs (D.init op.name x0.raw) rest with
        | .error e => .error e
        | .ok r => .ok (.val (outTag op x0.crs) r)
      | .foldCheckInside =>
        match foldGo D op.name op.mismatchErr x0.crs (D.init op.name x0.raw) rest with
        | .error e => .error e
        | .ok r => .ok (.val (outTag op x0.crs) r)
      | .pixelEach =>
        match pixGo D op.name op.mismatchErr x0 (x0 :: rest) with
        | .error e => .error e.asValueError
        | .ok bs => match D.fin op.name x0.raw bs with
          | .error e => .error e
          | .ok r => .ok (.val (outTag op x0.crs) r)

/-! ### the same computations without any CRS (what shapely / the pixel arithmetic returns) -/

def rawReduce (D : Delegate S R) (name : String) : R → List S → Except Err R
  | acc, [] => .ok acc
  | acc, s :: ss => match D.step name acc s with
    | .error e => .error e
    | .ok acc' => rawReduce D name acc' ss

def rawFold (D : Delegate S R) (name : String) : R → List S → R
  | acc, [] => acc
  | acc, s :: ss => rawFold D name (D.stepT name acc s) ss

def rawPix (D : Delegate S R) (name : String) (ref : S) : List S → Except Err (List R)
  | [] => .ok []
  | s :: ss => match D.pix name s ref with
    | .error e => .error e
    | .ok b => match rawPix D name ref ss with
      | .error e => .error e
      | .ok bs => .ok (b :: bs)

/-- The operation on raw shapes: `none` is Python `None`. -/
def rawRun (op : OpSpec) (D : Delegate S R) (ss : List S) : Except Err (Option R) :=
  match ss with
  | [] =>
    match op.arity with
    | .two => .error .typeError
    | .many => match op.onEmpty with
      | .err e => .error e
      | .nothing => .ok none
  | s0 :: rest =>
    if op.arity = .two ∧ rest.length ≠ 1 then .error .typeError
    else
      match op.walk with
      | .guardFirst _ => (D.call op.name (s0 :: rest)).map some
      | .reduce => (rawReduce D op.name (D.init op.name s0) rest).map some
      | .foldCheckInside => .ok (some (rawFold D op.name (D.init op.name s0) rest))
      | .pixelEach =>
        match rawPix D op.name s0 (s0 :: rest) with
        | .error e => .error e.asValueError
        | .ok bs => (D.fin op.name s0 bs).map some

/-- re-tag a raw result with the operands' CRS -/
def retag (op : OpSpec) (t0 : Tag) : Option R → Out R
  | none => .nothing
  | some r => .val (outTag op t0) r

/-! ### the table of combining operations (matched against introspection by the harness) -/

def geomPred (n : String) : OpSpec :=
  ⟨"Geometry." ++ n, .guardFirst false, .two, .nothing, .untagged, .crsMismatch⟩

def geomSet (n : String) : OpSpec :=
  ⟨"Geometry." ++ n, .guardFirst false, .two, .nothing, .first, .crsMismatch⟩

def opTable : List OpSpec :=
  (["contains", "covers", "crosses", "disjoint", "intersects", "touches", "within", "overlaps"].map geomPred)
  ++ (["difference", "intersection", "symmetric_difference", "union", "__and__", "__or__", "__xor__",
       "__sub__"].map geomSet)
  ++ [ ⟨"Geometry.split", .guardFirst true, .two, .nothing, .first, .crsMismatch⟩,
       ⟨"geom.common_crs", .guardFirst true, .many, .nothing, .first, .crsMismatch⟩,
       ⟨"geom.multigeom", .guardFirst true, .many, .err .keyError, .first, .crsMismatch⟩,
       ⟨"geom.unary_union", .guardFirst false, .many, .nothing, .first, .crsMismatch⟩,
       ⟨"geom.unary_intersection", .reduce, .many, .err .typeError, .first, .crsMismatch⟩,
       ⟨"geom.intersects", .guardFirst false, .two, .nothing, .untagged, .crsMismatch⟩,
       ⟨"geom.bbox_union", .foldCheckInside, .many, .err .valueError, .first, .crsMismatch⟩,
       ⟨"geom.bbox_intersection", .foldCheckInside, .many, .err .valueError, .first, .crsMismatch⟩,
       ⟨"BoundingBox.__and__", .foldCheckInside, .two, .nothing, .first, .crsMismatch⟩,
       ⟨"BoundingBox.__or__", .foldCheckInside, .two, .nothing, .first, .crsMismatch⟩,
       ⟨"GeoBox.__or__", .pixelEach, .two, .nothing, .first, .valueError⟩,
       ⟨"GeoBox.__and__", .pixelEach, .two, .nothing, .first, .valueError⟩,
       ⟨"geobox.geobox_union_conservative", .pixelEach, .many, .err .valueError, .first, .valueError⟩,
       ⟨"geobox.geobox_intersection_conservative", .pixelEach, .many, .err .valueError, .first, .valueError⟩,
       ⟨"GeoBox.overlap_roi", .guardFirst true, .two, .nothing, .untagged, .valueError⟩,
       ⟨"GeoBox.snap_to", .guardFirst true, .two, .nothing, .first, .valueError⟩,
       ⟨"geobox.pixel_translation", .guardFirst false, .two, .nothing, .untagged, .valueError⟩,
       ⟨"geobox.bounding_box_in_pixel_domain", .guardFirst false, .two, .nothing, .untagged, .valueError⟩ ]

def findOp (name : String) : Option OpSpec := opTable.find? (·.name = name)

/-! ### operations as programs: where the CRS comparison sits relative to everything else

The walks above fix *one* place for the check.  Here the body of an operation is an explicit
statement list, so that "the check comes before any geometric short-cut" is a property of the
program text (`Prog.safe`) that can be proved to imply the three statements of C01 — and that a
quick reject or a `continue` placed above the check violates. -/

/-- statements of the body of a stream loop (`for bb in bbs:`), in program order -/
inductive LoopStmt where
  | accumulate            -- `L = min(l, L) …`: the operand's raw numbers enter the accumulator
  | check                 -- `if crs != bb.crs: raise`
  | continueIf (p : Nat)  -- `if pred_p(bb): continue` — a skip decided on the raw numbers
  deriving DecidableEq, Repr

/-- statements of a guard-then-call operation, in program order -/
inductive Stmt where
  | checkRest (rev : Bool)   -- `for arg in args[1:]: if first.crs != arg.crs: raise`
  | returnIf (p : Nat)       -- `if quick_p(raw shapes): return shortcut` — a geometric quick reject
  | delegate                 -- the shapely call; returns
  deriving DecidableEq, Repr

inductive Prog where
  | straight (stmts : List Stmt)
  | loop (body : List LoopStmt)
  deriving DecidableEq, Repr

/-- the raw-coordinate predicates and short-cut results such statements may use -/
structure Quick (S R : Type) where
  pred : Nat → List S → Bool
  shortcut : Nat → List S → R
  skip : Nat → S → Bool

def runStmts (op : OpSpec) (D : Delegate S R) (Q : Quick S R) (x0 : Obj S) (rest : List (Obj S)) :
    List Stmt → Except Err (Out R)
  | [] => .ok .nothing                       -- falls off the end: Python `None`
  | .checkRest rev :: more =>
    match guardAll rev op.mismatchErr x0.crs rest with
    | .error e => .error e
    | .ok () => runStmts op D Q x0 rest more
  | .returnIf p :: more =>
    if Q.pred p (x0.raw :: rest.map (·.raw)) then
      .ok (.val (outTag op x0.crs) (Q.shortcut p (x0.raw :: rest.map (·.raw))))
    else runStmts op D Q x0 rest more
  | .delegate :: _ =>
    match D.call op.name (x0.raw :: rest.map (·.raw)) with
    | .error e => .error e
    | .ok r => .ok (.val (outTag op x0.crs) r)

/-- one pass through the loop body for operand `x`: the new accumulator, or the error -/
def runBody (op : OpSpec) (D : Delegate S R) (Q : Quick S R) (t0 : Tag) (x : Obj S) :
    R → List LoopStmt → Except Err R
  | acc, [] => .ok acc
  | acc, .accumulate :: more => runBody op D Q t0 x (D.stepT op.name acc x.raw) more
  | acc, .check :: more => if tagNe t0 x.crs then .error op.mismatchErr else runBody op D Q t0 x acc more
  | acc, .continueIf p :: more => if Q.skip p x.raw then .ok acc else runBody op D Q t0 x acc more

def runLoop (op : OpSpec) (D : Delegate S R) (Q : Quick S R) (t0 : Tag) (body : List LoopStmt) :
    R → List (Obj S) → Except Err R
  | acc, [] => .ok acc
  | acc, x :: xs => match runBody op D Q t0 x acc body with
    | .error e => .error e
    | .ok acc' => runLoop op D Q t0 body acc' xs

def runProg (op : OpSpec) (D : Delegate S R) (Q : Quick S R) (p : Prog) (x0 : Obj S) (rest : List (Obj S)) :
    Except Err (Out R) :=
  match p with
  | .straight stmts => runStmts op D Q x0 rest stmts
  | .loop body => match runLoop op D Q x0.crs body (D.init op.name x0.raw) rest with
    | .error e => .error e
    | .ok r => .ok (.val (outTag op x0.crs) r)

/-- the check is the first thing a guard-then-call operation does -/
def safeStmts : List Stmt → Bool
  | .checkRest _ :: _ => true
  | _ => false

/-- in a loop body nothing can skip the rest of the iteration before the check -/
def safeBody : List LoopStmt → Bool
  | .check :: _ => true
  | .accumulate :: more => safeBody more
  | .continueIf _ :: _ => false
  | [] => false

def Prog.safe : Prog → Bool
  | .straight stmts => safeStmts stmts
  | .loop body => safeBody body

/-- the program text of the table's walks (geom.py:374-392, 808-814, 1020-1036, 1276-1290, 1330-1383;
geobox.py:1108-1133); `reduce` and `pixelEach` are compositions of these and keep their own model -/
def progOf : Walk → Option Prog
  | .guardFirst rev => some (.straight [.checkRest rev, .delegate])
  | .foldCheckInside => some (.loop [.accumulate, .check])
  | .reduce => none
  | .pixelEach => none

/-- for every operand after the first: is its CRS read before (`C`) or after (`R`) its raw
coordinates are first touched — what the harness observes with access-logging operands -/
def accessPattern : Walk → Char
  | .guardFirst _ => 'C'
  | .reduce => 'C'
  | .pixelEach => 'C'
  | .foldCheckInside => 'R'

/-! ### which attribute of a CRS specification decides its identity (`CRS.__init__`, `_make_crs`: crs.py:57-78, 100-122)

Strings / ints / pyproj objects / odc CRS / dicts are read as themselves.  A *foreign* object
(rasterio CRS, any duck type) is accepted iff it has `to_wkt()`, and then its WKT — never its
`to_epsg()` (a fuzzy best match) or `to_string()` — decides which CRS it is. -/

inductive IdSource where
  | itself      -- the text / code / dict / pyproj object / odc CRS that was passed
  | wkt         -- `crs_spec.to_wkt()`
  deriving DecidableEq, Repr

/-- `foreignIdentity hasWkt hasEpsg hasString` -/
def foreignIdentity (hasWkt _hasEpsg _hasString : Bool) : Except Err IdSource :=
  if hasWkt then .ok .wkt else .error (.other 1)   -- pyproj CRSError("Unexpected input encountered")

/-! ### `norm_crs`, `norm_crs_or_error` (crs.py:410-442) -/

inductive CrsInput where
  | none                         -- `None`
  | unset                        -- `Unset()`
  | odc                          -- already an odc `CRS`
  | utmText (hasCtx : Bool)      -- 'utm' / 'utm-n' / 'utm-s' (any case); `ctx` says where
  | otherSpec (accepted : Bool)  -- anything else; `accepted`: `CRS(spec)` can be constructed
  deriving DecidableEq, Repr

inductive Normed where
  | nothing | same | utm | constructed
  deriving DecidableEq, Repr

/-- `norm_crs(crs, ctx)` -/
def normCrs : CrsInput → Except Err Normed
  | .none => .ok .nothing
  | .unset => .ok .nothing
  | .odc => .ok .same
  | .utmText true => .ok .utm
  | .utmText false => .error .assertion          -- `assert ctx is not None`
  | .otherSpec true => .ok .constructed
  | .otherSpec false => .error (.other 1)        -- pyproj CRSError

/-- `norm_crs_or_error(crs, ctx)` -/
def normCrsOrError (i : CrsInput) : Except Err Normed :=
  match normCrs i with
  | .ok .nothing => .error .valueError            -- "Expect valid CRS"
  | r => r

/-! ### call forms

`wrap_shapely` builds `wrapped(*args)`: the sixteen decorated `Geometry` methods take their
operands positionally only (a keyword operand is a `TypeError` before anything is looked at);
every other operation is a plain `def` and also takes its operands by keyword.  Pinned here so
that a newly accepted call form shows up as a correspondence difference and is probed with
mismatching CRSs by the harness. -/

inductive CallForm where
  | positional   -- `Class.op(a, b)` / `a.op(b)` / `f(xs)`
  | operator     -- `a & b`, `a | b`, `a == b`, `g[roi]` (dunder names only)
  | keyword      -- operands other than `self` by parameter name
  | allKeyword   -- every operand, `self` included, by parameter name (unbound call)
  deriving DecidableEq, Repr

/-- the operations produced by `wrap_shapely` (geom.py:510-542) -/
def positionalOnly : List String :=
  (["contains", "covers", "crosses", "disjoint", "intersects", "touches", "within", "overlaps",
    "difference", "intersection", "symmetric_difference", "union", "__and__", "__or__", "__xor__",
    "__sub__"].map ("Geometry." ++ ·))

/-- is the call form accepted (anything else is a `TypeError` raised by Python's argument binding) -/
def callFormAccepted (name : String) (f : CallForm) : Bool :=
  match f with
  | .positional => true
  | .operator => true
  | .keyword => !(positionalOnly.contains name)
  | .allKeyword => !(positionalOnly.contains name)

/-! ### bounding boxes with the real arithmetic (geom.py:1330-1383) -/

structure BBox where
  l : Rat
  b : Rat
  r : Rat
  t : Rat
  deriving DecidableEq, Repr

def rmin (a b : Rat) : Rat := if a ≤ b then a else b
def rmax (a b : Rat) : Rat := if a ≤ b then b else a

/-- `L = min(l, L); B = min(b, B); R = max(r, R); T = max(t, T)` -/
def unionStep (acc x : BBox) : BBox := ⟨rmin x.l acc.l, rmin x.b acc.b, rmax x.r acc.r, rmax x.t acc.t⟩
/-- `L = max(l, L); B = max(b, B); R = min(r, R); T = min(t, T)` -/
def interStep (acc x : BBox) : BBox := ⟨rmax x.l acc.l, rmax x.b acc.b, rmin x.r acc.r, rmin x.t acc.t⟩

def bboxDelegate (stp : BBox → BBox → BBox) : Delegate BBox BBox where
  call := fun _ _ => .error (.other 0)
  init := fun _ s => s
  step := fun _ a s => .ok (stp a s)
  stepT := fun _ a s => stp a s
  pix := fun _ _ _ => .error (.other 0)
  fin := fun _ _ _ => .error (.other 0)

def bboxUnionSpec : OpSpec := ⟨"geom.bbox_union", .foldCheckInside, .many, .err .valueError, .first, .crsMismatch⟩
def bboxInterSpec : OpSpec := ⟨"geom.bbox_intersection", .foldCheckInside, .many, .err .valueError, .first, .crsMismatch⟩

/-- `bbox_union(bbs)` -/
def bboxUnion (xs : List (Obj BBox)) : Except Err (Out BBox) := run bboxUnionSpec (bboxDelegate unionStep) xs
/-- `bbox_intersection(bbs)` -/
def bboxIntersection (xs : List (Obj BBox)) : Except Err (Out BBox) := run bboxInterSpec (bboxDelegate interStep) xs

/-! ### converting operations: the operand is re-projected (or read as pixel coordinates), never mixed -/

inductive ConvPath where
  /-- CRSs compare equal: the operand is used as it is -/
  | same
  /-- both sides carry a CRS and they differ: the operand goes through `to_crs` first -/
  | converted
  /-- documented reading of an operand without CRS as pixel-plane coordinates -/
  | pixelPlane
  deriving DecidableEq, Repr

structure ConvOut where
  path : ConvPath
  /-- `none`: result not CRS-tagged; `some t`: result tagged `t` -/
  tag : Option Tag
  deriving DecidableEq, Repr

/-- `GeoBoxBase.project(g)` (geobox.py:377-395) -/
def projectOp (self g : Tag) : Except Err ConvOut :=
  match g with
  | none => .ok ⟨.pixelPlane, some self⟩
  | some _ =>
    match self with
    | none => .error .assertion
    | some _ => if tagNe g self then .ok ⟨.converted, some none⟩ else .ok ⟨.same, some none⟩

/-- `GeoBox.enclosing(region)` (geobox.py:686-706) -/
def enclosingOp (self region : Tag) : Except Err ConvOut :=
  match region with
  | none => .error .valueError
  | some _ => match projectOp self region with
    | .error e => .error e
    | .ok o => .ok ⟨o.path, some self⟩

/-- `GeoBoxBase.compute_crop(roi)` / `GeoBox.__getitem__(roi)` for a Geometry / BoundingBox /
GeoBox `roi` (geobox.py:305-339, 708-710); `tagged`: `__getitem__` returns a GeoBox. -/
def cropOp (tagged : Bool) (self roi : Tag) : Except Err ConvOut :=
  let t := if tagged then some self else none
  match roi with
  | none => .ok ⟨.pixelPlane, t⟩
  | some _ => match projectOp self roi with
    | .error e => .error e
    | .ok o => .ok ⟨o.path, t⟩

/-- `GeoboxTiles.range_from_bbox(bbox)` (geobox.py:1397-1420) -/
def rangeFromBBoxOp (self bbox : Tag) : Except Err ConvOut :=
  match bbox with
  | none => .ok ⟨.pixelPlane, none⟩
  | some _ => match projectOp self bbox with
    | .error e => .error e
    | .ok o => .ok ⟨o.path, none⟩

/-- `GeoboxTiles.tiles(query)` (geobox.py:1426-1446); `isBBox`: the query is a BoundingBox. -/
def tilesOp (isBBox : Bool) (self query : Tag) : Except Err ConvOut :=
  if isBBox ∧ query = none then .ok ⟨.pixelPlane, none⟩
  else
    match self with
    | some _ =>
      if tagNe query self then
        -- `poly.to_crs(target_crs)`: "Cannot project geometries without CRS"
        match query with
        | none => .error .valueError
        | some _ => .ok ⟨.converted, none⟩
      else .ok ⟨.same, none⟩
    | none =>
      -- no conversion; `range_from_bbox(poly.boundingbox)` projects a tagged box
      match query with
      | some _ => .error .assertion
      | none => .ok ⟨.same, none⟩

/-- `GeoboxTiles.grid_intersect(src)` (geobox.py:1479-1507) -/
def gridIntersectOp (self src : Tag) : Except Err ConvOut :=
  if tagEq src self then .ok ⟨.same, none⟩
  else
    -- `src.base.footprint(4326, 2) & self.base.footprint(4326, 2)`: `assert self.crs is not None`
    match src, self with
    | some _, some _ => .ok ⟨.converted, none⟩
    | _, _ => .error .assertion

def convTable : List String :=
  ["GeoBox.project", "GeoBox.enclosing", "GeoBox.compute_crop", "GeoBox.__getitem__",
   "GeoboxTiles.range_from_bbox", "GeoboxTiles.tiles", "GeoboxTiles.grid_intersect"]

def convRun (name : String) (isBBox : Bool) (self other : Tag) : Option (Except Err ConvOut) :=
  if name = "GeoBox.project" then some (projectOp self other)
  else if name = "GeoBox.enclosing" then some (enclosingOp self other)
  else if name = "GeoBox.compute_crop" then some (cropOp false self other)
  else if name = "GeoBox.__getitem__" then some (cropOp true self other)
  else if name = "GeoboxTiles.range_from_bbox" then some (rangeFromBBoxOp self other)
  else if name = "GeoboxTiles.tiles" then some (tilesOp isBBox self other)
  else if name = "GeoboxTiles.grid_intersect" then some (gridIntersectOp self other)
  else none

/-! ### equality tests: the CRS is part of the identity, a differing CRS answers `False` -/

def eqTable : List String :=
  ["Geometry.__eq__", "BoundingBox.__eq__", "GeoBox.__eq__", "GeoboxTiles.__eq__"]

/-- `self.crs == other.crs and <raw equality>` (geom.py:79-82, 893-899; geobox.py:867-875, 1519-1524) -/
def eqRun (a b : Tag) (rawEq : Bool) : Bool := tagEq a b && rawEq

end OdcGeo.C01
