/-
Model for C19, final increment (core Lean only): cache accounting for HASHABLE CRS-like objects
(`CRS(obj)` for an object with `.to_wkt()` that is hashable but not a pyproj CRS: a rasterio /
osgeo CRS, any user class).  `_make_crs_key` returns the object itself (crs.py:51-52), so it is
its own key in `_crs_cache` — an entry per object, next to the text / pyproj-object keys of the
history model — and `_make_crs` builds `from_wkt(obj.to_wkt())` (crs.py:70).
-/
import OdcGeo.Model.C19
namespace OdcGeo.C19

structure LState where
  core : State := {}
  /-- entries of `_crs_cache` whose key is a hashable CRS-like object (named by its identity);
  the dict keeps the key object and the value alive: these entries pin too -/
  likes : List (Nat × CrsObj) := []
  deriving Repr

/-- `len(_crs_cache)` -/
def LState.cacheLen (σ : LState) : Nat := σ.core.cache.length + σ.likes.length

/-- `CRS(obj)` for the hashable CRS-like object `lid` whose `to_wkt()` is `wkt` -/
def constructLike (W : World) (σ : LState) (lid : Nat) (wkt : String) (pick : Nat) : LState × Res CrsObj :=
  match assoc lid σ.likes with
  | some e => (σ, .ok e)
  | none =>
    match W.fromText wkt with
    | none => (σ, .error .runtimeError)
    | some p =>
      let r := alloc σ.core pick p
      match entryOf r.2 p 0 with
      | .ok e => ({ core := r.1, likes := σ.likes ++ [(lid, e)] }, .ok e)
      | .error x => ({ σ with core := r.1 }, .error x)

/-- ids the garbage collector must keep: the roots of the core and the values of the like-keyed entries -/
def LState.roots (σ : LState) : List Nat := OdcGeo.C19.roots σ.core ++ σ.likes.map (·.2.obj)

end OdcGeo.C19
