/-
Line-protocol helpers shared by every driver module (core Lean only, no Mathlib).

Tokens are separated by single spaces.
  integer        `-12`
  rational       `-7/2` or `3`
  optional       `N` for None, otherwise the value
  list           `[a,b,c]` (no spaces) or `[]`
Outputs use the same syntax; errors are printed as `ERR:<kind>`.
-/
namespace OdcGeo

inductive ErrKind where
  | valueError | indexError | assertion | crsMismatch | runtimeError | notImplemented | zeroDiv
  deriving DecidableEq, Repr

def ErrKind.toStr : ErrKind → String
  | .valueError => "ERR:ValueError"
  | .indexError => "ERR:IndexError"
  | .assertion => "ERR:AssertionError"
  | .crsMismatch => "ERR:CRSMismatch"
  | .runtimeError => "ERR:RuntimeError"
  | .notImplemented => "ERR:NotImplemented"
  | .zeroDiv => "ERR:ZeroDivisionError"

abbrev Res (α : Type) := Except ErrKind α

namespace IO

def parseInt? (s : String) : Option Int := s.toInt?

def parseNat? (s : String) : Option Nat := s.toNat?

def parseRat? (s : String) : Option Rat :=
  match s.splitOn "/" with
  | [n] => (n.toInt?).map (fun (k : Int) => (k : Rat))
  | [n, d] =>
    match n.toInt?, d.toNat? with
    | some k, some m => if m = 0 then none else some (mkRat k m)
    | _, _ => none
  | _ => none

def parseOpt? {α} (p : String → Option α) (s : String) : Option (Option α) :=
  if s = "N" then some none else (p s).map some

def parseBool? (s : String) : Option Bool :=
  if s = "T" then some true else if s = "F" then some false else none

/-- `[a,b,c]` → list of raw element strings (no nesting). -/
def parseListRaw? (s : String) : Option (List String) :=
  if s.length < 2 then none
  else if s.front ≠ '[' || s.back ≠ ']' then none
  else
    let inner := (s.drop 1).dropEnd 1 |>.toString
    if inner = "" then some [] else some (inner.splitOn ",")

def parseList? {α} (p : String → Option α) (s : String) : Option (List α) :=
  match parseListRaw? s with
  | none => none
  | some xs => xs.mapM p

def fmtInt (i : Int) : String := toString i

def fmtRat (r : Rat) : String :=
  if r.den = 1 then toString r.num else s!"{r.num}/{r.den}"

def fmtBool (b : Bool) : String := if b then "T" else "F"

def fmtOpt {α} (f : α → String) : Option α → String
  | none => "N"
  | some a => f a

def fmtList {α} (f : α → String) (xs : List α) : String :=
  "[" ++ ",".intercalate (xs.map f) ++ "]"

def fmtRes {α} (f : α → String) : Res α → String
  | .ok a => f a
  | .error e => e.toStr

end IO
end OdcGeo

namespace OdcGeo

partial def driverLoop (run : List String → Option String) (hin hout : IO.FS.Stream) : IO Unit := do
  let line ← hin.getLine
  if line.isEmpty then return ()
  let toks := (line.trimAscii.toString.splitOn " ")
  -- first token is the property tag (`c17`), kept for readability of line files
  let out := match toks with
    | _ :: rest => (run rest).getD "bad-op"
    | [] => "bad-op"
  hout.putStrLn out
  driverLoop run hin hout

/-- Entry point shared by all per-property drivers: one op per line in, one line out. -/
def driverMain (run : List String → Option String) : IO Unit := do
  let hin ← IO.getStdin
  let hout ← IO.getStdout
  driverLoop run hin hout
  hout.flush

end OdcGeo
