/-
Shape-driven branches of `GeoBox.from_bbox` (geobox.py:558-589) on regions / tolerances that may be `nan` or `±inf`,
on top of the IEEE model of `Model/C20NonFinite.lean` (the resolution branch is `C20.NF.fromBboxResX` there).
-/
import OdcGeo.Model.C20NonFinite
namespace OdcGeo.C08.NF
open OdcGeo.C20 OdcGeo.C20.NF

/-- What is observable of the result: `(ny, nx, a, e, c, f)` of `affine = translation(offx, offy) * scale(rx, ry)`
(`a = rx`, `e = ry`, `c = offx`, `f = offy`; the off-diagonal terms are `0·ry` / `0·rx`, i.e. `nan` for a non-finite
pixel size). -/
structure GBX where
  ny : Int
  nx : Int
  a : XF
  e : XF
  c : XF
  f : XF
  deriving DecidableEq, Repr

/-- `from_bbox(region, shape=(ny, nx), anchor→snap, tol=)`: pixel size `span / shape`, then either no snapping
(`snap = none`: origin = the region's top-left corner, **nothing is checked**) or one `snap_grid` per axis. -/
def fromBboxShapeX (l b r t : XF) (ny nx : Int) (snap : Option (XF × XF)) (tol : XF) : NRes GBX := do
  let rx ← div (sub r l) (ofInt nx)
  let ry ← div (neg (sub t b)) (ofInt ny)
  match snap with
  | none => pure ⟨ny, nx, rx, ry, l, t⟩
  | some (sx, sy) =>
    let (offx, _) ← snapGridX l r rx (some sx) tol
    let (offy, _) ← snapGridX b t ry (some sy) tol
    pure ⟨ny, nx, rx, ry, offx, offy⟩

/-- the resolution a number `shape` stands for: `span_x / q if bbox.aspect > 1 else span_y / q`
(`aspect = span_x / span_y`; a `nan` aspect compares false) -/
def numShapeResX (l b r t q : XF) : NRes XF := do
  let aspect ← div (sub r l) (sub t b)
  if lt (.fin 1) aspect then div (sub r l) q else div (sub t b) q

/-- `from_bbox(region, shape=<number q>, …)`: that resolution, then the resolution branch with `(res, -res)`. -/
def fromBboxNumShapeX (l b r t q : XF) (snap : Option (XF × XF)) (tol : XF) : NRes GBX := do
  let res ← numShapeResX l b r t q
  let (offx, nx) ← snapGridX l r res (snap.map (·.1)) tol
  let (offy, ny) ← snapGridX b t (neg res) (snap.map (·.2)) tol
  pure ⟨ny, nx, res, neg res, offx, offy⟩

end OdcGeo.C08.NF
