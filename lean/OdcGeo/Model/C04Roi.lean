/-
Model of `BlockAssembler._norm_roi` (`odc/geo/_blocks.py:97-121`) and of `extract` for an
arbitrarily spelled window (core Lean only): which axes a window addresses, how a short window
is padded, which axes an int index squeezes.
-/
import OdcGeo.Model.C04
namespace OdcGeo.C04
open OdcGeo OdcGeo.C17 OdcGeo.NpArray

/-- the `roi` argument of `extract` / `__getitem__` -/
inductive Roi where
  | none                       -- `roi=None`
  | single (i : PIdx)          -- a bare index / slice (not a tuple)
  | tuple (is : List PIdx)
  deriving Repr

/-- `slice(0, n)` -/
def fullIdx (n : Int) : PIdx := .slc (some 0) (some n)

def isInt : PIdx → Bool
  | .idx _ => true
  | .slc _ _ => false

/-- first half of `_norm_roi`: the window as a full-rank tuple.  A 2-tuple is always the `Y, X`
window (padded with full slices on the leading / trailing axes), a shorter tuple addresses the
first axes, a longer one raises `IndexError`. -/
def padRoi (shape : List Int) (axis : Nat) (roi : Roi) : Res (List PIdx) :=
  let r : List PIdx := match roi with
    | .none => shape.map fullIdx
    | .single i => [i]
    | .tuple is => is
  if r.length = 2 then
    .ok ((shape.take axis).map fullIdx ++ r ++ (shape.drop (axis + 2)).map fullIdx)
  else if r.length < shape.length then .ok (r ++ (shape.drop r.length).map fullIdx)
  else if r.length > shape.length then .error .indexError
  else .ok r

/-- `to_squeze`, scanning from axis number `k`: axes other than `Y, X` indexed with a single int -/
def squeezeFrom (axis : Nat) : Nat → List PIdx → List Nat
  | _, [] => []
  | k, p :: ps =>
    (if isInt p && k != axis && k != axis + 1 then [k] else []) ++ squeezeFrom axis (k + 1) ps

/-- `to_squeze` of `_norm_roi` -/
def squeezeAxes (axis : Nat) (r : List PIdx) : List Nat := squeezeFrom axis 0 r

/-- `_norm_roi(roi)` → `(roi_normalise(roi, shape), to_squeze)` -/
def normRoi (shape : List Int) (axis : Nat) (roi : Roi) : Res (List NSlice × List Nat) := do
  let r ← padRoi shape axis roi
  return ((r.zip shape).map fun p => normSlice p.1 p.2, squeezeAxes axis r)

/-- the assembler's `.shape` -/
def Assembler.shape {Val} (a : Assembler Val) : List Int :=
  a.lead ++ [total a.chy, total a.chx] ++ a.trail

/-- `np.squeeze(xx, axis=to_squeze)`: drop the listed axes (scanning from axis number `k`) -/
def dropFrom (sq : List Nat) : Nat → List Int → List Int
  | _, [] => []
  | k, n :: ns => (if sq.contains k then [] else [n]) ++ dropFrom sq (k + 1) ns

def dropAxes (sq : List Nat) (shape : List Int) : List Int := dropFrom sq 0 shape

/-- `extract(fill, roi=…)` for any spelling of the window: the shape of the returned array (after
squeezing), the shape before squeezing and the cells (indexed before squeezing; a squeezed axis
has length 1). -/
def extractND {Val} (a : Assembler Val) (fill : Val) (roi : Roi) :
    Res (List Int × (List Int × Int × Int × List Int) × Arr Val) := do
  let r ← padRoi a.shape a.lead.length roi
  match r.drop a.lead.length with
  | ry :: rx :: rt =>
    let (shp, xx) ← extract a fill (r.take a.lead.length) ry rx rt
    return (dropAxes (squeezeAxes a.lead.length r) (shp.1 ++ [shp.2.1, shp.2.2.1] ++ shp.2.2.2), shp, xx)
  | _ => .error .indexError

end OdcGeo.C04
