/-
`polygon_path(x, y=None, closed=True)` (roi.py:350-389): the points along the axis-aligned ring spanned by the
coordinate vectors `x` and `y`, in `edge_index` order (model of `edge_index`: `Model/C03.lean::edgeIndex`, whose
formula covers every shape, 0 and 1 included).  Core Lean only.
-/
import OdcGeo.Model.C03
namespace OdcGeo.C17

/-- `edge_index((ny, nx), closed)` -/
def edgeIndexC (nx ny : Nat) (closed : Bool) : List (Nat × Nat) :=
  C03.edgeIndex nx ny ++ (if closed then [(0, 0)] else [])

/-- the grid point with ring index `(iy, ix)`; an index beyond a vector is numpy's `IndexError` -/
def pickPt (xs ys : List Rat) (p : Nat × Nat) : Res (Rat × Rat) :=
  match xs[p.2]?, ys[p.1]? with
  | some x, some y => .ok (x, y)
  | _, _ => .error .indexError

/-- `polygon_path(x, y, closed)` → the `(x, y)` points (the code returns the `2×N` array of them); `y = none` means
`y = x`; `IndexError` only when a vector is empty; no ring index at all (`x` empty, `y` at most one value, open) cannot be
unpacked into `iy, ix` (`ValueError`) -/
def polygonPath (xs : List Rat) (ys : Option (List Rat)) (closed : Bool) : Res (List (Rat × Rat)) :=
  let idx := edgeIndexC xs.length (ys.getD xs).length closed
  if idx.isEmpty then .error .valueError else idx.mapM (pickPt xs (ys.getD xs))

end OdcGeo.C17
