/-
Model for C18, growth round 2 (core Lean only): the public entry points around the lazily initialised S3
writer of `odc/geo/cog/_s3.py`.

* `Up`    – the in-process `DelayedS3Writer.__call__ / finalise` with the BODIES of the parts, against a storage
            service that keeps the parts of an upload by part number (a later `upload_part` of the same number
            replaces the earlier one), rejects a completion that lists an unknown part (InvalidPart), a list
            that is not ascending (InvalidPartOrder) or a non-last part below the service's minimal part size
            (EntityTooSmall), and assembles the object from the listed parts.
* `uploadWriter` / `writerPrep` – the glue of `MultiPartUpload.upload` (197-219) and `.writer` (188-194).
* `SeqK`  – `cancel("all")` / `list_active` (153-175) when the service also holds active uploads of OTHER keys
            that begin with this object's key (`list_multipart_uploads(Prefix=key)` lists those too).
-/
import OdcGeo.Model.C18
import OdcGeo.Model.C06
namespace OdcGeo.C18

/-! ## The in-process writer with bodies (`__call__` 307-309, `finalise` 311-319, `write_part` 119-130,
`MultiPartUpload.finalise` 136-147) -/
namespace Up

inductive UCall where
  | create (id : Nat)
  | upload (part id : Nat) (body : Bytes)     -- `upload_part(PartNumber, Body, Bucket, Key, UploadId)`
  | complete (id : Nat) (parts : List Nat)    -- `complete_multipart_upload(..., MultipartUpload={"Parts": parts})`
  deriving DecidableEq, Repr

def UCall.id : UCall → Nat
  | .create i => i
  | .upload _ i _ => i
  | .complete i _ => i

def UCall.isCreate : UCall → Bool
  | .create _ => true
  | _ => false

inductive UErr where
  | assertion         -- `assert len(parts) > 0` (312)
  | noSuchUpload      -- the upload named is not active
  | invalidPart       -- a listed part was never uploaded
  | invalidPartOrder  -- the list is not in ascending part-number order
  | entityTooSmall    -- a listed part other than the last is smaller than the service's minimum
  deriving DecidableEq, Repr

def UErr.toStr : UErr → String
  | .assertion => "ERR:AssertionError"
  | .noSuchUpload => "ERR:NoSuchUpload"
  | .invalidPart => "ERR:InvalidPart"
  | .invalidPartOrder => "ERR:InvalidPartOrder"
  | .entityTooSmall => "ERR:EntityTooSmall"

structure State where
  uploadId : Nat := 0                   -- `mpu.uploadId`, `0` = `""`
  creates : Nat := 0                    -- uploads the service has handed out
  live : Bool := false                  -- the upload `uploadId` is active on the service
  held : List (Nat × Bytes) := []       -- the parts the service holds for it
  object : Option Bytes := none         -- the object under the key (result of the last completion)
  calls : List UCall := []              -- storage calls, most recent first
  deriving DecidableEq, Repr

/-- the service stores a part: a later upload of the same part number replaces the earlier one -/
def put (held : List (Nat × Bytes)) (w : Nat × Bytes) : List (Nat × Bytes) :=
  (w.1, w.2) :: held.filter (fun q => q.1 != w.1)

/-- `_ensure_init` without contention (262-275): initiate iff not started -/
def ensureInit (s : State) : State :=
  if s.uploadId ≠ 0 then s
  else { s with uploadId := s.creates + 1, creates := s.creates + 1, live := true, held := [],
                calls := .create (s.creates + 1) :: s.calls }

/-- `writer(part, data)` -/
def write (s : State) (w : Nat × Bytes) : State × Option UErr :=
  let s1 := ensureInit s
  let s2 := { s1 with calls := .upload w.1 s1.uploadId w.2 :: s1.calls }
  if s1.live then ({ s2 with held := put s1.held w }, none) else (s2, some .noSuchUpload)

/-- the bodies of the listed parts, `none` when one was never uploaded -/
def gather (held : List (Nat × Bytes)) : List Nat → Option (List Bytes)
  | [] => some []
  | p :: ps =>
    match held.lookup p, gather held ps with
    | some b, some bs => some (b :: bs)
    | _, _ => none

def ascending : List Nat → Bool
  | [] => true
  | [_] => true
  | a :: b :: rest => decide (a < b) && ascending (b :: rest)

/-- every body except the last has at least `m` bytes -/
def sizesOk (m : Nat) : List Bytes → Bool
  | [] => true
  | [_] => true
  | b :: c :: rest => decide (m ≤ b.length) && sizesOk m (c :: rest)

/-- `writer.finalise(parts)`; `ps` = the part numbers of the given records in the given order, `minSz` = the
minimal size the service demands of every part but the last -/
def finalise (minSz : Nat) (s : State) (ps : List Nat) : State × Option UErr :=
  if ps.isEmpty then (s, some .assertion)
  else
    let s1 := ensureInit s
    let s2 := { s1 with calls := .complete s1.uploadId ps :: s1.calls }
    if !s1.live then (s2, some .noSuchUpload)
    else if !ascending ps then (s2, some .invalidPartOrder)
    else
      match gather s1.held ps with
      | none => (s2, some .invalidPart)
      | some bodies =>
        if !sizesOk minSz bodies then (s2, some .entityTooSmall)
        else ({ s2 with live := false, held := [], object := some bodies.flatten }, none)

/-- a sequence of writes (errors are collected, the run goes on as the caller's loop would not: it stops) -/
def runWrites : State → List (Nat × Bytes) → State × Option UErr
  | s, [] => (s, none)
  | s, w :: rest =>
    match write s w with
    | (s1, none) => runWrites s1 rest
    | (s1, some e) => (s1, some e)

end Up

/-! ## Crash during `MPUFileSink.finalise` (70-94) -/

/-- `finalise(parts, keep_parts=False)` interrupted (process killed, disk error) after the first `k` listed parts
have been dealt with completely - the first renamed onto the destination, every further one appended AND unlinked;
`k = 0`: before the rename.  The parts directory is still there. -/
def Sink.finaliseCrash (s : Sink) (ps : List Nat) (k : Nat) : Sink :=
  match ps.take k with
  | [] => s
  | first :: rest =>
    match s.lookup first with
    | none => s
    | some d => (Sink.appendParts true false { (s.unlink first) with dst := some d } rest).1

/-- Byte-granular crash: after `k` complete parts the append of the next listed part was cut after `j` of its bytes
(disk error, signal); that part's file has not been unlinked. -/
def Sink.finaliseCrashBytes (s : Sink) (ps : List Nat) (k j : Nat) : Sink :=
  let c := s.finaliseCrash ps k
  match (ps.drop k).head? with
  | none => c
  | some next =>
    match c.lookup next with
    | none => c
    | some d => { c with dst := c.dst.map (· ++ d.take j) }

/-- The process is KILLED (no unwinding, nothing flushed) after `k ≥ 1` listed parts have been appended and unlinked.
`flushed = true`: every part's bytes are pushed out of the process (`f.flush()`) before its file is unlinked - the
kill is the part-granular crash.  `flushed = false`, the code as found: the destination is opened buffered
(`open(dst, "ab")`) and a part is unlinked right after `f.write`; parts smaller than the write buffer (8 KiB) have
not left the process yet - the destination holds the renamed first part only, the unlinked parts' bytes are gone.
(Model of the as-found case for listed parts below the buffer size.) -/
def Sink.finaliseKill (flushed : Bool) (s : Sink) (ps : List Nat) (k : Nat) : Sink :=
  let c := s.finaliseCrash ps k
  if flushed || k == 0 then c
  else
    match ps with
    | [] => c
    | first :: _ => { c with dst := match s.lookup first with | some d => some d | none => c.dst }

/-- `list_active()` (172-175) asks for ONE page: `list_multipart_uploads` answers with at most `page` uploads
(1000 on S3) and `IsTruncated`; the code does not follow `NextKeyMarker` / `NextUploadIdMarker`.  `cancel("all")`
therefore aborts the first `page` active uploads of the key (oldest first), then resets the object. -/
def cancelAllPaged (page : Nat) (s : Seq.State) : Seq.State × List Seq.SCall :=
  let listed := s.active.take page
  ({ s with uploadId := 0, active := s.active.drop page, aborted := listed ++ s.aborted },
   .list :: listed.map .abort)

/-- `cancel("all")` repeated `n` times -/
def cancelAllPagedN (page : Nat) : Nat → Seq.State → Seq.State
  | 0, s => s
  | n + 1, s => cancelAllPagedN page n (cancelAllPaged page s).1

/-! ## Glue of the public entry points -/

/-- the limits `mpu_write` reads off a `DelayedS3Writer` (`S3Limits`) -/
def s3Writer : C06.Writer :=
  ⟨(s3Limit .minWriteSz).toNat, (s3Limit .minPart).toNat, (s3Limit .maxPart).toNat⟩

/-- `MultiPartUpload.upload` (209): `write = self.writer(kw, client=client) if spill_sz else None` -/
def uploadWriter (spill : Nat) : Option C06.Writer := if spill ≠ 0 then some s3Writer else none

/-- `MultiPartUpload.writer(kw, client=client)` (188-194): which client the new writer is prepared with
(`prep_client`: the shared variable is created and reset to `None`): the explicit one, else the ambient one
`_dask_client()` finds, else none (the writer is not prepared). `some true` = the explicit client. -/
def writerPrep (explicit ambient : Bool) : Option Bool :=
  if explicit then some true else if ambient then some false else none

/-! ## `cancel("all")` against a service that holds uploads of other keys -/
namespace SeqK

inductive Op where
  | own (o : Seq.Op)      -- an operation of this object (key `k`)
  | foreignStart          -- somebody initiates an upload for another key that begins with `k` (`k.ovr`, `k.aux.xml`)
  | foreignDone           -- the oldest such upload is completed
  deriving DecidableEq, Repr

/-- `own.creates` is the service's counter (ids are handed out by the service, whatever the key) -/
structure State where
  own : Seq.State := {}
  foreign : List Nat := []      -- active uploads of other keys that begin with this object's key, oldest first
  deriving DecidableEq, Repr

/-- `list_active()` (172-175): `list_multipart_uploads(Bucket, Prefix=key)` answers with the active uploads of
every key that begins with `key`, ordered by key: this object's own first.  `filtered = true`: only entries
whose `Key` equals the object's key are returned (the repaired code). -/
def listActive (filtered : Bool) (s : State) : List Nat :=
  if filtered then s.own.active else s.own.active ++ s.foreign

/-- the abort loop of `cancel("all")` (160-163): every id is aborted under THIS object's key; an id of
another key is NoSuchUpload, the exception leaves the loop -/
def abortLoop (own : Seq.State) : List Nat → Seq.State × List Seq.SCall × Bool
  | [] => (own, [], true)
  | i :: rest =>
    if own.active.contains i then
      let r := abortLoop { own with active := own.active.filter (· != i), aborted := i :: own.aborted } rest
      (r.1, .abort i :: r.2.1, r.2.2)
    else (own, [.abort i], false)

def step (filtered : Bool) (s : State) : Op → State × List Seq.SCall × Bool
  | .own .cancelAll =>
    let r := abortLoop s.own (listActive filtered s)
    -- `self.uploadId = ""` (164) is reached only when the loop was not left by an exception
    ({ s with own := if r.2.2 then { r.1 with uploadId := 0 } else r.1 }, .list :: r.2.1, r.2.2)
  | .own o =>
    let r := Seq.step s.own o
    ({ s with own := r.1 }, r.2.1, r.2.2)
  | .foreignStart =>
    ({ own := { s.own with creates := s.own.creates + 1 }, foreign := s.foreign ++ [s.own.creates + 1] }, [], true)
  | .foreignDone => ({ s with foreign := s.foreign.drop 1 }, [], true)

def run (filtered : Bool) : State → List Op → State × List Seq.SCall × List Bool
  | s, [] => (s, [], [])
  | s, o :: rest =>
    let r := step filtered s o
    let rr := run filtered r.1 rest
    (rr.1, r.2.1 ++ rr.2.1, r.2.2 :: rr.2.2)

end SeqK

end OdcGeo.C18
