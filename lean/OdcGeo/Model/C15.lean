/-
Model for C15 — decision core of the GDAL (rasterio) COG writer `odc/geo/cog/_rio.py`
(core Lean only).  Only the decisions odc-geo itself takes are modelled:

  _rio.py  check_write_path (32-54), _default_cog_opts (57-69), _norm_compression_opts (72-83),
           _write_cog: band-layout normalisation (109-124), default overview levels (126-130),
           block-size warning (139-140); write_cog_layers uses the same _default_cog_opts
  _shared.py adjust_blocksize (146-149)  — shared with C05, imported from its model

Everything GDAL / rasterio does (encoding, overview resampling, the two-pass copy, decoding) is
NOT modelled; it is exercised by the round trip of the harness and trusted.
-/
import OdcGeo.Model.IO
import OdcGeo.Model.C05
import OdcGeo.Model.CogShared
namespace OdcGeo.C15
open OdcGeo.C05 (adjustBlocksize alignUp YX)

/-! ### band layout (`_write_cog`, 109-124) -/

inductive LErr where
  | valueError   -- "GeoBox shape does not match image shape" / "Need 2d or 3d ndarray"
  | assertion    -- `assert geobox.shape == (h, w)`
  deriving DecidableEq, Repr

/-- normalised layout: band count, height, width, and whether `pix.transpose([2, 0, 1])` ran -/
structure Layout where
  nbands : Nat
  h : Nat
  w : Nat
  transposed : Bool
  deriving DecidableEq, Repr

/-- 2-D: one band; 3-D: band-last if the first two axes match the GeoBox (checked first — an
`n×n×n` array over an `n×n` GeoBox is therefore always read as band-last), else band-first if
the last two match, else `ValueError`; other ranks `ValueError`. -/
def normLayout (shape : List Nat) (g : YX) : Except LErr Layout :=
  match shape with
  | [h, w] => if g = ⟨h, w⟩ then .ok ⟨1, h, w, false⟩ else .error .assertion
  | [a, b, c] =>
    if g = ⟨a, b⟩ then .ok ⟨c, a, b, true⟩
    else if g ≠ ⟨b, c⟩ then .error .valueError
    else .ok ⟨a, b, c, false⟩
  | _ => .error .valueError

/-- where output element `[k, y, x]` (band-first) comes from in the input array -/
def srcIndex (l : Layout) (k y x : Nat) : Nat × Nat × Nat :=
  if l.transposed then (y, x, k) else (k, y, x)

/-- is the 3-D shape readable both ways? (reported, not judged) -/
def ambiguous (shape : List Nat) (g : YX) : Bool :=
  match shape with
  | [a, b, c] => g = ⟨a, b⟩ && g = ⟨b, c⟩
  | _ => false

/-! ### default overview levels (126-130) -/

/-- `[] if min(w, h) < 512 else [2**i for i in range(1, 6)]` -/
def defaultLevels (w h : Nat) : List Nat :=
  if min w h < 512 then [] else (List.range 5).map fun i => 2 ^ (i + 1)

/-- the levels a call ends up with -/
def levelsFor (requested : Option (List Nat)) (w h : Nat) : List Nat :=
  match requested with
  | some l => l
  | none => defaultLevels w h

/-! ### creation options (`_default_cog_opts`, 57-69; `blocksize is None → 512`) -/

structure CogOpts where
  blockxsize : Nat
  blockysize : Nat
  predictor : Nat
  warns : Bool     -- "Block size must be a multiple of 16, will be adjusted"
  deriving DecidableEq, Repr

def cogOpts (blocksize : Option Nat) (w h : Nat) (isFloat : Bool) : CogOpts :=
  let b := blocksize.getD 512   -- `if blocksize is None: blocksize = 512`
  ⟨adjustBlocksize b w, adjustBlocksize b h, if isFloat then 3 else 2, b % 16 != 0⟩

/-! ### overwrite guard (`check_write_path`, 32-54, and its call sites) -/

inductive Act where
  | unlink | write
  deriving DecidableEq, Repr

/-- `(filesystem actions performed in order, raised IOError?)` for destination state `exists`
and flag `overwrite`; `":mem:"` destinations never touch the file system -/
def writePlan (isMem dstExists overwrite : Bool) : List Act × Bool :=
  if isMem then ([], false)
  else if dstExists then
    if overwrite then ([.unlink, .write], false) else ([], true)
  else ([.write], false)

/-! ### `_norm_compression_opts` (72-83) -/

inductive CompArg where
  | flag (b : Bool)
  | name (s : String)
  | opts (kv : List (String × String))
  deriving DecidableEq, Repr

/-- resulting option dictionary; `None` is the string `"None"` -/
def normCompressionOpts (c : CompArg) (defaultCompress : String := "deflate") (defaultZlevel : Nat := 2) :
    List (String × String) :=
  match c with
  | .flag true => [("compress", defaultCompress), ("zlevel", toString defaultZlevel)]
  | .flag false => [("compress", "None")]
  | .name s => [("compress", s)]
  | .opts kv => kv

/-! ### the array as a whole: layout normalisation then level selection (`_write_cog`, 109-130) -/

/-- `pix.transpose([2, 0, 1])` (or nothing): element `[k, y, x]` of the band-first array handed to GDAL -/
def normalise {α : Type} (l : Layout) (pix : Nat → Nat → Nat → α) : Nat → Nat → Nat → α :=
  fun k y x => let (i, j, m) := srcIndex l k y x; pix i j m

/-- the overview levels a call ends up with for an array of shape `shape` over GeoBox shape `g`: the layout is
normalised FIRST, the default rule then looks at the spatial width / height only -/
def levelsForArray (requested : Option (List Nat)) (shape : List Nat) (g : YX) : Except LErr (List Nat) :=
  match normLayout shape g with
  | .error e => .error e
  | .ok l => .ok (levelsFor requested l.w l.h)

/-! ### nodata resolution (`write_cog` 281-285, `write_cog_layers` 407-418) -/

/-- a number as callers spell it; all spellings of one value are accepted and mean that value -/
inductive Num where
  | pyInt (v : Int)
  | pyFloat (v : Rat)
  | npScalar (dtype : String) (v : Rat)     -- np.int16(-9999), np.float32(...), np.float64, np.int64 …
  | arr0d (dtype : String) (v : Rat)        -- np.array(v, dtype)
  | nan (spelling : String)                 -- float('nan'), np.float32('nan'), …
  deriving DecidableEq, Repr

/-- the value GDAL is given (`none` = NaN) -/
def Num.value : Num → Option Rat
  | .pyInt v => some v
  | .pyFloat v => some v
  | .npScalar _ v => some v
  | .arr0d _ v => some v
  | .nan _ => none

inductive Entry where
  | writeCog | toCog | writeCogLayers | writeCogOverviews   -- write_cog(overviews=…) goes through write_cog_layers
  deriving DecidableEq, Repr

/-- which nodata the file gets: `write_cog`: `nodata = extra_rio_opts.pop("nodata", None); if nodata is None: nodata =
geo_im.attrs.get("nodata")`; `write_cog_layers`: `_default_cog_opts(nodata=pix.attrs.get("nodata"))` then
`rio_opts.update(extra_rio_opts)`, and the temp images get `rio_opts.get("nodata")`.  Either way: an explicit keyword
wins (a keyword of `None` is "not given"), else the attribute of the (first) image, else no nodata.
(`kw = none` stands for "keyword absent".  A keyword spelled out as `nodata=None` is the same on the direct path; on the
supplied-overviews path the code on HEAD lets it override the attribute — modelled dictionary by dictionary in
`Model/C15Glue.lean`, see `explicit_none_overrides_attrs_cex` / known finding K28, repaired on branch fix2-C15.) -/
def resolveNodata (_e : Entry) (kw attrs : Option Num) : Option Num :=
  match kw with
  | some v => some v
  | none => attrs

/-! ### `_norm_compression_opts`: whose dict is returned -/

/-- `true` when the returned dict is a new object; a dict argument is returned AS IS (the caller's own object) -/
def normCompressionFresh : CompArg → Bool
  | .flag _ => true
  | .name _ => true
  | .opts _ => false

/-- callers of `_norm_compression_opts` and what they do with the result: `_write_cog` only reads it
(`tmp_opts.update(result)`), `write_cog_layers` spreads it into a new dict literal — neither writes into it -/
inductive NormUse where
  | readOnlyUpdateSource | spreadIntoNewDict
  deriving DecidableEq, Repr

def NormUse.writesInto : NormUse → Bool
  | .readOnlyUpdateSource => false
  | .spreadIntoNewDict => false

/-! ### reference (GDAL, not odc-geo): size of the overview for decimation `l` -/

def ovrSize (w h l : Nat) : Nat × Nat := ((w + l - 1) / l, (h + l - 1) / l)

end OdcGeo.C15
