/- Model for C15 (core Lean only, no Mathlib). -/
import OdcGeo.Model.IO
namespace OdcGeo.C15

end OdcGeo.C15
