/-
Model for C19, second growth increment (core Lean only):

  * SHARING of one `CRS` instance by several values.  `norm_crs(crs)` hands the instance
    through (crs.py:386-387), so `BoundingBox(…, crs=x)`, `GeoBox(…, x)`, `Geometry(…, x)`
    all hold `x` itself; `CRS(x)` and a pickle round trip make a NEW instance carrying a copy
    of the three fields.  The lazily filled `_epsg` (crs.py:146-152) lives in the instance:
    one `.epsg` read is seen by every holder at once.  Modelled as a heap of instances
    (`inst`) and holders that store a reference.
  * `CRS.authority` (crs.py:225-241), which looks at the same lazy field.
  * the NaN clean-up wrapper of `transformer_to_crs` (crs.py:318-329).
-/
import OdcGeo.Model.C19Glue
namespace OdcGeo.C19

/-! ## Instances and holders -/

/-- `to_epsg` (crs.py:146-152) on a record: fill the lazy field if it is unset -/
def fillEpsg (c : CrsObj) : CrsObj := if c.epsg == some 0 then { c with epsg := c.info.epsg } else c

structure AState where
  /-- live `CRS` instances: instance id ↦ its three fields -/
  inst : List (Nat × CrsObj) := []
  /-- values (BoundingBox / GeoBox / Geometry / GridSpec …): holder ↦ the instance it refers to
  (`none` = the value has no CRS) -/
  hold : List (Nat × Option Nat) := []
  deriving Repr

inductive AOp where
  /-- `i = CRS(spec)`: a new instance with the record the construction cache returned -/
  | new (i : Nat) (c : CrsObj)
  /-- `j = CRS(i)` / `pickle.loads(pickle.dumps(i))` seen from here: a NEW instance with a copy
  of `i`'s current fields (for the pickle the caller supplies what `CRS(_str)` returned) -/
  | copy (j i : Nat)
  /-- `h = BoundingBox(…, crs=i)` (any value type): `norm_crs(i) is i`, the holder refers to `i` -/
  | hold (h i : Nat)
  /-- `h = BoundingBox(…)` without a CRS -/
  | holdNone (h : Nat)
  /-- `h2 = copy.copy(h)` / a crop / `GeoBox(h.shape, h.affine, h.crs)`: the same reference -/
  | rehold (h2 h : Nat)
  /-- `i.epsg` (read through the instance or through `holder.crs.epsg`) -/
  | read (i : Nat)
  /-- `h1 == h2` as far as the CRS field decides (`self._crs == other._crs`) -/
  | eq (h1 h2 : Nat)
  deriving DecidableEq, Repr

/-- the record a holder sees *now* -/
def AState.crsOf (σ : AState) (h : Nat) : Option (Option CrsObj) :=
  match assoc h σ.hold with
  | none => none
  | some none => some none
  | some (some i) => (assoc i σ.inst).map some

inductive AOut where
  | unit
  | epsg (e : Option Nat)
  | bool (b : Bool)
  | err
  deriving DecidableEq, Repr

def astep (σ : AState) : AOp → AState × AOut
  | .new i c => ({ σ with inst := setVar i c σ.inst }, .unit)
  | .copy j i =>
    match assoc i σ.inst with
    | some c => ({ σ with inst := setVar j c σ.inst }, .unit)
    | none => (σ, .err)
  | .hold h i =>
    match assoc i σ.inst with
    | some _ => ({ σ with hold := setVar h (some i) σ.hold }, .unit)
    | none => (σ, .err)
  | .holdNone h => ({ σ with hold := setVar h none σ.hold }, .unit)
  | .rehold h2 h =>
    match assoc h σ.hold with
    | some r => ({ σ with hold := setVar h2 r σ.hold }, .unit)
    | none => (σ, .err)
  | .read i =>
    match assoc i σ.inst with
    | some c => ({ σ with inst := setVar i (fillEpsg c) σ.inst }, .epsg (fillEpsg c).epsg)
    | none => (σ, .err)
  | .eq h1 h2 =>
    match σ.crsOf h1, σ.crsOf h2 with
    | some a, some b => (σ, .bool (optCrsEq a b))
    | _, _ => (σ, .err)

def arun : AState → List AOp → AState × List AOut
  | σ, [] => (σ, [])
  | σ, op :: ops =>
    let (σ1, o) := astep σ op
    let (σ2, os) := arun σ1 ops
    (σ2, o :: os)

/-! ## `CRS.authority` (crs.py:225-241) -/

/-- `toAuth` is pyproj's `to_authority()` of the object (`none` when it knows none); a code
that is not a number stays text (`("IGNF", "LAMB93")`) -/
def authorityOf (c : CrsObj) (toAuth : Option (String × String)) : String × String :=
  match c.epsg with
  | some n => if n != 0 then ("EPSG", toString n) else
      match toAuth with
      | some (a, code) => (a, code)
      | none => ("", "")
  | none =>
      match toAuth with
      | some (a, code) => (a, code)
      | none => ("", "")

/-! ## The NaN clean-up of `transformer_to_crs` (crs.py:318-329)

`none` is NaN.  The wrapper only acts when BOTH results are numpy arrays; scalars are handed
through untouched. -/

inductive TrRes where
  | scalars (x y : Option Rat)
  | arrays (xs ys : List (Option Rat))
  deriving DecidableEq, Repr

def isNan : Option Rat → Bool
  | none => true
  | some _ => false

/-- `missing = isnan(rx) | isnan(ry); rx[missing] = nan; ry[missing] = nan` on arrays of one shape -/
def cleanPair : List (Option Rat) → List (Option Rat) → List (Option Rat × Option Rat)
  | x :: xs, y :: ys => (if isNan x || isNan y then (none, none) else (x, y)) :: cleanPair xs ys
  | _, _ => []

def nanClean : TrRes → TrRes
  | .scalars x y => .scalars x y
  | .arrays xs ys => .arrays ((cleanPair xs ys).map (·.1)) ((cleanPair xs ys).map (·.2))

end OdcGeo.C19
