/-
`edge_index` and `quasi_random_r2` (`odc/geo/math.py:508-565`), core Lean only.

`edge_index` is modelled with the exact semantics of its four `for` loops, loop variables leaking from one loop into the
next as in Python — so also for the degenerate shapes (a side of 0 or 1) where that leak matters.  `Model/C03.lean` has the
closed form for `nx, ny ≥ 2`; `Props/C20Seq.lean` proves the two agree there.

`quasi_random_r2` is parametric in the rounding function `fl` of binary64 multiplication (`id` for the theorems, C14's
`fl64` in the driver): `idx` is a float32 `arange` (exact integers below 2^24), `np.outer(idx, aa)` rounds each product to
a double, `np.fmod(·, 1)` is exact, the optional scaling by the shape rounds again.
-/
import OdcGeo.Model.C20
import OdcGeo.Model.C14
namespace OdcGeo.C20

/-- `list(edge_index((ny, nx), closed))` → `(iy, ix)` pairs. -/
def edgeIndex (ny nx : Nat) (closed : Bool) : List (Nat × Nat) :=
  -- for ix in range(nx): yield (0, ix)          -- leaves ix = nx - 1 (0 if the loop did not run)
  let p1 := (List.range nx).map fun ix => (0, ix)
  let ix1 := nx - 1
  -- for iy in range(1, ny): yield (iy, ix)      -- leaves iy = ny - 1 (0 if it did not run)
  let p2 := (List.range (ny - 1)).map fun k => (k + 1, ix1)
  let iy2 := if 2 ≤ ny then ny - 1 else 0
  -- for ix in range(ix - 1, -1, -1): yield (iy, ix)     -- leaves ix = 0
  let p3 := (List.range ix1).map fun k => (iy2, ix1 - 1 - k)
  -- for iy in range(iy - 1, 0, -1): yield (iy, ix)
  let p4 := (List.range (iy2 - 1)).map fun k => (iy2 - 1 - k, 0)
  p1 ++ p2 ++ p3 ++ p4 ++ (if closed then [(0, 0)] else [])

/-- the two constants of the R2 sequence as the exact values of the Python doubles -/
def r2a1 : Rat := mkRat 3399666776418915 4503599627370496      -- 0.7548776662466927
def r2a2 : Rat := mkRat 5132665044399055 9007199254740992      -- 0.5698402909980532

/-- `np.fmod(x, 1)` (sign of `x`, truncation) -/
def npFmod1 (x : Rat) : Rat := fmod1 x

/-- `quasi_random_r2(n, shape=(ny, nx) | None, offset)` for `offset + n ≤ 2^24` (float32 `arange` exact):
rows `(x, y)`. -/
def quasiRandomR2 (fl : Rat → Rat) (n : Nat) (shape : Option (Nat × Nat)) (offset : Int) : List (Rat × Rat) :=
  (List.range n).map fun (i : Nat) =>
    let idx : Rat := ((offset + (i : Int) : Int) : Rat)
    let x := npFmod1 (fl (idx * r2a1))
    let y := npFmod1 (fl (idx * r2a2))
    match shape with
    | none => (x, y)
    | some (ny, nx) => (fl (x * (nx : Rat)), fl (y * (ny : Rat)))

end OdcGeo.C20
