/-
Glue between the modelled core of `Model/C02.lean` and the public entry points of
`odc/geo/geobox.py`, `odc/geo/gcp.py`, `odc/geo/types.py` (core Lean only, no Mathlib):

* argument normalisers `shape_` (types.py:410-421) and `res_` / `Resolution.__init__`
  (types.py:155-165, 326-332) with Python `int()` truncation,
* `GeoBox(shape, affine, crs)` / `GeoBox.crop` / `GeoBox.expand` for every accepted spelling of a shape,
* the dispatch of `compute_zoom_to` on `(shape, resolution)` (geobox.py:349-382),
* the dispatch of `compute_crop` on the kind of index object, incl. the error branches for
  stepped slices, too long / too short tuples and a CRS-less parent (geobox.py:307-342),
* `GeoBox.enclosing` argument handling (geobox.py:699-719) and `GeoBoxBase.project` (geobox.py:384-402),
* `is_empty`, `aspect`, `_reproject_resolution`, the buffer distance of `footprint(buffer=…)`
  (geobox.py:141-165, 228-252),
* `GCPGeoBox.__init__` default affine, `GCPGeoBox.resolution` (gcp.py:147-169).

Reprojection between two *different* CRSs (pyproj) is an abstract parameter `reproj src dst` of the
functions that can meet it; every theorem quantifies over it.
-/
import OdcGeo.Model.C02
namespace OdcGeo.C02
open OdcGeo.C17 (PIdx NSlice normSlice)

/-! ### Python numbers -/

/-- a (finite) Python number given as an argument: `int` (incl. `bool`) or `float` -/
inductive PyNum where
  | int (v : Int)
  | flt (v : Rat)
  deriving DecidableEq, Repr

/-- `int(x)` for a finite float: truncation toward zero -/
def pyTrunc (x : Rat) : Int := if x < 0 then -((-x).floor) else x.floor

/-- `int(v)` -/
def PyNum.toInt : PyNum → Int
  | .int v => v
  | .flt v => pyTrunc v

/-- `float(v)` / the value used in arithmetic -/
def PyNum.val : PyNum → Rat
  | .int v => (v : Rat)
  | .flt v => v

/-! ### `shape_` (types.py:410-421) -/

/-- what callers hand to `shape_`: a `Shape2d` (returned as is), any other `XY` (`x.map(int).xy`), a
tuple / list (`ny, nx = map(int, x)`), or an object that is neither (`ValueError`). -/
inductive ShapeArg where
  | shape2d (ny nx : Int)
  | xy (x y : PyNum)
  | seq (l : List PyNum)
  | other
  deriving DecidableEq, Repr

/-- `shape_(x)` → `(ny, nx)` -/
def shapeNorm : ShapeArg → Res (Int × Int)
  | .shape2d ny nx => .ok (ny, nx)
  | .xy x y => .ok (y.toInt, x.toInt)
  | .seq [ny, nx] => .ok (ny.toInt, nx.toInt)
  | .seq _ => .error .valueError            -- `ny, nx = map(int, x)`: wrong number of values to unpack
  | .other => .error .valueError            -- "Input type not understood"

/-- `GeoBox(shape, affine, crs)` (geobox.py:116-123, 499-500) -/
def mkGeoBox (shape : ShapeArg) (A : Aff) (crs : Nat) : Res GeoBox := do
  let (ny, nx) ← shapeNorm shape
  pure ⟨ny, nx, A, crs⟩

/-- `gbox.crop(shape)` / `gbox.expand(shape)` = `GeoBox(shape, self._affine, self._crs)` (geobox.py:967-976) -/
def resizeArg (g : GeoBox) (shape : ShapeArg) : Res GeoBox := mkGeoBox shape g.A g.crs

/-! ### `res_`, `Resolution.__init__` (types.py:155-165, 326-332) -/

/-- `SomeResolution`: a number (square pixels, inverted Y), a `Resolution`, or anything else -/
inductive ResArg where
  | num (r : PyNum)
  | res (x y : Rat)
  | other
  deriving DecidableEq, Repr

/-- `res_(x).xy` -/
def resNorm : ResArg → Res (Rat × Rat)
  | .num r => .ok (r.val, -r.val)           -- `Resolution(float(x))`: `y = -x`
  | .res x y => .ok (x, y)
  | .other => .error .valueError

/-! ### `compute_zoom_to` / `zoom_to` dispatch (geobox.py:349-382, 991-1006) -/

/-- the positional `shape` argument of `zoom_to`: absent, a single number (`isinstance(shape, (int, float))`,
so also `bool` and `numpy.float64`), or something handed to `shape_` -/
inductive ZoomArg where
  | none
  | num (n : PyNum)
  | shape (s : ShapeArg)
  deriving DecidableEq, Repr

/-- `gbox.zoom_to(shape, resolution=resolution)`; `shape` wins when both are given. -/
def zoomTo (g : GeoBox) (shape : ZoomArg) (resolution : Option ResArg) : Res GeoBox :=
  match shape with
  | .none =>
    match resolution with
    | none => .error .valueError            -- "Have to supply shape or resolution"
    | some r => do
      let (rx, ry) ← resNorm r
      zoomToRes g rx ry
  | .num n => zoomToNum g n.val
  | .shape s => do
    let (ny, nx) ← shapeNorm s
    zoomToShape g ny nx

/-! ### `compute_crop` / `__getitem__` dispatch (geobox.py:307-342, 721-723) -/

/-- one entry of an index tuple: an int or a slice with its `step` -/
inductive IdxS where
  | idx (i : Int)
  | slc (start stop step : Option Int)
  deriving DecidableEq, Repr

def IdxS.toPIdx : IdxS → PIdx
  | .idx i => .idx i
  | .slc a b _ => .slc a b

/-- `s.step is None or s.step == 1` on the normalised slice (an int becomes `slice(k, k+1)`: no step) -/
def IdxS.stepOk : IdxS → Bool
  | .idx _ => true
  | .slc _ _ none => true
  | .slc _ _ (some k) => k == 1

/-- a region object with its CRS tag (`0` = no CRS) and vertices -/
inductive Region where
  | bbox (crs : Nat) (l b r t : Rat)
  | geom (crs : Nat) (pts : List Pt)
  deriving Repr

/-- `BoundingBox.polygon` = `box(left, bottom, right, top)` (geom.py:244-245, 1209-1226) -/
def bboxRing (l b r t : Rat) : List Pt := [(l, b), (l, t), (r, t), (r, b), (l, b)]

def Region.crs : Region → Nat
  | .bbox c _ _ _ _ => c
  | .geom c _ => c

def Region.pts : Region → List Pt
  | .bbox _ l b r t => bboxRing l b r t
  | .geom _ pts => pts

/-- what `gbox[...]` is given -/
inductive IndexArg where
  | region (r : Region)
  | gbox (w : GeoBox)
  | one (s : IdxS)               -- a bare int or slice
  | seq (l : List IdxS)          -- tuple / list
  deriving Repr

/-- the tail of `compute_crop` once `roi` is a sequence: `len(roi) > 2` → `ValueError`; `roi_normalise`
zips with the 2-d shape; a step other than `None` / `1` → `NotImplementedError`; `ty, tx = …` needs exactly two. -/
def cropSeq (g : GeoBox) (l : List IdxS) : Res GeoBox :=
  if l.length > 2 then .error .valueError
  else if ¬ l.all IdxS.stepOk then .error .notImplemented
  else match l with
    | [sy, sx] => .ok (crop g (.two sy.toPIdx sx.toPIdx))
    | _ => .error .valueError

/-- `self.project(roi)` followed by the window computation, for a region given by CRS tag + vertices.
`reproj src dst` stands for pyproj (`Geometry.to_crs`), used only when the tags differ. -/
def cropRegionCrs (reproj : Nat → Nat → Pt → Pt) (g : GeoBox) (crs : Nat) (pts : List Pt) : Res GeoBox :=
  if crs = 0 then cropRegionPix g pts
  else if g.crs = 0 then .error .assertion     -- `assert self._crs is not None`
  else do
    let Ai ← g.A.inv?
    let pts := if crs ≠ g.crs then pts.map (reproj crs g.crs) else pts
    cropRegionPix g (pts.map Ai.apply)

/-- `gbox[arg]` -/
def getitem (reproj : Nat → Nat → Pt → Pt) (g : GeoBox) (arg : IndexArg) : Res GeoBox :=
  match arg with
  | .region r => cropRegionCrs reproj g r.crs r.pts
  | .gbox w => cropRegionCrs reproj g w.crs (extent w)
  | .one s => cropSeq g [s, .slc none none none]
  | .seq l => cropSeq g l

/-! ### `enclosing(region)` argument handling (geobox.py:699-719) -/

def enclosingArg (reproj : Nat → Nat → Pt → Pt) (g : GeoBox) (r : Region) : Res GeoBox :=
  if r.crs = 0 then .error .valueError         -- "Must supply geo-resgistered region"
  else if g.crs = 0 then .error .assertion     -- `project`: `assert self._crs is not None`
  else enclosing g (if r.crs ≠ g.crs then r.pts.map (reproj r.crs g.crs) else r.pts)

/-! ### `project(geom)` (geobox.py:384-402): vertices of a non-empty geometry -/

def project (reproj : Nat → Nat → Pt → Pt) (g : GeoBox) (crs : Nat) (pts : List Pt) : Res (Nat × List Pt) :=
  if crs = 0 then .ok (g.crs, pts.map (pix2wld g))
  else if g.crs = 0 then .error .assertion
  else do
    let Ai ← g.A.inv?
    let pts := if crs ≠ g.crs then pts.map (reproj crs g.crs) else pts
    pure (0, pts.map Ai.apply)

/-! ### small accessors (geobox.py:141-165; types.py:150-152) -/

/-- `is_empty()`: `0 in self._shape` -/
def isEmpty (g : GeoBox) : Bool := g.ny == 0 || g.nx == 0

/-- `aspect`: `float(x) / float(y)` -/
def aspect (g : GeoBox) : Res Rat := if g.ny = 0 then .error .zeroDiv else .ok ((g.nx : Rat) / (g.ny : Rat))

/-! ### `_reproject_resolution`, buffer distance of `footprint(crs, buffer)` (geobox.py:228-252) -/

/-- `max(bbox.span_x, bbox.span_y) / npoints` with `bbox = self.extent.boundingbox` (the bounds of the
four corner images, i.e. `boundingbox`) -/
def reprojectResolution (g : GeoBox) (npoints : Int) : Res Rat :=
  if npoints = 0 then .error .zeroDiv
  else
    let bb := boundingbox g
    .ok (max (bb.right - bb.left) (bb.top - bb.bottom) / (npoints : Rat))

/-- distance handed to `Geometry.buffer` by `footprint(crs, buffer)`: `none` when `buffer == 0` (no
buffering at all), else `buffer * max(|rx|, |ry|)` (as repaired: pixel size, not signed resolution) -/
def footprintBufferDist (g : GeoBox) (n m : Rat) (buffer : Rat) : Res (Option Rat) :=
  if g.crs = 0 then .error .assertion            -- `assert self.crs is not None`
  else if buffer = 0 then .ok none
  else do
    let (rx, ry) ← resolution g n m
    pure (some (buffer * max (rabs rx) (rabs ry)))

/-! ### GCP (gcp.py:147-169) -/

/-- `GCPGeoBox(shape, mapping, affine=None)`: identity when no affine is given; CRS of the mapping -/
def mkGcp (shape : ShapeArg) (affine : Option Aff) (mcrs : Nat) : Res GeoBox :=
  mkGeoBox shape (match affine with | none => Aff.id | some A => A) mcrs

/-- `GCPGeoBox.resolution = self.approx.resolution` with `B = mapping.approx` -/
def gcpResolution (B : Aff) (g : GeoBox) (n m : Rat) : Res (Rat × Rat) := resolution (gcpApprox B g) n m

/-! ### `GCPGeoBox.boundingbox`, `map_bounds` without CRS (gcp.py:171-176, 205-216) -/

/-- `Geometry.boundingbox` (shapely `bounds`) of a non-empty vertex list -/
def ptsBBox (pts : List Pt) : Res BBox :=
  match pts with
  | [] => .error .valueError
  | p :: ps =>
    let xs := (p :: ps).map (·.1)
    let ys := (p :: ps).map (·.2)
    .ok ⟨C17.minL 0 xs, C17.minL 0 ys, C17.maxL 0 xs, C17.maxL 0 ys⟩

/-- `GCPGeoBox.boundingbox` (as repaired) = `self.extent.boundingbox` -/
def gcpBoundingbox (P : Pt → Pt) (g : GeoBox) : Res BBox := ptsBBox (gcpExtent P g)

/-- `GCPGeoBox.map_bounds()` without a CRS: `((bottom, left), (top, right))` of `extent.boundingbox` -/
def gcpMapBounds (P : Pt → Pt) (g : GeoBox) : Res ((Rat × Rat) × (Rat × Rat)) := do
  let b ← gcpBoundingbox P g
  pure ((b.bottom, b.left), (b.top, b.right))

/-! ### `GCPGeoBox.to_crs` (gcp.py:218-231)

The control points are re-expressed in the pixel space of the view (`pix.transform(~affine)` unless
`affine.is_identity`, which `affine` decides with `almost_equals(identity, 1e-5)` on the six coefficients), the
world side is re-projected (`reproj`, pyproj), and a fresh `GCPGeoBox(shape, mapping)` with the identity affine is
returned.  -/

/-- `1e-5` (`affine.EPSILON`) -/
def epsAffine : Rat := mkRat 5902958103587057 590295810358705651712

/-- `Affine.is_identity`: every coefficient within `1e-5` of the identity's -/
def isIdentityApprox (A : Aff) : Bool :=
  decide (rabs (A.a - 1) < epsAffine) && decide (rabs (A.b - 0) < epsAffine) && decide (rabs (A.c - 0) < epsAffine) &&
  decide (rabs (A.d - 0) < epsAffine) && decide (rabs (A.e - 1) < epsAffine) && decide (rabs (A.f - 0) < epsAffine)

/-- `gbox.to_crs(dst)` for a GCP geobox with control points `cps = (pix, wld)` → new geobox and control points -/
def gcpToCrs (reproj : Pt → Pt) (g : GeoBox) (cps : List (Pt × Pt)) (dst : Nat) : Res (GeoBox × List (Pt × Pt)) :=
  if g.crs = 0 then .error .assertion            -- `assert self._crs is not None`
  else do
    let back ← if isIdentityApprox g.A then pure (fun (p : Pt) => p) else (g.A.inv?).map Aff.apply
    pure (⟨g.ny, g.nx, Aff.id, dst⟩, cps.map (fun cp => (back cp.1, reproj cp.2)))

/-! ### exact quarter turns: `gbox.rotate(deg)` for `deg ≡ 0, 90, 180, 270 (mod 360)`

`affine.Affine.rotation` reduces the angle with `deg % 360.0` and returns the exact pairs `(0, 1)`, `(-1, 0)`,
`(0, -1)` for 90 / 180 / 270 (`cos_sin_deg`); 0 gives `cos 0 = 1`, `sin 0 = 0`.  `k` counts quarter turns. -/

def quarterCS (k : Int) : Rat × Rat :=
  if k % 4 = 0 then (1, 0) else if k % 4 = 1 then (0, 1) else if k % 4 = 2 then (-1, 0) else (0, -1)

/-- `gbox.rotate(90 * k)` -/
def rotateQuarter (g : GeoBox) (k : Int) : GeoBox := rotate g (quarterCS k).1 (quarterCS k).2

/-! ### reprojection given as a finite table (what pyproj returned for the vertices at hand)

Used by the driver to run `getitem` / `enclosingArg` / `project` on regions in ANOTHER CRS: the harness obtains the
images of the region's vertices from a fresh pyproj transformer and hands them over as a table. -/

def tableLookup (table : List (Pt × Pt)) (p : Pt) : Option Pt := (table.find? (fun e => e.1 == p)).map (·.2)

/-- the reprojection function of a table (identity off the table; callers check `tableCovers` first) -/
def tableReproj (table : List (Pt × Pt)) : Nat → Nat → Pt → Pt := fun _ _ p => (tableLookup table p).getD p

def tableCovers (table : List (Pt × Pt)) (pts : List Pt) : Bool := pts.all (fun p => (tableLookup table p).isSome)

/-! ### `coordinates` / `dimensions` by kind of CRS (geobox.py:150-158, 767-795; crs.py:187-201) -/

inductive CrsKind where
  | none | geographic | projected
  deriving DecidableEq, Repr

/-- `GeoBox.dimensions` = `(ydim, xdim)` -/
def dimensions : CrsKind → String × String
  | .none => ("y", "x")
  | .geographic => ("latitude", "longitude")
  | .projected => ("y", "x")

/-- the keys of `coordinates` in order, each with its resolution: `zip(dimensions, (ys, xs), units, (ry, rx))` -/
def coordsMeta (g : GeoBox) (k : CrsKind) : Res (List (String × Rat)) :=
  if isAffineST g.A then .ok [((dimensions k).1, g.A.e), ((dimensions k).2, g.A.a)] else .error .valueError

/-- `geographic_extent` is `extent` itself (no reprojection) exactly for a CRS-less or geographic geobox -/
def geographicExtentIsExtent : CrsKind → Bool
  | .projected => false
  | _ => true

end OdcGeo.C02
