/-
`GeoBox.from_geopolygon(geom, resolution, crs, align, …)` end to end through C07's model of `Geometry.to_crs`
(`Model/C07.lean`, imported read-only, instantiated at `Rat`): the geometry — of any kind, with holes / parts — is
re-projected by `to_crs(crs)` (default `resolution=None`: vertices only, no densification), its bounding box is the
envelope of **all** its vertices, and that goes to `from_bbox` (C08).  Core Lean only.
-/
import OdcGeo.Model.C08
import OdcGeo.Model.C07
namespace OdcGeo.C08

def ofPt (p : C07.Pt Rat) : Rat × Rat := (p.x, p.y)
def toPt (q : Rat × Rat) : C07.Pt Rat := ⟨q.1, q.2⟩

/-- The `crs` argument of `from_geopolygon`: `None` / `Unset()` or something `norm_crs` turns into the tag `t`. -/
inductive CrsArgTag where
  | unset
  | given (t : C01.Tag)

/-- `from_geopolygon` on a C07 geometry.  `none`: the geometry has no vertex (an empty geometry: its `boundingbox` is
outside this model).  Otherwise the geobox and the CRS tag of the geometry whose bounding box was used (`from_bbox`
substitutes `"epsg:4326"` for a missing one). -/
def fromGeopolygonVia (E : C07.Env Rat) (proj : C01.CrsRec → C01.CrsRec → C07.Pt Rat → C07.Pt Rat)
    (autoRes : C07.Geom Rat → Rat) (g : C07.Tagged Rat) (crs : CrsArgTag) (res : ResArg)
    (align : Option (Rat × Rat)) (shape : ShapeArg) (tight : Bool) (anchor : AnchorArg) (tol : Rat) :
    Option (Res (GeoBox × C01.Tag)) :=
  match alignToAnchor align res anchor with
  | .error e => some (.error e)
  | .ok (res', anchor') =>
    let projected : Res (C07.Tagged Rat) := match crs with
      | .unset => .ok g
      | .given t => C07.toCrs E proj autoRes g t .none
    match projected with
    | .error e => some (.error e)
    | .ok g' =>
      match (C07.vertices g'.geom).map ofPt with
      | [] => none
      | v :: vs => some ((fromBbox (bboxOfPts v vs) tight shape res' anchor' tol).map fun gb => (gb, g'.crs))

end OdcGeo.C08
