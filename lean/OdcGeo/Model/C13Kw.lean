/-
C13 — the keywords that reach the warp: what `_dask_rio_reproject` binds into every chunk task
(`partial(_do_chunked_reproject, d2s_idx, gbt_src, gbt_dst, src_nodata=…, dst_nodata=…, axis=ydim,
resampling=resampling, **kwargs)`, `_dask.py:114-124`) versus what the in-memory path hands to
`_rio_reproject` (`_xr_interop.py:768-779`, `warp.py:131-160`).  `resampling_s2rio` (`warp.py:21-29`).
-/
import OdcGeo.Model.C13
namespace OdcGeo.C13

/-- value-affecting keywords of one warp call -/
structure WarpKw where
  /-- member name of `rasterio.warp.Resampling` -/
  resampling : String
  srcNd : Option Val
  dstNd : Option Val
  /-- position of the Y axis (`axis=ydim`) -/
  axis : Nat
  /-- `**kwargs`, passed through untouched -/
  extra : List (String × String)
  deriving DecidableEq, Repr

/-- the members of `rasterio.warp.Resampling` (validated against the installed enum every run) -/
def resamplingNames : List String :=
  ["nearest", "bilinear", "cubic", "cubic_spline", "lanczos", "average", "mode", "gauss", "max",
   "min", "med", "q1", "q3", "sum", "rms"]

/-- `resampling_s2rio(name)`: `getattr(Resampling, name.lower())`, `ValueError` otherwise -/
def resamplingS2rio (name : String) : Res String :=
  if name.toLower ∈ resamplingNames then .ok name.toLower else .error .valueError

/-- the keywords every chunk task of `_dask_rio_reproject(src, s_gbox, d_gbox, resampling, src_nodata,
dst_nodata, ydim, chunks, **kwargs)` is bound to (`name` is popped for the graph name) -/
def chunkTaskKw (resampling : String) (srcNd dstNd : Option Val) (ydim : Nat)
    (kwargs : List (String × String)) : Res WarpKw := do
  let r ← resamplingS2rio resampling
  pure ⟨r, srcNd, dstNd, ydim, kwargs.filter fun p => p.1 ≠ "name"⟩

/-- the keywords of the in-memory path: `rio_reproject(src, dst, s_gbox, d_gbox, resampling=…,
src_nodata=…, dst_nodata=…, ydim=ydim, **kw)` → `_rio_reproject` (which converts the name) -/
def wholeKw (resampling : String) (srcNd dstNd : Option Val) (ydim : Nat)
    (kwargs : List (String × String)) : Res WarpKw := do
  let r ← resamplingS2rio resampling
  pure ⟨r, srcNd, dstNd, ydim, kwargs⟩

end OdcGeo.C13
