/-
`norm_xy` (`odc/geo/math.py:447-472`) as an executable model, core Lean only, parametric in the rounding `fl` of every
float operation the code performs (`id` for the theorems — then it is the field-generic `normXYK` of `Lemmas/C20e.lean`,
see `Props/C20NormXy.lean` — and C14's `fl64` in the driver, bit for bit).  The two kinds of square roots are inputs:
`ds[i] = sqrt((XX[i]**2).sum())` and `r2 = sqrt(2.0)`.  Sums are sequential left to right (numpy's 1-d reduction below
8 elements; the axis-0 reduction of the `N×2` array is sequential for every `N`).
-/
import OdcGeo.Model.C20
namespace OdcGeo.C20

/-- left-to-right float sum -/
def seqSum (fl : Rat → Rat) (xs : List Rat) : Rat := xs.foldl (fun acc x => fl (acc + x)) 0

/-- `arr.mean()` -/
def meanF (fl : Rat → Rat) (xs : List Rat) : Rat := fl (seqSum fl xs / ((xs.length : Nat) : Rat))

structure NormXYR where
  pts : List (Rat × Rat)
  s : Rat
  tx : Rat
  ty : Rat
  deriving DecidableEq, Repr

/-- `norm_xy(pts)` → normalised points and `Affine(s, 0, tx, 0, s, ty)`. -/
def normXyF (fl : Rat → Rat) (pts : List (Rat × Rat)) (ds : List Rat) (r2 : Rat) : NormXYR :=
  let mx := meanF fl (pts.map (·.1))                    -- _mean = pts.mean(axis=0)
  let my := meanF fl (pts.map (·.2))
  let m := meanF fl ds                                  -- mean_dist
  let s := if 0 < m then fl (r2 / m) else 1             -- float(np.sqrt(2.0) / mean_dist) if mean_dist > 0 else 1.0
  ⟨pts.map fun p => (fl (fl (p.1 - mx) * s), fl (fl (p.2 - my) * s)),     -- XX = pts - _mean; XX *= sx
   s, fl (-mx * s), fl (-my * s)⟩                                          -- tx, ty = -_mean * sx

/-- the squared distances whose roots `ds` are: `(XX**2).sum(axis=1)` before the scaling -/
def normXySq (fl : Rat → Rat) (pts : List (Rat × Rat)) : List Rat :=
  let mx := meanF fl (pts.map (·.1))
  let my := meanF fl (pts.map (·.2))
  pts.map fun p => fl (fl (fl (p.1 - mx) * fl (p.1 - mx)) + fl (fl (p.2 - my) * fl (p.2 - my)))

end OdcGeo.C20
