/-
`norm_xy` (`odc/geo/math.py:447-472`) as an executable model, core Lean only, parametric in the rounding `fl` of every
float operation the code performs (`id` for the theorems — then it is the field-generic `normXYK` of `Lemmas/C20e.lean`,
see `Props/C20NormXy.lean` — and C14's `fl64` in the driver, bit for bit).  The two kinds of square roots are inputs:
`ds[i] = sqrt((XX[i]**2).sum())` and `r2 = sqrt(2.0)`.  Sums are sequential left to right (numpy's 1-d reduction below
8 elements; the axis-0 reduction of the `N×2` array is sequential for every `N`).
-/
import OdcGeo.Model.C20
namespace OdcGeo.C20

/-- left-to-right float sum -/
def seqSum (fl : Rat → Rat) (xs : List Rat) : Rat := xs.foldl (fun acc x => fl (acc + x)) 0

/-- `arr.mean()` -/
def meanF (fl : Rat → Rat) (xs : List Rat) : Rat := fl (seqSum fl xs / ((xs.length : Nat) : Rat))

structure NormXYR where
  pts : List (Rat × Rat)
  s : Rat
  tx : Rat
  ty : Rat
  deriving DecidableEq, Repr

/-- `norm_xy(pts)` → normalised points and `Affine(s, 0, tx, 0, s, ty)`. -/
def normXyF (fl : Rat → Rat) (pts : List (Rat × Rat)) (ds : List Rat) (r2 : Rat) : NormXYR :=
  let mx := meanF fl (pts.map (·.1))                    -- _mean = pts.mean(axis=0)
  let my := meanF fl (pts.map (·.2))
  let m := meanF fl ds                                  -- mean_dist
  let s := if 0 < m then fl (r2 / m) else 1             -- float(np.sqrt(2.0) / mean_dist) if mean_dist > 0 else 1.0
  ⟨pts.map fun p => (fl (fl (p.1 - mx) * s), fl (fl (p.2 - my) * s)),     -- XX = pts - _mean; XX *= sx
   s, fl (-mx * s), fl (-my * s)⟩                                          -- tx, ty = -_mean * sx

/-- the squared distances whose roots `ds` are: `(XX**2).sum(axis=1)` before the scaling -/
def normXySq (fl : Rat → Rat) (pts : List (Rat × Rat)) : List Rat :=
  let mx := meanF fl (pts.map (·.1))
  let my := meanF fl (pts.map (·.2))
  pts.map fun p => fl (fl (fl (p.1 - mx) * fl (p.1 - mx)) + fl (fl (p.2 - my) * fl (p.2 - my)))

/-! ### numpy's pairwise summation for 8 ≤ n ≤ 128 (`pairwise_sum`, one block): eight running accumulators over chunks
of eight, combined as a fixed tree, the `n % 8` leftover elements added one by one -/

/-- `k` more chunks of eight added into the eight accumulators `r`; returns the accumulators and what is left over -/
def accsK (fl : Rat → Rat) : Nat → List Rat → List Rat → List Rat × List Rat
  | 0, r, rest => (r, rest)
  | k + 1, r, rest => accsK fl k (List.zipWith (fun a b => fl (a + b)) r (rest.take 8)) (rest.drop 8)

/-- `np.add.reduce` of a contiguous 1-d float64 array with at most 128 elements -/
def pairSum (fl : Rat → Rat) (xs : List Rat) : Rat :=
  if xs.length < 8 then seqSum fl xs
  else
    let (r, tail) := accsK fl (xs.length / 8 - 1) (xs.take 8) (xs.drop 8)
    let g := fun (i : Nat) => r.getD i 0
    let res := fl (fl (fl (g 0 + g 1) + fl (g 2 + g 3)) + fl (fl (g 4 + g 5) + fl (g 6 + g 7)))
    tail.foldl (fun acc x => fl (acc + x)) res

/-- `arr.mean()` of a 1-d array (pairwise summation) -/
def meanP (fl : Rat → Rat) (xs : List Rat) : Rat := fl (pairSum fl xs / ((xs.length : Nat) : Rat))

/-- `norm_xy(pts)` for up to 128 points: the coordinate means are axis-0 reductions (sequential), the mean distance is
a 1-d reduction (pairwise).  For fewer than 8 points this is `normXyF`. -/
def normXyP (fl : Rat → Rat) (pts : List (Rat × Rat)) (ds : List Rat) (r2 : Rat) : NormXYR :=
  let mx := meanF fl (pts.map (·.1))
  let my := meanF fl (pts.map (·.2))
  let m := meanP fl ds
  let s := if 0 < m then fl (r2 / m) else 1
  ⟨pts.map fun p => (fl (fl (p.1 - mx) * s), fl (fl (p.2 - my) * s)), s, fl (-mx * s), fl (-my * s)⟩

end OdcGeo.C20
