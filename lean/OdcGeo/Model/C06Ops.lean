/-
More of `odc/geo/cog/_mpu.py` around the core of `Model/C06.lean` (core Lean only):

* the integer RETURN VALUES of `flush_rhs` / `maybe_write` / `flush` (bytes written by the call) and the two
  keyword forms of `flush` (`leftPartId=None`, `finalise=False` followed by a separate `write.finalise(chunk.parts)`);
* what a task leaves behind in its INPUT objects (`merge` calls `lhs.flush_rhs`, which mutates `lhs`; the merged chunk
  shares `lhs.parts` when the right side has not written), hence what a second execution of the same merge task on
  the same objects does;
* `MPUChunk.__dask_tokenize__`.
-/
import OdcGeo.Model.C06
namespace OdcGeo.C06
variable {α : Type}

/-! ### return values -/

/-- `_flush_data` with its return value `len(_data)` -/
def flushDataRet (W : Writer) (c : Chunk α) (data : List α) : Res (Chunk α × List (Part α) × Nat) :=
  if ¬ (W.minPart ≤ c.next ∧ c.next ≤ W.maxPart) then .error .assertion
  else
    let keep := !c.started && decide (0 < c.lhsKeep)
    let left' := if keep then data.take c.lhsKeep else c.left
    let d' := if keep then data.drop c.lhsKeep else data
    let p : Part α := ⟨c.next, d'⟩
    .ok ({ c with left := left', parts := c.parts ++ [p], data := [],
                  next := c.next + 1, credits := c.credits - 1 }, [p], d'.length)

/-- `flush_rhs(write, extra_data) -> int` (`_mpu.py:167-217`): bytes handed to the writer by this call, 0 when the
data only moved to `left_data` -/
def flushRhsRet (w : Option Writer) (c : Chunk α) (extra : List α) : Res (Chunk α × List (Part α) × Nat) :=
  let data := c.data ++ extra
  if c.started then
    match w with
    | none => .error .runtimeError
    | some W => if canFlush W c data.length then flushDataRet W c data else .error .assertion
  else
    match w with
    | some W =>
      if canFlush W c data.length then flushDataRet W c data
      else .ok ({ c with left := c.left ++ data, data := [] }, [], 0)
    | none => .ok ({ c with left := c.left ++ data, data := [] }, [], 0)

/-- `maybe_write(write, spill_sz) -> int` (`_mpu.py:256-284`): `bytes_to_write`, or 0 when nothing is spilled -/
def maybeWriteRet (W : Writer) (spill : Nat) (c : Chunk α) : Res (Chunk α × List (Part α) × Nat) :=
  match maybeWrite W spill c with
  | .error e => .error e
  | .ok (c', ws) =>
    -- the code returns `bytes_to_write`, which it asserts to be `len(spill_data)`
    .ok (c', ws, match ws with | [] => 0 | p :: _ => p.data.length)

/-- what `flush` returns and leaves behind -/
structure FlushRet (α : Type) where
  bytesWritten : Nat
  writes : List (Part α)            -- writer calls made by this call, in call order
  parts : List (Part α)             -- `self.parts` afterwards: what `write.finalise` gets, now or later
  finalised : Bool                  -- was `write.finalise(self.parts)` called by `flush` itself
  after : Chunk α                   -- the chunk afterwards
  deriving Repr

/-- `flush(write, leftPartId=None, finalise=True) -> (bytes_written, rr)` (`_mpu.py:219-254`) with every keyword
form.  `leftPartId = none` is the default (`self.nextPartId` while nothing was written, else `1`). -/
def flushFull (W : Writer) (c : Chunk α) (leftPartId : Option Nat) (finalise : Bool) : Res (FlushRet α) :=
  if !c.started then
    if c.left.length ≠ 0 then .error .assertion
    else
      let pid := match leftPartId with | none => c.next | some v => v
      let p : Part α := ⟨pid, c.data⟩
      .ok ⟨c.data.length, [p], c.parts ++ [p], finalise, { c with parts := c.parts ++ [p], data := [] }⟩
  else
    let r1 : Res (Chunk α × List (Part α) × Nat) :=
      if c.data.length ≠ 0 then flushRhsRet (some W) { c with isFinal := true } [] else .ok (c, [], 0)
    match r1 with
    | .error e => .error e
    | .ok (c1, w1, n1) =>
      if c1.left.length ≠ 0 then
        if c1.left.length < W.minWrite then .error .assertion
        else
          let pid := match leftPartId with | none => 1 | some v => v
          let p : Part α := ⟨pid, c1.left⟩
          .ok ⟨n1 + c1.left.length, w1 ++ [p], p :: c1.parts, finalise,
               { c1 with parts := p :: c1.parts, left := [] }⟩
      else .ok ⟨n1, w1, c1.parts, finalise, c1⟩

/-! ### what a merge task leaves in its inputs; running it twice -/

/-- result of one execution of `_merge_and_spill_op(lhs, rhs, write, spill_sz)` together with the state the two
INPUT objects are left in.

* right side has not written: the merged chunk is a new object but shares `lhs.parts` (and `lhs.left_data`); a spill by
  the following `maybe_write` appends to that shared list, so `lhs.parts` grows; `maybe_write` re-binds `data` and
  `left_data`, everything else of `lhs` and all of `rhs` is untouched;
* right side has written: `lhs.flush_rhs(write, rhs.left_data)` works on `lhs` in place (`lhs` afterwards is the chunk
  `flushRhs` returns); the merged chunk has a fresh parts list and only re-binds what it shares with `rhs`. -/
structure MergePost (α : Type) where
  result : Chunk α
  writes : List (Part α)
  lhsAfter : Chunk α
  rhsAfter : Chunk α
  deriving Repr

def mergeAndSpillPost (w : Option Writer) (spill : Nat) (l r : Chunk α) : Res (MergePost α) :=
  match mergeAndSpill w spill l r with
  | .error e => .error e
  | .ok (m, ws) =>
    if !r.started then
      -- `ws` are the parts spilled by `maybe_write` (merge itself writes nothing in this branch)
      .ok ⟨m, ws, { l with parts := l.parts ++ ws }, r⟩
    else
      match flushRhs w l r.left with
      | .error e => .error e
      | .ok (l', _) => .ok ⟨m, ws, l', r⟩

/-- the same merge task executed a second time on the same (by now modified) input objects, as after a lost result is
recomputed on the worker that still holds the inputs: `(first, second)` -/
def mergeTwice (w : Option Writer) (spill : Nat) (l r : Chunk α) : Res (MergePost α × Res (MergePost α)) :=
  match mergeAndSpillPost w spill l r with
  | .error e => .error e
  | .ok p1 => .ok (p1, mergeAndSpillPost w spill p1.lhsAfter p1.rhsAfter)

/-! ### `__dask_tokenize__` (`_mpu.py:95-105`) -/

/-- the tuple `MPUChunk.__dask_tokenize__` returned before fix F64 (b3bf7eb): every field except `lhs_keep` -/
def Chunk.tokenAsFound (c : Chunk α) :
    Nat × Int × List α × List α × List (Part α) × List (Nat × Int) × Bool :=
  (c.next, c.credits, c.data, c.left, c.parts, c.observed, c.isFinal)

/-- the tuple `MPUChunk.__dask_tokenize__` returns on /repo main (as repaired by F64): `lhs_keep` included -/
def Chunk.token (c : Chunk α) :
    (Nat × Int × List α × List α × List (Part α) × List (Nat × Int) × Bool) × Nat :=
  (c.tokenAsFound, c.lhsKeep)

end OdcGeo.C06

namespace OdcGeo.C06
variable {α : Type}

/-! ### the finaliser task executed twice -/

/-- one execution of `_finalizer_dask_op(root, write, mk_header, mk_footer)` together with the state its INPUT object
`root` is left in:
* a non-empty footer is appended to `root` itself (`_root.append(footer_bytes)`);
* with a non-empty header the flush works on the chunk `merge(hdr, root)` returns — a new object whose lists are fresh or
  re-bound before they change, so `root` keeps the state it had after the footer was appended;
* without a header (and with a writer) `flush` works on `root` itself: `root` afterwards is the flushed chunk. -/
structure FinPost (α : Type) where
  out : Out α
  writes : List (Part α)
  rootAfter : Chunk α
  deriving Repr

def finalizerPost (w : Option Writer) (root : Chunk α) (hdr ftr : Option (List α)) : Res (FinPost α) :=
  let root1 := match ftr with
    | some f => if f.length ≠ 0 then root.append f (-1) else root
    | none => root
  let hasHdr := match hdr with | some h => decide (h.length ≠ 0) | none => false
  match finalizer w root hdr ftr with
  | .error e => .error e
  | .ok (out, ws) =>
    match w with
    | none => .ok ⟨out, ws, root1⟩
    | some W =>
      if hasHdr then .ok ⟨out, ws, root1⟩
      else match flushFull W root1 (some W.minPart) true with
        | .error e => .error e
        | .ok r => .ok ⟨out, ws, r.after⟩

/-- the finaliser executed again on the same (by now modified) root; the callbacks see the root's observed list of
that moment -/
def finalizerTwice (w : Option Writer) (root : Chunk α) (mkHdr mkFtr : Option (List (Nat × Int) → List α)) :
    Res (FinPost α × Res (FinPost α)) :=
  match finalizerPost w root (mkHdr.map fun f => f root.observed) (mkFtr.map fun f => f root.observed) with
  | .error e => .error e
  | .ok p1 =>
    .ok (p1, finalizerPost w p1.rootAfter (mkHdr.map fun f => f p1.rootAfter.observed)
      (mkFtr.map fun f => f p1.rootAfter.observed))

end OdcGeo.C06
