/-
Model for C14, third part — `Bin1D` / `GridSpec` on the WHOLE float domain (core Lean only):
non-finite and overflowing tile sizes, resolutions, origins and coordinates, float-valued tile indices, integer indices
beyond 2^53 (`int * float` converts the int first: one extra rounding, `OverflowError` beyond the float range).

IEEE-754 semantics as CPython exposes them: `nan` absorbs, `inf - inf = nan`, `0 * inf = nan`, finite results are rounded
by `fl` and become `±inf` at the overflow threshold `ovf` (`none` = exact arithmetic, no overflow: the instance the theorems
relate to `Model/C14.lean`; `some 2^1024` with `fl64` = binary64: the instance the driver also runs).  Signed zeros are not
distinguished (nothing here divides by zero or prints a zero's sign).
-/
import OdcGeo.Model.C14Args
namespace OdcGeo.C14

structure FEnv where
  fl : Rnd
  ovf : Option Rat

def FEnv.exact : FEnv := ⟨id, none⟩

/-- a finite real result → float: rounded, `±inf` on overflow -/
def FEnv.ofRat (E : FEnv) (q : Rat) : XF :=
  let r := E.fl q
  match E.ovf with
  | none => .fin r
  | some M => if M ≤ r then .pinf else if r ≤ -M then .ninf else .fin r

/-- `float(n)` for a Python int: rounded; `OverflowError` ("int too large to convert to float") beyond the range -/
def FEnv.ofInt (E : FEnv) (n : Int) : ResX XF :=
  match E.ofRat (n : Rat) with
  | .fin r => .ok (.fin r)
  | _ => .error .overflow

def XF.neg : XF → XF
  | .fin q => .fin (-q)
  | .nan => .nan
  | .pinf => .ninf
  | .ninf => .pinf

def XF.abs : XF → XF
  | .fin q => .fin (rabs q)
  | .nan => .nan
  | _ => .pinf

/-- `+1` positive, `-1` negative, `0` zero (finite or infinite); `nan` has none -/
def XF.sign? : XF → Option Int
  | .fin q => some (if 0 < q then 1 else if q < 0 then -1 else 0)
  | .pinf => some 1
  | .ninf => some (-1)
  | .nan => none

def XF.mul (E : FEnv) : XF → XF → XF
  | .fin a, .fin b => E.ofRat (a * b)
  | .nan, _ => .nan
  | _, .nan => .nan
  | x, y =>    -- at least one infinity
    match x.sign?, y.sign? with
    | some s, some t => if s * t = 0 then .nan else if 0 < s * t then .pinf else .ninf
    | _, _ => .nan

def XF.addX (E : FEnv) : XF → XF → XF
  | .fin a, .fin b => E.ofRat (a + b)
  | .nan, _ => .nan
  | _, .nan => .nan
  | .pinf, .ninf => .nan
  | .ninf, .pinf => .nan
  | .pinf, _ => .pinf
  | .ninf, _ => .ninf
  | _, .pinf => .pinf
  | _, .ninf => .ninf

def XF.subX (E : FEnv) (x y : XF) : XF := x.addX E y.neg

/-- `x / y` for `y > 0` (the only divisor here is a tile size that passed `assert sz > 0`) -/
def XF.divPos (E : FEnv) : XF → XF → XF
  | .fin a, .fin b => E.ofRat (a / b)
  | .nan, _ => .nan
  | _, .nan => .nan
  | .fin _, _ => .fin 0          -- finite / inf
  | .pinf, .fin _ => .pinf
  | .ninf, .fin _ => .ninf
  | _, _ => .nan                 -- inf / inf

/-- `x > 0` / `a < b` as Python evaluates them (`nan` compares false) -/
def XF.isPos : XF → Bool
  | .fin q => decide (0 < q)
  | .pinf => true
  | _ => false

def XF.ltX : XF → XF → Bool
  | .nan, _ => false
  | _, .nan => false
  | .fin a, .fin b => decide (a < b)
  | .ninf, .ninf => false
  | .ninf, _ => true
  | _, .pinf => true      -- (pinf, pinf) excluded below
  | _, _ => false

def XF.lt (a b : XF) : Bool := if a = .pinf then false else a.ltX b

/-- `math.floor(x)` -/
def XF.floor : XF → ResX Int
  | .fin q => .ok q.floor
  | .nan => .error (.k .valueError)
  | _ => .error .overflow

/-- a tile index / coordinate as a Python number → the float that takes part in the arithmetic -/
def Num.toXF (E : FEnv) : Num → ResX XF
  | .int v => E.ofInt v
  | .flt v => .ok (.fin v)
  | .nan => .ok .nan
  | .pinf => .ok .pinf
  | .ninf => .ok .ninf

/-! ### `Bin1D` -/

structure Bin1DX where
  sz : XF
  origin : XF
  dir : Int
  deriving DecidableEq, Repr

/-- `Bin1D.__init__` -/
def Bin1DX.new (sz origin : XF) (dir : Int) : ResX Bin1DX :=
  if ¬ (dir = -1 ∨ dir = 1) then .error (.k .assertion)
  else if !sz.isPos then .error (.k .assertion)
  else .ok ⟨sz, origin, dir⟩

/-- `Bin1D.__getitem__(idx)[0]`: `idx * self.sz * self.direction + self.origin` -/
def Bin1DX.lo (E : FEnv) (b : Bin1DX) (k : Num) : ResX XF := do
  let kf ← k.toXF E
  pure (((kf.mul E b.sz).mul E (.fin (b.dir : Rat))).addX E b.origin)

/-- `Bin1D.__getitem__(idx)[1]` -/
def Bin1DX.hi (E : FEnv) (b : Bin1DX) (k : Num) : ResX XF := do
  let l ← b.lo E k
  pure (l.addX E b.sz)

/-- `Bin1D.bin(x)` -/
def Bin1DX.bin (E : FEnv) (b : Bin1DX) (x : XF) : ResX Int := do
  let i ← ((x.subX E b.origin).divPos E b.sz).floor
  pure (b.dir * i)

/-- `Bin1D.from_sample_bin(idx, (x0, x1), direction)` -/
def Bin1DX.fromSampleBin (E : FEnv) (idx : Int) (x0 x1 : XF) (dir : Int) : ResX Bin1DX := do
  if !(x0.lt x1) then throw (.k .assertion)
  let sz := x1.subX E x0
  let i ← E.ofInt idx
  let origin := x0.subX E ((sz.mul E i).mul E (.fin (dir : Rat)))
  Bin1DX.new sz origin dir

/-! ### `GridSpec` -/

structure GridSpecX where
  ny : Int
  nx : Int
  rx : XF
  ry : XF
  ox : XF
  oy : XF
  xbin : Bin1DX
  ybin : Bin1DX
  deriving DecidableEq, Repr

/-- `GridSpec.__init__` on normalised arguments (resolution and origin may be any floats) -/
def GridSpecX.new (E : FEnv) (ny nx : Int) (rx ry ox oy : XF) (flipx flipy : Bool) : ResX GridSpecX := do
  let fnx ← E.ofInt nx
  let tsx := fnx.mul E rx.abs
  let fny ← E.ofInt ny
  let tsy := fny.mul E ry.abs
  let ybin ← Bin1DX.new tsy oy (dirOf flipy)
  let xbin ← Bin1DX.new tsx ox (dirOf flipx)
  pure ⟨ny, nx, rx, ry, ox, oy, xbin, ybin⟩

def GridSpecX.pt2idx (E : FEnv) (g : GridSpecX) (x y : XF) : ResX (Int × Int) := do
  let ix ← g.xbin.bin E x
  let iy ← g.ybin.bin E y
  pure (ix, iy)

/-- `_tile_txy`: `x0 if rx > 0 else x1` — a `nan` resolution would pick the far edge (but is rejected by `__init__`) -/
def GridSpecX.tileTxy (E : FEnv) (g : GridSpecX) (kx ky : Num) : ResX (XF × XF) := do
  let x0 ← g.xbin.lo E kx
  let x1 ← g.xbin.hi E kx
  let y0 ← g.ybin.lo E ky
  let y1 ← g.ybin.hi E ky
  pure (if g.rx.isPos then x0 else x1, if g.ry.isPos then y0 else y1)

/-! ### embedding of the finite model -/

def Bin1D.toX (b : Bin1D) : Bin1DX := ⟨.fin b.sz, .fin b.origin, b.dir⟩

def GridSpec.toX (g : GridSpec) : GridSpecX :=
  ⟨g.ny, g.nx, .fin g.rx, .fin g.ry, .fin g.ox, .fin g.oy, g.xbin.toX, g.ybin.toX⟩

/-- `GridSpec.dimensions` = `crs.dimensions` (crs.py): `('latitude', 'longitude')` for a geographic CRS, `('y', 'x')` for a
    projected one, `ValueError` for any other (the classification is pyproj's: an input) -/
inductive CrsKind where
  | geographic | projected | otherKind
  deriving DecidableEq, Repr

def dimensions : CrsKind → Res (String × String)
  | .geographic => .ok ("latitude", "longitude")
  | .projected => .ok ("y", "x")
  | .otherKind => .error .valueError

/-- `GridSpec.tile_shape` -/
def GridSpec.tileShape (g : GridSpec) : Int × Int := (g.ny, g.nx)

end OdcGeo.C14
