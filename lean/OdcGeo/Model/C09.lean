/-
Model for C09 — xarray geo-registration (`odc/geo/_xr_interop.py`, `odc/geo/math.py`
`data_resolution_and_offset` / `affine_from_axis` / `resolution_from_affine`,
`GeoBox.coordinates`, `GCPGeoBox.gcps`).  Core Lean only.

A geo-registered xarray object is modelled by what the recovery code reads:
dimension names, the coordinates (1-D numeric axis labels with their `encoding["_transform"]`
and `attrs["crs"]`, non-numeric index coordinates such as `time`/`band`, the 0-d CRS
coordinate with its parsed `spatial_ref` / `GeoTransform` / `gcps` attributes, other 0-d
coordinates), `encoding["grid_mapping"]` of the array and the attribute keys.

xarray itself is a parameter: `isel` acts on every coordinate of the indexed dimension by
numpy positional indexing (`Spec/PySliceStep`), arithmetic / `astype` keep coordinates
(with encoding and attrs) but drop the array's own `encoding`, pickling keeps everything.
That contract is exercised against the real xarray by the harness on every run.

The model follows the code **as repaired on branch fix-C09** (1-pixel fallback of
pixel-space labels is one pixel; pixel labels are exact; Dataset output assembled
without `Dataset.map`).
-/
import OdcGeo.Model.Affine
import OdcGeo.Spec.PySliceStep
namespace OdcGeo.C09
open OdcGeo

/-- What this property sees of a CRS: an identity and `crs.geographic`. -/
structure Crs where
  id : Nat
  geographic : Bool
  deriving DecidableEq, Repr

/-- `crs.dimensions` / `GeoBoxBase.dimensions` (geobox.py:151-157, crs.py:188-201) -/
def dimsOf : Option Crs → String × String
  | some ⟨_, true⟩ => ("latitude", "longitude")
  | _ => ("y", "x")

/-- linear `GeoBox` -/
structure GeoBox where
  ny : Nat
  nx : Nat
  A : Aff
  crs : Option Crs
  deriving DecidableEq, Repr

/-- one ground control point: pixel `(col,row)` ↦ world `(x,y)` -/
structure Gcp where
  col : Rat
  row : Rat
  x : Rat
  y : Rat
  deriving DecidableEq, Repr

/-- `GCPGeoBox`: shape, mapping (its point set) and the pixel-side affine -/
structure GcpBox where
  ny : Nat
  nx : Nat
  pts : List Gcp
  A : Aff
  crs : Option Crs
  deriving DecidableEq, Repr

inductive Src where
  | lin (g : GeoBox)
  | gcp (g : GcpBox)
  deriving DecidableEq, Repr

/-- exact value of the Python double `1e-10` (default `tol` of `is_affine_st`) -/
def tolST : Rat := 7737125245533627 / 77371252455336267181195264

def rabs (x : Rat) : Rat := if x < 0 then -x else x

/-- `is_affine_st(A)` (math.py:340-349) -/
def isAffineST (A : Aff) : Bool := rabs A.b < tolST && rabs A.d < tolST

/-- The 0-d CRS coordinate written by `_mk_crs_coord` as far as it is read back:
`_extract_crs`, `_extract_geo_transform`, `_extract_gcps`. -/
structure CrsCoord where
  crs : Option Crs
  gt : Option Aff
  gcps : Option (List Gcp)
  deriving DecidableEq, Repr

inductive Coord where
  /-- 1-D numeric index coordinate: values, `encoding["_transform"]`, parsed `attrs["crs"]` -/
  | axis (vals : List Rat) (xform : Option Aff) (crsAttr : Option Crs)
  /-- non-numeric index coordinate (`time`, `band`) of that length -/
  | other (len : Nat)
  /-- 0-d coordinate carrying `spatial_ref` / `crs_wkt` -/
  | crs (c : CrsCoord)
  /-- 0-d coordinate left behind by an integer index (no `spatial_ref` attribute) -/
  | scalar
  deriving DecidableEq, Repr

structure XArr where
  dims : List String
  coords : List (String × Coord)
  /-- `encoding.get("grid_mapping")` (the `attrs` fallback is folded into the same field) -/
  gridMapping : Option String
  attrs : List String
  deriving DecidableEq, Repr

/-! ### writing: `xr_coords`, `_mk_pixel_coord`, `_coord_to_xr`, `wrap_xr` (161-214, 357-418, 978-1033) -/

/-- `numpy.arange(0.5, sz)` -/
def pixelLabels (n : Nat) : List Rat := (List.range n).map (fun (k : Nat) => (k : Rat) + 1 / 2)

/-- `numpy.arange(n) * r + (t + r / 2)` (`GeoBox.coordinates`, geobox.py:754-781) -/
def axisLabels (n : Nat) (r t : Rat) : List Rat :=
  (List.range n).map (fun (k : Nat) => (k : Rat) * r + (t + r / 2))

/-- `GCPGeoBox.gcps()` (gcp.py:291-309): GCPs in the pixel frame of this box. -/
def exportGcps (g : GcpBox) : Res (List Gcp) := do
  let ai ← g.A.inv?
  return g.pts.map fun p => let q := ai.apply (p.col, p.row); ⟨q.1, q.2, p.x, p.y⟩

/-- `xr_coords(gbox, crs_coord_name)` for `crs_coord_name = some name` -/
def xrCoords (s : Src) (crsName : String) : Res (List (String × Coord)) :=
  match s with
  | .gcp g => do
    let (yd, xd) := dimsOf g.crs
    let base := [(yd, Coord.axis (pixelLabels g.ny) none none), (xd, Coord.axis (pixelLabels g.nx) none none)]
    let pts ← exportGcps g
    match g.crs with
    | none => return base
    | some c => return base ++ [(crsName, .crs ⟨some c, none, some pts⟩)]
  | .lin g =>
    let (yd, xd) := dimsOf g.crs
    let base :=
      if isAffineST g.A then
        [(yd, Coord.axis (axisLabels g.ny g.A.e g.A.f) none g.crs),
         (xd, Coord.axis (axisLabels g.nx g.A.a g.A.c) none g.crs)]
      else
        [(yd, Coord.axis (pixelLabels g.ny) (some g.A) none),
         (xd, Coord.axis (pixelLabels g.nx) (some g.A) none)]
    match g.crs with
    | none => .ok base
    | some c => .ok (base ++ [(crsName, .crs ⟨some c, some g.A, none⟩)])

def srcDims (s : Src) : String × String :=
  match s with | .lin g => dimsOf g.crs | .gcp g => dimsOf g.crs

/-- `wrap_xr(im, gbox, time=…, crs_coord_name=name, **attrs)`: optional leading `time`
axis of length `nt`, optional trailing `band` axis of length `nb`. -/
def wrap (s : Src) (nt nb : Option Nat) (crsName : String) (attrs : List String) : Res XArr := do
  let cs ← xrCoords s crsName
  let (yd, xd) := srcDims s
  let pre := match nt with | none => [] | some _ => ["time"]
  let post := match nb with | none => [] | some _ => ["band"]
  let tc := match nt with | none => [] | some n => [("time", Coord.other n)]
  let bc := match nb with | none => [] | some n => [("band", Coord.other n)]
  return ⟨pre ++ [yd, xd] ++ post, cs ++ tc ++ bc, some crsName, attrs⟩

/-! ### reading: `spatial_dims`, `_locate_crs_coords`, `_extract_transform`, `_locate_geo_info` -/

/-- the first three branches of `spatial_dims`: a known pair of names is present -/
def guessDims (dims : List String) : Option (String × String) :=
  if dims.contains "y" && dims.contains "x" then some ("y", "x")
  else if dims.contains "latitude" && dims.contains "longitude" then some ("latitude", "longitude")
  else if dims.contains "lat" && dims.contains "lon" then some ("lat", "lon")
  else none

/-- `spatial_dims(xx, relaxed=True)` (132-158) -/
def spatialDims (dims : List String) : Option (String × String) :=
  match guessDims dims with
  | some p => some p
  | none => match dims.reverse with
    | x :: y :: _ => some (y, x)
    | _ => none

/-- every 0-d coordinate with a `spatial_ref`/`crs_wkt` attribute, in order -/
def crsScan (cs : List (String × Coord)) : List CrsCoord :=
  cs.filterMap fun kc => match kc.2 with | .crs c => some c | _ => none

/-- `_locate_crs_coords` (427-443): through `grid_mapping` if set, else every 0-d coordinate
with a `spatial_ref`/`crs_wkt` attribute.  (`grid_mapping` naming a coordinate that is not a
CRS coordinate yields a coordinate without CRS attributes.) -/
def locateCrsCoords (a : XArr) : List CrsCoord :=
  match a.gridMapping with
  | some nm =>
    match a.coords.lookup nm with
    | some (.crs c) => [c]
    | some _ => [⟨none, none, none⟩]
    | none => []
  | none => crsScan a.coords

/-- `data_resolution_and_offset(data, fallback_resolution)` (math.py:220-242) -/
def dataResOff (data : List Rat) (fallback : Option Rat) : Res (Rat × Rat) :=
  match data with
  | [] => .error .valueError
  | [v] =>
    match fallback with
    | none => .error .valueError
    | some r => .ok (r, v - (1 / 2) * r)
  | v0 :: v1 :: rest =>
    let last := (v1 :: rest).getLast (by simp)
    let res := (last - v0) / (((rest.length + 2 : Nat) : Rat) - 1)
    .ok (res, v0 - (1 / 2) * res)

/-- `affine_from_axis(xx, yy, fallback_resolution)` (math.py:245-292) -/
def affineFromAxis (xx yy : List Rat) (fallback : Option (Rat × Rat)) : Res Aff := do
  let (xres, xoff) ← dataResOff xx (fallback.map (·.1))
  let (yres, yoff) ← dataResOff yy (fallback.map (·.2))
  return Aff.translation xoff yoff * Aff.scale xres yres

/-- `resolution_from_affine(A)` (math.py:494-505) as `(rx, ry)`.  The rotated branch needs a
square root (`decompose_rws`); it is unreachable from arrays written by `wrap` (theorems
`roundtrip_*`, `survives`) and reported as `NotImplemented` here. -/
def resolutionFromAffine (A : Aff) : Res (Rat × Rat) :=
  if isAffineST A then .ok (A.a, A.e) else .error .notImplemented

/-- the fallback resolution of `_extract_transform` for single-element axes (as repaired):
one pixel for pixel-space labels (GCP source or `_transform` present), else the resolution of
the `GeoTransform` of the CRS coordinate, else nothing. -/
def fallbackRes (p2w : Option Aff) (cc : Option CrsCoord) (gcp : Bool) : Res (Option (Rat × Rat)) :=
  if gcp || p2w.isSome then .ok (some (1, 1))
  else match cc with
    | none => .ok none
    | some c => match c.gt with
      | none => .ok none
      | some g => (resolutionFromAffine g).map some

def composeP2W (p2w : Option Aff) (t : Aff) : Aff := match p2w with | some p => p * t | none => t

/-- `_extract_transform(src, sdims, crs_coord, gcp)` (486-525) for the case that both spatial
dimensions have numeric coordinates; `none` = no transform. -/
def extractTransform (xs ys : List Rat) (xform : Option Aff) (cc : Option CrsCoord) (gcp : Bool) :
    Res (Option Aff) :=
  let p2w := if gcp then none else xform
  match affineFromAxis xs ys none with
  | .ok t => .ok (some (composeP2W p2w t))
  | .error _ =>
    match fallbackRes p2w cc gcp with
    | .error e => .error e
    | .ok none => .ok none
    | .ok (some r) =>
      match affineFromAxis xs ys (some r) with
      | .ok t => .ok (some (composeP2W p2w t))
      | .error _ => .ok none

inductive Recovered where
  | nothing
  | lin (g : GeoBox)
  | gcp (g : GcpBox)
  deriving DecidableEq, Repr

def firstSome {α} (a b : Option α) : Option α := match a with | some x => some x | none => b

/-- `_locate_geo_info(src).geobox` (528-567).  Spatial dimensions without a coordinate raise
`KeyError` in the code and non-numeric ones `TypeError` (both outside the property; reported
as `RuntimeError` here and not exercised). -/
def recover (a : XArr) : Res Recovered :=
  match spatialDims a.dims with
  | none => .ok .nothing
  | some (yd, xd) =>
    match a.coords.lookup yd, a.coords.lookup xd with
    | some (.axis ys _ ycrs), some (.axis xs xf xcrs) =>
      let ccs := locateCrsCoords a
      let cc := ccs.head?
      let crs := match cc with
        | some c => c.crs
        | none => firstSome ycrs xcrs
      let gcp := cc.bind (·.gcps)
      match extractTransform xs ys xf cc gcp.isSome with
      | .error e => .error e
      | .ok t =>
        match gcp with
        | some pts => .ok (.gcp ⟨ys.length, xs.length, pts, t.getD Aff.id, crs⟩)
        | none =>
          match t with
          | some t => .ok (.lin ⟨ys.length, xs.length, t, crs⟩)
          | none => .ok .nothing
    | _, _ => .error .runtimeError

/-! ### operations (assumed xarray contract) -/

inductive Idx where
  | slc (start stop : Option Int) (step : Option Int)
  | int (i : Int)
  deriving DecidableEq, Repr

inductive Op where
  | isel (dim : String) (ix : Idx)
  | arith
  | astype
  | pickle
  deriving DecidableEq, Repr

/-- numpy positional selection on a label vector -/
def pick (vals : List Rat) (start stop : Option Int) (step : Int) : List Rat :=
  (PySliceStep.sel vals.length start stop step).filterMap fun i => vals[i.toNat]?

def coordLen : Coord → Nat
  | .axis v _ _ => v.length
  | .other n => n
  | _ => 0

def iselCoord (c : Coord) (start stop : Option Int) (step : Int) : Coord :=
  match c with
  | .axis v xf ca => .axis (pick v start stop step) xf ca
  | .other n => .other (PySliceStep.indices n start stop step).2
  | c => c

def mapCoord (nm : String) (f : Coord → Coord) : List (String × Coord) → List (String × Coord)
  | [] => []
  | (k, c) :: rest => (if k = nm then (k, f c) else (k, c)) :: mapCoord nm f rest

def applyOp (a : XArr) : Op → Res XArr
  | .arith => .ok { a with gridMapping := none }
  | .astype => .ok { a with gridMapping := none }
  | .pickle => .ok a
  | .isel dim ix =>
    if !a.dims.contains dim then .error .valueError
    else match a.coords.lookup dim with
      | none => .error .runtimeError
      | some c =>
        match ix with
        | .slc start stop step =>
          let st := step.getD 1
          if st = 0 then .error .valueError
          else .ok { a with coords := mapCoord dim (iselCoord · start stop st) a.coords }
        | .int i =>
          match PySliceStep.intIndex (coordLen c) i with
          | none => .error .indexError
          | some _ =>
            .ok { a with dims := a.dims.filter (· ≠ dim), coords := mapCoord dim (fun _ => .scalar) a.coords }

def applyOps (a : XArr) : List Op → Res XArr
  | [] => .ok a
  | op :: ops => match applyOp a op with
    | .error e => .error e
    | .ok a' => applyOps a' ops

/-! ### registration without a CRS coordinate, `assign_crs` -/

/-- `wrap_xr(im, gbox, crs_coord_name=None, …)` / `xr_coords(gbox, None)`: the same axis coordinates but no CRS
coordinate (so no GeoTransform / GCPs are stored) and no `grid_mapping` encoding. -/
def wrapNoName (s : Src) (nt nb : Option Nat) (attrs : List String) : Res XArr :=
  (wrap s nt nb "spatial_ref" attrs).map fun a =>
    { a with coords := a.coords.filter (fun kc => match kc.2 with | .crs _ => false | _ => true),
             gridMapping := none }

/-- `assign_crs(xx, crs, crs_coord_name)` (217-248): `assign_coords` of a fresh CRS coordinate (WKT only: no
GeoTransform, no GCPs) — replacing a coordinate of that name in place, else appended — and
`encoding["grid_mapping"] = crs_coord_name`. -/
def assignCrs (a : XArr) (crs : Crs) (cn : String) : XArr :=
  let cc : Coord := .crs ⟨some crs, none, none⟩
  { a with coords := (match a.coords.lookup cn with
                      | some _ => mapCoord cn (fun _ => cc) a.coords
                      | none => a.coords ++ [(cn, cc)]),
           gridMapping := some cn }

/-! ### reprojection output assembly: `_xr_reproject_da` (780-805), `_xr_reproject_ds` (676-711) -/

def spatialAttributes : List String := ["crs", "crs_wkt", "grid_mapping", "gcps", "epsg"]

/-- which coordinate names are attached to which dimension: index coordinates are named after
their dimension; 0-d coordinates reference no dimension. -/
def shouldKeep (sdims : String × String) : String × Coord → Bool
  | (_, .crs _) => false
  | (k, .axis _ _ _) => k ≠ sdims.1 && k ≠ sdims.2
  | (k, .other _) => k ≠ sdims.1 && k ≠ sdims.2
  | (_, .scalar) => true

/-- replace the two adjacent spatial dims by the destination ones -/
def replaceDims (dims : List String) (sd : String × String) (dd : String × String) : List String :=
  match dims with
  | [] => []
  | d :: rest => if d = sd.1 then dd.1 :: dd.2 :: rest.drop 1 else d :: replaceDims rest sd dd

/-- coords / dims / attrs / encoding of the DataArray built at the end of `_xr_reproject_da`
(`dstNodata`: whether a `dst_nodata=` argument was given).  `assert ydim + 1 == xdim`. -/
def assemble (src : XArr) (dst : GeoBox) (dstNodata : Bool) : Res XArr :=
  -- `dst_nodata` defaults to the source `nodata` / `_FillValue` attribute
  let hasNodata := dstNodata || src.attrs.contains "nodata" || src.attrs.contains "_FillValue"
  match spatialDims src.dims with
  | none => .error .valueError
  | some sd =>
    match src.dims.idxOf? sd.1, src.dims.idxOf? sd.2 with
    | some yi, some xi =>
      if yi + 1 ≠ xi then .error .assertion
      else
        let attrs0 := src.attrs.filter (fun k => !spatialAttributes.contains k)
        let attrs := if hasNodata then (attrs0.filter (· ≠ "nodata")) ++ ["nodata"]
                     else attrs0.filter (fun k => k ≠ "nodata" && k ≠ "_FillValue")
        let kept := src.coords.filter (shouldKeep sd)
        match xrCoords (.lin dst) "spatial_ref" with
        | .error e => .error e
        | .ok cs =>
          let names := cs.map (·.1)
          -- `coords.update(...)`: new entries replace same-named old ones
          let kept := kept.filter (fun kc => !names.contains kc.1)
          .ok ⟨replaceDims src.dims sd (dimsOf dst.crs), kept ++ cs, some "spatial_ref", attrs⟩
    | _, _ => .error .valueError

/-- `_maybe_reproject` inside `_xr_reproject_ds` (700-711): a data variable with a geobox is
reprojected to the (already computed) destination, any other passes through with its located
CRS coordinates stripped. -/
def reprojectVar (dst : GeoBox) (nv : String × XArr) : Res (String × XArr) :=
  match recover nv.2 with
  | .error e => Except.error e
  | .ok .nothing =>
    -- pass-through: drop located CRS coordinates
    let strip := match nv.2.gridMapping with
      | some g => [g]
      | none => nv.2.coords.filterMap fun (kc : String × Coord) => match kc with | (k, Coord.crs _) => some k | _ => none
    Except.ok (nv.1, { nv.2 with coords := nv.2.coords.filter (fun kc => !strip.contains kc.1) })
  | .ok _ => (assemble nv.2 dst false).map (fun o => (nv.1, o))

/-- `_xr_reproject_ds` as repaired (38c4bb2): the output Dataset is assembled directly from the
per-variable results (no `Dataset.map`); Dataset attrs are pruned.
Variables are `(name, array)`; the Dataset itself is `(attrs, variables)`. -/
def assembleDs (attrs : List String) (vars : List (String × XArr)) (dst : GeoBox) :
    Res (List String × List (String × XArr)) := do
  let out ← vars.mapM (reprojectVar dst)
  return (attrs.filter (fun k => !spatialAttributes.contains k), out)

/-! ### option forwarding: `_extract_output_geobox_params` (667-673) -/

def gboxKeys : List String := ["tight", "anchor", "resolution", "shape", "tol", "round_resolution"]

/-- `_extract_output_geobox_params(kw)` → `(out, kw')`: every key of `gboxKeys` that is **present** in
`kw` is moved to `out` with its value — whatever the value is (`0`, `0.0`, `False`, `None` included);
the other keys stay.  Values are opaque (`α`). -/
def extractOutputGeoboxParams {α : Type} (kw : List (String × α)) : List (String × α) × List (String × α) :=
  (kw.filter (fun kv => gboxKeys.contains kv.1), kw.filter (fun kv => !gboxKeys.contains kv.1))

/-- The Dataset seen as one object by `_locate_geo_info(ds)`: all dimensions and the merged
coordinates of its variables (first occurrence of a name wins – the reprojected variables carry
identical coordinates), no `grid_mapping` of its own (pruned from the Dataset attrs). -/
def dsView (attrs : List String) (vars : List (String × XArr)) : XArr :=
  let dims := (vars.flatMap (·.2.dims)).eraseDups
  let coords := (vars.flatMap (·.2.coords)).foldl
    (fun acc kc => if (acc.map (·.1)).contains kc.1 then acc else acc ++ [kc]) []
  ⟨dims, coords, none, attrs⟩

/-! ### pixel → world -/

def GeoBox.pix2wld (g : GeoBox) (p : Rat × Rat) : Rat × Rat := g.A.apply p

/-- centre of pixel `(row i, column j)` in pixel coordinates `(x, y)` -/
def centre (i j : Int) : Rat × Rat := ((j : Rat) + 1 / 2, (i : Rat) + 1 / 2)

end OdcGeo.C09
