/- Model for C09 (core Lean only, no Mathlib). -/
import OdcGeo.Model.IO
namespace OdcGeo.C09

end OdcGeo.C09
