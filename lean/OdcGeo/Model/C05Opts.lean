/-
Model for C05, part 2 — option normalisation of the dask COG writer (core Lean only).

  odc/geo/cog/_shared.py    GDAL_COMP (21-30)
  odc/geo/cog/_tifffile.py  _norm_predictor (503-515), _norm_compression_tifffile (518-581),
                            save_cog_with_dask: `upload_params` from `kw` / `aws` (634-640), `gdal_metadata = None if stats is
                            False else ""` (671), `if stats is True: stats = len(layers) // 2` (692-699), the re-partitioning
                            rule `npartitions > 20 → npartitions // 4` (705-706)
                            _make_empty_cog: `isinstance(blocksize, int) → [blocksize]` (152), photometric / planarconfig by
                            axis order and sample count (157-168), _mk_tile_compressor's choice of encoder / predictor (314-352)

Option VALUES (levels, tolerances, …) are opaque tokens: the code only moves them around (`is None` tests apart).
-/
import OdcGeo.Model.C05
namespace OdcGeo.C05

/-! ### `_norm_predictor` -/

/-- the `predictor=` argument (`Unset` is handled by the caller) -/
inductive PredArg where
  | none                -- `None`
  | bool (b : Bool)
  | int (n : Nat)       -- a TIFF predictor number given as is (`0 is False` is false in Python: 0 stays 0)
  deriving DecidableEq, Repr

/-- what the rule looks at in a dtype: `kind` and `itemsize` -/
structure DType where
  kind : Char
  size : Nat
  deriving DecidableEq, Repr

def normPredictor (p : PredArg) (dt : DType) : Nat :=
  match p with
  | .none => 1
  | .bool false => 1
  | .bool true =>
    if dt.kind = 'f' then 3
    else if (dt.kind = 'u' ∨ dt.kind = 'i') ∧ dt.size ≤ 4 then 2
    else 1
  | .int n => n

/-! ### `GDAL_COMP`, `_norm_compression_tifffile` -/

/-- compressor name → name of the GDAL creation option that carries its level -/
def gdalComp (compression : String) : Option String :=
  match compression with
  | "DEFLATE" => some "ZLEVEL"
  | "ADOBE_DEFLATE" => some "ZLEVEL"
  | "ZSTD" => some "ZSTD_LEVEL"
  | "WEBP" => some "WEBP_LEVEL"
  | "LERC" => some "MAX_Z_ERROR"
  | "LERC_DEFLATE" => some "MAX_Z_ERROR"
  | "LERC_ZSTD" => some "MAX_Z_ERROR"
  | "JPEG" => some "JPEG_QUALITY"
  | _ => none

/-- ASCII `str.upper()` -/
def upper (s : String) : String := String.ofList (s.toList.map Char.toUpper)

/-- keyword arguments: name → opaque value token, in insertion order, names unique -/
abbrev Kw := List (String × String)

def Kw.get (kw : Kw) (k : String) : Option String := (kw.find? (·.1 == k)).map (·.2)

def Kw.erase (kw : Kw) (k : String) : Kw := kw.filter (·.1 != k)

/-- `remap = {k.upper(): k for k in kw}`: the LAST key with that upper-case spelling -/
def remapGet (kw : Kw) (nameUpper : String) : Option String :=
  (kw.reverse.find? fun p => upper p.1 == nameUpper).map (·.1)

/-- `opt(name)`: `(value or None, kw after the pop)`; `remap` was computed from `kw0` once -/
def optPop (kw0 kw : Kw) (name : String) : Option String × Kw :=
  match remapGet kw0 (upper name) with
  | none => (none, kw)
  | some k => (kw.get k, kw.erase k)

/-- `_gdal_level(compression)` -/
def gdalLevel (kw0 kw : Kw) (compression : String) : Option String × Kw :=
  match gdalComp compression with
  | none => (none, kw)
  | some key => optPop kw0 kw key

/-- a value inside `compressionargs`: a token, or the nested `{"level": lvl}` -/
inductive CVal where
  | tok (s : String)
  | levelDict (lvl : String)
  deriving DecidableEq, Repr

abbrev CArgs := List (String × CVal)

def CArgs.set (c : CArgs) (k : String) (v : CVal) : CArgs :=
  if c.any (·.1 == k) then c.map fun p => if p.1 == k then (k, v) else p else c ++ [(k, v)]

def CArgs.has (c : CArgs) (k : String) : Bool := c.any (·.1 == k)

def CArgs.get (c : CArgs) (k : String) : Option CVal := (c.find? (·.1 == k)).map (·.2)

structure NormOut where
  predictor : Nat
  compression : String
  cargs : CArgs
  kw : Kw                -- what is left of `kw` (goes on to `TiffWriter.write`)
  deriving DecidableEq, Repr

/-- the `predictor=` argument including `Unset` -/
inductive PredOpt where
  | unset
  | given (p : PredArg)
  deriving DecidableEq, Repr

/-- `if isinstance(compression, Unset): compression = kw.pop("compress", "ADOBE_DEFLATE")` (exact key) → `(codec, kw)` -/
def pickCodec (compression : Option String) (kw : Kw) : String × Kw :=
  match compression with
  | some c => (c, kw)
  | none => ((kw.get "compress").getD "ADOBE_DEFLATE", kw.erase "compress")

/-- `if level is None and "level" not in compressionargs: level = _gdal_level(compression)` → `(level, kw)` -/
def pickLevel (level : Option String) (ca0 : CArgs) (kw0 kw1 : Kw) (comp : String) : Option String × Kw :=
  if level.isNone && !ca0.has "level" then gdalLevel kw0 kw1 comp else (level, kw1)

/-- `if level is not None: compressionargs["level"] = level` -/
def putLevel (ca0 : CArgs) (lvl : Option String) : CArgs :=
  match lvl with
  | some l => ca0.set "level" (.tok l)
  | none => ca0

/-- the `LERC_DEFLATE` / `LERC_ZSTD` split: `LERC` with an inner codec and, if the GDAL keyword of the inner codec is there,
its level as nested `compressionargs` → `(codec, compressionargs, kw)` -/
def lercSplit (comp1 : String) (ca1 : CArgs) (kw0 kw2 : Kw) : String × CArgs × Kw :=
  if comp1 = "LERC_DEFLATE" then
    match (gdalLevel kw0 kw2 "DEFLATE").1 with
    | some l => ("LERC", (ca1.set "compression" (.tok "deflate")).set "compressionargs" (.levelDict l), (gdalLevel kw0 kw2 "DEFLATE").2)
    | none => ("LERC", ca1.set "compression" (.tok "deflate"), (gdalLevel kw0 kw2 "DEFLATE").2)
  else if comp1 = "LERC_ZSTD" then
    match (gdalLevel kw0 kw2 "ZSTD").1 with
    | some l => ("LERC", (ca1.set "compression" (.tok "zstd")).set "compressionargs" (.levelDict l), (gdalLevel kw0 kw2 "ZSTD").2)
    | none => ("LERC", ca1.set "compression" (.tok "zstd"), (gdalLevel kw0 kw2 "ZSTD").2)
  else (comp1, ca1, kw2)

/-- `_norm_compression_tifffile(dtype, predictor, compression, compressionargs, level, kw)`;
`compression = none`: `Unset`.  `compressionargs` is copied first (never the caller's own dict); `remap` (upper-cased key →
key) is built once, after the `compress` pop. -/
def normCompressionTifffile (dt : DType) (pred : PredOpt) (compression : Option String) (cargs : Option CArgs)
    (level : Option String) (kw : Kw) : NormOut :=
  let pc := pickCodec compression kw
  let ca0 : CArgs := cargs.getD []
  let kw0 := pc.2
  let comp := upper pc.1
  let pl := pickLevel level ca0 kw0 pc.2 comp
  let ca1 := putLevel ca0 pl.1
  let comp1 := if comp = "DEFLATE" then "ADOBE_DEFLATE" else comp
  let ls := lercSplit comp1 ca1 kw0 pl.2
  let p : PredArg := match pred with
    | .given p => p
    | .unset => .bool (ls.1 = "ADOBE_DEFLATE" ∨ ls.1 = "ZSTD" ∨ ls.1 = "LZMA")
  ⟨normPredictor p dt, ls.1, ls.2.1, ls.2.2⟩

/-! ### `save_cog_with_dask`: option glue -/

/-- `upload_params`: `writes_per_chunk` / `spill_sz` taken out of `kw`, then out of `aws` (which wins) -/
def uploadParams (kw aws : Kw) : Kw × Kw × Kw :=
  let keys := ["writes_per_chunk", "spill_sz"]
  let fromKw := keys.filterMap fun k => (kw.get k).map fun v => (k, v)
  let fromAws := keys.filterMap fun k => (aws.get k).map fun v => (k, v)
  let merged := fromAws.foldl (fun acc p => if acc.any (·.1 == p.1) then acc.map (fun q => if q.1 == p.1 then p else q) else acc ++ [p]) fromKw
  (merged, keys.foldl Kw.erase kw, keys.foldl Kw.erase aws)

/-- the `stats=` argument -/
inductive StatsArg where
  | bool (b : Bool)
  | int (n : Nat)
  deriving DecidableEq, Repr

/-- `gdal_metadata = None if stats is False else ""`: is the GDAL_METADATA placeholder tag written into the header? -/
def statsTag : StatsArg → Bool
  | .bool false => false
  | _ => true

/-- which pyramid level the statistics are computed from (`none`: not computed); `IndexError` for a level that does not exist -/
def statsLayer (s : StatsArg) (nlayers : Nat) : Res (Option Nat) :=
  match s with
  | .bool false => .ok none
  | .bool true => .ok (some (nlayers / 2))
  | .int n => if n < nlayers then .ok (some n) else .error .indexError

/-- `if tt.npartitions > 20: tt = tt.repartition(npartitions=tt.npartitions // 4)` -/
def repartition (n : Nat) : Nat := if n > 20 then n / 4 else n

/-! ### `_make_empty_cog` / `_mk_tile_compressor`: small decisions -/

/-- `blocksize`: `int → [int]` -/
def blocksizeList (b : Blk ⊕ List Blk) : List Blk :=
  match b with
  | .inl one => [one]
  | .inr l => l

/-- `(photometric, planarconfig)`: RGB only for band-last with 3 or 4 samples; CONTIG only for band-last -/
def photoPlanar (ax : Axis) (nsamples : Nat) : String × String :=
  match ax with
  | .YXS => (if nsamples = 3 ∨ nsamples = 4 then "RGB" else "MINISBLACK", "CONTIG")
  | _ => ("MINISBLACK", "SEPARATE")

/-- `_mk_tile_compressor`: `(uses an encoder, uses a predictor function)`: TIFF compression 1 = none, predictor 1 = none -/
def tileCompressorParts (compression predictor : Nat) : Bool × Bool := (compression != 1, predictor != 1)

end OdcGeo.C05
