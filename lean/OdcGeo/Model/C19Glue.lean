/-
Model for C19, growth round: the GLUE between the public entry points and the modelled
value records (core Lean only, no Mathlib).

  types.py    `xy_`, `yx_`, `ixy_`, `iyx_`, `wh_`, `resxy_`, `resyx_`, `res_` and `shape_`
              with their error branches, `XY.shape/.wh/.xy/.yx`, `XY.__eq__` /
              `Shape2d.__eq__` against any object, `Shape2d.__len__/__iter__/__getitem__/
              __add__/__radd__/shrink2`
  crs.py      `norm_crs` (every branch, the `utm*` texts with the ±100 code arithmetic),
              `norm_crs_or_error`
  geom.py     `BoundingBox.__init__`, `BoundingBox.__eq__` against a non-BoundingBox,
              `Geometry.__init__` (which CRS a geometry gets: clone / GeoJSON default 4326)
  geobox.py   `GeoBoxBase.__init__`, `GeoboxTiles.__init__` (`_tiles=` / `roi_tiles`)
  roi.py      `Tiles.__init__` (through `shape_`), `roi_tiles` dispatch on the spelling of `how`
  gridspec.py `GridSpec.__init__` argument normalisation and its order of failure
  gcp.py      `GCPMapping.__init__` CRS defaulting, `GCPGeoBox.__init__` default affine

Everything is written over the records of `Model/C19.lean`; nothing there is changed.
-/
import OdcGeo.Model.C19
namespace OdcGeo.C19

/-! ## One positional argument, as far as the normalisers tell Python values apart -/

inductive Arg where
  /-- `None` -/
  | none
  /-- `int` / `bool` / `float` -/
  | num (x : PyNum)
  /-- an instance of `XY` or of one of its subclasses -/
  | xy (v : XYv)
  /-- a `tuple` (`isTuple`) or a `list` of numbers -/
  | seq (isTuple : Bool) (xs : List PyNum)
  /-- a point geometry: has `.coords` (one coordinate tuple `pt`, empty list for an empty
  point); iterating it yields its parts, of which a point has none -/
  | point (pt : Option (List PyNum))
  /-- anything else: not iterable, no `.coords`, not a number -/
  | other
  deriving DecidableEq, Repr

/-- two positional arguments, the second `is not None`; or one (second omitted / `None`) -/
inductive Args where
  | two (a b : PyNum)
  | one (a : Arg)
  deriving DecidableEq, Repr

/-- `XY(x=x, y=y)`: no conversion whatsoever -/
def XY.mk' (x y : PyNum) : XYv := ⟨.xy, x, y⟩
def Index2d.mk' (x y : PyNum) : XYv := ⟨.index2d, x, y⟩
def Shape2d.mk' (x y : PyNum) : XYv := ⟨.shape2d, x, y⟩

/-- `xy_(x, y=None)` (types.py:259-289) -/
def xyOf : Args → Res XYv
  | .two x y => .ok (XY.mk' x y)                       -- `if y is not None`
  | .one (.xy v) => .ok v                              -- `isinstance(x, XY)`: any subclass, as is
  | .one (.point (some [x, y])) => .ok (XY.mk' x y)    -- `((x, y),) = coords`
  | .one (.point _) => .error .valueError              -- empty point, 3-D point: unpacking fails
  | .one (.seq _ [x, y]) => .ok (XY.mk' x y)           -- `x, y = x`
  | .one (.seq _ _) => .error .valueError
  | .one _ => .error .valueError                       -- not iterable

/-- `yx_(y, x=None)` (types.py:302-325): no `.coords` branch; a point geometry *is* iterable
(over its parts, a point has none), so unpacking fails -/
def yxOf : Args → Res XYv
  | .two y x => .ok (XY.mk' x y)
  | .one (.xy v) => .ok v
  | .one (.seq _ [y, x]) => .ok (XY.mk' x y)
  | .one (.seq _ _) => .error .valueError
  | .one (.point _) => .error .valueError
  | .one _ => .error .valueError

/-- `ixy_(x, y=None)` (types.py:358-374): only the FIRST of two arguments is asserted to be
an int; only a `tuple` is unpacked (a list is rejected); an `Index2d` is passed through, any
other `XY` re-wrapped without conversion -/
def ixyOf : Args → Res XYv
  | .two x y => if x.isInt then .ok (Index2d.mk' x y) else .error .assertion
  | .one (.seq true [x, y]) => .ok (Index2d.mk' x y)
  | .one (.seq true _) => .error .valueError
  | .one (.xy v) => if v.cls = .index2d then .ok v else .ok (Index2d.mk' v.x v.y)
  | .one _ => .error .valueError

/-- `iyx_(y, x=None)` (types.py:389-405) -/
def iyxOf : Args → Res XYv
  | .two y x => if y.isInt then .ok (Index2d.mk' x y) else .error .assertion
  | .one (.seq true [y, x]) => .ok (Index2d.mk' x y)
  | .one (.seq true _) => .error .valueError
  | .one (.xy v) => if v.cls = .index2d then .ok v else .ok (Index2d.mk' v.x v.y)
  | .one _ => .error .valueError

/-- `wh_(w, h)` -/
def whOf (w h : PyNum) : XYv := Shape2d.mk' w h
/-- `resxy_(x, y)` / `resyx_(y, x)` -/
def resxyOf (x y : PyNum) : XYv := Resolution.mk' x (some y)
def resyxOf (y x : PyNum) : XYv := Resolution.mk' x (some y)

/-- `res_(x)` (types.py:328-334) with its error branch: only a `Resolution` instance or a
number is understood (a plain `XY`, a tuple, `None` are not) -/
def resOf : Arg → Res XYv
  | .xy v => if v.cls = .resolution then .ok (resNorm (.res v)) else .error .valueError
  | .num x => .ok (resNorm (.num x))
  | _ => .error .valueError

/-- `shape_(x)` (types.py:413-424) with its error branch -/
def shapeOf : Arg → Res XYv
  | .xy v => if v.cls = .shape2d then shapeNorm (.shape2d v) else shapeNorm (.xy v)
  | .seq _ xs => shapeNorm (.seq xs)
  | _ => .error .valueError

/-- `XY.shape` (types.py:118-131) -/
def XYv.shapeT (v : XYv) : Res (List PyNum) :=
  if v.x.isInt && v.y.isInt then .ok [v.y, v.x] else .error .valueError
/-- `XY.wh` (types.py:133-146) -/
def XYv.whT (v : XYv) : Res (List PyNum) :=
  if v.x.isInt && v.y.isInt then .ok [v.x, v.y] else .error .valueError
def XYv.xyT (v : XYv) : List PyNum := [v.x, v.y]
def XYv.yxT (v : XYv) : List PyNum := [v.y, v.x]

/-- `len(shape)`; `list(shape)` is `.shape` -/
def Shape2d.len (_ : XYv) : Nat := 2
def Shape2d.iter (v : XYv) : Res (List PyNum) := v.shapeT

/-- `shape[idx]` for an int `idx`: `.shape` first (may raise `ValueError`), then tuple
indexing with Python's negative indices -/
def Shape2d.getItem (v : XYv) (i : Int) : Res PyNum :=
  if v.x.isInt && v.y.isInt then
    if i = 0 ∨ i = -2 then .ok v.y
    else if i = 1 ∨ i = -1 then .ok v.x
    else .error .indexError
  else .error .valueError

/-- `shape + tuple` / `tuple + shape` -/
def Shape2d.add (v : XYv) (t : List PyNum) : Res (List PyNum) := v.shapeT.map (· ++ t)
def Shape2d.radd (v : XYv) (t : List PyNum) : Res (List PyNum) := v.shapeT.map (t ++ ·)

/-- `n // 2` -/
def PyNum.half (a : PyNum) : PyNum :=
  match a.kind with
  | .float => ⟨.float, ((a.val / 2).floor : Int), a.val = 0 && a.negz⟩
  | _ => ⟨.int, ((a.val / 2).floor : Int), false⟩

/-- `Shape2d.shrink2()` -/
def Shape2d.shrink2 (v : XYv) : XYv := Shape2d.mk' v.x.half v.y.half

/-- `xy == other` for any `other` (types.py:56-59, 217-220).  When the right operand is an
instance of a subclass that overrides `__eq__` Python asks it first; both orders run the
same two tests, so the result is the same. -/
def XYv.eqArg (v : XYv) : Arg → Res Bool
  | .xy w => .ok (v.eq w)
  | .seq true t => if v.cls = .shape2d then Shape2d.eqTuple v t else .ok false
  | _ => .ok false

/-! ## `norm_crs` (crs.py:384-409) -/

/-- what is passed as `crs=` -/
inductive CrsArg where
  | none
  | unset                  -- an `Unset()` marker
  | spec (s : Spec)        -- `.crs v`: the CRS instance held in variable `v`; str/int/pyproj/dict
  | other                  -- float, tuple, … : `CRS(...)` raises `CRSError`
  deriving DecidableEq, Repr

inductive UtmMode where
  | plain | north | south
  deriving DecidableEq, Repr

/-- the decision `norm_crs` takes before anything is constructed -/
inductive NormPlan where
  | same (v : Nat)            -- the argument itself (the same instance, lazy `_epsg` shared)
  | none
  | build (s : Spec)          -- `CRS(crs)`
  | utm (m : UtmMode)         -- `CRS.utm(ctx)` and then maybe the other hemisphere
  | raise (e : ErrKind)
  deriving DecidableEq, Repr

/-- texts beginning with `utm` in any letter case: `utm`, `utm-n`, `utm-s`; every OTHER such
text is silently read as plain `utm` (the code has no `else`) -/
def utmMode? (s : String) : Option UtmMode :=
  let t := s.toLower
  if t.startsWith "utm" then
    some (if t = "utm-n" then .north else if t = "utm-s" then .south else .plain)
  else none

def normPlan (a : CrsArg) (hasCtx : Bool) : NormPlan :=
  match a with
  | .spec (.crs v) => .same v
  | .none => .none
  | .unset => .none
  | .spec (.str s) =>
    match utmMode? s with
    | some m => if hasCtx then .utm m else .raise .assertion
    | none => .build (.str s)
  | .spec s => .build s
  | .other => .raise .runtimeError

/-- What `norm_crs` needs to know about `CRS.utm(ctx)`: its EPSG code and whether
`proj.utm_zone` ends in `S` / in `N` (`None` for either trips an assert). -/
structure UtmFacts where
  epsg : Option Int
  zoneKnown : Bool
  endsS : Bool
  endsN : Bool
  deriving DecidableEq, Repr

/-- the hemisphere arithmetic (crs.py:399-407): `none` = keep `CRS.utm(ctx)`, `some c` = `CRS(c)` -/
def utmAdjust (m : UtmMode) (f : UtmFacts) : Res (Option Int) :=
  match m with
  | .plain => .ok none
  | _ =>
    if !f.zoneKnown then .error .assertion
    else match f.epsg with
      | none => .error .assertion
      | some e =>
        if m = .north && f.endsS then .ok (some (e - 100))
        else if m = .south && f.endsN then .ok (some (e + 100))
        else .ok none

/-- EPSG numbering of the WGS 84 UTM zones -/
def utmEpsg (zone : Nat) (south : Bool) : Int := (if south then 32700 else 32600) + zone

def utmFactsOf (zone : Nat) (south : Bool) : UtmFacts := ⟨some (utmEpsg zone south), true, south, !south⟩

/-- the code `norm_crs("utm*", ctx)` ends with, given the zone `CRS.utm(ctx)` picked -/
def utmFinal (m : UtmMode) (zone : Nat) (south : Bool) : Res Int :=
  (utmAdjust m (utmFactsOf zone south)).map (fun o => o.getD (utmEpsg zone south))

/-- `norm_crs(arg)` for the plans that go through the construction cache or return the
argument; the result is `None` or a CRS record.  (`utm` plans: `utmAdjust` gives the code,
which is then `CRS(code)`, i.e. `.build (.int code)`.) -/
def normRun (W : World) (σ : State) (p : NormPlan) (pick : Nat) : State × Res (Option CrsObj) :=
  match p with
  | .none => (σ, .ok none)
  | .same v =>
    match assoc v σ.vars with
    | some c => (σ, .ok (some c))
    | none => (σ, .error .valueError)       -- no such variable (never on real histories)
  | .build s =>
    match construct W σ s pick with
    | (σ1, .ok c) => (σ1, .ok (some c))
    | (σ1, .error e) => (σ1, .error e)
  | .utm _ => (σ, .error .notImplemented)   -- resolved by the caller through `utmAdjust`
  | .raise e => (σ, .error e)

/-- `norm_crs_or_error` (crs.py:412-417) -/
def orError : Res (Option CrsObj) → Res CrsObj
  | .ok (some c) => .ok c
  | .ok none => .error .valueError
  | .error e => .error e

/-! ## `CRS.__init__` for every kind of argument (crs.py:111-122) -/

inductive CtorArg where
  /-- `str` / `int` / pyproj object / `CRS` / `dict`: the cases of `construct` -/
  | spec (s : Spec)
  /-- any other object with a `.to_wkt()` method returning `wkt` (a rasterio / osgeo CRS, …) -/
  | like (hashable : Bool) (wkt : String)
  /-- nothing of the above: `CRSError("Unexpected input encountered")` -/
  | other
  deriving DecidableEq, Repr

inductive CtorPlan where
  | construct (s : Spec)
  | raise (e : ErrKind)
  deriving DecidableEq, Repr

/-- A CRS-like object is read through its WKT text: `_make_crs` builds `from_wkt(obj.to_wkt())`,
the very object `CRS(obj.to_wkt())` builds (`srs` is the text in both cases).  An unhashable
one is also *cached* under that text (`_make_crs_key` returns `to_wkt()`), a hashable one
under itself (an entry of its own: the same value, one more cache entry). -/
def ctorPlan : CtorArg → CtorPlan
  | .spec s => .construct s
  | .like _ wkt => .construct (.str wkt)
  | .other => .raise .runtimeError

/-- the cache key of an unhashable CRS-like object (crs.py:54) next to the key of its text -/
def likeKey (wkt : String) : String := wkt

/-! ## BoundingBox -/

/-- `BoundingBox(left, bottom, right, top, crs)`: the numbers are stored as given (no `float()`),
the CRS is `norm_crs(crs)` -/
def BBox.ctor (l b r t : PyNum) (c : Option CrsObj) : BBox := ⟨c, l, b, r, t⟩

/-- `bbox == other` (geom.py:79-82): against anything that is not a BoundingBox the CRS is
not looked at and the 4-tuple decides (`tuple == list` is `False` in Python) -/
def BBox.eqArg (a : BBox) : Arg → Bool
  | .seq true xs => numsEq [a.l, a.b, a.r, a.t] xs
  | _ => false

/-- `hash(tuple)` of a tuple of numbers -/
def tupleHashKey (xs : List PyNum) : List HAtom := xs.map (fun n => hv n.val)

/-! ## Geometry.__init__ : which CRS the geometry gets (geom.py:487-512) -/

inductive GeomSrc where
  | geometry (crs : Option CrsObj)     -- another `Geometry`
  | shapely                            -- a shapely geometry
  | dict (type : Option String)        -- a GeoJSON-like dict; `type` = `geom.get("type")`
  | other
  deriving DecidableEq, Repr

/-- outcome: take the source's CRS object as is, or normalise this argument (and then
possibly fail on the geometry part) -/
inductive GeomCrs where
  | keep (c : Option CrsObj)
  | norm (a : CrsArg) (thenFail : Option ErrKind)
  | raise (e : ErrKind)
  deriving DecidableEq, Repr

def isFeature (t : Option String) : Bool :=
  match t with
  | some s => s.toLower.startsWith "feature"
  | none => false

def geomCrs (src : GeomSrc) (crs : CrsArg) : GeomCrs :=
  match src with
  | .geometry c => if crs = .none then .keep c else .raise .assertion
  | .dict t =>
    let crs' := if crs = .none && isFeature t then CrsArg.spec (.str "epsg:4326") else crs
    -- `_geojson_to_shapely`: no "type" key → ValueError, after the CRS was normalised
    .norm crs' (if t.isNone then some .valueError else none)
  | .shapely => .norm crs none
  | .other => .norm crs (some .valueError)

/-! ## GeoBox / GCPGeoBox / GCPMapping constructors -/

/-- both fields of a `Shape2d` as Python ints; `none` when the object holds something else
(only possible for a `Shape2d` instance built by hand and passed through as is) -/
def XYv.ints? (v : XYv) : Option (Int × Int) :=
  if v.x.isInt && v.y.isInt && v.x.val.den = 1 && v.y.val.den = 1 then some (v.y.val.num, v.x.val.num) else none

/-- `GeoBox(shape, affine, crs)` (geobox.py:116-123): `shape_(shape)`, `norm_crs(crs)`.
Outer `none`: outside the model's records (a hand-made `Shape2d` of floats). -/
def GBox.ctor (shape : Arg) (aff : List PyNum) (c : Option CrsObj) : Option (Res GBox) :=
  match shapeOf shape with
  | .error e => some (.error e)
  | .ok s => s.ints?.map (fun (ny, nx) => .ok ⟨c, ny, nx, aff⟩)

/-- `Affine.identity()` -/
def affIdentity : List PyNum :=
  [⟨.float, 1, false⟩, ⟨.float, 0, false⟩, ⟨.float, 0, false⟩, ⟨.float, 0, false⟩, ⟨.float, 1, false⟩, ⟨.float, 0, false⟩]

/-- `GCPGeoBox(shape, mapping, affine=None)` (gcp.py:147-153): the CRS is the mapping's -/
def GCPBox.ctor (shape : Arg) (m : GCPMap) (aff : Option (List PyNum)) : Option (Res GCPBox) :=
  match shapeOf shape with
  | .error e => some (.error e)
  | .ok s => s.ints?.map (fun (ny, nx) => .ok ⟨ny, nx, aff.getD affIdentity, m⟩)

/-- `GCPMapping(pix, wld, crs=None)` (gcp.py:47-59): an explicit `crs` wins; `None` means the
CRS the world points carry (`is None`: an `Unset()` marker is *not* replaced and gives no CRS) -/
def gcpCrsArg (given wld : CrsArg) : CrsArg := if given = .none then wld else given

/-! ## Tilings -/

/-- `Tiles(base_shape, tile_shape)` (roi.py:122-130): the TILE shape is normalised first -/
def Tiles.ctor (base tile : Arg) : Option (Res Tiles) :=
  match shapeOf tile with
  | .error e => some (.error e)
  | .ok t =>
    match shapeOf base with
    | .error e => some (.error e)
    | .ok b =>
      match b.ints?, t.ints? with
      | some (by_, bx), some (ty, tx) => some (Tiles.mk' by_ bx ty tx)
      | _, _ => none

/-- the `how` of `roi_tiles(shape, how)` (roi.py:342-346) -/
inductive HowArg where
  /-- a tuple / list whose first element is a tuple / list: the parts as lists of ints -/
  | nested (parts : List (List Int))
  /-- anything else (an empty tuple / list included) -/
  | flat (a : Arg)
  deriving DecidableEq, Repr

def roiTilesArg (shape : Arg) : HowArg → Option (Res AnyTiles)
  | .nested [y, x] => some (.ok (.var (VTiles.mk' y x)))
  | .nested _ => some (.error .valueError)          -- `y, x = …` over 1 or ≥ 3 parts
  | .flat (.seq _ []) => some (.error .indexError)  -- `how[0]` of an empty tuple / list
  | .flat a => (Tiles.ctor shape a).map (·.map .reg)

def AnyBox.shapeArg (g : AnyBox) : Arg :=
  .xy (Shape2d.mk' ⟨.int, g.nx, false⟩ ⟨.int, g.ny, false⟩)

/-- `GeoboxTiles(box, tile_shape, *, _tiles=None)` (geobox.py:1317-1335) -/
def GBTiles.ctorArg (g : AnyBox) (how : Option HowArg) (tiles : Option AnyTiles) : Option (Res GBTiles) :=
  match tiles with
  | some t => some (.ok ⟨g, t⟩)                     -- used as is: NOT checked against the box (only `how` is)
  | none =>
    match how with
    | none => some (.error .assertion)
    | some h =>
      -- after `fix: GeoboxTiles refuses chunk tuples that do not add up to the GeoBox shape`
      (roiTilesArg g.shapeArg h).map (fun r =>
        match r with
        | .error e => .error e
        | .ok t => if t.base = (g.ny, g.nx) then .ok ⟨g, t⟩ else .error .valueError)

/-! ## GridSpec.__init__ (gridspec.py:49-77) -/

/-- Arguments after the CRS was looked at: `crs` is the outcome of `norm_crs(crs)`.  The order
of the checks is the code's: tile shape, resolution, origin, CRS, bin sizes. -/
def GridSpec.ctor (crs : Res (Option CrsObj)) (shape res origin : Arg) (flipx flipy : Bool) :
    Option (Res GridSpec) :=
  match shapeOf shape with
  | .error e => some (.error e)
  | .ok s =>
    match resOf res with
    | .error e => some (.error e)
    | .ok r =>
      let org : Res XYv := match origin with
        | .none => .ok (XY.mk' ⟨.float, 0, false⟩ ⟨.float, 0, false⟩)
        | .xy v => .ok v
        | _ => .error .assertion
      match org with
      | .error e => some (.error e)
      | .ok o =>
        match orError crs with
        | .error e => some (.error e)
        | .ok c => s.ints?.map (fun (ty, tx) => GridSpec.mk' c ty tx r.x r.y o.x o.y flipx flipy)

end OdcGeo.C19
