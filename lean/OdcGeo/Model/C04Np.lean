/-
Tile / pixel indexes given as numpy integer scalars (core Lean only).

An index is a Python int or a fixed-width numpy scalar.  Arithmetic between a numpy scalar and a
Python int is numpy 2's (NEP 50, *reference semantics*, validated on every run through the `np`
driver ops): the Python int must fit the scalar's type (`OverflowError` otherwise) and the result
wraps around in that type.

* as repaired (fix2-C04 / F61): `tile_shape` and `locate` convert a numpy integer with `int()` first;
* `__getitem__` / `crop` / `pix_bbox` / `GeoboxTiles[...]` / `BlockAssembler` windows go through
  `_norm_slice`, where `isinstance(s, int)` is false for a numpy scalar and `s.start` raises
  `AttributeError`: refused;
* as found: `_sz` of `VariableSizedTiles.tile_shape` computed `a[i + 1]` with the numpy scalar.
-/
import OdcGeo.Model.C04
import OdcGeo.Model.C04Roi
namespace OdcGeo.C04
open OdcGeo OdcGeo.C17 OdcGeo.NpArray

/-- a numpy integer type -/
structure NpT where
  signed : Bool
  bits : Nat
  deriving DecidableEq, Repr

def NpT.lo (t : NpT) : Int := if t.signed then -(2 ^ (t.bits - 1)) else 0
/-- exclusive upper end -/
def NpT.hi (t : NpT) : Int := if t.signed then 2 ^ (t.bits - 1) else 2 ^ t.bits
def NpT.fits (t : NpT) (v : Int) : Bool := decide (t.lo ≤ v ∧ v < t.hi)
/-- value after wrap-around in the type -/
def NpT.wrap (t : NpT) (v : Int) : Int := (v - t.lo) % 2 ^ t.bits + t.lo

/-- an integer argument: Python int, or numpy scalar of type `t` holding `v` (`t.fits v`) -/
inductive IntArg where
  | py (v : Int)
  | np (t : NpT) (v : Int)
  deriving DecidableEq, Repr

def IntArg.val : IntArg → Int
  | .py v => v
  | .np _ v => v

/-- errors of these entry points: the shared kinds plus `OverflowError` / `AttributeError` -/
inductive NErr where
  | std (e : ErrKind)
  | overflow
  | attribute
  deriving DecidableEq, Repr

def NErr.toStr : NErr → String
  | .std e => e.toStr
  | .overflow => "ERR:OverflowError"
  | .attribute => "ERR:AttributeError"

abbrev ResN (α : Type) := Except NErr α

def liftN {α : Type} : Res α → ResN α
  | .ok a => .ok a
  | .error e => .error (.std e)

/-- numpy: `x + k` / `k + x` for a scalar `x : t` and a Python int `k` -/
def npAdd (t : NpT) (v k : Int) : ResN Int :=
  if t.fits k then .ok (t.wrap (v + k)) else .error .overflow

/-- numpy: `x // k` for a scalar `x : t` and a positive Python int `k` (no wrap possible) -/
def npFloorDiv (t : NpT) (v k : Int) : ResN Int :=
  if t.fits k then .ok (v / k) else .error .overflow

/-! ### as repaired -/

/-- `tile_shape` on one axis: `if isinstance(i, np.integer): i = int(i)`, then Python arithmetic -/
def tileShapeI (t : Tiling) (i : IntArg) : ResN Int := liftN (t.tileShape i.val)

/-- `locate` on one axis.  `Tiles`: range test (comparisons with Python ints are exact), then
`int(y // ny)` – the tile size must fit the scalar's type; `VariableSizedTiles`: `searchsorted` -/
def locateI (t : Tiling) (y : IntArg) : ResN Int :=
  match t, y with
  | _, .py v => liftN (t.locate v)
  | .var _, .np _ v => liftN (t.locate v)
  | .reg N n, .np ty v =>
    if v < 0 ∨ v ≥ N then .error (.std .indexError)
    else do
      let ny ← liftN (C04.tileShape N n 0)
      npFloorDiv ty v ny

/-- `__getitem__` / `crop` / `pix_bbox` on one axis: a numpy scalar has no `.start` -/
def getItemI (t : Tiling) (i : IntArg) : ResN NSlice :=
  match i with
  | .py v => liftN (t.getItem (.idx v))
  | .np _ _ => .error .attribute

/-! ### as found (before F61): `VariableSizedTiles.tile_shape` -/

/-- `_sz(a, i)` with the index left as it came: `n + i`, `i + 1` are numpy additions -/
def vtileShapeAsFound (ch : List Int) (i : IntArg) : ResN Int :=
  match i with
  | .py v => liftN (vtileShape ch v)
  | .np t v => do
    let n := vcount ch
    let j ← if v < 0 then npAdd t v n else pure v
    if 0 ≤ j ∧ j < n then do
      let j1 ← npAdd t j 1
      let b ← liftN (npGet (offsets ch) j1)
      let a ← liftN (npGet (offsets ch) j)
      return b - a
    else .error (.std .indexError)

/-! ### numpy scalars inside a `BlockAssembler` window and at the `GeoboxTiles` entry points -/

/-- a member of the `roi` tuple: an int (Python or numpy) or a slice -/
inductive WinEl where
  | int (i : IntArg)
  | slc (a b : Option Int)
  deriving DecidableEq, Repr

def WinEl.isNp : WinEl → Bool
  | .int (.np _ _) => true
  | _ => false

def WinEl.toPIdx : WinEl → PIdx
  | .int i => .idx i.val
  | .slc a b => .slc a b

/-- `BlockAssembler._norm_roi(roi)` for a tuple that may hold numpy scalars: the padding / "too many
index dimensions" test looks at the length only; `roi_normalise` then reaches `_norm_slice`, where
a numpy scalar is not an `int` and has no `.start` (`AttributeError`) -/
def normRoiNp (shape : List Int) (axis : Nat) (roi : List WinEl) : ResN (List NSlice × List Nat) :=
  match padRoi shape axis (.tuple (roi.map WinEl.toPIdx)) with
  | .error e => .error (.std e)
  | .ok _ =>
    if roi.any WinEl.isNp then .error .attribute
    else liftN (normRoi shape axis (.tuple (roi.map WinEl.toPIdx)))

/-- `GeoboxTiles.__getitem__` / `.roi[...]` / `pix_bbox` region lookup (both axes through `_norm_slice`) -/
def gbtRegionI (t : Tiling2) (iy ix : IntArg) : ResN (NSlice × NSlice) :=
  -- `roi_normalise` walks the whole index tuple before any region is looked up
  match iy, ix with
  | .py vy, .py vx => liftN (getItem2 t (.idx vy) (.idx vx))
  | _, _ => .error .attribute

/-- `GeoboxTiles.chunk_shape` = `tile_shape` (converts numpy integers) -/
def gbtChunkShapeI (t : Tiling2) (iy ix : IntArg) : ResN (Int × Int) := do
  let ny ← tileShapeI t.y iy
  let nx ← tileShapeI t.x ix
  return (ny, nx)

end OdcGeo.C04
