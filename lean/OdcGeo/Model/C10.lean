/-
Model for C10 — the paste shortcut.  The planning code (`_can_paste`, `snap_affine`,
`snap_scale`, `is_almost_int`, `maybe_int`, `_pick_read_scale`, the paste branch of
`compute_reproject_roi`, `compute_axis_overlap`) is modelled in `OdcGeo.Model.C03`; this file adds
the paste operation itself: what a consumer of `ReprojectInfo` does when `paste_ok` holds
(`dst[roi_dst] = src[roi_src]`, flipped along mirrored axes, rest nodata).
-/
import OdcGeo.Model.IO
import OdcGeo.Model.Affine
import OdcGeo.Model.C03
import OdcGeo.Spec.Warp
namespace OdcGeo.C10
open OdcGeo.C17 OdcGeo.C03

/-- source index on one axis for destination index `d` inside the destination slice: the block is
copied in order, or reversed when the axis is mirrored -/
def pasteIndex (flip : Bool) (srcS dstS : NSlice) (d : Int) : Int :=
  if flip then srcS.stop - 1 - (d - dstS.start) else srcS.start + (d - dstS.start)

/-- the pasted image: `roi_src` of the source copied (mirrored per axis) into `roi_dst` of an image
filled with `nodata` -/
def pasted {α : Type} (src : Int → Int → α) (flipY flipX : Bool) (roiSrc roiDst : ROI) (nodata : α)
    (dy dx : Int) : α :=
  if roiDst.1.start ≤ dy ∧ dy < roiDst.1.stop ∧ roiDst.2.start ≤ dx ∧ dx < roiDst.2.stop then
    src (pasteIndex flipY roiSrc.1 roiDst.1 dy) (pasteIndex flipX roiSrc.2 roiDst.2 dx)
  else nodata

def pastedList (img : List (List Int)) (dshape : Int × Int) (flipY flipX : Bool) (roiSrc roiDst : ROI)
    (nodata : Int) : List (List Int) :=
  (List.range dshape.1.toNat).map fun (dy : Nat) =>
    (List.range dshape.2.toNat).map fun (dx : Nat) =>
      pasted (Warp.getPx img nodata) flipY flipX roiSrc roiDst nodata dy dx


/-! ### `_rio_reproject` (warp.py:163-250): the int8 / bool conversion detour, value level

GDAL's warper has no int8 / bool support: `_alias_or_convert` turns an int8 raster into int16 and a bool raster into
uint8 with `False, True ↦ 0, 255` (source AND destination, so that a destination that is warped *into* keeps its
content), `_stretch_nodata` sends a boolean nodata through the same stretch, GDAL warps the work arrays, and the result
is copied back (`> 127` for bool, `np.copyto(..., casting="unsafe")` = wrap to 8 bits for int8).  Pixel values are
modelled as integers (bool as 0 / 1). -/

inductive PixT where
  | int8 | bool | other
  deriving DecidableEq, Repr

/-- `_alias_or_convert` on one pixel -/
def toWork : PixT → Int → Int
  | .bool, v => if v ≠ 0 then 255 else 0
  | _, v => v

/-- `_stretch_nodata` -/
def stretchNodata : PixT → Option Int → Option Int
  | .bool, some v => some (if v ≠ 0 then 255 else 0)
  | _, nd => nd

/-- `astype(int8)` of an int16 value (`casting="unsafe"`): wrap to 8 bits -/
def wrap8 (v : Int) : Int := (v + 128) % 256 - 128

/-- copy-back of one pixel -/
def fromWork : PixT → Int → Int
  | .bool, v => if v > 127 then 1 else 0
  | .int8, v => wrap8 v
  | .other, v => v

/-- the value GDAL initialises / fills with: `dst_nodata`, else (rasterio's default) `src_nodata`, else 0 -/
def effFill (sn dn : Option Int) : Int :=
  match dn with
  | some v => v
  | none => match sn with | some v => v | none => 0

/-- Nearest-neighbour warp INTO an existing destination (reference semantics of the backend at the working type,
`Spec/Warp` sampling rule): a destination pixel whose centre maps onto a valid source pixel takes its value; any other
pixel is filled when `init_dest_nodata` holds and keeps its previous content otherwise.  (GDAL's nudging of valid
pixels that equal the fill value is not part of this model; the harness keeps such collisions out of the compared
cases and reports them under a known-finding key.) -/
def nnPick (shape : Int × Int) (A : Aff) (dy dx : Int) : Option (Int × Int) :=
  let q := A.apply ((dx : Rat) + 1 / 2, (dy : Rat) + 1 / 2)
  match Warp.nnIndex shape.1 q.2, Warp.nnIndex shape.2 q.1 with
  | some iy, some ix => some (iy, ix)
  | _, _ => none

def gdalNN (src dst : Int → Int → Int) (shape : Int × Int) (A : Aff) (sn dn : Option Int) (init : Bool)
    (dy dx : Int) : Int :=
  let rest := if init then effFill sn dn else dst dy dx
  match nnPick shape A dy dx with
  | some p => if sn = some (src p.1 p.2) then rest else src p.1 p.2
  | none => rest

/-- `_rio_reproject(..., resampling=nearest)` for a raster of pixel type `t` -/
def rioNN (t : PixT) (src dst : Int → Int → Int) (shape : Int × Int) (A : Aff) (sn dn : Option Int) (init : Bool)
    (dy dx : Int) : Int :=
  fromWork t (gdalNN (fun i j => toWork t (src i j)) (fun i j => toWork t (dst i j)) shape A
    (stretchNodata t sn) (stretchNodata t dn) init dy dx)

def rioNNList (t : PixT) (simg dimg : List (List Int)) (shape dshape : Int × Int) (A : Aff) (sn dn : Option Int)
    (init : Bool) : List (List Int) :=
  (List.range dshape.1.toNat).map fun (dy : Nat) =>
    (List.range dshape.2.toNat).map fun (dx : Nat) =>
      rioNN t (Warp.getPx simg 0) (Warp.getPx dimg 0) shape A sn dn init dy dx

end OdcGeo.C10
