/-
Model for C10 — the paste shortcut.  The planning code (`_can_paste`, `snap_affine`,
`snap_scale`, `is_almost_int`, `maybe_int`, `_pick_read_scale`, the paste branch of
`compute_reproject_roi`, `compute_axis_overlap`) is modelled in `OdcGeo.Model.C03`; this file adds
the paste operation itself: what a consumer of `ReprojectInfo` does when `paste_ok` holds
(`dst[roi_dst] = src[roi_src]`, flipped along mirrored axes, rest nodata).
-/
import OdcGeo.Model.IO
import OdcGeo.Model.Affine
import OdcGeo.Model.C03
import OdcGeo.Spec.Warp
namespace OdcGeo.C10
open OdcGeo.C17 OdcGeo.C03

/-- source index on one axis for destination index `d` inside the destination slice: the block is
copied in order, or reversed when the axis is mirrored -/
def pasteIndex (flip : Bool) (srcS dstS : NSlice) (d : Int) : Int :=
  if flip then srcS.stop - 1 - (d - dstS.start) else srcS.start + (d - dstS.start)

/-- the pasted image: `roi_src` of the source copied (mirrored per axis) into `roi_dst` of an image
filled with `nodata` -/
def pasted {α : Type} (src : Int → Int → α) (flipY flipX : Bool) (roiSrc roiDst : ROI) (nodata : α)
    (dy dx : Int) : α :=
  if roiDst.1.start ≤ dy ∧ dy < roiDst.1.stop ∧ roiDst.2.start ≤ dx ∧ dx < roiDst.2.stop then
    src (pasteIndex flipY roiSrc.1 roiDst.1 dy) (pasteIndex flipX roiSrc.2 roiDst.2 dx)
  else nodata

def pastedList (img : List (List Int)) (dshape : Int × Int) (flipY flipX : Bool) (roiSrc roiDst : ROI)
    (nodata : Int) : List (List Int) :=
  (List.range dshape.1.toNat).map fun (dy : Nat) =>
    (List.range dshape.2.toNat).map fun (dx : Nat) =>
      pasted (Warp.getPx img nodata) flipY flipX roiSrc roiDst nodata dy dx

end OdcGeo.C10
