/- Model for C10 (core Lean only, no Mathlib). -/
import OdcGeo.Model.IO
namespace OdcGeo.C10

end OdcGeo.C10
