/-
Two more carriers for the bounds the ROI helpers are handed (core Lean only):

* `Bnd` — a bound that is a Python `int`, a `float` or a `str`: the helpers validate nothing, so a float bound is answered
  with float arithmetic and a string raises `TypeError` from the first comparison / subtraction it meets;
* numpy integer scalars of one fixed-width type `t` (`Model/C04Np.lean::NpT`, read-only) for every operand: arithmetic wraps
  around in `t` (`NpT.wrap`), comparisons are exact.  `…W` are the helpers computed that way.
-/
import OdcGeo.Model.C17
import OdcGeo.Model.C04Np
namespace OdcGeo.C17
open OdcGeo.C04 (NpT)

/-! ### bounds of any Python type -/

inductive Bnd where
  | int (v : Int)
  | flt (v : Rat)
  | str
  deriving DecidableEq, Repr

/-- the errors these paths raise: the shared kinds plus `TypeError` -/
inductive BErr where
  | std (e : ErrKind)
  | typeError
  deriving DecidableEq, Repr

def BErr.toStr : BErr → String
  | .std e => e.toStr
  | .typeError => "ERR:TypeError"

abbrev ResB (α : Type) := Except BErr α

/-- numeric value of a bound (`str`: none) -/
def Bnd.num : Bnd → Option Rat
  | .int v => some v
  | .flt v => some v
  | .str => none

/-- `n + x` for an `int` length: `int + int` is an int, `int + float` a float, `int + str` a `TypeError` -/
def Bnd.addInt (n : Int) : Bnd → ResB Bnd
  | .int v => .ok (.int (n + v))
  | .flt v => .ok (.flt ((n : Rat) + v))
  | .str => .error .typeError

/-- `x if x >= 0 else max(0, n + x)` (`_norm_slice`): `max(0, y)` keeps `y`'s type when `y > 0`, else it is the int `0` -/
def wrapNegB (n : Int) (x : Bnd) : ResB Bnd :=
  match x.num with
  | none => .error .typeError                        -- `'a' >= 0`
  | some q =>
    if q ≥ 0 then .ok x
    else match x.addInt n with
      | .error e => .error e
      | .ok y => match y.num with
        | some r => if r > 0 then .ok y else .ok (.int 0)
        | none => .error .typeError

/-- `_norm_slice(slice(a, b), n)` for bounds of any type -/
def normSliceB (a b : Option Bnd) (n : Int) : ResB (Bnd × Bnd) :=
  match wrapNegB n (a.getD (.int 0)), wrapNegB n (b.getD (.int n)) with
  | .ok s, .ok e => .ok (s, e)
  | .error e, _ => .error e
  | _, .error e => .error e

/-- `y - x` -/
def Bnd.sub : Bnd → Bnd → ResB Bnd
  | .int a, .int b => .ok (.int (a - b))
  | .int a, .flt b => .ok (.flt ((a : Rat) - b))
  | .flt a, .int b => .ok (.flt (a - (b : Rat)))
  | .flt a, .flt b => .ok (.flt (a - b))
  | _, _ => .error .typeError

/-- `roi_shape`'s `slice_dim` for bounds of any type -/
def sliceDimB (a b : Option Bnd) : ResB Bnd :=
  match b with
  | none => .error (.std .valueError)
  | some o => match a with
    | none => .ok o
    | some i => o.sub i

/-! ### every operand a numpy scalar of type `t` -/

def wadd (t : NpT) (a b : Int) : Int := t.wrap (a + b)
def wsub (t : NpT) (a b : Int) : Int := t.wrap (a - b)
def wmul (t : NpT) (a b : Int) : Int := t.wrap (a * b)

/-- `x if x >= 0 else max(0, n + x)` -/
def wrapNegW (t : NpT) (n x : Int) : Int := if x ≥ 0 then x else max 0 (wadd t n x)

/-- `_norm_slice(slice(a, b), n)` (bounds given) -/
def normSliceW (t : NpT) (a b n : Int) : NSlice := ⟨wrapNegW t n a, wrapNegW t n b⟩

/-- `roi_pad`'s `pad_slice` -/
def padSliceW (t : NpT) (a b pad n : Int) : NSlice :=
  let s := normSliceW t a b n
  ⟨max 0 (wsub t s.start pad), min n (wadd t s.stop pad)⟩

/-- `roi_shape`'s `slice_dim` -/
def sliceDimW (t : NpT) (a b : Int) : Int := wsub t b a

/-- `align_down(x, align)` = `x - (x % align)`, `align_up(x, align)` = `align_down(x + (align - 1), align)`; `align > 0` -/
def alignDownW (t : NpT) (x a : Int) : Int := wsub t x (x % a)
def alignUpW (t : NpT) (x a : Int) : Int := alignDownW t (wadd t x (wsub t a 1)) a

def scaledDownSliceW (t : NpT) (s : NSlice) (k : Int) : NSlice := ⟨s.start / k, alignUpW t s.stop k / k⟩
def scaledUpSliceW (t : NpT) (s : NSlice) (k : Int) : NSlice := ⟨wmul t s.start k, wmul t s.stop k⟩

end OdcGeo.C17
