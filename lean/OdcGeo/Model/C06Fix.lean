/-
`_mpu.py` with the repair of finding `part-number-above-max-part-unchecked` (branch `fix3-C06`): `maybe_write`
asserts `write.min_part <= self.nextPartId <= write.max_part` right before it hands the part to the writer, as
`flush_rhs` always did.  Everything that calls `maybe_write` is repeated here with the repaired version
(`…R`); everything else is `Model/C06.lean`.  The harness probes which of the two the tree under test has.
Core Lean only.
-/
import OdcGeo.Model.C06
import OdcGeo.Model.C06Dask
namespace OdcGeo.C06
variable {α : Type}

/-- `maybe_write` as repaired: the range assertion sits after all other assertions, right before `write(...)` -/
def maybeWriteR (W : Writer) (spill : Nat) (c : Chunk α) : Res (Chunk α × List (Part α)) :=
  match maybeWrite W spill c with
  | .error e => .error e
  | .ok (c', ws) =>
    if ws.isEmpty then .ok (c', ws)
    else if W.minPart ≤ c.next ∧ c.next ≤ W.maxPart then .ok (c', ws) else .error .assertion

def appendStepR (w : Option Writer) (spill : Nat) (acc : Res (Chunk α × List (Part α)))
    (chunk : List α × Int) : Res (Chunk α × List (Part α)) :=
  match acc with
  | .error e => .error e
  | .ok (c, ws) =>
    let c1 := c.append chunk.1 chunk.2
    match w with
    | none => .ok (c1, ws)
    | some W =>
      if spill = 0 then .ok (c1, ws)
      else match maybeWriteR W spill c1 with
        | .error e => .error e
        | .ok (c2, ws2) => .ok (c2, ws ++ ws2)

def appendChunksOpR (w : Option Writer) (spill : Nat) (c : Chunk α) (chunks : List (List α × Int)) :
    Res (Chunk α × List (Part α)) :=
  match chunks.foldl (appendStepR w spill) (.ok ({ c with isFinal := false }, [])) with
  | .error e => .error e
  | .ok (c', ws) => .ok ({ c' with isFinal := c.isFinal }, ws)

def mergeAndSpillR (w : Option Writer) (spill : Nat) (l r : Chunk α) : Res (Chunk α × List (Part α)) :=
  match merge w l r with
  | .error e => .error e
  | .ok (m, ws) =>
    match w with
    | none => .ok (m, ws)
    | some W =>
      if spill = 0 then .ok (m, ws)
      else match maybeWriteR W spill m with
        | .error e => .error e
        | .ok (m', ws') => .ok (m', ws ++ ws')

def evalR (cfg : Cfg) (total : Nat) : Tree α → Nat → Res (Chunk α × List (Part α))
  | .leaf chunks, idx =>
    appendChunksOpR cfg.writer cfg.spill
      (mkChunk (cfg.base idx) cfg.wpc (cfg.markFinal && decide (idx + 1 = total)) cfg.lhsKeep) chunks
  | .node l r, idx =>
    match evalR cfg total l idx with
    | .error e => .error e
    | .ok (cl, wl) =>
      match evalR cfg total r (idx + l.leaves) with
      | .error e => .error e
      | .ok (cr, wr) =>
        match mergeAndSpillR cfg.writer cfg.spill cl cr with
        | .error e => .error e
        | .ok (m, wm) => .ok (m, wl ++ wr ++ wm)

def runR (cfg : Cfg) (t : Tree α) (mkHdr mkFtr : Option (List (Nat × Int) → List α)) :
    Res (Out α × List (Part α) × List (Nat × Int)) :=
  match evalR cfg t.leaves t 0 with
  | .error e => .error e
  | .ok (root, ws) =>
    let hdr := mkHdr.map (fun f => f root.observed)
    let ftr := mkFtr.map (fun f => f root.observed)
    match finalizer cfg.writer root hdr ftr with
    | .error e => .error e
    | .ok (out, ws') => .ok (out, ws ++ ws', root.observed)

def mpuWriteR (w : Option Writer) (spill wpc : Nat) (bags : List (List (List (List α × Int))))
    (mkHdr mkFtr : Option (List (Nat × Int) → List α)) :
    Option (Res (Out α × List (Part α) × List (Nat × Int))) :=
  if bags.isEmpty then some (.error .assertion)
  else (mpuWriteTree mpuWriteSplitEvery bags).map fun t => runR ⟨w, spill, wpc, mkFtr.isNone⟩ t mkHdr mkFtr

end OdcGeo.C06
