/-
Model for C05, part 3 — statistics metadata text, `cog_gbox`, the pyramid plan (core Lean only).

  odc/geo/cog/_tifffile.py  _render_gdal_metadata (41-60): the GDAL_METADATA XML with `STATISTICS_*` items,
                            `f"{v:{pad}.{precision}f}"` for every value;  _unwrap_stats (63-68): per-key arrays → per-band dicts;
                            _pyramids_from_cog_metadata (442-456): level k+1 is reprojected FROM level k onto the GeoBox of IFD k+1,
                            chunked by that IFD's tile
  odc/geo/cog/_shared.py    cog_gbox (188-210)

Values are exact rationals (finite doubles); `nan` / `inf` / numpy's masked constant are outside the model.
-/
import OdcGeo.Model.C05Opts
namespace OdcGeo.C05

/-! ### Python's fixed-point float formatting `format(v, f"{pad}.{precision}f")` -/

/-- round half to even (what correctly rounded decimal conversion of the exact binary value does on a tie) -/
def roundHalfEven (q : Rat) : Int :=
  let f := q.floor
  let r := q - f
  if r < 1 / 2 then f else if 1 / 2 < r then f + 1 else if f % 2 = 0 then f else f + 1

/-- the value printed, as an integer count of `10^-p` -/
def fixedScaled (v : Rat) (p : Nat) : Int := roundHalfEven (v * (10 : Rat) ^ p)

def leftPad (w : Nat) (c : Char) (s : String) : String := String.ofList (List.replicate (w - s.length) c) ++ s

/-- `format(v, f"{pad}.{p}f")`: sign (kept for negative values that round to zero), integer part, `.`, `p` digits; padded
with spaces on the left to width `pad` -/
def fmtFixed (v : Rat) (p pad : Nat) : String :=
  let a := (fixedScaled v p).natAbs
  let body := (if v < 0 then "-" else "") ++ toString (a / 10 ^ p) ++
    (if p = 0 then "" else "." ++ leftPad p '0' (toString (a % 10 ^ p)))
  leftPad pad ' ' body

/-! ### `_render_gdal_metadata`, `_unwrap_stats` -/

/-- `eol.join(parts)` -/
def joinWith (sep : String) (parts : List String) : String := sep.intercalate parts

/-- one `<Item …>` -/
def statItem (sample : Nat) (k : String) (v : Rat) (precision pad : Nat) : String :=
  "<Item name=\"STATISTICS_" ++ upper k ++ "\" sample=\"" ++ toString sample ++ "\">" ++ fmtFixed v precision pad ++ "</Item>"

/-- `_render_gdal_metadata(band_stats, precision, pad, eol)`; a single dict is `[dict]` -/
def renderGdalMetadata (bands : List (List (String × Rat))) (precision : Nat := 10) (pad : Nat := 0) (eol : String := "") : String :=
  let body := joinWith eol (bands.zipIdx.map fun (stats, sample) =>
    joinWith eol (stats.map fun (k, v) => statItem sample k v precision pad))
  joinWith eol ["<GDALMetadata>", body, "</GDALMetadata>"]

/-- `_unwrap_stats(stats, ndim)`: `stats[k]` holds one value per band (a 0-d value for 2-D data) → one dict per band;
`none`: a key without a value for that band (ragged input, `IndexError` in the code) -/
def unwrapStats (stats : List (String × List Rat)) (ndim : Nat) : Option (List (List (String × Rat))) :=
  let n := if ndim = 2 then 1 else (stats.head?.map (·.2.length)).getD 0
  (List.range n).mapM fun idx => stats.mapM fun (k, vs) => (vs[idx]?).map fun v => (k, v)

/-! ### `cog_gbox` -/

inductive TileArg where
  | none
  | int (n : Nat)
  | pair (y x : Nat)
  deriving DecidableEq, Repr

/-- shape of `cog_gbox(gbox, tile=…, nlevels=…)` (the affine is the GeoBox's: `expand` pads right / bottom) -/
def cogGboxShape (shape : YX) (tile : TileArg) (nlevels : Option Nat) : YX :=
  match nlevels with
  | none =>
    (computeCogSpec shape (match tile with | .none => ⟨256, 256⟩ | .int n => ⟨n, n⟩ | .pair y x => ⟨y, x⟩)).1
  | some n => ⟨alignUp shape.y (2 ^ n), alignUp shape.x (2 ^ n)⟩

/-! ### `_pyramids_from_cog_metadata` -/

/-- one reprojection of the pyramid: source layer index, destination level, dask chunks of the result -/
structure PyrStep where
  src : Nat
  dst : Level
  chunks : YX
  deriving DecidableEq, Repr

/-- `out.append(out[-1].odc.reproject(mm.gbox, chunks=mm.tile.yx, …))` for every overview IFD, in order -/
def pyramidPlan (levels : List Level) : List PyrStep :=
  (levels.drop 1).zipIdx.map fun (l, k) => ⟨k, l, l.tile⟩

end OdcGeo.C05
