/-
Glue around the modelled core of C11 — the public entry points and argument forms through which
`compute_output_geobox` is reached.  Core Lean only.

* `resModeOf`        – the forms of the `resolution=` argument (`"auto" | "same" | "fit"`, any other
                       string, `int`/`float`, `Resolution`, anything else) as the code dispatches on them
                       (overlap.py:633-670, `res_` types.py:326-332, `Resolution.__init__` types.py:161-164)
* `computeOutputAny` – `compute_output_geobox` for a `GeoBox` **or** a `GCPGeoBox` source: the identity
                       fast path is guarded by `isinstance(gbox, GeoBox)` (overlap.py:622-629)
* `cpResOf`          – `dst_ = GeoBox.from_bbox(cp_bbox, dst_crs, shape=(1, 1), tight=True)` and
                       `dst_.resolution` (overlap.py:647-649): the centre-pixel estimate is computed by the
                       modelled `fromBbox` from the projected centre-pixel bounding box (pyproj output)
* `toCrs`            – `GeoBox.to_crs(crs, **kw)` (geobox.py:810-872): keyword defaults and forwarding
* `outputGeobox`     – `ODCExtension.output_geobox(crs, **kw)` (_xr_interop.py:861-871)
* `utmBBox`          – argument dispatch of `CRS.utm(x, y=None)` (crs.py:341-386) down to the bounding box
                       handed to the pyproj database query and to `_pick_best_crs`
* `normCrsArg`       – dispatch of `norm_crs(crs, ctx)` on the argument form (crs.py:410-434)
-/
import OdcGeo.Model.C11
namespace OdcGeo.C11
open OdcGeo

/-! ### the `resolution=` argument -/

/-- Python values accepted (or not) as `resolution=` -/
inductive ResArg where
  /-- any `str` -/
  | str (s : String)
  /-- `int` or `float` (incl. `numpy.float64`, a `float` subclass) -/
  | num (r : Rat)
  /-- a `Resolution` object -/
  | res (rx ry : Rat)
  /-- anything else (tuple, `numpy.int64`, `None`, …): `res_` raises `ValueError` -/
  | other
  deriving DecidableEq, Repr

/-- How `compute_output_geobox` reads `resolution=`: only the exact lower-case words select a mode;
every other string raises `ValueError` when the resolution is needed; a number `r` is `Resolution(r, -r)`
(`res_` → `Resolution.__init__` with `y=None`); a `Resolution` is taken as is; any other type makes
`res_` raise `ValueError` at the same point as a bad string. -/
def resModeOf : ResArg → ResMode
  | .str "auto" => .auto
  | .str "same" => .same
  | .str "fit" => .fit
  | .str _ => .badString
  | .num r => .explicit r (-r)
  | .res rx ry => .explicit rx ry
  | .other => .badString

/-! ### `compute_output_geobox` for either kind of source -/

/-- `compute_output_geobox(gbox, crs, …)`; `isGeoBox = isinstance(gbox, GeoBox)` (a `GCPGeoBox` source never
takes the identity fast path). -/
def computeOutputAny (isGeoBox : Bool) (c : Captured) (mode : ResMode) (shape : ShapeReq) (tight : Bool)
    (anchor : Anchor) (tol : Rat) (rnd : Rounding) : Res Out :=
  if isGeoBox then computeOutput c mode shape tight anchor tol rnd
  else match chooseRes c mode shape rnd with
    | .error e => .error e
    | .ok res => (fromBbox c.bbox shape res anchor tight tol).map Out.grid

/-! ### the centre-pixel estimate -/

/-- `GeoBox.from_bbox(cp_bbox, dst_crs, shape=(1, 1), tight=True).resolution` as `(x, y)`:
`anchor` and `tol` keep their defaults (`"default"`, `0.01`); the result is axis-aligned, so
`resolution_from_affine` is `(A.a, A.e)`. -/
def cpResOf (cp : BBox) : Res (Rat × Rat) :=
  (fromBbox cp (.exact 1 1) none .dflt true (5764607523034235 / 576460752303423488)).map
    fun g => (g.A.a, g.A.e)

/-- the pyproj-derived inputs with the centre-pixel box instead of its resolution -/
structure CapturedCp where
  sameCrs : Bool
  sameUnits : Bool
  srcRes : Rat × Rat
  bbox : BBox
  /-- `cp.extent.to_crs(dst_crs).boundingbox` -/
  cpBBox : BBox
  fitScale : Rat × Rat
  deriving DecidableEq, Repr

/-- is the centre-pixel fit evaluated at all (lines 633-647) -/
def needsFit (c : CapturedCp) (mode : ResMode) (shape : ShapeReq) : Bool :=
  shape = .none && (mode = .fit || (mode = .auto && !c.sameUnits))

/-- `compute_output_geobox` with the centre-pixel resolution computed by the model.  The centre pixel is
projected only on the `fit` path; elsewhere `cpRes` is never read (any value gives the same result:
theorem `computeOutput_cpRes_irrelevant`). -/
def computeOutputCp (isGeoBox : Bool) (c : CapturedCp) (mode : ResMode) (shape : ShapeReq) (tight : Bool)
    (anchor : Anchor) (tol : Rat) (rnd : Rounding) : Res Out :=
  if isGeoBox ∧ c.sameCrs ∧ (mode = .auto ∨ mode = .same) ∧ shape = .none ∧ anchor = .dflt then .ok .source
  else if needsFit c mode shape then
    match cpResOf c.cpBBox with
    | .error e => .error e
    | .ok cp => computeOutputAny isGeoBox ⟨c.sameCrs, c.sameUnits, c.srcRes, c.bbox, cp, c.fitScale⟩ mode shape
                  tight anchor tol rnd
  else computeOutputAny isGeoBox ⟨c.sameCrs, c.sameUnits, c.srcRes, c.bbox, (0, 0), c.fitScale⟩ mode shape
          tight anchor tol rnd

/-! ### keyword defaults: `GeoBox.to_crs`, `.odc.output_geobox` -/

/-- the six grid options as a caller may or may not pass them -/
structure GridArgs where
  resolution : Option ResArg := none
  shape : Option ShapeReq := none
  tight : Option Bool := none
  anchor : Option Anchor := none
  tol : Option Rat := none
  rnd : Option Rounding := none
  deriving DecidableEq, Repr

/-- exact value of the Python double `0.01` (default `tol`) -/
def tolDefault : Rat := 5764607523034235 / 576460752303423488

/-- `GeoBox.to_crs(crs, *, resolution="auto", shape=None, tight=False, anchor="default", tol=0.01,
round_resolution=None)` = `compute_output_geobox(self, crs, …)` with every option forwarded by name;
identical defaults in `compute_output_geobox`, `xr_reproject` and `.odc.output_geobox(**kw)`. -/
def toCrs (isGeoBox : Bool) (c : Captured) (a : GridArgs) : Res Out :=
  computeOutputAny isGeoBox c (resModeOf (a.resolution.getD (.str "auto"))) (a.shape.getD .none)
    (a.tight.getD false) (a.anchor.getD .dflt) (a.tol.getD tolDefault) (a.rnd.getD .none)

/-- `ODCExtension.output_geobox(crs, **kw)`: `ValueError("Not geo registered")` without a geobox. -/
def outputGeobox (hasGeobox : Bool) (isGeoBox : Bool) (c : Captured) (a : GridArgs) : Res Out :=
  if !hasGeobox then .error .valueError else toCrs isGeoBox c a

/-! ### `CRS.utm(x, y=None)` argument dispatch -/

inductive UtmArg where
  /-- a `BoundingBox` (taken as is, assumed lon/lat) -/
  | bbox (b : BBox)
  /-- a `Geometry`: `hasCrs` → `to_crs("epsg:4326").boundingbox` (`ll` is that box, pyproj), else its own box `b` -/
  | geom (hasCrs : Bool) (b ll : BBox)
  /-- a number `x`, with or without `y` -/
  | num (x : Rat) (y : Option Rat)
  /-- an `XY` -/
  | xy (x y : Rat)
  deriving DecidableEq, Repr

/-- the bounding box whose `.polygon` goes to `_pick_best_crs` and whose `.aoi` goes to
`query_utm_crs_info` -/
def utmBBox : UtmArg → BBox
  | .bbox b => b
  | .geom true _ ll => ll
  | .geom false b _ => b
  | .num x none => ⟨x, 0, x, 0⟩
  | .num x (some y) => ⟨x, y, x, y⟩
  | .xy x y => ⟨x, y, x, y⟩

/-! ### `norm_crs(crs, ctx)` dispatch -/

inductive CrsArg where
  /-- a `CRS` object (returned as is, whatever its text) -/
  | obj (id : Nat)
  | none
  | unset
  /-- a string; `parsed` = what `CRS(text)` gives (`none`: `CRSError`) -/
  | str (raw : String) (parsed : Option Nat)
  /-- anything else handed to `CRS(...)` (int EPSG code, dict, pyproj CRS, …) -/
  | other (parsed : Option Nat)
  deriving DecidableEq, Repr

inductive NormCrs where
  | none
  | crs (id : Nat)
  /-- resolved through `CRS.utm(ctx)` with that request -/
  | utm (req : UtmReq)
  deriving DecidableEq, Repr

/-- `norm_crs(crs, ctx)`; `hasCtx`: `ctx is not None`.  `CRSError` (pyproj) is a `RuntimeError`. -/
def normCrsArg (a : CrsArg) (hasCtx : Bool) : Res NormCrs :=
  match a with
  | .obj i => .ok (.crs i)
  | .none => .ok .none
  | .unset => .ok .none
  | .str raw parsed =>
    match parseUtm raw with
    | some req => if hasCtx then .ok (.utm req) else .error .assertion
    | none => match parsed with
      | some i => .ok (.crs i)
      | none => .error .runtimeError
  | .other parsed => match parsed with
    | some i => .ok (.crs i)
    | none => .error .runtimeError

/-- `norm_crs_or_error` -/
def normCrsOrError (a : CrsArg) (hasCtx : Bool) : Res NormCrs :=
  match normCrsArg a hasCtx with
  | .ok .none => .error .valueError
  | r => r

end OdcGeo.C11
