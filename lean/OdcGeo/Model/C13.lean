/-
Model for C13 — chunked (dask) reprojection versus whole-array reprojection
(core Lean only, no Mathlib).

Mirrors, function by function

  * `odc/geo/_dask.py`   `resolve_fill_value`, `_do_chunked_reproject`, `_dask_rio_reproject`
  * `odc/geo/_blocks.py` `BlockAssembler.extract` (full-plane roi)
  * `odc/geo/roi.py`     `clip_tiles`, `VariableSizedTiles.crop/__getitem__`, `Tiles.__getitem__`
  * `odc/geo/geobox.py`  `GeoboxTiles.clip`, `GeoBox.__getitem__` (crop = transform * translation)
  * `odc/geo/warp.py`    `rio_reproject` (NaN default), `_rio_reproject` (bool stretching)
  * `odc/geo/_xr_interop.py` `_xr_reproject_da` (nodata defaulting, dask / numpy dispatch)

as they are on branch `fix-C13` (two repairs: F10 and the boolean-nodata sibling); the code
as found is kept selectable through `Variant` so that the defects are provable about the model.

Not odc-geo code (reference semantics, validated against rasterio/GDAL by the harness on every
run): `samplePix`, `gdalNearest`, `effNodata`, `initVal` — nearest-neighbour
`rasterio.warp.reproject` between two grids sharing a CRS.

The dependency map `deps` (= `GeoboxTiles.grid_intersect`, property C12) is an input; its
completeness is the explicit hypothesis `deps_complete` of the theorems.

Images are functions `(row, col) ↦ Option Val`; `none` = outside the array.  Index errors of the
code (`IndexError` of a tile lookup) are `none` of the `Option` monad.
-/
import OdcGeo.Model.IO
import OdcGeo.Model.Affine
namespace OdcGeo.C13

/-- A pixel value: NaN or a number (integer valued; nearest neighbour only copies values). -/
inductive Val where
  | nan
  | num (v : Int)
  deriving DecidableEq, Repr, Inhabited

/-- What the code distinguishes about a dtype: `np.issubdtype(dtype, np.floating)`
(`dst.dtype.kind == "f"`), `bool` (stretched to 0/255 for GDAL), anything else. -/
inductive DKind where
  | float | int | bool
  deriving DecidableEq, Repr

abbrev Img := Int × Int → Option Val
/-- `(start, stop)` of a tile along one axis. -/
abbrev Span := Int × Int
/-- `(row, col)` index of a tile / dask block. -/
abbrev TIdx := Nat × Nat

/-- Which revision of the code is modelled.  `repaired` is the code on `fix-C13`. -/
structure Variant where
  /-- F10: `_do_chunked_reproject` defaults `dst_nodata` to NaN for float data without nodata -/
  nanDefault : Bool
  /-- `_rio_reproject` stretches the nodata values of boolean rasters like the pixels -/
  boolNodata : Bool
  deriving DecidableEq, Repr

def Variant.repaired : Variant := ⟨true, true⟩
def Variant.asFound : Variant := ⟨false, false⟩

/-- `np.full((h, w), v)` -/
def full (h w : Int) (v : Val) : Img := fun p =>
  if 0 ≤ p.1 ∧ p.1 < h ∧ 0 ≤ p.2 ∧ p.2 < w then some v else none

/-- `img[ys.start:ys.stop, xs.start:xs.stop]` re-indexed from 0: one dask block / a crop. -/
def window (img : Img) (ys xs : Span) : Img := fun p =>
  if 0 ≤ p.1 ∧ p.1 < ys.2 - ys.1 ∧ 0 ≤ p.2 ∧ p.2 < xs.2 - xs.1
  then img (ys.1 + p.1, xs.1 + p.2) else none

/-! ### fill value resolution (`_dask.py:14-23`) -/

/-- `resolve_fill_value(dst_nodata, src_nodata, dtype)` (nodata already cast to the dtype). -/
def resolveFill (dstNd srcNd : Option Val) (k : DKind) : Val :=
  match dstNd with
  | some v => v
  | none =>
    match srcNd with
    | some v => v
    | none => match k with
      | .float => .nan
      | _ => .num 0

/-! ### reference semantics of `rasterio.warp.reproject`, nearest neighbour, same CRS -/

/-- The source pixel sampled for destination pixel `d = (row, col)`: the centre of `d` mapped by
`A` (destination pixel coordinates → source pixel coordinates, `(x, y)` order); reached iff it
falls in `[0, w) × [0, h)`; the pixel is the floor. -/
def samplePix (A : Aff) (h w : Int) (d : Int × Int) : Option (Int × Int) :=
  let p := A.apply ((d.2 : Rat) + 1 / 2, (d.1 : Rat) + 1 / 2)
  if 0 ≤ p.1 ∧ p.1 < (w : Rat) ∧ 0 ≤ p.2 ∧ p.2 < (h : Rat)
  then some (p.2.floor, p.1.floor) else none

/-- Parameters of GDAL the theorems are generic in: the value written for a valid source value
given the effective destination nodata (GDAL nudges a valid value that collides with it). -/
structure Gdal where
  emit : Option Val → Val → Val

/-- rasterio: `dst_nodata if dst_nodata is not None else src_nodata`. -/
def effNodata (dstNd srcNd : Option Val) : Option Val :=
  match dstNd with
  | some v => some v
  | none => srcNd

/-- rasterio ≥ 1.4: `INIT_DEST = NO_DATA` if there is a destination nodata, else `0`;
the caller's buffer content is never kept. -/
def initVal : Option Val → Val
  | some v => v
  | none => .num 0

/-- `rasterio.warp.reproject(src, buf, …, resampling=nearest, src_nodata, dst_nodata)` for two
grids of one CRS; `A` = destination pixel → source pixel.  `buf` only contributes its shape. -/
def gdalNearest (G : Gdal) (src : Img) (sh sw : Int) (buf : Img) (A : Aff)
    (srcNd dstNd : Option Val) : Img := fun d =>
  match buf d with
  | none => none
  | some _ =>
    let dn := effNodata dstNd srcNd
    match samplePix A sh sw d with
    | none => some (initVal dn)
    | some s =>
      match src s with
      | none => none
      | some v => if srcNd = some v then some (initVal dn) else some (G.emit dn v)

/-! ### `_rio_reproject`, `rio_reproject`  (`warp.py:105-237`) -/

/-- `_alias_or_convert`: `np.where(arr, 255, 0)` for bool; int8 → int16 keeps the value. -/
def encVal (k : DKind) (v : Val) : Val :=
  match k with
  | .bool => if v = .num 0 then .num 0 else .num 255
  | _ => v

/-- copy back: `_dst > 127` for bool. -/
def decVal (k : DKind) (v : Val) : Val :=
  match k with
  | .bool => match v with
    | .num n => if n > 127 then .num 1 else .num 0
    | .nan => .num 0
  | _ => v

/-- `_stretch_nodata` (repaired code only): `255 if nodata else 0` for bool. -/
def encNodata (V : Variant) (k : DKind) (nd : Option Val) : Option Val :=
  match k with
  | .bool => if V.boolNodata then nd.map (encVal .bool) else nd
  | _ => nd

def encImg (k : DKind) (img : Img) : Img := fun p => (img p).map (encVal k)

/-- `_rio_reproject(src, dst, s_gbox, d_gbox, "nearest", src_nodata, dst_nodata)`;
`S`, `D` are the geobox transforms (pixel → world); GDAL maps destination pixels through
`~S * D`. -/
def rioReprojectPlane (V : Variant) (G : Gdal) (k : DKind) (src : Img) (sh sw : Int) (buf : Img)
    (S D : Aff) (srcNd dstNd : Option Val) : Img := fun d =>
  (gdalNearest G (encImg k src) sh sw (encImg k buf) (S.inv * D)
    (encNodata V k srcNd) (encNodata V k dstNd) d).map (decVal k)

/-- `rio_reproject`: `dst_nodata = NaN` when none was given and the destination is floating. -/
def rioNodataDefault (k : DKind) (dstNd : Option Val) : Option Val :=
  match dstNd with
  | some v => some v
  | none => if k = .float then some .nan else none

def rioReproject (V : Variant) (G : Gdal) (k : DKind) (src : Img) (sh sw : Int) (buf : Img)
    (S D : Aff) (srcNd dstNd : Option Val) : Img :=
  rioReprojectPlane V G k src sh sw buf S D srcNd (rioNodataDefault k dstNd)

/-! ### tilings (`roi.py`) -/

/-- `VariableSizedTiles(chunks)`: offsets are the cumulative sums. -/
def chunksTilingFrom (off : Int) : List Nat → List Span
  | [] => []
  | n :: r => (off, off + n) :: chunksTilingFrom (off + n) r

def chunksTiling (chunks : List Nat) : List Span := chunksTilingFrom 0 chunks

/-- `Tiles(N, n)`: `ceil(N / n)` tiles `[i*n, min((i+1)*n, N))`. -/
def regularTiling (N n : Nat) : List Span :=
  (List.range ((N + n - 1) / n)).map fun i => (((i * n : Nat) : Int), ((min ((i + 1) * n) N : Nat) : Int))

/-- Index of the tile containing pixel coordinate `p` (dask: which block holds the pixel). -/
def locate : List Span → Int → Option Nat
  | [], _ => none
  | s :: r, p => if s.1 ≤ p ∧ p < s.2 then some 0 else (locate r p).map (· + 1)

/-- `ii.min(axis=0)`, `ii.max(axis=0)` of `clip_tiles` along one axis (`ValueError` on empty). -/
def minMax : List Nat → Option (Nat × Nat)
  | [] => none
  | a :: r =>
    match minMax r with
    | none => some (a, a)
    | some (lo, hi) => some (min a lo, max a hi)

/-- One axis of `GeoboxTiles.clip`: pixel window `tiles[lo:hi+1]` and the cropped tiling
(`VariableSizedTiles.crop`) re-based at 0. -/
def clipSpans (t : List Span) (lo hi : Nat) : Option (Span × List Span) := do
  let a ← t[lo]?
  let b ← t[hi]?
  pure ((a.1, b.2), ((t.drop lo).take (hi + 1 - lo)).map fun s => (s.1 - a.1, s.2 - a.1))

/-- structural `mapM` in `Option` -/
def mapOpt {α β} (f : α → Option β) : List α → Option (List β)
  | [] => some []
  | a :: r =>
    match f a, mapOpt f r with
    | some b, some bs => some (b :: bs)
    | _, _ => none

/-! ### `BlockAssembler.extract`  (`_blocks.py:127-172`) -/

/-- `np.copyto(xx[d_roi], block[s_roi])` for the tile at `ys × xs`. -/
def pasteBlock (acc : Img) (ys xs : Span) (b : Img) : Img := fun p =>
  if ys.1 ≤ p.1 ∧ p.1 < ys.2 ∧ xs.1 ≤ p.2 ∧ p.2 < xs.2 then b (p.1 - ys.1, p.2 - xs.1) else acc p

/-- the loop `for idx, block in self._blocks.items()` over the initial `np.full(..., fill)`. -/
def assemble (cy cx : List Span) : List (TIdx × Img) → Img → Option Img
  | [], acc => some acc
  | (idx, b) :: rest, acc => do
    let ys ← cy[idx.1]?
    let xs ← cx[idx.2]?
    assemble cy cx rest (pasteBlock acc ys xs b)

/-- `fill_value=src_nodata`; `None` → NaN for floating point, else 0. -/
def extractFill (srcNd : Option Val) (k : DKind) : Val :=
  match srcNd with
  | some v => v
  | none => match k with
    | .float => .nan
    | _ => .num 0

/-! ### the chunked path (`_dask.py`) -/

structure Cfg where
  variant : Variant
  kind : DKind
  /-- source geobox: shape and transform -/
  srcH : Int
  srcW : Int
  S : Aff
  /-- destination geobox -/
  dstH : Int
  dstW : Int
  D : Aff
  /-- source chunking (`src.chunks[ydim:ydim+2]`) and destination chunking, per axis -/
  sy : List Span
  sx : List Span
  dy : List Span
  dx : List Span
  /-- `d2s_idx = gbt_dst.grid_intersect(gbt_src)` -/
  deps : List (TIdx × List TIdx)
  srcNd : Option Val
  dstNd : Option Val

/-- `d2s_idx.get((y, x), [])` -/
def lookupDeps (deps : List (TIdx × List TIdx)) (idx : TIdx) : List TIdx :=
  match deps.lookup idx with
  | some l => l
  | none => []

/-- block `idx` of the dask source array -/
def srcBlock (src : Img) (sy sx : List Span) (idx : TIdx) : Option Img := do
  let ys ← sy[idx.1]?
  let xs ← sx[idx.2]?
  pure (window src ys xs)

/-- the `dst_nodata` handed to `_rio_reproject` by `_do_chunked_reproject` (F10 repair). -/
def chunkDstNodata (V : Variant) (k : DKind) (srcNd dstNd : Option Val) : Option Val :=
  match dstNd, srcNd with
  | none, none => if V.nanDefault ∧ k = .float then some .nan else none
  | d, _ => d

/-- `_do_chunked_reproject(d2s, src_gbt, dst_gbt, dst_idx, *blocks)` for one plane:
clip the source tiling to the needed tiles, assemble the blocks over a `src_nodata` fill,
warp into a zero-initialised chunk. -/
def doChunkedReproject (c : Cfg) (G : Gdal) (dstIdx : TIdx) (blocks : List Img) : Option Img := do
  let sel := lookupDeps c.deps dstIdx
  let (y1, y2) ← minMax (sel.map (·.1))
  let (x1, x2) ← minMax (sel.map (·.2))
  let (wy, cy) ← clipSpans c.sy y1 y2
  let (wx, cx) ← clipSpans c.sx x1 x2
  let selNew := sel.map fun i => (i.1 - y1, i.2 - x1)
  let S' := c.S * Aff.translation wx.1 wy.1
  let ty ← c.dy[dstIdx.1]?
  let tx ← c.dx[dstIdx.2]?
  let D' := c.D * Aff.translation tx.1 ty.1
  let h' := wy.2 - wy.1
  let w' := wx.2 - wx.1
  let asm ← assemble cy cx (selNew.zip blocks) (full h' w' (extractFill c.srcNd c.kind))
  let dst := full (ty.2 - ty.1) (tx.2 - tx.1) (.num 0)
  pure (rioReprojectPlane c.variant G c.kind asm h' w' dst S' D' c.srcNd
          (chunkDstNodata c.variant c.kind c.srcNd c.dstNd))

/-- `(np.full, b_shape, fill_value, dtype)` -/
def constBlock (c : Cfg) (idx : TIdx) : Option Img := do
  let ty ← c.dy[idx.1]?
  let tx ← c.dx[idx.2]?
  pure (full (ty.2 - ty.1) (tx.2 - tx.1) (resolveFill c.dstNd c.srcNd c.kind))

/-- the task of destination block `idx` as a function of its dependency blocks
(`_dask_rio_reproject`: `(proc, (y, x), *block_deps)` if there are sources, else a constant). -/
def dstTask (c : Cfg) (G : Gdal) (idx : TIdx) (blocks : List Img) : Option Img :=
  if (lookupDeps c.deps idx).isEmpty then constBlock c idx
  else doChunkedReproject c G idx blocks

/-- destination block `idx` computed from the source blocks -/
def dstBlock (c : Cfg) (G : Gdal) (src : Img) (idx : TIdx) : Option Img := do
  let blocks ← mapOpt (srcBlock src c.sy c.sx) (lookupDeps c.deps idx)
  dstTask c G idx blocks

/-- pixel `d` of the computed dask array: the block holding it, at block-local coordinates. -/
def daskResult (c : Cfg) (G : Gdal) (src : Img) : Img := fun d => do
  let iy ← locate c.dy d.1
  let ix ← locate c.dx d.2
  let ty ← c.dy[iy]?
  let tx ← c.dx[ix]?
  let blk ← dstBlock c G src (iy, ix)
  blk (d.1 - ty.1, d.2 - tx.1)

/-- the in-memory path of `_xr_reproject_da`: `rio_reproject(src.values, np.empty(...), …)`;
`buf` is the uninitialised destination. -/
def wholeResult (c : Cfg) (G : Gdal) (src buf : Img) : Img :=
  rioReproject c.variant G c.kind src c.srcH c.srcW buf c.S c.D c.srcNd c.dstNd

/-- `_xr_reproject_da`: `src_nodata = kw.pop("src_nodata") or src.odc.nodata`,
`dst_nodata = src_nodata` when not given. -/
def xrNodata (attrNd kwSrcNd dstNd : Option Val) : Option Val × Option Val :=
  let s := match kwSrcNd with
    | some v => some v
    | none => attrNd
  let d := match dstNd with
    | some v => some v
    | none => s
  (s, d)

/-! ### the task graph and its execution (dask contract: a task runs after its dependencies
and is a pure function of their values) -/

inductive Key where
  | src (i : TIdx)
  | dst (i : TIdx)
  deriving DecidableEq, Repr

structure Task where
  deps : List Key
  fn : List Img → Option Img

/-- layer of the source array (one getter per block) + the layer built by `_dask_rio_reproject`. -/
def graph (c : Cfg) (G : Gdal) (src : Img) : Key → Option Task
  | .src i => (srcBlock src c.sy c.sx i).map fun b => ⟨[], fun _ => some b⟩
  | .dst i =>
    if i.1 < c.dy.length ∧ i.2 < c.dx.length
    then some ⟨(lookupDeps c.deps i).map Key.src, dstTask c G i⟩ else none

abbrev Store := List (Key × Img)

/-- run one task: all dependency values must already be in the store. -/
def runTask (g : Key → Option Task) (st : Store) (k : Key) : Option Store := do
  let t ← g k
  let args ← mapOpt (fun d => st.lookup d) t.deps
  let v ← t.fn args
  pure ((k, v) :: st)

/-- run tasks in the given order. -/
def runOrder (g : Key → Option Task) : List Key → Store → Option Store
  | [], st => some st
  | k :: r, st => do
    let st' ← runTask g st k
    runOrder g r st'

/-! ### notions used by the theorem statements -/

/-- the spans tile `[a, b)` contiguously, in order (what `VariableSizedTiles` / `Tiles` produce) -/
def Chain : Int → List Span → Int → Prop
  | a, [], b => a = b
  | a, s :: r, b => s.1 = a ∧ s.1 ≤ s.2 ∧ Chain s.2 r b

/-- a well-formed array of shape `h × w`: defined exactly on `[0,h) × [0,w)` -/
def WF (img : Img) (h w : Int) : Prop :=
  ∀ p, (img p).isSome ↔ (0 ≤ p.1 ∧ p.1 < h ∧ 0 ≤ p.2 ∧ p.2 < w)

/-- pixel coordinate `p` lies in tile `i` of the tiling -/
def InTile (t : List Span) (i : Nat) (p : Int) : Prop :=
  ∃ s, t[i]? = some s ∧ s.1 ≤ p ∧ p < s.2

/-- every dependency names an existing source block -/
def DepsValid (c : Cfg) : Prop :=
  ∀ idx, ∀ i ∈ lookupDeps c.deps idx, i.1 < c.sy.length ∧ i.2 < c.sx.length

/-- Dependency completeness (the statement of C12's `linear_deps_complete` at pixel level):
whenever a pixel of destination tile `(iy, ix)` samples source pixel `s`, the source tile holding
`s` is listed for `(iy, ix)`. -/
def deps_complete (c : Cfg) : Prop :=
  ∀ (iy ix : Nat) (d : Int × Int), InTile c.dy iy d.1 → InTile c.dx ix d.2 →
    ∀ s, samplePix (c.S.inv * c.D) c.srcH c.srcW d = some s →
      ∃ i ∈ lookupDeps c.deps (iy, ix), InTile c.sy i.1 s.1 ∧ InTile c.sx i.2 s.2

/-- nodata values of a boolean raster are booleans (`dtype.type(nodata)`) -/
def NodataOk (k : DKind) (nd : Option Val) : Prop :=
  k = .bool → ∀ v, nd = some v → v = .num 0 ∨ v = .num 1

/-- what each key of the graph denotes, independent of any execution -/
def denote (c : Cfg) (G : Gdal) (src : Img) : Key → Option Img
  | .src i => srcBlock src c.sy c.sx i
  | .dst i => dstBlock c G src i

/-- `k` may run once the keys in `done` have run: it is a key of the graph and its dependencies
are done -/
def Ready (c : Cfg) (done : List Key) : Key → Prop
  | .src i => i.1 < c.sy.length ∧ i.2 < c.sx.length
  | .dst i => i.1 < c.dy.length ∧ i.2 < c.dx.length ∧
      ∀ j ∈ lookupDeps c.deps i, Key.src j ∈ done

/-- a schedule in which every task runs after its dependencies (any topological order of any
subset of the graph closed under dependencies; repetitions allowed) -/
def ValidOrder (c : Cfg) : List Key → List Key → Prop
  | _, [] => True
  | done, k :: r => Ready c done k ∧ ValidOrder c (k :: done) r

end OdcGeo.C13
