/- Model for C13 (core Lean only, no Mathlib). -/
import OdcGeo.Model.IO
namespace OdcGeo.C13

end OdcGeo.C13
