/- Model for C12 (core Lean only, no Mathlib). -/
import OdcGeo.Model.IO
namespace OdcGeo.C12

end OdcGeo.C12
