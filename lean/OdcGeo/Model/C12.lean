/-
Model for C12 (core Lean only, no Mathlib): tile queries and tile dependency graphs of
`GeoboxTiles` (`odc/geo/geobox.py:1397-1507`), on top of the tilings of `Model/C04`.

Pixel coordinates are exact rationals.  Geometry predicates of shapely (`disjoint`) and the
reprojected footprints of the general path are parameters.
-/
import OdcGeo.Model.IO
import OdcGeo.Model.Affine
import OdcGeo.Model.C04
namespace OdcGeo.C12
open OdcGeo OdcGeo.C17 OdcGeo.C04

/-- a `BoundingBox` without CRS: `(left, bottom, right, top)` in pixel space -/
structure BBox where
  x1 : Rat
  y1 : Rat
  x2 : Rat
  y2 : Rat
  deriving Repr

/-- a tiled linear GeoBox: image shape and tiling (the CRS plays no role in pixel space) -/
structure GBT where
  ny : Int
  nx : Int
  tiles : Tiling2

/-- `math.clamp(x, lo, up)` (`assert lo <= up`) -/
def clamp (x lo up : Int) : Res Int :=
  if lo ≤ up then .ok (if x < lo then lo else if x > up then up else x)
  else .error .assertion

/-- `range_from_bbox._clamp(span, N)`: first and last pixel touched by the span, clamped to
the image -/
def clampSpan (a1 a2 : Rat) (N : Int) : Res (Int × Int) := do
  let p ← clamp a1.floor 0 (N - 1)
  let q ← clamp a2.ceil 1 N
  return (p, q - 1)

/-- `GeoboxTiles.range_from_bbox(bbox)` for a pixel-space box: inclusive tile ranges
`((r1, r2), (c1, c2))` standing for `range(r1, r2 + 1), range(c1, c2 + 1)`. -/
def rangeFromBBox (g : GBT) (b : BBox) : Res ((Int × Int) × (Int × Int)) := do
  let (px1, px2) ← clampSpan b.x1 b.x2 g.nx
  let (py1, py2) ← clampSpan b.y1 b.y2 g.ny
  let (r1, c1) ← locate2 g.tiles py1 px1
  let (r2, c2) ← locate2 g.tiles py2 px2
  return ((r1, r2), (c1, c2))

/-- `range(a, b + 1)` -/
def irange (a b : Int) : List Int :=
  (List.range (b + 1 - a).toNat).map fun (k : Nat) => a + (k : Int)

/-- `itertools.product(yy, xx)` -/
def product (yy xx : List Int) : List (Int × Int) :=
  yy.flatMap fun y => xx.map fun x => (y, x)

/-- candidate tiles of a box: `itertools.product(*range_from_bbox(bbox))` -/
def candidates (g : GBT) (b : BBox) : Res (List (Int × Int)) := do
  let ((r1, r2), (c1, c2)) ← rangeFromBBox g b
  return product (irange r1 r2) (irange c1 c2)

/-- `GeoboxTiles._tiles_from_pix_bbox(bbox)` (as repaired: a box without overlap with the
image yields nothing instead of the clamped edge tiles). -/
def tilesFromPixBBox (g : GBT) (b : BBox) : Res (List (Int × Int)) :=
  if b.x2 ≤ 0 ∨ b.x1 ≥ g.nx ∨ b.y2 ≤ 0 ∨ b.y1 ≥ g.ny then .ok []
  else candidates g b

/-- `GeoboxTiles.tiles(geometry)`: candidates from the bounding box (already in pixel space),
kept when shapely says the tile's footprint is not disjoint from the query. -/
def tilesGeom (g : GBT) (b : BBox) (disjoint : Int × Int → Bool) : Res (List (Int × Int)) := do
  let c ← candidates g b
  return c.filter fun idx => !disjoint idx

/-! ### the linear path  (geobox.py:1448-1477; math.py:39-102, 340-380) -/

def rabs (x : Rat) : Rat := if x < 0 then -x else x

/-- `split_float(x)` for finite `x`: `(whole, part)` with `part ∈ [-1/2, 1/2]`, `fmod` rounds
towards zero. -/
def splitFloat (x : Rat) : Rat × Rat :=
  let t : Rat := if x < 0 then -((-x).floor : Int) else (x.floor : Int)   -- trunc(x)
  let part := x - t
  if part > 1 / 2 then (t + 1, part - 1)
  else if part < -(1 / 2) then (t - 1, part + 1)
  else (t, part)

/-- `maybe_int(x, tol)`; the flag says whether snapping happened (`int` returned) -/
def maybeInt (x tol : Rat) : Rat × Bool :=
  let (w, p) := splitFloat x
  if rabs p < tol then (w, true) else (x, false)

/-- `snap_scale(s, tol)` -/
def snapScale (s tol : Rat) : Rat :=
  if rabs s ≥ 1 - tol then (maybeInt s tol).1
  else if rabs s < tol then s
  else
    let r := maybeInt (1 / s) tol
    if r.2 then 1 / r.1 else s

/-- `snap_affine(A, ttol, stol, tol)` -/
def snapAffine (A : Aff) (ttol stol tol : Rat) : Aff :=
  if rabs A.b > tol ∨ rabs A.d > tol then A
  else ⟨snapScale A.a stol, 0, (maybeInt A.c ttol).1, 0, snapScale A.e stol, (maybeInt A.f ttol).1⟩

/-- `_check_linear` for two linear GeoBoxes of the same CRS: `A` maps destination pixels to
source pixels; `none` sends `grid_intersect` to the general path.
`tols = (ttol, stol, tol, st_tol)` are the doubles `1e-3, 1e-6, 1e-8, 1e-10`. -/
def checkLinear (srcT dstT : Aff) (ttol stol tol sttol : Rat) : Res (Option Aff) := do
  let inv ← srcT.inv?
  let A := snapAffine (inv * dstT) ttol stol tol
  return if rabs A.b < sttol ∧ rabs A.d < sttol then some A else none

def min4 (a b c d : Rat) : Rat := min (min a b) (min c d)
def max4 (a b c d : Rat) : Rat := max (max a b) (max c d)

/-- `BoundingBox.transform(A)`: bounding box of the four mapped corners -/
def BBox.transform (b : BBox) (A : Aff) : BBox :=
  let p1 := A.apply (b.x1, b.y1)
  let p2 := A.apply (b.x1, b.y2)
  let p3 := A.apply (b.x2, b.y1)
  let p4 := A.apply (b.x2, b.y2)
  ⟨min4 p1.1 p2.1 p3.1 p4.1, min4 p1.2 p2.2 p3.2 p4.2,
   max4 p1.1 p2.1 p3.1 p4.1, max4 p1.2 p2.2 p3.2 p4.2⟩

/-- `BoundingBox.round()`: expand to integers -/
def BBox.round (b : BBox) : BBox :=
  ⟨(b.x1.floor : Int), (b.y1.floor : Int), (b.x2.ceil : Int), (b.y2.ceil : Int)⟩

/-- `GeoboxTiles.pix_bbox(idx)` -/
def pixBBox (g : GBT) (idx : Int × Int) : Res BBox := do
  let (ry, rx) ← getItem2 g.tiles (.idx idx.1) (.idx idx.2)
  return ⟨(rx.start : Int), (ry.start : Int), (rx.stop : Int), (ry.stop : Int)⟩

/-- `_all_tiles()`: `np.ndindex(shape)` -/
def allTiles (g : GBT) : List (Int × Int) :=
  product (irange 0 (g.tiles.y.count - 1)) (irange 0 (g.tiles.x.count - 1))

/-- dependencies of one destination tile on the linear path -/
def linearDeps (dst src : GBT) (A : Aff) (idx : Int × Int) : Res (List (Int × Int)) := do
  let b ← pixBBox dst idx
  tilesFromPixBBox src ((b.transform A).round)

/-- `_grid_intersect_linear(src, A)` -/
def gridIntersectLinear (dst src : GBT) (A : Aff) : Res (List ((Int × Int) × List (Int × Int))) :=
  (allTiles dst).mapM fun idx => do
    let d ← linearDeps dst src A idx
    return (idx, d)

/-! ### the general path  (geobox.py:1492-1507): control flow only

`dstCand` / `dstDisjoint`: candidate destination tiles for the (reprojected) source footprint
and shapely's verdict; `srcCand d` / `srcDisjoint d`: the same for the source tiles queried
with the extent of destination tile `d`. -/
def gridIntersectGeneral (dstCand : List (Int × Int)) (dstDisjoint : Int × Int → Bool)
    (srcCand : Int × Int → List (Int × Int)) (srcDisjoint : Int × Int → Int × Int → Bool) :
    List ((Int × Int) × List (Int × Int)) :=
  (dstCand.filter fun d => !dstDisjoint d).map fun d =>
    (d, (srcCand d).filter fun s => !srcDisjoint d s)

/-! ### world-space boxes  (geobox.py:1411-1418, 377-395)

`range_from_bbox` / `tiles` given a box *with* CRS first bring it to pixel space:
`self._gbox.project(bbox.polygon).boundingbox` – the four corners of the box go through the
CRS transformation (`proj`, pyproj; the identity when the CRSs agree) and through `~affine`, and
the bounding box of the four images is taken. -/

/-- corners of a box, as `BoundingBox.polygon` / `.points` give them -/
def BBox.corners (b : BBox) : List (Rat × Rat) :=
  [(b.x1, b.y1), (b.x1, b.y2), (b.x2, b.y1), (b.x2, b.y2)]

/-- bounding box of the images of the four corners under an arbitrary map -/
def BBox.mapCorners (b : BBox) (f : Rat × Rat → Rat × Rat) : BBox :=
  let p1 := f (b.x1, b.y1)
  let p2 := f (b.x1, b.y2)
  let p3 := f (b.x2, b.y1)
  let p4 := f (b.x2, b.y2)
  ⟨min4 p1.1 p2.1 p3.1 p4.1, min4 p1.2 p2.2 p3.2 p4.2,
   max4 p1.1 p2.1 p3.1 p4.1, max4 p1.2 p2.2 p3.2 p4.2⟩

/-- `GeoBox.project(bbox.polygon).boundingbox`: `W` is the pixel-to-world affine of the raster,
`proj` the CRS transformation of the box's CRS into the raster's (identity for the same CRS);
a degenerate affine raises. -/
def projectBBox (W : Aff) (proj : Rat × Rat → Rat × Rat) (b : BBox) : Res BBox := do
  let inv ← W.inv?
  return b.mapCorners fun p => inv.apply (proj p)

/-- `range_from_bbox(bbox)` for a box carrying a CRS -/
def rangeFromBBoxWorld (g : GBT) (W : Aff) (proj : Rat × Rat → Rat × Rat) (b : BBox) :
    Res ((Int × Int) × (Int × Int)) := do
  let pb ← projectBBox W proj b
  rangeFromBBox g pb

/-- candidates of `tiles(query)` for a query with bounding box `b` (in the raster's CRS after
`poly.to_crs`, so `proj` is the identity there) -/
def candidatesWorld (g : GBT) (W : Aff) (proj : Rat × Rat → Rat × Rat) (b : BBox) :
    Res (List (Int × Int)) := do
  let pb ← projectBBox W proj b
  candidates g pb

/-- `GeoboxTiles.tiles(geometry)` in world space: `range ∩ not-disjoint` -/
def tilesGeomWorld (g : GBT) (W : Aff) (b : BBox) (disjoint : Int × Int → Bool) :
    Res (List (Int × Int)) := do
  let c ← candidatesWorld g W id b
  return c.filter fun idx => !disjoint idx

/-! ### the general path with its candidate ranges  (geobox.py:1507-1526)

`fp` is the bounding box (destination pixel space) of the source footprint handed to
`self.tiles`, `ext d` the bounding box (source pixel space) of the extent of destination tile
`d` handed to `src.tiles`; shapely's verdicts are parameters. -/
def gridIntersectGeneralR (dst src : GBT) (fp : BBox) (dstDisjoint : Int × Int → Bool)
    (ext : Int × Int → BBox) (srcDisjoint : Int × Int → Int × Int → Bool) :
    Res (List ((Int × Int) × List (Int × Int))) := do
  let dc ← candidates dst fp
  (dc.filter fun d => !dstDisjoint d).mapM fun d => do
    let sc ← candidates src (ext d)
    return (d, sc.filter fun s => !srcDisjoint d s)

end OdcGeo.C12
