/-
Model for C19, final increment (core Lean only): `CRS.dimensions` and `CRS.units`
(crs.py:183-228, after `fix: CRS.units of polar CRSs (both axes pointing north or south) names
both axis units`).  pyproj's `is_geographic` / `is_projected` / `axis_info` are parameters.
-/
import OdcGeo.Model.IO
namespace OdcGeo.C19

inductive CrsKind where
  | geographic | projected | other
  deriving DecidableEq, Repr

/-- one entry of `pyproj.CRS.axis_info` as far as `units` looks at it -/
structure Axis where
  dir : String
  abbr : String
  uname : String
  deriving DecidableEq, Repr

/-- `CRS.dimensions` -/
def dimensionsOf : CrsKind → Res (String × String)
  | .geographic => .ok ("latitude", "longitude")
  | .projected => .ok ("y", "x")
  | .other => .error .valueError

/-- `_dir_renames.get(ax.direction, ax.direction)` -/
def dirName (d : String) : String :=
  if d = "north" ∨ d = "south" then "y" else if d = "east" ∨ d = "west" then "x" else d

/-- `_abbrev_renames.get(str(ax.abbr).upper())` -/
def abbrevName (a : String) : Option String :=
  let u := a.toUpper
  if u = "E" ∨ u = "X" then some "x" else if u = "N" ∨ u = "Y" then some "y" else none

/-- `d.get(k)` of the dict built from the pairs in order (a later pair overwrites an earlier one) -/
def getLast (k : String) : List (String × String) → Option String
  | [] => none
  | (k', v) :: t =>
    match getLast k t with
    | some r => some r
    | none => if k' = k then some v else none

/-- the dict `units` of crs.py as an association list -/
def unitsDict (axes : List Axis) : List (String × String) :=
  let byDir := axes.map (fun a => (dirName a.dir, a.uname))
  if ((getLast "x" byDir).isNone || (getLast "y" byDir).isNone) && decide (2 ≤ axes.length) then
    match axes with
    | a0 :: a1 :: _ =>
      -- polar CRSs: go by the abbreviation, else by position (x first)
      let n0 := abbrevName a0.abbr
      let n1 := abbrevName a1.abbr
      if (n0 = some "x" ∧ n1 = some "y") ∨ (n0 = some "y" ∧ n1 = some "x") then
        [(n0.getD "x", a0.uname), (n1.getD "y", a1.uname)]
      else [("x", a0.uname), ("y", a1.uname)]
    | _ => byDir
  else byDir

/-- `CRS.units`: `(units.get("y", ""), units.get("x", ""))` -/
def unitsOf (k : CrsKind) (axes : List Axis) : Res (String × String) :=
  match k with
  | .geographic => .ok ("degrees_north", "degrees_east")
  | .projected => .ok (((getLast "y" (unitsDict axes)).getD ""), ((getLast "x" (unitsDict axes)).getD ""))
  | .other => .error .valueError

end OdcGeo.C19
