/-
Model of the dtype / fill-value glue of `BlockAssembler` (`odc/geo/_blocks.py`, core Lean only):

* `__init__`: `self._dtype` – `float32` without blocks, else `_find_common_type([b.dtype …], [])`;
* `_find_common_type(array_types, scalar_types)` (`_blocks.py:16-30`): numpy promotion of the
  arrays; scalars only upgrade the result when they are of a *higher kind* (`"buifc"`);
* `extract(fill_value, dtype=…)` (`_blocks.py:136-147`): an explicit `dtype` wins; otherwise the
  assembler's dtype, possibly upgraded by `np.min_scalar_type(fill_value)`; the default fill is
  `nan` for floating dtypes and `0` otherwise.

numpy's own rules are *reference semantics* (not odc-geo code), validated against numpy on every
run (ops `dt rt`, `dt cast`, `dt min`): `resultTypeL` = `np.result_type(*dtypes)`,
`safeCast` = `np.can_cast(a, b, "safe")`, `minScalarInt/Float` = `np.min_scalar_type(v)`.
Dtypes are the numeric ones: bool, (u)int8…64, float16/32/64, complex64/128.
-/
import OdcGeo.Model.IO
namespace OdcGeo.C04

/-- numpy kinds in the order of `kinds = "buifc"` -/
inductive Kind where
  | b | u | i | f | c
  deriving DecidableEq, Repr

def Kind.rank : Kind → Nat
  | .b => 0 | .u => 1 | .i => 2 | .f => 3 | .c => 4

/-- a numeric dtype: kind and item size in bits (`bool` has 8) -/
structure DT where
  kind : Kind
  bits : Nat
  deriving DecidableEq, Repr

def DT.bool : DT := ⟨.b, 8⟩
def DT.f32 : DT := ⟨.f, 32⟩

/-- the 14 numeric dtypes of numpy -/
def DT.all : List DT :=
  [⟨.b, 8⟩, ⟨.u, 8⟩, ⟨.u, 16⟩, ⟨.u, 32⟩, ⟨.u, 64⟩, ⟨.i, 8⟩, ⟨.i, 16⟩, ⟨.i, 32⟩, ⟨.i, 64⟩,
   ⟨.f, 16⟩, ⟨.f, 32⟩, ⟨.f, 64⟩, ⟨.c, 64⟩, ⟨.c, 128⟩]

/-! ### reference semantics of numpy promotion -/

/-- bits of the smallest float that numpy promotes `d` to (0 for bool: it never widens a float) -/
def floatNeed (d : DT) : Nat :=
  match d.kind with
  | .b => 0
  | .u | .i => if d.bits ≤ 8 then 16 else if d.bits ≤ 16 then 32 else 64
  | .f => d.bits
  | .c => d.bits / 2

/-- bits of the smallest signed int that holds every value of `d` (`b`, `u`, `i` only) -/
def intNeed (d : DT) : Nat :=
  match d.kind with
  | .b => 8
  | .u => 2 * d.bits
  | .i => d.bits
  | _ => 0

/-- bits `d` contributes to an unsigned result -/
def uintNeed (d : DT) : Nat := if d.kind = .u then d.bits else 8

/-- bits `d` contributes to a complex result -/
def complexNeed (d : DT) : Nat := if d.kind = .c then d.bits else 2 * max 32 (floatNeed d)

def maxOf (f : DT → Nat) : List DT → Nat
  | [] => 0
  | d :: ds => max (f d) (maxOf f ds)

/-- `np.result_type(*dtypes)` for numeric dtypes: the highest kind present decides the kind, every
member contributes the size it needs in that kind (this is not the left fold of the pairwise
promotion: `result_type(uint8, int8, float16)` is `float16`). -/
def resultTypeL (l : List DT) : DT :=
  let K := maxOf (·.kind.rank) l
  if K = 0 then ⟨.b, 8⟩
  else if K = 1 then ⟨.u, maxOf uintNeed l⟩
  else if K = 2 then (if maxOf intNeed l > 64 then ⟨.f, 64⟩ else ⟨.i, maxOf intNeed l⟩)
  else if K = 3 then ⟨.f, maxOf floatNeed l⟩
  else ⟨.c, maxOf complexNeed l⟩

/-- `np.can_cast(a, b, "safe")` -/
def safeCast (a b : DT) : Bool :=
  match a.kind, b.kind with
  | .b, _ => true
  | .u, .u => a.bits ≤ b.bits
  | .u, .i => 2 * a.bits ≤ b.bits
  | .i, .i => a.bits ≤ b.bits
  | .u, .f | .i, .f | .f, .f => floatNeed a ≤ b.bits
  | .u, .c | .i, .c | .f, .c => 2 * max 32 (floatNeed a) ≤ b.bits
  | .c, .c => a.bits ≤ b.bits
  | _, _ => false

/-- `np.min_scalar_type(v)` for a Python int (beyond `uint64` / `int64` numpy answers `object`:
outside the model, `none`) -/
def minScalarInt (v : Int) : Option DT :=
  if 0 ≤ v then
    if v < 2 ^ 8 then some ⟨.u, 8⟩ else if v < 2 ^ 16 then some ⟨.u, 16⟩
    else if v < 2 ^ 32 then some ⟨.u, 32⟩ else if v < 2 ^ 64 then some ⟨.u, 64⟩ else none
  else
    if -(2 ^ 7) ≤ v then some ⟨.i, 8⟩ else if -(2 ^ 15) ≤ v then some ⟨.i, 16⟩
    else if -(2 ^ 31) ≤ v then some ⟨.i, 32⟩ else if -(2 ^ 63) ≤ v then some ⟨.i, 64⟩ else none

/-- a Python float: finite (its exact value) or `nan` / `±inf` -/
inductive PyFloat where
  | fin (x : Rat)
  | nonfinite
  deriving Repr

/-- `np.min_scalar_type(v)` for a Python float: `|v| < 65000` → half, `|v| < 3.4e38` (the double) →
single, else double; `nan` / `inf` → half -/
def minScalarFloat : PyFloat → DT
  | .nonfinite => ⟨.f, 16⟩
  | .fin x =>
    if -65000 < x ∧ x < 65000 then ⟨.f, 16⟩
    else if -339999999999999996123846586046231871488 < x ∧ x < 339999999999999996123846586046231871488 then ⟨.f, 32⟩
    else ⟨.f, 64⟩

/-! ### odc-geo's glue -/

/-- `_find_common_type(array_types, scalar_types)` for numeric dtypes (`array_types` non-empty) -/
def findCommonType (arrays scalars : List DT) : DT :=
  let a := resultTypeL arrays
  match scalars with
  | [] => a
  | _ =>
    let s := resultTypeL scalars
    if s.kind.rank > a.kind.rank then resultTypeL [a, s] else a

/-- `BlockAssembler.__init__`: `self._dtype` from the dtypes of `blocks.values()` -/
def assemblerDtype (blocks : List DT) : DT :=
  match blocks with
  | [] => DT.f32
  | _ => findCommonType blocks []

/-- the `fill_value` argument of `extract` -/
inductive FillArg where
  | none
  | bool (v : Bool)
  | int (v : Int)
  | float (v : PyFloat)
  deriving Repr

/-- `np.min_scalar_type(fill_value)` (`none`: no fill given, or a Python int beyond 64 bits) -/
def fillMinType : FillArg → Option DT
  | .none => none
  | .bool _ => some DT.bool
  | .int v => minScalarInt v
  | .float v => some (minScalarFloat v)

/-- the dtype `extract(fill_value, dtype=dtype)` allocates -/
def extractDtype (self : DT) (dtypeArg : Option DT) (fillMin : Option DT) : DT :=
  match dtypeArg with
  | some d => d
  | none =>
    match fillMin with
    | none => self
    | some m => findCommonType [self] [m]

/-- reference semantics of numpy 2 (NEP 50): `np.full(shape, v, dtype=d)` raises `OverflowError` for a
Python int `v` (not a bool) outside the range of an integer dtype `d` (for a `bool` dtype: outside
`int64`); every other combination is converted (floats are truncated into ints, large floats become `inf`, anything non-zero is `True`) -/
def fullRaises (d : DT) (fill : FillArg) : Bool :=
  match fill with
  | .int v =>
    match d.kind with
    | .u => decide (v < 0 ∨ 2 ^ d.bits ≤ v)
    | .i => decide (v < -(2 ^ (d.bits - 1)) ∨ 2 ^ (d.bits - 1) ≤ v)
    -- a bool window converts the int through a C `long long` first
    | .b => decide (v < -(2 ^ 63) ∨ 2 ^ 63 ≤ v)
    | _ => false
  | _ => false

/-- `extract(fill_value, dtype=dtype)` up to the allocation `np.full(roi_shape, fill_value, dtype)`:
the dtype of the result, or numpy's refusal of an out-of-range integer fill -/
def extractAlloc (blocks : List DT) (dtypeArg : Option DT) (fill : FillArg) : Except Unit DT :=
  let d := extractDtype (assemblerDtype blocks) dtypeArg (fillMinType fill)
  if fullRaises d fill then .error () else .ok d

/-- the `casting=` argument of `extract` (numpy casting rules; `anyCast` is numpy's least restrictive rule) -/
inductive Casting where
  | no | equiv | safe | sameKind | anyCast
  deriving DecidableEq, Repr

/-- reference semantics: `np.can_cast(a, b, rule)` for native numeric dtypes (`no` / `equiv`: identical
dtypes; `same_kind`: safe, or not towards a lower kind in `"buifc"`) -/
def canCast (r : Casting) (a b : DT) : Bool :=
  match r with
  | .no | .equiv => a == b
  | .safe => safeCast a b
  | .sameKind => safeCast a b || decide (a.kind.rank ≤ b.kind.rank)
  | .anyCast => true

/-- why `extract` raised -/
inductive XErr where
  | overflow    -- `np.full`: Python-int fill outside an integer dtype
  | typeError   -- `np.copyto(..., casting=casting)`: a block cannot be cast to the window's dtype
  deriving DecidableEq, Repr

/-- `extract(fill_value, dtype=dtype, casting=casting)` as far as dtypes go: `np.full`, then
`np.copyto(xx[d_roi], block[s_roi], casting=casting)` for EVERY block of the mapping – numpy checks the
rule before looking at the (possibly empty) slices, so a block outside the window refuses just the same -/
def extractFull (blocks : List DT) (dtypeArg : Option DT) (fill : FillArg) (c : Casting) : Except XErr DT :=
  match extractAlloc blocks dtypeArg fill with
  | .error _ => .error .overflow
  | .ok d => if blocks.all (fun a => canCast c a d) then .ok d else .error .typeError

/-- reference semantics of `ndarray.astype` / `np.copyto(casting="same_kind" | "unsafe")` on INTEGER
values (validated against numpy, op `dt castv`): an integer target wraps around (two's complement),
`bool` is the non-zero test; float / complex targets round and are not modelled (`none`) -/
def castInt (d : DT) (v : Int) : Option Int :=
  match d.kind with
  | .u => some (v % 2 ^ d.bits)
  | .i => some ((v + 2 ^ (d.bits - 1)) % 2 ^ d.bits - 2 ^ (d.bits - 1))
  | .b => some (if v = 0 then 0 else 1)
  | _ => none

/-- the value written where no block is present -/
inductive FillV where
  | nan | zero | given
  deriving DecidableEq, Repr

/-- `fill_value = dtype.type("nan" if np.issubdtype(dtype, np.floating) else 0)` when no fill is
given (complex dtypes are not `np.floating`: they get 0) -/
def effFill (d : DT) (given : Bool) : FillV :=
  if given then .given else if d.kind = .f then .nan else .zero

end OdcGeo.C04
