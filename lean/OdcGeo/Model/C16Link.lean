/-
C16 ∘ C02 — the set operations of C16 composed with the GeoBox views of the C02 model
(`gbox[roi]`, neighbours, flips), read-only import of `OdcGeo.Model.C02` (core Lean only).

The two models use their own GeoBox record (C02: CRS tag `Nat`, `0` = no CRS; C16: `Option Nat`);
`toC02` / `ofC02` convert, the CRS tag is passed through untouched.
-/
import OdcGeo.Model.C16
import OdcGeo.Model.C02
namespace OdcGeo.C16

def toC02 (g : GeoBox) : C02.GeoBox := ⟨g.ny, g.nx, g.aff, g.crs.getD 0⟩
def ofC02 (g : C02.GeoBox) : GeoBox := ⟨g.ny, g.nx, g.A, if g.crs = 0 then none else some g.crs⟩

/-- `gbox[roi]` for a normalised ROI `numpy.s_[y0:y1, x0:x1]` (C02's `crop`, i.e. `compute_crop`) -/
def GeoBox.cropRoi (g : GeoBox) (roi : Roi) : GeoBox :=
  ofC02 (C02.crop (toC02 g)
    (.two (.slc (some roi.y0) (some roi.y1)) (.slc (some roi.x0) (some roi.x1))))

/-- `u = a | b; u[u.overlap_roi(a)]` -/
def cropUnionBack (a b : GeoBox) (tol : Rat) : Res GeoBox :=
  match a.or b with
  | .error e => .error e
  | .ok u => match u.overlapRoi a tol with
    | .error e => .error e
    | .ok roi => .ok (u.cropRoi roi)

/-- `a[a.overlap_roi(b)]` -/
def cropOverlap (a b : GeoBox) (tol : Rat) : Res GeoBox :=
  match a.overlapRoi b tol with
  | .error e => .error e
  | .ok roi => .ok (a.cropRoi roi)

/-- neighbours and flips of C02 on the C16 record -/
def GeoBox.right (g : GeoBox) : GeoBox := ofC02 (C02.right (toC02 g))
def GeoBox.left (g : GeoBox) : GeoBox := ofC02 (C02.left (toC02 g))
def GeoBox.top (g : GeoBox) : GeoBox := ofC02 (C02.top (toC02 g))
def GeoBox.bottom (g : GeoBox) : GeoBox := ofC02 (C02.bottom (toC02 g))
def GeoBox.flipx (g : GeoBox) : GeoBox := ofC02 (C02.flipx (toC02 g))
def GeoBox.flipy (g : GeoBox) : GeoBox := ofC02 (C02.flipy (toC02 g))

end OdcGeo.C16
