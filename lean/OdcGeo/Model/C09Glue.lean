/-
Glue around the modelled core of C09 — the argument forms of the public registration entry points.
Core Lean only.

* `wrapXr`  – `wrap_xr(im, gbox, *, time=None, nodata=None, crs_coord_name="spatial_ref", axis=None, **attrs)`
              (_xr_interop.py:993-1048): the `axis` default, the implicit new axis for a 2-D image with a time,
              the three `assert`s on rank / shape, prefix / postfix dimensions, the forms of `time=`
              (scalar, list, DataArray), the `nodata` attribute, `crs_coord_name=None`
* `xrZeros` – `xr_zeros(geobox, dtype, *, chunks=None, time=None, crs_coord_name=…, **kw)` (1051-1093): the shape
              handed to `wrap_xr`
* `xarrayGeobox` – `_xarray_geobox` behind `register_geobox()` (975-990): first data variable with a geobox
* `odcNodata` – `ODCExtensionDa.nodata` (923-932)

xarray's own validation when the `DataArray` is constructed (a coordinate must fit the dimension it names)
is part of the assumed xarray contract and reported as `ValueError` (`CoordinateValidationError` is one).
-/
import OdcGeo.Model.C09
namespace OdcGeo.C09
open OdcGeo

/-- the `time=` argument -/
inductive TimeArg where
  /-- one `str` of that many characters (or a `datetime`: `len = none`) -/
  | scalar (len : Option Nat)
  /-- a list / array of `n` values -/
  | list (n : Nat)
  /-- an `xarray.DataArray` over dimension `time` with `n` values (used as is) -/
  | dataArray (n : Nat)
  deriving DecidableEq, Repr

structure WrapArgs where
  /-- `im.shape` -/
  imShape : List Nat
  time : Option TimeArg
  axis : Option Int
  /-- `nodata is not None` -/
  nodata : Bool
  crsName : Option String
  attrs : List String
  deriving DecidableEq, Repr

def srcShape : Src → List Nat
  | .lin g => [g.ny, g.nx]
  | .gcp g => [g.ny, g.nx]

/-- the `time` coordinate `wrap_xr` attaches, given the prefix dimensions and the size of the leading axis:
`none` = no coordinate; errors are xarray's. -/
def timeCoord (t : Option TimeArg) (hasPrefix : Bool) (n0 : Nat) : Res (Option (String × Coord)) :=
  match t with
  | none => .ok none
  | some (.dataArray n) =>
    -- a coordinate over dimension `time`: the array must have that dimension, of that size
    if hasPrefix ∧ n = n0 then .ok (some ("time", .other n)) else .error .valueError
  | some (.scalar _) =>
    -- `[time]` when there is a time axis, else a 0-d coordinate
    if hasPrefix then (if n0 = 1 then .ok (some ("time", .other 1)) else .error .valueError)
    else .ok (some ("time", .scalar))
  | some (.list n) =>
    -- `DataArray(time, dims=prefix_dims)`
    if hasPrefix then (if n = n0 then .ok (some ("time", .other n)) else .error .valueError)
    else .error .valueError

/-- `axis` after its default: `1 if time is not None else 0` -/
def wrapAxis (w : WrapArgs) : Int := w.axis.getD (if w.time.isSome then 1 else 0)

/-- `im.shape` after `if im.ndim == 2 and axis == 1: im = im[numpy.newaxis, ...]` -/
def wrapShape (w : WrapArgs) : List Nat :=
  if w.imShape.length = 2 ∧ wrapAxis w = 1 then 1 :: w.imShape else w.imShape

/-- the body of `wrap_xr` from the three `assert`s on -/
def wrapXrCore (s : Src) (w : WrapArgs) (axis : Int) (shape : List Nat) : Res XArr :=
  if ¬ (axis = 0 ∨ axis = 1) then .error .assertion
  else if ¬ ((shape.length : Int) - axis - 2 = 0 ∨ (shape.length : Int) - axis - 2 = 1) then .error .assertion
  else if (shape.drop axis.toNat).take 2 ≠ srcShape s then .error .assertion
  else
    let pre := if axis = 1 then ["time"] else []
    let post := if (shape.length : Int) - axis - 2 = 1 then ["band"] else []
    let csRes : Res (List (String × Coord)) := match w.crsName with
      | some cn => xrCoords s cn
      | none => (xrCoords s "spatial_ref").map fun cs =>
          cs.filter (fun kc => match kc.2 with | .crs _ => false | _ => true)
    match csRes with
    | .error e => .error e
    | .ok cs =>
      match timeCoord w.time (axis = 1) (shape.headD 0) with
      | .error e => .error e
      | .ok tc =>
        let bc := if (shape.length : Int) - axis - 2 = 1 then [("band", Coord.other (shape.getLastD 0))] else []
        let attrs := if w.nodata then "nodata" :: w.attrs.filter (· ≠ "nodata") else w.attrs
        .ok ⟨pre ++ [(srcDims s).1, (srcDims s).2] ++ post, cs ++ tc.toList ++ bc, w.crsName, attrs⟩

/-- `wrap_xr` -/
def wrapXr (s : Src) (w : WrapArgs) : Res XArr := wrapXrCore s w (wrapAxis w) (wrapShape w)

/-- `len(time)` as `xr_zeros` takes it: of a `str` its number of characters (a `datetime` has no `len`:
`TypeError`, reported as `RuntimeError` and not exercised) -/
def timeLen : TimeArg → Res Nat
  | .scalar (some n) => .ok n
  | .scalar none => .error .runtimeError
  | .list n => .ok n
  | .dataArray n => .ok n

/-- `xr_zeros(geobox, time=…, crs_coord_name=…, nodata=…, **attrs)` -/
def xrZeros (s : Src) (time : Option TimeArg) (crsName : Option String) (nodata : Bool) (attrs : List String) :
    Res XArr :=
  match time with
  | none => wrapXr s ⟨srcShape s, none, none, nodata, crsName, attrs⟩
  | some t =>
    match timeLen t with
    | .error e => .error e
    | .ok n => wrapXr s ⟨n :: srcShape s, some t, none, nodata, crsName, attrs⟩

/-- `xr_zeros` as repaired on branch fix3-C09: a single time stamp (`str` or `datetime`) is wrapped into a one-element
list first, exactly as `wrap_xr` does, so the array gets one step along the time axis. -/
def xrZerosFixed (s : Src) (time : Option TimeArg) (crsName : Option String) (nodata : Bool) (attrs : List String) :
    Res XArr :=
  match time with
  | some (.scalar _) => xrZeros s (some (.list 1)) crsName nodata attrs
  | t => xrZeros s t crsName nodata attrs

/-- `_xarray_geobox(ds)` for a Dataset given as its data variables (each already carrying the Dataset's
coordinates): the geobox of the first variable that has one -/
def xarrayGeobox : List (String × XArr) → Res Recovered
  | [] => .ok .nothing
  | (_, v) :: rest =>
    match recover v with
    | .error e => .error e
    | .ok .nothing => xarrayGeobox rest
    | .ok r => .ok r

/-- an attribute value as `.odc.nodata` reads it -/
inductive AttrNum where
  | absent
  /-- present with value `None` -/
  | none
  | num (v : Rat)
  deriving DecidableEq, Repr

/-- `ODCExtensionDa.nodata`: `nodata`, else `_FillValue`, skipping `None` values -/
def odcNodata (nodata fill : AttrNum) : Option Rat :=
  match nodata with
  | .num v => some v
  | _ => match fill with
    | .num v => some v
    | _ => none

/-! ### recovery paths outside `wrap_xr`'s own output: missing axis coordinates, CRS in attributes, `grid_mapping` attribute -/

/-- `_locate_crs_coords`: `encoding["grid_mapping"]` first, then `attrs["grid_mapping"]` (429-431) -/
def gridMappingOf (enc attr : Option String) : Option String :=
  match enc with
  | some g => some g
  | none => attr

/-- an attribute value as `_get_crs_from_attrs._add_candidate` sees it -/
inductive CrsAttrVal where
  | absent
  /-- a `str`; `parsed`: what `CRS(text)` gives (`none`: `CRSError`, warned about and skipped) -/
  | str (parsed : Option Crs)
  /-- a `CRS` object injected directly -/
  | obj (c : Crs)
  /-- any other type (warned about and skipped) -/
  | other
  deriving DecidableEq, Repr

def CrsAttrVal.cand : CrsAttrVal → Option Crs
  | .str p => p
  | .obj c => some c
  | _ => none

/-- `_get_crs_from_attrs` (74-129): the candidates in the order they are looked at — per attribute dictionary
`crs` then `crs_wkt`; for a DataArray its own attrs, then the attrs of each spatial coordinate that exists; for a
Dataset its attrs first, then each data variable the same way.  `dicts` is that sequence of `(crs, crs_wkt)`. -/
def crsCandidates (dicts : List (CrsAttrVal × CrsAttrVal)) : List Crs :=
  (dicts.flatMap fun d => [d.1.cand, d.2.cand]).filterMap id

/-- the result of `_get_crs_from_attrs`: the candidates form a **set**; one of them is popped.  With one distinct
candidate that is the answer; with several the choice is arbitrary (hash order) and a warning is issued:
modelled as the set itself. -/
def crsFromAttrs (dicts : List (CrsAttrVal × CrsAttrVal)) : List Crs := (crsCandidates dicts).eraseDups

/-- `_locate_geo_info` when a spatial dimension has **no coordinate** (`_extract_transform` 493-498; sizes come
from xarray's virtual range coordinate): no labels to read the grid from, so the transform is the `GeoTransform`
of the CRS coordinate — unless that coordinate carries GCPs, or there is none. -/
def recoverNoCoords (ny nx : Nat) (ccs : List CrsCoord) (attrCrs : Option Crs) : Recovered :=
  let cc := ccs.head?
  let crs := match cc with
    | some c => c.crs
    | none => attrCrs
  match cc.bind (·.gcps) with
  | some pts => .gcp ⟨ny, nx, pts, Aff.id, crs⟩
  | none =>
    match cc.bind (·.gt) with
    | some t => .lin ⟨ny, nx, t, crs⟩
    | none => .nothing

/-- `xx.drop_vars(drop).odc.geobox` for `drop` ⊆ the two spatial coordinate names (arrays as rioxarray loads
rotated / GCP sources, or after a user dropped the labels): dimension sizes stay, labels go. -/
def recoverDropped (a : XArr) (drop : List String) : Res Recovered :=
  match spatialDims a.dims with
  | none => .ok .nothing
  | some (yd, xd) =>
    if drop.contains yd || drop.contains xd then
      match a.coords.lookup yd, a.coords.lookup xd with
      | some cy, some cx =>
        let remaining : Option Crs :=
          firstSome (if drop.contains yd then none else match cy with | .axis _ _ c => c | _ => none)
                    (if drop.contains xd then none else match cx with | .axis _ _ c => c | _ => none)
        .ok (recoverNoCoords (coordLen cy) (coordLen cx) (locateCrsCoords a) remaining)
      | _, _ => .error .runtimeError
    else recover a

end OdcGeo.C09
