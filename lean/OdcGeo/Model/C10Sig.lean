/-
The PUBLIC CALLING CONVENTION of the planning / warping entry points (public, documented functions only): parameter
order and default values, as documented and as the model's functions take them.  A caller may pass every one of these parameters positionally, so
the order is part of the behaviour (`compute_reproject_roi(src, dst, 0.25)` sets the TRANSLATION tolerance).  The
harness looks at `inspect.signature` of the real functions only to decide how densely to probe (a difference is never
a finding by itself; added optional parameters are fine) and calls the entry points through both conventions on
every run: only a behavioural difference on a concrete input is reported.  Default tolerances are the exact rationals of the Python doubles and are the very constants
the model uses (`signature_defaults_tie` in Props).
-/
import OdcGeo.Model.C03
namespace OdcGeo.C10
open OdcGeo.C03

/-- exact values of the Python doubles -/
def tol5em2 : Rat := mkRat 3602879701896397 72057594037927936          -- 0.05
def tol1em2 : Rat := mkRat 5764607523034235 576460752303423488         -- 0.01
def tol1em6 : Rat := mkRat 4722366482869645 4722366482869645213696     -- 1e-6

inductive Dflt where
  | required
  | none_            -- `None`
  | num (q : Rat)
  deriving DecidableEq, Repr

structure Param where
  name : String
  dflt : Dflt
  deriving DecidableEq, Repr

structure Sig where
  params : List Param
  kwargs : Bool        -- trailing `**kwargs`
  deriving DecidableEq, Repr

def req (n : String) : Param := ⟨n, .required⟩
def optNone (n : String) : Param := ⟨n, .none_⟩
def optNum (n : String) (q : Rat) : Param := ⟨n, .num q⟩

def signature : String → Option Sig
  | "overlap.compute_reproject_roi" =>
      some ⟨[req "src", req "dst", optNum "ttol" tol5em2, optNum "stol" tol1em3, optNone "padding", optNone "align"], false⟩
  | "overlap.box_overlap" => some ⟨[req "src_shape", req "dst_shape", req "ST"], false⟩
  | "overlap.compute_axis_overlap" => some ⟨[req "Ns", req "Nd", req "s", req "t"], false⟩
  | "overlap.get_scale_at_point" => some ⟨[req "pt", req "tr", optNone "r"], false⟩
  | "overlap.get_scale_from_linear_transform" => some ⟨[req "A"], false⟩
  | "overlap.native_pix_transform" => some ⟨[req "src", req "dst"], false⟩
  | "math.snap_affine" => some ⟨[req "A", optNum "ttol" tol1em3, optNum "stol" tol1em6, optNum "tol" tol1em8], false⟩
  | "math.snap_scale" => some ⟨[req "s", optNum "tol" tol1em6], false⟩
  | "math.is_affine_st" => some ⟨[req "A", optNum "tol" tol1em10], false⟩
  | "math.maybe_int" => some ⟨[req "x", req "tol"], false⟩
  | "math.is_almost_int" => some ⟨[req "x", req "tol"], false⟩
  | "math.split_float" => some ⟨[req "x"], false⟩
  | "math.decompose_rws" => some ⟨[req "A"], false⟩
  | "math.affine_from_pts" => some ⟨[req "X", req "Y"], false⟩
  | "warp.rio_reproject" =>
      some ⟨[req "src", req "dst", req "s_gbox", req "d_gbox", req "resampling", optNone "src_nodata", optNone "dst_nodata",
             optNone "ydim"], true⟩
  | "warp.warp_affine" =>
      some ⟨[req "src", req "dst", req "A", req "resampling", optNone "src_nodata", optNone "dst_nodata"], true⟩
  | "warp.warp_affine_rio" =>
      some ⟨[req "src", req "dst", req "A", req "resampling", optNone "src_nodata", optNone "dst_nodata"], true⟩
  | "roi.roi_from_points" => some ⟨[req "xy", req "shape", optNum "padding" 0, optNone "align"], false⟩
  | "roi.roi_boundary" => some ⟨[req "roi", optNum "pts_per_side" 2], false⟩
  | "roi.scaled_up_roi" => some ⟨[req "roi", req "scale", optNone "shape"], false⟩
  | _ => none

/-- the default of a parameter, when it is a number -/
def defaultOf (fn param : String) : Option Rat :=
  match signature fn with
  | none => none
  | some s => match s.params.find? (·.name = param) with
    | some ⟨_, .num q⟩ => some q
    | _ => none

/-- position of a parameter in the positional order -/
def positionOf (fn param : String) : Option Nat :=
  match signature fn with
  | none => none
  | some s => let i := s.params.findIdx (·.name = param); if i < s.params.length then some i else none

end OdcGeo.C10
