/- Model for C18 (core Lean only, no Mathlib). -/
import OdcGeo.Model.IO
namespace OdcGeo.C18

end OdcGeo.C18
