/-
Model for C18 (core Lean only, no Mathlib): part writers of `odc/geo/cog/_s3.py` and
`odc/geo/cog/_mpu_fs.py`.

* `Local`  – transition system of `DelayedS3Writer.__call__ / finalise` when no dask client
             exists: every thread shares one `MultiPartUpload` object and the process-wide
             `threading.Lock` of `_mpu_local_lock()`.
* `Dist`   – the cluster-coordinated branch: one `MultiPartUpload` copy per worker process,
             a `distributed.Variable` holding the upload id and a `distributed.Lock`.
* `Sink`   – `MPUFileSink.__call__ / finalise` over an abstract parts directory.
* limits   – `S3Limits` and the keyword-driven limits of `MPUFileSink`.

A *step* of a thread is: perform the one shared-state operation it is waiting at (read or
write of `mpu.uploadId`, `get_client()`, lock acquire / release, `Variable.get/set/delete`,
a storage-client call) and run the thread-local code up to the next such operation.  These
are exactly the points at which the harness' deterministic scheduler can pre-empt the real
code.  `step` is total: scheduling a thread that is blocked on the lock, or has returned or
raised, leaves the state unchanged.

Upload ids are modelled as `Nat`: `0` is the empty string, the `k`-th
`create_multipart_upload` returns id `k` (the fake S3 client of the harness returns `"id<k>"`).

Each model carries a flag selecting the code *as found* (defects F5, F17, F4 of DESIGN §5)
or *as repaired*; the driver and the `*_once` / `sink_*` / `limits_*` theorems use the
repaired code, the `*_cex` theorems the code as found.
-/
import OdcGeo.Model.IO
namespace OdcGeo.C18

/-- A call received by the storage client (most recent first in `State.calls`). -/
inductive Call where
  | create (id : Nat)              -- `create_multipart_upload` → returned `"id<id>"`
  | upload (part : Nat) (id : Nat) -- `upload_part(PartNumber=part, UploadId="id<id>")`
  | complete (id : Nat)            -- `complete_multipart_upload(UploadId="id<id>")`
  deriving DecidableEq, Repr

def Call.isCreate : Call → Bool
  | .create _ => true
  | _ => false

/-- the upload id a call carries -/
def Call.id : Call → Nat
  | .create i => i
  | .upload _ i => i
  | .complete i => i

/-- What a thread does with the shared writer. -/
inductive Kind where
  | write (part : Nat)   -- `writer(part, data)`            (_s3.py:304-306)
  | fin                  -- `writer.finalise(parts)`        (_s3.py:308-316)
  deriving DecidableEq, Repr

/-! ## Local variant (`_ensure_init`, branch `client is None`, _s3.py:262-274, and the lazy
creation of the process-wide lock, `_mpu_local_lock`, _s3.py:23-28) -/
namespace Local

/-- Program counter: the shared operation the thread performs next. -/
inductive PC where
  | start            -- `if mpu.started` (265): reads `mpu.uploadId`
  | askClient        -- `_dask_client()` (268) → `get_client()` raises ValueError → `None`
  | lockGet          -- `_mpu_local_lock`: `_state.get(k, None)` (24)
  | lockSetdefault   -- `_state.setdefault("mpu_lock", Lock())` (28), one atomic dict operation
  | acquire          -- `with <that lock>:` (271) – blocks while the lock object is held
  | recheck          -- repaired code only: `mpu.started` re-read under the lock
  | initAssert       -- `initiate`: `assert self.uploadId == ""` (111)
  | create           -- `s3.create_multipart_upload(...)` (114)
  | setId (id : Nat) -- `self.uploadId = uploadId` (116)
  | release (ok : Bool) -- leaving the `with` block; `ok = false`: AssertionError in flight
  | useAssert        -- `write_part` / `finalise`: `assert self.uploadId` (121 / 138)
  | readId           -- evaluation of `UploadId=self.uploadId` (127 / 143)
  | call (id : Nat)  -- `s3.upload_part` (122) / `s3.complete_multipart_upload` (140)
  | askClient2       -- `finalise` only: `_dask_client()` (312) → `None`
  | releaseFault     -- leaving the `with` block with an injected storage error in flight
  | done             -- returned normally
  | failed           -- raised (AssertionError)
  | faulted          -- raised the injected storage error (TransientError)
  deriving DecidableEq, Repr

/-- Lock objects are named by the thread whose `Lock()` call created them (a thread
creates at most one).  Initially `_state` holds no lock. -/
structure State where
  uploadId : Nat := 0               -- `mpu.uploadId`, `0` = `""`
  slot : Option Nat := none         -- the lock object stored in `_state["mpu_lock"]`
  mylock : Nat → Nat := fun t => t  -- the lock object `_mpu_local_lock()` returned to thread `t`
  locks : Nat → Option Nat := fun _ => none  -- holder of each lock object
  creates : Nat := 0                -- number of `create_multipart_upload` calls so far
  calls : List Call := []           -- client calls, most recent first
  pc : Nat → PC := fun _ => .start

structure Cfg where
  kind : Nat → Kind
  /-- `true`: repaired code (re-check `mpu.started` under the lock); `false`: as found (F5). -/
  recheck : Bool := true
  /-- `true`: the code as it is (`_state.setdefault`, atomic); `false`: a check-then-store
  (`_state[k] = Lock()`), kept to show what the atomicity is needed for. -/
  atomicLock : Bool := true
  /-- transient-error fault model: thread `t`'s `create_multipart_upload` call raises (nothing is
  created) / its `upload_part` or `complete_multipart_upload` call raises (nothing is recorded) -/
  faultCreate : Nat → Bool := fun _ => false
  faultCall : Nat → Bool := fun _ => false
  /-- crash point: thread `t` dies right after the service has carried out its `upload_part` /
  `complete_multipart_upload` call, before it returns the record (the task's result is lost) -/
  crashCall : Nat → Bool := fun _ => false

def State.goto (s : State) (t : Nat) (p : PC) : State :=
  { s with pc := fun i => if i = t then p else s.pc i }

def State.setMy (s : State) (t : Nat) (l : Nat) : State :=
  { s with mylock := fun i => if i = t then l else s.mylock i }

def State.setHolder (s : State) (l : Nat) (h : Option Nat) : State :=
  { s with locks := fun i => if i = l then h else s.locks i }

/-- holder of the lock object that is stored in `_state` -/
def State.held (s : State) : Option Nat :=
  match s.slot with
  | none => none
  | some l => s.locks l

def init : State := {}

/-- Start of a later attempt in the same process (a fresh `MultiPartUpload` / writer for
the object): `_state` still holds the lock object `l` an earlier attempt created. -/
def initWithLock (l : Nat) : State := { slot := some l }

/-- One atomic step of thread `t`. -/
def step (cfg : Cfg) (s : State) (t : Nat) : State :=
  match s.pc t with
  | .start => s.goto t (if s.uploadId ≠ 0 then .useAssert else .askClient)
  | .askClient => s.goto t .lockGet
  | .lockGet =>
    match s.slot with
    | some l => (s.setMy t l).goto t .acquire
    | none => s.goto t .lockSetdefault
  | .lockSetdefault =>
    match cfg.atomicLock, s.slot with
    | true, some l => (s.setMy t l).goto t .acquire
    | _, _ => ({ s with slot := some t }.setMy t t).goto t .acquire
  | .acquire =>
    match s.locks (s.mylock t) with
    | none => (s.setHolder (s.mylock t) (some t)).goto t (if cfg.recheck then .recheck else .initAssert)
    | some _ => s
  | .recheck => s.goto t (if s.uploadId ≠ 0 then .release true else .initAssert)
  | .initAssert => s.goto t (if s.uploadId = 0 then .create else .release false)
  | .create =>
    if cfg.faultCreate t then s.goto t .releaseFault
    else
      { s with creates := s.creates + 1, calls := .create (s.creates + 1) :: s.calls }.goto t
        (.setId (s.creates + 1))
  | .setId id => { s with uploadId := id }.goto t (.release true)
  | .release ok => (s.setHolder (s.mylock t) none).goto t (if ok then .useAssert else .failed)
  | .releaseFault => (s.setHolder (s.mylock t) none).goto t .faulted
  | .useAssert => s.goto t (if s.uploadId ≠ 0 then .readId else .failed)
  | .readId => s.goto t (.call s.uploadId)
  | .call id =>
    if cfg.faultCall t then s.goto t .faulted
    else if cfg.crashCall t then
      match cfg.kind t with
      | .write p => { s with calls := .upload p id :: s.calls }.goto t .faulted
      | .fin => { s with calls := .complete id :: s.calls }.goto t .faulted
    else
      match cfg.kind t with
      | .write p => { s with calls := .upload p id :: s.calls }.goto t .done
      | .fin => { s with calls := .complete id :: s.calls }.goto t .askClient2
  | .askClient2 => s.goto t .done
  | .done => s
  | .failed => s
  | .faulted => s

/-- Crash point inside the publication window: thread `t` dies right after the service has created the upload
(`create_multipart_upload` returned, 114) and before `self.uploadId = uploadId` (116); the exception leaves the
`with` block, the lock is released.  Kept outside `step`: the `*_once` theorems do not survive it
(`local_crash_before_setid_cex`). -/
def stepCrashC (crashC : Nat → Bool) (cfg : Cfg) (s : State) (t : Nat) : State :=
  match s.pc t with
  | .create =>
    if crashC t then
      ({ s with creates := s.creates + 1, calls := .create (s.creates + 1) :: s.calls }.setHolder (s.mylock t) none).goto t
        .faulted
    else step cfg s t
  | _ => step cfg s t

/-- A schedule is the list of thread ids in the order in which they are given a step. -/
def runFrom (cfg : Cfg) (s : State) (sched : List Nat) : State := sched.foldl (step cfg) s

def run (cfg : Cfg) (sched : List Nat) : State := runFrom cfg init sched

/-- the one program point between the service's answer and `self.uploadId = uploadId` -/
def inWindow : PC → Bool
  | .setId _ => true
  | _ => false

/-- An exception (KeyboardInterrupt, MemoryError, a storage error, …) ends thread `t` at ANY program point: inside
the `with` block the lock is released on the way out; nothing else changes. -/
def crash (s : State) (t : Nat) : State :=
  (if s.locks (s.mylock t) = some t then s.setHolder (s.mylock t) none else s).goto t .faulted

inductive Ev where
  | step (t : Nat)
  | crash (t : Nat)
  deriving DecidableEq, Repr

def applyEv (cfg : Cfg) (s : State) : Ev → State
  | .step t => step cfg s t
  | .crash t => crash s t

def runEv (cfg : Cfg) (s : State) (evs : List Ev) : State := evs.foldl (applyEv cfg) s

def crashesOutsideWindow (cfg : Cfg) : State → List Ev → Bool
  | _, [] => true
  | s, .step t :: rest => crashesOutsideWindow cfg (step cfg s t) rest
  | s, .crash t :: rest => !inWindow (s.pc t) && crashesOutsideWindow cfg (crash s t) rest

/-- thread `t` can make progress (its `step` is not a stutter) -/
def enabled (s : State) (t : Nat) : Bool :=
  match s.pc t with
  | .done | .failed | .faulted => false
  | .acquire => (s.locks (s.mylock t)).isNone
  | _ => true

/-- The shared operation performed at a program point, as observed by the scheduler. -/
def label (cfg : Cfg) (s : State) (t : Nat) : String :=
  match s.pc t with
  | .start | .recheck | .initAssert | .useAssert | .readId => "rd"
  | .setId _ => "wr"
  | .askClient | .askClient2 => "gc"
  | .lockGet => "sget"
  | .lockSetdefault => if cfg.atomicLock then "ssd" else "sset"
  | .acquire => if (s.locks (s.mylock t)).isNone then "acq" else "acq!"
  | .release _ | .releaseFault => "rel"
  | .create => "create"
  | .call _ => match cfg.kind t with | .write _ => "upload" | .fin => "complete"
  | .done | .failed | .faulted => "-"

end Local

/-! ## Distributed variant (`_ensure_init`, branch with a client, _s3.py:276-302) -/
namespace Dist

/-- how the `with lock:` block is being left -/
inductive After where
  | raise   -- exception in flight
  | ret     -- `return mpu` inside the block (292)
  | fall    -- fell through to `assert mpu.started or final_write` (301)
  deriving DecidableEq, Repr

inductive PC where
  | start              -- `if mpu.started` (265): reads this worker's `mpu.uploadId`
  | askClient          -- `_dask_client()` (268) → the worker's client
  | get1               -- `_safe_get(shared_state)` (279)
  | setOwn1 (id : Nat) -- `mpu.uploadId = uploadId` (283)
  | acquire            -- `with lock:` (287), `distributed.Lock`
  | get2               -- `_safe_get(shared_state)` under the lock (288)
  | setOwn2 (id : Nat) -- `mpu.uploadId = uploadId` (291)
  | initAssert         -- `initiate`: `assert self.uploadId == ""` (111)
  | create             -- `s3.create_multipart_upload` (114)
  | setId (id : Nat)   -- `self.uploadId = uploadId` (116)
  | readForVar         -- evaluation of `mpu.uploadId` in `shared_state.set(mpu.uploadId)` (299)
  | setVar (id : Nat)  -- `shared_state.set(...)` (299)
  | release (a : After)
  | endAssert          -- `assert mpu.started or final_write` (301)
  | useAssert          -- `assert self.uploadId` (121 / 138)
  | readId             -- `UploadId=self.uploadId` (127 / 143)
  | call (id : Nat)    -- `upload_part` / `complete_multipart_upload`
  | askClient2         -- `finalise`: `_dask_client()` (312) → client
  | delVar             -- `cleanup_client` → `Variable.delete()` (248)
  | releaseFault       -- leaving `with lock:` with an injected storage error in flight
  | done
  | failed
  | faulted            -- raised the injected storage error (TransientError)
  deriving DecidableEq, Repr

structure State where
  wid : Nat → Nat := fun _ => 0   -- per worker: `mpu.uploadId` of that worker's copy, `0` = `""`
  var : Option Nat := none        -- the shared Variable as seen through `_safe_get`: `None` or an id
  deleted : Bool := false         -- ghost: some `finalise` has deleted the Variable
  lock : Option Nat := none       -- holder (thread) of the distributed lock
  creates : Nat := 0
  calls : List Call := []
  pc : Nat → PC := fun _ => .start

structure Cfg where
  kind : Nat → Kind
  worker : Nat → Nat     -- worker process on which thread `t` runs
  /-- transient-error fault model, as in `Local.Cfg`; a finalise whose `complete` call raises
  does not reach `cleanup_client`: the shared variable stays in place for the retry -/
  faultCreate : Nat → Bool := fun _ => false
  faultCall : Nat → Bool := fun _ => false
  /-- `_safe_get` (222-226) swallows every exception of `Variable.get(timeout=0.1)`: thread `t`'s FIRST
  read (280, outside the lock) times out although the variable may be set, and yields `None` -/
  spurGet1 : Nat → Bool := fun _ => false
  /-- crash point, as in `Local.Cfg`: the worker dies right after the service carried out the thread's
  `upload_part` / `complete_multipart_upload` call; the record is lost, dask re-runs the task elsewhere -/
  crashCall : Nat → Bool := fun _ => false

def State.goto (s : State) (t : Nat) (p : PC) : State :=
  { s with pc := fun i => if i = t then p else s.pc i }

def State.setWid (s : State) (w : Nat) (id : Nat) : State :=
  { s with wid := fun i => if i = w then id else s.wid i }

def init : State := {}

/-- `DelayedS3Writer.prep_client` (241-244), run by `MultiPartUpload.writer` when a client
exists: `v.set(None)` whatever an earlier attempt on the same scheduler left in the shared
variable (a stale upload id of an attempt that never finalised, or nothing). -/
def prepClient (_leftover : Option Nat) : Option Nat := none

/-- Start of an attempt on a scheduler whose shared variable held `leftover`: fresh copies
on every worker, the variable as `prep_client` leaves it. -/
def initAfterPrep (leftover : Option Nat) : State := { var := prepClient leftover }

def step (cfg : Cfg) (s : State) (t : Nat) : State :=
  let w := cfg.worker t
  match s.pc t with
  | .start => s.goto t (if s.wid w ≠ 0 then .useAssert else .askClient)
  | .askClient => s.goto t .get1
  | .get1 =>
    if cfg.spurGet1 t then s.goto t .acquire
    else
      match s.var with
      | some id => s.goto t (.setOwn1 id)
      | none => s.goto t .acquire
  | .setOwn1 id => (s.setWid w id).goto t .useAssert
  | .acquire =>
    match s.lock with
    | none => { s with lock := some t }.goto t .get2
    | some _ => s
  | .get2 =>
    match s.var with
    | some id => s.goto t (.setOwn2 id)
    | none => s.goto t .initAssert
  | .setOwn2 id => (s.setWid w id).goto t (.release .ret)
  | .initAssert => s.goto t (if s.wid w = 0 then .create else .release .raise)
  | .create =>
    if cfg.faultCreate t then s.goto t .releaseFault
    else
      { s with creates := s.creates + 1, calls := .create (s.creates + 1) :: s.calls }.goto t
        (.setId (s.creates + 1))
  | .setId id => (s.setWid w id).goto t .readForVar
  | .readForVar => s.goto t (.setVar (s.wid w))
  | .setVar id => { s with var := some id }.goto t (.release .fall)
  | .release a =>
    { s with lock := none }.goto t
      (match a with | .raise => .failed | .ret => .useAssert | .fall => .endAssert)
  | .releaseFault => { s with lock := none }.goto t .faulted
  | .endAssert => s.goto t (if s.wid w ≠ 0 then .useAssert else .failed)
  | .useAssert => s.goto t (if s.wid w ≠ 0 then .readId else .failed)
  | .readId => s.goto t (.call (s.wid w))
  | .call id =>
    if cfg.faultCall t then s.goto t .faulted
    else if cfg.crashCall t then
      match cfg.kind t with
      | .write p => { s with calls := .upload p id :: s.calls }.goto t .faulted
      | .fin => { s with calls := .complete id :: s.calls }.goto t .faulted
    else
      match cfg.kind t with
      | .write p => { s with calls := .upload p id :: s.calls }.goto t .done
      | .fin => { s with calls := .complete id :: s.calls }.goto t .askClient2
  | .askClient2 => s.goto t .delVar
  | .delVar => { s with var := none, deleted := true }.goto t .done
  | .done => s
  | .failed => s
  | .faulted => s

def runFrom (cfg : Cfg) (s : State) (sched : List Nat) : State := sched.foldl (step cfg) s

def run (cfg : Cfg) (sched : List Nat) : State := runFrom cfg init sched

/-- The same swallowed timeout in the SECOND read (291, under the lock): `spur2 t` makes thread `t`'s
`_safe_get` yield `None` whatever the variable holds.  Kept outside `step`: the `*_once` theorems do not
survive it (`dist_spurious_get2_cex`). -/
def stepSpur2 (spur2 : Nat → Bool) (cfg : Cfg) (s : State) (t : Nat) : State :=
  match s.pc t with
  | .get2 => if spur2 t then s.goto t .initAssert else step cfg s t
  | _ => step cfg s t

def runSpur2 (spur2 : Nat → Bool) (cfg : Cfg) (s : State) (sched : List Nat) : State :=
  sched.foldl (stepSpur2 spur2 cfg) s

/-- Crash point inside the PUBLICATION WINDOW: the worker of thread `t` dies right after the service has created
the upload (114) and before `shared_state.set(mpu.uploadId)` (302); the scheduler frees the distributed lock
when the dead worker's lease expires.  Kept outside `step` (`dist_crash_before_publish_cex`). -/
def stepFx (spur2 crashC : Nat → Bool) (cfg : Cfg) (s : State) (t : Nat) : State :=
  match s.pc t with
  | .create =>
    if crashC t then
      { s with creates := s.creates + 1, calls := .create (s.creates + 1) :: s.calls, lock := none }.goto t .faulted
    else step cfg s t
  | _ => stepSpur2 spur2 cfg s t

def runFx (spur2 crashC : Nat → Bool) (cfg : Cfg) (s : State) (sched : List Nat) : State :=
  sched.foldl (stepFx spur2 crashC cfg) s

/-- the program points between the creation of the upload and the publication of its id -/
def inWindow : PC → Bool
  | .setId _ | .readForVar | .setVar _ => true
  | _ => false

/-- A worker dies with thread `t` at ANY program point: the thread never moves again; if it held the distributed
lock, the scheduler frees it (lease expiry).  Nothing else changes - in particular the worker's copy and the shared
variable keep what they held. -/
def crash (s : State) (t : Nat) : State :=
  { s with lock := if s.lock = some t then none else s.lock }.goto t .faulted

/-- a run with crashes -/
inductive Ev where
  | step (t : Nat)
  | crash (t : Nat)
  deriving DecidableEq, Repr

def applyEv (cfg : Cfg) (s : State) : Ev → State
  | .step t => step cfg s t
  | .crash t => crash s t

def runEv (cfg : Cfg) (s : State) (evs : List Ev) : State := evs.foldl (applyEv cfg) s

/-- no crash event hits a thread inside the publication window -/
def crashesOutsideWindow (cfg : Cfg) : State → List Ev → Bool
  | _, [] => true
  | s, .step t :: rest => crashesOutsideWindow cfg (step cfg s t) rest
  | s, .crash t :: rest => !inWindow (s.pc t) && crashesOutsideWindow cfg (crash s t) rest

def enabled (s : State) (t : Nat) : Bool :=
  match s.pc t with
  | .done | .failed | .faulted => false
  | .acquire => s.lock.isNone
  | _ => true

def label (cfg : Cfg) (s : State) (t : Nat) : String :=
  match s.pc t with
  | .start | .initAssert | .readForVar | .endAssert | .useAssert | .readId => "rd"
  | .setOwn1 _ | .setOwn2 _ | .setId _ => "wr"
  | .askClient | .askClient2 => "gc"
  | .get1 | .get2 => "vget"
  | .setVar _ => "vset"
  | .delVar => "vdel"
  | .acquire => if s.lock.isNone then "acq" else "acq!"
  | .release _ | .releaseFault => "rel"
  | .create => "create"
  | .call _ => match cfg.kind t with | .write _ => "upload" | .fin => "complete"
  | .done | .failed | .faulted => "-"

end Dist

/-! ## Distributed variant with explicit names

Independent worker processes find the shared Variable and the Lock on the scheduler by the
*names* their own interpreter computes (`_build_name`, _s3.py:250-253).  `Dist` above assumes
that all workers compute the same names; here the names are explicit, per worker. -/
namespace DistN
open Dist (PC After)

structure State where
  wid : Nat → Nat := fun _ => 0
  vars : Nat → Option Nat := fun _ => none    -- scheduler variables, by name
  deleted : Bool := false
  locks : Nat → Option Nat := fun _ => none   -- scheduler locks, by name: holder
  creates : Nat := 0
  calls : List Call := []
  pc : Nat → PC := fun _ => .start

structure Cfg where
  kind : Nat → Kind
  worker : Nat → Nat
  varName : Nat → Nat    -- worker ↦ name its process computes for the Variable ("MPUpload-…")
  lockName : Nat → Nat   -- worker ↦ name its process computes for the Lock ("MPULock-…")
  faultCreate : Nat → Bool := fun _ => false
  faultCall : Nat → Bool := fun _ => false
  spurGet1 : Nat → Bool := fun _ => false
  crashCall : Nat → Bool := fun _ => false

def State.goto (s : State) (t : Nat) (p : PC) : State :=
  { s with pc := fun i => if i = t then p else s.pc i }

def State.setWid (s : State) (w : Nat) (id : Nat) : State :=
  { s with wid := fun i => if i = w then id else s.wid i }

def State.setVar (s : State) (n : Nat) (v : Option Nat) : State :=
  { s with vars := fun i => if i = n then v else s.vars i }

def State.setLock (s : State) (n : Nat) (h : Option Nat) : State :=
  { s with locks := fun i => if i = n then h else s.locks i }

def init : State := {}

def step (cfg : Cfg) (s : State) (t : Nat) : State :=
  let w := cfg.worker t
  let vn := cfg.varName w
  let ln := cfg.lockName w
  match s.pc t with
  | .start => s.goto t (if s.wid w ≠ 0 then .useAssert else .askClient)
  | .askClient => s.goto t .get1
  | .get1 =>
    if cfg.spurGet1 t then s.goto t .acquire
    else
      match s.vars vn with
      | some id => s.goto t (.setOwn1 id)
      | none => s.goto t .acquire
  | .setOwn1 id => (s.setWid w id).goto t .useAssert
  | .acquire =>
    match s.locks ln with
    | none => (s.setLock ln (some t)).goto t .get2
    | some _ => s
  | .get2 =>
    match s.vars vn with
    | some id => s.goto t (.setOwn2 id)
    | none => s.goto t .initAssert
  | .setOwn2 id => (s.setWid w id).goto t (.release .ret)
  | .initAssert => s.goto t (if s.wid w = 0 then .create else .release .raise)
  | .create =>
    if cfg.faultCreate t then s.goto t .releaseFault
    else
      { s with creates := s.creates + 1, calls := .create (s.creates + 1) :: s.calls }.goto t
        (.setId (s.creates + 1))
  | .setId id => (s.setWid w id).goto t .readForVar
  | .readForVar => s.goto t (.setVar (s.wid w))
  | .setVar id => (s.setVar vn (some id)).goto t (.release .fall)
  | .release a =>
    (s.setLock ln none).goto t
      (match a with | .raise => .failed | .ret => .useAssert | .fall => .endAssert)
  | .releaseFault => (s.setLock ln none).goto t .faulted
  | .endAssert => s.goto t (if s.wid w ≠ 0 then .useAssert else .failed)
  | .useAssert => s.goto t (if s.wid w ≠ 0 then .readId else .failed)
  | .readId => s.goto t (.call (s.wid w))
  | .call id =>
    if cfg.faultCall t then s.goto t .faulted
    else if cfg.crashCall t then
      match cfg.kind t with
      | .write p => { s with calls := .upload p id :: s.calls }.goto t .faulted
      | .fin => { s with calls := .complete id :: s.calls }.goto t .faulted
    else
      match cfg.kind t with
      | .write p => { s with calls := .upload p id :: s.calls }.goto t .done
      | .fin => { s with calls := .complete id :: s.calls }.goto t .askClient2
  | .askClient2 => s.goto t .delVar
  | .delVar => { (s.setVar vn none) with deleted := true }.goto t .done
  | .done => s
  | .failed => s
  | .faulted => s

def runFrom (cfg : Cfg) (s : State) (sched : List Nat) : State := sched.foldl (step cfg) s

def run (cfg : Cfg) (sched : List Nat) : State := runFrom cfg init sched

/-- what the workers see when they all use the lock name `L` and the variable name `V` -/
def proj (L V : Nat) (s : State) : Dist.State :=
  { wid := s.wid, var := s.vars V, deleted := s.deleted, lock := s.locks L,
    creates := s.creates, calls := s.calls, pc := s.pc }

def label (cfg : Cfg) (s : State) (t : Nat) : String :=
  match s.pc t with
  | .acquire => if (s.locks (cfg.lockName (cfg.worker t))).isNone then "acq" else "acq!"
  | _ => Dist.label { kind := cfg.kind, worker := cfg.worker } (proj 0 0 s) t

end DistN

/-! ## One upload object over time: writes, finalise and `cancel` in sequence
(`MultiPartUpload.cancel / list_active`, _s3.py:153-175, with the in-process writer) -/
namespace Seq

/-- what the caller does next with the shared `MultiPartUpload` / its writer -/
inductive Op where
  | write                    -- `writer(next part, data)`
  | fin                      -- `writer.finalise(parts)`
  | cancelAll                -- `mpu.cancel("all")` / `cancel(":ALL:")` (compared case-insensitively)
  | cancelCur                -- `mpu.cancel()`: the current upload id
  | cancelId (k : Nat)       -- `mpu.cancel("id<k>")`: an explicit, possibly stale, id
  | ensureFinal              -- `writer._ensure_init(final_write=True)` (262-275): no caller in odc-geo
  deriving DecidableEq, Repr

inductive SCall where
  | create (id : Nat)
  | upload (part id : Nat)
  | complete (id : Nat)
  | list
  | abort (id : Nat)
  deriving DecidableEq, Repr

/-- the object and the storage service: uploads are active, completed or aborted; only
active ones are listed, accept parts, can be completed or aborted (`NoSuchUpload` otherwise) -/
structure State where
  uploadId : Nat := 0
  creates : Nat := 0
  active : List Nat := []
  completed : List Nat := []
  aborted : List Nat := []
  nextPart : Nat := 1
  deriving DecidableEq, Repr

/-- `_ensure_init` without contention: initiate iff not started -/
def ensureInit (s : State) : State × List SCall :=
  if s.uploadId ≠ 0 then (s, [])
  else ({ s with uploadId := s.creates + 1, creates := s.creates + 1, active := (s.creates + 1) :: s.active },
        [.create (s.creates + 1)])

/-- result: new state, storage calls in order, `true` = returned normally / `false` = NoSuchUpload -/
def step (s : State) : Op → State × List SCall × Bool
  | .write =>
    let (s1, c) := ensureInit s
    let s2 := { s1 with nextPart := s1.nextPart + 1 }
    (s2, c ++ [.upload s1.nextPart s1.uploadId], s1.active.contains s1.uploadId)
  | .fin =>
    let (s1, c) := ensureInit s
    if s1.active.contains s1.uploadId then
      ({ s1 with active := s1.active.filter (· != s1.uploadId), completed := s1.uploadId :: s1.completed },
       c ++ [.complete s1.uploadId], true)
    else (s1, c ++ [.complete s1.uploadId], false)
  | .cancelAll =>
    -- `other = "all"` is never empty: no early return; every listed (= active) upload is aborted
    ({ s with uploadId := 0, active := [], aborted := s.active ++ s.aborted },
     .list :: s.active.map .abort, true)
  | .cancelCur =>
    if s.uploadId = 0 then (s, [], true)
    else if s.active.contains s.uploadId then
      ({ s with uploadId := 0, active := s.active.filter (· != s.uploadId), aborted := s.uploadId :: s.aborted },
       [.abort s.uploadId], true)
    else (s, [.abort s.uploadId], false)
  | .cancelId k =>
    if s.active.contains k then
      ({ s with uploadId := if k = s.uploadId then 0 else s.uploadId,
                active := s.active.filter (· != k), aborted := k :: s.aborted }, [.abort k], true)
    else (s, [.abort k], false)
  | .ensureFinal =>
    -- started: returned at once (265); otherwise, under the process-wide lock, the guard
    -- `not final_write and not mpu.started` (273) is false: nothing is initiated, the object stays unstarted
    (s, [], true)

/-- `MultiPartUpload(bucket, key, uploadId="id1")`: the object resumes an upload that somebody else
initiated (the first one the service handed out) and that is still active -/
def resumed : State := { uploadId := 1, creates := 1, active := [1] }

def run : State → List Op → State × List SCall × List Bool
  | s, [] => (s, [], [])
  | s, o :: rest =>
    let (s1, c, ok) := step s o
    let (s2, cs, oks) := run s1 rest
    (s2, c ++ cs, ok :: oks)

end Seq

/-! ## File sink (`MPUFileSink`, _mpu_fs.py:53-92) -/

abbrev Bytes := List Nat

inductive SinkErr where
  | assertion      -- `assert len(parts) > 0`
  | fileNotFound   -- rename / open / stat of a part file that is not there
  | valueError     -- code as found: `mmap` of an empty file (F17)
  | osError        -- `rmdir` of a non-empty parts directory
  deriving DecidableEq, Repr

def SinkErr.toStr : SinkErr → String
  | .assertion => "ERR:AssertionError"
  | .fileNotFound => "ERR:FileNotFoundError"
  | .valueError => "ERR:ValueError"
  | .osError => "ERR:OSError"

/-- The part of the file system a sink touches: its parts directory (part number ↦ content
of `p<part>.bin`) and the destination file. -/
structure Sink where
  dirExists : Bool := false
  parts : List (Nat × Bytes) := []
  dst : Option Bytes := none
  deriving DecidableEq, Repr

namespace Sink

def lookup (s : Sink) (p : Nat) : Option Bytes := s.parts.lookup p

def unlink (s : Sink) (p : Nat) : Sink := { s with parts := s.parts.filter (fun q => q.1 != p) }

/-- `sink(part, data)` (62-68): create the directory when missing, (over)write `p<part>.bin`. -/
def write (s : Sink) (w : Nat × Bytes) : Sink :=
  { s with dirExists := true, parts := (w.1, w.2) :: s.parts.filter (fun q => q.1 != w.1) }

/-- the loop over `rest` (78-87); `fixed = false` is the code as found (F17). -/
def appendParts (fixed keep : Bool) : Sink → List Nat → Sink × Option SinkErr
  | s, [] => (s, none)
  | s, p :: rest =>
    match s.lookup p with
    | none => (s, some .fileNotFound)
    | some data =>
      if data.isEmpty && !fixed then (s, some .valueError)
      else
        let s := { s with dst := s.dst.map (· ++ data) }
        let s := if keep then s else s.unlink p
        appendParts fixed keep s rest

/-- `sink.finalise(parts, keep_parts)` (70-92); `ps` are the part numbers of the given dicts
in the given order.  The state is returned also when an exception is raised. -/
def finalise (fixed : Bool) (s : Sink) (ps : List Nat) (keep : Bool) : Sink × Option SinkErr :=
  match ps with
  | [] => (s, some .assertion)
  | first :: rest =>
    match s.lookup first with
    | none => (s, some .fileNotFound)
    | some d =>
      match appendParts fixed keep { (s.unlink first) with dst := some d } rest with
      | (s, some e) => (s, some e)
      | (s, none) =>
        if keep then (s, none)
        else if s.parts.isEmpty then ({ s with dirExists := false }, none)
        else (s, some .osError)

end Sink

/-- `p{part:04d}.bin` -/
def partFileName (part : Nat) : String :=
  let d := toString part
  "p" ++ String.ofList (List.replicate (4 - d.length) '0') ++ d ++ ".bin"

/-- `MPUFileSink.__init__` (27-31) + `_ensure_dst_file` (60): path of a part file, for a
destination `parent/name` and optional `parts_base`. -/
def partPath (parent name : String) (base : Option String) (part : Nat) : String :=
  let root := match base with | none => parent | some b => b
  root ++ "/." ++ name ++ ".parts/" ++ partFileName part

/-! ## Several sinks on one file system (`MPUFileSink.__init__`, _mpu_fs.py:21-35) -/

/-- `MPUFileSink(dst = dir/name, parts_base = base)` -/
structure SinkCfg where
  dir : String
  name : String
  base : Option String := none
  deriving DecidableEq, Repr

/-- where the hidden parts directory is created: `dst.parent`, or `parts_base` when given -/
def SinkCfg.root (c : SinkCfg) : String :=
  match c.base with
  | none => c.dir
  | some b => b

/-- the hidden parts directory `root/.{dst.name}.parts`, identified by `(root, dst.name)`: the FULL
name of the destination (suffixes included), not its stem -/
def SinkCfg.pkey (c : SinkCfg) : String × String := (c.root, c.name)

/-- the destination file `dir/name` -/
def SinkCfg.dkey (c : SinkCfg) : String × String := (c.dir, c.name)

/-- the directory's path as text (what `partPath` prefixes the part file names with) -/
def SinkCfg.partsDirPath (c : SinkCfg) : String := c.root ++ "/." ++ c.name ++ ".parts"

/-- association lists as the file system's tables -/
def tblSet {κ β : Type} [BEq κ] (k : κ) (v : β) (l : List (κ × β)) : List (κ × β) :=
  (k, v) :: l.filter (fun q => !(q.1 == k))

def tblErase {κ β : Type} [BEq κ] (k : κ) (l : List (κ × β)) : List (κ × β) :=
  l.filter (fun q => !(q.1 == k))

/-- The part of the file system that sinks touch: regular files by `(dir, name)` and hidden
parts directories by `(root, destination name)` with their part files.  (A destination that is
itself named like another sink's parts directory, `.n.parts`, is outside the model.) -/
structure FS where
  files : List ((String × String) × Bytes) := []
  pdirs : List ((String × String) × List (Nat × Bytes)) := []
  deriving Repr

/-- what sink `c` sees of the file system -/
def FS.view (fs : FS) (c : SinkCfg) : Sink :=
  { dirExists := (fs.pdirs.lookup c.pkey).isSome,
    parts := match fs.pdirs.lookup c.pkey with | some ps => ps | none => [],
    dst := fs.files.lookup c.dkey }

/-- write sink `c`'s view back -/
def FS.store (fs : FS) (c : SinkCfg) (s : Sink) : FS :=
  { files := match s.dst with
             | some b => tblSet c.dkey b fs.files
             | none => tblErase c.dkey fs.files,
    pdirs := if s.dirExists then tblSet c.pkey s.parts fs.pdirs else tblErase c.pkey fs.pdirs }

/-- `sink(part, data)` of sink `c` -/
def FS.write (fs : FS) (c : SinkCfg) (w : Nat × Bytes) : FS := fs.store c ((fs.view c).write w)

/-- `sink.finalise(parts, keep_parts)` of sink `c` -/
def FS.finalise (fixed : Bool) (fs : FS) (c : SinkCfg) (ps : List Nat) (keep : Bool) : FS × Option SinkErr :=
  ((fs.store c (Sink.finalise fixed (fs.view c) ps keep).1), (Sink.finalise fixed (fs.view c) ps keep).2)

/-- an operation of one of the live sinks -/
inductive SinkOp where
  | write (w : Nat × Bytes)
  | finalise (ps : List Nat) (keep : Bool)
  deriving Repr

def FS.apply (fs : FS) (c : SinkCfg) : SinkOp → FS × Option SinkErr
  | .write w => (fs.write c w, none)
  | .finalise ps keep => fs.finalise true c ps keep

/-- run interleaved operations of several sinks (`cfgs[i]` performs the ops tagged `i`) -/
def FS.run (cfgs : List SinkCfg) : FS → List (Nat × SinkOp) → FS × List (Option SinkErr)
  | fs, [] => (fs, [])
  | fs, (i, op) :: rest =>
    match cfgs[i]? with
    | none => FS.run cfgs fs rest
    | some c =>
      let r := fs.apply c op
      let rr := FS.run cfgs r.1 rest
      (rr.1, r.2 :: rr.2)

/-- a sink's own operations on its own view (the single-sink semantics) -/
def Sink.apply (s : Sink) : SinkOp → Sink × Option SinkErr
  | .write w => (s.write w, none)
  | .finalise ps keep => Sink.finalise true s ps keep

/-! ## Addresses and identities (`s3_parse_url`, `MultiPartUpload.url`, the dask tokens) -/

/-- `s3_parse_url(url)` (_s3.py:41-46) on the text after a possible `s3://` prefix:
`none` = the url does not start with `s3://` (the function then returns `("", "")`) -/
def s3ParseUrl (url : String) : String × String :=
  if url.startsWith "s3://" then
    match ((url.drop 5).toString.splitOn "/") with
    | [] => ("", "")
    | bucket :: rest => (bucket, "/".intercalate rest)
  else ("", "")

/-- `MultiPartUpload.url` (_s3.py:132-134) -/
def mpuUrl (bucket key : String) : String := "s3://" ++ bucket ++ "/" ++ key

/-- `MultiPartUpload.__dask_tokenize__` (181-186): `(bucket, key, uploadId)` -/
def mpuToken (bucket key uploadId : String) : List String := [bucket, key, uploadId]

/-- `DelayedS3Writer.__dask_tokenize__` (318-319): `("odc.DelayedS3Writer", bucket, key)` - it must
not depend on the mutable upload id: `_build_name` derives the Variable / Lock names from it -/
def writerToken (bucket key _uploadId : String) : List String := ["odc.DelayedS3Writer", bucket, key]

/-- `MPUFileSink.__dask_tokenize__` (94-95): `(dst, parts_dir)` -/
def sinkToken (c : SinkCfg) : List String := [c.dir ++ "/" ++ c.name, c.partsDirPath]

/-! ## Limits (`S3Limits` _s3.py:49-68, `MPUFileSink` _mpu_fs.py:37-51) -/

/-- The accessors of the `PartsWriter` protocol (_mpu.py:42-52). -/
inductive Acc where
  | minWriteSz | maxWriteSz | minPart | maxPart
  deriving DecidableEq, Repr

def Acc.all : List Acc := [.minWriteSz, .maxWriteSz, .minPart, .maxPart]

def Acc.name : Acc → String
  | .minWriteSz => "min_write_sz"
  | .maxWriteSz => "max_write_sz"
  | .minPart => "min_part"
  | .maxPart => "max_part"

/-- `S3Limits`: constants for `MultiPartUpload` and `DelayedS3Writer`. -/
def s3Limit : Acc → Int
  | .minWriteSz => 5 * 2 ^ 20
  | .maxWriteSz => 5 * 2 ^ 30
  | .minPart => 1
  | .maxPart => 10000

/-- keyword arguments given to `MPUFileSink(dst, **limits)` -/
structure LimitKw where
  minWriteSz : Option Int := none
  maxWriteSz : Option Int := none
  minPart : Option Int := none
  maxPart : Option Int := none
  deriving DecidableEq, Repr

def LimitKw.get (kw : LimitKw) : Acc → Option Int
  | .minWriteSz => kw.minWriteSz
  | .maxWriteSz => kw.maxWriteSz
  | .minPart => kw.minPart
  | .maxPart => kw.maxPart

/-- `dict.get(key, default)` -/
def dictGet (v : Option Int) (dflt : Int) : Int :=
  match v with
  | some x => x
  | none => dflt

/-- `MPUFileSink.<accessor>`; `fixed = false` is the code as found (F4: both `max_*`
accessors look up the `min_*` keyword). -/
def sinkLimit (fixed : Bool) (kw : LimitKw) : Acc → Int
  | .minWriteSz => dictGet kw.minWriteSz 4096
  | .maxWriteSz => dictGet (if fixed then kw.maxWriteSz else kw.minWriteSz) (5 * 2 ^ 30)
  | .minPart => dictGet kw.minPart 1
  | .maxPart => dictGet (if fixed then kw.maxPart else kw.minPart) 10000

/-- documented defaults of the file sink -/
def sinkDefault : Acc → Int
  | .minWriteSz => 4096
  | .maxWriteSz => 5 * 2 ^ 30
  | .minPart => 1
  | .maxPart => 10000

end OdcGeo.C18
