/-
Vocabulary of the C04 theorem statements (definitions only, core Lean).

* `pre ch k`       exact prefix sum `ch[0] + … + ch[k-1]` of a chunk tuple
* `ChunksOK ch`    hypothesis of the variable-tile theorems: non-negative chunks (zero allowed)
                   whose Python sum fits `int32`
* `Sorted xs`      non-decreasing list (contract of `np.searchsorted`)
* `Tiling.WF`      an axis of a tiling is well formed (`n > 0`, resp. `ChunksOK`)
* `tileReg ch i`   pixel region of tile `i`;  `KeyOK`, `Owns` : block key inside the layout /
                   mosaic pixel inside the block's region
* `InBox`, `WinOK`, `shift`, `lens` : index vectors and windows on the extra (non Y/X) axes
* `InShape`        index vector inside a shape (for `np.ndindex`)
-/
import OdcGeo.Model.C04
namespace OdcGeo.C04
open OdcGeo OdcGeo.C17 OdcGeo.NpArray

/-- exact prefix sums of a chunk tuple: `pre ch k = ch[0] + … + ch[k-1]` -/
def pre : List Int → Nat → Int
  | _, 0 => 0
  | [], _ + 1 => 0
  | c :: cs, k + 1 => c + pre cs k

/-- the hypothesis of the variable-tile theorems: non-negative chunks whose sum fits `int32` -/
def ChunksOK (ch : List Int) : Prop := (∀ c ∈ ch, 0 ≤ c) ∧ total ch < 2147483648

/-- non-decreasing list -/
def Sorted (xs : List Int) : Prop :=
  ∀ (i j : Nat) (v w : Int), i ≤ j → xs[i]? = some v → xs[j]? = some w → v ≤ w

def Tiling.WF : Tiling → Prop
  | .reg _ n => 0 < n
  | .var ch => ChunksOK ch

def InBox : List Int → List Int → Prop
  | [], [] => True
  | j :: js, n :: ns => (0 ≤ j ∧ j < n) ∧ InBox js ns
  | _, _ => False

def WinOK : List NSlice → List Int → Prop
  | [], [] => True
  | w :: ws, n :: ns => (0 ≤ w.start ∧ w.start ≤ w.stop ∧ w.stop ≤ n) ∧ WinOK ws ns
  | _, _ => False

def shift : List NSlice → List Int → List Int
  | w :: ws, j :: js => (w.start + j) :: shift ws js
  | _, _ => []

def lens (ws : List NSlice) : List Int := ws.map fun w => w.stop - w.start

def tileReg (ch : List Int) (i : Int) : NSlice := ⟨pre ch i.toNat, pre ch (i.toNat + 1)⟩

def InShape : List Nat → List Nat → Prop
  | [], [] => True
  | i :: is, n :: ns => i < n ∧ InShape is ns
  | _, _ => False

section
variable {Val : Type}

def KeyOK (a : Assembler Val) (k : Int × Int) : Prop :=
  (0 ≤ k.1 ∧ k.1 < (a.chy.length : Int)) ∧ (0 ≤ k.2 ∧ k.2 < (a.chx.length : Int))

def Owns (a : Assembler Val) (k : Int × Int) (Y X : Int) : Prop :=
  (tileReg a.chy k.1).Has Y ∧ (tileReg a.chx k.2).Has X

end

end OdcGeo.C04
