/- Model for C08 (core Lean only, no Mathlib). -/
import OdcGeo.Model.IO
namespace OdcGeo.C08

end OdcGeo.C08
