/-
Model of `_norm_anchor`, `GeoBox.from_bbox` and `GeoBox.from_geopolygon`
(`odc/geo/geobox.py:83-101, 496-652`), core Lean only.  The one-axis snapping
(`snap_grid` & friends, `maybe_int`, `split_float`) is modelled in `OdcGeo.Model.C20`.

Not modelled: the CRS argument (`_norm_bbox`, `to_crs`: the bounding box is taken in the
CRS of the result), non-finite coordinates.
-/
import OdcGeo.Model.IO
import OdcGeo.Model.Affine
import OdcGeo.Model.C20
namespace OdcGeo.C08
open OdcGeo.C20 (snapGrid)

/-- Normalised anchor: an `AnchorEnum` member or an `XY` of pixel fractions. -/
inductive Anchor where
  | edge
  | center
  | floating
  | xy (x y : Rat)
  deriving DecidableEq, Repr

/-- The strings `_norm_anchor` understands. -/
inductive AnchorName where
  | center | centre | edge | floating | default
  deriving DecidableEq, Repr

/-- The `anchor=` argument: an `AnchorEnum` / `XY` (passed through), a number, a name. -/
inductive AnchorArg where
  | val (a : Anchor)
  | num (v : Rat)
  | name (n : AnchorName)
  deriving DecidableEq, Repr

/-- `_norm_anchor(anchor)` -/
def normAnchor : AnchorArg → Anchor
  | .val a => a
  | .num v => if v = 0 then .edge else if v = 1 / 2 then .center else .xy v v
  | .name .center => .center
  | .name .centre => .center
  | .name .edge => .edge
  | .name .floating => .floating
  | .name .default => .edge

/-- The `_snap` variable of `from_bbox`: `none` = floating. -/
def snapOf (tight : Bool) (a : Anchor) : Option (Rat × Rat) :=
  match (if tight then Anchor.floating else a) with
  | .xy x y => some (x, y)
  | .edge => some (0, 0)
  | .center => some (1 / 2, 1 / 2)
  | .floating => none

structure BBox where
  left : Rat
  bottom : Rat
  right : Rat
  top : Rat
  deriving DecidableEq, Repr

def BBox.spanX (b : BBox) : Rat := b.right - b.left
def BBox.spanY (b : BBox) : Rat := b.top - b.bottom

/-- `shape=` argument: absent, a single number (pixels along the longest side), `(ny, nx)`. -/
inductive ShapeArg where
  | none
  | int (n : Int)
  | yx (ny nx : Int)
  deriving DecidableEq, Repr

/-- `resolution=` argument: absent, a number `r` (meaning `(r, -r)`), a `Resolution(x, y)`. -/
inductive ResArg where
  | none
  | scalar (r : Rat)
  | xy (rx ry : Rat)
  deriving DecidableEq, Repr

/-- `res_(resolution).xy` -/
def ResArg.xy? : ResArg → Option (Rat × Rat)
  | .none => Option.none
  | .scalar r => some (r, -r)
  | .xy rx ry => some (rx, ry)

structure GeoBox where
  ny : Int
  nx : Int
  affine : Aff
  deriving DecidableEq, Repr

/-- World extent of a geobox with an axis-aligned affine (specification vocabulary). -/
def GeoBox.xmin (g : GeoBox) : Rat := min g.affine.c (g.affine.c + (g.nx : Rat) * g.affine.a)
def GeoBox.xmax (g : GeoBox) : Rat := max g.affine.c (g.affine.c + (g.nx : Rat) * g.affine.a)
def GeoBox.ymin (g : GeoBox) : Rat := min g.affine.f (g.affine.f + (g.ny : Rat) * g.affine.e)
def GeoBox.ymax (g : GeoBox) : Rat := max g.affine.f (g.affine.f + (g.ny : Rat) * g.affine.e)

/-- The single-number `shape` is turned into a resolution first (geobox.py:552-557); this
overrides a `resolution` argument. -/
def intShapeToRes (bb : BBox) (shape : ShapeArg) (res : ResArg) : Res (ShapeArg × ResArg) :=
  match shape with
  | .int n =>
    if bb.spanY = 0 then .error .zeroDiv                 -- `bbox.aspect`
    else if n = 0 then .error .zeroDiv
    else if bb.spanX / bb.spanY > 1 then .ok (.none, .scalar (bb.spanX / (n : Rat)))
    else .ok (.none, .scalar (bb.spanY / (n : Rat)))
  | s => .ok (s, res)

/-- `GeoBox.from_bbox(bbox, tight=, shape=, resolution=, anchor=, tol=)` -/
def fromBbox (bb : BBox) (tight : Bool) (shape : ShapeArg) (res : ResArg) (anchor : AnchorArg)
    (tol : Rat) : Res GeoBox := do
  let snap := snapOf tight (normAnchor anchor)
  let (shape, res) ← intShapeToRes bb shape res
  match res.xy? with
  | some (rx, ry) =>
    let (offx, nx) ← snapGrid bb.left bb.right rx (snap.map (·.1)) tol
    let (offy, ny) ← snapGrid bb.bottom bb.top ry (snap.map (·.2)) tol
    return ⟨ny, nx, Aff.translation offx offy * Aff.scale rx ry⟩
  | Option.none =>
    match shape with
    | .yx ny nx =>
      if nx = 0 then .error .zeroDiv
      else if ny = 0 then .error .zeroDiv
      else
        let rx := bb.spanX / (nx : Rat)
        let ry := -bb.spanY / (ny : Rat)
        match snap with
        | Option.none =>
          return ⟨ny, nx, Aff.translation bb.left bb.top * Aff.scale rx ry⟩
        | some (sx, sy) =>
          let (offx, _) ← snapGrid bb.left bb.right rx (some sx) tol
          let (offy, _) ← snapGrid bb.bottom bb.top ry (some sy) tol
          return ⟨ny, nx, Aff.translation offx offy * Aff.scale rx ry⟩
    | _ => .error .valueError

/-! ### `from_geopolygon` -/

/-- `geopolygon.boundingbox` of a non-empty vertex list (shapely `bounds`). -/
def bboxOfPts (p : Rat × Rat) (ps : List (Rat × Rat)) : BBox :=
  ⟨ps.foldl (fun m q => min m q.1) p.1, ps.foldl (fun m q => min m q.2) p.2,
   ps.foldl (fun m q => max m q.1) p.1, ps.foldl (fun m q => max m q.2) p.2⟩

/-- Old-style `align=` → anchor (geobox.py:629-638). -/
def alignToAnchor (align : Option (Rat × Rat)) (res : ResArg) (anchor : AnchorArg) :
    Res (ResArg × AnchorArg) :=
  match align with
  | Option.none => .ok (res, anchor)
  | some (ax, ay) =>
    if ax = 0 ∧ ay = 0 then .ok (res, .val .edge)
    else match res.xy? with
      | Option.none => .error .assertion
      | some (rx, ry) =>
        if rx = 0 ∨ ry = 0 then .error .zeroDiv
        else .ok (.xy rx ry, .val (.xy (ax / C20.rabs rx) (ay / C20.rabs ry)))

/-- `GeoBox.from_geopolygon(poly, resolution, align=, shape=, tight=, anchor=, tol=)` with the
polygon given by its vertices, no CRS change. -/
def fromGeopolygon (p : Rat × Rat) (ps : List (Rat × Rat)) (res : ResArg)
    (align : Option (Rat × Rat)) (shape : ShapeArg) (tight : Bool) (anchor : AnchorArg)
    (tol : Rat) : Res GeoBox := do
  let (res, anchor) ← alignToAnchor align res anchor
  fromBbox (bboxOfPts p ps) tight shape res anchor tol

/-! ### the `crs="utm"` shortcut of `from_bbox` (`_norm_bbox`, geobox.py:547-556)

`BoundingBox(*bbox, crs="epsg:4326").to_crs(utm)`: the four corners of the lon/lat box are projected
(no densification) and the bounding box of the images is taken.  The projection is a parameter
(pyproj is outside the model). -/

/-- corners in the order of `BoundingBox.polygon` / `points` -/
def BBox.corners (b : BBox) : List (Rat × Rat) :=
  [(b.left, b.bottom), (b.left, b.top), (b.right, b.top), (b.right, b.bottom)]

/-- `_norm_bbox(bbox, "utm…")` with projection `proj`. -/
def normBboxUtm (proj : Rat × Rat → Rat × Rat) (b : BBox) : BBox :=
  bboxOfPts (proj (b.left, b.bottom)) [proj (b.left, b.top), proj (b.right, b.top), proj (b.right, b.bottom)]

/-- `GeoBox.from_bbox(lonlat_tuple, "utm", …)`. -/
def fromBboxUtm (proj : Rat × Rat → Rat × Rat) (bb : BBox) (tight : Bool) (shape : ShapeArg) (res : ResArg)
    (anchor : AnchorArg) (tol : Rat) : Res GeoBox :=
  fromBbox (normBboxUtm proj bb) tight shape res anchor tol

/-- `GeoBox.from_geopolygon(poly, …, crs=other)`: `geopolygon.to_crs(crs)` projects the vertices as
they are (no densification unless asked), then the same-CRS path.  `proj` is the projection. -/
def fromGeopolygonCrs (proj : Rat × Rat → Rat × Rat) (p : Rat × Rat) (ps : List (Rat × Rat)) (res : ResArg)
    (align : Option (Rat × Rat)) (shape : ShapeArg) (tight : Bool) (anchor : AnchorArg) (tol : Rat) : Res GeoBox :=
  fromGeopolygon (proj p) (ps.map proj) res align shape tight anchor tol

end OdcGeo.C08
