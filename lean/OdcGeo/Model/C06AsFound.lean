/-
The three functions of `_mpu.py` as they were found at the pinned commit, before the `fix:` commits for
F7 / F8 (F9 is a changed argument of `flush`).  Kept only so that the counterexample theorems of
`Props/C06.lean` show, inside Lean, that the full statement of C06 is false for the code as found.
-/
import OdcGeo.Model.C06
namespace OdcGeo.C06.AsFound
open OdcGeo OdcGeo.C06
variable {α : Type}

/-- `maybe_write` as found (before fix F8): spills as soon as `bytes_to_write >= spill_sz`. -/
def maybeWrite (W : Writer) (spill : Nat) (c : Chunk α) : Res (Chunk α × List (Part α)) :=
  let rhsKeep : Nat := if c.isFinal then 0 else W.minWrite
  let partsToKeep : Int := if c.isFinal then 0 else 1
  let lhsKeep : Nat := if c.started then 0 else c.lhsKeep
  if c.credits - 1 < partsToKeep then .ok (c, [])
  else
    let btw : Int := (c.data.length : Int) - rhsKeep - lhsKeep
    if btw < (spill : Int) then .ok (c, [])
    else
      let n := btw.toNat
      if lhsKeep = 0 then
        let p : Part α := ⟨c.next, c.data.take n⟩
        .ok ({ c with data := c.data.drop n, parts := c.parts ++ [p], next := c.next + 1,
                      credits := c.credits - 1 }, [p])
      else
        if c.left.length ≠ 0 then .error .assertion
        else
          let p : Part α := ⟨c.next, (c.data.drop lhsKeep).take n⟩
          .ok ({ c with left := c.data.take lhsKeep, data := c.data.drop (n + lhsKeep),
                        parts := c.parts ++ [p], next := c.next + 1, credits := c.credits - 1 }, [p])

/-- `_mpu_append_chunks_op` as found (before fix F7): the final section is final from its first chunk.
`fixedSpill` selects which `maybe_write` is used, so that each defect can be shown in isolation. -/
def appendChunksOp (fixedSpill : Bool) (W : Writer) (spill : Nat) (c : Chunk α)
    (chunks : List (List α × Int)) : Res (Chunk α × List (Part α)) :=
  chunks.foldl (fun acc ch => match acc with
    | .error e => .error e
    | .ok (c, ws) =>
      let c1 := c.append ch.1 ch.2
      if spill = 0 then .ok (c1, ws)
      else match (if fixedSpill then C06.maybeWrite W spill c1 else maybeWrite W spill c1) with
        | .error e => .error e
        | .ok (c2, ws2) => .ok (c2, ws ++ ws2)) (.ok (c, []))

end OdcGeo.C06.AsFound

