/-
The shape of the task graph `mpu_write` builds, derived inside the model (core Lean only).

* `dask.bag.Bag.fold(binop, split_every=s)` → `Bag.reduction` (`dask/bag/core.py`): the per-partition step is
  `reduce(binop, partition)` (one `MPUChunk` per partition here, so the identity), then
  `while k > s: level = [reduce(binop, group) for group in partition_all(s, level)]` and finally
  `reduce(binop, level)`.  `reduce` over a group is a LEFT fold, a one-element group is returned unchanged.
  (This is third-party code: the harness compares `daskFold` with the tree the real graph performs on every
  dask run — `c06 shape` — so the derivation is checked, not trusted.)
* `MPUChunk.from_dask_bag` (`_mpu.py:304-342`): one leaf per partition of the chunk bag, folded with `split_every`
  (default 4; `mpu_write` never passes another value).
* `mpu_write` (`_mpu.py:364-422`) / `_mpu_collate_op` (`_mpu.py:425-437`): one fold per bag, the roots merged
  left to right.
-/
import OdcGeo.Model.C06
namespace OdcGeo.C06
variable {α : Type}

/-- `functools.reduce(node, t :: ts)`: left fold, a single element is returned as it is -/
def foldl1 : Tree α → List (Tree α) → Tree α
  | t, [] => t
  | t, r :: rs => foldl1 (.node t r) rs

/-- `toolz.partition_all(s, xs)`: consecutive groups of `s` (last one shorter); `fuel ≥ xs.length` steps -/
def chunksOfAux {β : Type} (s : Nat) : Nat → List β → List (List β)
  | 0, _ => []
  | _ + 1, [] => []
  | f + 1, x :: xs => (x :: xs).take s :: chunksOfAux s f ((x :: xs).drop s)

def chunksOf {β : Type} (s : Nat) (xs : List β) : List (List β) := chunksOfAux s xs.length xs

/-- `reduce(binop, group)` of one group of `partition_all` (groups are never empty) -/
def reduceGroup : List (Tree α) → Option (Tree α)
  | [] => none
  | t :: rest => some (foldl1 t rest)

/-- one round of the `while k > split_every` loop of `Bag.reduction` -/
def daskLevel (s : Nat) (ts : List (Tree α)) : List (Tree α) :=
  (chunksOf s ts).filterMap reduceGroup

/-- the loop of `Bag.reduction`: while more than `s` results are left, reduce them in groups of `s`; then reduce
the rest.  `none`: no partitions, or the loop does not terminate (`s ≤ 1` with more than `s` partitions: dask
itself never returns from building the graph then; excluded by `2 ≤ s` in the theorems). -/
def daskFoldAux (s : Nat) : Nat → List (Tree α) → Option (Tree α)
  | _, [] => none
  | 0, _ => none
  | f + 1, t :: ts =>
    if (t :: ts).length ≤ s then some (foldl1 t ts)
    else daskFoldAux s f (daskLevel s (t :: ts))

def daskFold (s : Nat) (ts : List (Tree α)) : Option (Tree α) := daskFoldAux s (ts.length + 1) ts

/-- `MPUChunk.from_dask_bag(...)`: the fold over one bag; a partition is its list of `(bytes, chunk id)` items -/
def fromDaskBag (s : Nat) (bag : List (List (List α × Int))) : Option (Tree α) :=
  daskFold s (bag.map Tree.leaf)

/-- `mpu_write(chunks=[bag, …])`: per-bag folds (`split_every = s`), then `_mpu_collate_op` (left to right);
a single bag is not collated. -/
def mpuWriteTree (s : Nat) (bags : List (List (List (List α × Int)))) : Option (Tree α) :=
  match bags.mapM (fromDaskBag s) with
  | none => none
  | some [] => none
  | some (t :: ts) => some (foldl1 t ts)

/-- `split_every` of `from_dask_bag` as called by `mpu_write` -/
def mpuWriteSplitEvery : Nat := 4

/-- The whole public entry point: `mpu_write(bags, write, mk_header=, mk_footer=, writes_per_chunk=, spill_sz=)
.compute()` from the bags to the writer calls.  An empty list of bags fails while the graph is built
(`collate_substreams`: `assert len(substreams) > 0`); `none`: a bag without partitions (dask cannot build such a
bag). -/
def mpuWrite (w : Option Writer) (spill wpc : Nat) (bags : List (List (List (List α × Int))))
    (mkHdr mkFtr : Option (List (Nat × Int) → List α)) :
    Option (Res (Out α × List (Part α) × List (Nat × Int))) :=
  if bags.isEmpty then some (.error .assertion)
  else (mpuWriteTree mpuWriteSplitEvery bags).map fun t => run ⟨w, spill, wpc, mkFtr.isNone⟩ t mkHdr mkFtr

/-- skeleton of a tree: leaves numbered in stream order -/
def Tree.skelAux : Tree α → Nat → String × Nat
  | .leaf _, i => (toString i, i + 1)
  | .node l r, i =>
    let (sl, i1) := l.skelAux i
    let (sr, i2) := r.skelAux i1
    ("(" ++ sl ++ " " ++ sr ++ ")", i2)

def Tree.skel (t : Tree α) : String := (t.skelAux 0).1

end OdcGeo.C06
