/-
Model for C19, final increment (core Lean only): ONE state for the cache histories and for the
values that hold CRS instances.

The variable table of the history model (`State.vars`) IS the heap of live `CRS` instances
(variable = instance; `.epsg v` already updates the instance only).  On top of it holders
(BoundingBox, GeoBox, Geometry, GridSpec, GCPMapping, GeoboxTiles through its base …) store a
reference to an instance.  Cache entries, the transformer cache (keyed by the ids of the
instances' pyproj objects), the garbage collector (held instances are live, hence roots) and
the holders now speak about the same state.
-/
import OdcGeo.Model.C19Alias
namespace OdcGeo.C19

structure UState where
  core : State := {}
  /-- value ↦ the instance (variable of `core.vars`) it refers to; `none`: no CRS -/
  hold : List (Nat × Option Nat) := []
  deriving Repr

inductive UOp where
  /-- any operation of the history model on instances / pyproj objects / caches -/
  | core (op : Op)
  /-- `del v`: the NAME goes; the instance lives on while a value holds it -/
  | del (v : Nat)
  /-- `h = BoundingBox(…, crs=v)` (any value type): `norm_crs(v) is v` -/
  | hold (h v : Nat)
  | holdNone (h : Nat)
  /-- a copy / re-construction of the value from its own accessors: the same reference -/
  | rehold (h2 h : Nat)
  /-- `h1 == h2` as far as the CRS decides -/
  | heq (h1 h2 : Nat)
  deriving DecidableEq, Repr

/-- the variable an operation (re)binds or unbinds -/
def Op.binds : Op → Option Nat
  | .mk v _ _ => some v
  | .pickle v _ _ => some v
  | .drop v => some v
  | _ => none

def UState.held (σ : UState) (v : Nat) : Bool := σ.hold.any (fun e => e.2 == some v)

/-- the record a holder sees now -/
def UState.crsOf (σ : UState) (h : Nat) : Option (Option CrsObj) :=
  match assoc h σ.hold with
  | none => none
  | some none => some none
  | some (some v) => (assoc v σ.core.vars).map some

def ustep (W : World) (σ : UState) : UOp → UState × Out
  | .core op =>
    -- rebinding / deleting the name of an instance a value still holds is outside this model
    -- (Python keeps the object alive under the holder; the harness uses fresh names)
    if (op.binds.map σ.held).getD false then (σ, .err .notImplemented)
    else
      let r := step W σ.core op
      ({ σ with core := r.1 }, r.2)
  | .del v =>
    if σ.held v then (σ, .unit)
    else
      let r := step W σ.core (.drop v)
      ({ σ with core := r.1 }, r.2)
  | .hold h v =>
    match assoc v σ.core.vars with
    | some _ => ({ σ with hold := setVar h (some v) σ.hold }, .unit)
    | none => (σ, .err .valueError)
  | .holdNone h => ({ σ with hold := setVar h none σ.hold }, .unit)
  | .rehold h2 h =>
    match assoc h σ.hold with
    | some r => ({ σ with hold := setVar h2 r σ.hold }, .unit)
    | none => (σ, .err .valueError)
  | .heq h1 h2 =>
    match σ.crsOf h1, σ.crsOf h2 with
    | some a, some b => (σ, .bool (optCrsEq a b))
    | _, _ => (σ, .err .valueError)

def urunFrom (W : World) : UState → List UOp → UState × List Out
  | σ, [] => (σ, [])
  | σ, op :: ops =>
    let r := ustep W σ op
    let r2 := urunFrom W r.1 ops
    (r2.1, r.2 :: r2.2)

def urun (W : World) (h : List UOp) : UState × List Out := urunFrom W {} h

/-- the operations on the core that a unified history really performs -/
def UOp.real : UOp → Bool
  | .core op => op.real
  | _ => true

end OdcGeo.C19
