/- Model for C06 (core Lean only, no Mathlib). -/
import OdcGeo.Model.IO
namespace OdcGeo.C06

end OdcGeo.C06
