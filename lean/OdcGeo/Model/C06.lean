/-
Model of the multi-part upload assembly of `odc/geo/cog/_mpu.py` (core Lean only).

`MPUChunk` methods that mutate become functions returning the new chunk together with the
list of writer calls they made (`Part = (part number, bytes)`; the real writer returns an
opaque dict per call, the model keeps the bytes so that the byte stream can be stated).
The dask graph built by `mpu_write` (per-partition `_mpu_append_chunks_op`, `fold` with
`_merge_and_spill_op`, `_mpu_collate_op` over sub-streams, `_finalizer_dask_op`) is a binary
merge tree over adjacent partitions: `Tree`.  Each node is a pure function of its children,
so the value computed does not depend on the order in which dask executes sibling tasks.

The model follows the code *as repaired* by the `fix:` commits for findings F7, F8, F9.
-/
import OdcGeo.Model.IO
namespace OdcGeo.C06

/-- one call `write(part, data)` -/
structure Part (α : Type) where
  id : Nat
  data : List α
  deriving DecidableEq, Repr

/-- `MPUChunk` (`_mpu.py:55-93`) -/
structure Chunk (α : Type) where
  next : Nat                      -- nextPartId
  credits : Int                   -- write_credits
  data : List α
  left : List α                   -- left_data
  parts : List (Part α)
  observed : List (Nat × Int)     -- (size, chunk id)
  isFinal : Bool
  lhsKeep : Nat
  deriving Repr

/-- the limits of a `PartsWriter` that the code reads -/
structure Writer where
  minWrite : Nat
  minPart : Nat
  maxPart : Nat
  deriving Repr, DecidableEq

variable {α : Type}

def mkChunk (partId : Nat) (credits : Int) (isFinal : Bool) (lhsKeep : Nat) : Chunk α :=
  ⟨partId, credits, [], [], [], [], isFinal, lhsKeep⟩

/-- `started_write` -/
def Chunk.started (c : Chunk α) : Bool := !c.parts.isEmpty

/-- `append` (`_mpu.py:117-120`) -/
def Chunk.append (c : Chunk α) (d : List α) (cid : Int) : Chunk α :=
  { c with observed := c.observed ++ [(d.length, cid)], data := c.data ++ d }

/-- `can_flush` inside `flush_rhs` (`_mpu.py:190-197`); `n = len(data)` -/
def canFlush (W : Writer) (c : Chunk α) (n : Nat) : Bool :=
  if c.credits < 1 then false
  else if c.started then c.isFinal || decide (W.minWrite ≤ n)
  else if c.isFinal then decide (c.lhsKeep < n)
  else decide ((W.minWrite : Int) ≤ (n : Int) - (c.lhsKeep : Int))

/-- `_flush_data` inside `flush_rhs` (`_mpu.py:174-188`) -/
def flushData (W : Writer) (c : Chunk α) (data : List α) : Res (Chunk α × List (Part α)) :=
  if ¬ (W.minPart ≤ c.next ∧ c.next ≤ W.maxPart) then .error .assertion
  else
    let keep := !c.started && decide (0 < c.lhsKeep)
    let left' := if keep then data.take c.lhsKeep else c.left
    let d' := if keep then data.drop c.lhsKeep else data
    let p : Part α := ⟨c.next, d'⟩
    .ok ({ c with left := left', parts := c.parts ++ [p], data := [],
                  next := c.next + 1, credits := c.credits - 1 }, [p])

/-- `flush_rhs(write, extra_data)` (`_mpu.py:167-217`) -/
def flushRhs (w : Option Writer) (c : Chunk α) (extra : List α) : Res (Chunk α × List (Part α)) :=
  let data := c.data ++ extra
  if c.started then
    match w with
    | none => .error .runtimeError
    | some W => if canFlush W c data.length then flushData W c data else .error .assertion
  else
    match w with
    | some W =>
      if canFlush W c data.length then flushData W c data
      else .ok ({ c with left := c.left ++ data, data := [] }, [])
    | none => .ok ({ c with left := c.left ++ data, data := [] }, [])

/-- `MPUChunk.merge(lhs, rhs, write)` (`_mpu.py:126-165`) -/
def merge (w : Option Writer) (l r : Chunk α) : Res (Chunk α × List (Part α)) :=
  -- `MPUChunk.__init__` asserts `data is None or len(observed) > 0`; both branches pass `data`
  if (l.observed ++ r.observed).length = 0 then .error .assertion
  else if !r.started then
    if r.left.length ≠ 0 then .error .assertion
    else .ok ({ next := l.next, credits := l.credits + r.credits, data := l.data ++ r.data,
                left := l.left, parts := l.parts, observed := l.observed ++ r.observed,
                isFinal := r.isFinal, lhsKeep := l.lhsKeep }, [])
  else
    match flushRhs w l r.left with
    | .error e => .error e
    | .ok (l', ws) =>
      .ok ({ next := r.next, credits := r.credits, data := r.data, left := l'.left,
             parts := l'.parts ++ r.parts, observed := l.observed ++ r.observed,
             isFinal := r.isFinal, lhsKeep := l.lhsKeep }, ws)

/-- `maybe_write(write, spill_sz)` (`_mpu.py:256-284`), with the repaired size test
`bytes_to_write < max(spill_sz, min_write_sz)` -/
def maybeWrite (W : Writer) (spill : Nat) (c : Chunk α) : Res (Chunk α × List (Part α)) :=
  let rhsKeep : Nat := if c.isFinal then 0 else W.minWrite
  let partsToKeep : Int := if c.isFinal then 0 else 1
  let lhsKeep : Nat := if c.started then 0 else c.lhsKeep
  if c.credits - 1 < partsToKeep then .ok (c, [])
  else
    let btw : Int := (c.data.length : Int) - rhsKeep - lhsKeep
    if btw < ((max spill W.minWrite : Nat) : Int) then .ok (c, [])
    else
      let n := btw.toNat
      if lhsKeep = 0 then
        let p : Part α := ⟨c.next, c.data.take n⟩
        .ok ({ c with data := c.data.drop n, parts := c.parts ++ [p], next := c.next + 1,
                      credits := c.credits - 1 }, [p])
      else
        if c.left.length ≠ 0 then .error .assertion
        else
          let p : Part α := ⟨c.next, (c.data.drop lhsKeep).take n⟩
          .ok ({ c with left := c.data.take lhsKeep, data := c.data.drop (n + lhsKeep),
                        parts := c.parts ++ [p], next := c.next + 1, credits := c.credits - 1 }, [p])

/-- `flush(write, leftPartId, finalise=True)` (`_mpu.py:219-254`): returns the writer calls
made and the list handed to `write.finalise`. -/
def flush (W : Writer) (c : Chunk α) (leftPartId : Option Nat) :
    Res (List (Part α) × List (Part α)) :=
  if !c.started then
    if c.left.length ≠ 0 then .error .assertion
    else
      let pid := match leftPartId with | none => c.next | some v => v
      let p : Part α := ⟨pid, c.data⟩
      .ok ([p], c.parts ++ [p])
  else
    let r1 : Res (Chunk α × List (Part α)) :=
      if c.data.length ≠ 0 then flushRhs (some W) { c with isFinal := true } [] else .ok (c, [])
    match r1 with
    | .error e => .error e
    | .ok (c1, w1) =>
      if c1.left.length ≠ 0 then
        if c1.left.length < W.minWrite then .error .assertion
        else
          let pid := match leftPartId with | none => 1 | some v => v
          let p : Part α := ⟨pid, c1.left⟩
          .ok (w1 ++ [p], p :: c1.parts)
      else .ok (w1, c1.parts)

/-- the loop body of `_mpu_append_chunks_op` -/
def appendStep (w : Option Writer) (spill : Nat) (acc : Res (Chunk α × List (Part α)))
    (chunk : List α × Int) : Res (Chunk α × List (Part α)) :=
  match acc with
  | .error e => .error e
  | .ok (c, ws) =>
    let c1 := c.append chunk.1 chunk.2
    match w with
    | none => .ok (c1, ws)
    | some W =>
      if spill = 0 then .ok (c1, ws)
      else match maybeWrite W spill c1 with
        | .error e => .error e
        | .ok (c2, ws2) => .ok (c2, ws ++ ws2)

/-- `_mpu_append_chunks_op` (`_mpu.py:440-454`), as repaired: while chunks of the partition
are still arriving the section is not treated as final. -/
def appendChunksOp (w : Option Writer) (spill : Nat) (c : Chunk α) (chunks : List (List α × Int)) :
    Res (Chunk α × List (Part α)) :=
  match chunks.foldl (appendStep w spill) (.ok ({ c with isFinal := false }, [])) with
  | .error e => .error e
  | .ok (c', ws) => .ok ({ c' with isFinal := c.isFinal }, ws)

/-- `_merge_and_spill_op` (`_mpu.py:457-468`); one step of `_mpu_collate_op` is the same. -/
def mergeAndSpill (w : Option Writer) (spill : Nat) (l r : Chunk α) :
    Res (Chunk α × List (Part α)) :=
  match merge w l r with
  | .error e => .error e
  | .ok (m, ws) =>
    match w with
    | none => .ok (m, ws)
    | some W =>
      if spill = 0 then .ok (m, ws)
      else match maybeWrite W spill m with
        | .error e => .error e
        | .ok (m', ws') => .ok (m', ws ++ ws')

/-- Merge tree over adjacent partitions; a leaf holds the `(bytes, chunk id)` items of one
partition. -/
inductive Tree (α : Type) where
  | leaf (chunks : List (List α × Int))
  | node (l r : Tree α)
  deriving Repr

def Tree.leaves : Tree α → Nat
  | .leaf _ => 1
  | .node l r => l.leaves + r.leaves

/-- configuration of one `mpu_write` call -/
structure Cfg where
  writer : Option Writer
  spill : Nat
  wpc : Nat            -- writes_per_chunk
  markFinal : Bool     -- `mk_footer is None`
  deriving Repr

def Cfg.minPart (cfg : Cfg) : Nat := match cfg.writer with | none => 1 | some W => W.minPart
def Cfg.lhsKeep (cfg : Cfg) : Nat := match cfg.writer with | none => 0 | some W => W.minWrite
/-- first part number of partition `i` (`mpu_write` / `gen_bunch`) -/
def Cfg.base (cfg : Cfg) (i : Nat) : Nat := cfg.minPart + 1 + i * cfg.wpc

/-! ### how `mpu_write` seeds the partitions of its bags (`_mpu.py`: `mpu_write`, `from_dask_bag`, `gen_bunch`) -/

/-- the empty section one partition starts from, as `gen_bunch` makes it -/
structure Seed where
  partId : Nat
  credits : Nat
  isFinal : Bool
  lhsKeep : Nat
  deriving Repr, DecidableEq

/-- `MPUChunk.gen_bunch(partId, n, writes_per_chunk=wpc, mark_final, lhs_keep)` -/
def genBunch (partId n wpc : Nat) (markFinal : Bool) (lhsKeep : Nat) : List Seed :=
  (List.range n).map fun idx => ⟨partId + idx * wpc, wpc, markFinal && decide (idx + 1 = n), lhsKeep⟩

/-- the loop of `mpu_write` over its bags (`nparts` = number of partitions of each bag): `partId` starts at
`min_part + 1` and advances by `npartitions * writes_per_chunk`; only the last bag may hold the final section
(`mark_final = mk_footer is None and idx == len(chunks) - 1`); every bag gets the same `lhs_keep`. -/
def mpuWriteSeedsFrom (cfg : Cfg) (partId : Nat) : List Nat → List (List Seed)
  | [] => []
  | n :: rest =>
    genBunch partId n cfg.wpc (cfg.markFinal && rest.isEmpty) cfg.lhsKeep ::
      mpuWriteSeedsFrom cfg (partId + n * cfg.wpc) rest

def mpuWriteSeeds (cfg : Cfg) (nparts : List Nat) : List (List Seed) :=
  mpuWriteSeedsFrom cfg (cfg.minPart + 1) nparts

/-- the seed `eval` gives the partition with global index `i` of `total` -/
def Cfg.seed (cfg : Cfg) (total i : Nat) : Seed :=
  ⟨cfg.base i, cfg.wpc, cfg.markFinal && decide (i + 1 = total), cfg.lhsKeep⟩

/-- Evaluate the merge tree whose first partition has global index `idx` of `total`. -/
def eval (cfg : Cfg) (total : Nat) : Tree α → Nat → Res (Chunk α × List (Part α))
  | .leaf chunks, idx =>
    appendChunksOp cfg.writer cfg.spill
      (mkChunk (cfg.base idx) cfg.wpc (cfg.markFinal && decide (idx + 1 = total)) cfg.lhsKeep) chunks
  | .node l r, idx =>
    match eval cfg total l idx with
    | .error e => .error e
    | .ok (cl, wl) =>
      match eval cfg total r (idx + l.leaves) with
      | .error e => .error e
      | .ok (cr, wr) =>
        match mergeAndSpill cfg.writer cfg.spill cl cr with
        | .error e => .error e
        | .ok (m, wm) => .ok (m, wl ++ wr ++ wm)

/-- result of `_finalizer_dask_op` -/
inductive Out (α : Type) where
  | chunk (c : Chunk α)                                   -- `write is None`: the root chunk
  | written (writes : List (Part α)) (finalParts : List (Part α))
  deriving Repr

/-- `_finalizer_dask_op` (`_mpu.py:471-500`), as repaired (`leftPartId = write.min_part`).
`hdr` / `ftr` are the bytes returned by the callbacks (`none`: callback absent). -/
def finalizer (w : Option Writer) (root : Chunk α) (hdr ftr : Option (List α)) :
    Res (Out α × List (Part α)) :=
  let root1 := match ftr with
    | some f => if f.length ≠ 0 then root.append f (-1) else root
    | none => root
  let r2 : Res (Chunk α × List (Part α)) := match hdr with
    | some h =>
      if h.length ≠ 0 then merge none ((mkChunk 1 1 false 0 : Chunk α).append h (-1)) root1
      else .ok (root1, [])
    | none => .ok (root1, [])
  match r2 with
  | .error e => .error e
  | .ok (root2, w0) =>
    match w with
    | none => .ok (.chunk root2, w0)
    | some W =>
      match flush W root2 (some W.minPart) with
      | .error e => .error e
      | .ok (ws, fin) => .ok (.written ws fin, w0 ++ ws)

/-- whole `mpu_write(...).compute()`: tree evaluation, callbacks on the observed list, finaliser.
Returns the outcome, every writer call made, and the observed list shown to the callbacks. -/
def run (cfg : Cfg) (t : Tree α) (mkHdr mkFtr : Option (List (Nat × Int) → List α)) :
    Res (Out α × List (Part α) × List (Nat × Int)) :=
  match eval cfg t.leaves t 0 with
  | .error e => .error e
  | .ok (root, ws) =>
    let hdr := mkHdr.map (fun f => f root.observed)
    let ftr := mkFtr.map (fun f => f root.observed)
    match finalizer cfg.writer root hdr ftr with
    | .error e => .error e
    | .ok (out, ws') => .ok (out, ws ++ ws', root.observed)

/-- all payload bytes of a tree in stream order -/
def Tree.bytes : Tree α → List α
  | .leaf chunks => (chunks.map (·.1)).flatten
  | .node l r => l.bytes ++ r.bytes

/-- the `(size, chunk id)` list of a tree in stream order -/
def Tree.obs : Tree α → List (Nat × Int)
  | .leaf chunks => chunks.map (fun ch => (ch.1.length, ch.2))
  | .node l r => l.obs ++ r.obs

def partsBytes (ps : List (Part α)) : List α := (ps.map (·.data)).flatten

end OdcGeo.C06
