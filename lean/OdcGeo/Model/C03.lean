/- Model for C03 (core Lean only, no Mathlib). -/
import OdcGeo.Model.IO
namespace OdcGeo.C03

end OdcGeo.C03
