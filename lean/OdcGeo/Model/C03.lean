/-
Model of reprojection planning, `odc/geo/overlap.py` (+ the numeric helpers of
`odc/geo/math.py` it calls and `roi_boundary` / `scaled_up_roi` of `odc/geo/roi.py`).
Core Lean only.  Reals are exact rationals; an ROI is `(yslice, xslice)`, a shape `(ny, nx)`.

The model follows the code *after* the three `fix:` commits of branch `fix-C03`
(align=0 normalised to None; `_can_paste` uses `>= stol`; alignment can not revive an empty
overlap in `_relative_rois`).
-/
import OdcGeo.Model.IO
import OdcGeo.Model.Affine
import OdcGeo.Model.C17
namespace OdcGeo.C03
open OdcGeo.C17

abbrev ROI := NSlice × NSlice
abbrev Shape := Int × Int

def emptyROI : ROI := (⟨0, 0⟩, ⟨0, 0⟩)

/-- `roi_is_empty` on a normalised 2-d roi (roi.py:478-489) -/
def ROI.isEmpty (r : ROI) : Bool := decide (r.1.stop - r.1.start ≤ 0) || decide (r.2.stop - r.2.start ≤ 0)

/-! ### numeric helpers (math.py:31-99, 155-170, 352-380) -/

def rabs (x : Rat) : Rat := if x < 0 then -x else x

/-- C `trunc` / Python `int(float)` -/
def trunc (x : Rat) : Int := if 0 ≤ x then x.floor else x.ceil

/-- `fmod(x, 1.0)`: sign of `x`, magnitude below 1 -/
def fmod1 (x : Rat) : Rat := x - (trunc x : Rat)

/-- `split_float` (finite input) -/
def splitFloat (x : Rat) : Rat × Rat :=
  let p := fmod1 x
  let w := x - p
  if p > 1 / 2 then (w + 1, p - 1)
  else if p < -(1 / 2) then (w - 1, p + 1)
  else (w, p)

/-- `maybe_int(x, tol)` (finite input) -/
def maybeInt (x tol : Rat) : Rat :=
  let wp := splitFloat x
  if rabs wp.2 < tol then wp.1 else x

/-- `is_almost_int(x, tol)` (finite input) -/
def isAlmostInt (x tol : Rat) : Bool :=
  let p := rabs (fmod1 x)
  let p := if p > 1 / 2 then 1 - p else p
  decide (p < tol)

/-- `snap_scale(s, tol)`.  The division `1 / s_inv_snapped` can not fail: it is reached only
for `tol ≤ |s| < 1 - tol`, where `|1/s| > 1` rounds to a non-zero integer. -/
def snapScale (s tol : Rat) : Rat :=
  if rabs s ≥ 1 - tol then maybeInt s tol
  else if rabs s < tol then s
  else
    let sInv := 1 / s
    let wp := splitFloat sInv
    if rabs wp.2 < tol then 1 / wp.1 else s

/-- exact values of the Python doubles used as default tolerances -/
def tol1em10 : Rat := mkRat 7737125245533627 77371252455336267181195264      -- 1e-10
def tol1em8 : Rat := mkRat 3022314549036573 302231454903657293676544          -- 1e-8
def tol1em3 : Rat := mkRat 1152921504606847 1152921504606846976               -- 1e-3

/-- `is_affine_st(A, tol=1e-10)` -/
def isAffineST (A : Aff) (tol : Rat := tol1em10) : Bool :=
  decide (rabs A.b < tol) && decide (rabs A.d < tol)

/-- `snap_affine(A, ttol, stol, tol=1e-8)` -/
def snapAffine (A : Aff) (ttol stol : Rat) (tol : Rat := tol1em8) : Aff :=
  if rabs A.b > tol ∨ rabs A.d > tol then A
  else ⟨snapScale A.a stol, 0, maybeInt A.c ttol, 0, snapScale A.e stol, maybeInt A.f ttol⟩

/-- `get_scale_from_linear_transform(A)` (overlap.py:192-202 through `decompose_rws`,
math.py:383-436): with `WS = cholesky(AᵀA)ᵀ` the diagonal is `(√(a²+d²), ±|det|/√(a²+d²))`.
The square root `n` is an input (`n*n = a²+d²`, `0 < n` is a hypothesis of the theorems; the
driver supplies the exact rational root). -/
def scale2 (A : Aff) (n : Rat) : Rat × Rat := (n, rabs A.det / n)

/-- `_pick_read_scale(scale, tol=1e-3)` (overlap.py:340-356) -/
def pickReadScale (scale : Rat) (tol : Rat := tol1em3) : Res Int :=
  if ¬ (scale > 0) then .error .assertion
  else if scale < 1 then .ok 1
  else .ok (trunc (maybeInt scale tol))

/-! ### `compute_axis_overlap`, `box_overlap` (overlap.py:239-323) -/

/-- lines 259-286: the body after mirroring, `s > 0` -/
def axisPos (Ns Nd : Int) (s t : Rat) : NSlice × NSlice :=
  let s_ := 1 / s
  let t_ := -t * s_
  let inn : Int × Int := if t < 0 then (0, min t_.floor Nd) else (min t.floor Ns, 0)
  let a := ((Nd : Rat) * s + t).ceil
  let out : Int × Int :=
    if a ≤ Ns then (max a 0, Nd) else (Ns, max 0 (((Ns : Rat) * s_ + t_).ceil))
  (⟨inn.1, out.1⟩, ⟨inn.2, out.2⟩)

/-- `compute_axis_overlap(Ns, Nd, s, t)` → `(src, dst)`; `s = 0` fails the `assert s > 0`. -/
def axisOverlap (Ns Nd : Int) (s t : Rat) : Res (NSlice × NSlice) :=
  if s < 0 then
    let r := axisPos Ns Nd (-s) ((Ns : Rat) - t)
    .ok (⟨Ns - r.1.stop, Ns - r.1.start⟩, r.2)
  else if s > 0 then .ok (axisPos Ns Nd s t)
  else .error .assertion

/-- `box_overlap(src_shape, dst_shape, ST)` → `(roi_src, roi_dst)`; y axis first (as the code). -/
def boxOverlap (src dst : Shape) (ST : Aff) : Res (ROI × ROI) :=
  match axisOverlap src.1 dst.1 ST.e ST.f with
  | .error e => .error e
  | .ok yy =>
    match axisOverlap src.2 dst.2 ST.a ST.c with
    | .error e => .error e
    | .ok xx => .ok ((yy.1, xx.1), (yy.2, xx.2))

/-! ### `_can_paste` (overlap.py:359-394) -/

def canPaste (A : Aff) (n : Rat) (stol ttol : Rat) : Res Bool :=
  if ¬ isAffineST A then .ok false
  else
    let sc := scale2 A n
    let scale := min sc.1 sc.2
    if ¬ isAlmostInt scale stol then .ok false
    else
      match pickReadScale scale with
      | .error e => .error e
      | .ok rs =>
        let k : Rat := 1 / (rs : Rat)
        let A_ := Aff.scale k k * A
        if rabs (rabs A_.a - 1) ≥ stol ∨ rabs (rabs A_.e - 1) ≥ stol then .ok false
        else if ¬ (isAlmostInt A_.c ttol ∧ isAlmostInt A_.f ttol) then .ok false
        else .ok true

/-! ### `roi_boundary` (roi.py:377-393), `edge_index` (math.py:508-536), `_relative_rois` -/

/-- `np.linspace(a, b, n)` for `n ≥ 2` (float32 is exact below 2^24 for the quarter points) -/
def linspace (a b : Int) (n : Nat) : List Rat :=
  (List.range n).map fun (i : Nat) =>
    (a : Rat) + ((i : Int) : Rat) * (((b - a : Int) : Rat) / (((n - 1 : Nat) : Int) : Rat))

/-- `edge_index((ny, nx))`, open ring, for `nx, ny ≥ 2`: `(iy, ix)` pairs -/
def edgeIndex (nx ny : Nat) : List (Nat × Nat) :=
  ((List.range nx).map fun ix => (0, ix)) ++
  ((List.range (ny - 1)).map fun k => (k + 1, nx - 1)) ++
  ((List.range (nx - 1)).map fun k => (ny - 1, nx - 2 - k)) ++
  ((List.range (ny - 2)).map fun k => (ny - 2 - k, 0))

/-- `roi_boundary(roi, pts_per_side)` → list of `(x, y)` -/
def roiBoundary (roi : ROI) (pps : Nat) : List (Rat × Rat) :=
  let xs := linspace roi.2.start roi.2.stop pps
  let ys := linspace roi.1.start roi.1.stop pps
  (edgeIndex pps pps).filterMap fun (iy, ix) =>
    match xs[ix]?, ys[iy]? with
    | some x, some y => some (x, y)
    | _, _ => none

/-- a point transform between pixel planes; may produce non-finite coordinates -/
abbrev PtTr := Rat × Rat → Coord × Coord

def linTr (A : Aff) : PtTr := fun p => (.fin (A.apply p).1, .fin (A.apply p).2)

/-- `_relative_rois(src, dst, tr, pts_per_side, padding, align)`; `back = tr.back` maps
destination pixels to source pixels, `fwd = tr` the other way. -/
def relativeRois (src dst : Shape) (back fwd : PtTr) (pps : Nat) (padding : Int)
    (align : Option Int) : ROI × ROI :=
  let pts := (roiBoundary (⟨0, dst.1⟩, ⟨0, dst.2⟩) pps).map back
  let roiSrc := fromPoints pts src.1 src.2 padding align
  let roiSrc :=
    if align.isSome ∧ ¬ ROI.isEmpty roiSrc ∧ ROI.isEmpty (fromPoints pts src.1 src.2 padding none)
    then emptyROI else roiSrc
  if ROI.isEmpty roiSrc then (roiSrc, emptyROI)
  else
    let xy := (roiBoundary roiSrc pps).map fwd
    (roiSrc, fromPoints xy dst.1 dst.2 0 none)

/-! ### `compute_reproject_roi` (overlap.py:419-555) -/

/-- `align == 0` means "no alignment" (normalised at the top of `compute_reproject_roi`) -/
def normAlign (align : Option Int) : Option Int := if align = some 0 then none else align

/-- `padding = 1 if padding is None else padding` -/
def padOr1 (padding : Option Int) : Int := match padding with | none => 1 | some p => p

structure Plan where
  roiSrc : ROI
  roiDst : ROI
  pasteOk : Bool
  readShrink : Int
  scale : Rat
  scale2 : Rat × Rat
  deriving Repr

/-- `GeoBox.compute_zoom_out(factor).shape` on one axis (geobox.py:341-344) -/
def zoomOutDim (n rs : Int) : Int := max 1 (((n : Rat) / (rs : Rat)).ceil)

def scaledUpROI (r : ROI) (k : Int) : ROI := (scaledUpSlice r.1 k none, scaledUpSlice r.2 k none)

/-- Same-CRS branch (lines 517-555).  `fwd = tr.A` maps source to destination pixels,
`A = tr.back.A` destination to source, `n = √(A.a² + A.d²)`. -/
def reprojectLinear (src dst : Shape) (fwd A : Aff) (n : Rat) (ttol stol : Rat)
    (padding align : Option Int) : Res Plan :=
  let align := if align = some 0 then none else align
  let sc := scale2 A n
  let scale := min sc.1 sc.2
  match pickReadScale scale with
  | .error e => .error e
  | .ok rs =>
    let tightOk := (align = none) ∧ (padding = none ∨ padding = some 0)
    let paste : Res Bool := if tightOk then canPaste A n stol ttol else .ok false
    match paste with
    | .error e => .error e
    | .ok true =>
      if rs = 1 then
        match boxOverlap src dst (snapAffine A ttol stol) with
        | .error e => .error e
        | .ok (rsrc, rdst) => .ok ⟨rsrc, rdst, true, rs, scale, sc⟩
      else
        let k : Rat := 1 / (rs : Rat)
        let src' : Shape := (zoomOutDim src.1 rs, zoomOutDim src.2 rs)
        match boxOverlap src' dst (snapAffine (Aff.scale k k * A) ttol stol) with
        | .error e => .error e
        | .ok (rsrc, rdst) => .ok ⟨scaledUpROI rsrc rs, rdst, true, rs, scale, sc⟩
    | .ok false =>
      let padding := match padding with | none => 1 | some p => p
      let r := relativeRois src dst (linTr A) (linTr fwd) 2 padding align
      .ok ⟨r.1, r.2, false, rs, scale, sc⟩

/-- `native_pix_transform` for two GeoBoxes of the same CRS with pixel→world transforms `S`
and `D` (`_same_crs_pix_transform`): `fwd = ~D * S`, `A = ~fwd`. -/
def reprojectGeoBoxes (src dst : Shape) (S D : Aff) (n : Rat) (ttol stol : Rat)
    (padding align : Option Int) : Res Plan :=
  match D.inv? with
  | .error e => .error e
  | .ok Di =>
    let fwd := Di * S
    match fwd.inv? with
    | .error e => .error e
    | .ok A => reprojectLinear src dst fwd A n ttol stol padding align

/-! ### `get_scale_at_point` (overlap.py:205-230) with `affine_from_pts` (math.py:471-496)

The transform is sampled on the 5-point stencil `pt, pt ± (r,0), pt ± (0,r)` and an affine map is fitted by least
squares (`np.linalg.lstsq`).  The stencil is symmetric about `pt`, so the columns of the centred design matrix are
orthogonal and the least-squares solution has the closed form below (central differences for the linear part, the mean
for the offset); `stencil_normal_equations` in Props proves that it satisfies the normal equations, i.e. that it IS the
least-squares fit.  `r = 1` when the code is called with `r=None`. -/

/-- the five sample points, in the order of the code -/
def stencilPts (pt : Rat × Rat) (r : Rat) : List (Rat × Rat) :=
  [(pt.1, pt.2), (pt.1 - r, pt.2), (pt.1, pt.2 - r), (pt.1 + r, pt.2), (pt.1, pt.2 + r)]

/-- `affine_from_pts(XX, tr(XX))` on the stencil -/
def stencilAffine (tr : Rat × Rat → Rat × Rat) (pt : Rat × Rat) (r : Rat) : Aff :=
  let y0 := tr (pt.1, pt.2)
  let yl := tr (pt.1 - r, pt.2)
  let yd := tr (pt.1, pt.2 - r)
  let yr := tr (pt.1 + r, pt.2)
  let yu := tr (pt.1, pt.2 + r)
  let a := (yr.1 - yl.1) / (2 * r)
  let b := (yu.1 - yd.1) / (2 * r)
  let d := (yr.2 - yl.2) / (2 * r)
  let e := (yu.2 - yd.2) / (2 * r)
  let mx := (y0.1 + yl.1 + yd.1 + yr.1 + yu.1) / 5
  let my := (y0.2 + yl.2 + yd.2 + yr.2 + yu.2) / 5
  ⟨a, b, mx - a * pt.1 - b * pt.2, d, e, my - d * pt.1 - e * pt.2⟩

/-- `get_scale_at_point(pt, tr, r)`; `n` is the root of `a² + d²` of the fitted map (as for `scale2`) -/
def scaleAtPoint (tr : Rat × Rat → Rat × Rat) (pt : Rat × Rat) (r n : Rat) : Rat × Rat :=
  scale2 (stencilAffine tr pt r) n

/-- Cross-CRS branch (lines 491-515): `back`/`fwd` stand for the pyproj-based
`GbxPointTransform`, `scaleAt` for `get_scale_at_point(·, tr.back)`. -/
def reprojectNonlinear (src dst : Shape) (back fwd : PtTr) (scaleAt : Rat × Rat → Rat × Rat)
    (padding align : Option Int) : Res Plan :=
  let r := relativeRois src dst back fwd 5 (padOr1 padding) (normAlign align)
  if ¬ ROI.isEmpty r.2 then
    let c : Rat × Rat := (((r.2.2.start + r.2.2.stop : Int) : Rat) / 2, ((r.2.1.start + r.2.1.stop : Int) : Rat) / 2)
    let sc := scaleAt c
    let scale := min sc.1 sc.2
    match pickReadScale scale with
    | .error e => .error e
    | .ok rs => .ok ⟨r.1, r.2, false, rs, scale, sc⟩
  else .ok ⟨r.1, r.2, false, 1, 0, (0, 0)⟩

end OdcGeo.C03
