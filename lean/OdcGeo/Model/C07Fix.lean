/-
Model for C07, second part — the option paths of `Geometry.to_crs` and their public users
(core Lean only).

Modelled code (odc-geo /repo main incl. ee68993 = branch fix2-C07 d1ecfff):

* `_multigeom`, `multigeom`            geom.py:1258-1278  → `multigeomRaw`
* `clip_lon180` incl. its `Multi*` branch (parts clipped one by one, re-assembled by `multigeom`)
                                       geom.py:1078-1112  → `clipLon180AsFound` (before fix2-C07), `clipLon180R`
* `chop_along_antimeridian`            geom.py:1115-1131  → `chopAlong` (shapely `intersects` / `split` are parameters)
* `Geometry.filter`, `dropna`          geom.py:982-1027   → `filterGeom` / `filterList`, `closeRing`, `mkPolygon`
* `maybe_fix` inside `to_crs`          geom.py:733-739    → `maybeFix` (shapely `is_valid`, `buffer(0)` are parameters)
* `Geometry.to_crs` with every option  geom.py:681-749    → `toCrsAll`
* `lonlat_bounds`                      geom.py:1396-1445  → `lonlatWrap`, `lonlatBounds`
* `BoundingBox.from_xy`                geom.py:247-260    → the `sorted` of `lonlatWrap`
* `_auto_resolution`                   geom.py:1456-1458  → `autoResOf` (the square root of the area is a witness)
* `mid_longitude`                      geom.py:1448-1453  → `midLongitude` (shapely `centroid` is a parameter)

What shapely does when a geometry is *constructed* from a coordinate list (`LinearRing(pts)`,
`Polygon(shell, holes)`: implicit closing, "A linearring requires at least 4 coordinates",
"shell is empty but holes are not") is reference semantics, not odc-geo code: `closeRing`, `mkPolygon`.
It is validated against the installed shapely by the harness on every run (`c07 closering`).
-/
import OdcGeo.Model.C07
namespace OdcGeo.C07

/-- errors of this part: the shared kinds plus `KeyError` (`set().pop()` in `_multigeom`) and
shapely's `GEOSException` -/
inductive Err7 where
  | base (e : ErrKind)
  | keyError
  | geos
  deriving DecidableEq, Repr

def Err7.toStr : Err7 → String
  | .base e => e.toStr
  | .keyError => "ERR:KeyError"
  | .geos => "ERR:GEOSException"

abbrev Res7 (α : Type) := Except Err7 α

def liftRes {α : Type} : Res α → Res7 α
  | .ok a => .ok a
  | .error e => .error (.base e)

/-- `geom.geom_type` -/
inductive Kind where
  | point | multiPoint | lineString | linearRing | polygon | multiLineString | multiPolygon | collection
  deriving DecidableEq, Repr

section
variable {K : Type}

def kind : Geom K → Kind
  | .point _ => .point
  | .multiPoint _ => .multiPoint
  | .lineString _ => .lineString
  | .linearRing _ => .linearRing
  | .polygon _ _ => .polygon
  | .multiLineString _ => .multiLineString
  | .multiPolygon _ => .multiPolygon
  | .collection _ => .collection

mutual
/-- shapely `is_empty` (a `Geom.point` always has its coordinate; the empty point is `Filtered.emptyPoint`) -/
def isEmpty : Geom K → Bool
  | .point _ => false
  | .multiPoint ps => ps.isEmpty
  | .lineString cs => cs.isEmpty
  | .linearRing cs => cs.isEmpty
  | .polygon ext _ => ext.isEmpty
  | .multiLineString gs => allEmpty gs
  | .multiPolygon gs => allEmpty gs
  | .collection gs => allEmpty gs
def allEmpty : List (Geom K) → Bool
  | [] => true
  | g :: gs => isEmpty g && allEmpty gs
end

/-- `geom.geoms` -/
def parts : Geom K → List (Geom K)
  | .multiPoint ps => ps.map Geom.point
  | .multiLineString gs => gs
  | .multiPolygon gs => gs
  | .collection gs => gs
  | _ => []

/-- the coordinates of the `Point` parts handed to `geometry.MultiPoint(geoms)` -/
def pointsOf : List (Geom K) → List (Pt K)
  | [] => []
  | .point p :: gs => p :: pointsOf gs
  | _ :: gs => pointsOf gs

/-- `_multigeom(geoms)`: more than one geometry type → `GeometryCollection` of everything; otherwise
the empty parts are dropped and the one type decides — `src_type.pop()` of an empty set
(no parts at all) is a `KeyError`. -/
def multigeomRaw (gs : List (Geom K)) : Res7 (Geom K) :=
  match gs with
  | [] => .error .keyError
  | g :: rest =>
    if rest.all (fun h => decide (kind h = kind g)) then
      let ne := gs.filter (fun h => !isEmpty h)
      match kind g with
      | .polygon => .ok (.multiPolygon ne)
      | .point => .ok (.multiPoint (pointsOf ne))
      | .lineString => .ok (.multiLineString ne)
      | _ => .ok (.collection ne)
    else .ok (.collection gs)

/-- `geom.geom_type.startswith("Multi")` -/
def isMultiName : Geom K → Bool
  | .multiPoint _ => true
  | .multiLineString _ => true
  | .multiPolygon _ => true
  | _ => false

/-- `chop_along_antimeridian(geom, precision)` for a geometry with CRS: `hit` is
`geom.intersects(projected_lon(crs, 180))`, `split` the pieces of `geom.split(l180)` -/
def chopAlong (hit : Geom K → Bool) (split : Geom K → List (Geom K)) (g : Geom K) : Res7 (Geom K) :=
  if hit g then multigeomRaw (split g) else .ok g

end

section
variable {K : Type} [Zero K] [Add K] [Sub K] [Neg K] [LT K] [LE K] [DecidableLT K] [DecidableLE K]

/-- `clip_lon180(geom, tol)` as found: a `Multi*` geometry is taken apart, every part is clipped and
`multigeom` puts the parts together again — `KeyError` when there is no part. -/
def clipLon180AsFound (c180 tol : K) (g : Geom K) : Res7 (Geom K) :=
  if isMultiName g then multigeomRaw ((parts g).map (mapRings (clipRing c180 (c180 - tol))))
  else .ok (mapRings (clipRing c180 (c180 - tol)) g)

/-- `clip_lon180(geom, tol)` after fix2-C07: `if geom.geom_type.startswith("Multi") and not geom.is_empty` -/
def clipLon180R (c180 tol : K) (g : Geom K) : Res7 (Geom K) :=
  if isMultiName g && !isEmpty g then multigeomRaw ((parts g).map (mapRings (clipRing c180 (c180 - tol))))
  else .ok (mapRings (clipRing c180 (c180 - tol)) g)

end

/-! ### `Geometry.filter`, `dropna` -/

/-- what `filter` can return: a geometry, or `POINT EMPTY` (a point whose coordinate was rejected) -/
inductive Filtered (K : Type) where
  | geom (g : Geom K)
  | emptyPoint

section
variable {K : Type} [DecidableEq K]

/-- shapely `LinearRing(pts)` / the shell or a hole of `Polygon(...)`: nothing → empty; one or two
coordinates → `ValueError`; three → closed by repeating the first; four or more → closed only if
not closed already. -/
def closeRing : List (Pt K) → Res7 (List (Pt K))
  | [] => .ok []
  | p :: cs =>
    if cs.length + 1 < 3 then .error (.base .valueError)
    else if cs.length + 1 = 3 then .ok (p :: cs ++ [p])
    else if (p :: cs).getLast? = some p then .ok (p :: cs)
    else .ok (p :: cs ++ [p])

def closeRings : List (List (Pt K)) → Res7 (List (List (Pt K)))
  | [] => .ok []
  | c :: cs => match closeRing c with
    | .error e => .error e
    | .ok c' => match closeRings cs with
      | .error e => .error e
      | .ok cs' => .ok (c' :: cs')

/-- `polygon(outer, crs, *inners)` → `geometry.shape({"type": "Polygon", …})` -/
def mkPolygon (ext : List (Pt K)) (holes : List (List (Pt K))) : Res7 (Geom K) :=
  match closeRing ext with
  | .error e => .error e
  | .ok ext' => match closeRings holes with
    | .error e => .error e
    | .ok holes' =>
      if ext'.isEmpty && !holes'.isEmpty then .error .geos   -- "shell is empty but holes are not"
      else .ok (.polygon ext' holes')

/-- `if len(pts) == 1: pts = []  # need at least 2 points for this type` -/
def dropSingle (pts : List (Pt K)) : List (Pt K) := if pts.length = 1 then [] else pts

mutual
/-- `Geometry.filter(pred)` (geom.py:982-1021) -/
def filterGeom (pred : Pt K → Bool) : Geom K → Res7 (Filtered K)
  | .polygon ext holes =>
    match mkPolygon (ext.filter pred) ((holes.map (fun h => h.filter pred)).filter (fun r => decide (3 ≤ r.length))) with
    | .error e => .error e
    | .ok g => .ok (.geom g)
  | .lineString cs => .ok (.geom (.lineString (dropSingle (cs.filter pred))))
  | .linearRing cs =>
    match closeRing (dropSingle (cs.filter pred)) with
    | .error e => .error e
    | .ok r => .ok (.geom (.linearRing r))
  | .point p => if pred p then .ok (.geom (.point p)) else .ok .emptyPoint
  | .multiPoint ps => .ok (.geom (.multiPoint (ps.filter pred)))
  | .multiLineString gs => match filterList pred gs with
    | .error e => .error e
    | .ok gs' => .ok (.geom (.multiLineString gs'))
  | .multiPolygon gs => match filterList pred gs with
    | .error e => .error e
    | .ok gs' => .ok (.geom (.multiPolygon gs'))
  | .collection gs => match filterList pred gs with
    | .error e => .error e
    | .ok gs' => .ok (.geom (.collection gs'))
/-- `[g for g in [g.filter(pred).geom for g in self.geoms] if not g.is_empty]` -/
def filterList (pred : Pt K → Bool) : List (Geom K) → Res7 (List (Geom K))
  | [] => .ok []
  | g :: gs => match filterGeom pred g with
    | .error e => .error e
    | .ok f => match filterList pred gs with
      | .error e => .error e
      | .ok gs' => match f with
        | .emptyPoint => .ok gs'
        | .geom g' => if isEmpty g' then .ok gs' else .ok (g' :: gs')
end

/-- `maybe_fix(g)` inside `to_crs` (geom.py:733-739): `is_valid`, `buffer(0)` are shapely; `finite` is
`math.isfinite(x) and math.isfinite(y)` -/
def maybeFix (caf : Bool) (isValid : Geom K → Bool) (buffer0 : Geom K → Geom K) (finite : Pt K → Bool)
    (g : Geom K) : Res7 (Filtered K) :=
  if !caf || isValid g then .ok (.geom g)
  else match filterGeom finite g with
    | .error e => .error e
    | .ok .emptyPoint => .ok .emptyPoint
    | .ok (.geom g') =>
      if (decide (kind g' = .polygon) || decide (kind g' = .multiPolygon)) && !isValid g' then .ok (.geom (buffer0 g'))
      else .ok (.geom g')

end

section
variable {K : Type} [Zero K] [Add K] [Sub K] [Neg K] [Mul K] [Div K] [LT K] [LE K] [DecidableLT K] [DecidableLE K]
  [DecidableEq K]

/-- `clip_lon180` of what `maybe_fix` returned (`POINT EMPTY` is not a `Multi*`; `ops.transform`
hands an empty geometry back) -/
def clipFiltered (clipFn : Geom K → Res7 (Geom K)) : Filtered K → Res7 (Filtered K)
  | .emptyPoint => .ok .emptyPoint
  | .geom g => match clipFn g with
    | .error e => .error e
    | .ok g' => .ok (.geom g')

/-- `Geometry.to_crs` with every option, `clip_lon180` as a parameter (`clipFn`: as found / repaired) -/
def toCrsAllWith (clipFn : Geom K → Res7 (Geom K)) (E : Env K) (proj : C01.CrsRec → C01.CrsRec → Pt K → Pt K) (autoRes : Geom K → K)
    (hit : Geom K → Bool) (split : Geom K → List (Geom K))
    (isValid : Geom K → Bool) (buffer0 : Geom K → Geom K) (finite : Pt K → Bool)
    (g : Tagged K) (target : C01.Tag) (geographic : Bool) (res : Resolution K) (wrapdateline caf : Bool) :
    Res7 (C01.Tag × Filtered K) :=
  match target with
  | none => .error (.base .valueError)
  | some t =>
    if C01.tagEq g.crs (some t) then .ok (g.crs, .geom g.geom)
    else match g.crs with
      | none => .error (.base .valueError)
      | some s =>
        let r? : Option K := match res with
          | .none => Option.none
          | .nonfinite => Option.none
          | .auto => some (autoRes g.geom)
          | .val r => some r
        let densified : Res (Geom K) := match r? with
          | Option.none => .ok g.geom
          | some r => if 0 < r then segmentize E r g.geom else .ok g.geom
        match densified with
        | .error e => .error (.base e)
        | .ok geom =>
          if wrapdateline && geographic then
            match chopAlong hit split geom with
            | .error e => .error e
            | .ok chopped =>
              match maybeFix caf isValid buffer0 finite (mapPts (proj s t) chopped) with
              | .error e => .error e
              | .ok f => match clipFiltered clipFn f with
                | .error e => .error e
                | .ok f' => .ok (some t, f')
          else
            match maybeFix caf isValid buffer0 finite (mapPts (proj s t) geom) with
            | .error e => .error e
            | .ok f => .ok (some t, f)

/-- **`Geometry.to_crs(crs, resolution, wrapdateline, check_and_fix=…)`**, every option (geom.py:681-749).
`hit` / `split`: shapely `intersects` / `split` with the projected antimeridian; `isValid`, `buffer0`:
shapely; `finite`: `math.isfinite` on both coordinates; `c180`, `eps`: the numbers 180 and 1e-4. -/
def toCrsAll (E : Env K) (proj : C01.CrsRec → C01.CrsRec → Pt K → Pt K) (autoRes : Geom K → K)
    (hit : Geom K → Bool) (split : Geom K → List (Geom K))
    (isValid : Geom K → Bool) (buffer0 : Geom K → Geom K) (finite : Pt K → Bool) (c180 eps : K)
    (g : Tagged K) (target : C01.Tag) (geographic : Bool) (res : Resolution K) (wrapdateline caf : Bool) :
    Res7 (C01.Tag × Filtered K) :=
  toCrsAllWith (clipLon180R c180 eps) E proj autoRes hit split isValid buffer0 finite g target geographic res
    wrapdateline caf

/-- the same before fix2-C07 (`clip_lon180` as found) -/
def toCrsAllAsFound (E : Env K) (proj : C01.CrsRec → C01.CrsRec → Pt K → Pt K) (autoRes : Geom K → K)
    (hit : Geom K → Bool) (split : Geom K → List (Geom K))
    (isValid : Geom K → Bool) (buffer0 : Geom K → Geom K) (finite : Pt K → Bool) (c180 eps : K)
    (g : Tagged K) (target : C01.Tag) (geographic : Bool) (res : Resolution K) (wrapdateline caf : Bool) :
    Res7 (C01.Tag × Filtered K) :=
  toCrsAllWith (clipLon180AsFound c180 eps) E proj autoRes hit split isValid buffer0 finite g target geographic res
    wrapdateline caf

end

/-! ### `lonlat_bounds`, `mid_longitude`, `_auto_resolution` -/

section
variable {K : Type}
mutual
/-- the vertices shapely's `bounds` looks at: the envelope of a polygon is the envelope of its
shell, holes do not count (they matter only for an invalid polygon whose holes leave the shell) -/
def shellVertices : Geom K → List (Pt K)
  | .point p => [p]
  | .multiPoint ps => ps
  | .lineString cs => cs
  | .linearRing cs => cs
  | .polygon ext _ => ext
  | .multiLineString gs => shellVerticesList gs
  | .multiPolygon gs => shellVerticesList gs
  | .collection gs => shellVerticesList gs
def shellVerticesList : List (Geom K) → List (Pt K)
  | [] => []
  | g :: gs => shellVertices g ++ shellVerticesList gs
end
end

section
variable {K : Type} [Zero K] [Add K] [Sub K] [LT K] [DecidableLT K]

/-- the longitude range of `lonlat_bounds` (geom.py:1427-1445) from the range `(x0, x1)` of the
converted geometry's bounding box: in `safe` mode a range wider than 180° is re-read with negative
longitudes moved up by 360° and the narrower of the two readings is kept; then
`BoundingBox.from_xy` sorts the pair. -/
def lonlatWrap (safe : Bool) (c180 c360 x0 x1 : K) : K × K :=
  let span := x1 - x0
  let rng : K × K :=
    if safe && decide (c180 < span) then
      let a := if x0 < 0 then x0 + c360 else x0
      let b := if x1 < 0 then x1 + c360 else x1
      let lo := minK a b
      let hi := maxK a b
      if hi - lo < span then (lo, hi) else (x0, x1)
    else (x0, x1)
  (minK rng.1 rng.2, maxK rng.1 rng.2)

/-- `BoundingBox.from_xy(x, y)`: both ranges sorted -/
def fromXY (x y : K × K) : K × K × K × K :=
  (minK x.1 x.2, minK y.1 y.2, maxK x.1 x.2, maxK y.1 y.2)

end

section
variable {K : Type} [Zero K] [Add K] [Sub K] [Neg K] [Mul K] [Div K] [LT K] [LE K] [DecidableLT K] [DecidableLE K]
  [DecidableEq K]

/-- bounds of what `to_crs(…, check_and_fix=True)` returned; `none`: empty (shapely: four NaN) -/
def boundsF : Filtered K → Option (K × K × K × K)
  | .emptyPoint => none
  | .geom g => boundsOf (shellVertices g)

/-- **`lonlat_bounds(geom, mode, resolution)`** (geom.py:1396-1445).  `geographic` is
`geom.crs.geographic`; `t4326` the record of `CRS("EPSG:4326")` / `CRS(4326)`. -/
def lonlatBounds (E : Env K) (proj : C01.CrsRec → C01.CrsRec → Pt K → Pt K) (autoRes : Geom K → K)
    (isValid : Geom K → Bool) (buffer0 : Geom K → Geom K) (finite : Pt K → Bool) (c180 c360 : K)
    (t4326 : C01.CrsRec) (g : Tagged K) (geographic safe : Bool) (res : Resolution K) :
    Res7 (C01.Tag × Option (K × K × K × K)) :=
  match g.crs with
  | none => .error (.base .valueError)
  | some _ =>
    if geographic then .ok (g.crs, boundsOf (shellVertices g.geom))
    else
      let r? : Option K := match res with
        | .none => Option.none
        | .nonfinite => Option.none
        | .auto => some (autoRes g.geom)
        | .val r => some r
      let densified : Res (Geom K) := match r? with
        | Option.none => .ok g.geom
        | some r => if 0 < r then segmentize E r g.geom else .ok g.geom
      match densified with
      | .error e => .error (.base e)
      | .ok geom =>
        match toCrsAll E proj autoRes (fun _ => false) (fun _ => []) isValid buffer0 finite c180 c180
            ⟨g.crs, geom⟩ (some t4326) true .none false true with
        | .error e => .error e
        | .ok (_, f) =>
          match boundsF f with
          | none => .ok (some t4326, none)
          | some b =>
            let xr := lonlatWrap safe c180 c360 b.1 b.2.2.1
            .ok (some t4326, some (fromXY xr (b.2.1, b.2.2.2)))

/-- `_auto_resolution(g)` = `math.sqrt(g.area) * 4 / 100`, `s` the square root of the area -/
def autoResOf (s c4 c100 : K) : K := s * c4 / c100

/-- `mid_longitude(geom)` = x of `geom.centroid.to_crs("epsg:4326")`; `centroid` is shapely's -/
def midLongitude (E : Env K) (proj : C01.CrsRec → C01.CrsRec → Pt K → Pt K) (autoRes : Geom K → K)
    (centroid : Geom K → Pt K) (t4326 : C01.CrsRec) (g : Tagged K) : Res K :=
  match toCrs E proj autoRes ⟨g.crs, .point (centroid g.geom)⟩ (some t4326) .none with
  | .error e => .error e
  | .ok g' => match vertices g'.geom with
    | p :: _ => .ok p.x
    | [] => .error .valueError

end

/-! ### `Geometry.geojson` (geom.py:757-813) -/

/-- a GeoJSON Feature (its geometry) or a FeatureCollection of them -/
inductive GJ (K : Type) where
  | feature (g : Filtered K)
  | fc (fs : List (GJ K))

section
variable {K : Type} [Zero K] [Add K] [Sub K] [Neg K] [Mul K] [Div K] [LT K] [LE K] [DecidableLT K] [DecidableLE K]
  [DecidableEq K]

/-- the options `geojson` hands to every `to_crs` call, and shapely's `simplify` (applied when
`simplify > 0`; `simp = id` for `simplify=0`) -/
structure GJOpts (K : Type) where
  E : Env K
  proj : C01.CrsRec → C01.CrsRec → Pt K → Pt K
  autoRes : Geom K → K
  hit : Geom K → Bool
  split : Geom K → List (Geom K)
  c180 : K
  eps : K
  t4326 : C01.CrsRec
  simp : Geom K → Geom K
  res : Resolution K
  wrapdateline : Bool
  /-- `clip_lon180` as found (before fix2-C07) instead of the repaired one -/
  asFound : Bool := false

/-- the non-collection branch: `to_crs("epsg:4326", resolution=…, wrapdateline=…)` when the geometry
has a CRS, the geometry itself otherwise; then `simplify` -/
def geojsonLeaf (o : GJOpts K) (crs : C01.Tag) (g : Geom K) : Res7 (GJ K) :=
  match crs with
  | none => .ok (.feature (.geom (o.simp g)))
  | some _ =>
    match toCrsAllWith (if o.asFound then clipLon180AsFound o.c180 o.eps else clipLon180R o.c180 o.eps)
        o.E o.proj o.autoRes o.hit o.split (fun _ => true) id (fun _ => true)
        ⟨crs, g⟩ (some o.t4326) true o.res o.wrapdateline false with
    | .error e => .error e
    | .ok (_, .geom g') => .ok (.feature (.geom (o.simp g')))
    | .ok (_, .emptyPoint) => .ok (.feature .emptyPoint)

mutual
/-- `Geometry.geojson(properties, simplify, resolution, wrapdateline)`: a `GeometryCollection` is
rendered member by member **with the same options**, recursively -/
def geojson (o : GJOpts K) (crs : C01.Tag) : Geom K → Res7 (GJ K)
  | .collection gs => match geojsonList o crs gs with
    | .error e => .error e
    | .ok fs => .ok (.fc fs)
  | .point p => geojsonLeaf o crs (.point p)
  | .multiPoint ps => geojsonLeaf o crs (.multiPoint ps)
  | .lineString cs => geojsonLeaf o crs (.lineString cs)
  | .linearRing cs => geojsonLeaf o crs (.linearRing cs)
  | .polygon e h => geojsonLeaf o crs (.polygon e h)
  | .multiLineString gs => geojsonLeaf o crs (.multiLineString gs)
  | .multiPolygon gs => geojsonLeaf o crs (.multiPolygon gs)
def geojsonList (o : GJOpts K) (crs : C01.Tag) : List (Geom K) → Res7 (List (GJ K))
  | [] => .ok []
  | g :: gs => match geojson o crs g with
    | .error e => .error e
    | .ok f => match geojsonList o crs gs with
      | .error e => .error e
      | .ok fs => .ok (f :: fs)
end

end

/-! ### `projected_lon`, `chop_along_antimeridian` (geom.py:1049-1131), `_geojson_to_shapely` (geom.py:420-440) -/

section
variable {K : Type}

/-- `projected_lon(crs, lon, lat, step)` from the sampled latitudes `ys = arange(lat[0], lat[1], step)`:
the meridian is sent through the EPSG:4326 → `crs` transformer point by point, points that do not
project (`not isfinite`) are dropped, and fewer than two surviving points give the empty line -/
def projectedLon (tr : Pt K → Pt K) (finite : Pt K → Bool) (lon : K) (ys : List K) : List (Pt K) :=
  let pts := (ys.map (fun y => tr ⟨lon, y⟩)).filter finite
  if pts.length < 2 then [] else pts

/-- `chop_along_antimeridian(geom, precision)`: no CRS → `ValueError`; `hit l180 g` is
`geom.intersects(l180)`, `split l180 g` the pieces of `geom.split(l180)` (shapely), re-assembled by
`multigeom`; a geometry that does not meet the projected antimeridian is handed back as it is -/
def chopFull (crs : C01.Tag) (l180 : List (Pt K)) (hit : List (Pt K) → Geom K → Bool)
    (split : List (Pt K) → Geom K → List (Geom K)) (g : Geom K) : Res7 (Geom K) :=
  match crs with
  | none => .error (.base .valueError)
  | some _ => chopAlong (hit l180) (split l180) g

/-- what `Geometry(dict)` is given -/
inductive GJIn (K : Type) where
  | noType                                   -- no `"type"` key
  | featureCollection (fs : List (Geom K))   -- the geometries of its features, in order
  | feature (g : Geom K)
  | geometry (g : Geom K)                    -- a plain GeoJSON geometry

/-- `_geojson_to_shapely(xx)`: a FeatureCollection with exactly one feature is that feature's
geometry, any other number goes through `_multigeom` (none: `KeyError`); a Feature is its geometry -/
def geojsonToShape : GJIn K → Res7 (Geom K)
  | .noType => .error (.base .valueError)
  | .featureCollection [g] => .ok g
  | .featureCollection fs => multigeomRaw fs
  | .feature g => .ok g
  | .geometry g => .ok g

end

/-- `numpy.arange(lat0, lat1, step)` over `Rat` (positive step): `⌈(lat1 - lat0) / step⌉` samples -/
def arangeRat (lat0 lat1 step : Rat) : List Rat :=
  if step ≤ 0 then []
  else (List.range (Rat.ceil ((lat1 - lat0) / step)).toNat).map (fun (k : Nat) => lat0 + (k : Rat) * step)

end OdcGeo.C07
