/-
Definitions shared by the two COG writers (C05: `_tifffile.py`, C15: `_rio.py`), owned by the C05/C15 builder.

* `adjust_blocksize` / `align_up` live in `OdcGeo.Model.C05` (one definition; `Model/C15.lean` imports it).
* here: how an affine pixel→world transform is laid down in GeoTIFF tags.  odc-geo does not compute these tags itself:
  `_rio._write_cog` hands `geobox.transform` to GDAL, and `_tifffile.geotiff_metadata` copies the tags GDAL wrote for
  `geobox[:2, :2]` (the tags in `_shared.GEOTIFF_TAGS`) into its own header.  So this is REFERENCE semantics of
  GDAL's GTiff driver (validated against real files on every run, tag by tag), against which "the file carries the
  GeoBox's transform" is stated:

    north-up (b = d = 0, e < 0):  ModelPixelScale (33550) = (a, -e, 0),  ModelTiepoint (33922) = (0,0,0, c, f, 0)
    anything else (rotated, sheared, south-up):  ModelTransformation (34264) = the 4x4 matrix, row major
-/
import OdcGeo.Model.IO
import OdcGeo.Model.Affine
namespace OdcGeo.Cog

/-- the geo-registration tags of one IFD -/
inductive GeoTags where
  | scaleTie (scale : List Rat) (tie : List Rat)      -- 33550 (3 doubles) + 33922 (6 doubles)
  | matrix (m : List Rat)                             -- 34264 (16 doubles)
  deriving DecidableEq, Repr

/-- what GDAL writes for transform `A` -/
def encodeTransform (A : Aff) : GeoTags :=
  if A.b = 0 ∧ A.d = 0 ∧ A.e < 0 then .scaleTie [A.a, -A.e, 0] [0, 0, 0, A.c, A.f, 0]
  else .matrix [A.a, A.b, 0, A.c, A.d, A.e, 0, A.f, 0, 0, 0, 0, 0, 0, 0, 1]

/-- what a reader reconstructs (GeoTIFF spec §2.6: raster→model via tiepoint + scale, or the matrix);
`none` for tag payloads of the wrong length -/
def decodeTransform : GeoTags → Option Aff
  | .scaleTie [sx, sy, _] [i, j, _, x, y, _] => some ⟨sx, 0, x - i * sx, 0, -sy, y + j * sy⟩
  | .matrix [a, b, _, c, d, e, _, f, _, _, _, _, _, _, _, _] => some ⟨a, b, c, d, e, f⟩
  | _ => none

/-- `geobox[:2, :2]` / `GeoBox.expand` / crop keep the affine: the tags do not depend on the image shape -/
def cropKeepsAffine (A : Aff) (_shape : Nat × Nat) : Aff := A

end OdcGeo.Cog
