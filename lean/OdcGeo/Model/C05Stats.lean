/-
Model for C05, part 4 — `_tifffile._stats_from_layer` (70-117) on integer pixel data (core Lean only).

The reductions run over the two spatial axes `(yaxis, yaxis + 1)` of the layer, so there is one result per remaining index:
one for a 2-D image, one per sample for band-last (`YXS`, yaxis 0) and one per band for band-first (`SYX`, yaxis 1); with a
nodata value the pixels equal to it are masked (`da.ma.masked_equal`) and do not take part.  `_unwrap_stats` then turns the
per-key vectors into one dict per band (`unwrapStats`, Model/C05Meta.lean).

Modelled: `minimum`, `maximum`, `mean` (exact rational: sum / count of the valid pixels; numpy / dask divide the exact
integer sum once, correctly rounded) and the count behind `valid_percent` (= count · (100 / npix), a float product).
Not modelled: `stddev` (square root), floating point pixel data (nan-aware branch), non-finite results.
-/
import OdcGeo.Model.C05Meta
namespace OdcGeo.C05

/-- the pixels of every band / sample, in C order of the spatial axes; `data` is the layer as nested lists in ITS axis order
(`YX` images are passed as one band) -/
def bandsOf (ax : Axis) (data : List (List (List Int))) : List (List Int) :=
  match ax with
  | .YXS =>
    let cells := data.flatten                      -- one `[s0, s1, …]` per pixel
    let ns := (cells.head?.map List.length).getD 0
    (List.range ns).map fun s => cells.filterMap (·[s]?)
  | _ => data.map List.flatten                     -- SYX; a YX image is the single band `[rows]`

/-- what is computed for one band -/
structure BandStats where
  minimum : Option Int          -- `none`: every pixel masked (numpy's masked constant)
  maximum : Option Int
  mean : Option Rat
  valid : Nat                   -- number of pixels that take part
  npix : Nat
  deriving DecidableEq, Repr

/-- pixels that take part: all of them, or those different from the nodata value -/
def validPixels (pix : List Int) (nodata : Option Int) : List Int :=
  match nodata with
  | some nd => pix.filter (· != nd)
  | none => pix

def bandStats (pix : List Int) (nodata : Option Int) : BandStats :=
  let v := validPixels pix nodata
  ⟨v.min?, v.max?, if v.isEmpty then none else some ((v.sum : Rat) / (v.length : Rat)), v.length, pix.length⟩

/-- `_stats_from_layer(layer, nodata, yaxis)` followed by `_unwrap_stats`: one record per band -/
def statsFromLayer (ax : Axis) (data : List (List (List Int))) (nodata : Option Int) : List BandStats :=
  (bandsOf ax data).map fun pix => bandStats pix nodata

end OdcGeo.C05
