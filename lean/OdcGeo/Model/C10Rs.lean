/-
C10 — pure dispatch in `odc/geo/warp.py`: `resampling_s2rio`, `is_resampling_nn` (warp.py:21-40) and the argument
preparation of `_rio_reproject` (warp.py:163-235): resampling given as a string or as an enum / int, the XSCALE / YSCALE
work-around, GeoBox vs GCPGeoBox sources (affine transform vs ground control points), nodata stretching and the working
dtypes handed to `rasterio.warp.reproject`.
-/
import OdcGeo.Model.C10Nd
namespace OdcGeo.C10

/-- `rasterio.warp.Resampling` (name, value) -/
def resamplingTable : List (String × Nat) :=
  [("nearest", 0), ("bilinear", 1), ("cubic", 2), ("cubic_spline", 3), ("lanczos", 4), ("average", 5), ("mode", 6),
   ("gauss", 7), ("max", 8), ("min", 9), ("med", 10), ("q1", 11), ("q3", 12), ("sum", 13), ("rms", 14)]

/-- `resampling_s2rio(name)`: the member called `name.lower()`, `ValueError` otherwise.  (ASCII names; the code uses
`getattr` on the enum class, so a few NON-member attribute names of the class — `mro`, dunder names — come back as
whatever attribute that is instead of raising: kept out of the model, reported.) -/
def resamplingS2Rio (name : String) : Res Nat :=
  match resamplingTable.lookup name.toLower with
  | some c => .ok c
  | none => .error .valueError

/-- a `resampling` argument: a string, or an enum member / integer (compared by value) -/
inductive RsArg where
  | str (s : String)
  | code (n : Int)
  deriving DecidableEq, Repr

/-- `is_resampling_nn(resampling)` -/
def isResamplingNN : RsArg → Bool
  | .str s => s.toLower == "nearest"
  | .code n => n == 0

/-- `if isinstance(resampling, str): resampling = resampling_s2rio(resampling)` -/
def rioResampling : RsArg → Res Int
  | .str s => match resamplingS2Rio s with
    | .ok c => .ok (c : Int)
    | .error e => .error e
  | .code n => .ok n

inductive WorkT where
  | same | int16 | uint8
  deriving DecidableEq, Repr

/-- `dtype_remap = {"int8": "int16", "bool": "uint8"}` -/
def workType : PixT → WorkT
  | .int8 => .int16
  | .bool => .uint8
  | .other => .same

/-- what `_rio_reproject` hands to `rasterio.warp.reproject` -/
structure RioCall where
  resampling : Int
  srcTransform : Bool      -- `src_transform=` given (GeoBox source)
  gcps : Bool              -- `gcps=` given (GCPGeoBox source)
  scaleInjected : Bool     -- `XSCALE=1, YSCALE=1` added
  srcNodata : Option Int
  dstNodata : Option Int
  srcWork : WorkT
  dstWork : WorkT
  deriving DecidableEq, Repr

/-- `rio_reproject(src, dst, s_gbox, d_gbox, resampling, src_nodata, dst_nodata, **kwargs)` up to the backend call:
`srcT` / `dstT` pixel types of the two rasters, `dstIsFloat` / `nan` as in `rioDstNodata`, `hasX` / `hasY` whether the
caller passed `XSCALE` / `YSCALE`. -/
def rioCall (srcT dstT : PixT) (dstIsFloat : Bool) (nan : Int) (srcIsGcp : Bool) (rs : RsArg) (hasX hasY : Bool)
    (sn dn : Option Int) : Res RioCall :=
  match rioResampling rs with
  | .error e => .error e
  | .ok r =>
    .ok ⟨r, !srcIsGcp, srcIsGcp, !hasX && !hasY, stretchNodata srcT sn, stretchNodata dstT (rioDstNodata dstIsFloat nan dn),
         workType srcT, workType dstT⟩

end OdcGeo.C10
