/-
C13 — the glue between the public entry points and the modelled core (core Lean only).

Mirrors

  * `odc/geo/_dask.py:14-34`  `resolve_fill_value` **as a conversion of the caller's nodata** (a Python
    int / float, possibly fractional, NaN or out of range) to the dtype — the code of branch `fix2-C13`
    (`roundNd = true`: fractional nodata of an integer raster is rounded like the warp rounds it) and the
    code as found (`roundNd = false`: `dtype.type(v)` truncates);
  * `odc/geo/_dask.py:93-111` the `chunks=` argument of `_dask_rio_reproject` (`None` → `src.chunksize`,
    `(int, int)` → `Tiles`, tuple of tuples → `VariableSizedTiles`; `roi.py:343-347` `roi_tiles`,
    `roi.py:122-129` `Tiles.__init__`), `with_yx`, `dst_shape`, `dst_chunks`, `shape_in_blocks`, the block
    index split `idx[ydim:ydim+2]`;
  * `odc/geo/_xr_interop.py:729-792` `_xr_reproject_da`: `src_nodata` / `dst_nodata` defaulting, destination
    shape, dask / numpy dispatch;
  * `odc/geo/warp.py:32-40, 43-104` `is_resampling_nn`, `warp_affine`, `warp_affine_rio`;
  * `odc/geo/warp.py:131-137, 145-147` `rio_reproject`: `ydim=None` default;
  * `odc/geo/warp.py:178-187` `_rio_reproject`: the `XSCALE` / `YSCALE` injection.

Not odc-geo code (reference semantics, validated against numpy / rasterio / GDAL by the harness on every
run): `truncZ` (Python `int(x)`), `rioCheckInt` (rasterio's `in_dtype_range` test), `roundHAZ` (GDAL's
double → integer conversion of a nodata value), `warpMasks`.
-/
import OdcGeo.Model.C13
import OdcGeo.Model.C13Kw
namespace OdcGeo.C13

/-- Python exceptions of the glue (`ErrKind` of the shared IO module has no `OverflowError` / `TypeError`) -/
inductive GErr where
  | value | overflow | zeroDiv | type | badChunks | gdal
  deriving DecidableEq, Repr

def GErr.toStr : GErr → String
  | .value => "ERR:ValueError"
  | .overflow => "ERR:OverflowError"
  | .zeroDiv => "ERR:ZeroDivisionError"
  | .type => "ERR:TypeError"
  | .badChunks => "ERR:ValueError|IndexError"
  | .gdal => "ERR:CPLE_AppDefinedError"

abbrev GRes (α : Type) := Except GErr α

/-! ### nodata conversions -/

/-- a nodata value as the caller passes it: NaN or a (possibly fractional) number -/
inductive RawNd where
  | nan
  | num (q : Rat)
  deriving DecidableEq, Repr

/-- an integral nodata -/
def RawNd.ofInt (n : Int) : RawNd := .num (n : Rat)

/-- Python `int(x)`: truncation towards zero -/
def truncZ (q : Rat) : Int := if 0 ≤ q then q.floor else -((-q).floor)

/-- GDAL's conversion of a double to an integer type (`GDALCopyWords`): nearest integer, halves away
from zero -/
def roundHAZ (q : Rat) : Int := if 0 ≤ q then (q + 1 / 2).floor else -((-q + 1 / 2).floor)

/-- `np.iinfo(dtype)` of an integer dtype -/
structure IRange where
  lo : Int
  hi : Int
  deriving DecidableEq, Repr

/-- the integer `_cast` of `resolve_fill_value` hands to `dtype.type` for a finite nodata `q`.
`roundNd = true` (fix2-C13): `if v != int(v): v = int(v + 0.5) if v > 0 else int(v - 0.5)`, then `int(v)`;
`roundNd = false` (as found): `int(v)` alone (what `dtype.type(v)` does with a Python float). -/
def fillIntOf (roundNd : Bool) (q : Rat) : Int :=
  match roundNd with
  | true =>
    if ((truncZ q : Int) : Rat) ≠ q then (if 0 < q then truncZ (q + 1 / 2) else truncZ (q - 1 / 2))
    else truncZ q
  | false => truncZ q

/-- `_cast` of `resolve_fill_value` for an integer dtype: `dtype.type(v)` of a Python scalar raises
`ValueError` for NaN and `OverflowError` outside the range of the dtype. -/
def fillCastInt (roundNd : Bool) (r : IRange) : RawNd → GRes Int
  | .nan => .error .value
  | .num q =>
    if r.lo ≤ fillIntOf roundNd q ∧ fillIntOf roundNd q ≤ r.hi then .ok (fillIntOf roundNd q)
    else .error .overflow

/-- `resolve_fill_value(dst_nodata, src_nodata, dtype)` for an integer dtype -/
def resolveFillInt (roundNd : Bool) (r : IRange) (dstNd srcNd : Option RawNd) : GRes Int :=
  match dstNd with
  | some v => fillCastInt roundNd r v
  | none =>
    match srcNd with
    | some v => fillCastInt roundNd r v
    | none => .ok 0

/-- rasterio: `if nodata is not None and not in_dtype_range(nodata, dtype): raise ValueError` for an
integer working dtype (`info.min <= value <= info.max`; every comparison with NaN is false) -/
def rioCheckInt (r : IRange) : Option RawNd → GRes Unit
  | none => .ok ()
  | some .nan => .error .value
  | some (.num q) => if (r.lo : Rat) ≤ q ∧ q ≤ (r.hi : Rat) then .ok () else .error .value

/-- the value GDAL initialises the destination with (= what unreached pixels hold after the warp):
the effective destination nodata `dst_nodata if dst_nodata is not None else src_nodata` converted to the
integer type, `0` when there is none -/
def warpInitInt (dstNd srcNd : Option RawNd) : Int :=
  match dstNd with
  | some (.num q) => roundHAZ q
  | some .nan => 0
  | none =>
    match srcNd with
    | some (.num q) => roundHAZ q
    | _ => 0

/-- the in-memory path on an integer raster: rasterio validates `src_nodata` then `dst_nodata`, GDAL
initialises the destination -/
def wholeFillInt (r : IRange) (dstNd srcNd : Option RawNd) : GRes Int :=
  match rioCheckInt r srcNd, rioCheckInt r dstNd with
  | .error e, _ => .error e
  | .ok _, .error e => .error e
  | .ok _, .ok _ => .ok (warpInitInt dstNd srcNd)

/-- GDAL compares source pixels with the nodata as doubles: a fractional nodata masks nothing -/
def warpMasks (srcNd : Option RawNd) (p : Int) : Bool :=
  match srcNd with
  | some (.num q) => q = (p : Rat)
  | _ => false

/-! ### the `chunks=` argument -/

/-- the forms of `chunks=` that `_dask_rio_reproject` / `GeoboxTiles` / `roi_tiles` dispatch on -/
inductive ChunkArg where
  /-- `None`: `src.chunksize[ydim:ydim+2]` -/
  | default
  /-- `(ny, nx)`: regular `Tiles(d_gbox.shape, (ny, nx))` -/
  | pair (cy cx : Int)
  /-- `((..), (..))`: `VariableSizedTiles` with exactly these chunks -/
  | var (ys xs : List Nat)
  deriving DecidableEq, Repr

/-- dask's `Array.chunksize` along one axis: the largest chunk -/
def chunkSize (ch : List Nat) : Nat := ch.foldl max 0

/-- `Tiles(shape, (cy, cx))` → span lists.  `-(-N // n)` raises `ZeroDivisionError` for `n = 0`; a
negative tile size gives a non-positive tile count and is rejected further down with a `ValueError`
(`np.ndindex`: "negative dimensions are not allowed" on the linear path of `grid_intersect`) or an
`IndexError` (`Tiles.tile_shape((0, 0))` in `Tiles.chunks`) depending on the count and on the path taken —
one error kind here, the harness accepts either class -/
def tilesPair (H W : Nat) (cy cx : Int) : GRes (List Span × List Span) :=
  if cy = 0 ∨ cx = 0 then .error .zeroDiv
  else if cy < 0 ∨ cx < 0 then .error .badChunks
  else .ok (regularTiling H cy.toNat, regularTiling W cx.toNat)

/-- destination tiling of `_dask_rio_reproject` for destination shape `H × W`, source chunks `sy`,
`sx`.  Variable chunks are taken as they are (zero-length chunks included) when they add up to the shape;
otherwise the call is rejected — by dask (`da.Array(...)`: `ValueError` "Chunks do not add up to shape",
"Empty tuples are not allowed in chunks") or earlier by `grid_intersect` on the inconsistent tiling
(`IndexError` on the general path): one error kind, like the negative tile sizes -/
def dstTilings (H W : Nat) (sy sx : List Nat) : ChunkArg → GRes (List Span × List Span)
  | .default => tilesPair H W (chunkSize sy) (chunkSize sx)
  | .pair cy cx => tilesPair H W cy cx
  | .var ys xs =>
    if ys = [] ∨ xs = [] then .error .badChunks
    else if ys.sum = H ∧ xs.sum = W then .ok (chunksTiling ys, chunksTiling xs)
    else .error .badChunks

/-- `with_yx(a, yx)` of `_dask_rio_reproject` / `BlockAssembler`: `(*a[:ydim], *yx, *a[ydim+2:])` -/
def withYXrepl {α : Type} (ydim : Nat) (a : List α) (y x : α) : List α :=
  a.take ydim ++ [y, x] ++ a.drop (ydim + 2)

/-- `y, x = idx[ydim : ydim + 2]` -/
def blockYX {α : Type} (ydim : Nat) (idx : List α) : Option (α × α) := do
  let y ← idx[ydim]?
  let x ← idx[ydim + 1]?
  pure (y, x)

/-- chunk lengths of a span list (`gbt_dst.chunks` along one axis) -/
def spanLens (t : List Span) : List Int := t.map fun s => s.2 - s.1

/-- what `_dask_rio_reproject` declares about its result: `dst_shape`, `dst_chunks`, `shape_in_blocks` -/
structure Declared where
  shape : List Int
  chunks : List (List Int)
  blocks : List Nat
  deriving DecidableEq, Repr

def declared (ydim : Nat) (srcChunks : List (List Int)) (H W : Nat) (dy dx : List Span) : Declared :=
  let ch := withYXrepl ydim srcChunks (spanLens dy) (spanLens dx)
  ⟨withYXrepl ydim (srcChunks.map fun c => c.foldl (· + ·) 0) (H : Int) (W : Int), ch, ch.map List.length⟩

/-! ### `_xr_reproject_da` -/

/-- arguments of `xr_reproject(src, how: GeoBox, dst_nodata=…, src_nodata=…, chunks=…)` that reach the
reprojection of one Y/X plane -/
structure XrArgs where
  kind : DKind
  srcH : Nat
  srcW : Nat
  S : Aff
  dstH : Nat
  dstW : Nat
  D : Aff
  /-- dask chunks of the source along Y and X (`src.chunks[ydim:ydim+2]`) -/
  sy : List Nat
  sx : List Nat
  /-- `src.odc.nodata` (the `nodata` attribute), `src_nodata=`, `dst_nodata=` -/
  attrNd : Option Val
  kwSrcNd : Option Val
  dstNd : Option Val
  chunks : ChunkArg

/-- configuration of the dask back-end as `_xr_reproject_da` + `_dask_rio_reproject` set it up;
`deps` = `gbt_dst.grid_intersect(gbt_src)` for the two tilings -/
def xrCfg (a : XrArgs) (deps : List (TIdx × List TIdx)) : GRes Cfg := do
  let (dy, dx) ← dstTilings a.dstH a.dstW a.sy a.sx a.chunks
  let nd := xrNodata a.attrNd a.kwSrcNd a.dstNd
  pure { variant := Variant.repaired, kind := a.kind, srcH := a.srcH, srcW := a.srcW, S := a.S,
         dstH := a.dstH, dstW := a.dstW, D := a.D,
         sy := chunksTiling a.sy, sx := chunksTiling a.sx, dy := dy, dx := dx,
         deps := deps, srcNd := nd.1, dstNd := nd.2 }

/-- a destination chunk of zero area that is wired to source chunks: its task hands GDAL an empty
destination, which GDAL rejects (`CPLE_AppDefinedError` at compute time).  Empty chunks without sources
are constant blocks and are fine. -/
def emptyTask (c : Cfg) : Bool :=
  (List.range c.dy.length).any fun iy => (List.range c.dx.length).any fun ix =>
    match c.dy[iy]?, c.dx[ix]? with
    | some ty, some tx => (ty.2 - ty.1 = 0 ∨ tx.2 - tx.1 = 0) && !(lookupDeps c.deps (iy, ix)).isEmpty
    | _, _ => false

/-- `xr_reproject(dask-backed, …).compute()` -/
def xrDask (a : XrArgs) (G : Gdal) (deps : List (TIdx × List TIdx)) (src : Img) : GRes Img := do
  let c ← xrCfg a deps
  if emptyTask c then .error .gdal else pure (daskResult c G src)

/-- `xr_reproject(numpy-backed, …)`: `rio_reproject(src.values, numpy.empty(dst_shape), …)`; a `chunks=`
keyword plays no role here (it is handed to GDAL as an unknown warp option) -/
def xrNumpy (a : XrArgs) (G : Gdal) (src buf : Img) : Img :=
  let nd := xrNodata a.attrNd a.kwSrcNd a.dstNd
  rioReproject Variant.repaired G a.kind src a.srcH a.srcW buf a.S a.D nd.1 nd.2

/-! ### `warp.py` entry points -/

/-- `is_resampling_nn(resampling)` for a string: `resampling.lower() == "nearest"` -/
def isResamplingNN (name : String) : Bool := name.toLower = "nearest"

/-- `warp_affine(src, dst, A, "nearest", src_nodata, dst_nodata)` = `warp_affine_rio` =
`_rio_reproject` between `GeoBox(src.shape, identity, 3857)` and `GeoBox(dst.shape, A, 3857)` -/
def warpAffine (V : Variant) (G : Gdal) (k : DKind) (src : Img) (sh sw : Int) (buf : Img) (A : Aff)
    (srcNd dstNd : Option Val) : Img :=
  rioReprojectPlane V G k src sh sw buf Aff.id A srcNd dstNd

/-- `rio_reproject(..., ydim=None)`: "Assume last two dimensions are Y/X" -/
def rioYdim (ndim : Nat) : Option Nat → Nat
  | some y => y
  | none => ndim - 2

/-- `_rio_reproject`: `if "XSCALE" not in kwargs and "YSCALE" not in kwargs: kwargs.update(XSCALE=1, YSCALE=1)` -/
def injectScale (kw : List (String × String)) : List (String × String) :=
  if kw.any (fun p => p.1 = "XSCALE") ∨ kw.any (fun p => p.1 = "YSCALE") then kw
  else kw ++ [("XSCALE", "1"), ("YSCALE", "1")]

/-- the keywords that reach `rasterio.warp.reproject` from a chunk task / from the in-memory path -/
def gdalKwOfChunk (resampling : String) (srcNd dstNd : Option Val) (ydim : Nat)
    (kwargs : List (String × String)) : Res WarpKw :=
  (chunkTaskKw resampling srcNd dstNd ydim kwargs).map fun k => { k with extra := injectScale k.extra }

def gdalKwOfWhole (resampling : String) (srcNd dstNd : Option Val) (ydim : Nat)
    (kwargs : List (String × String)) : Res WarpKw :=
  (wholeKw resampling srcNd dstNd ydim kwargs).map fun k => { k with extra := injectScale k.extra }

/-! ### nodata the dtype cannot hold: the entry check (fix3-C13), the int8 detour, float rounding -/

/-- `np.copyto(dst, _dst, casting="unsafe")` from the working integer type back to the raster's type:
two's complement wrap-around into `[lo, hi]` -/
def wrapInt (r : IRange) (v : Int) : Int := (v - r.lo) % (r.hi - r.lo + 1) + r.lo

/-- the low-level in-memory path on an integer raster of range `r` that GDAL warps in the working type of
range `wr` (`dtype_remap`: int8 → int16; every other integer type: `wr = r`): rasterio validates the nodata
against the WORKING type, GDAL initialises, the result is copied back with `casting="unsafe"` -/
def wholeFillWork (r wr : IRange) (dstNd srcNd : Option RawNd) : GRes Int :=
  (wholeFillInt wr dstNd srcNd).map (wrapInt r)

/-- `_xr_reproject_da` on raw values: `src_nodata = kw.pop("src_nodata") or attribute`, `dst_nodata` defaults to it -/
def xrNodataRaw (attrNd kwSrcNd dstNd : Option RawNd) : Option RawNd × Option RawNd :=
  let s := match kwSrcNd with
    | some v => some v
    | none => attrNd
  let d := match dstNd with
    | some v => some v
    | none => s
  (s, d)

/-- `_check_nodata_range(src_nodata)`, then `(dst_nodata)` of `_xr_reproject_da` (fix3-C13), integer dtype:
`info.min <= nodata <= info.max` against the raster's OWN type, before the dask / numpy dispatch -/
def xrEntryCheck (checked : Bool) (r : IRange) (s d : Option RawNd) : GRes Unit :=
  match checked with
  | false => .ok ()
  | true =>
    match rioCheckInt r s with
    | .error e => .error e
    | .ok _ => rioCheckInt r d

/-- what an unreached pixel of `xr_reproject(dask-backed)` holds in a chunk without sources -/
def xrFillDask (checked : Bool) (r : IRange) (attrNd kwSrcNd dstNd : Option RawNd) : GRes Int :=
  let nd := xrNodataRaw attrNd kwSrcNd dstNd
  match xrEntryCheck checked r nd.1 nd.2 with
  | .error e => .error e
  | .ok _ => resolveFillInt true r nd.2 nd.1

/-- what an unreached pixel of `xr_reproject(numpy-backed)` holds -/
def xrFillWhole (checked : Bool) (r wr : IRange) (attrNd kwSrcNd dstNd : Option RawNd) : GRes Int :=
  let nd := xrNodataRaw attrNd kwSrcNd dstNd
  match xrEntryCheck checked r nd.1 nd.2 with
  | .error e => .error e
  | .ok _ => wholeFillWork r wr nd.2 nd.1

/-- `2^k` for an integer exponent -/
def pow2 (k : Int) : Rat := if 0 ≤ k then ((2 ^ k.toNat : Nat) : Rat) else 1 / ((2 ^ (-k).toNat : Nat) : Rat)

/-- round to the nearest integer, ties to even -/
def roundHalfEven (m : Rat) : Int :=
  let f := m.floor
  let frac := m - (f : Rat)
  if frac < 1 / 2 then f else if 1 / 2 < frac then f + 1 else if f % 2 = 0 then f else f + 1

/-- IEEE round-to-nearest-even of a positive rational to `p` significant bits (normal range; what both
`np.float32(x)` / `np.float16(x)` of `resolve_fill_value` and GDAL's double → float conversion of the nodata do):
`e` with `2^e ≤ q < 2^(e+1)` from the bit lengths of numerator and denominator -/
def roundPos (p : Nat) (q : Rat) : Rat :=
  let e0 : Int := (Nat.log2 q.num.natAbs : Int) - (Nat.log2 q.den : Int)
  let e : Int := if pow2 e0 ≤ q then (if pow2 (e0 + 1) ≤ q then e0 + 1 else e0) else e0 - 1
  let ulp := pow2 (e - (p : Int) + 1)
  (roundHalfEven (q / ulp) : Rat) * ulp

/-- conversion of a finite nodata to a binary floating point type with `p` significant bits -/
def roundFloat (p : Nat) (q : Rat) : Rat :=
  if q = 0 then 0 else if 0 < q then roundPos p q else -(roundPos p (-q))

/-- `resolve_fill_value` / the warp on a floating-point (or complex: real part) raster: NaN stays NaN -/
def fillFloat (p : Nat) : RawNd → RawNd
  | .nan => .nan
  | .num q => .num (roundFloat p q)

/-! ### HEAD after 11b39c4: `GeoboxTiles` itself refuses chunk tuples that do not add up — always `ValueError` -/

/-- `dstTilings` with the error class of /repo HEAD for the tuple-of-tuples form: `GeoboxTiles.__init__` raises
`ValueError` ("Chunks add up to …, GeoBox shape is …") before `grid_intersect` or dask see the tiling; the empty tuple
adds up to 0 and is refused the same way.  Negative tile sizes are unchanged (`badChunks`). -/
def dstTilingsH (H W : Nat) (sy sx : List Nat) : ChunkArg → GRes (List Span × List Span)
  | .var ys xs =>
    if ys.sum = H ∧ xs.sum = W ∧ ys ≠ [] ∧ xs ≠ [] then .ok (chunksTiling ys, chunksTiling xs) else .error .value
  | a => dstTilings H W sy sx a

/-! ### float conversion over the whole range: subnormals, overflow to infinity -/

/-- a floating-point nodata after conversion -/
inductive FVal where
  | nan
  | inf (neg : Bool)
  | fin (q : Rat)
  deriving DecidableEq, Repr

/-- IEEE round-to-nearest-even of a positive rational to a binary format with `p` significant bits and normal exponents
`emin … emax`: below `2^emin` the spacing is the fixed subnormal `2^(emin-p+1)`; a result of `2^(emax+1)` or more is `+inf` -/
def roundPosIEEE (p : Nat) (emin emax : Int) (q : Rat) : Option Rat :=
  let r := if q < pow2 emin then (roundHalfEven (q / pow2 (emin - (p : Int) + 1)) : Rat) * pow2 (emin - (p : Int) + 1)
           else roundPos p q
  if pow2 (emax + 1) ≤ r then none else some r

/-- `np.dtype(float type).type(v)` / GDAL's double → float conversion of a nodata -/
def roundIEEE (p : Nat) (emin emax : Int) : RawNd → FVal
  | .nan => .nan
  | .num q =>
    if q = 0 then .fin 0
    else if 0 < q then (match roundPosIEEE p emin emax q with | some r => .fin r | none => .inf false)
    else (match roundPosIEEE p emin emax (-q) with | some r => .fin (-r) | none => .inf true)

/-! ### `_xr_reproject_ds`: `xr_reproject(Dataset)` -/

/-- one data variable of a Dataset: georegistered (`dv.odc.geobox is not None`; its own dtype kind, nodata attribute,
dask chunks and pixels) or not (passed through) -/
inductive DsVar where
  | geo (kind : DKind) (attrNd : Option Val) (sy sx : List Nat) (src : Img)
  | plain (data : Img)

/-- what all variables of one `xr_reproject(ds, how, dst_nodata=…, src_nodata=…, chunks=…)` call share: the two grids
(the variables of a Dataset share its spatial coordinates) and the keywords, handed unchanged to every variable -/
structure DsShared where
  srcH : Nat
  srcW : Nat
  S : Aff
  dstH : Nat
  dstW : Nat
  D : Aff
  kwSrcNd : Option Val
  dstNd : Option Val
  chunks : ChunkArg

/-- the `_xr_reproject_da` call `_maybe_reproject` makes for a georegistered variable -/
def dsArgs (sh : DsShared) (kind : DKind) (attrNd : Option Val) (sy sx : List Nat) : XrArgs :=
  { kind := kind, srcH := sh.srcH, srcW := sh.srcW, S := sh.S, dstH := sh.dstH, dstW := sh.dstW, D := sh.D, sy := sy, sx := sx,
    attrNd := attrNd, kwSrcNd := sh.kwSrcNd, dstNd := sh.dstNd, chunks := sh.chunks }

/-- `_maybe_reproject(dv)`, dask-backed; `deps` = the dependency table for this variable's chunking -/
def dsVarDask (sh : DsShared) (G : Gdal) (deps : List Nat → List Nat → List (TIdx × List TIdx)) : DsVar → GRes Img
  | .geo k attr sy sx src => xrDask (dsArgs sh k attr sy sx) G (deps sy sx) src
  | .plain d => .ok d

/-- `_xr_reproject_ds`: `{name: _maybe_reproject(dv) for name, dv in src.data_vars.items()}` — same names, same order -/
def xrReprojectDs (sh : DsShared) (G : Gdal) (deps : List Nat → List Nat → List (TIdx × List TIdx))
    (ds : List (String × DsVar)) : GRes (List (String × Img)) :=
  ds.mapM fun nv => (dsVarDask sh G deps nv.2).map fun r => (nv.1, r)

/-- which branch `_maybe_reproject` takes per variable (for the correspondence) -/
def dsPlan (ds : List (String × Bool)) : List (String × String) :=
  ds.map fun nv => (nv.1, if nv.2 then "reproject" else "pass")

end OdcGeo.C13
