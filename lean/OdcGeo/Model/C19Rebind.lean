/-
Model for C19 (additive): REBINDING the name of a CRS instance that a value still holds, in the
unified state.  Python: `v = CRS(spec)` (or `del v`, `v = pickle.loads(…)`) while a BoundingBox
holds the old object — the object lives on under the holder, the name denotes the new instance.
In the unified model an instance is a variable of `core.vars`, so the old instance first moves
to a fresh hidden name (`fresh`: the record is copied there with `CRS(v)`-semantics, i.e. all
three fields as they are, and the old name is dropped), the holders follow it, then the
operation runs as usual.
-/
import OdcGeo.Model.C19Unified
namespace OdcGeo.C19

/-- holders of `v` now refer to `fresh` -/
def retarget (v fresh : Nat) (hold : List (Nat × Option Nat)) : List (Nat × Option Nat) :=
  hold.map (fun e => if e.2 = some v then (e.1, some fresh) else e)

def ustepR (W : World) (σ : UState) (fresh : Nat) (uop : UOp) : UState × Out :=
  match uop with
  | .core op =>
    match op.binds with
    | some v =>
      if σ.held v then
        let c1 := (step W σ.core (.mk fresh (.crs v) 0)).1
        let c2 := (step W c1 (.drop v)).1
        let r := step W c2 op
        ({ core := r.1, hold := retarget v fresh σ.hold }, r.2)
      else ustep W σ uop
    | none => ustep W σ uop
  | _ => ustep W σ uop

end OdcGeo.C19

namespace OdcGeo.C19

/-- a unified history in which held names may be rebound: each step carries the fresh hidden
name it may use -/
def urunRFrom (W : World) : UState → List (Nat × UOp) → UState × List Out
  | σ, [] => (σ, [])
  | σ, (fresh, op) :: ops =>
    let r := ustepR W σ fresh op
    let r2 := urunRFrom W r.1 ops
    (r2.1, r.2 :: r2.2)

end OdcGeo.C19
