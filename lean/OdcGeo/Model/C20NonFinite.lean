/-
Non-finite floats (`nan`, `±inf`) through `snap_scale`, `_snap_edge_pos`, `_snap_edge`, `snap_grid`, `is_affine_st`,
`snap_affine` (`odc/geo/math.py`) and the resolution branch of `GeoBox.from_bbox` — core Lean only.

`Model/C20.lean` models these functions on finite values (exact rationals).  Here every argument — coordinates,
resolution, anchor fraction, tolerance — is an `XF` (finite rational | `+inf` | `-inf` | `nan`) with IEEE semantics for
`+ - * /`, comparisons (`nan` compares false), `abs`, and Python's conversions: `floor` / `ceil` of `±inf` raise
`OverflowError`, of `nan` `ValueError`; float division by zero raises `ZeroDivisionError` whatever the numerator.
Signed zeros are not distinguished (no modelled operation can observe the sign of a zero: division by zero raises),
overflow of finite arithmetic to `inf` is outside the model (magnitudes).
-/
import OdcGeo.Model.C20
namespace OdcGeo.C20.NF
open OdcGeo.C20

/-- Exceptions of the non-finite model. -/
inductive NErr where
  | assertion | zeroDiv | valueError | overflow
  deriving DecidableEq, Repr

def NErr.toStr : NErr → String
  | .assertion => "ERR:AssertionError"
  | .zeroDiv => "ERR:ZeroDivisionError"
  | .valueError => "ERR:ValueError"
  | .overflow => "ERR:OverflowError"

abbrev NRes (α : Type) := Except NErr α

def ofErr : ErrKind → NErr
  | .assertion => .assertion
  | .zeroDiv => .zeroDiv
  | _ => .valueError

def liftRes {α : Type} : Res α → NRes α
  | .ok a => .ok a
  | .error e => .error (ofErr e)

/-! ### IEEE arithmetic on `XF` -/

def neg : XF → XF
  | .fin q => .fin (-q)
  | .pinf => .ninf
  | .ninf => .pinf
  | .nan => .nan

def abs : XF → XF
  | .fin q => .fin (rabs q)
  | .pinf => .pinf
  | .ninf => .pinf
  | .nan => .nan

def add : XF → XF → XF
  | .nan, _ => .nan
  | _, .nan => .nan
  | .fin a, .fin b => .fin (a + b)
  | .pinf, .ninf => .nan
  | .ninf, .pinf => .nan
  | .pinf, _ => .pinf
  | .ninf, _ => .ninf
  | _, .pinf => .pinf
  | _, .ninf => .ninf

def sub (a b : XF) : XF := add a (neg b)

/-- `+inf` with the sign of `q` (`nan` for `q = 0`): `q * inf`. -/
def infSigned (q : Rat) : XF := if q = 0 then .nan else if 0 < q then .pinf else .ninf

def mul : XF → XF → XF
  | .nan, _ => .nan
  | _, .nan => .nan
  | .fin a, .fin b => .fin (a * b)
  | .fin a, .pinf => infSigned a
  | .fin a, .ninf => infSigned (-a)
  | .pinf, .fin b => infSigned b
  | .ninf, .fin b => infSigned (-b)
  | .pinf, .pinf => .pinf
  | .ninf, .ninf => .pinf
  | .pinf, .ninf => .ninf
  | .ninf, .pinf => .ninf

/-- Python float division: a zero divisor raises `ZeroDivisionError` for every numerator. -/
def div (a b : XF) : NRes XF :=
  match b with
  | .nan => .ok .nan
  | .fin d =>
    if d = 0 then .error .zeroDiv
    else match a with
      | .fin n => .ok (.fin (n / d))
      | .pinf => .ok (infSigned d)
      | .ninf => .ok (infSigned (-d))
      | .nan => .ok .nan
  | _ =>    -- ±inf
    match a with
    | .fin _ => .ok (.fin 0)
    | _ => .ok .nan

/-- `a < b` (false when either is `nan`). -/
def lt : XF → XF → Bool
  | .nan, _ => false
  | _, .nan => false
  | .fin a, .fin b => decide (a < b)
  | .ninf, .ninf => false
  | .ninf, _ => true
  | _, .ninf => false
  | .pinf, _ => false
  | _, .pinf => true

/-- `a ≤ b` (false when either is `nan`). -/
def le : XF → XF → Bool
  | .nan, _ => false
  | _, .nan => false
  | .fin a, .fin b => decide (a ≤ b)
  | .ninf, _ => true
  | _, .pinf => true
  | .pinf, _ => false
  | _, .ninf => false

def isFinite : XF → Bool
  | .fin _ => true
  | _ => false

/-- `math.floor(x)` -/
def floorX : XF → NRes Int
  | .fin q => .ok q.floor
  | .nan => .error .valueError
  | _ => .error .overflow

/-- `math.ceil(x)` -/
def ceilX : XF → NRes Int
  | .fin q => .ok q.ceil
  | .nan => .error .valueError
  | _ => .error .overflow

def ofInt (k : Int) : XF := .fin (k : Rat)

/-! ### `maybe_int`, `snap_scale` -/

/-- `maybe_int(x, tol)` with any float as tolerance: `Sum.inl k` = the `int`, `Sum.inr x` = `x` itself passed through. -/
def maybeIntT (x tol : XF) : Sum Int XF :=
  match x with
  | .fin q =>
    let wp := splitFloat q
    if lt (.fin (rabs wp.2)) tol then .inl (trunc wp.1) else .inr x
  | _ => .inr x

/-- the numeric value of a `maybe_int` result -/
def valOf : Sum Int XF → XF
  | .inl k => ofInt k
  | .inr x => x

/-- `snap_scale(s, tol)` -/
def snapScaleX (s tol : XF) : NRes (Sum Int XF) :=
  if le (sub (.fin 1) tol) (abs s) then .ok (maybeIntT s tol)
  else if lt (abs s) tol then .ok (.inr s)
  else do
    let sInv ← div (.fin 1) s
    match maybeIntT sInv tol with
    | .inr _ => pure (.inr s)                      -- `s_inv_snapped is s_inv`
    | .inl k => if k = 0 then .error .zeroDiv else pure (.inr (.fin (1 / (k : Rat))))

/-! ### `_snap_edge_pos`, `_snap_edge`, `snap_grid` -/

def snapEdgePosX (x0 x1 res tol : XF) : NRes (XF × Int) :=
  if ¬ lt (.fin 0) res then .error .assertion
  else if ¬ le x0 x1 then .error .assertion
  else do
    let q0 ← div x0 res
    let i0 ← floorX (valOf (maybeIntT q0 tol))
    let q1 ← div x1 res
    let i1 ← ceilX (valOf (maybeIntT q1 tol))
    pure (mul (ofInt i0) res, max 1 (i1 - i0))

def snapEdgeX (x0 x1 res tol : XF) : NRes (XF × Int) :=
  if ¬ le x0 x1 then .error .assertion
  else if lt (.fin 0) res then snapEdgePosX x0 x1 res tol
  else do
    let (tx', nx) ← snapEdgePosX x0 x1 (neg res) tol
    pure (add tx' (mul (ofInt nx) (neg res)), nx)

/-- `snap_grid(x0, x1, res, off_pix, tol)` on arbitrary floats. -/
def snapGridX (x0 x1 res : XF) (offPix : Option XF) (tol : XF) : NRes (XF × Int) :=
  match offPix with
  | none =>
    if lt (.fin 0) res then do
      let q ← div (sub x1 x0) res
      let nx ← ceilX (valOf (maybeIntT q tol))
      pure (x0, max 1 nx)
    else do
      let q ← div (sub x1 x0) (neg res)
      let nx ← ceilX (valOf (maybeIntT q tol))
      pure (x1, max nx 1)
  | some op =>
    if ¬ (le (.fin 0) op && lt op (.fin 1)) then .error .assertion
    else do
      let off := mul op (abs res)
      let (tx', nx) ← snapEdgeX (sub x0 off) (sub x1 off) res tol
      pure (add tx' off, nx)

/-! ### `is_affine_st`, `snap_affine` on matrices with arbitrary float entries -/

structure AffX where
  a : XF
  b : XF
  c : XF
  d : XF
  e : XF
  f : XF
  deriving DecidableEq, Repr

def isAffineStX (A : AffX) (tol : XF) : Bool := lt (abs A.b) tol && lt (abs A.d) tol

def snapAffineX (A : AffX) (ttol stol tol : XF) : NRes AffX :=
  if lt tol (abs A.b) || lt tol (abs A.d) then .ok A
  else do
    let sx ← snapScaleX A.a stol
    let sy ← snapScaleX A.e stol
    pure ⟨valOf sx, .fin 0, valOf (maybeIntT A.c ttol), .fin 0, valOf sy, valOf (maybeIntT A.f ttol)⟩

/-! ### resolution branch of `GeoBox.from_bbox` on arbitrary floats (region, resolution, tol) -/

/-- `(ny, nx, offx, offy)` of `from_bbox(region, resolution=Resolution(rx, ry), anchor→snap, tol=)`; the affine of the
result is `translation(offx, offy) * scale(rx, ry)`. -/
def fromBboxResX (l b r t rx ry : XF) (snap : Option (Rat × Rat)) (tol : XF) : NRes (Int × Int × XF × XF) := do
  let (offx, nx) ← snapGridX l r rx (snap.map fun s => XF.fin s.1) tol
  let (offy, ny) ← snapGridX b t ry (snap.map fun s => XF.fin s.2) tol
  pure (ny, nx, offx, offy)

end OdcGeo.C20.NF
