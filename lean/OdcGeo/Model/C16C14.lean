/-
C16 ∘ C14 — model glue (core Lean only): the tile GeoBoxes of a GridSpec (`Model/C14.lean`, read-only)
as operands of the set operations of C16.
-/
import OdcGeo.Model.C16
import OdcGeo.Model.C14
namespace OdcGeo.C16

/-- a C14 GeoBox as a C16 GeoBox carrying the CRS of the GridSpec -/
def ofC14 (gb : C14.GeoBox) (crs : Option Nat) : GeoBox := ⟨gb.ny, gb.nx, gb.aff, crs⟩

/-- pixel step between neighbouring tiles along an axis, in units of whole tiles: `+1` when the bin
direction and the sign of the resolution agree, `-1` otherwise -/
def tileStep (dir : Int) (res : Rat) : Int := if 0 < res then dir else -dir

/-- pixel rectangle `(x0, y0, x1, y1)` of tile `k` in the pixel frame of tile `(0, 0)` -/
def tileRectT (g : C14.GridSpec) (k : Int × Int) : Int × Int × Int × Int :=
  (tileStep g.xbin.dir g.rx * k.1 * g.nx, tileStep g.ybin.dir g.ry * k.2 * g.ny,
   tileStep g.xbin.dir g.rx * k.1 * g.nx + g.nx, tileStep g.ybin.dir g.ry * k.2 * g.ny + g.ny)

/-- the tiles `(i0 + 1, iy) … (i0 + m, iy)` following tile `(i0, iy)` in its row -/
def rowRest (i0 iy : Int) : Nat → List (Int × Int)
  | 0 => []
  | m + 1 => rowRest i0 iy m ++ [(i0 + ((m + 1 : Nat) : Int), iy)]

/-- `geobox_union_conservative([gs[i0, iy], …, gs[i0 + m, iy]])` (exact arithmetic) -/
def rowUnion (g : C14.GridSpec) (crs : Option Nat) (i0 iy : Int) (m : Nat) : Res GeoBox :=
  geoboxUnionConservative (((i0, iy) :: rowRest i0 iy m).map (fun k => ofC14 (g.tileGeobox id k) crs))

end OdcGeo.C16
