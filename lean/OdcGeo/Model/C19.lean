/- Model for C19 (core Lean only, no Mathlib). -/
import OdcGeo.Model.IO
namespace OdcGeo.C19

end OdcGeo.C19
