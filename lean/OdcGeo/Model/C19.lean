/-
Model for C19 (core Lean only, no Mathlib).

Part (a)  `odc/geo/crs.py`: `_make_crs_key`, `_make_crs` + `_crs_cache`,
          `_make_crs_transform_key`, `_make_crs_transform` + its cache, `CRS.__init__`,
          `__eq__`, `__hash__`, `__getstate__/__setstate__`, `__dask_tokenize__`, `to_epsg`,
          on top of a heap of pyproj objects with allocation, reference drop, garbage
          collection and **id reuse** (the allocator's choice is part of the history).
Part (b)  eq / hash / dask token / pickle of the value types, each written as the code
          computes it, over Python scalars that remember how they print (`1`, `1.0`, `-0.0`,
          `True` are told apart by tokens and pickles but not by `==`/`hash`).
-/
import OdcGeo.Model.IO
namespace OdcGeo.C19

/-! ## Part (a): CRS objects, construction cache, transformer cache -/

/-- What pyproj tells about one `pyproj.CRS` object (its immutable attributes). -/
structure PInfo where
  /-- which coordinate system the object denotes: the class of pyproj `==` -/
  sys : Nat
  /-- `str(obj)` = `obj.srs`: the text the object was built from -/
  srs : String
  /-- `obj.to_wkt()`; pyproj hashes an object by this text -/
  wkt : String
  /-- `obj.to_epsg()` -/
  epsg : Option Nat
  deriving DecidableEq, Repr

/-- pyproj as far as `crs.py` uses it (a parameter; the harness supplies the real table). -/
structure World where
  /-- `_CRS.from_user_input(text)` / `_CRS.from_dict(d)`; `none` = `CRSError` -/
  fromText : String → Option PInfo
  /-- `_CRS.from_epsg(n)` -/
  fromEpsg : Nat → Option PInfo

/-- The triple `(crs, crs_str, epsg)` returned by `_make_crs`, which is also exactly the
state of a `CRS` instance (`_crs`, `_str`, `_epsg`).  `obj` is `id(_crs)`, `info` the
attributes of that pyproj object.  `epsg = some 0` is `EPSG_UNSET`, `none` is `None`. -/
structure CrsObj where
  obj : Nat
  info : PInfo
  str : String
  epsg : Option Nat
  deriving DecidableEq, Repr

/-- Keys of `_crs_cache` as produced by `_make_crs_key` (crs.py:43-54): a string, or the
pyproj object itself (any `Hashable`). -/
inductive Key where
  | txt (s : String)
  | obj (id : Nat) (p : PInfo)
  deriving DecidableEq, Repr

/-- `crs_spec.upper().startswith("EPSG:")` -/
def isEpsgLike (s : String) : Bool := (s.toUpper).startsWith "EPSG:"

/-- `_make_crs_key` on a `str` (crs.py:44-48). -/
def keyOfStr (s : String) : String := if isEpsgLike s then s.toUpper else s

/-- `_make_crs_key` on an `int` (crs.py:49-50). -/
def keyOfInt (n : Nat) : String := s!"EPSG:{n}"

/-- Equality of two cache keys **as the dict sees it** (same hash and `==`):
strings by value; a pyproj object hashes as `hash(to_wkt())` and `==` converts the other
side with `from_user_input`, so it equals another object with the same WKT and system
and — this is the collision of finding F16 — the string that is its own WKT text. -/
def keyEq (W : World) : Key → Key → Bool
  | .txt a, .txt b => a == b
  | .obj i p, .obj j q => i == j || (p.wkt == q.wkt && p.sys == q.sys)
  | .obj _ p, .txt t => p.wkt == t && (W.fromText t).map (·.sys) == some p.sys
  | .txt t, .obj _ p => p.wkt == t && (W.fromText t).map (·.sys) == some p.sys

/-- Tail of `_make_crs` (crs.py:72-78): `crs_str = str(crs)`; EPSG-like strings are
upper-cased and give the code; `int(...)` may raise `ValueError` (e.g. `EPSG:4326+5773`). -/
def entryOf (id : Nat) (p : PInfo) (e0 : Nat) : Res CrsObj :=
  let u := p.srs.toUpper
  if u.startsWith "EPSG:" then
    match ((u.drop 5).toString).toNat? with
    | some n => .ok ⟨id, p, u, some n⟩
    | none => .error .valueError
  else .ok ⟨id, p, p.srs, some e0⟩

/-- What the user passes to `CRS(...)` (crs.py:111-122). -/
inductive Spec where
  | int (n : Nat)            -- `CRS(4326)`
  | str (s : String)         -- `CRS("epsg:4326")`, WKT, PROJJSON text, PROJ string
  | pyproj (pv : Nat)        -- `CRS(pyproj_object)`; `pv` names a user-held pyproj object
  | dict (d : String)        -- `CRS({...})` → `_make_crs(_CRS.from_dict(d))`; `d` names the dict
  | crs (v : Nat)            -- `CRS(other_crs_object)`
  deriving DecidableEq, Repr

structure State where
  /-- live pyproj objects: id ↦ attributes -/
  heap : List (Nat × PInfo) := []
  /-- ids released by the collector, available for reuse -/
  free : List Nat := []
  /-- ids ≥ `next` were never used -/
  next : Nat := 0
  /-- `_crs_cache` (crs.py:40): a plain dict, nothing is ever removed -/
  cache : List (Key × CrsObj) := []
  /-- cache of `_make_crs_transform` (crs.py:85): key `(id, id, always_xy)` ↦ the systems
  the stored `Transformer` really converts between -/
  tcache : List ((Nat × Nat × Bool) × (Nat × Nat)) := []
  /-- `CRS` instances held by the program -/
  vars : List (Nat × CrsObj) := []
  /-- pyproj objects held by the program: name ↦ (id, attributes) -/
  pvars : List (Nat × (Nat × PInfo)) := []
  deriving Repr

/-- One step of a history.  `pick` is the allocator's choice: reuse the `pick`-th freed id
if there is one, otherwise a fresh id; quantifying over histories therefore quantifies
over every possible id reuse. -/
inductive Op where
  | pnewText (pv : Nat) (t : String) (pick : Nat)   -- `pv = pyproj.CRS.from_user_input(t)`
  | pnewEpsg (pv : Nat) (n : Nat) (pick : Nat)      -- `pv = pyproj.CRS.from_epsg(n)`
  | mk (v : Nat) (spec : Spec) (pick : Nat)         -- `v = CRS(spec)`
  | pickle (v : Nat) (src : Nat) (pick : Nat)       -- `v = pickle.loads(pickle.dumps(src))`
  | drop (v : Nat)                                  -- `del v`
  | pdrop (pv : Nat)
  | gc                                              -- unreferenced pyproj objects are freed
  | transformer (a b : Nat) (xy : Bool)             -- `a.transformer_to_crs(b, always_xy=xy)`
  | epsg (v : Nat)                                  -- `v.epsg` (fills the lazy `_epsg`)
  | eq (a b : Nat)                                  -- `a == b`
  /-- NOT an operation of the code: drops the `k`-th entry of `_crs_cache`, which is what a
  bounded / LRU cache would do.  Only used to show the pinning invariant is essential. -/
  | evict (k : Nat)
  deriving DecidableEq, Repr

inductive Out where
  | unit
  | str (s : String)
  | err (e : ErrKind)
  | tr (src dst : Nat)
  | epsg (e : Option Nat)
  | bool (b : Bool)
  deriving DecidableEq, Repr

def assoc {β : Type} (k : Nat) : List (Nat × β) → Option β
  | [] => none
  | (k', v) :: t => if k' = k then some v else assoc k t

def setVar {β : Type} (k : Nat) (v : β) (l : List (Nat × β)) : List (Nat × β) :=
  (k, v) :: l.filter (fun e => e.1 != k)

def delVar {β : Type} (k : Nat) (l : List (Nat × β)) : List (Nat × β) :=
  l.filter (fun e => e.1 != k)

/-- Allocate a pyproj object: CPython may hand out a previously freed address. -/
def alloc (σ : State) (pick : Nat) (p : PInfo) : State × Nat :=
  if pick < σ.free.length then
    let id := σ.free.getD pick 0
    ({ σ with free := σ.free.eraseIdx pick, heap := (id, p) :: σ.heap }, id)
  else
    ({ σ with next := σ.next + 1, heap := (σ.next, p) :: σ.heap }, σ.next)

def keyObj? : Key → Option Nat
  | .obj i _ => some i
  | .txt _ => none

/-- ids referenced from `_crs_cache` (values and object keys), `CRS` instances and
user-held pyproj objects. -/
def roots (σ : State) : List Nat :=
  σ.cache.map (·.2.obj) ++ σ.cache.filterMap (fun e => keyObj? e.1)
    ++ σ.vars.map (·.2.obj) ++ σ.pvars.map (·.2.1)

/-- Free every pyproj object nothing refers to; its id becomes reusable. -/
def collect (σ : State) : State :=
  let r := roots σ
  { σ with heap := σ.heap.filter (fun e => r.contains e.1),
           free := (σ.heap.filter (fun e => !r.contains e.1)).map (·.1) ++ σ.free }

/-- `cache[k]` of the `cachetools.cached` wrapper. -/
def cacheFind (W : World) (k : Key) (c : List (Key × CrsObj)) : Option CrsObj :=
  (c.find? (fun e => keyEq W e.1 k)).map (·.2)

/-- `_make_crs(spec)` through `cachetools.cached(_crs_cache, key=_make_crs_key)` for a
pyproj object that already exists (`crs = crs_spec`, crs.py:68-69). -/
def makeFromObj (W : World) (σ : State) (id : Nat) (p : PInfo) : State × Res CrsObj :=
  let k := Key.obj id p
  match cacheFind W k σ.cache with
  | some e => (σ, .ok e)
  | none =>
    match entryOf id p 0 with
    | .ok e => ({ σ with cache := σ.cache ++ [(k, e)] }, .ok e)
    | .error x => (σ, .error x)

/-- `_make_crs` for `str` / `int` specs (crs.py:62-67): on a miss pyproj builds a new
object; a `CRSError` (a `RuntimeError`) stores nothing. -/
def makeFromText (W : World) (σ : State) (key : String) (parsed : Option PInfo) (e0 : Nat)
    (pick : Nat) : State × Res CrsObj :=
  let k := Key.txt key
  match cacheFind W k σ.cache with
  | some e => (σ, .ok e)
  | none =>
    match parsed with
    | none => (σ, .error .runtimeError)
    | some p =>
      let (σ1, id) := alloc σ pick p
      match entryOf id p e0 with
      | .ok e => ({ σ1 with cache := σ1.cache ++ [(k, e)] }, .ok e)
      | .error x => (σ1, .error x)

/-- `CRS.__init__` (crs.py:100-122). -/
def construct (W : World) (σ : State) (spec : Spec) (pick : Nat) : State × Res CrsObj :=
  match spec with
  | .int n => makeFromText W σ (keyOfInt n) (W.fromEpsg n) n pick
  | .str s => makeFromText W σ (keyOfStr s) (W.fromText s) 0 pick
  | .pyproj pv =>
    match assoc pv σ.pvars with
    | none => (σ, .error .valueError)
    | some (id, p) => makeFromObj W σ id p
  | .dict d =>
    match W.fromText d with
    | none => (σ, .error .runtimeError)
    | some p =>
      let (σ1, id) := alloc σ pick p
      makeFromObj W σ1 id p
  | .crs v =>
    match assoc v σ.vars with
    | none => (σ, .error .valueError)
    | some c => (σ, .ok c)

/-- Python truthiness of `_epsg` (`0` and `None` are falsy). -/
def truthy : Option Nat → Bool
  | some n => n != 0
  | none => false

/-- `CRS.__eq__` for two `CRS` instances (crs.py:252-268). -/
def crsEq (a b : CrsObj) : Bool :=
  if a.obj == b.obj then true                                   -- `self._crs is other._crs`
  else if truthy a.epsg && truthy b.epsg then a.epsg == b.epsg  -- both `_epsg` truthy
  else if a.str == b.str then true
  else a.info.sys == b.info.sys                                 -- `self._crs == other._crs`

/-- `hash(crs)` is `hash(self._str)` (crs.py:246-247) for any string hash `H`. -/
def crsHash (H : String → Int) (a : CrsObj) : Int := H a.str

/-- `__dask_tokenize__` (crs.py:338-339): `("odc.geo.crs.CRS", str(self))`. -/
def crsToken (a : CrsObj) : String × String := ("odc.geo.crs.CRS", a.str)

def step (W : World) (σ : State) : Op → State × Out
  | .pnewText pv t pick =>
    match W.fromText t with
    | none => (σ, .err .runtimeError)
    | some p => let (σ1, id) := alloc σ pick p
                ({ σ1 with pvars := setVar pv (id, p) σ1.pvars }, .unit)
  | .pnewEpsg pv n pick =>
    match W.fromEpsg n with
    | none => (σ, .err .runtimeError)
    | some p => let (σ1, id) := alloc σ pick p
                ({ σ1 with pvars := setVar pv (id, p) σ1.pvars }, .unit)
  | .mk v spec pick =>
    match construct W σ spec pick with
    | (σ1, .ok c) => ({ σ1 with vars := setVar v c σ1.vars }, .str c.str)
    | (σ1, .error e) => (σ1, .err e)
  | .pickle v src pick =>
    -- `__getstate__` keeps `_str` only; `__setstate__` calls `__init__(crs_str)` (crs.py:124-128)
    match assoc src σ.vars with
    | none => (σ, .err .valueError)
    | some c =>
      match construct W σ (.str c.str) pick with
      | (σ1, .ok c') => ({ σ1 with vars := setVar v c' σ1.vars }, .str c'.str)
      | (σ1, .error e) => (σ1, .err e)
  | .drop v => ({ σ with vars := delVar v σ.vars }, .unit)
  | .pdrop pv => ({ σ with pvars := delVar pv σ.pvars }, .unit)
  | .gc => (collect σ, .unit)
  | .transformer a b xy =>
    match assoc a σ.vars, assoc b σ.vars with
    | some ca, some cb =>
      -- `_make_crs_transform_key` (crs.py:81-82): object identities
      let k := (ca.obj, cb.obj, xy)
      match (σ.tcache.find? (fun e => e.1 == k)).map (·.2) with
      | some (s, d) => (σ, .tr s d)
      | none =>
        -- `Transformer.from_crs(from_crs, to_crs)` on the objects passed in
        let r := (ca.info.sys, cb.info.sys)
        ({ σ with tcache := σ.tcache ++ [(k, r)] }, .tr r.1 r.2)
    | _, _ => (σ, .err .valueError)
  | .epsg v =>
    match assoc v σ.vars with
    | none => (σ, .err .valueError)
    | some c =>
      -- `to_epsg` (crs.py:146-152): fill the lazy field of *this instance* only
      if c.epsg == some 0 then
        let c' := { c with epsg := c.info.epsg }
        ({ σ with vars := setVar v c' σ.vars }, .epsg c'.epsg)
      else (σ, .epsg c.epsg)
  | .eq a b =>
    match assoc a σ.vars, assoc b σ.vars with
    | some ca, some cb => (σ, .bool (crsEq ca cb))
    | _, _ => (σ, .err .valueError)
  | .evict k => ({ σ with cache := σ.cache.eraseIdx k }, .unit)

/-- Run a history from a given state, collecting the observations. -/
def runFrom (W : World) : State → List Op → State × List Out
  | σ, [] => (σ, [])
  | σ, op :: ops =>
    let (σ1, o) := step W σ op
    let (σ2, os) := runFrom W σ1 ops
    (σ2, o :: os)

/-- A fresh interpreter. -/
def run (W : World) (h : List Op) : State × List Out := runFrom W {} h

/-- Histories made only of operations the library really has. -/
def Op.real : Op → Bool
  | .evict _ => false
  | _ => true

/-! ## Part (b): value types -/

/-- How a Python scalar prints (what tokens and pickles see). -/
inductive NumKind where
  | bool | int | float
  deriving DecidableEq, Repr

/-- A Python number: `==` and `hash` look at `val` only; `repr`, hence dask tokens and
pickles, also at the kind and the sign of a float zero. -/
structure PyNum where
  kind : NumKind
  val : Rat
  negz : Bool := false
  deriving DecidableEq, Repr

def PyNum.eq (a b : PyNum) : Bool := a.val == b.val

def numsEq : List PyNum → List PyNum → Bool
  | [], [] => true
  | a :: as, b :: bs => a.eq b && numsEq as bs
  | _, _ => false

/-- Normalised dask token: `md5(str(tuple))` is modelled by the tuple itself (atoms are
printed injectively by `repr`). -/
inductive Atom where
  | tag (s : String)                 -- type tag / class path
  | txt (s : String)                 -- a `str`
  | num (n : PyNum)                  -- `repr` of a scalar
  | int (i : Int)                    -- a Python `int`
  | iarr (xs : List Int)             -- int32 numpy array: bytes + dtype + shape
  | farr (xs : List PyNum)           -- float64 N×2 numpy array
  | ident (i : Nat)                  -- object identity
  deriving DecidableEq, Repr

abbrev Token := List Atom

/-- What `hash()` is computed from (any hash function of these values). -/
inductive HAtom where
  | val (r : Rat)
  | txt (s : String)
  | none
  | ident (i : Nat)
  deriving DecidableEq, Repr

/-- hash input of a number: CPython never returns `-1` from `hash`, `hash(-1) = hash(-2) = -2`. -/
def hv (r : Rat) : HAtom := .val (if r = -1 then -2 else r)

/-- `self._crs == other._crs` for optional CRS (`None == None`; `None == crs` is `False`
because `CRS(None)` raises inside `__eq__`). -/
def optCrsEq : Option CrsObj → Option CrsObj → Bool
  | none, none => true
  | some a, some b => crsEq a b
  | _, _ => false

/-- `str(self.crs)` -/
def optCrsStr : Option CrsObj → String
  | none => "None"
  | some c => c.str

def optCrsHash : Option CrsObj → HAtom
  | none => .none
  | some c => .txt c.str

/-- pickle of a `CRS` field: `None`, or the `_str` (crs.py:124-125). -/
def optCrsPkl : Option CrsObj → Atom
  | none => .tag "None"
  | some c => .txt c.str

/-! ### XY family (types.py:43-220).  `XY.__eq__` only asks `isinstance(other, XY)`. -/

inductive XYCls where
  | xy | resolution | index2d | shape2d
  deriving DecidableEq, Repr

def XYCls.name : XYCls → String
  | .xy => "odc.geo.types.XY" | .resolution => "odc.geo.types.Resolution"
  | .index2d => "odc.geo.types.Index2d" | .shape2d => "odc.geo.types.Shape2d"

structure XYv where
  cls : XYCls
  x : PyNum
  y : PyNum
  deriving DecidableEq, Repr

namespace XYv
def eq (a b : XYv) : Bool := a.x.eq b.x && a.y.eq b.y          -- `self._xy == other._xy`
/-- `hash(self._xy)`; `Shape2d` overrides `__eq__` (types.py:217) without `__hash__`, so Python
makes it unhashable -/
def hashKey (a : XYv) : Option (List HAtom) :=
  if a.cls = .shape2d then none else some [hv a.x.val, hv a.y.val]
/-- no `__dask_tokenize__`: dask hashes the pickle (class + slot `_xy`) -/
def token (a : XYv) : Token := [.tag a.cls.name, .num a.x, .num a.y]
def clone (a : XYv) : XYv := a
end XYv

/-! ### BoundingBox (geom.py:41-85) -/

structure BBox where
  crs : Option CrsObj
  l : PyNum
  b : PyNum
  r : PyNum
  t : PyNum
  deriving DecidableEq, Repr

namespace BBox
def eq (a b : BBox) : Bool :=
  optCrsEq a.crs b.crs && (a.l.eq b.l && a.b.eq b.b && a.r.eq b.r && a.t.eq b.t)
def hashKey (a : BBox) : List HAtom :=
  [optCrsHash a.crs, hv a.l.val, hv a.b.val, hv a.r.val, hv a.t.val]
def token (a : BBox) : Token :=
  [.tag "odc.geo.geom.BoundingBox", optCrsPkl a.crs, .num a.l, .num a.b, .num a.r, .num a.t]
/-- pickle round trip: slots copied, the CRS goes through `CRS(_str)` giving `c'` -/
def clone (a : BBox) (c' : Option CrsObj) : BBox := { a with crs := c' }
end BBox

/-! ### Geometry (geom.py:893-914): unhashable; pickles as `{"geom": json, "crs": crs}` -/

structure Geom where
  crs : Option CrsObj
  gtype : String
  layout : List Int         -- lengths of the parts / rings
  coords : List PyNum       -- all coordinates, flattened (shapely stores doubles)
  deriving DecidableEq, Repr

namespace Geom
def eq (a b : Geom) : Bool :=
  optCrsEq a.crs b.crs && (a.gtype == b.gtype && a.layout == b.layout && numsEq a.coords b.coords)
def token (a : Geom) : Token :=
  [.tag "odc.geo.geom.Geometry", .txt a.gtype, .iarr a.layout, optCrsPkl a.crs] ++ a.coords.map .num
def clone (a : Geom) (c' : Option CrsObj) : Geom := { a with crs := c' }
end Geom

/-! ### GeoBox (geobox.py:720-721, 867-875, 1094-1100).  `affine.Affine` stores doubles. -/

structure GBox where
  crs : Option CrsObj
  ny : Int
  nx : Int
  aff : List PyNum     -- a b c d e f
  deriving DecidableEq, Repr

namespace GBox
def eq (a b : GBox) : Bool :=
  (a.nx == b.nx && a.ny == b.ny) && numsEq a.aff b.aff && optCrsEq a.crs b.crs
/-- `hash((*self._shape, self._crs, self._affine))` -/
def hashKey (a : GBox) : List HAtom :=
  [hv a.ny, hv a.nx, optCrsHash a.crs] ++ a.aff.map (fun n => hv n.val)
/-- `("odc.geo.geobox.GeoBox", str(self.crs), *self._shape.yx, *self._affine[:6])` -/
def tokenTail (a : GBox) : Token := [.txt (optCrsStr a.crs), .int a.ny, .int a.nx] ++ a.aff.map .num
def token (a : GBox) : Token := .tag "odc.geo.geobox.GeoBox" :: a.tokenTail
def clone (a : GBox) (c' : Option CrsObj) : GBox := { a with crs := c' }
end GBox

/-! ### GCPMapping / GCPGeoBox (gcp.py:110-116, 170-171, 281-289, 311-317) -/

structure GCPMap where
  ident : Nat             -- which `GCPMapping` object (it has no `__eq__`: identity)
  crs : Option CrsObj
  wld : List PyNum
  pix : List PyNum
  deriving DecidableEq, Repr

structure GCPBox where
  ny : Int
  nx : Int
  aff : List PyNum
  mapping : GCPMap
  deriving DecidableEq, Repr

namespace GCPBox
/-- `self._shape == o.shape and self._mapping is o._mapping and self._affine == o._affine` -/
def eq (a b : GCPBox) : Bool :=
  (a.nx == b.nx && a.ny == b.ny) && a.mapping.ident == b.mapping.ident && numsEq a.aff b.aff
/-- `hash((*self._shape, self._affine, self._crs, id(self._mapping)))` -/
def hashKey (a : GCPBox) : List HAtom :=
  [hv a.ny, hv a.nx, optCrsHash a.mapping.crs, .ident a.mapping.ident] ++ a.aff.map (fun n => hv n.val)
def tokenTail (a : GCPBox) : Token :=
  [.txt (optCrsStr a.mapping.crs), .farr a.mapping.wld, .farr a.mapping.pix, .int a.ny, .int a.nx]
    ++ a.aff.map .num
def token (a : GCPBox) : Token := .tag "odc.geo._gcp.GCPGeoBox" :: a.tokenTail
/-- pickle round trip: the mapping is rebuilt as a **new object** `fresh` -/
def clone (a : GCPBox) (fresh : Nat) (c' : Option CrsObj) : GCPBox :=
  { a with mapping := { a.mapping with ident := fresh, crs := c' } }
/-- `copy.copy`: shares the mapping object -/
def copy (a : GCPBox) : GCPBox := a
end GCPBox

/-! ### Tiles (roi.py:117-231) -/

structure Tiles where
  baseY : Int
  baseX : Int
  tileY : Int
  tileX : Int
  ny : Int        -- `_shape`, computed by `__init__`
  nx : Int
  deriving DecidableEq, Repr

/-- `int(math.ceil(float(N) / n))` (exact for |N| < 2^53) -/
def ceilDiv (N n : Int) : Int := ((N : Rat) / (n : Rat)).ceil

namespace Tiles
/-- `Tiles.__init__` (roi.py:124-133); a zero tile side raises `ZeroDivisionError`. -/
def mk' (baseY baseX tileY tileX : Int) : Res Tiles :=
  if tileY = 0 ∨ tileX = 0 then .error .zeroDiv
  else .ok ⟨baseY, baseX, tileY, tileX, ceilDiv baseY tileY, ceilDiv baseX tileX⟩
def eq (a b : Tiles) : Bool :=
  (a.baseX == b.baseX && a.baseY == b.baseY) && (a.tileX == b.tileX && a.tileY == b.tileY)
/-- `__dask_tokenize__` after `fix: Tiles dask token includes the base shape` -/
def tokenTail (a : Tiles) : Token :=
  [.int a.ny, .int a.nx, .int a.tileY, .int a.tileX, .int a.baseY, .int a.baseX]
def token (a : Tiles) : Token := .tag "odc.geo.roi.Tiles" :: a.tokenTail
/-- the token as it was before the fix (finding F6): the base shape is missing -/
def tokenLegacy (a : Tiles) : Token :=
  [.tag "odc.geo.roi.Tiles", .int a.ny, .int a.nx, .int a.tileY, .int a.tileX]
def clone (a : Tiles) : Tiles := a
end Tiles

/-! ### VariableSizedTiles (roi.py:234-327): int32 cumulative offsets -/

def wrap32 (i : Int) : Int := (i + 2147483648) % 4294967296 - 2147483648

/-- `np.asarray([0, *idx], dtype="int32").cumsum(dtype="int32")` -/
def cumsum32 (acc : Int) : List Int → List Int
  | [] => []
  | c :: cs => let a := wrap32 (acc + wrap32 c); a :: cumsum32 a cs

structure VTiles where
  offY : List Int
  offX : List Int
  deriving DecidableEq, Repr

namespace VTiles
def mk' (chY chX : List Int) : VTiles := ⟨0 :: cumsum32 0 chY, 0 :: cumsum32 0 chX⟩
/-- shapes equal and no element differs -/
def eq (a b : VTiles) : Bool := a.offY == b.offY && a.offX == b.offX
def tokenTail (a : VTiles) : Token := [.iarr a.offY, .iarr a.offX]
def token (a : VTiles) : Token := .tag "odc.geo.roi.VariableSizedTiles" :: a.tokenTail
def clone (a : VTiles) : VTiles := a
end VTiles

/-! ### GeoboxTiles (geobox.py:1302-1524) -/

inductive AnyBox where
  | lin (g : GBox)
  | gcp (g : GCPBox)
  deriving DecidableEq, Repr

inductive AnyTiles where
  | reg (t : Tiles)
  | var (t : VTiles)
  deriving DecidableEq, Repr

def AnyBox.eq : AnyBox → AnyBox → Bool
  | .lin a, .lin b => a.eq b
  | .gcp a, .gcp b => a.eq b
  | _, _ => false          -- `isinstance` checks in both `__eq__`s
def AnyBox.tokenTail : AnyBox → Token
  | .lin a => a.tokenTail
  | .gcp a => a.tokenTail
def AnyTiles.eq : AnyTiles → AnyTiles → Bool
  | .reg a, .reg b => a.eq b
  | .var a, .var b => a.eq b
  | _, _ => false
def AnyTiles.tokenTail : AnyTiles → Token
  | .reg a => a.tokenTail
  | .var a => a.tokenTail

structure GBTiles where
  gbox : AnyBox
  tiles : AnyTiles
  deriving DecidableEq, Repr

namespace GBTiles
/-- `self._tiles == value._tiles and self._gbox == value._gbox` -/
def eq (a b : GBTiles) : Bool := a.tiles.eq b.tiles && a.gbox.eq b.gbox
/-- `("odc.geo.geobox.GeoboxTiles", *gbox.token[1:], *tiles.token[1:])` -/
def token (a : GBTiles) : Token :=
  .tag "odc.geo.geobox.GeoboxTiles" :: (a.gbox.tokenTail ++ a.tiles.tokenTail)
end GBTiles

/-! ### Bin1D (math.py:579-616) and GridSpec (gridspec.py:47-88) -/

structure Bin1D where
  sz : PyNum
  origin : PyNum
  dir : Int
  deriving DecidableEq, Repr

namespace Bin1D
def eq (a b : Bin1D) : Bool := a.sz.eq b.sz && a.origin.eq b.origin && a.dir == b.dir
def tokenTail (a : Bin1D) : Token := [.num a.sz, .num a.origin, .int a.dir]
def token (a : Bin1D) : Token := .tag "odc.geo.math.Bin1D" :: a.tokenTail
def clone (a : Bin1D) : Bin1D := a
end Bin1D

structure GridSpec where
  crs : CrsObj
  ty : Int                 -- `_shape`
  tx : Int
  resx : PyNum             -- `resolution` (floats)
  resy : PyNum
  ox : PyNum               -- `origin`
  oy : PyNum
  ybin : Bin1D
  xbin : Bin1D
  deriving DecidableEq, Repr

def absNum (a : PyNum) : Rat := if a.val < 0 then -a.val else a.val

namespace GridSpec
/-- `GridSpec.__init__` (gridspec.py:47-77): `tile_size = shape * |resolution|`,
`Bin1D(tile_size, origin, ∓1)` asserts a positive size. -/
def mk' (crs : CrsObj) (ty tx : Int) (resx resy ox oy : PyNum) (flipx flipy : Bool) : Res GridSpec :=
  let szx : Rat := tx * absNum resx
  let szy : Rat := ty * absNum resy
  if szy ≤ 0 ∨ szx ≤ 0 then .error .assertion
  else .ok ⟨crs, ty, tx, resx, resy, ox, oy,
            ⟨⟨.float, szy, false⟩, oy, if flipy then -1 else 1⟩,
            ⟨⟨.float, szx, false⟩, ox, if flipx then -1 else 1⟩⟩
/-- `_shape`, `_ybin`, `_xbin`, `crs` — the resolution itself is not compared -/
def eq (a b : GridSpec) : Bool :=
  (a.tx == b.tx && a.ty == b.ty) && a.ybin.eq b.ybin && a.xbin.eq b.xbin && crsEq a.crs b.crs
/-- no `__dask_tokenize__`: pickle of `__dict__` (`crs, _shape, resolution, tile_size,
origin, _ybin, _xbin`; `tile_size` repeats the bin sizes) -/
def token (a : GridSpec) : Token :=
  [.tag "odc.geo.gridspec.GridSpec", .txt a.crs.str, .int a.ty, .int a.tx, .num a.resx, .num a.resy,
   .num a.ox, .num a.oy] ++ a.ybin.tokenTail ++ a.xbin.tokenTail
def clone (a : GridSpec) (c' : CrsObj) : GridSpec := { a with crs := c' }
end GridSpec


/-! ### Constructors and normalisers (types.py:165-175, 340-346, 407-418; roi.py:330-334;
geobox.py:1305-1325) -/

/-- `float(x)`: same value, prints as a float; only a float zero carries a sign -/
def PyNum.toFloat (a : PyNum) : PyNum := ⟨.float, a.val, a.kind == .float && a.negz⟩

/-- unary minus: `-0 == 0` for ints (and `-True == -1` is an int), `-(0.0)` is `-0.0` -/
def PyNum.neg (a : PyNum) : PyNum :=
  match a.kind with
  | .float => ⟨.float, -a.val, if a.val = 0 then !a.negz else false⟩
  | _ => ⟨.int, -a.val, false⟩

/-- `int(x)`: truncation toward zero -/
def PyNum.toInt (a : PyNum) : PyNum :=
  ⟨.int, ((if a.val < 0 then -((-a.val).floor) else a.val.floor : Int) : Rat), false⟩

/-- is it an `int` instance (`bool` is) -/
def PyNum.isInt (a : PyNum) : Bool := a.kind != .float

/-- `Resolution.__init__(x, y=None)`: `if y is None: y = -x`; both through `float()` -/
def Resolution.mk' (x : PyNum) (y : Option PyNum) : XYv :=
  let y := match y with
    | some y => y
    | none => x.neg
  ⟨.resolution, x.toFloat, y.toFloat⟩

/-- argument of `res_` -/
inductive ResIn where
  | res (v : XYv)
  | num (x : PyNum)
  deriving DecidableEq, Repr

/-- `res_(x)`: a `Resolution` is passed through, a number gives `Resolution(float(x))` — the
conversion happens *before* the negation, so `res_(0)` is `(0.0, -0.0)` where
`Resolution(0)` is `(0.0, 0.0)` -/
def resNorm : ResIn → XYv
  | .res v => v
  | .num x => Resolution.mk' x.toFloat none

/-- argument of `shape_` -/
inductive ShapeIn where
  | shape2d (v : XYv)
  | xy (v : XYv)
  | seq (xs : List PyNum)
  deriving DecidableEq, Repr

/-- `shape_(x)`: `Shape2d` passed through; `XY` mapped through `int`; a sequence is `(ny, nx)`
(anything but two elements fails to unpack: `ValueError`) -/
def shapeNorm : ShapeIn → Res XYv
  | .shape2d v => .ok v
  | .xy v => .ok ⟨.shape2d, v.x.toInt, v.y.toInt⟩
  | .seq [ny, nx] => .ok ⟨.shape2d, nx.toInt, ny.toInt⟩
  | .seq _ => .error .valueError

/-- `Shape2d.__eq__(tuple)` (types.py:217-219): `self.shape == other`, and `.shape` insists on
ints (types.py:118-131) -/
def Shape2d.eqTuple (v : XYv) (t : List PyNum) : Res Bool :=
  if v.x.isInt && v.y.isInt then
    match t with
    | [a, b] => .ok (v.y.eq a && v.x.eq b)
    | _ => .ok false
  else .error .valueError

/-- second argument of `GeoboxTiles(box, tile_shape)` -/
inductive How where
  | shape (ty tx : Int)
  | chunks (y x : List Int)
  deriving DecidableEq, Repr

/-- `roi_tiles(shape, how)` (roi.py:330-334): a pair of sequences gives a variable tiling —
which does **not** look at `shape` — anything else a regular one over `shape` -/
def roiTiles (ny nx : Int) : How → Res AnyTiles
  | .shape ty tx => (Tiles.mk' ny nx ty tx).map .reg
  | .chunks y x => .ok (.var (VTiles.mk' y x))

def AnyBox.ny : AnyBox → Int
  | .lin g => g.ny
  | .gcp g => g.ny
def AnyBox.nx : AnyBox → Int
  | .lin g => g.nx
  | .gcp g => g.nx

/-- last element of an offsets array (`offsets[-1]`; the arrays `VTiles.mk'` builds always begin
with `0`, the empty case is not reachable through the constructors) -/
def lastOff : List Int → Int
  | [] => 0
  | [a] => a
  | _ :: b :: t => lastOff (b :: t)

/-- `tiles.base` (roi.py:183, 291): the base shape of a regular tiling, the last offsets of a
variable one -/
def AnyTiles.base : AnyTiles → Int × Int
  | .reg t => (t.baseY, t.baseX)
  | .var t => (lastOff t.offY, lastOff t.offX)

/-- `GeoboxTiles.__init__(box, tile_shape)` after `fix: GeoboxTiles refuses chunk tuples that
do not add up to the GeoBox shape`: `if self._tiles.base != box.shape: raise ValueError` -/
def GBTiles.mk' (g : AnyBox) (how : How) : Res GBTiles :=
  match roiTiles g.ny g.nx how with
  | .error e => .error e
  | .ok t => if t.base = (g.ny, g.nx) then .ok ⟨g, t⟩ else .error .valueError

def AnyTiles.tokenTailLegacy : AnyTiles → Token
  | .reg a => a.tokenLegacy.drop 1
  | .var a => a.tokenTail

/-- the GeoboxTiles token as it was while `Tiles.__dask_tokenize__` left the base shape out -/
def GBTiles.tokenLegacy (a : GBTiles) : Token :=
  .tag "odc.geo.geobox.GeoboxTiles" :: (a.gbox.tokenTail ++ a.tiles.tokenTailLegacy)

/-! ### `crs == other` for `other` that is not a `CRS` (crs.py:253-257)

`other = CRS(other)` inside `try`, any exception gives `False`; the construction goes through
the cache like any other.  Expressed with the operations of the state machine, using a
variable `tmp` nothing else uses, so that every theorem about histories covers it. -/

def eqSpecOps (v : Nat) (spec : Spec) (pick tmp : Nat) : List Op :=
  [.mk tmp spec pick, .eq v tmp, .drop tmp]

def eqSpecOut : List Out → Out
  | [.str _, .bool b, _] => .bool b
  | _ => .bool false

end OdcGeo.C19
