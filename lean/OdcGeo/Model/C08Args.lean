/-
Argument normalisation and CRS bookkeeping around the core of `GeoBox.from_bbox` /
`GeoBox.from_geopolygon` (`odc/geo/geobox.py:496-652`, `odc/geo/types.py:326-421`), core Lean only.

`Model/C08.lean` models the numeric core on already classified arguments (`ShapeArg`, `ResArg`,
`AnchorArg`, a `BBox` in the CRS of the result).  This file models the glue in front of it, in the
order the code executes it:

* `_norm_anchor` on values it does not understand (`KeyError` for an unknown hashable value, `TypeError`
  for an unhashable one);
* `_norm_bbox`: the region as a 4-tuple / a `BoundingBox` without CRS / a `BoundingBox` with CRS, the
  `crs` argument as `None` / a falsy value / a `"utm…"` string / anything else, and which CRS the
  result reports (`GeoBox(..., crs=bbox.crs)`);
* the `isinstance` dispatch on `shape` (number → derived resolution, which then **overrides**
  `resolution`) and, only when no resolution is left, `shape_()` (`Shape2d`, `XY` → `.map(int)`,
  sequence → `ny, nx = map(int, x)`, anything else → `ValueError`);
* `res_()` on `resolution` (number → `(r, -r)`, `Resolution` passed through, anything else →
  `ValueError`), evaluated only in the resolution branch;
* `from_geopolygon`: `crs is None or isinstance(crs, Unset)` keeps the polygon's CRS, otherwise
  `geopolygon.to_crs(crs)` (a `ValueError` for a polygon without CRS).

CRS values are abstract (`κ`, with the distinguished `lonlat` = `"epsg:4326"`); the projection and the CRS
a `"utm…"` string resolves to (`norm_crs`, C11) are parameters.
-/
import OdcGeo.Model.C08
namespace OdcGeo.C08

/-- Exceptions of the argument glue: the shared kinds plus `KeyError` / `TypeError`. -/
inductive ArgErr where
  | std (e : ErrKind)
  | keyError
  | typeError
  deriving DecidableEq, Repr

def ArgErr.toStr : ArgErr → String
  | .std e => e.toStr
  | .keyError => "ERR:KeyError"
  | .typeError => "ERR:TypeError"

abbrev ResA (α : Type) := Except ArgErr α

def liftRes {α : Type} : Res α → ResA α
  | .ok a => .ok a
  | .error e => .error (.std e)

/-- The `anchor=` argument as Python hands it over: something `_norm_anchor` understands (`AnchorArg`), a
hashable value that is not a key of its table (a misspelt name, `None`, a tuple, a numpy scalar that is
not a `float`), or an unhashable value (a list). -/
inductive AnchorForm where
  | arg (a : AnchorArg)
  | badKey
  | unhashable
  deriving DecidableEq, Repr

/-- `_norm_anchor(anchor)` on any value. -/
def normAnchorForm : AnchorForm → ResA Anchor
  | .arg a => .ok (normAnchor a)
  | .badKey => .error .keyError
  | .unhashable => .error .typeError

/-- The `shape=` argument by the classes the code distinguishes. -/
inductive ShapeForm where
  | none
  /-- `int` / `float` / `bool` (also `numpy.float64`, a subclass of `float`) -/
  | num (q : Rat)
  /-- a `Shape2d` instance -/
  | shape2d (ny nx : Int)
  /-- an `XY` that is not a `Shape2d`: `x.map(int).xy` -/
  | xy (x y : Rat)
  /-- any other `Sequence` of numbers: `ny, nx = map(int, x)` -/
  | seq (l : List Rat)
  /-- anything else (`numpy` integer scalars, arrays, …) -/
  | other
  deriving DecidableEq, Repr

/-- The `resolution=` argument by the classes `res_` distinguishes. -/
inductive ResForm where
  | none
  /-- `int` / `float` / `bool` -/
  | num (q : Rat)
  /-- a `Resolution` instance -/
  | res (rx ry : Rat)
  /-- anything else (tuples, plain `XY`, `numpy.float32`, `numpy` integers, …) -/
  | other
  deriving DecidableEq, Repr

/-- `res_(x)` (types.py:326-332) for `x` not `None`. -/
def resOfForm : ResForm → Res ResArg
  | .none => .ok .none
  | .num q => .ok (.scalar q)
  | .res rx ry => .ok (.xy rx ry)
  | .other => .error .valueError

/-- `shape_(x)` (types.py:410-421) for `x` that is neither `None` nor a plain number.  `int()` of a
finite float truncates toward zero. -/
def shapeOfForm : ShapeForm → Res ShapeArg
  | .shape2d ny nx => .ok (.yx ny nx)
  | .xy x y => .ok (.yx (C20.trunc y) (C20.trunc x))
  | .seq [a, b] => .ok (.yx (C20.trunc a) (C20.trunc b))
  | .seq _ => .error .valueError            -- too many / not enough values to unpack
  | .other => .error .valueError            -- "Input type not understood"
  | .none => .error .valueError             -- not reached (`shape is None` is tested first)
  | .num _ => .error .valueError            -- not reached (numbers are consumed before)

/-- The resolution a single-number `shape` stands for (geobox.py:558-563), for any number (a float such
as `2.5` included): square pixels, that many along the longest side. -/
def numShapeToRes (bb : BBox) (q : Rat) : Res Rat :=
  if bb.spanY = 0 then .error .zeroDiv                 -- `bbox.aspect`
  else if q = 0 then .error .zeroDiv
  else if bb.spanX / bb.spanY > 1 then .ok (bb.spanX / q)
  else .ok (bb.spanY / q)

/-- `if isinstance(shape, (int, float)): resolution = …; shape = None` (geobox.py:558-563): a number `shape`
is turned into a resolution that replaces whatever `resolution=` was. -/
def shapeDispatch (bb : BBox) (shape : ShapeForm) (res : ResForm) : ResA (ShapeForm × ResForm) :=
  match shape with
  | .num q =>
    match numShapeToRes bb q with
    | .ok r => .ok (.none, .num r)
    | .error e => .error (.std e)
  | s => .ok (s, res)

/-- The rest of `from_bbox` once a number `shape` is out of the way (geobox.py:565-589): the resolution branch
(`res_()`, the shape is not looked at, not even validated), else `shape_()` and the shape branch. -/
def fromBboxBranches (bb : BBox) (tight : Bool) (shape : ShapeForm) (res : ResForm) (a : Anchor)
    (tol : Rat) : ResA GeoBox :=
  match res with
  | .none =>
    match shape with
    | .none => .error (.std .valueError)                 -- "Must supply shape or resolution"
    | s =>
      match shapeOfForm s with
      | .error e => .error (.std e)
      | .ok sh => liftRes (fromBbox bb tight sh .none (.val a) tol)
  | r =>
    match resOfForm r with
    | .error e => .error (.std e)
    | .ok ra => liftRes (fromBbox bb tight .none ra (.val a) tol)

/-- `GeoBox.from_bbox` from the classified arguments down to the numeric core, the region already
being a `BBox` (see `fromBboxCrs` for the region / CRS forms).  Order of evaluation as in the code. -/
def fromBboxForms (bb : BBox) (tight : Bool) (shape : ShapeForm) (res : ResForm) (anchor : AnchorForm)
    (tol : Rat) : ResA GeoBox := do
  let a ← normAnchorForm anchor
  let sr ← shapeDispatch bb shape res
  fromBboxBranches bb tight sr.1 sr.2 a tol

/-! ### the region and the CRS (`_norm_bbox`, geobox.py:540-556) -/

/-- The region argument: a plain tuple / list (any length) or a `BoundingBox` with its `crs` attribute. -/
inductive RegionForm (κ : Type) where
  | tuple (vals : List Rat)
  | bbox (b : BBox) (crs : Option κ)
  deriving Repr

/-- The `crs` argument of `from_bbox`: `None`, another falsy value (`""`), a string starting with `utm`
(any case), anything else (normalising to the CRS `c`). -/
inductive CrsForm (κ : Type) where
  | none
  | falsy
  | utm
  | given (c : κ)
  deriving Repr

/-- `_norm_bbox(vals, crs)`: the `BoundingBox` (`BBox` × its CRS) `from_bbox` continues with.  `lonlat` is
`"epsg:4326"`, `proj` / `utmCrs` are what `BoundingBox(...).to_crs("utm…")` does to points / reports as CRS. -/
def normBboxVals {κ : Type} (lonlat : κ) (proj : Rat × Rat → Rat × Rat) (utmCrs : κ) (vals : List Rat)
    (crs : CrsForm κ) : ResA (BBox × κ) :=
  match vals with
  | [l, b, r, t] =>
    match crs with
    | .utm => .ok (normBboxUtm proj ⟨l, b, r, t⟩, utmCrs)
    | .none => .ok (⟨l, b, r, t⟩, lonlat)
    | .falsy => .ok (⟨l, b, r, t⟩, lonlat)           -- `crs or "epsg:4326"`
    | .given c => .ok (⟨l, b, r, t⟩, c)
  | _ => .error .typeError                            -- `BoundingBox(*bbox, crs=…)` with ≠ 4 values

/-- The region `from_bbox` works on and the CRS its result reports. -/
def normRegion {κ : Type} (lonlat : κ) (proj : Rat × Rat → Rat × Rat) (utmCrs : κ) (region : RegionForm κ)
    (crs : CrsForm κ) : ResA (BBox × κ) :=
  match region with
  | .tuple vals => normBboxVals lonlat proj utmCrs vals crs
  | .bbox b (some c) => .ok (b, c)                     -- the `crs` argument is not looked at
  | .bbox b Option.none => normBboxVals lonlat proj utmCrs [b.left, b.bottom, b.right, b.top] crs

/-- A geobox together with the CRS it reports. -/
structure GeoBoxC (κ : Type) where
  gb : GeoBox
  crs : κ
  deriving DecidableEq, Repr

/-- `GeoBox.from_bbox(region, crs, tight=, shape=, resolution=, anchor=, tol=)`, public argument forms. -/
def fromBboxCrs {κ : Type} (lonlat : κ) (proj : Rat × Rat → Rat × Rat) (utmCrs : κ) (region : RegionForm κ)
    (crs : CrsForm κ) (tight : Bool) (shape : ShapeForm) (res : ResForm) (anchor : AnchorForm) (tol : Rat) :
    ResA (GeoBoxC κ) := do
  -- `_norm_anchor` runs first, so a bad anchor wins over a bad region
  let _ ← normAnchorForm anchor
  let (bb, c) ← normRegion lonlat proj utmCrs region crs
  let g ← fromBboxForms bb tight shape res anchor tol
  pure ⟨g, c⟩

/-! ### `from_geopolygon` (geobox.py:592-652) with its CRS argument -/

/-- The `crs` argument of `from_geopolygon`: `None` / `Unset()` or a CRS spec normalising (in the context of
the polygon: `"utm"` is resolved there) to `c`. -/
inductive PolyCrsForm (κ : Type) where
  | unset
  | given (c : κ)
  deriving Repr

/-- `GeoBox.from_geopolygon(poly, resolution, crs, align, shape=, tight=, anchor=, tol=)`.  `polyCrs` is
`geopolygon.crs`, `proj` the projection `to_crs(crs)` applies to the vertices. -/
def fromGeopolygonArgs {κ : Type} (lonlat : κ) (proj : Rat × Rat → Rat × Rat) (polyCrs : Option κ)
    (p : Rat × Rat) (ps : List (Rat × Rat)) (res : ResArg) (crs : PolyCrsForm κ) (align : Option (Rat × Rat))
    (shape : ShapeArg) (tight : Bool) (anchor : AnchorArg) (tol : Rat) : Res (GeoBoxC κ) := do
  -- old-style `align` first (its assertion / division happen before the CRS is looked at)
  let (res', anchor') ← alignToAnchor align res anchor
  match crs with
  | .unset =>
    -- `crs = geopolygon.crs`; a CRS-less polygon gives a CRS-less bounding box → `_norm_bbox(.., None)` → lon/lat
    let g ← fromBbox (bboxOfPts p ps) tight shape res' anchor' tol
    pure ⟨g, polyCrs.getD lonlat⟩
  | .given c =>
    match polyCrs with
    | Option.none => .error .valueError              -- "Cannot project geometries without CRS"
    | some _ =>
      let g ← fromBbox (bboxOfPts (proj p) (ps.map proj)) tight shape res' anchor' tol
      pure ⟨g, c⟩

end OdcGeo.C08
