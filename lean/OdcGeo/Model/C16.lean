/- Model for C16 (core Lean only, no Mathlib). -/
import OdcGeo.Model.IO
namespace OdcGeo.C16

end OdcGeo.C16
