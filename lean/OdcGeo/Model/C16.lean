/-
Model for C16 — GeoBox and bounding-box set operations on a common pixel grid
(core Lean only, no Mathlib).

Mirrors, function by function,
  odc/geo/geom.py    `BoundingBox.round/.transform/__or__/__and__`, `bbox_union`, `bbox_intersection`
  odc/geo/math.py    `maybe_zero`, `split_float`, `is_almost_int`, `split_translation`
  odc/geo/geobox.py  `pixel_translation`, `bounding_box_in_pixel_domain`,
                     `geobox_union_conservative`, `geobox_intersection_conservative`,
                     `GeoBox.__or__/__and__/overlap_roi/enclosing/snap_to/translate_pix`
Doubles are exact rationals (`Rat`), Python ints are `Int`.  A CRS is an opaque tag
(`Option Nat`, `none` = no CRS): only equality of CRSs is ever consulted by this code.
-/
import OdcGeo.Model.Affine
namespace OdcGeo.C16

/-! ### small numeric helpers (math.py) -/

/-- `abs(x)` -/
def qabs (x : Rat) : Rat := if x < 0 then -x else x

/-- C `fmod(x, 1.0)`: `x - trunc(x)`, carries the sign of `x`. -/
def fmod1 (x : Rat) : Rat := if 0 ≤ x then x - x.floor else x - x.ceil

/-- `maybe_zero(x, tol)`  (math.py:32-36) -/
def maybeZero (x tol : Rat) : Rat := if qabs x < tol then 0 else x

/-- `split_float(x)` for finite `x` → `(whole, fraction)`  (math.py:39-61) -/
def splitFloat (x : Rat) : Rat × Rat :=
  let part := fmod1 x
  let whole := x - part
  if part > 1 / 2 then (whole + 1, part - 1)
  else if part < -(1 / 2) then (whole - 1, part + 1)
  else (whole, part)

/-- `is_almost_int(x, tol)` for finite `x`  (math.py:156-169) -/
def isAlmostInt (x tol : Rat) : Bool :=
  let f := qabs (fmod1 x)
  let f := if f > 1 / 2 then 1 - f else f
  decide (f < tol)

/-- Python `round(x)` of a float: nearest integer, ties to even. -/
def pyRound (x : Rat) : Int :=
  let f := x.floor
  let r := x - f
  if r < 1 / 2 then f
  else if r > 1 / 2 then f + 1
  else if f % 2 = 0 then f else f + 1

/-! ### `numpy.isclose` with its default `rtol=1e-05`, `atol=1e-08`

`isclose(x, y)` is `abs(x - y) <= atol + rtol * abs(y)`.  The right-hand sides for `y = 1`
and `y = 0`, as the exact values of the doubles numpy computes (the harness recomputes them
from the installed numpy on every run and compares). -/

/-- `1e-08 + 1e-05 * abs(1.0)` as a double. -/
def tolOne : Rat := (1477215265422661 : Rat) / 147573952589676412928
/-- `1e-08 + 1e-05 * abs(0.0)` as a double (= the double `1e-08`). -/
def tolZero : Rat := (3022314549036573 : Rat) / 302231454903657293676544
/-- the double `1e-8`: default `tol` of `bounding_box_in_pixel_domain` / `overlap_roi`, and the
literal used by `snap_to`. -/
def tolPix : Rat := (3022314549036573 : Rat) / 302231454903657293676544

def closeOne (x : Rat) : Bool := decide (qabs (x - 1) ≤ tolOne)
def closeZero (x : Rat) : Bool := decide (qabs x ≤ tolZero)

/-! ### `BoundingBox` (geom.py:41-330) over any carrier with `min`/`max` -/

structure BBox (α : Type) where
  left : α
  bottom : α
  right : α
  top : α
  crs : Option Nat
  deriving DecidableEq, Repr

section
variable {α : Type} [Min α] [Max α]

/-- one step of the loop of `bbox_union` (geom.py:1344-1354) -/
def unionStep (acc bb : BBox α) : Res (BBox α) :=
  if acc.crs ≠ bb.crs then .error .crsMismatch
  else .ok ⟨min bb.left acc.left, min bb.bottom acc.bottom, max bb.right acc.right,
            max bb.top acc.top, acc.crs⟩

/-- one step of the loop of `bbox_intersection` (geom.py:1371-1381) -/
def interStep (acc bb : BBox α) : Res (BBox α) :=
  if acc.crs ≠ bb.crs then .error .crsMismatch
  else .ok ⟨max bb.left acc.left, max bb.bottom acc.bottom, min bb.right acc.right,
            min bb.top acc.top, acc.crs⟩

def foldRes (step : BBox α → BBox α → Res (BBox α)) (acc : BBox α) : List (BBox α) → Res (BBox α)
  | [] => .ok acc
  | bb :: rest => match step acc bb with
    | .error e => .error e
    | .ok acc' => foldRes step acc' rest

/-- `bbox_union(bbs)`  (geom.py:1330-1356) -/
def bboxUnion : List (BBox α) → Res (BBox α)
  | [] => .error .valueError
  | bb :: bbs => foldRes unionStep bb bbs

/-- `bbox_intersection(bbs)`  (geom.py:1359-1383) -/
def bboxIntersection : List (BBox α) → Res (BBox α)
  | [] => .error .valueError
  | bb :: bbs => foldRes interStep bb bbs

/-- `BoundingBox.__or__` -/
def BBox.or (a b : BBox α) : Res (BBox α) := bboxUnion [a, b]
/-- `BoundingBox.__and__` -/
def BBox.and (a b : BBox α) : Res (BBox α) := bboxIntersection [a, b]
end

/-- `BoundingBox.round()`  (geom.py:299-306) -/
def BBox.round (bb : BBox Rat) : BBox Int :=
  ⟨bb.left.floor, bb.bottom.floor, bb.right.ceil, bb.top.ceil, bb.crs⟩

/-- `BoundingBox.points` : `itertools.product((x0, x1), (y0, y1))` -/
def BBox.points (bb : BBox Rat) : List (Rat × Rat) :=
  [(bb.left, bb.bottom), (bb.left, bb.top), (bb.right, bb.bottom), (bb.right, bb.top)]

def minL : Rat → List Rat → Rat
  | x, [] => x
  | x, y :: ys => minL (min x y) ys
def maxL : Rat → List Rat → Rat
  | x, [] => x
  | x, y :: ys => maxL (max x y) ys

/-- bounding box of a non-empty point list (`min(xx), min(yy), max(xx), max(yy)`;
also shapely's `.bounds` of the vertices). -/
def bboxOfPoints (p : Rat × Rat) (ps : List (Rat × Rat)) (crs : Option Nat) : BBox Rat :=
  ⟨minL p.1 (ps.map (·.1)), minL p.2 (ps.map (·.2)), maxL p.1 (ps.map (·.1)), maxL p.2 (ps.map (·.2)), crs⟩

/-- `BoundingBox.transform(A)`  (geom.py:199-209) -/
def BBox.transform (bb : BBox Rat) (A : Aff) : BBox Rat :=
  bboxOfPoints (A.apply (bb.left, bb.bottom))
    [A.apply (bb.left, bb.top), A.apply (bb.right, bb.bottom), A.apply (bb.right, bb.top)] bb.crs

/-! ### GeoBox: the minimal record this property needs -/

structure GeoBox where
  ny : Int
  nx : Int
  aff : Aff
  crs : Option Nat
  deriving DecidableEq, Repr

/-- `GeoBox.is_empty()` : `0 in shape` -/
def GeoBox.isEmpty (g : GeoBox) : Bool := g.ny == 0 || g.nx == 0

/-- `GeoBox.translate_pix(tx, ty)` = `self * Affine.translation(tx, ty)`  (geobox.py:1015-1022) -/
def GeoBox.translatePix (g : GeoBox) (tx ty : Rat) : GeoBox :=
  { g with aff := g.aff * Aff.translation tx ty }

/-- `pixel_translation(a, b)`  (geobox.py:1108-1134): `~b.affine * a.affine` must be a pure
translation up to the `isclose` thresholds.  A degenerate `b.affine` makes `~` raise
`TransformNotInvertibleError` (reported as `valueError`). -/
def pixelTranslation (a b : GeoBox) : Res (Rat × Rat) :=
  if a.crs ≠ b.crs then .error .valueError
  else match b.aff.inv? with
    | .error e => .error e
    | .ok binv =>
      let m := binv * a.aff
      if closeOne m.a && closeZero m.b && closeZero m.d && closeOne m.e then .ok (m.c, m.f)
      else .error .valueError

/-- `bounding_box_in_pixel_domain(geobox, reference, tol)`  (geobox.py:1137-1159) -/
def bboxInPixelDomain (g ref : GeoBox) (tol : Rat) : Res (BBox Int) :=
  match pixelTranslation g ref with
  | .error e => .error e
  | .ok (tx, ty) =>
    if !(isAlmostInt tx tol && isAlmostInt ty tol) then .error .valueError
    else
      let tx := pyRound tx
      let ty := pyRound ty
      .ok ⟨tx, ty, tx + g.nx, ty + g.ny, none⟩

/-- the generator `bounding_box_in_pixel_domain(g, reference=reference) for g in geoboxes`,
fully consumed (first failure wins). -/
def allBBoxes (ref : GeoBox) (tol : Rat) : List GeoBox → Res (List (BBox Int))
  | [] => .ok []
  | g :: gs => match bboxInPixelDomain g ref tol with
    | .error e => .error e
    | .ok bb => match allBBoxes ref tol gs with
      | .error e => .error e
      | .ok bbs => .ok (bb :: bbs)

/-- `GeoBox(shape=bbox.shape, affine=reference.affine * Affine.translation(*bbox[:2]), crs=reference.crs)` -/
def geoboxOfPixBBox (ref : GeoBox) (bb : BBox Int) : GeoBox :=
  ⟨bb.top - bb.bottom, bb.right - bb.left, ref.aff * Aff.translation bb.left bb.bottom, ref.crs⟩

/-- `geobox_union_conservative(geoboxes)`  (geobox.py:1162-1178) -/
def geoboxUnionConservative : List GeoBox → Res GeoBox
  | [] => .error .valueError
  | ref :: rest =>
    match allBBoxes ref tolPix (ref :: rest) with
    | .error e => .error e
    | .ok bbs => match bboxUnion bbs with
      | .error e => .error e
      | .ok bb => .ok (geoboxOfPixBBox ref bb)

/-- "standardise empty geobox representation"  (geobox.py:1196-1212) -/
def normEmpty (bb : BBox Int) : BBox Int :=
  let bb := if bb.left > bb.right then { bb with right := bb.left } else bb
  if bb.bottom > bb.top then { bb with top := bb.bottom } else bb

/-- `geobox_intersection_conservative(geoboxes)`  (geobox.py:1181-1216) -/
def geoboxIntersectionConservative : List GeoBox → Res GeoBox
  | [] => .error .valueError
  | ref :: rest =>
    match allBBoxes ref tolPix (ref :: rest) with
    | .error e => .error e
    | .ok bbs => match bboxIntersection bbs with
      | .error e => .error e
      | .ok bb => .ok (geoboxOfPixBBox ref (normEmpty bb))

/-- `GeoBox.__or__` -/
def GeoBox.or (a b : GeoBox) : Res GeoBox := geoboxUnionConservative [a, b]
/-- `GeoBox.__and__` -/
def GeoBox.and (a b : GeoBox) : Res GeoBox := geoboxIntersectionConservative [a, b]

/-- A normalised 2-D ROI `numpy.s_[y0:y1, x0:x1]`. -/
structure Roi where
  y0 : Int
  y1 : Int
  x0 : Int
  x1 : Int
  deriving DecidableEq, Repr

/-- `GeoBox.overlap_roi(other, tol)`  (geobox.py:723-737, as repaired: the stop of each slice
is clamped at its start, so that an `other` lying wholly before `self` gives an empty slice
instead of a negative stop that numpy wraps around). -/
def GeoBox.overlapRoi (self other : GeoBox) (tol : Rat) : Res Roi :=
  match bboxInPixelDomain other self tol with
  | .error e => .error e
  | .ok bb =>
    let x0 := max 0 bb.left
    let y0 := max 0 bb.bottom
    let x1 := max x0 (min bb.right self.nx)
    let y1 := max y0 (min bb.top self.ny)
    .ok ⟨y0, y1, x0, x1⟩

/-- `GeoBox.overlap_roi` before the repair (negative stop possible); kept for the witness of the
defect only. -/
def GeoBox.overlapRoiUnrepaired (self other : GeoBox) (tol : Rat) : Res Roi :=
  match bboxInPixelDomain other self tol with
  | .error e => .error e
  | .ok bb => .ok ⟨max 0 bb.bottom, min bb.top self.ny, max 0 bb.left, min bb.right self.nx⟩

/-- `GeoBox.enclosing(region)`  (geobox.py:686-706) for a region with a CRS whose vertices,
expressed in the CRS of the GeoBox, are `p :: ps` (a `BoundingBox` region contributes its four
corners; re-projection from another CRS is pyproj's and happens before this point).
`regionCrs = none` is the "Must supply geo-registered region" `ValueError`; a GeoBox without a CRS
then trips `assert self._crs is not None` in `GeoBox.project`. -/
def GeoBox.enclosing (g : GeoBox) (regionCrs : Option Nat) (p : Rat × Rat) (ps : List (Rat × Rat)) :
    Res GeoBox :=
  if regionCrs = none then .error .valueError
  else if g.crs = none then .error .assertion      -- `assert self._crs is not None` in `project`
  else match g.aff.inv? with
    | .error e => .error e
    | .ok w2p =>
      let pix := (bboxOfPoints (w2p.apply p) (ps.map w2p.apply) none).round
      let nx := max 1 (pix.right - pix.left)
      let ny := max 1 (pix.top - pix.bottom)
      .ok ⟨ny, nx, (g.translatePix pix.left pix.bottom).aff, g.crs⟩

/-- `split_translation(t)`'s sub-pixel part followed by `maybe_zero(·, 1e-8)` -/
def subpix (t : Rat) : Rat := maybeZero (splitFloat t).2 tolPix

/-- `GeoBox.snap_to(other)`  (geobox.py:908-923) -/
def GeoBox.snapTo (self other : GeoBox) : Res GeoBox :=
  match pixelTranslation other self with
  | .error e => .error e
  | .ok (tx, ty) => .ok (self.translatePix (subpix tx) (subpix ty))

/-! ### more of `BoundingBox` (geom.py:109-133, 133-160, 247-297) -/

/-- Python `int(x)` of a finite float: truncation towards zero. -/
def pyInt (x : Rat) : Int := if 0 ≤ x then x.floor else x.ceil

/-- `BoundingBox.buffered(xbuff, ybuff=None)` -/
def BBox.buffered (bb : BBox Rat) (xbuff : Rat) (ybuff : Option Rat) : BBox Rat :=
  let yb := match ybuff with | none => xbuff | some v => v
  ⟨bb.left - xbuff, bb.bottom - yb, bb.right + xbuff, bb.top + yb, bb.crs⟩

/-- `span_x`, `span_y` -/
def BBox.spanX (bb : BBox Rat) : Rat := bb.right - bb.left
def BBox.spanY (bb : BBox Rat) : Rat := bb.top - bb.bottom
/-- `width = int(right - left)`, `height = int(top - bottom)`, `shape = (height, width)` -/
def BBox.width (bb : BBox Rat) : Int := pyInt (bb.right - bb.left)
def BBox.height (bb : BBox Rat) : Int := pyInt (bb.top - bb.bottom)
def BBox.shape (bb : BBox Rat) : Int × Int := (bb.height, bb.width)

/-- `BoundingBox.from_xy(x, y, crs)`: `sorted` of each pair -/
def BBox.fromXY (x y : Rat × Rat) (crs : Option Nat) : BBox Rat :=
  ⟨min x.1 x.2, min y.1 y.2, max x.1 x.2, max y.1 y.2, crs⟩

/-- `BoundingBox.from_points(p1, p2, crs)` -/
def BBox.fromPoints (p1 p2 : Rat × Rat) (crs : Option Nat) : BBox Rat :=
  BBox.fromXY (p1.1, p2.1) (p1.2, p2.2) crs

/-- `BoundingBox.from_transform(shape, transform, crs)` (as on HEAD, after the repair that made it
cover rotated footprints): bounding box of the images of the four pixel corners
`(0,0), (0,ny), (nx,ny), (nx,0)`. -/
def BBox.fromTransform (ny nx : Int) (A : Aff) (crs : Option Nat) : BBox Rat :=
  bboxOfPoints (A.apply (0, 0))
    [A.apply (0, (ny : Rat)), A.apply ((nx : Rat), (ny : Rat)), A.apply ((nx : Rat), 0)] crs

/-! ### IEEE specials in `bbox_union` / `bbox_intersection`

Python's `min(a, b)` is `b if b < a else a`, `max(a, b)` is `b if b > a else a`; every comparison with
`nan` is false.  `PyF` is the carrier "finite rational, ±inf or nan" with exactly that `min`/`max`, so
that `bboxUnion`/`bboxIntersection` (generic in the carrier) also describe what the code does on
non-finite operands. -/

inductive PyF where
  | fin (q : Rat)
  | pinf
  | ninf
  | nan
  deriving DecidableEq, Repr

/-- `a < b` on doubles -/
def PyF.lt : PyF → PyF → Bool
  | .nan, _ => false
  | _, .nan => false
  | .fin a, .fin b => decide (a < b)
  | .ninf, .ninf => false
  | .ninf, _ => true
  | _, .ninf => false
  | .pinf, _ => false
  | _, .pinf => true

instance : Min PyF := ⟨fun a b => if PyF.lt b a then b else a⟩
instance : Max PyF := ⟨fun a b => if PyF.lt a b then b else a⟩

/-- `GeoBox.pad(padx, pady=None)`  (geobox.py:938-952).  Neighbours, flips and `gbox[roi]` are taken
from the C02 model in `Model/C16Link.lean`. -/
def GeoBox.pad (g : GeoBox) (padx : Int) (pady : Option Int) : GeoBox :=
  let py := match pady with | none => padx | some v => v
  ⟨g.ny + py * 2, g.nx + padx * 2, g.aff * Aff.translation (-(padx : Rat)) (-(py : Rat)), g.crs⟩

end OdcGeo.C16
