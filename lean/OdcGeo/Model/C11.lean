/-
Model for C11 — `compute_output_geobox` (odc/geo/overlap.py:572-690), the `from_bbox` /
`snap_grid` it ends in (geobox.py:496-589, math.py:39-78, 172-217), `norm_crs` utm / utm-n /
utm-s arithmetic (crs.py:410-434) and `_pick_best_crs` (crs.py:482-501).  Core Lean only.

Everything that comes out of pyproj is a parameter captured from the real run: the bounding
box of the buffered, densified footprint in the destination CRS, whether the CRSs / their units
are equal, the source resolution, the centre-pixel fit (`dst_.resolution`, `sx`, `sy`), the UTM
CRS picked by the database query and the overlap fractions of the candidates.
(The footprint itself — `GeoBoxBase.footprint`, geobox.py:228-250, repaired on branch fix-C11 to
buffer by the absolute pixel size — is on the pyproj/shapely side of that boundary; its bbox is
what the harness captures and what the enclosure oracle tests against every projected pixel.)
`from_bbox` / `snap_grid` are owned by C08; the small copy here is what this property needs
(the C08 contract `snap_cover` / `snap_aligned` is re-proved for it in Lemmas/C11.lean).
-/
import OdcGeo.Model.Affine
namespace OdcGeo.C11
open OdcGeo

def rabs (x : Rat) : Rat := if x < 0 then -x else x

/-! ### math.py: `split_float`, `maybe_int`, `_snap_edge_pos`, `_snap_edge`, `snap_grid` -/

/-- truncation toward zero (`x - fmod(x, 1.0)`) -/
def truncR (x : Rat) : Int := if 0 ≤ x then x.floor else x.ceil

/-- `split_float(x)` → `(whole, part)` -/
def splitFloat (x : Rat) : Int × Rat :=
  let w := truncR x
  let p := x - (w : Rat)
  if p > 1 / 2 then (w + 1, p - 1)
  else if p < -(1 / 2) then (w - 1, p + 1)
  else (w, p)

/-- `maybe_int(x, tol)` (its value; Python returns an `int` in the first case) -/
def maybeInt (x tol : Rat) : Rat :=
  let wp := splitFloat x
  if rabs wp.2 < tol then (wp.1 : Rat) else x

/-- `_snap_edge_pos(x0, x1, res, tol)`; `assert res > 0`, `assert x1 >= x0` -/
def snapEdgePos (x0 x1 res tol : Rat) : Res (Rat × Int) :=
  if ¬ (0 < res) then .error .assertion
  else if ¬ (x0 ≤ x1) then .error .assertion
  else
    let i0 := (maybeInt (x0 / res) tol).floor
    let i1 := (maybeInt (x1 / res) tol).ceil
    .ok ((i0 : Rat) * res, max 1 (i1 - i0))

/-- `_snap_edge(x0, x1, res, tol)` -/
def snapEdge (x0 x1 res tol : Rat) : Res (Rat × Int) :=
  if ¬ (x0 ≤ x1) then .error .assertion
  else if 0 < res then snapEdgePos x0 x1 res tol
  else match snapEdgePos x0 x1 (-res) tol with
    | .error e => .error e
    | .ok (tx, n) => .ok (tx + (n : Rat) * (-res), n)

/-- `snap_grid(x0, x1, res, off_pix, tol)` → `(tx, nx)`; `res = 0` divides by zero -/
def snapGrid (x0 x1 res : Rat) (off : Option Rat) (tol : Rat) : Res (Rat × Int) :=
  match off with
  | some o =>
    if ¬ (0 ≤ o ∧ o < 1) then .error .assertion
    else
      let d := o * rabs res
      match snapEdge (x0 - d) (x1 - d) res tol with
        | .error e => .error e
        | .ok (tx, n) => .ok (tx + d, n)
  | none =>
    if res = 0 then .error .zeroDiv
    else if 0 < res then .ok (x0, max 1 (maybeInt ((x1 - x0) / res) tol).ceil)
    else .ok (x1, max (maybeInt ((x1 - x0) / (-res)) tol).ceil 1)

/-! ### geobox.py: `_norm_anchor`, `GeoBox.from_bbox` -/

inductive Anchor where
  | dflt            -- the string "default"
  | edge
  | center
  | floating
  | xy (ax ay : Rat)
  deriving DecidableEq, Repr

/-- `_snap` of `from_bbox` after `_norm_anchor` and the `tight` override -/
def snapOf (anchor : Anchor) (tight : Bool) : Option (Rat × Rat) :=
  if tight then none
  else match anchor with
    | .dflt => some (0, 0)
    | .edge => some (0, 0)
    | .center => some (1 / 2, 1 / 2)
    | .floating => none
    | .xy ax ay => some (ax, ay)

inductive ShapeReq where
  | none
  | side (n : Int)            -- a single integer: longest side
  | exact (ny nx : Int)
  deriving DecidableEq, Repr

structure BBox where
  left : Rat
  bottom : Rat
  right : Rat
  top : Rat
  deriving DecidableEq, Repr

/-- result grid: shape `(ny, nx)` and affine -/
structure Grid where
  ny : Int
  nx : Int
  A : Aff
  deriving DecidableEq, Repr

/-- the resolution branch of `from_bbox` -/
def fromBboxRes (b : BBox) (rx ry : Rat) (snap : Option (Rat × Rat)) (tol : Rat) : Res Grid := do
  let (offx, nx) ← snapGrid b.left b.right rx (snap.map (·.1)) tol
  let (offy, ny) ← snapGrid b.bottom b.top ry (snap.map (·.2)) tol
  return ⟨ny, nx, Aff.translation offx offy * Aff.scale rx ry⟩

/-- `GeoBox.from_bbox(bbox, crs, shape=…, resolution=…, tight=…, anchor=…, tol=…)`.
`res`: resolution as `(rx, ry)` (a single number `r` is `(r, -r)`: `res_`). -/
def fromBbox (b : BBox) (shape : ShapeReq) (res : Option (Rat × Rat)) (anchor : Anchor) (tight : Bool)
    (tol : Rat) : Res Grid :=
  let snap := snapOf anchor tight
  let spanX := b.right - b.left
  let spanY := b.top - b.bottom
  -- integer shape: pixel size from the longer side, then the resolution branch
  let (shape, res) : ShapeReq × Res (Option (Rat × Rat)) := match shape with
    | .side n =>
      if n = 0 then (.none, .error .zeroDiv)
      else if spanY = 0 then (.none, .error .zeroDiv)   -- bbox.aspect
      else
        let r := if spanX / spanY > 1 then spanX / n else spanY / n
        (.none, .ok (some (r, -r)))
    | s => (s, .ok res)
  match res with
  | .error e => .error e
  | .ok (some (rx, ry)) => fromBboxRes b rx ry snap tol
  | .ok none =>
    match shape with
    | .exact ny nx =>
      if nx = 0 ∨ ny = 0 then .error .zeroDiv
      else
        let rx := spanX / nx
        let ry := -spanY / ny
        match snap with
        | none => .ok ⟨ny, nx, Aff.translation b.left b.top * Aff.scale rx ry⟩
        | some (sx, sy) =>
          match snapGrid b.left b.right rx (some sx) tol, snapGrid b.bottom b.top ry (some sy) tol with
          | .ok (offx, _), .ok (offy, _) => .ok ⟨ny, nx, Aff.translation offx offy * Aff.scale rx ry⟩
          | .error e, _ => .error e
          | _, .error e => .error e
    | _ => .error .valueError

/-! ### overlap.py: `compute_output_geobox` -/

inductive ResMode where
  | auto
  | same
  | fit
  | explicit (rx ry : Rat)
  | badString
  deriving DecidableEq, Repr

inductive Rounding where
  | none
  | flag (b : Bool)
  /-- a callable: its value on `avg_res` is captured -/
  | custom (value : Rat)
  deriving DecidableEq, Repr

/-- Python `round(x, 0)`: nearest integer, ties to even -/
def roundHalfEven (x : Rat) : Rat :=
  let f := x.floor
  let d := x - (f : Rat)
  if d < 1 / 2 then (f : Rat)
  else if d > 1 / 2 then ((f + 1 : Int) : Rat)
  else if f % 2 = 0 then (f : Rat) else ((f + 1 : Int) : Rat)

/-- the pyproj-derived inputs of one call -/
structure Captured where
  /-- `dst_crs == src_crs` -/
  sameCrs : Bool
  /-- `src_crs.units == dst_crs.units` -/
  sameUnits : Bool
  /-- `gbox.resolution` as `(x, y)` -/
  srcRes : Rat × Rat
  /-- bounding box of `gbox.footprint(crs, buffer=0.9, npoints=100)` -/
  bbox : BBox
  /-- `dst_.resolution` of the centre-pixel box, as `(x, y)` -/
  cpRes : Rat × Rat
  /-- `get_scale_at_point(...)` → `(sx, sy)` -/
  fitScale : Rat × Rat
  deriving DecidableEq, Repr

inductive Out where
  /-- the source GeoBox object itself is returned -/
  | source
  | grid (g : Grid)
  deriving DecidableEq, Repr

/-- the resolution handed to `from_bbox` (lines 633-680) -/
def chooseRes (c : Captured) (mode : ResMode) (shape : ShapeReq) (rnd : Rounding) : Res (Option (Rat × Rat)) :=
  if shape ≠ .none then .ok none
  else match mode with
    | .same => .ok (some c.srcRes)
    | .auto => if c.sameUnits then .ok (some c.srcRes) else fit
    | .fit => fit
    | .badString => .error .valueError
    | .explicit rx ry => .ok (some (rx, ry))
where
  fit : Res (Option (Rat × Rat)) :=
    if c.fitScale.1 = 0 ∨ c.fitScale.2 = 0 then .error .zeroDiv
    else
      let avg := (rabs (c.cpRes.1 / c.fitScale.1) + rabs (c.cpRes.2 / c.fitScale.2)) / 2
      let avg := match rnd with
        | .none => avg
        | .flag true => roundHalfEven avg
        | .flag false => avg
        | .custom v => v
      .ok (some (avg, -avg))

/-- `compute_output_geobox(gbox, crs, resolution=mode, shape=…, tight=…, anchor=…, tol=…,
round_resolution=…)` for a `GeoBox` source -/
def computeOutput (c : Captured) (mode : ResMode) (shape : ShapeReq) (tight : Bool) (anchor : Anchor)
    (tol : Rat) (rnd : Rounding) : Res Out :=
  if c.sameCrs ∧ (mode = .auto ∨ mode = .same) ∧ shape = .none ∧ anchor = .dflt then .ok .source
  else match chooseRes c mode shape rnd with
    | .error e => .error e
    | .ok res => (fromBbox c.bbox shape res anchor tight tol).map Out.grid

/-! ### the linear case: destination CRS = source CRS (or any affine change of coordinates) -/

/-- the four corners of the source extent in world coordinates (`polygon_from_transform`, geom.py) -/
def extentCorners (A : Aff) (nx ny : Nat) : List (Rat × Rat) :=
  [A.apply (0, 0), A.apply ((nx : Rat), 0), A.apply ((nx : Rat), (ny : Rat)), A.apply (0, (ny : Rat))]

def BBox.contains (b : BBox) (p : Rat × Rat) : Prop :=
  b.left ≤ p.1 ∧ p.1 ≤ b.right ∧ b.bottom ≤ p.2 ∧ p.2 ≤ b.top

/-- bounding box of the extent buffered by `buf ≥ 0` for an axis-aligned / right-angle source (for a
generally rotated source shapely's rounded corners give a slightly smaller box that still contains the
corners) -/
def linearFootprintBBox (A : Aff) (nx ny : Nat) (buf : Rat) : BBox :=
  let xs := (extentCorners A nx ny).map (·.1)
  let ys := (extentCorners A nx ny).map (·.2)
  ⟨xs.foldl min (A.apply (0, 0)).1 - buf, ys.foldl min (A.apply (0, 0)).2 - buf,
   xs.foldl max (A.apply (0, 0)).1 + buf, ys.foldl max (A.apply (0, 0)).2 + buf⟩

/-! ### crs.py: `norm_crs` utm / utm-n / utm-s, `_pick_best_crs` -/

inductive UtmReq where
  | utm
  | utmN
  | utmS
  deriving DecidableEq, Repr

/-- `norm_crs("utm" | "utm-n" | "utm-s", ctx)`: `epsg` and `south` (`utm_zone.endswith("S")`)
describe the CRS returned by `CRS.utm(ctx)`; result = EPSG code -/
def normUtm (req : UtmReq) (epsg : Int) (south : Bool) : Int :=
  match req with
  | .utm => epsg
  | .utmN => if south then epsg - 100 else epsg
  | .utmS => if !south then epsg + 100 else epsg

/-- which request a string is for `norm_crs` (crs.py:415-433): the text is lower-cased; anything that
does not start with `utm` is an ordinary CRS definition (`none`); `utm-n` / `utm-s` are the
hemisphere overrides; every other text starting with `utm` behaves like plain `utm`. -/
def parseUtm (raw : String) : Option UtmReq :=
  let t := raw.toLower
  if !t.startsWith "utm" then none
  else if t = "utm-n" then some .utmN
  else if t = "utm-s" then some .utmS
  else some .utm

/-- first maximum of a list of `(candidate, key)` — `sorted(key=…, reverse=True)[0]` (stable) -/
def argmaxFirst : List (Nat × Rat) → Option (Nat × Rat)
  | [] => none
  | x :: xs => match argmaxFirst xs with
    | none => some x
    | some y => if x.2 < y.2 then some y else some x

/-- `_pick_best_crs(poly, candidates)` (as repaired on branch fix-C11): with more than one candidate they are
ranked (stable, descending) by their key — the overlap fraction with the polygon, or for point-like
polygons (`poly.area ≤ 1e-9`, flag `bigArea = false`) 1 / 0 for "valid region contains the location" —
and the first is returned.  `cands` carry that key. -/
def pickBest (cands : List (Nat × Rat)) (_bigArea : Bool) : Res Nat :=
  match cands with
  | [] => .error .valueError
  | first :: rest =>
    if rest ≠ [] then
      match argmaxFirst cands with
      | some c => .ok c.1
      | none => .ok first.1
    else .ok first.1

end OdcGeo.C11
