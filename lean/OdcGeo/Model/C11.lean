/- Model for C11 (core Lean only, no Mathlib). -/
import OdcGeo.Model.IO
namespace OdcGeo.C11

end OdcGeo.C11
