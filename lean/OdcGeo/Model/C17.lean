/-
Model of the ROI helpers of `odc/geo/roi.py` and the integer alignment helpers of
`odc/geo/math.py` (core Lean only).  One axis is modelled; the N-D helpers of the
library zip the 1-D helper over the axes, the driver does the same.

Python ints are unbounded -> `Int`.  A slice with `step = None` is modelled; `step`
is passed through untouched by the library and is outside C17's statement.
-/
import OdcGeo.Model.IO
namespace OdcGeo.C17

/-- A Python index expression on one axis: an `int` or `slice(start, stop)`. -/
inductive PIdx where
  | idx (i : Int)
  | slc (start stop : Option Int)
  deriving DecidableEq, Repr

/-- `slice(start, stop)` with both ends present. -/
structure NSlice where
  start : Int
  stop : Int
  deriving DecidableEq, Repr

def NSlice.toPIdx (s : NSlice) : PIdx := .slc (some s.start) (some s.stop)

/-! ### `_norm_slice`, `_norm_slice_or_error`  (roi.py:508-540) -/

/-- `x if x >= 0 else max(0, n + x)`  (as repaired: negative bounds below `-n` clamp at 0). -/
def wrapNeg (n : Int) (x : Int) : Int := if x ≥ 0 then x else max 0 (n + x)

/-- `_norm_slice(s, n)`; for an int index no range check is made (as in the code). -/
def normSlice (s : PIdx) (n : Int) : NSlice :=
  match s with
  | .idx i => let j := if i < 0 then n + i else i; ⟨j, j + 1⟩
  | .slc a b =>
    let start := match a with | none => 0 | some v => v
    let stop := match b with | none => n | some v => v
    ⟨wrapNeg n start, wrapNeg n stop⟩

/-- `_norm_slice_or_error(s)` -/
def normSliceOrError (s : PIdx) : Res NSlice :=
  match s with
  | .idx i => if i + 1 < 0 ∨ i < 0 then .error .valueError else .ok ⟨i, i + 1⟩
  | .slc a b =>
    let start := match a with | none => 0 | some v => v
    match b with
    | none => .error .valueError
    | some stop => if stop < 0 ∨ start < 0 then .error .valueError else .ok ⟨start, stop⟩

/-! ### intersections (roi.py:543-585, 669-709) -/

/-- `slice_intersect3` on already normalised operands: `(a', b', ab')`. -/
def intersect3N (a b : NSlice) : NSlice × NSlice × NSlice :=
  let na := a.stop - a.start
  let nb := b.stop - b.start
  if a.stop < b.start then (⟨na, na⟩, ⟨0, 0⟩, ⟨a.stop, a.stop⟩)
  else if a.start > b.stop then (⟨0, 0⟩, ⟨nb, nb⟩, ⟨a.start, a.start⟩)
  else
    let i := max a.start b.start
    let o := min a.stop b.stop
    (⟨i - a.start, o - a.start⟩, ⟨i - b.start, o - b.start⟩, ⟨i, o⟩)

def sliceIntersect3 (a b : PIdx) : Res (NSlice × NSlice × NSlice) := do
  let a ← normSliceOrError a
  let b ← normSliceOrError b
  return intersect3N a b

def intersectN (a b : NSlice) : NSlice :=
  if a.stop < b.start then ⟨a.stop, a.stop⟩
  else if a.start > b.stop then ⟨a.start, a.start⟩
  else ⟨max a.start b.start, min a.stop b.stop⟩

def sliceIntersect (a b : PIdx) : Res NSlice := do
  let a ← normSliceOrError a
  let b ← normSliceOrError b
  return intersectN a b

/-! ### shape / empty / full / centre / pad (roi.py:452-505, 637-658, 720-730) -/

/-- `roi_shape`'s `slice_dim` -/
def sliceDim (s : PIdx) : Res Int :=
  match s with
  | .idx _ => .ok 1
  | .slc _ none => .error .valueError
  | .slc none (some o) => .ok o
  | .slc (some i) (some o) => .ok (o - i)

/-- `roi_is_empty` over an N-D roi -/
def roiIsEmpty (roi : List PIdx) : Res Bool := do
  let dims ← roi.mapM sliceDim
  return dims.any (fun d => d ≤ 0)

/-- `roi_is_full`'s `slice_full` -/
def sliceFull (s : PIdx) (n : Int) : Bool :=
  match s with
  | .idx _ => n == 1
  | .slc a b =>
    (match a with | none => true | some v => v == 0) &&
    (match b with | none => true | some v => v == n)

/-- `roi_is_full` over an N-D roi: `all(slice_full(s, n) for s, n in zip(roi, shape))`.  The shape enters as
its sequence of values only (tuple, list, `Shape2d`, any `Sequence`). -/
def roiIsFull (roi : List PIdx) (shape : List Int) : Bool :=
  (roi.zip shape).all (fun p => sliceFull p.1 p.2)

/-- `roi_center`'s `slice_center` -/
def sliceCenter (s : PIdx) : Res Rat := do
  let s ← normSliceOrError s
  return ((s.start + s.stop : Int) : Rat) / 2

/-- `roi_pad`'s `pad_slice` -/
def padSlice (s : PIdx) (pad : Int) (n : Int) : NSlice :=
  let s := normSlice s n
  ⟨max 0 (s.start - pad), min n (s.stop + pad)⟩

/-- `roi_normalise` over an N-D roi: `tuple(_norm_slice(s, n) for s, n in zip(roi, shape))` -/
def roiNormalise (roi : List PIdx) (shape : List Int) : List NSlice :=
  (roi.zip shape).map (fun p => normSlice p.1 p.2)

/-- `roi_pad` over an N-D roi: `tuple(pad_slice(s, n) for s, n in zip(roi, shape))` -/
def roiPad (roi : List PIdx) (pad : Int) (shape : List Int) : List NSlice :=
  (roi.zip shape).map (fun p => padSlice p.1 pad p.2)

/-! ### alignment and scaling (math.py:105-122, roi.py:397-441) -/

/-- `align_down(x, align) = x - (x % align)`, Python floor-mod; modelled for `align > 0`
where `Int.emod` coincides with Python's `%`. -/
def alignDown (x align : Int) : Int := x - x % align

def alignUp (x align : Int) : Int := alignDown (x + (align - 1)) align

/-- Python `//` for a positive divisor. -/
def fdiv (x d : Int) : Int := x / d   -- Int.div is floor for d > 0 (`Int.ediv`)

def scaledDownSlice (s : NSlice) (scale : Int) : NSlice :=
  ⟨fdiv s.start scale, fdiv (alignUp s.stop scale) scale⟩

def scaledUpSlice (s : NSlice) (scale : Int) (dim : Option Int) : NSlice :=
  let a := s.start * scale
  let b := s.stop * scale
  match dim with
  | none => ⟨a, b⟩
  | some d => ⟨min d a, min d b⟩

def scaledDownDim (n scale : Int) : Int := fdiv (alignUp n scale) scale

/-! ### `roi_from_points` (roi.py:733-781), one axis

`lo`/`hi` are the minimum / maximum of the *finite* coordinates on this axis (the
finite filter itself is modelled in `fromPoints`).  As repaired the arithmetic is done
on unbounded integers (no int32 narrowing). -/

def clip (x lo hi : Int) : Int := if x < lo then lo else if x > hi then hi else x

def fromPointsAxis (lo hi : Rat) (n : Int) (padding : Int) (align : Option Int) : NSlice :=
  let i := lo.floor - padding
  let o := hi.ceil + padding
  let (i, o) := match align with
    | none => (i, o)
    | some a => (alignDown i a, alignUp o a)
  ⟨clip i 0 n, clip o 0 n⟩

/-- A sample coordinate: finite rational or non-finite (`nan`, `±inf`). -/
inductive Coord where
  | fin (q : Rat)
  | nonfinite
  deriving Repr

def Coord.isFinite : Coord → Bool
  | .fin _ => true
  | .nonfinite => false

def finitePts (pts : List (Coord × Coord)) : List (Rat × Rat) :=
  pts.filterMap fun p => match p with
    | (.fin x, .fin y) => some (x, y)
    | _ => none

def minL (d : Rat) : List Rat → Rat
  | [] => d
  | x :: xs => xs.foldl min x
def maxL (d : Rat) : List Rat → Rat
  | [] => d
  | x :: xs => xs.foldl max x

/-- `roi_from_points(xy, (ny, nx), padding, align)` → `(yslice, xslice)` -/
def fromPoints (pts : List (Coord × Coord)) (ny nx : Int) (padding : Int) (align : Option Int) :
    NSlice × NSlice :=
  match finitePts pts with
  | [] => (⟨0, 0⟩, ⟨0, 0⟩)
  | p :: ps =>
    let xs := (p :: ps).map (·.1)
    let ys := (p :: ps).map (·.2)
    (fromPointsAxis (minL 0 ys) (maxL 0 ys) ny padding align,
     fromPointsAxis (minL 0 xs) (maxL 0 xs) nx padding align)

end OdcGeo.C17
