/-
C02, final increment (core Lean only): `qr2sample` over C20's `quasiRandomR2`, the structure of `footprint` /
`geographic_extent` with the shapely buffer, the densification and the reprojection as parameters, the units strings of
`coordinates`, and the outcome of `gbox[obj]` for objects that are not index-like (own error type).
-/
import OdcGeo.Model.C02Glue
import OdcGeo.Model.C20Seq
namespace OdcGeo.C02

/-! ### `qr2sample(n, padding, with_edges=False, offset)` (geobox.py:404-431, geom.py:327-375)

`BoundingBox(0, 0, nx, ny).qr2sample`: `pts = quasi_random_r2(n, offset)`; `s = asarray([nx, ny], float32)`;
`pts * s` or `pts * (s - 2*padding) + padding` (`s - 2*padding` stays float32); `+ x0 = + 0`.  `fl` / `fl32` are the
roundings of binary64 / binary32 (identity in the theorems). -/
def qr2sample (fl fl32 : Rat → Rat) (g : GeoBox) (n : Nat) (padding : Option Rat) (offset : Int) : List Pt :=
  let sx := fl32 (g.nx : Rat)
  let sy := fl32 (g.ny : Rat)
  (C20.quasiRandomR2 fl n none offset).map fun p =>
    match padding with
    | none => (fl (p.1 * sx), fl (p.2 * sy))
    | some pad =>
      (fl (fl (p.1 * fl32 (sx - fl32 (fl (2 * pad)))) + pad), fl (fl (p.2 * fl32 (sy - fl32 (fl (2 * pad)))) + pad))

/-! ### structure of `footprint(crs, buffer, npoints)` and `geographic_extent` (geobox.py:228-259)

`bufferF d ring` stands for shapely's buffer, `densify step ring` for `Geometry.segmented`, `reproj` for pyproj;
`dropna` keeps what `reproj` maps to finite points (`finite`). -/
structure FootprintPlan where
  bufferDist : Option Rat      -- distance handed to `Geometry.buffer` (none: not buffered)
  step : Rat                   -- densification step handed to `to_crs(resolution=…)`
  sameCrs : Bool               -- `to_crs` returns the geometry itself (no densification, no reprojection)
  deriving DecidableEq, Repr

def footprintPlan (g : GeoBox) (n m : Rat) (dst : Nat) (buffer : Rat) (npoints : Int) : Res FootprintPlan := do
  let d ← footprintBufferDist g n m buffer
  let step ← reprojectResolution g npoints
  pure ⟨d, step, dst == g.crs⟩

/-- the vertex list returned by `footprint` -/
def footprint (bufferF : Rat → List Pt → List Pt) (densify : Rat → List Pt → List Pt) (reproj : Pt → Pt)
    (finite : Pt → Bool) (g : GeoBox) (n m : Rat) (dst : Nat) (buffer : Rat) (npoints : Int) : Res (Nat × List Pt) := do
  let plan ← footprintPlan g n m dst buffer npoints
  let ext := match plan.bufferDist with
    | none => extent g
    | some d => bufferF d (extent g)
  let out := if plan.sameCrs then ext else (densify plan.step ext).map reproj
  pure (dst, out.filter finite)

/-- `geographic_extent`: the footprint itself without / with a geographic CRS, else `footprint("epsg:4326")`
(`wgs84` is the tag of EPSG:4326). -/
def geographicExtent (densify : Rat → List Pt → List Pt) (reproj : Pt → Pt) (finite : Pt → Bool)
    (g : GeoBox) (k : CrsKind) (n m : Rat) (wgs84 : Nat) : Res (Nat × List Pt) :=
  if geographicExtentIsExtent k then .ok (g.crs, extent g)
  else footprint (fun _ r => r) densify reproj finite g n m wgs84 0 100

/-! ### units of `coordinates` (geobox.py:786; crs.py:203-232): `(yunits, xunits)` -/

/-- `axisUnits` = `(units of the y axis, units of the x axis)` from pyproj's axis info of a projected CRS -/
def coordUnits (k : CrsKind) (axisUnits : String × String) : String × String :=
  match k with
  | .none => ("1", "1")
  | .geographic => ("degrees_north", "degrees_east")
  | .projected => axisUnits

/-! ### `gbox[obj]` for objects that are not index-like (geobox.py:307-342, roi.py:545-553, 612-639)

What matters of such an object: does it have a `len`, is it an `abc.Sequence`, do its entries have `.start`. -/

inductive IdxErr where
  | typeError | valueError | attributeError | notImplemented
  deriving DecidableEq, Repr

/-- a Python object handed to `__getitem__` that is neither an int, a slice, nor a region -/
structure OtherObj where
  len : Option Nat          -- `len(obj)`; `none`: `TypeError: object of type … has no len()`
  isSequence : Bool         -- `isinstance(obj, abc.Sequence)` (tuple, list, str; not ndarray, set, dict)
  entriesSliceLike : Bool   -- entries are ints or have `.start / .stop / .step` (with steps None / 1)
  deriving DecidableEq, Repr

/-- outcome of `compute_crop(obj)`: always an error for these objects unless it is a well-formed 2-sequence -/
def getitemOther (o : OtherObj) : Except IdxErr Unit :=
  match o.len with
  | none => .error .typeError                       -- `len(roi)`
  | some l =>
    if l > 2 then .error .valueError                -- "Expect 2d slice"
    else if ¬ o.isSequence then .error .valueError  -- roi_normalise: `(shape,) = shape` with a 2-d shape
    else if l = 0 then .error .valueError           -- `ty, tx = ()`
    else if ¬ o.entriesSliceLike then .error .attributeError   -- `_norm_slice`: `s.start`
    else if l = 1 then .error .valueError           -- `ty, tx = (one,)`
    else .ok ()

end OdcGeo.C02
