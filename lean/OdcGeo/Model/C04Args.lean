/-
Argument normalisation / glue around the C04 core (core Lean only, no Mathlib).

`Model/C04.lean` models the tiling and assembling core on already classified arguments (a pair of
per-axis indices, a `Tiling2`, an `Assembler` whose blocks are known to fit).  This file models the
code in front of it, in the order the library executes it:

1. `BlockAssembler.__init__` / `_verify_shape` (`odc/geo/_blocks.py:37-84`): the blocks mapping as a
   list of `(key, b.shape)` in iteration order; the three `ValueError`s, the `IndexError` of the
   tuple lookup `chy[iy]`, the resulting `.shape`, the default-dtype flag and the final `assert`
   that compares the `int32` cumulative sum with Python's `sum`.
2. index spellings: `iyx_` / `ixy_` (`odc/geo/types.py:357-402`), `norm_slice_2d` (`roi.py:83-88`) and
   what `Tiles.__getitem__`, `VariableSizedTiles.__getitem__`, `tile_shape`, `locate`,
   `GeoboxTiles.__getitem__ / chunk_shape / pix_bbox` do with a tuple of any length, an `Index2d`,
   an `XY`, or something else.
3. `shape_` (`types.py:410-420`), `Tiles.__init__` (`roi.py:122-129`), `roi_tiles` (`roi.py:343-347`)
   and the dispatch of `GeoboxTiles.__init__` (`geobox.py:1317-1335`).
4. `planes_yx(yx_roi)` (`_blocks.py:169-178`), `WindowFromSlice.__getitem__` (`roi.py:38-52`),
   `roi_shape` (`roi.py:465-487`, on top of `C17.sliceDim`).

Modelled domain (what is NOT covered is rejected by the type, not defaulted):
* ints are Python `int` (numpy integers fail `isinstance(·, int)` in several places);
* the members of a tuple index are ints or slices without step (`PIdx`);
* `Index2d` / `XY` / `Shape2d` hold ints;
* chunk tuples hold ints in `int32` range (numpy 2 raises `OverflowError` otherwise);
* `axis ≥ 0`;
* `how` is a shape spelling or a sequence of int sequences (a mixed sequence such as
  `((3, 7), 5)` raises `TypeError` in the code and is outside the model).
`TypeError` / `AttributeError` are not members of the shared `ErrKind`; the two places of the
modelled domain that raise them use the local extension `AErr`.
-/
import OdcGeo.Model.C04
import OdcGeo.Model.C04Roi
namespace OdcGeo.C04
open OdcGeo OdcGeo.C17 OdcGeo.NpArray

/-! ## errors of the glue: the shared kinds plus `TypeError` / `AttributeError` -/

inductive AErr where
  | std (e : ErrKind)
  | typeError
  | attributeError
  deriving DecidableEq, Repr

def AErr.toStr : AErr → String
  | .std e => e.toStr
  | .typeError => "ERR:TypeError"
  | .attributeError => "ERR:AttributeError"

abbrev ResA (α : Type) := Except AErr α

def liftA {α : Type} : Res α → ResA α
  | .ok a => .ok a
  | .error e => .error (.std e)

/-! ## 1. `BlockAssembler.__init__` / `_verify_shape` -/

/-- one item of `blocks.items()`: the key `(iy, ix)` and `b.shape` -/
structure BlockDesc where
  key : Int × Int
  shape : List Int
  deriving DecidableEq, Repr

/-- `state = (b.ndim, b.shape[:axis], b.shape[axis + 2:])` -/
structure VState where
  ndim : Nat
  lead : List Int
  trail : List Int
  deriving DecidableEq, Repr

def VState.of (axis : Nat) (shape : List Int) : VState :=
  ⟨shape.length, shape.take axis, shape.drop (axis + 2)⟩

/-- the loop body of `_verify_shape` once `state` is set: the extra-dimension test, then
`yx_shape != (chy[iy], chx[ix])` – `chy[iy]` is Python *tuple* indexing (a negative key wraps
once, anything else outside raises `IndexError`). -/
def checkBlock (chy chx : List Int) (axis : Nat) (st : VState) (b : BlockDesc) : Res Unit :=
  if st ≠ VState.of axis b.shape then .error .valueError
  else do
    let cy ← npGet chy b.key.1
    let cx ← npGet chx b.key.2
    if (b.shape.drop axis).take 2 ≠ [cy, cx] then .error .valueError else .ok ()

/-- the `for (iy, ix), b in blocks.items()` loop; `state` is set from the first block (only the
first block is tested for `b.ndim < axis + 2`). -/
def verifyLoop (chy chx : List Int) (axis : Nat) : Option VState → List BlockDesc → Res (Option VState)
  | st, [] => .ok st
  | none, b :: bs =>
    if b.shape.length < axis + 2 then .error .valueError
    else do
      let st := VState.of axis b.shape
      checkBlock chy chx axis st b
      verifyLoop chy chx axis (some st) bs
  | some st, b :: bs => do
    checkBlock chy chx axis st b
    verifyLoop chy chx axis (some st) bs

/-- `BlockAssembler._verify_shape(blocks, (chy, chx), axis)` -/
def verifyShape (chy chx : List Int) (axis : Nat) (blocks : List BlockDesc) : Res (List Int) := do
  let st ← verifyLoop chy chx axis none blocks
  match st with
  | none => .ok [total chy, total chx]
  | some st => .ok (st.lead ++ [total chy, total chx] ++ st.trail)

/-- what `__init__` leaves behind: `.shape` and whether `.dtype` is the built-in default
(`float32`, chosen iff the mapping is empty) rather than derived from the blocks -/
structure AsmInfo where
  shape : List Int
  defaultDtype : Bool
  deriving DecidableEq, Repr

/-- `BlockAssembler.__init__`: `_verify_shape`, the dtype choice, `VariableSizedTiles(chunks)` and
`assert self._tiles.base.shape == self._shape[axis : axis + 2]` (`base` is the last `int32`
offset, `_shape` holds Python's `sum`). -/
def assemblerInit (chy chx : List Int) (axis : Nat) (blocks : List BlockDesc) : Res AsmInfo := do
  let shape ← verifyShape chy chx axis blocks
  if [vbase chy, vbase chx] = (shape.drop axis).take 2 then .ok ⟨shape, blocks.isEmpty⟩
  else .error .assertion

/-- the `Assembler` of `Model/C04.lean` that a successfully constructed `BlockAssembler` is:
extra axes of the first block, keys in iteration order. -/
def toAssembler {Val : Type} (chy chx : List Int) (axis : Nat) (blocks : List BlockDesc)
    (blk : Int × Int → Arr Val) : Assembler Val :=
  { chy, chx, present := blocks.map (·.key), blk,
    lead := match blocks with | [] => [] | b :: _ => b.shape.take axis,
    trail := match blocks with | [] => [] | b :: _ => b.shape.drop (axis + 2) }

/-! ### vocabulary of the theorem statements about `_verify_shape` -/

/-- the tuple entry `chy[iy]` reads: a negative key counts from the end (once) -/
def wrapKey (n : Nat) (i : Int) : Int := if i < 0 then i + n else i

/-- `(iy, ix)` addresses a member of the layout (as Python tuple indexing understands it) -/
def KeyInLayout (chy chx : List Int) (b : BlockDesc) : Prop :=
  (0 ≤ wrapKey chy.length b.key.1 ∧ wrapKey chy.length b.key.1 < chy.length) ∧
  (0 ≤ wrapKey chx.length b.key.2 ∧ wrapKey chx.length b.key.2 < chx.length)

/-- block `b` fits the layout: its key addresses a tile and its shape is
`lead ++ [chy[iy'], chx[ix']] ++ trail` (`iy'`, `ix'` the wrapped key) -/
def BlockFits (chy chx lead trail : List Int) (b : BlockDesc) : Prop :=
  KeyInLayout chy chx b ∧
  ∃ cy cx, chy[(wrapKey chy.length b.key.1).toNat]? = some cy ∧
    chx[(wrapKey chx.length b.key.2).toNat]? = some cx ∧ b.shape = lead ++ [cy, cx] ++ trail

/-- `b` has the rank and the extra dimensions of the first block `b0` -/
def SameDims (axis : Nat) (b0 b : BlockDesc) : Prop := VState.of axis b0.shape = VState.of axis b.shape

instance (chy chx : List Int) (b : BlockDesc) : Decidable (KeyInLayout chy chx b) := by
  unfold KeyInLayout; infer_instance

instance (axis : Nat) (b0 b : BlockDesc) : Decidable (SameDims axis b0 b) := by
  unfold SameDims; infer_instance

/-! ## 2. index spellings -/

/-- an `Index2d` as the code holds it (the members are whatever was passed in) -/
structure Idx2 where
  x : PIdx
  y : PIdx
  deriving DecidableEq, Repr

/-- the single-argument forms of an index -/
inductive IdxArg where
  | tuple (is : List PIdx)   -- a Python tuple of ints / slices, of any length
  | index2d (x y : Int)      -- `Index2d(x=, y=)`
  | xy (x y : Int)           -- `XY(x=, y=)` that is not an `Index2d` (also `Shape2d`)
  | other                    -- a list, a bare int, a slice, `None`
  deriving DecidableEq, Repr

/-- `iyx_(y, x)` with two ints -/
def iyx2 (y x : Int) : Idx2 := ⟨.idx x, .idx y⟩
/-- `ixy_(x, y)` with two ints -/
def ixy2 (x y : Int) : Idx2 := ⟨.idx x, .idx y⟩

/-- `iyx_(arg)` -/
def iyx : IdxArg → Res Idx2
  | .tuple [y, x] => .ok ⟨x, y⟩          -- `y, x = y`
  | .tuple _ => .error .valueError        -- unpacking
  | .index2d x y => .ok ⟨.idx x, .idx y⟩
  | .xy x y => .ok ⟨.idx x, .idx y⟩      -- `y, x = y.yx`
  | .other => .error .valueError

/-- `ixy_(arg)` -/
def ixy : IdxArg → Res Idx2
  | .tuple [x, y] => .ok ⟨x, y⟩          -- `x, y = x`
  | .tuple _ => .error .valueError
  | .index2d x y => .ok ⟨.idx x, .idx y⟩
  | .xy x y => .ok ⟨.idx x, .idx y⟩      -- `x, y = x.xy`
  | .other => .error .valueError

/-- `Tiles.__getitem__` / `VariableSizedTiles.__getitem__` for any index form:
`norm_slice_2d` (a tuple goes to `roi_normalise`, whose `zip` silently drops members beyond the
second; anything else through `iyx_`), then the per-axis lookup consumed by a 2-target unpack:
a 1-tuple evaluates the row lookup (which may raise `IndexError`) before the unpack fails. -/
def getItemArg (t : Tiling2) : IdxArg → Res (NSlice × NSlice)
  | .tuple [] => .error .valueError
  | .tuple [iy] => do
    let _ ← t.y.getItem iy
    .error .valueError
  | .tuple (iy :: ix :: _) => getItem2 t iy ix
  | a => do
    let i ← iyx a
    getItem2 t i.y i.x

/-- an int member of an `Index2d`; `slice < 0` raises `TypeError` -/
def tileShapeP (t : Tiling) : PIdx → ResA Int
  | .idx i => liftA (t.tileShape i)
  | .slc _ _ => .error .typeError

/-- `tile_shape(idx)` for any index form: `iyx_`, then `_sz` on the row, then on the column -/
def tileShapeArg (t : Tiling2) (a : IdxArg) : ResA (Int × Int) := do
  let i ← liftA (iyx a)
  let ny ← tileShapeP t.y i.y
  let nx ← tileShapeP t.x i.x
  return (ny, nx)

def locateP (t : Tiling) : PIdx → ResA Int
  | .idx y => liftA (t.locate y)
  | .slc _ _ => .error .typeError

/-- `locate(pix)` for any pixel form: `iyx_`, the range test `y < 0 or y >= NY or x < 0 or …`
(left to right), then the per-axis division / search -/
def locateArg (t : Tiling2) (a : IdxArg) : ResA (Int × Int) := do
  let i ← liftA (iyx a)
  let r ← locateP t.y i.y
  let c ← locateP t.x i.x
  return (r, c)

/-- `GeoboxTiles.__getitem__(idx)`: `self._gbox[self._tiles[idx]]` -/
def GeoboxTiles.getItemArg (g : GeoboxTiles) (a : IdxArg) : Res GBox := do
  let (ry, rx) ← C04.getItemArg g.tiles a
  return g.base.crop ry.toPIdx rx.toPIdx

/-- `GeoboxTiles.pix_bbox(idx)` → `(left, bottom, right, top) = (rx.start, ry.start, rx.stop, ry.stop)` -/
def GeoboxTiles.pixBBox (g : GeoboxTiles) (a : IdxArg) : Res (Int × Int × Int × Int) := do
  let (ry, rx) ← C04.getItemArg g.tiles a
  return (rx.start, ry.start, rx.stop, ry.stop)

/-- `GeoboxTiles.chunk_shape(idx)` -/
def GeoboxTiles.chunkShape (g : GeoboxTiles) (a : IdxArg) : ResA (Int × Int) := tileShapeArg g.tiles a

/-! ## 3. `shape_`, `Tiles.__init__`, `roi_tiles`, `GeoboxTiles.__init__` -/

/-- spellings of a shape (`SomeShape`) -/
inductive ShapeArg where
  | shape2d (x y : Int)      -- `Shape2d(x=, y=)`: returned as is
  | xy (x y : Int)           -- `XY` / `Index2d` of ints: `x.map(int).xy`
  | seq (xs : List Int)      -- tuple / list of ints of any length: `ny, nx = map(int, x)`
  | other                    -- an int, `None`: not a `Sequence`
  deriving DecidableEq, Repr

/-- `shape_(x)` → `(ny, nx)` -/
def shapeOf : ShapeArg → Res (Int × Int)
  | .shape2d x y => .ok (y, x)
  | .xy x y => .ok (y, x)
  | .seq [ny, nx] => .ok (ny, nx)
  | .seq _ => .error .valueError
  | .other => .error .valueError

/-- `Tiles(base_shape, tile_shape)`: `shape_` of the tile shape, then of the base shape, then the
counts (`N // 0` raises `ZeroDivisionError`; a negative tile size is accepted). -/
def mkTiles (base tile : ShapeArg) : Res Tiling2 := do
  let (ny, nx) ← shapeOf tile
  let (Ny, Nx) ← shapeOf base
  let _ ← mkCount Ny ny
  let _ ← mkCount Nx nx
  return ⟨.reg Ny ny, .reg Nx nx⟩

/-- the `how` argument of `roi_tiles` -/
inductive HowArg where
  | shape (s : ShapeArg)
  /-- a tuple / list whose first member `c0` is itself a tuple / list (only `how[0]` is tested);
  `rest` are the other members – any iterables of ints (tuple, list, ndarray, iterator) -/
  | chunks (c0 : List Int) (rest : List (List Int))
  deriving DecidableEq, Repr

/-- `roi_tiles(shape, how)`: `how[0]` of an empty tuple / list raises `IndexError`; the chunk form
ignores `shape` altogether. -/
def roiTiles (shape : ShapeArg) : HowArg → Res Tiling2
  | .shape (.seq []) => .error .indexError
  | .chunks y [x] => .ok ⟨.var y, .var x⟩
  | .chunks _ _ => .error .valueError     -- `y, x = (tuple(i) for i in how)`
  | .shape h => mkTiles shape h

/-- `GeoboxTiles(box, tile_shape, _tiles=…)`: a given `_tiles` is used as is (whatever `tile_shape`
says); otherwise `assert tile_shape is not None` and `roi_tiles(box.shape, tile_shape)`. -/
def gbtInit (box : GBox) (tileShape : Option HowArg) (tiles : Option Tiling2) : Res GeoboxTiles :=
  match tiles with
  | some t => .ok ⟨box, t⟩
  | none =>
    match tileShape with
    | none => .error .assertion
    | some how => do
      let t ← roiTiles (.shape2d box.nx box.ny) how
      return ⟨box, t⟩

/-- `GeoboxTiles(box, tile_shape, _tiles=…)` **as repaired** (fix2-C04, second commit): a tiling built
from `tile_shape` whose base is not the GeoBox shape – chunk tuples that do not add up to it – raises
`ValueError` instead of constructing tiles outside the GeoBox.  (`gbtInit` above is the constructor as
found; a given `_tiles` is still used as is: `_crop` / `clip` pass consistent ones.) -/
def gbtInitR (box : GBox) (tileShape : Option HowArg) (tiles : Option Tiling2) : Res GeoboxTiles :=
  match tiles with
  | some t => .ok ⟨box, t⟩
  | none => do
    let g ← gbtInit box tileShape none
    if g.tiles.y.base = box.ny ∧ g.tiles.x.base = box.nx then .ok g else .error .valueError

/-! ## 4. `planes_yx(yx_roi)`, `WindowFromSlice`, `roi_shape` -/

/-- a member of a plane index: an int on an extra axis, or a member of the `Y, X` window -/
inductive PlaneEl where
  | ax (i : Nat)
  | win (p : PIdx)
  deriving DecidableEq, Repr

/-- the `Y, X` pair `w` spliced into every index of the other axes at `axis = lead.length` -/
def splicePlanes (lead trail : List Nat) (w : List PlaneEl) : List (List PlaneEl) :=
  (ndindex (lead ++ trail)).map fun idx =>
    (idx.take lead.length).map PlaneEl.ax ++ w ++ (idx.drop lead.length).map PlaneEl.ax

/-- forget the window members of a plane index (what `planesYX` of Model/C04 keeps) -/
def eraseWin : PlaneEl → Option Nat
  | .ax i => some i
  | .win _ => none

/-- `planes_yx(yx_roi)`: `None` stands for `np.s_[:, :]`; otherwise `ry, rx = yx_roi`
(a tuple / list of the wrong length raises `ValueError`). -/
def planesYXWith (lead trail : List Nat) : Option (List PIdx) → Res (List (List PlaneEl))
  | none => .ok (splicePlanes lead trail [.win (.slc none none), .win (.slc none none)])
  | some [ry, rx] => .ok (splicePlanes lead trail [.win ry, .win rx])
  | some _ => .error .valueError

/-- argument of `w_[…]` -/
inductive WinArg where
  | none                    -- `None`
  | seq (xs : List PIdx)    -- a tuple / list
  | other                   -- not a `Sequence` (an int, a slice)
  deriving DecidableEq, Repr

/-- one rasterio window axis `(start, stop)`; `stop` stays `None` for an open slice -/
abbrev WinAxis := Int × Option Int

/-- `row.start` … of a member: an int has no `.start` (`AttributeError`) -/
def winAxis : PIdx → ResA WinAxis
  | .slc a b => .ok (match a with | none => 0 | some v => v, b)
  | .idx _ => .error .attributeError

/-- `WindowFromSlice.__getitem__` -/
def windowFromSlice : WinArg → ResA (Option (WinAxis × WinAxis))
  | .none => .ok none
  | .other => .error (.std .valueError)
  | .seq [row, col] => do
    let r ← winAxis row
    let c ← winAxis col
    return some (r, c)
  | .seq _ => .error (.std .valueError)

/-- `roi_shape(roi)`: a non-tuple is wrapped into a 1-tuple, then `slice_dim` per member
(`None` has no `.stop`: `AttributeError`) -/
def roiShape : Roi → ResA (List Int)
  | .none => .error .attributeError
  | .single i => liftA (do let d ← sliceDim i; return [d])
  | .tuple is => liftA (is.mapM sliceDim)

end OdcGeo.C04
