/-
Model for C14, fourth part — several THREADS consuming `tiles(bounds, cache)` / `tiles_from_geopolygon(poly, cache)` over one
shared `geobox_cache`, at the granularity of the dictionary operations of the local `geobox(tile_index)` helper
(gridspec.py:187-195):

    gbox = geobox_cache.get(tile_index)          -- one atomic step (read)
    if gbox is None:
        gbox = self.tile_geobox(tile_index)      -- pure
        geobox_cache[tile_index] = gbox          -- one atomic step (write; may overwrite what another thread wrote meanwhile)
    return gbox

A schedule is any sequence of thread numbers; each entry lets that thread perform its next dictionary operation.
-/
import OdcGeo.Model.C14Args
namespace OdcGeo.C14

/-- one thread: the tiles its generator has still to yield, whether it is between a missed read and its write, the disjointness
    filter of its query, and what it has yielded so far -/
structure Thr where
  todo : List (Int × Int)
  miss : Bool
  dj : GeoBox → Bool
  out : List ((Int × Int) × GeoBox)

def Thr.ofTiles (ks : List (Int × Int)) : Thr := ⟨ks, false, fun _ => false, []⟩
def Thr.ofPolygon (ks : List (Int × Int)) (dj : GeoBox → Bool) : Thr := ⟨ks, false, dj, []⟩

/-- yield unless the polygon filter drops the tile -/
def Thr.emit (t : Thr) (k : Int × Int) (gb : GeoBox) : List ((Int × Int) × GeoBox) :=
  if t.dj gb then t.out else t.out ++ [(k, gb)]

/-- the next dictionary operation of a thread -/
def GridSpec.thrStep (fl : Rnd) (g : GridSpec) (t : Thr) (c : Cache) : Thr × Cache :=
  match t.todo with
  | [] => (t, c)
  | k :: ks =>
    if t.miss then
      (⟨ks, false, t.dj, t.emit k (g.tileGeobox fl k)⟩, (k, g.tileGeobox fl k) :: c)
    else
      match c.lookup k with
      | some gb => (⟨ks, false, t.dj, t.emit k gb⟩, c)
      | none => (⟨k :: ks, true, t.dj, t.out⟩, c)

/-- run a schedule (entries naming no thread are skipped) -/
def GridSpec.thrRun (fl : Rnd) (g : GridSpec) : List Nat → List Thr → Cache → List Thr × Cache
  | [], ts, c => (ts, c)
  | i :: sched, ts, c =>
    match ts[i]? with
    | none => GridSpec.thrRun fl g sched ts c
    | some t =>
      let r := g.thrStep fl t c
      GridSpec.thrRun fl g sched (setAt ts i r.1) r.2

/-- what a thread yields in total when it runs alone without a cache -/
def Thr.spec (fl : Rnd) (g : GridSpec) (dj : GeoBox → Bool) (ks : List (Int × Int)) : List ((Int × Int) × GeoBox) :=
  (ks.filter (fun k => !dj (g.tileGeobox fl k))).map (fun k => (k, g.tileGeobox fl k))

/-- invariant of one thread: already yielded ++ still to yield = the stateless result -/
def Thr.Inv (fl : Rnd) (g : GridSpec) (t : Thr) (total : List ((Int × Int) × GeoBox)) : Prop :=
  t.out ++ Thr.spec fl g t.dj t.todo = total

end OdcGeo.C14
