/-
Model for C01, second part — the glue around the CRS guard (core Lean only): how a CRS gets onto an
object in the first place, how it is compared with things that are not a `CRS`, and how it travels
through the single-operand operations whose results are then combined.

* `CRS.__eq__(other)` for `other` not a `CRS` (crs.py:252-257)            → `crsEqAny`
* `BoundingBox.map_bounds` / `.aoi` dispatch on `crs == "epsg:4326" or None`
                                              (geom.py:193-204, 294-301)  → `lonlatDispatch`
* `Geometry.__init__` (geom.py:487-512): clone / GeoJSON-Feature default / `norm_crs` / type dispatch
                                                                          → `geomInit`
* `BoundingBox.__init__`, `from_xy`, `from_points`, `from_transform` (geom.py:46-50, 247-292)
                                                                          → `bboxInit`
* `norm_crs` — the `'utm…'` branch (crs.py:416-433): zone arithmetic `epsg ± 100`
                                                                          → `UtmText`, `utmText`, `utmPick`
* single-operand operations of `Geometry` / `BoundingBox` that return a CRS-tagged object
  (geom.py:110-127, 175-191, 243-245, 303-325, 514-515, 564-588, 599-646, 648-675, 751-755,
  882-885, 932-936, 982-1027) and what CRS the result carries               → `unaryTable`, `unaryTag`
-/
import OdcGeo.Model.C01
namespace OdcGeo.C01

/-! ### comparing a CRS with anything -/

/-- `crs == other` for `other` not a `CRS`: `CRS(other)` is attempted; `none` = the construction
raised (`None`, garbage, an object without `to_wkt`) → `False` -/
def crsEqAny (a : CrsRec) (other : Option CrsRec) : Bool :=
  match other with
  | none => false
  | some b => crsEq a b

inductive LonLatPath where
  | raw          -- the numbers are used as lon/lat as they are
  | converted    -- `to_crs("epsg:4326")` first
  deriving DecidableEq, Repr

/-- `BoundingBox.aoi` / `.map_bounds`: `if self._crs is None or self._crs == "epsg:4326"` -/
def lonlatDispatch (crs : Tag) (t4326 : CrsRec) : LonLatPath :=
  match crs with
  | none => .raw
  | some c => if crsEqAny c (some t4326) then .raw else .converted

/-! ### how an object gets its CRS -/

/-- the `crs=` argument as a constructor sees it -/
inductive CrsArg where
  | omitted                       -- `None` (the default)
  | unset                         -- `Unset()`
  | given (r : Except Err Tag)    -- anything else: what `norm_crs` makes of it
  deriving Repr

/-- `norm_crs(crs)` on the argument -/
def CrsArg.norm : CrsArg → Except Err Tag
  | .omitted => .ok none
  | .unset => .ok none
  | .given r => r

/-- the first argument of `Geometry(...)` -/
inductive GeomArg where
  | geometry (crs : Tag)          -- another `Geometry`
  | shapely                       -- a shapely geometry
  | dict (featureLike : Bool)     -- a dict; `featureLike`: `geom.get("type", "").lower().startswith("feature")`
  | other                         -- anything else
  deriving Repr

/-- the CRS of `Geometry(geom, crs)` (geom.py:487-512); the GeoJSON → shapely conversion happens after
it and is a delegate -/
def geomInit (t4326 : CrsRec) (arg : GeomArg) (crs : CrsArg) : Except Err Tag :=
  match arg with
  | .geometry t =>
    match crs with
    | .omitted => .ok t
    | _ => .error .assertion                    -- `assert crs is None`
  | .dict true =>
    match crs with
    | .omitted => .ok (some t4326)               -- "Assume 4326 for geojson inputs"
    | c => c.norm
  | .dict false => crs.norm
  | .shapely => crs.norm
  | .other =>
    match crs.norm with
    | .error e => .error e                        -- `norm_crs` runs before the type is looked at
    | .ok _ => .error .valueError                 -- "Unexpected type"

/-- `BoundingBox(l, b, r, t, crs)` and its three static constructors: `norm_crs(crs)`, nothing else -/
def bboxInit (crs : CrsArg) : Except Err Tag := crs.norm

/-! ### `norm_crs("utm…", ctx)` -/

inductive UtmText where
  | plain        -- 'utm'
  | north        -- 'utm-n'
  | south        -- 'utm-s'
  | otherSuffix  -- starts with 'utm' but is none of the three: treated like 'utm'
  deriving DecidableEq, Repr

/-- classification of the lower-cased text (`none`: does not start with `utm`, goes to `CRS(text)`) -/
def utmText (lower : String) : Option UtmText :=
  let cs := lower.toList
  if ['u', 't', 'm'].isPrefixOf cs then
    some (if cs = ['u', 't', 'm'] then .plain else if cs = ['u', 't', 'm', '-', 'n'] then .north
          else if cs = ['u', 't', 'm', '-', 's'] then .south else .otherSuffix)
  else none

/-- the EPSG code `norm_crs` returns, from the code and hemisphere of `CRS.utm(ctx)`:
`utm-n` of a southern zone is `epsg - 100`, `utm-s` of a northern zone `epsg + 100` -/
def utmPick (txt : UtmText) (zoneSouth : Bool) (epsg : Nat) : Nat :=
  match txt with
  | .north => if zoneSouth then epsg - 100 else epsg
  | .south => if zoneSouth then epsg else epsg + 100
  | _ => epsg

/-- WGS 84 / UTM zone codes: 32601…32660 north, 32701…32760 south -/
def utmNorthCode (zone : Nat) : Nat := 32600 + zone
def utmSouthCode (zone : Nat) : Nat := 32700 + zone

/-! ### single-operand operations: which CRS the result carries -/

inductive TagRule where
  | keep          -- the result (every result of an iterator / list) carries `self.crs`
  | fromArg       -- `assign_crs(crs)`, `transform(f, crs=…)`: the normalised argument
  | target        -- `to_crs(crs)`: the target (`self` itself when the CRSs compare equal)
  deriving DecidableEq, Repr

/-- every public single-operand operation of `Geometry` and `BoundingBox` that returns CRS-tagged
objects (matched against introspection of the live classes by the harness) -/
def unaryTable : List (String × TagRule) :=
  (["boundary", "exterior", "interiors", "centroid", "convex_hull", "envelope", "boundingbox", "segmented",
    "interpolate", "buffer", "simplify", "transform", "clone", "geoms", "__iter__", "__rmul__", "filter",
    "dropna"].map (fun n => ("Geometry." ++ n, TagRule.keep)))
  ++ [("Geometry.assign_crs", .fromArg), ("Geometry.to_crs", .target)]
  ++ (["buffered", "transform", "round", "boundary", "qr2sample", "polygon"].map (fun n => ("BoundingBox." ++ n, TagRule.keep)))
  ++ [("BoundingBox.to_crs", .target)]

/-- the single-operand operations of `GeoBox` (geobox.py) that return a GeoBox / Geometry / BoundingBox:
every view or derived grid keeps the CRS (their arithmetic is C02's model) -/
def unaryTableGeoBox : List (String × TagRule) :=
  (["pad", "pad_wh", "zoom_out", "zoom_to", "flipx", "flipy", "left", "right", "top", "bottom", "buffered",
    "center_pixel", "translate_pix", "rotate", "extent", "boundingbox"].map (fun n => ("GeoBox." ++ n, TagRule.keep)))
  ++ [("GeoBox.to_crs", .target)]

def findUnary (name : String) : Option TagRule := ((unaryTable ++ unaryTableGeoBox).find? (·.1 = name)).map (·.2)

/-- the CRS of the result: `arg` is the normalised `crs` argument where there is one -/
def unaryTag (rule : TagRule) (self : Tag) (arg : Tag) : Tag :=
  match rule with
  | .keep => self
  | .fromArg => arg
  | .target => if tagEq self arg then self else arg

/-- `Geometry.transform(func, crs=…)`: `Unset()` keeps, anything else (including `None`) replaces -/
def transformTag (self : Tag) (crs : CrsArg) : Except Err Tag :=
  match crs with
  | .unset => .ok self
  | c => c.norm

end OdcGeo.C01
