/-
Model for C05 — the parallel (dask) COG writer: layout rule, tile enumeration, the level
loop of the empty-header writer, header patching from the observed tile stream, the
write order.  Core Lean only (no Mathlib).

Mirrors, function by function (odc-geo at the `fix-C05` branch):

  odc/geo/math.py           align_down, align_up, align_down_pow2
  odc/geo/cog/_shared.py    adjust_blocksize, norm_blocksize, num_overviews,
                            compute_cog_spec, CogMeta.{chunked,num_tiles,tidx,
                            flat_tile_idx,cog_tidx,num_planes}, yaxis_from_shape
  odc/geo/cog/_tifffile.py  _make_empty_cog (axis / nsamples / level loop, GeoBox zoom),
                            _cog_block_compressor_* (padding amounts), _pad_to_cog_shape,
                            _extract_tile_info, _patch_hdr (offset shift by header size),
                            save_cog_with_dask (default blocksize, `_tiles[::-1]` order)

Shapes and block sizes are `Nat` (the code receives positive Python ints; a block size of 0
makes tifffile reject the call and is outside the model).  A `Shape2d` is `YX` = (y, x);
a tuple block `(b1, b2)` is (y, x) as `shape_(tuple)` reads it.

NOT modelled here (other owners): the multi-part byte stream (`MPUChunk`, `mpu_write`) is
C06 — its main theorem `C06.main` ("the bytes handed to the writer, concatenated in part
order, equal header ++ tiles in stream order") is what turns the *stream order* of this
file into *file offsets*; the harness checks that end-to-end on every written file.
-/
import OdcGeo.Model.IO
import OdcGeo.Model.Affine
import OdcGeo.Model.CogShared
namespace OdcGeo.C05

/-- `Shape2d` as (y, x) -/
structure YX where
  y : Nat
  x : Nat
  deriving DecidableEq, Repr

/-! ### math.py: align_down / align_up / align_down_pow2 (105-147) -/

/-- `x - (x % align)` -/
def alignDown (x a : Nat) : Nat := x - x % a

/-- `align_down(x + (align - 1), align)` -/
def alignUp (x a : Nat) : Nat := alignDown (x + (a - 1)) a

/-- largest power of two `≤ x` by doubling (`fuel` doublings at most), for `x ≥ 1` -/
def pow2Below : Nat → Nat → Nat → Nat
  | 0, p, _ => p
  | fuel + 1, p, x => if 2 * p ≤ x then pow2Below fuel (2 * p) x else p

/-- `align_down_pow2(x)`: largest `2**n ≤ x`; the code returns 1 for `x ≤ 0` (`align_up_pow2`
gives 1, which is not `> x` only when `x ≥ 1`, so for 0 it halves to 0).  The code goes
through `ceil(log2(x))` in doubles, which is exact far beyond any `max_pad` in use. -/
def alignDownPow2 (x : Nat) : Nat := if x = 0 then 0 else pow2Below x 1 x

/-! ### _shared.py: adjust_blocksize, norm_blocksize (146-158) -/

/-- `adjust_blocksize(block, dim=0)` -/
def adjustBlocksize (block : Nat) (dim : Nat := 0) : Nat :=
  if 0 < dim ∧ dim < block then alignUp dim 16 else alignUp block 16

/-- a user block size: `int` or `(by, bx)` -/
inductive Blk where
  | one (b : Nat)
  | two (b1 b2 : Nat)
  deriving DecidableEq, Repr

/-- `norm_blocksize(block)` read as (y, x) -/
def normBlocksize : Blk → YX
  | .one b => ⟨adjustBlocksize b, adjustBlocksize b⟩
  | .two b1 b2 => ⟨adjustBlocksize b1, adjustBlocksize b2⟩

/-! ### _shared.py: num_overviews (161-166) — `while block < dim: dim //= 2; c += 1` -/

/-- the loop with an iteration budget; the budget is never the reason to stop when
`fuel ≥ dim` (theorem `num_overviews_fuel_irrelevant`) -/
def numOverviewsFuel : Nat → Nat → Nat → Nat
  | 0, _, _ => 0
  | fuel + 1, block, dim => if block < dim then numOverviewsFuel fuel block (dim / 2) + 1 else 0

def numOverviews (block dim : Nat) : Nat := numOverviewsFuel dim block dim

/-! ### _shared.py: compute_cog_spec (169-185) -/

/-- `(data_shape, tile_shape, n)` -/
def computeCogSpec (shape tile : YX) (maxPad : Option Nat := none) : YX × YX × Nat :=
  let t : YX := ⟨adjustBlocksize tile.y, adjustBlocksize tile.x⟩
  let n1 := numOverviews t.x shape.x
  let n2 := numOverviews t.y shape.y
  let n := max n1 n2
  let pad0 := 2 ^ n
  let pad := match maxPad with
    | none => pad0
    | some mp => if mp < pad0 then (if mp = 0 then 0 else alignDownPow2 mp) else pad0
  let sh : YX := if pad > 0 then ⟨alignUp shape.y pad, alignUp shape.x pad⟩ else shape
  (sh, t, n)

/-- `Shape2d.shrink2` -/
def shrink2 (s : YX) : YX := ⟨s.y / 2, s.x / 2⟩

/-! ### _shared.py: CogMeta (50-143) -/

/-- the fields of `CogMeta` the layout depends on; `planes` = `num_planes`
(`nsamples` for SYX, else 1) -/
structure Meta where
  planes : Nat
  shape : YX
  tile : YX
  deriving DecidableEq, Repr

/-- `(N + n - 1) // n` per axis -/
def Meta.chunked (m : Meta) : YX :=
  ⟨(m.shape.y + m.tile.y - 1) / m.tile.y, (m.shape.x + m.tile.x - 1) / m.tile.x⟩

def Meta.numTiles (m : Meta) : Nat := m.planes * m.chunked.y * m.chunked.x

/-- `tidx(sample_idx)`: `(sample_idx, y, x) for y, x in np.ndindex(chunked)`; the code asserts
`sample_idx < num_planes` -/
def Meta.tidxPlane (m : Meta) (s : Nat) : Res (List (Nat × Nat × Nat)) :=
  if s < m.planes then
    .ok ((List.range m.chunked.y).flatMap fun y => (List.range m.chunked.x).map fun x => (s, y, x))
  else .error .assertion

/-- `tidx()`: `np.ndindex((num_planes, ny, nx))` (C order) -/
def Meta.tidx (m : Meta) : List (Nat × Nat × Nat) :=
  (List.range m.planes).flatMap fun s =>
    (List.range m.chunked.y).flatMap fun y => (List.range m.chunked.x).map fun x => (s, y, x)

/-- `sample * (ny * nx) + y * nx + x` -/
def Meta.flatRaw (m : Meta) (s y x : Nat) : Nat :=
  s * (m.chunked.y * m.chunked.x) + y * m.chunked.x + x

/-- `flat_tile_idx((sample, y, x))`: `IndexError` unless `0 ≤ i < n` on each axis -/
def Meta.flatTileIdx (m : Meta) (s y x : Int) : Res Nat :=
  if s < 0 ∨ s ≥ m.planes ∨ y < 0 ∨ y ≥ m.chunked.y ∨ x < 0 ∨ x ≥ m.chunked.x then
    .error .indexError
  else .ok (m.flatRaw s.toNat y.toNat x.toNat)

/-- `cog_tidx()` on `flatten()`: levels reversed, `(ifd_idx, plane, iy, ix)` -/
def cogTidx (ms : List Meta) : List (Nat × Nat × Nat × Nat) :=
  (ms.zipIdx.reverse).flatMap fun (m, idx) => m.tidx.map fun (p, y, x) => (idx, p, y, x)

/-! ### _shared.py: yaxis_from_shape (213-233, as repaired: a matching GeoBox decides before
the "last axis is 3 or 4 → RGB(A)" shortcut) -/

inductive Axis where
  | YX | YXS | SYX
  deriving DecidableEq, Repr

def Axis.toStr : Axis → String
  | .YX => "YX" | .YXS => "YXS" | .SYX => "SYX"

def yaxisFromShape (shape : List Nat) (gbox : Option YX) : Res (Axis × Nat) :=
  match shape with
  | [_, _] => .ok (.YX, 0)
  | [a, b, c] =>
    match gbox with
    | some g =>
      if g = ⟨a, b⟩ then .ok (.YXS, 0)
      else if g = ⟨b, c⟩ then .ok (.SYX, 1)
      else if c = 3 ∨ c = 4 then .ok (.YXS, 0)
      else .error .valueError
    | none => if c = 3 ∨ c = 4 then .ok (.YXS, 0) else .ok (.SYX, 1)
  | _ => .error .valueError

/-- the pre-repair order of the tests (RGB(A) shortcut first) — kept only to state the
counterexample `yaxis_prefix_cex` -/
def yaxisFromShapePreFix (shape : List Nat) (gbox : Option YX) : Res (Axis × Nat) :=
  match shape with
  | [_, _] => .ok (.YX, 0)
  | [a, b, c] =>
    if c = 3 ∨ c = 4 then .ok (.YXS, 0)
    else match gbox with
      | none => .ok (.SYX, 1)
      | some g =>
        if g = ⟨a, b⟩ then .ok (.YXS, 0)
        else if g = ⟨b, c⟩ then .ok (.SYX, 1)
        else .error .valueError
  | _ => .error .valueError

/-! ### _tifffile.py: _make_empty_cog (120-244) -/

/-- one IFD of the header: image shape, tile shape, affine of the level's GeoBox -/
structure Level where
  shape : YX
  tile : YX
  aff : Option Aff
  deriving DecidableEq, Repr

/-- `GeoBox.zoom_to(shape)` → `compute_zoom_to`: `sy, sx = (N / float(n) ...)`,
`A = affine * Affine.scale(sx, sy)`; a 0-pixel side divides by zero -/
def zoomTo (cur : YX) (A : Aff) (new : YX) : Res Aff :=
  if new.y = 0 ∨ new.x = 0 then .error .zeroDiv
  else .ok (A * Aff.scale ((cur.x : Rat) / (new.x : Rat)) ((cur.y : Rat) / (new.y : Rat)))

/-- `itertools.chain(iter(blocksize), itertools.repeat(blocksize[-1]))` at position `idx` -/
def blockAt (bs : List Blk) (last : Blk) (idx : Nat) : Blk :=
  match bs[idx]? with
  | some b => b
  | none => last

/-- the level loop `for tsz, idx in zip(_blocks, range(nlevels + 1))` as repaired (F18):
shrink and zoom only when another level follows.  `rem` counts the iterations left. -/
def levelLoop (blk : Nat → Blk) (nlevels : Nat) : Nat → Nat → YX → Option Aff → Res (List Level)
  | 0, _, _, _ => .ok []
  | rem + 1, idx, sh, g =>
    let lvl : Level := ⟨sh, normBlocksize (blk idx), g⟩
    if idx < nlevels then
      match g with
      | none => (levelLoop blk nlevels rem (idx + 1) (shrink2 sh) none).map (lvl :: ·)
      | some A =>
        match zoomTo sh A (shrink2 sh) with
        | .error e => .error e
        | .ok A' => (levelLoop blk nlevels rem (idx + 1) (shrink2 sh) (some A')).map (lvl :: ·)
    else (levelLoop blk nlevels rem (idx + 1) sh g).map (lvl :: ·)

/-- the loop before the repair: always `shrink2` + `zoom_to` after writing a level -/
def levelLoopPreFix (blk : Nat → Blk) : Nat → Nat → YX → Option Aff → Res (List Level)
  | 0, _, _, _ => .ok []
  | rem + 1, idx, sh, g =>
    let lvl : Level := ⟨sh, normBlocksize (blk idx), g⟩
    match g with
    | none => (levelLoopPreFix blk rem (idx + 1) (shrink2 sh) none).map (lvl :: ·)
    | some A =>
      match zoomTo sh A (shrink2 sh) with
      | .error e => .error e
      | .ok A' => (levelLoopPreFix blk rem (idx + 1) (shrink2 sh) (some A')).map (lvl :: ·)

/-- what `_make_empty_cog` decides: axis order, nsamples, `num_planes`, the IFD list -/
structure Cog where
  axis : Axis
  nsamples : Nat
  planes : Nat
  nlevels : Nat
  levels : List Level
  deriving DecidableEq, Repr

/-- image shape `shape[yaxis : yaxis + 2]` and `nsamples` -/
def imShape (ax : Axis) (shape : List Nat) : Option (YX × Nat) :=
  match ax, shape with
  | .YX, [a, b] => some (⟨a, b⟩, 1)
  | .YXS, [a, b, c] => some (⟨a, b⟩, c)
  | .SYX, [a, b, c] => some (⟨b, c⟩, a)
  | _, _ => none

/-- `_make_empty_cog(shape, dtype, gbox, blocksize=…)`; `gbox` = (shape, affine).
`blocksize[-1]` of an empty list is an `IndexError`. -/
def makeEmptyCogWith (loop : (Nat → Blk) → Nat → YX → Option Aff → Res (List Level))
    (yaxis : List Nat → Option YX → Res (Axis × Nat))
    (shape : List Nat) (gbox : Option (YX × Aff)) (blocksize : List Blk) : Res Cog :=
  match yaxis shape (gbox.map (·.1)) with
  | .error e => .error e
  | .ok (ax, _) =>
    match imShape ax shape, blocksize.getLast? with
    | none, _ => .error .valueError
    | _, none => .error .indexError
    | some (im, ns), some last =>
      let (p, _, n) := computeCogSpec im (normBlocksize last)
      match loop (blockAt blocksize last) n p (gbox.map (·.2)) with
      | .error e => .error e
      | .ok lv => .ok ⟨ax, ns, if ax = .SYX then ns else 1, n, lv⟩

def makeEmptyCog (shape : List Nat) (gbox : Option (YX × Aff)) (blocksize : List Blk) : Res Cog :=
  makeEmptyCogWith (fun blk n p g => levelLoop blk n (n + 1) 0 p g) yaxisFromShape shape gbox blocksize

def makeEmptyCogPreFix (shape : List Nat) (gbox : Option (YX × Aff)) (blocksize : List Blk) : Res Cog :=
  makeEmptyCogWith (fun blk n p g => levelLoopPreFix blk (n + 1) 0 p g) yaxisFromShapePreFix
    shape gbox blocksize

/-- `meta.flatten()` as layout records -/
def Cog.metas (c : Cog) : List Meta := c.levels.map fun l => ⟨c.planes, l.shape, l.tile⟩

/-- `save_cog_with_dask`: `blocksize = [data_chunks, max(int(max(*data_chunks) // 2), 1)]` when
unset (as repaired: never 0 for 1-pixel chunks) -/
def defaultBlocksize (cy cx : Nat) : List Blk := [.two cy cx, .one (max (max cy cx / 2) 1)]

/-! ### _tifffile.py: tile padding (247-305) and `_pad_to_cog_shape` -/

/-- pixels of source extent `N` that fall into tile `i` of size `t` -/
def blockExtent (N t i : Nat) : Nat := min t (N - i * t)

/-- `pad = (0, want - have)`: nothing before, `want - have` after -/
def tilePad (N t i : Nat) : Nat × Nat := (0, t - blockExtent N t i)

/-- `_pad_to_cog_shape`: `((0, max(P.y - ny, 0)), (0, max(P.x - nx, 0)))` -/
def padToCog (src p : YX) : (Nat × Nat) × (Nat × Nat) := ((0, p.y - src.y), (0, p.x - src.x))

/-! ### _tifffile.py: _extract_tile_info (446-465), _patch_hdr (468-500) -/

/-- per IFD `(offsets, byte counts)` -/
abbrev TileInfo := List (List Nat × List Nat)

/-- `[([0] * m.num_tiles, [0] * m.num_tiles) for m in mm]` -/
def initInfo (ms : List Meta) : TileInfo :=
  ms.map fun m => (List.replicate m.numTiles 0, List.replicate m.numTiles 0)

/-- `b_lengths[tidx] = sz; b_offsets[tidx] = byte_offset` in IFD `l` -/
def updInfo (info : TileInfo) (l f off sz : Nat) : TileInfo :=
  match info[l]? with
  | none => info
  | some (os, ns) => info.set l (os.set f off, ns.set f sz)

/-- an observed tile: `(scale_idx, p, y, x, sz)` -/
structure Obs where
  lvl : Nat
  p : Int
  y : Int
  x : Int
  sz : Nat
  deriving DecidableEq, Repr

/-- flat index of an observed tile: `mm[scale_idx]` then `flat_tile_idx` (both `IndexError`) -/
def obsKey (ms : List Meta) (t : Obs) : Res (Nat × Nat) :=
  match ms[t.lvl]? with
  | none => .error .indexError
  | some m =>
    match m.flatTileIdx t.p t.y t.x with
    | .error e => .error e
    | .ok f => .ok (t.lvl, f)

/-- one iteration of the loop over `tiles` -/
def extractStep (ms : List Meta) (st : TileInfo × Nat) (t : Obs) : Res (TileInfo × Nat) :=
  match obsKey ms t with
  | .error e => .error e
  | .ok (l, f) =>
    if t.sz ≠ 0 then .ok (updInfo st.1 l f st.2 t.sz, st.2 + t.sz) else .ok st

/-- the loop from an arbitrary state -/
def extractLoop (ms : List Meta) : TileInfo × Nat → List Obs → Res (TileInfo × Nat)
  | st, [] => .ok st
  | st, t :: ts =>
    match extractStep ms st t with
    | .error e => .error e
    | .ok st' => extractLoop ms st' ts

/-- `_extract_tile_info(meta, tiles, start_offset)` -/
def extractTileInfo (ms : List Meta) (tiles : List Obs) (start : Nat := 0) : Res TileInfo :=
  (extractLoop ms (initInfo ms, start) tiles).map (·.1)

/-- `_patch_hdr`: `tile_info` from offset 0, every offset entry shifted by the header size
(also the entries of unobserved / empty tiles), byte counts as is -/
def patchHdr (ms : List Meta) (tiles : List Obs) (hdrSz : Nat) : Res TileInfo :=
  (extractTileInfo ms tiles 0).map fun info => info.map fun (os, ns) => (os.map (· + hdrSz), ns)

/-- `(offsets, counts)` entry of tile `f` of IFD `l` -/
def look (info : TileInfo) (l f : Nat) : Option (Nat × Nat) :=
  match info[l]? with
  | none => none
  | some (os, ns) =>
    match os[f]?, ns[f]? with
    | some o, some n => some (o, n)
    | _, _ => none

/-! ### _tifffile.py: save_cog_with_dask (667-689): order in which tiles are streamed -/

/-- `_tiles` is built level by level (0 first), plane by plane, each bag in `tidx(sample)`
order; `tiles_write_order = _tiles[::-1]` (concatenating the first four bags and
repartitioning keep the order).  Result: `(scale_idx, plane, iy, ix)` in stream order. -/
def writeOrder (ms : List Meta) : List (Nat × Nat × Nat × Nat) :=
  match ms with
  | [] => []
  | m0 :: _ =>
    let bags : List (List (Nat × Nat × Nat × Nat)) :=
      ms.zipIdx.flatMap fun (m, l) =>
        (List.range m0.planes).map fun s =>
          (List.range m.chunked.y).flatMap fun y =>
            (List.range m.chunked.x).map fun x => (l, s, y, x)
    bags.reverse.flatten

/-! ### _tifffile.py: _compress_tiles (388-470): re-chunking of the source and which block feeds which tile -/

/-- chunks of a (re-chunked) dask array along the band axis and the regular spatial tile chunks -/
structure SrcChunks where
  band : List Nat        -- chunk sizes along the band axis (`[]`: no band axis)
  tile : YX
  deriving DecidableEq, Repr

/-- `_chunks` handed to `data.rechunk` for a source with `ns` bands whose band axis is currently chunked as
`bandChunks` (SYX: band axis first; YXS: last; YX: none):
  * YX / YXS (`num_planes == 1`): `meta.chunks` — the tile, with ALL samples of a pixel in one chunk;
  * SYX, 2-D data: the tile;  SYX with the whole band axis in ONE chunk: keep it (`(data.shape[0], *tile)`);
  * SYX otherwise (any grouping: 2+2, (2,1), one per band …): one band per chunk (`(1, *tile)`). -/
def compressChunks (ax : Axis) (ndim ns : Nat) (bandChunks : List Nat) (tile : YX) : SrcChunks :=
  match ax with
  | .YX => ⟨[], tile⟩
  | .YXS => ⟨[ns], tile⟩
  | .SYX =>
    if ndim = 2 then ⟨[], tile⟩
    else if bandChunks.length = 1 then ⟨[ns], tile⟩
    else ⟨List.replicate ns 1, tile⟩

/-- `block_name(s, y, x)`: the chunk index of the source block that feeds tile `(s, y, x)`, as
`(band chunk index, y, x)` (`none`: no band axis in the key) -/
def blockName (ax : Axis) (ndim : Nat) (bandChunks : List Nat) (s y x : Nat) : Option Nat × Nat × Nat :=
  if ndim = 2 then (none, y, x)
  else match ax with
    | .SYX => if bandChunks.length = 1 then (some 0, y, x) else (some s, y, x)
    | _ => (some s, y, x)      -- YXS key `(name, y, x, s)`; `s` is always 0 there (`num_planes == 1`)

/-- `_cog_block_compressor_syx`: which band of the block becomes the tile: 2-D block → the block itself; a block with ONE
band → that one; else `block[sample_idx]` -/
def pickPlane (blockNdim blockBands sampleIdx : Nat) : Option Nat :=
  if blockNdim = 2 then none else if blockBands = 1 then some 0 else some sampleIdx

/-- first band held by band-chunk `k` -/
def bandOffset (chunks : List Nat) (k : Nat) : Nat := (chunks.take k).sum

/-- the band of the SOURCE that ends up in the tile of plane `s` (SYX, 3-D): offset of the block + plane picked in it -/
def sourceBandOfTile (ns : Nat) (bandChunks : List Nat) (s : Nat) : Option Nat :=
  let c := compressChunks .SYX 3 ns bandChunks ⟨16, 16⟩
  match blockName .SYX 3 bandChunks s 0 0 with
  | (some kb, _, _) =>
    match c.band[kb]? with
    | some nb => (pickPlane 3 nb s).map (bandOffset c.band kb + ·)
    | none => none          -- the block does not exist (a missing dask key)
  | _ => none

/-! ### _tifffile.py: save_cog_with_dask (700-707): grouping of the bags handed to `mpu_write` -/

/-- `tiles_write_order = _tiles[::-1]`; if there are more than 4 bags the first four are `dask.bag.concat`-ed into
one: the list of bag GROUPS (each group is streamed as one bag, members in order) -/
def bagGroups {β : Type} (tiles : List β) : List (List β) :=
  let r := tiles.reverse
  if r.length > 4 then r.take 4 :: (r.drop 4).map fun b => [b] else r.map fun b => [b]

/-! ### _tifffile.py: _patch_hdr (468-500) with statistics: size of the finished header -/

/-- bytes by which `md_tag.overwrite(gdal_metadata)` lengthens the header (tifffile, trusted: a value that does not fit
into the old value's `oldCount` bytes is appended at the end of the file, NUL terminated; else written in place) -/
def statsGrow (oldCount xmlLen : Nat) : Nat := if xmlLen + 1 ≤ oldCount then 0 else xmlLen + 1

/-- `hdr_sz = len(_bio.getbuffer())` AFTER the metadata tag was rewritten: what every tile offset is shifted by -/
def patchedHdrSize (hdr0Len : Nat) (stats : Option (Nat × Nat)) : Nat :=
  match stats with
  | none => hdr0Len
  | some (oldCount, xmlLen) => hdr0Len + statsGrow oldCount xmlLen

/-- `_patch_hdr(tiles, meta, hdr0, stats)` as far as the tile table goes -/
def patchHdrStats (ms : List Meta) (tiles : List Obs) (hdr0Len : Nat) (stats : Option (Nat × Nat)) : Res TileInfo :=
  patchHdr ms tiles (patchedHdrSize hdr0Len stats)

end OdcGeo.C05
