/- Model for C05 (core Lean only, no Mathlib). -/
import OdcGeo.Model.IO
namespace OdcGeo.C05

end OdcGeo.C05
