/-
Model for C15, part 2 — the GLUE of `odc/geo/cog/_rio.py` around the decision core of `Model/C15.lean`: everything the
module does between its public entry points and the rasterio / GDAL calls, as a CALL TRACE.

  _rio.py  _without (26-28), _default_cog_opts (57-69, as a dict incl. `**other`), _norm_compression_opts (72-83, as a dict),
           _write_cog (86-235): defaults of blocksize / ovr_blocksize / overview_resampling, layout, default levels,
               check_write_path, resampling_s2rio, the block-size warning, `rio_opts` (dict literal, nodata, extra options),
               `_write` (one-shot or window by window over `dst.block_windows()`), the no-overview path (file / memory),
               `tmp_opts = _without(rio_opts, compress, predictor, zlevel) + intermediate_compression`, `rasterio.Env(
               GDAL_TIFF_OVR_BLOCKSIZE)`, `build_overviews`, `rio_copy` to memory (options minus the 7 dataset keys) / file
           write_cog (238-318): dispatch on `overviews`, `nodata = extra_rio_opts.pop("nodata")` / attrs, geobox None
           to_cog (321-368)
           _memfiles_ovr (371-387): the `.ovr` side-car chain
           write_cog_layers (390-449): empty list, check_write_path, `rio_opts` from the FIRST layer, `first_pass_cfg`,
               one `_write_cog(…, overview_levels=[])` per layer, the Env of the final copy, `rio_copy`
  warp.py  resampling_s2rio (21-28): name → `rasterio.warp.Resampling` member, ValueError otherwise

The rasterio side is an interface: the model emits the calls (`Ev`) the module makes, with their option dictionaries; the
harness runs the REAL module against a recording stand-in for `rasterio` and compares the traces.  Reference semantics
that are rasterio's, not odc-geo's (`block_windows` of a tiled dataset, `MemoryFile` naming, the `Resampling` member
names) are stated here as `blockWindows`, `vsimemName`, `resamplingNames` and validated against the real library on every run.
-/
import OdcGeo.Model.C15
namespace OdcGeo.C15
open OdcGeo.C05 (adjustBlocksize YX)

/-! ### Python values and keyword dictionaries -/

/-- a value sitting in an option dictionary; `ext` = an object the module only passes along (transform, CRS string,
a caller's nodata / extra option) -/
inductive V where
  | none
  | bool (b : Bool)
  | int (i : Int)
  | str (s : String)
  | ext (tok : String)
  deriving DecidableEq, Repr

/-- a `dict` with string keys, in insertion order -/
abbrev Dict := List (String × V)

/-- `k in d` -/
def Dict.has (d : Dict) (k : String) : Bool := d.any (·.1 == k)

/-- `d[k]` when present -/
def Dict.get (d : Dict) (k : String) : Option V := (d.find? (·.1 == k)).map (·.2)

/-- `d.get(k, None)` -/
def Dict.getNone (d : Dict) (k : String) : V := (d.get k).getD .none

/-- `d[k] = v`: an existing key keeps its position -/
def Dict.set (d : Dict) (k : String) (v : V) : Dict :=
  if d.has k then d.map fun p => if p.1 == k then (k, v) else p else d ++ [(k, v)]

/-- `d.update(e)` / `{**d, **e}` -/
def Dict.update (d e : Dict) : Dict := e.foldl (fun acc p => acc.set p.1 p.2) d

/-- the value a `**e` / `update(e)` binds `k` to: the LAST occurrence wins (callers' keyword dicts have unique keys, then this
is `e.get k`) -/
def Dict.lastGet (e : Dict) (k : String) : Option V := Dict.get e.reverse k

/-- `_without(d, *skip)` -/
def Dict.without (d : Dict) (skip : List String) : Dict := d.filter fun p => !skip.contains p.1

/-! ### `_default_cog_opts`, `_norm_compression_opts` as dictionaries -/

/-- `_default_cog_opts(blocksize=b, shape=(w, h), is_float=…, **other)` -/
def defaultCogOpts (b w h : Nat) (isFloat : Bool) (other : Dict) : Dict :=
  Dict.update
    [("tiled", .bool true), ("blockxsize", .int (adjustBlocksize b w)), ("blockysize", .int (adjustBlocksize b h)),
     ("zlevel", .int 6), ("predictor", .int (if isFloat then 3 else 2)), ("compress", .str "DEFLATE")] other

/-- the `intermediate_compression` argument -/
inductive IComp where
  | flag (b : Bool)
  | name (s : String)
  | dict (d : Dict)
  deriving DecidableEq, Repr

/-- `_norm_compression_opts(compression)` (defaults `deflate`, 2) -/
def IComp.norm : IComp → Dict
  | .flag true => [("compress", .str "deflate"), ("zlevel", .int 2)]
  | .flag false => [("compress", .none)]
  | .name s => [("compress", .str s)]
  | .dict d => d

/-! ### reference semantics of rasterio (validated on every run) -/

/-- members of `rasterio.warp.Resampling` -/
def resamplingNames : List String :=
  ["nearest", "bilinear", "cubic", "cubic_spline", "lanczos", "average", "mode", "gauss", "max", "min", "med", "q1", "q3",
   "sum", "rms"]

/-- ASCII `str.lower()` (character by character; written over the character list so that it also evaluates inside proofs) -/
def lower (s : String) : String := String.ofList (s.toList.map Char.toLower)

/-- `resampling_s2rio(name)`: the member called `name.lower()`, else `ValueError` -/
def resamplingS2rio (name : String) : Option String :=
  if resamplingNames.contains (lower name) then some (lower name) else none

/-- a `rasterio.windows.Window` -/
structure Win where
  row : Nat
  col : Nat
  h : Nat
  w : Nat
  deriving DecidableEq, Repr

/-- `dst.block_windows()` of a tiled `h × w` dataset with `by × bx` blocks: row-major, edge blocks clipped -/
def blockWindows (h w bh bw : Nat) : List Win :=
  (List.range ((h + bh - 1) / bh)).flatMap fun i =>
    (List.range ((w + bw - 1) / bw)).map fun j =>
      ⟨i * bh, j * bw, min bh (h - i * bh), min bw (w - j * bw)⟩

/-- `MemoryFile(dirname=d, filename=f).name` -/
def vsimemName (d f : String) : String := "/vsimem/" ++ d ++ "/" ++ f

/-! ### the calls the module makes -/

inductive GErr where
  | valueError | assertion | osError | attributeError
  deriving DecidableEq, Repr

/-- where a dataset lives: the `k`-th anonymous `MemoryFile()` of the call, or a path / vsimem name -/
inductive Loc where
  | anon (k : Nat)
  | named (p : String)
  deriving DecidableEq, Repr

inductive Ev where
  | unlink (p : String)                               -- `check_write_path` removed the existing destination
  | warnBlock                                         -- "Block size must be a multiple of 16, will be adjusted"
  | envEnter (opts : Dict)                            -- `with rasterio.Env(**opts):`
  | envExit
  | openW (loc : Loc) (opts : Dict)                   -- `mem.open(driver="GTiff", **opts)` / `rasterio.open(path, "w", driver="GTiff", **opts)`
  | write (shape : List Nat) (bands : Option Nat) (win : Option Win)
                                                      -- `dst.write(arr, band[, window=win])`; `bands = none`: `band = 1` (2-D array),
                                                      -- `some n`: `band = (1, …, n)`
  | buildOverviews (levels : List Nat) (resampling : String)
  | close
  | copy (src : Loc) (dst : Loc) (opts : Dict)         -- `rio_copy(src, dst, driver=…, copy_src_overviews=True, **opts)`
  deriving DecidableEq, Repr

inductive Ret where
  | bytesOf (loc : Loc)        -- `bytes(mem.getbuffer())`
  | path (p : String)
  | none                       -- `write_cog_layers([])`
  deriving DecidableEq, Repr

/-- events so far and how the call ended -/
abbrev Trace := List Ev × Except GErr Ret

/-- destination argument: `":mem:"` or a path (and whether a file is there now) -/
inductive Dst where
  | mem
  | path (p : String) (existsNow : Bool)
  deriving DecidableEq, Repr

/-! ### `_write_cog` -/

structure WArgs where
  shape : List Nat            -- `pix.shape`
  g : Option YX               -- `geobox.shape` (`none`: the geobox is `None`)
  dtype : String              -- `pix.dtype.name`
  isFloat : Bool              -- `pix.dtype.kind == "f"`
  dst : Dst
  nodata : V := .none
  overwrite : Bool := false
  blocksize : Option Nat := none
  resampling : Option String := none
  levels : Option (List Nat) := none
  ovrBlocksize : Option Nat := none
  windowed : Bool := false
  icomp : IComp := .flag false
  extra : Dict := []
  deriving Repr

/-- `rio_opts` of `_write_cog` -/
def rioOpts (l : Layout) (dtype : String) (isFloat : Bool) (b : Nat) (nodata : V) (extra : Dict) : Dict :=
  let base : Dict := Dict.update
    [("width", .int l.w), ("height", .int l.h), ("count", .int l.nbands), ("dtype", .str dtype),
     ("crs", .ext "crs"), ("transform", .ext "transform")]
    (defaultCogOpts b l.w l.h isFloat [])
  let withNd := if nodata = .none then base else base.set "nodata" nodata
  withNd.update extra

/-- `tmp_opts` -/
def tmpOpts (rio : Dict) (ic : IComp) : Dict := (rio.without ["compress", "predictor", "zlevel"]).update ic.norm

/-- the keys the memory copy drops from `rio_opts` (the dataset's own description comes from the temp image) -/
def datasetKeys : List String := ["width", "height", "count", "dtype", "crs", "transform", "nodata"]

/-- size of a dataset's blocks as GDAL is told (`blockysize`, `blockxsize`) and its extent -/
def dsGrid (opts : Dict) : Option (Nat × Nat × Nat × Nat) :=
  match opts.get "height", opts.get "width", opts.get "blockysize", opts.get "blockxsize" with
  | some (.int h), some (.int w), some (.int bh), some (.int bw) => some (h.toNat, w.toNat, bh.toNat, bw.toNat)
  | _, _, _, _ => none

/-- `_write(pix, band, dst)` on the normalised (band-first or 2-D) array -/
def writeEvents (l : Layout) (ndim : Nat) (windowed : Bool) (opts : Dict) : List Ev :=
  let bands : Option Nat := if ndim = 2 then none else some l.nbands
  let pre : List Nat := if ndim = 2 then [] else [l.nbands]
  if !windowed then [.write (pre ++ [l.h, l.w]) bands none]
  else match dsGrid opts with
    | none => []            -- (never: `rio_opts` always carries the four keys as ints unless the caller overrides them)
    | some (h, w, bh, bw) =>
      (blockWindows h w bh bw).map fun wn =>
        -- `pix[win.toslices()]`: numpy clips the slice to the array
        .write (pre ++ [min wn.h (l.h - wn.row), min wn.w (l.w - wn.col)]) bands (some wn)

/-- `geobox.shape` comparisons of the layout step; a missing geobox fails on attribute access -/
def layoutOf (shape : List Nat) (g : Option YX) : Except GErr Layout :=
  match g with
  | none => if shape.length = 2 ∨ shape.length = 3 then .error .attributeError else .error .valueError
  | some g =>
    match normLayout shape g with
    | .ok l => .ok l
    | .error .valueError => .error .valueError
    | .error .assertion => .error .assertion

/-- keywords of `mem.open(driver="GTiff", **opts)` -/
def memOpenKw (opts : Dict) : Dict := ("driver", V.str "GTiff") :: opts

/-- keywords of `rasterio.open(path, mode="w", driver="GTiff", **opts)` -/
def pathOpenKw (opts : Dict) : Dict := ("mode", V.str "w") :: ("driver", V.str "GTiff") :: opts

/-- keywords of `rio_copy(src, dst, driver="GTiff", copy_src_overviews=True, **opts)` -/
def copyKw (opts : Dict) : Dict := ("driver", V.str "GTiff") :: ("copy_src_overviews", V.bool true) :: opts

/-- `_write_cog`; `k0` = number of anonymous memory files created before (naming only) -/
def writeCogFrom (k0 : Nat) (a : WArgs) : Trace :=
  let b := a.blocksize.getD 512                    -- `if blocksize is None: blocksize = 512`
  let ob := a.ovrBlocksize.getD b                  -- `if ovr_blocksize is None: ovr_blocksize = blocksize`
  let rs := a.resampling.getD "nearest"
  match layoutOf a.shape a.g with
  | .error e => ([], .error e)
  | .ok l =>
    let levels := levelsFor a.levels l.w l.h
    -- check_write_path
    let guard : List Ev × Bool := match a.dst with
      | .mem => ([], false)
      | .path p ex => if ex then (if a.overwrite then ([.unlink p], false) else ([], true)) else ([], false)
    if guard.2 then ([], .error .osError) else
    match resamplingS2rio rs with
    | none => (guard.1, .error .valueError)
    | some rsName =>
      let warn : List Ev := if b % 16 != 0 then [.warnBlock] else []
      let rio := rioOpts l a.dtype a.isFloat b a.nodata a.extra
      let ndim := a.shape.length
      if levels.length = 0 then
        match a.dst with
        | .mem =>
          (guard.1 ++ warn ++ [.openW (.anon k0) (memOpenKw rio)] ++ writeEvents l ndim a.windowed rio ++ [.close], .ok (.bytesOf (.anon k0)))
        | .path p _ =>
          (guard.1 ++ warn ++ [.openW (.named p) (pathOpenKw rio)] ++ writeEvents l ndim a.windowed rio ++ [.close], .ok (.path p))
      else
        let tmp := tmpOpts rio a.icomp
        let head := guard.1 ++ warn ++ [.envEnter [("GDAL_TIFF_OVR_BLOCKSIZE", .int ob)], .openW (.anon k0) (memOpenKw tmp)] ++
          writeEvents l ndim a.windowed tmp ++ [.buildOverviews levels rsName]
        match a.dst with
        | .mem =>
          (head ++ [.copy (.anon k0) (.anon (k0 + 1)) (copyKw (rio.without datasetKeys)), .close, .envExit], .ok (.bytesOf (.anon (k0 + 1))))
        | .path p _ =>
          (head ++ [.copy (.anon k0) (.named p) (copyKw rio), .close, .envExit], .ok (.path p))

def writeCog (a : WArgs) : Trace := writeCogFrom 0 a

/-- `_write_cog` handed a `GCPGeoBox` (what `.odc.geobox` is for an array registered by ground control points): the class has
`shape` and `crs` but NO `transform` attribute.  Everything up to the construction of `rio_opts` happens as usual — layout test,
default levels, the overwrite guard (an existing destination may be REMOVED), the resampling check, the block-size warning —
then `"transform": geobox.transform` raises `AttributeError`; GDAL is never called (no gcps are handed over either). -/
def writeCogGcp (a : WArgs) : Trace :=
  match layoutOf a.shape a.g with
  | .error e => ([], .error e)
  | .ok _ =>
    let guard : List Ev × Bool := match a.dst with
      | .mem => ([], false)
      | .path p ex => if ex then (if a.overwrite then ([.unlink p], false) else ([], true)) else ([], false)
    if guard.2 then ([], .error .osError) else
    match resamplingS2rio (a.resampling.getD "nearest") with
    | none => (guard.1, .error .valueError)
    | some _ => (guard.1 ++ (if a.blocksize.getD 512 % 16 != 0 then [.warnBlock] else []), .error .attributeError)

/-! ### `_memfiles_ovr`, `write_cog_layers` -/

/-- `tt.split("-", 1)` then `fname + ".tif"` -/
def splitUuid (tt : String) : String × String :=
  match tt.splitOn "-" with
  | d :: rest => (d, "-".intercalate rest ++ ".tif")
  | [] => (tt, ".tif")

/-- names of the `n` memory files: `filename=fname + ".ovr" * i` -/
def memfilesOvr (tt : String) (n : Nat) : List String :=
  let (d, f) := splitUuid tt
  (List.range n).map fun i => vsimemName d (f ++ String.join (List.replicate i ".ovr"))

/-- one layer as `write_cog_layers` reads it -/
structure Layer where
  shape : List Nat            -- `img.data.shape`
  g : Option YX               -- `img.odc.geobox.shape`
  dtype : String
  isFloat : Bool
  attrsNodata : V := .none    -- `img.attrs.get("nodata", None)`
  deriving Repr

structure LArgs where
  layers : List Layer
  dst : Dst
  overwrite : Bool := false
  blocksize : Option Nat := none
  ovrBlocksize : Option Nat := none
  icomp : IComp := .flag false
  windowed : Bool := false
  extra : Dict := []
  uuid : String := "d-f"
  deriving Repr

/-- `first_pass_cfg` -/
def firstPassCfg (b : Nat) (rio : Dict) (windowed : Bool) (ic : IComp) : Dict :=
  Dict.update
    [("num_threads", .str "ALL_CPUS"), ("blocksize", .int b), ("nodata", rio.getNone "nodata"),
     ("use_windowed_writes", .bool windowed)] ic.norm

/-- `_write_cog(img.data, img.odc.geobox, m.name, overview_levels=[], **first_pass_cfg)`: which keywords bind to named
parameters, which fall into `**extra_rio_opts` -/
def layerArgs (cfg : Dict) (ly : Layer) (name : String) : WArgs :=
  { shape := ly.shape, g := ly.g, dtype := ly.dtype, isFloat := ly.isFloat,
    dst := .path name false,            -- a vsimem name is not ":mem:" → `check_write_path` looks at the real file system
    nodata := cfg.getNone "nodata",
    blocksize := match cfg.get "blocksize" with | some (.int b) => some b.toNat | _ => none,
    levels := some [],
    windowed := cfg.getNone "use_windowed_writes" = .bool true,
    extra := cfg.without ["blocksize", "nodata", "use_windowed_writes"] }

/-- the loop over `zip(xx, mm)`; stops at the first failing layer -/
def layerLoop (cfg : Dict) : List (Layer × String) → Trace
  | [] => ([], .ok .none)
  | (ly, name) :: rest =>
    match writeCogFrom 0 (layerArgs cfg ly name) with
    | (evs, .error e) => (evs, .error e)
    | (evs, .ok _) =>
      let (evs', r) := layerLoop cfg rest
      (evs ++ evs', r)

/-- `if extra_rio_opts.get("nodata", None) is None: extra_rio_opts.pop("nodata", None)` (fix 4344a79: an explicit
`nodata=None` means "not given", as in `write_cog`); `repaired = false`: the code as found, which kept the `None` -/
def layersExtra (repaired : Bool) (extra : Dict) : Dict :=
  if repaired && extra.getNone "nodata" = .none then extra.without ["nodata"] else extra

/-- `write_cog_layers`; `repaired = false` is the code before 4344a79 (kept for the as-found witness only) -/
def writeCogLayersWith (repaired : Bool) (a : LArgs) : Trace :=
  match a.layers with
  | [] => ([], .ok .none)
  | first :: _ =>
    let guard : List Ev × Bool := match a.dst with
      | .mem => ([], false)
      | .path p ex => if ex then (if a.overwrite then ([.unlink p], false) else ([], true)) else ([], false)
    if guard.2 then ([], .error .osError) else
    let b := a.blocksize.getD 512
    let ob := a.ovrBlocksize.getD b
    match first.g with
    | none => (guard.1, .error .attributeError)        -- `gbox.shape` of `None`
    | some g =>
      let rio := (defaultCogOpts b g.x g.y first.isFloat [("nodata", first.attrsNodata)]).update (layersExtra repaired a.extra)
      let cfg := firstPassCfg b rio a.windowed a.icomp
      let names := memfilesOvr a.uuid a.layers.length
      match layerLoop cfg (a.layers.zip names) with
      | (evs, .error e) => (guard.1 ++ evs, .error e)
      | (evs, .ok _) =>
        let env : Dict := [("GDAL_TIFF_OVR_BLOCKSIZE", .int ob), ("GDAL_DISABLE_READDIR_ON_OPEN", .bool false),
          ("NUM_THREADS", .str "ALL_CPUS"), ("GDAL_NUM_THREADS", .str "ALL_CPUS")]
        let src := Loc.named (names.headD "")
        match a.dst with
        | .mem => (guard.1 ++ evs ++ [.envEnter env, .copy src (.anon 0) (("copy_src_overviews", V.bool true) :: rio), .envExit], .ok (.bytesOf (.anon 0)))
        | .path p _ => (guard.1 ++ evs ++ [.envEnter env, .copy src (.named p) (("copy_src_overviews", V.bool true) :: rio), .envExit], .ok (.path p))

/-- `write_cog_layers` as it is on HEAD -/
def writeCogLayers (a : LArgs) : Trace := writeCogLayersWith true a

/-! ### `intermediate_compression` dicts that carry NAMED parameters of `_write_cog`

`first_pass_cfg` is spread into the call `_write_cog(img.data, gbox, name, overview_levels=[], **first_pass_cfg)`: besides
`blocksize` / `nodata` / `use_windowed_writes` (handled by `layerArgs`) the keys `overwrite`, `ovr_blocksize` and
`overview_resampling` also bind to parameters instead of becoming creation options.  (`overview_levels`, `pix`, `geobox`, `fname`
would be a duplicate keyword: `TypeError`, pinned by the harness, outside the model.) -/

/-- the named parameters beyond `layerArgs` -/
def namedFirstPassKeys : List String := ["overwrite", "ovr_blocksize", "overview_resampling"]

def layerArgsFull (cfg : Dict) (ly : Layer) (name : String) : WArgs :=
  let base := layerArgs cfg ly name
  { base with
    overwrite := cfg.getNone "overwrite" = .bool true,
    ovrBlocksize := match cfg.get "ovr_blocksize" with | some (.int b) => some b.toNat | _ => none,
    resampling := match cfg.get "overview_resampling" with | some (.str r) => some r | _ => none,
    extra := base.extra.without namedFirstPassKeys }

def layerLoopFull (cfg : Dict) : List (Layer × String) → Trace
  | [] => ([], .ok .none)
  | (ly, name) :: rest =>
    match writeCogFrom 0 (layerArgsFull cfg ly name) with
    | (evs, .error e) => (evs, .error e)
    | (evs, .ok _) =>
      let (evs', r) := layerLoopFull cfg rest
      (evs ++ evs', r)

/-- `write_cog_layers` with the full keyword binding of the first pass -/
def writeCogLayersFull (a : LArgs) : Trace :=
  match a.layers with
  | [] => ([], .ok .none)
  | first :: _ =>
    let guard : List Ev × Bool := match a.dst with
      | .mem => ([], false)
      | .path p ex => if ex then (if a.overwrite then ([.unlink p], false) else ([], true)) else ([], false)
    if guard.2 then ([], .error .osError) else
    let b := a.blocksize.getD 512
    let ob := a.ovrBlocksize.getD b
    match first.g with
    | none => (guard.1, .error .attributeError)
    | some g =>
      let rio := (defaultCogOpts b g.x g.y first.isFloat [("nodata", first.attrsNodata)]).update (layersExtra true a.extra)
      let cfg := firstPassCfg b rio a.windowed a.icomp
      let names := memfilesOvr a.uuid a.layers.length
      match layerLoopFull cfg (a.layers.zip names) with
      | (evs, .error e) => (guard.1 ++ evs, .error e)
      | (evs, .ok _) =>
        let env : Dict := [("GDAL_TIFF_OVR_BLOCKSIZE", .int ob), ("GDAL_DISABLE_READDIR_ON_OPEN", .bool false),
          ("NUM_THREADS", .str "ALL_CPUS"), ("GDAL_NUM_THREADS", .str "ALL_CPUS")]
        let src := Loc.named (names.headD "")
        match a.dst with
        | .mem => (guard.1 ++ evs ++ [.envEnter env, .copy src (.anon 0) (("copy_src_overviews", V.bool true) :: rio), .envExit], .ok (.bytesOf (.anon 0)))
        | .path p _ => (guard.1 ++ evs ++ [.envEnter env, .copy src (.named p) (("copy_src_overviews", V.bool true) :: rio), .envExit], .ok (.path p))

/-! ### `write_cog`, `to_cog` -/

structure CArgs where
  im : Layer
  dst : Dst
  overwrite : Bool := false
  blocksize : Option Nat := none
  ovrBlocksize : Option Nat := none
  overviews : Option (List Layer) := none
  resampling : Option String := none
  levels : Option (List Nat) := none
  windowed : Bool := false
  icomp : IComp := .flag false
  extra : Dict := []
  uuid : String := "d-f"
  deriving Repr

def writeCogEntryWith (repaired : Bool) (a : CArgs) : Trace :=
  match a.overviews with
  | some ovs =>
    -- `overview_resampling` / `overview_levels` are not forwarded; `nodata` stays inside `extra_rio_opts`
    let la : LArgs := {
      layers := a.im :: ovs, dst := a.dst, overwrite := a.overwrite, blocksize := a.blocksize,
      ovrBlocksize := a.ovrBlocksize, icomp := a.icomp, windowed := a.windowed, extra := a.extra, uuid := a.uuid }
    writeCogLayersWith repaired la
  | none =>
    let kw := a.extra.getNone "nodata"                               -- `extra_rio_opts.pop("nodata", None)`
    let nodata := if kw = .none then a.im.attrsNodata else kw        -- `if nodata is None: nodata = attrs.get("nodata")`
    match a.im.g with
    | none => ([], .error .valueError)                                -- "Need geo-registered array on input"
    | some g =>
      writeCog { shape := a.im.shape, g := some g, dtype := a.im.dtype, isFloat := a.im.isFloat, dst := a.dst,
                 nodata := nodata, overwrite := a.overwrite, blocksize := a.blocksize, resampling := a.resampling,
                 levels := a.levels, ovrBlocksize := a.ovrBlocksize, windowed := a.windowed, icomp := a.icomp,
                 extra := a.extra.without ["nodata"] }

def writeCogEntry (a : CArgs) : Trace := writeCogEntryWith true a

/-- `to_cog(geo_im, …)` = `write_cog(geo_im, ":mem:", …)` (no `overwrite`) -/
def toCog (a : CArgs) : Trace := writeCogEntry { a with dst := .mem, overwrite := false }

/-- `to_cog` over `write_cog_layers` as found before 4344a79 -/
def toCogAsFound (a : CArgs) : Trace := writeCogEntryWith false { a with dst := .mem, overwrite := false }

/-! ### what a window-by-window write leaves in the dataset -/

/-- the cell `(y, x)` of band `k` after `_write` wrote every window of `wins` from the band-first array `pix`
(`none`: never written).  Later windows overwrite earlier ones. -/
def writtenBy {α : Type} (pix : Nat → Nat → Nat → α) (wins : List Win) (k y x : Nat) : Option α :=
  wins.foldl (fun acc wn =>
    if wn.row ≤ y ∧ y < wn.row + wn.h ∧ wn.col ≤ x ∧ x < wn.col + wn.w then
      -- `block = pix[:, win.toslices()]`, written at the window: cell (i, j) of the block lands on (row + i, col + j)
      some (pix k (wn.row + (y - wn.row)) (wn.col + (x - wn.col)))
    else acc) none

/-- number of windows that contain cell `(y, x)` -/
def coverCount (wins : List Win) (y x : Nat) : Nat :=
  (wins.filter fun wn => wn.row ≤ y ∧ y < wn.row + wn.h ∧ wn.col ≤ x ∧ x < wn.col + wn.w).length

end OdcGeo.C15
