/-
Model for C14, fifth part (core Lean only):

* SIGNED ZEROS in `Bin1D` (math.py:568-637): IEEE-754 keeps a sign on zero (`-0.0`); `==`, `hash`, `Fraction` and every
  comparison cannot see it, `repr` / `copysign` / `1/x` can.  `SZ` carries a rational value plus the sign bit of a zero, with
  the round-to-nearest rules: the sign of a product is the xor of the signs, an exact zero sum is `+0` unless both terms are
  `-0`.  (Exact arithmetic: a non-zero result that underflows to zero is not modelled.)
* the valid-region pipeline of `GridSpec.geojson()` without arguments (gridspec.py:255-261):
  `crs.valid_region` (a lon/lat box from pyproj, or the whole globe) → `.buffer(-0.05)` → `.to_crs(crs, resolution=0.5)`
  (densify, then project every vertex: both are parameters) → `.boundingbox` → `tiles(...)`.
-/
import OdcGeo.Model.C14Args
namespace OdcGeo.C14

/-! ### signed zeros -/

structure SZ where
  v : Rat
  /-- sign bit of a zero; `false` by convention when `v ≠ 0` -/
  negz : Bool
  deriving DecidableEq, Repr

/-- the IEEE sign bit -/
def SZ.sgn (a : SZ) : Bool := if a.v = 0 then a.negz else decide (a.v < 0)

def SZ.ofRat (q : Rat) : SZ := ⟨q, false⟩
def SZ.negZero : SZ := ⟨0, true⟩

def SZ.mul (a b : SZ) : SZ :=
  ⟨a.v * b.v, if a.v * b.v = 0 then (a.sgn != b.sgn) else false⟩

def SZ.add (a b : SZ) : SZ :=
  ⟨a.v + b.v, if a.v + b.v = 0 then (if a.v = 0 ∧ b.v = 0 then a.negz && b.negz else false) else false⟩

def SZ.neg (a : SZ) : SZ := ⟨-a.v, if a.v = 0 then !a.negz else false⟩
def SZ.sub (a b : SZ) : SZ := a.add b.neg

/-- `x / sz` for `sz > 0`: keeps the sign of a zero -/
def SZ.divPos (a : SZ) (sz : Rat) : SZ := ⟨a.v / sz, if a.v = 0 then a.negz else false⟩

/-- `Bin1D.__getitem__(idx)[0]` with signs of zeros: `idx * self.sz * self.direction + self.origin`; an `int` index and the `int`
    direction become `+0.0` / `±1.0` -/
def Bin1D.loZ (b : Bin1D) (originNegZero : Bool) (k : SZ) : SZ :=
  ((k.mul (SZ.ofRat b.sz)).mul (SZ.ofRat (b.dir : Rat))).add ⟨b.origin, originNegZero && decide (b.origin = 0)⟩

/-- `Bin1D.__getitem__(idx)[1]`: `_x + self.sz` -/
def Bin1D.hiZ (b : Bin1D) (originNegZero : Bool) (k : SZ) : SZ := (b.loZ originNegZero k).add (SZ.ofRat b.sz)

/-- `Bin1D.bin(x)`: `floor((x - origin) / sz)` — `floor(-0.0)` is the int `0` -/
def Bin1D.binZ (b : Bin1D) (originNegZero : Bool) (x : SZ) : Int :=
  b.dir * ((x.sub ⟨b.origin, originNegZero && decide (b.origin = 0)⟩).divPos b.sz).v.floor

/-! ### `geojson()` without arguments: the valid-region pipeline -/

/-- `box(w, s, e, n).buffer(-d)` for a box wider and higher than `2d` (mitred negative buffer of a rectangle): ring in shapely's
    orientation of `geom.box`: `(e,s), (e,n), (w,n), (w,s)` shrunk by `d` -/
def shrunkBox (w s e n d : Rat) : List (Rat × Rat) :=
  [(e - d, s + d), (e - d, n - d), (w + d, n - d), (w + d, s + d)]

/-- the query box of the no-argument branch: `densify` (the `resolution=0.5` segmentation of `to_crs`) and `proj` (pyproj) are
    parameters; `valid = none`: the CRS has no area of use → the whole globe -/
def validRegionBox (proj : Rat × Rat → Rat × Rat) (densify : List (Rat × Rat) → List (Rat × Rat))
    (valid : Option (Rat × Rat × Rat × Rat)) : Option BBox :=
  let v := valid.getD (-180, -90, 180, 90)
  hullBBox (((densify (shrunkBox v.1 v.2.1 v.2.2.1 v.2.2.2 (1 / 20))).map proj).map (fun p => ⟨p.1, p.2, p.1, p.2⟩))

/-- `GridSpec.geojson()`: the tiles of that box (an empty / non-finite projection gives NaN bounds → `ValueError`) -/
def GridSpec.geojsonDefault (fl : Rnd) (tol : Rat) (g : GridSpec) (proj : Rat × Rat → Rat × Rat)
    (densify : List (Rat × Rat) → List (Rat × Rat)) (valid : Option (Rat × Rat × Rat × Rat)) : Res GeoJsonDoc :=
  match validRegionBox proj densify valid with
  | none => .error .valueError
  | some q => .ok (g.geojson fl tol none none q)

end OdcGeo.C14
