/-
Model for C16, growth round 2 (core Lean only, no Mathlib): the glue between the modelled core of
`Model/C16.lean` and the public entry points.

  odc/geo/geobox.py  `GeoBox.enclosing` entry (dispatch on the region type, `region.polygon`,
                     `region.crs is None`), `GeoBoxBase.project` (both directions, `to_crs` as an
                     abstract point map), `GeoBoxBase.boundingbox`, the argument forms of
                     `geobox_union_conservative` / `geobox_intersection_conservative` (list, tuple)
  odc/geo/geom.py    `box`, `BoundingBox.polygon`, `BoundingBox.__eq__/__len__/__getitem__/__iter__/
                     points/aspect/range_x/range_y`
  odc/geo/math.py    `split_translation`, the non-finite branches of `split_float` / `is_almost_int`
-/
import OdcGeo.Model.C16
namespace OdcGeo.C16

abbrev Pt := Rat × Rat

/-! ### `GeoBoxBase.boundingbox` (geobox.py:223-226) -/

/-- `BoundingBox.from_transform(self._shape, self._affine, crs=self._crs)` -/
def GeoBox.boundingbox (g : GeoBox) : BBox Rat := BBox.fromTransform g.ny g.nx g.aff g.crs

/-- `GeoBoxBase.extent` of a linear GeoBox = `polygon_from_transform(shape, affine, crs)`
(geom.py:1228-1243): the closed ring through the images of `(0,0), (0,ny), (nx,ny), (nx,0), (0,0)`;
first vertex and the rest -/
def GeoBox.extentHead (g : GeoBox) : Pt := g.aff.apply (0, 0)
def GeoBox.extentTail (g : GeoBox) : List Pt :=
  [g.aff.apply (0, (g.ny : Rat)), g.aff.apply ((g.nx : Rat), (g.ny : Rat)), g.aff.apply ((g.nx : Rat), 0),
   g.aff.apply (0, 0)]

/-! ### regions: what `enclosing` / `project` accept -/

/-- `box(left, bottom, right, top, crs)` (geom.py:1209-1225): the closed ring behind
`BoundingBox.polygon`, first vertex and the rest -/
def BBox.ringHead (bb : BBox Rat) : Pt := (bb.left, bb.bottom)
def BBox.ringTail (bb : BBox Rat) : List Pt :=
  [(bb.left, bb.top), (bb.right, bb.top), (bb.right, bb.bottom), (bb.left, bb.bottom)]

/-- A region: a `BoundingBox`, or a `Geometry` given by its CRS and its (non-empty) coordinate
sequence in shapely's order (`shapely.get_coordinates`). -/
inductive Region where
  | bbox (bb : BBox Rat)
  | geom (crs : Option Nat) (p : Pt) (ps : List Pt)
  deriving Repr

/-- `if isinstance(region, BoundingBox): region = region.polygon` — CRS and coordinates -/
def Region.crs : Region → Option Nat
  | .bbox bb => bb.crs
  | .geom c _ _ => c
def Region.head : Region → Pt
  | .bbox bb => bb.ringHead
  | .geom _ p _ => p
def Region.tail : Region → List Pt
  | .bbox bb => bb.ringTail
  | .geom _ _ ps => ps

/-- `Geometry.to_crs`: pyproj is an abstract map of points, indexed by source and destination CRS
(trusted; the harness supplies the table of the points actually re-projected). -/
abbrev Reproj := Option Nat → Option Nat → Pt → Pt

/-- `GeoBoxBase.project(g)` (geobox.py:384-402) on the coordinate sequence `p :: ps` of `g`.
* `g.crs is None`: pixel plane → world (`pix2wld`), result carries the CRS of the GeoBox;
* otherwise `assert self._crs is not None`, `to_crs` only when the CRSs differ, then `wld2pix`
  (`~affine` raises for a degenerate grid), result has no CRS. -/
def GeoBox.project (g : GeoBox) (reproj : Reproj) (crs : Option Nat) (p : Pt) (ps : List Pt) :
    Res (Option Nat × Pt × List Pt) :=
  if crs = none then .ok (g.crs, g.aff.apply p, ps.map g.aff.apply)
  else if g.crs = none then .error .assertion
  else
    let f : Pt → Pt := if crs = g.crs then fun q => q else reproj crs g.crs
    match g.aff.inv? with
    | .error e => .error e
    | .ok w2p => .ok (none, w2p.apply (f p), ps.map (fun q => w2p.apply (f q)))

/-- `GeoBox.enclosing(region)` (geobox.py:686-706), the public entry point: dispatch on the region
type, the CRS guard, `project`, `Geometry.boundingbox` (shapely bounds of the coordinates),
`round`, `max(1, int(span))`, `translate_pix`. -/
def GeoBox.enclosingRegion (g : GeoBox) (reproj : Reproj) (r : Region) : Res GeoBox :=
  if r.crs = none then .error .valueError
  else match g.project reproj r.crs r.head r.tail with
    | .error e => .error e
    | .ok (_, q, qs) =>
      let pix := (bboxOfPoints q qs none).round
      let nx := max 1 (pix.right - pix.left)      -- `int(span)` of Python ints
      let ny := max 1 (pix.top - pix.bottom)
      .ok ⟨ny, nx, (g.translatePix pix.left pix.bottom).aff, g.crs⟩

/-! ### `BoundingBox` as a value / sequence (geom.py:41-133) -/

/-- `BoundingBox.__eq__(other)` for another `BoundingBox`: same CRS and same 4-tuple -/
def BBox.eqBB {α : Type} [DecidableEq α] (a b : BBox α) : Bool :=
  decide (a.crs = b.crs) && decide ((a.left, a.bottom, a.right, a.top) = (b.left, b.bottom, b.right, b.top))

/-- `BoundingBox.__eq__(other)` for a plain tuple: `self._box == other` (any length; the CRS is
not consulted) -/
def BBox.eqTuple {α : Type} [DecidableEq α] (a : BBox α) (t : List α) : Bool :=
  decide (t = [a.left, a.bottom, a.right, a.top])

/-- `__len__` -/
def BBox.len {α : Type} (_ : BBox α) : Nat := 4

/-- `__iter__` / `.bbox` -/
def BBox.toList {α : Type} (a : BBox α) : List α := [a.left, a.bottom, a.right, a.top]

/-- `__getitem__(i)` for an integer index: tuple indexing, negative indices wrap once -/
def BBox.getItem {α : Type} (a : BBox α) (i : Int) : Res α :=
  let j := if i < 0 then i + 4 else i
  if j = 0 then .ok a.left else if j = 1 then .ok a.bottom else if j = 2 then .ok a.right
  else if j = 3 then .ok a.top else .error .indexError

/-- `aspect = span_x / span_y` (float division: `ZeroDivisionError` for a zero `span_y`) -/
def BBox.aspect (a : BBox Rat) : Res Rat :=
  if a.spanY = 0 then .error .zeroDiv else .ok (a.spanX / a.spanY)

def BBox.rangeX (a : BBox Rat) : Rat × Rat := (a.left, a.right)
def BBox.rangeY (a : BBox Rat) : Rat × Rat := (a.bottom, a.top)

/-! ### math.py: `split_translation`, non-finite branches -/

/-- `split_translation(t)` (math.py:320-337): `(whole, part)` per axis -/
def splitTranslation (t : Rat × Rat) : (Rat × Rat) × (Rat × Rat) :=
  (((splitFloat t.1).1, (splitFloat t.2).1), ((splitFloat t.1).2, (splitFloat t.2).2))

/-- `split_float(x)` on any double: `if not isfinite(x): return (x, 0)` -/
def splitFloatF : PyF → PyF × PyF
  | .fin q => (.fin (splitFloat q).1, .fin (splitFloat q).2)
  | x => (x, .fin 0)

/-- `is_almost_int(x, tol)` on any double: `if not isfinite(x): return False` -/
def isAlmostIntF : PyF → Rat → Bool
  | .fin q, tol => isAlmostInt q tol
  | _, _ => false

/-- `maybe_zero(x, tol)` on any double: `abs(nan) < tol` is false, `abs(±inf) < tol` is false -/
def maybeZeroF : PyF → Rat → PyF
  | .fin q, tol => .fin (maybeZero q tol)
  | x, _ => x

/-! ### the argument forms of the n-ary operations (geobox.py:1162-1216)

`len(geoboxes)` and `reference, *_ = geoboxes` need a sized sequence: a list or a tuple is taken as it
is (the documented argument type is `List[GeoBox]`; other iterables are outside the model). -/

inductive SeqForm where
  | list | tuple
  deriving DecidableEq, Repr

def geoboxUnionForm (_form : SeqForm) (gs : List GeoBox) : Res GeoBox := geoboxUnionConservative gs
def geoboxIntersectionForm (_form : SeqForm) (gs : List GeoBox) : Res GeoBox := geoboxIntersectionConservative gs

/-! ## growth round 3 -/

/-! ### empty geometries in `project` / `enclosing`

shapely never calls the point map for an empty geometry, so `~affine` is not evaluated (a degenerate
grid goes unnoticed) and `to_crs` has nothing to do; `Geometry.boundingbox` of an empty geometry is
`(nan, nan, nan, nan)` and `math.floor(nan)` in `BoundingBox.round` raises `ValueError`. -/

/-- `GeoBoxBase.project(g)` for any coordinate sequence, the empty one included -/
def GeoBox.projectL (g : GeoBox) (reproj : Reproj) (crs : Option Nat) : List Pt → Res (Option Nat × List Pt)
  | [] => if crs = none then .ok (g.crs, []) else if g.crs = none then .error .assertion else .ok (none, [])
  | p :: ps => match g.project reproj crs p ps with
    | .error e => .error e
    | .ok (c, q, qs) => .ok (c, q :: qs)

/-- `GeoBox.enclosing(geometry)` for any coordinate sequence, the empty one included -/
def GeoBox.enclosingGeomL (g : GeoBox) (reproj : Reproj) (crs : Option Nat) : List Pt → Res GeoBox
  | [] => if crs = none then .error .valueError else if g.crs = none then .error .assertion
          else .error .valueError                    -- `math.floor(nan)`
  | p :: ps => g.enclosingRegion reproj (.geom crs p ps)

/-! ### `BoundingBox.to_crs` (geom.py:211-215) and `BoundingBox.boundary` (geom.py:308-322) -/

/-- `BoundingBox.to_crs(crs)` = `self.polygon.to_crs(crs).boundingbox`: `Geometry.to_crs` returns the
polygon itself for an equal CRS, refuses a polygon without CRS (`ValueError`), otherwise maps the ring
point by point (pyproj = `reproj`); the result is the shapely bounds of the ring — so an inverted box
comes back sorted even when nothing is re-projected. -/
def BBox.toCrs (bb : BBox Rat) (reproj : Reproj) (dst : Nat) : Res (BBox Rat) :=
  if bb.crs = some dst then .ok (bboxOfPoints bb.ringHead bb.ringTail (some dst))
  else if bb.crs = none then .error .valueError
  else .ok (bboxOfPoints (reproj bb.crs (some dst) bb.ringHead) (bb.ringTail.map (reproj bb.crs (some dst))) (some dst))

/-- `numpy.linspace(a, b, n)` (exact; the code rounds to float32 afterwards) -/
def linspaceQ (a b : Rat) (n : Nat) : List Rat :=
  if n = 1 then [a]
  else (List.range n).map (fun (i : Nat) => a + (i : Rat) * ((b - a) / ((n : Rat) - 1)))

/-- `edge_index((n, n), closed=True)` as `(ix, iy)` pairs: top row, right column, bottom row backwards,
left column upwards, back to `(0, 0)` -/
def edgeIndexClosed (n : Nat) : List (Nat × Nat) :=
  (List.range n).map (fun i => (i, 0)) ++
  (List.range (n - 1)).map (fun j => (n - 1, j + 1)) ++
  (List.range (n - 1)).reverse.map (fun i => (i, n - 1)) ++
  (List.range (n - 2)).reverse.map (fun j => (0, j + 1)) ++ [(0, 0)]

/-- `BoundingBox.boundary(pts_per_side)`: `xx[ix], yy[iy]` along the closed edge walk; indexing an
empty `linspace` (`pts_per_side = 0`) is an `IndexError` -/
def BBox.boundary (bb : BBox Rat) (n : Nat) : Res (List Pt) :=
  let xs := linspaceQ bb.left bb.right n
  let ys := linspaceQ bb.bottom bb.top n
  (edgeIndexClosed n).mapM (fun ij => match xs[ij.1]?, ys[ij.2]? with
    | some x, some y => .ok (x, y)
    | _, _ => .error .indexError)

/-! ### non-linear (GCP) GeoBoxes as operands of the set operations

`GCPGeoBox` has no `.affine` and defines none of `|`, `&`, `overlap_roi`, `snap_to`, `enclosing`: every
set operation with a non-linear operand on either side is refused with an exception —
nothing is approximated through `GCPGeoBox.approx` behind the caller's back. -/

inductive Operand where
  | linear (g : GeoBox)
  | nonlinear                      -- a GCPGeoBox
  deriving Repr

/-- outcome of an operation: refused with an exception before any result exists (which exception —
`AttributeError`, `TypeError`, or the `ValueError` of a CRS test that happens to come first — depends on
the order of internal steps and is not modelled), or the modelled result -/
inductive SetOut (α : Type) where
  | refused
  | res (r : Res α)

def Operand.or : Operand → Operand → SetOut GeoBox
  | .linear a, .linear b => .res (a.or b)
  | _, _ => .refused
def Operand.and : Operand → Operand → SetOut GeoBox
  | .linear a, .linear b => .res (a.and b)
  | _, _ => .refused
def Operand.overlapRoi : Operand → Operand → Rat → SetOut Roi
  | .linear a, .linear b, tol => .res (a.overlapRoi b tol)
  | _, _, _ => .refused
def Operand.snapTo : Operand → Operand → SetOut GeoBox
  | .linear a, .linear b => .res (a.snapTo b)
  | _, _ => .refused

/-! ## final increment: `BoundingBox.map_bounds` / `aoi` dispatch (geom.py:193-204, 295-301)

`ll` is the tag of `EPSG:4326`; pyproj is `reproj`. -/

/-- `map_bounds()`: `((lat, lon), (lat, lon))` of the south-west and north-east corners; without CRS or
already in lon/lat the box is read as it is, otherwise vertices 0 and 2 of the re-projected ring
(`(left, bottom)` and `(right, top)`) are used -/
def BBox.mapBounds (bb : BBox Rat) (reproj : Reproj) (ll : Nat) : (Rat × Rat) × (Rat × Rat) :=
  if bb.crs = some ll ∨ bb.crs = none then ((bb.bottom, bb.left), (bb.top, bb.right))
  else
    let p0 := reproj bb.crs (some ll) (bb.left, bb.bottom)
    let p2 := reproj bb.crs (some ll) (bb.right, bb.top)
    ((p0.2, p0.1), (p2.2, p2.1))

/-- `aoi`: `AreaOfInterest(west, south, east, north)`: the box itself without CRS or in lon/lat, else
`to_crs("epsg:4326").bbox` -/
def BBox.aoi (bb : BBox Rat) (reproj : Reproj) (ll : Nat) : Res (Rat × Rat × Rat × Rat) :=
  if bb.crs = none ∨ bb.crs = some ll then .ok (bb.left, bb.bottom, bb.right, bb.top)
  else match bb.toCrs reproj ll with
    | .error e => .error e
    | .ok o => .ok (o.left, o.bottom, o.right, o.top)

/-! ### `GCPGeoBox.project` (gcp.py:178-185 under geobox.py:384-402)

The inherited `project` with the non-linear point maps: `pix2wld = p2w ∘ affine`, `wld2pix = ~affine ∘ w2p`
(`P = p2w`, `Q = w2p` of the shared `GCPMapping`, abstract). -/
def gcpProject (g : GeoBox) (P Q : Pt → Pt) (reproj : Reproj) (crs : Option Nat) (p : Pt) (ps : List Pt) :
    Res (Option Nat × Pt × List Pt) :=
  if crs = none then .ok (g.crs, P (g.aff.apply p), ps.map (fun q => P (g.aff.apply q)))
  else if g.crs = none then .error .assertion
  else
    let f : Pt → Pt := if crs = g.crs then fun q => q else reproj crs g.crs
    match g.aff.inv? with
    | .error e => .error e
    | .ok w2p => .ok (none, w2p.apply (Q (f p)), ps.map (fun q => w2p.apply (Q (f q))))


end OdcGeo.C16
