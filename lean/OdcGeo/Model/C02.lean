/-
Model of the `GeoBox` views of `odc/geo/geobox.py` (core Lean only, no Mathlib).

A `GeoBox` is the triple `(shape = (ny, nx), affine, crs)` (geobox.py:104-123); every view
below is a function of that triple only, exactly as in the code.  Reals are `Rat`
(DESIGN §3.1), Python ints are `Int`.  Pixel / world points are `(x, y)` pairs, `x` = column.
The CRS is an opaque tag (`0` = `None`); CRS *comparison* belongs to C01, here only
"the view carries the tag of its parent" is observed.

The model follows the code *after* the `fix:` commits of branch `fix-C02`
(zoom_to(int) shape, `gbox[-1]`, `BoundingBox.from_transform` for rotated grids; the fourth,
`GCPGeoBox.boundingbox`, concerns the abstract GCP mapping and is judged by the harness only).
The pre-fix behaviour is kept as `…Old` definitions in `Props/C02.lean` only to prove the
concrete counterexamples.

The dispatch of the public entry points on the kind of their arguments (shape / resolution spellings,
index objects incl. stepped slices and regions, `enclosing`, `project`, `GCPGeoBox.to_crs`, …) is
`Model/C02Glue.lean`.  Not modelled (other properties): `GeoBox.to_crs`, `snap_to`, `|`, `&`.
-/
import OdcGeo.Model.IO
import OdcGeo.Model.Affine
import OdcGeo.Model.C17
namespace OdcGeo.C02
open OdcGeo.C17 (PIdx NSlice normSlice)

structure GeoBox where
  ny : Int
  nx : Int
  A : Aff
  crs : Nat
  deriving DecidableEq, Repr

abbrev Pt := Rat × Rat

/-! ### constants: exact values of the Python doubles used as tolerances -/

/-- `1e-10` (`is_affine_st(A, tol=1e-10)`, math.py:340) -/
def tolST : Rat := mkRat 7737125245533627 77371252455336267181195264
/-- `0.01` (`GeoBox.from_bbox(..., tol=0.01)`, geobox.py:504) -/
def tolSnap : Rat := mkRat 5764607523034235 576460752303423488
/-- `0.1` (`_round_to_res`, geobox.py:1246) -/
def tenth : Rat := mkRat 3602879701896397 36028797018963968

def rabs (x : Rat) : Rat := if x < 0 then -x else x

/-! ### `pix2wld`, `wld2pix` (geobox.py:201-205) -/

def pix2wld (g : GeoBox) (p : Pt) : Pt := g.A.apply p

/-- `(~A) * (x, y)`; `~A` raises `TransformNotInvertibleError` when `det = 0`
(reported as `valueError`). -/
def wld2pix (g : GeoBox) (w : Pt) : Res Pt := do
  let Ai ← g.A.inv?
  pure (Ai.apply w)

/-! ### footprint and bounding box (geom.py:276-288, 1218-1233) -/

/-- pixel-space corners in the order of `polygon_from_transform` -/
def corners (g : GeoBox) : List Pt :=
  [(0, 0), (0, (g.ny : Rat)), ((g.nx : Rat), (g.ny : Rat)), ((g.nx : Rat), 0)]

/-- `polygon_from_transform(shape, A)` : closed exterior ring -/
def extent (g : GeoBox) : List Pt := (corners g ++ [(0, 0)]).map g.A.apply

structure BBox where
  left : Rat
  bottom : Rat
  right : Rat
  top : Rat
  deriving DecidableEq, Repr

def min4 (a b c d : Rat) : Rat := min (min a b) (min c d)
def max4 (a b c d : Rat) : Rat := max (max a b) (max c d)

/-- `BoundingBox.from_transform(shape, A)` (as repaired: hull of the four corner images) -/
def boundingbox (g : GeoBox) : BBox :=
  let p0 := g.A.apply (0, 0)
  let p1 := g.A.apply (0, (g.ny : Rat))
  let p2 := g.A.apply ((g.nx : Rat), (g.ny : Rat))
  let p3 := g.A.apply ((g.nx : Rat), 0)
  ⟨min4 p0.1 p1.1 p2.1 p3.1, min4 p0.2 p1.2 p2.2 p3.2,
   max4 p0.1 p1.1 p2.1 p3.1, max4 p0.2 p1.2 p2.2 p3.2⟩

/-! ### `is_affine_st`, `coordinates`, `resolution` (math.py:340-349, 494-505; geobox.py:753-780) -/

def isAffineST (A : Aff) : Bool := decide (rabs A.b < tolST) && decide (rabs A.d < tolST)

/-- `numpy.arange(n) * r + (t + r/2)` -/
def labels (n : Int) (r t : Rat) : List Rat :=
  (List.range n.toNat).map (fun (i : Nat) => (i : Rat) * r + (t + r / 2))

/-- `GeoBox.coordinates` → `(ys, xs)`; `ValueError` unless axis aligned. -/
def coordinates (g : GeoBox) : Res (List Rat × List Rat) :=
  if isAffineST g.A then .ok (labels g.ny g.A.e g.A.f, labels g.nx g.A.a g.A.c)
  else .error .valueError

/-- `resolution_from_affine(A)` → `(rx, ry)`.

Rotated / sheared branch: `decompose_rws` takes `WS = cholesky(AᵀA)ᵀ =
[[n, w], [0, m]]` with `n = √(a²+d²)`, `w = (ab+de)/n`, `m = √(b²+e²-w²)`, flips the
sign of the last row when `det (A·WS⁻¹) < 0` and returns the diagonal.  The two square
roots are inputs (`n`, `m`) whose defining equations are hypotheses of the theorems
(DESIGN §3.1); cholesky raises `LinAlgError` (a `ValueError`) for a singular matrix in exact
arithmetic (in doubles a singular rotated matrix may slip through by rounding: not on the
exact stream). -/
def resolution (g : GeoBox) (n m : Rat) : Res (Rat × Rat) :=
  if isAffineST g.A then .ok (g.A.a, g.A.e)
  else if g.A.det = 0 then .error .valueError
  else .ok (n, if g.A.det / (n * m) < 0 then -m else m)

/-! ### cropping: `compute_crop`, `__getitem__` (geobox.py:305-339, 708-710) -/

/-- index expression given to `gbox[...]`: a bare int / slice, or a 2-tuple -/
inductive Roi where
  | one (s : PIdx)
  | two (sy sx : PIdx)
  deriving DecidableEq, Repr

/-- `gbox[roi]`.  A bare int `k` or slice `s` becomes `(k, :)` / `(s, :)`; then
`roi_normalise` (per axis `_norm_slice`), `ty, tx = starts`, `ny, nx = roi_shape` and
`A * translation(tx, ty)`.  No clamping to the parent shape is done by the code. -/
def crop (g : GeoBox) (roi : Roi) : GeoBox :=
  let (sy, sx) := match roi with
    | .one s => (s, PIdx.slc none none)
    | .two a b => (a, b)
  let ry := normSlice sy g.ny
  let rx := normSlice sx g.nx
  ⟨ry.stop - ry.start, rx.stop - rx.start,
   g.A * Aff.translation (rx.start : Rat) (ry.start : Rat), g.crs⟩

/-! ### cropping by a region: `compute_crop` with a Geometry / BoundingBox / GeoBox (geobox.py:306-319)

The region is given by its vertices (`BoundingBox` → its four corners, `GeoBox` → its `extent`).
A region with a CRS is projected into the pixel plane (`wld2pix` on every vertex; only the
same-CRS case is modelled, reprojection belongs to C07); a region without CRS is taken to be in
pixel coordinates already.  Then: bounding box, rounded outwards, intersected with the image,
at least one pixel wide, and the ordinary slice crop. -/

def cropRegionPix (g : GeoBox) (pts : List Pt) : Res GeoBox :=
  match pts with
  | [] => .error .valueError
  | p :: ps =>
    let xs := (p :: ps).map (·.1)
    let ys := (p :: ps).map (·.2)
    -- `roi.boundingbox.round() & BoundingBox(0, 0, width, height)`
    let L := max (C17.minL 0 xs).floor 0
    let B := max (C17.minL 0 ys).floor 0
    let R := min (C17.maxL 0 xs).ceil g.nx
    let T := min (C17.maxL 0 ys).ceil g.ny
    let nx := max 1 (R - L)
    let ny := max 1 (T - B)
    .ok (crop g (.two (.slc (some B) (some (B + ny))) (.slc (some L) (some (L + nx)))))

def cropRegion (g : GeoBox) (inPixels : Bool) (pts : List Pt) : Res GeoBox :=
  if inPixels then cropRegionPix g pts
  else do
    let Ai ← g.A.inv?
    cropRegionPix g (pts.map Ai.apply)

/-- `gbox[other]` for a geobox `other` with the same CRS tag; a CRS-less `other` has a CRS-less
extent, which the code takes for pixel coordinates. -/
def cropGeoBox (g w : GeoBox) : Res GeoBox := cropRegion g (w.crs == 0) (extent w)

/-- index / region kinds accepted by `__getitem__` (probed by the harness on every run: the live
outcome of `gbox[<kind>]` must be the one listed here). -/
def indexKindTable : List (String × String) := [
  ("int", "ok"), ("bool", "ok"), ("slice", "ok"), ("slice-step1", "ok"),
  ("slice-step2", "ERR:NotImplemented"), ("tuple2-slices", "ok"), ("tuple2-ints", "ok"),
  ("tuple2-mixed", "ok"), ("list2", "ok"), ("tuple1", "ERR:ValueError"), ("tuple3", "ERR:ValueError"),
  ("ndarray", "ERR:ValueError"), ("np.int64", "ERR:TypeError"), ("float", "ERR:TypeError"),
  ("ellipsis", "ERR:TypeError"), ("none", "ERR:TypeError"), ("str", "ERR:AttributeError"),
  ("Geometry-same-crs", "ok"), ("Geometry-no-crs", "ok"), ("Geometry-other-crs", "ok"),
  ("Geometry-point", "ok"), ("Geometry-line", "ok"), ("Geometry-multipolygon", "ok"),
  ("BoundingBox-same-crs", "ok"), ("BoundingBox-no-crs", "ok"), ("BoundingBox-other-crs", "ok"),
  ("GeoBox-window", "ok"), ("GeoBox-other-grid", "ok"), ("GeoBox-other-crs", "ok"), ("GCPGeoBox", "ok")]

def indexKind (name : String) : String :=
  match indexKindTable.find? (fun e => e.1 == name) with
  | some e => e.2
  | none => "UNKNOWN-KIND"

/-! ### pixel-side and world-side composition (geobox.py:877-906) -/

/-- `gbox * T` -/
def mulPix (g : GeoBox) (T : Aff) : GeoBox := ⟨g.ny, g.nx, g.A * T, g.crs⟩
/-- `T * gbox` -/
def mulWld (T : Aff) (g : GeoBox) : GeoBox := ⟨g.ny, g.nx, T * g.A, g.crs⟩

/-! ### pad, pad_wh, crop/expand (geobox.py:925-963) -/

def pad (g : GeoBox) (padx : Int) (pady : Option Int) : GeoBox :=
  let pady := match pady with | none => padx | some v => v   -- `padx if pady is None else pady`
  ⟨g.ny + pady * 2, g.nx + padx * 2, g.A * Aff.translation (-(padx : Rat)) (-(pady : Rat)), g.crs⟩

/-- Python `x % m` (sign of the divisor); `ZeroDivisionError` for `m = 0`. -/
def pyMod (x m : Int) : Res Int := if m = 0 then .error .zeroDiv else .ok (Int.fmod x m)

/-- `align_up(x, align) = (x + align - 1) - ((x + align - 1) % align)` (math.py:105-122) -/
def alignUp (x align : Int) : Res Int := do
  let y := x + (align - 1)
  let r ← pyMod y align
  pure (y - r)

def padWh (g : GeoBox) (alignx : Int) (aligny : Option Int) : Res GeoBox := do
  let aligny := match aligny with | none => alignx | some v => v
  let ny ← alignUp g.ny aligny
  let nx ← alignUp g.nx alignx
  pure ⟨ny, nx, g.A, g.crs⟩

/-- `gbox.crop(shape)` / `gbox.expand(shape)` -/
def resize (g : GeoBox) (ny nx : Int) : GeoBox := ⟨ny, nx, g.A, g.crs⟩

/-! ### translate, neighbours, flips, rotate, centre pixel (geobox.py:995-1079) -/

def translatePix (g : GeoBox) (tx ty : Rat) : GeoBox := mulPix g (Aff.translation tx ty)

def left (g : GeoBox) : GeoBox := translatePix g (-(g.nx : Rat)) 0
def right (g : GeoBox) : GeoBox := translatePix g (g.nx : Rat) 0
def top (g : GeoBox) : GeoBox := translatePix g 0 (-(g.ny : Rat))
def bottom (g : GeoBox) : GeoBox := translatePix g 0 (g.ny : Rat)

def flipy (g : GeoBox) : GeoBox := mulPix g (Aff.translation 0 (g.ny : Rat) * Aff.scale 1 (-1))
def flipx (g : GeoBox) : GeoBox := mulPix g (Aff.translation (g.nx : Rat) 0 * Aff.scale (-1) 1)

/-- `Affine.rotation(deg, pivot)` with `(c, s) = (cos, sin)` of the angle -/
def rotationAbout (c s : Rat) (p : Pt) : Aff :=
  ⟨c, -s, p.1 - p.1 * c + p.2 * s, s, c, p.2 - p.1 * s - p.2 * c⟩

/-- `gbox.rotate(deg)`: pivot `c0 = A * (nx*0.5, ny*0.5)` -/
def rotate (g : GeoBox) (c s : Rat) : GeoBox :=
  let c0 := g.A.apply ((g.nx : Rat) * (1 / 2), (g.ny : Rat) * (1 / 2))
  mulWld (rotationAbout c s c0) g

/-- `gbox.center_pixel = gbox[ny // 2, nx // 2]` -/
def centerPixel (g : GeoBox) : GeoBox := crop g (.two (.idx (g.ny / 2)) (.idx (g.nx / 2)))

/-! ### zooming (geobox.py:341-375, 965-993, 1219-1241) -/

/-- `max(1, math.ceil(x))` -/
def ceil1 (x : Rat) : Int := max 1 x.ceil

/-- `compute_zoom_out(factor)`; `s / factor` raises for `factor = 0`. -/
def zoomOut (g : GeoBox) (factor : Rat) : Res GeoBox :=
  if factor = 0 then .error .zeroDiv
  else .ok ⟨ceil1 ((g.ny : Rat) / factor), ceil1 ((g.nx : Rat) / factor),
            g.A * Aff.scale factor factor, g.crs⟩

/-- `compute_zoom_to(shape=(ny', nx'))`: `sy, sx = N / float(n)` -/
def zoomToShape (g : GeoBox) (ny nx : Int) : Res GeoBox :=
  if ny = 0 ∨ nx = 0 then .error .zeroDiv
  else .ok ⟨ny, nx, g.A * Aff.scale ((g.nx : Rat) / (nx : Rat)) ((g.ny : Rat) / (ny : Rat)), g.crs⟩

/-- `compute_zoom_to(n)` for a single number (as repaired): `factor = nmax / n`, sides
`max(1, ceil(s * n / nmax))`. -/
def zoomToNum (g : GeoBox) (n : Rat) : Res GeoBox :=
  let nmax : Int := max g.ny g.nx
  if n = 0 then .error .zeroDiv
  else if nmax = 0 then .error .zeroDiv
  else
    let factor := (nmax : Rat) / n
    .ok ⟨ceil1 ((g.ny : Rat) * n / (nmax : Rat)), ceil1 ((g.nx : Rat) * n / (nmax : Rat)),
         g.A * Aff.scale factor factor, g.crs⟩

/-- `ceil(maybe_int(q, tol))` for `q ≥ 0` (math.py:40-75): a fractional part below `tol`
is dropped, otherwise round up. -/
def snapCeil (q tol : Rat) : Int :=
  if q - (q.floor : Rat) < tol then q.floor else q.ceil

/-- one axis of `snap_grid(x0, x1, res, None, tol)` (math.py:208-213) → `(offset, n)` -/
def snapGridTight (x0 x1 res tol : Rat) : Res (Rat × Int) :=
  if res > 0 then .ok (x0, max 1 (snapCeil ((x1 - x0) / res) tol))
  else if res = 0 then .error .zeroDiv
  else .ok (x1, max (snapCeil ((x1 - x0) / (-res)) tol) 1)

/-- `compute_zoom_to(resolution=(rx, ry))` = `GeoBox.from_bbox(self.boundingbox,
resolution=…, tight=True)` (geobox.py:360-366, 562-572) -/
def zoomToRes (g : GeoBox) (rx ry : Rat) : Res GeoBox := do
  let bb := boundingbox g
  let (offx, nx) ← snapGridTight bb.left bb.right rx tolSnap
  let (offy, ny) ← snapGridTight bb.bottom bb.top ry tolSnap
  pure ⟨ny, nx, Aff.translation offx offy * Aff.scale rx ry, g.crs⟩

/-- `scaled_down_geobox(gbox, scaler)`: `X // scaler + (1 if X % scaler else 0)` -/
def scaledDown (g : GeoBox) (k : Int) : Res GeoBox :=
  if ¬ (k > 1) then .error .assertion
  else
    let f := fun (X : Int) => X / k + (if X % k ≠ 0 then 1 else 0)
    .ok ⟨f g.ny, f g.nx, g.A * Aff.scale (k : Rat) (k : Rat), g.crs⟩

/-! ### buffered (geobox.py:665-684, 1244-1246) -/

/-- `_round_to_res(value, res) = int(ceil((value - 0.1*|res|) / |res|))` -/
def roundToRes (value res : Rat) : Res Int :=
  let r := rabs res
  if r = 0 then .error .zeroDiv else .ok ((value - tenth * r) / r).ceil

/-- `gbox.buffered(xbuff, ybuff)`; `n`, `m` are the square roots needed by `resolution`
for a rotated grid (ignored when axis aligned). -/
def bufferedCore (g : GeoBox) (n m : Rat) (xbuff ybuff : Rat) : Res GeoBox := do
  let (rx, ry) ← resolution g n m
  let by_ ← roundToRes ybuff ry
  let bx ← roundToRes xbuff rx
  pure ⟨g.ny + 2 * by_, g.nx + 2 * bx, g.A * Aff.translation (-(bx : Rat)) (-(by_ : Rat)), g.crs⟩

def buffered (g : GeoBox) (n m : Rat) (xbuff : Rat) (ybuff : Option Rat) : Res GeoBox :=
  bufferedCore g n m xbuff (match ybuff with | none => xbuff | some v => v)   -- `if ybuff is None: ybuff = xbuff`

/-! ### GCP geobox (gcp.py:129-168, 216-273)

`GCPGeoBox` keeps `(shape, affine, crs)` plus a shared mapping whose pixel→world
function `P` is an abstract parameter; `pix2wld = P ∘ affine`.  `__getitem__`, `pad`,
`pad_wh`, `zoom_out`, `zoom_to`, `center_pixel` call the very same `compute_*` helpers
on the triple, so the model re-uses `crop`, `pad`, `padWh`, `zoomOut`, `zoomToShape`,
`zoomToNum`, `centerPixel` on the triple and leaves `P` untouched. -/

def gcpPix2wld (P : Pt → Pt) (g : GeoBox) (p : Pt) : Pt := P (g.A.apply p)

/-- `GCPGeoBox.wld2pix`: `(~affine) * w2p(x, y)` -/
def gcpWld2pix (Q : Pt → Pt) (g : GeoBox) (w : Pt) : Res Pt := do
  let Ai ← g.A.inv?
  pure (Ai.apply (Q w))

/-- `GCPGeoBox.approx`: `GeoBox(shape, mapping.approx * affine, crs)` -/
def gcpApprox (B : Aff) (g : GeoBox) : GeoBox := mulWld B g

/-! ### `alignment` (geobox.py:187-195): `(tx % |rx|, ty % |ry|)`, Python float `%` -/

/-- Python `x % m` for `m > 0` on reals: `x - ⌊x/m⌋·m`; `ZeroDivisionError` for `m = 0`. -/
def pyFMod (x m : Rat) : Res Rat := if m = 0 then .error .zeroDiv else .ok (x - ((x / m).floor : Rat) * m)

def alignment (g : GeoBox) : Res (Rat × Rat) := do
  let ax ← pyFMod g.A.c (rabs g.A.a)
  let ay ← pyFMod g.A.f (rabs g.A.e)
  pure (ax, ay)

/-! ### `boundary(pts_per_side)` (geobox.py:172-185, roi.py:392-407, math.py:511-539)

`linspace(0, N, n)` on both axes (the float32 rounding of the code is outside the exact
arithmetic) and the edge walk of `edge_index((n, n))`: top row left→right, right column
downwards, bottom row right→left, left column upwards, not closed. -/

def linspace (N : Int) (n : Nat) : List Rat :=
  if n = 1 then [0]
  else (List.range n).map (fun (i : Nat) => (i : Rat) * ((N : Rat) / ((n : Rat) - 1)))

/-- `edge_index((n, n))` as `(ix, iy)` index pairs -/
def edgeIndex (n : Nat) : List (Nat × Nat) :=
  (List.range n).map (fun i => (i, 0)) ++
  (List.range (n - 1)).map (fun j => (n - 1, j + 1)) ++
  (List.range (n - 1)).reverse.map (fun i => (i, n - 1)) ++
  (List.range (n - 2)).reverse.map (fun j => (0, j + 1))

def boundary (g : GeoBox) (n : Nat) : List Pt :=
  let xs := linspace g.nx n
  let ys := linspace g.ny n
  (edgeIndex n).filterMap (fun ij => match xs[ij.1]?, ys[ij.2]? with
    | some x, some y => some (x, y)
    | _, _ => none)

/-- footprint ring of a non-linear (GCP) geobox: `boundary(16)` mapped through `pix2wld`
(geobox.py:215-218; shapely closes the ring) -/
def gcpExtent (P : Pt → Pt) (g : GeoBox) : List Pt := (boundary g 16).map (gcpPix2wld P g)

/-! ### `enclosing(region)` (geobox.py:686-706), region in the geobox' CRS

Like the region crop but *not* clipped to the image: rounded-out pixel bounding box of the
projected vertices, at least one pixel, on the same pixel grid. -/
def enclosing (g : GeoBox) (pts : List Pt) : Res GeoBox := do
  let Ai ← g.A.inv?
  match pts.map Ai.apply with
  | [] => .error .valueError
  | p :: ps =>
    let xs := (p :: ps).map (·.1)
    let ys := (p :: ps).map (·.2)
    let l := (C17.minL 0 xs).floor
    let b := (C17.minL 0 ys).floor
    let r := (C17.maxL 0 xs).ceil
    let t := (C17.maxL 0 ys).ceil
    pure ⟨max 1 (t - b), max 1 (r - l), g.A * Aff.translation (l : Rat) (b : Rat), g.crs⟩

/-! ### `GCPGeoBox.gcps()` (gcp.py:282-300) and `map_bounds` (geobox.py:784-795) -/

/-- control points `(pix, wld)` re-expressed in the pixel space of the view: `(~affine) * pix` -/
def gcpGcps (g : GeoBox) (cps : List (Pt × Pt)) : Res (List (Pt × Pt)) := do
  let Ai ← g.A.inv?
  pure (cps.map (fun cp => (Ai.apply cp.1, cp.2)))

/-- `map_bounds()` without reprojection (no CRS, or already lon/lat): `((y0, x0), (y1, x1))`
from footprint vertices 0 and 2 -/
def mapBounds (g : GeoBox) : (Rat × Rat) × (Rat × Rat) :=
  let p0 := pix2wld g (0, 0)
  let p2 := pix2wld g ((g.nx : Rat), (g.ny : Rat))
  ((p0.2, p0.1), (p2.2, p2.1))

/-! ### model selection of the GCP fit (`Poly2d.fit`, math.py:693-714)

Number of polynomial terms fitted to `n` control points: 3 (affine) for `n = 3`, 4 (bilinear)
for `4 ≤ n ≤ 8`, 9 (bi-quadratic) for `n ≥ 9`; fewer than 3 points are rejected.  That the chosen
family reproduces exactly representable data of that family is C20's
`poly_fit_exact_affine / _bilinear / _biquadratic`. -/
def fitKind (n : Nat) : Res Nat :=
  if n < 3 then .error .valueError
  else if n ≥ 9 then .ok 9
  else if n ≥ 4 then .ok 4
  else .ok 3

/-! ### table of public accessors

Every public attribute of `GeoBox` / `GCPGeoBox` and every public function of
`odc.geo.geobox` taking a geobox, with the model definition (or the reason) that covers it.
The harness discovers the live names by introspection on every run and asks the driver
whether the table knows them: an accessor added to the library that is not listed here is a
correspondence break. -/
def accessorTable : List (String × String) := [
  -- the triple itself
  ("shape", "GeoBox.ny/nx"), ("width", "GeoBox.nx"), ("height", "GeoBox.ny"), ("aspect", "nx / ny"),
  ("is_empty", "0 ∈ shape"), ("crs", "GeoBox.crs"), ("dimensions", "crs tag"), ("dims", "crs tag"),
  ("affine", "GeoBox.A"), ("transform", "GeoBox.A"), ("linear", "constant"),
  ("axis_aligned", "isAffineST"), ("alignment", "A.c mod |A.a|, A.f mod |A.e| (axis aligned)"),
  -- views of the mapping
  ("pix2wld", "pix2wld"), ("wld2pix", "wld2pix"), ("extent", "extent"), ("boundingbox", "boundingbox"),
  ("boundary", "edge points of the pixel rectangle"), ("coordinates", "coordinates"), ("coords", "coordinates"),
  ("resolution", "resolution"), ("project", "pix2wld / wld2pix on vertices"),
  ("footprint", "extent (same crs; reprojection is C07/C11)"),
  ("geographic_extent", "extent (geographic / no crs; reprojection is C07/C11)"),
  ("map_bounds", "extent vertices 0 and 2 (geographic / no crs)"), ("qr2sample", "points inside the pixel rectangle"),
  -- view operations
  ("compute_crop", "crop"), ("crop", "resize"), ("expand", "resize"), ("pad", "pad"), ("pad_wh", "padWh"),
  ("translate_pix", "translatePix"), ("left", "left"), ("right", "right"), ("top", "top"), ("bottom", "bottom"),
  ("flipx", "flipx"), ("flipy", "flipy"), ("rotate", "rotate"), ("center_pixel", "centerPixel"),
  ("compute_zoom_out", "zoomOut"), ("zoom_out", "zoomOut"),
  ("compute_zoom_to", "zoomToShape / zoomToNum / zoomToRes"), ("zoom_to", "zoomToShape / zoomToNum / zoomToRes"),
  ("buffered", "buffered"), ("scaled_down_geobox", "scaledDown"), ("affine_transform_pix", "mulPix"),
  ("gbox_boundary", "alias of boundary"),
  -- GCP
  ("approx", "gcpApprox"), ("gcps", "control points pulled back through A⁻¹"),
  -- other properties / not a view of the mapping
  ("enclosing", "C08"), ("snap_to", "C16"), ("overlap_roi", "C16"), ("to_crs", "C11"),
  ("from_bbox", "C08"), ("from_geopolygon", "C08"), ("from_rio", "constructor"),
  ("pixel_translation", "C16"), ("bounding_box_in_pixel_domain", "C16"),
  ("geobox_union_conservative", "C16"), ("geobox_intersection_conservative", "C16"),
  ("svg", "display"), ("grid_lines", "display"), ("outline", "display"), ("explore", "display"),
  ("compat", "datacube interop")]

def accessorKnown (name : String) : Bool := accessorTable.any (fun e => e.1 == name)

end OdcGeo.C02
