/- Model for C02 (core Lean only, no Mathlib). -/
import OdcGeo.Model.IO
namespace OdcGeo.C02

end OdcGeo.C02
