/-
C13 — extra (non-spatial) axes of `_dask_rio_reproject` / `_do_chunked_reproject` / `rio_reproject`
(`_dask.py:97-100, 109-110, 137-150`: `with_yx`, `dst_chunks = with_yx(src.chunks, gbt_dst.chunks)`,
`srcs = [with_yx(idx, (y, x)) …]`, constant block shape `tuple(ch[i] for ch, i in zip(dst_chunks, idx))`;
`_dask.py:55-75` / `_blocks.py:174-186`: the `planes_yx()` loop; `warp.py:139-162`: the plane loop of
`rio_reproject`).

An N-d array is `E → Img`: index of the non-spatial axes ↦ Y/X plane.  The chunking of the
non-spatial index space is an `ExtraAxes`: `locate` (which dask block, local index in it) and `glob`
(block, local index ↦ global index; `none` = outside the block's shape).  `listAxes` is the instance
the code has: one chunk table per axis, any number of axes; `withYX` / `splitYX` place the two
spatial axes at position `ydim` of the full index tuple.
-/
import OdcGeo.Model.C13
namespace OdcGeo.C13

structure ExtraAxes (E EB EL : Type) where
  locate : E → Option (EB × EL)
  glob : EB → EL → Option E

/-- local indices come back to where they were located -/
def ExtraAxes.Lawful {E EB EL : Type} (ax : ExtraAxes E EB EL) : Prop :=
  ∀ e b l, ax.locate e = some (b, l) → ax.glob b l = some e

/-- dask block `(eb, iy, ix)` of the source array, block-local `(l, p)` -/
def srcBlockNd {E EB EL : Type} (ax : ExtraAxes E EB EL) (src : E → Img) (sy sx : List Span) (eb : EB)
    (idx : TIdx) : Option (EL → Img) := do
  let ys ← sy[idx.1]?
  let xs ← sx[idx.2]?
  pure fun l => match ax.glob eb l with
    | some e => window (src e) ys xs
    | none => fun _ => none

/-- the task / constant block of destination block `(eb, iy, ix)`: every plane `l` of the block goes
through the 2-d code (`for src_roi in ba.planes_yx()`); the block's extra shape is that of chunk `eb`
(task: `ba.shape`, i.e. the source blocks' shape; constant: `dst_chunks` at `idx`). -/
def dstTaskNd {E EB EL : Type} (ax : ExtraAxes E EB EL) (c : Cfg) (G : Gdal) (eb : EB) (idx : TIdx)
    (blocks : List (EL → Img)) : Option (EL → Img) :=
  if (lookupDeps c.deps idx).isEmpty then
    (constBlock c idx).map fun b => fun l => if (ax.glob eb l).isSome then b else fun _ => none
  else
    some fun l p =>
      if (ax.glob eb l).isSome then (doChunkedReproject c G idx (blocks.map (· l))).bind (· p) else none

/-- `srcs = [with_yx(idx, (y, x)) for y, x in d2s_idx.get((y, x), [])]`: same extra block index -/
def dstBlockNd {E EB EL : Type} (ax : ExtraAxes E EB EL) (c : Cfg) (G : Gdal) (src : E → Img) (eb : EB)
    (idx : TIdx) : Option (EL → Img) := do
  let blocks ← mapOpt (srcBlockNd ax src c.sy c.sx eb) (lookupDeps c.deps idx)
  dstTaskNd ax c G eb idx blocks

/-- element `(e, d)` of the computed N-d dask array -/
def daskResultNd {E EB EL : Type} (ax : ExtraAxes E EB EL) (c : Cfg) (G : Gdal) (src : E → Img) :
    E → Img := fun e d => do
  let (eb, l) ← ax.locate e
  let iy ← locate c.dy d.1
  let ix ← locate c.dx d.2
  let ty ← c.dy[iy]?
  let tx ← c.dx[ix]?
  let blk ← dstBlockNd ax c G src eb (iy, ix)
  blk l (d.1 - ty.1, d.2 - tx.1)

/-- `rio_reproject` on an N-d array: plane by plane into the (uninitialised) destination -/
def wholeResultNd {E : Type} (c : Cfg) (G : Gdal) (src buf : E → Img) : E → Img :=
  fun e => wholeResult c G (src e) (buf e)

/-! ### the instance of the code: one chunk table per non-spatial axis -/

def locAxes : List (List Span) → List Int → Option (List Nat × List Int)
  | [], [] => some ([], [])
  | t :: ts, v :: vs => do
    let i ← locate t v
    let s ← t[i]?
    let r ← locAxes ts vs
    pure (i :: r.1, (v - s.1) :: r.2)
  | _, _ => none

def globAxes : List (List Span) → List Nat → List Int → Option (List Int)
  | [], [], [] => some []
  | t :: ts, i :: is, l :: ls => do
    let s ← t[i]?
    if 0 ≤ l ∧ l < s.2 - s.1 then do
      let r ← globAxes ts is ls
      pure ((s.1 + l) :: r)
    else none
  | _, _, _ => none

def listAxes (tables : List (List Span)) : ExtraAxes (List Int) (List Nat) (List Int) :=
  ⟨locAxes tables, globAxes tables⟩

/-- `with_yx(a, yx)`: `(*a[:ydim], *yx, *a[ydim:])` for an index `a` of the non-spatial axes -/
def withYX (ydim : Nat) (e : List Int) (y x : Int) : List Int :=
  e.take ydim ++ [y, x] ++ e.drop ydim

/-- split a full index tuple into non-spatial part and `(y, x)` -/
def splitYX (ydim : Nat) (full : List Int) : Option (List Int × Int × Int) := do
  let y ← full[ydim]?
  let x ← full[ydim + 1]?
  pure (full.take ydim ++ full.drop (ydim + 2), y, x)

/-- the Y/X plane of an N-d array (a function of full index tuples) at non-spatial index `e` -/
def planeOf (ydim : Nat) (arr : List Int → Option Val) (e : List Int) : Img :=
  fun p => arr (withYX ydim e p.1 p.2)

/-- the computed dask array as a function of full index tuples, spatial axes at `ydim` -/
def daskResultFull (ydim : Nat) (tables : List (List Span)) (c : Cfg) (G : Gdal)
    (arr : List Int → Option Val) (full : List Int) : Option Val := do
  let (e, y, x) ← splitYX ydim full
  daskResultNd (listAxes tables) c G (planeOf ydim arr) e (y, x)

end OdcGeo.C13
