/-
The public glue of `odc/geo/math.py` around the numeric cores of `Model/C20.lean` (core Lean only):

* `Poly2d.__init__` (shape assertion on the coefficient table), `Poly2d.__call__` in its three call forms
  (two scalars, two equally long arrays, one `N×2` array: `self(x[..., 0], x[..., 1]).T`) with the shape rules of
  the two normalisation branches (`A * (x, y)` broadcasts, `polyval2d` insists on equal shapes);
* `Bin1D.__eq__`;
* `apply_affine` (broadcast of `A * (x_i, y_i)` over arrays of one shape), `stack_xy` / `unstack_xy`;
* `decompose_rws` on an `ndarray` (`assert A.shape == (2, 2)`) — the `Affine` variant delegates to it;
* `affine_from_pts` with the executable least-squares instance (`lstsqNormal`) — see `Props/C20Glue.lean` for the
  proof that it is the least-squares minimiser.
-/
import OdcGeo.Model.C20
namespace OdcGeo.C20

/-! ### `Poly2d.__init__`, `Poly2d.__call__` (math.py:645-677) -/

namespace Poly2d

/-- `assert cc.shape in [(3, 3, 2), (2, 2, 2)]` -/
def shapeOk (shape : List Nat) : Bool := shape == [3, 3, 2] || shape == [2, 2, 2]

/-- `Poly2d(cc, A)` from a flat coefficient table of the given array shape (`cc.reshape(k, k, 2)` in the fit
routines is the identity on the flat table). -/
def mk? (shape : List Nat) (cc : List (Rat × Rat)) (A : Aff) : Res Poly2d :=
  if ¬ shapeOk shape then .error .assertion
  else .ok ⟨reshape (shape.headD 0) cc, A⟩

/-- `self._safe_to_grid` -/
def safeToGrid (P : Poly2d) : Bool := decide (P.A.b = 0) && decide (P.A.d = 0)

/-- One argument of `__call__`: a scalar or a 1-d array. -/
inductive Arg where
  | scalar (v : Rat)
  | arr (vs : List Rat)
  deriving DecidableEq, Repr

def Arg.len? : Arg → Option Nat
  | .scalar _ => none
  | .arr vs => some vs.length

/-- numpy broadcasting of two 1-d-or-scalar operands: the list of coordinate pairs and whether the result is an
array; `none` when the shapes do not broadcast. -/
def broadcast2 : Arg → Arg → Option (List (Rat × Rat) × Bool)
  | .scalar x, .scalar y => some ([(x, y)], false)
  | .scalar x, .arr ys => some (ys.map fun y => (x, y), true)
  | .arr xs, .scalar y => some (xs.map fun x => (x, y), true)
  | .arr xs, .arr ys =>
    if xs.length = ys.length then some (xs.zip ys, true)
    else if xs.length = 1 then some (ys.map fun y => (xs.headD 0, y), true)
    else if ys.length = 1 then some (xs.map fun x => (x, ys.headD 0), true)
    else none

/-- What `__call__` raises on operands whose shapes do not go together. -/
inductive CallErr where
  | valueError
  | typeError
  deriving DecidableEq, Repr

/-- `P(x, y)` for scalars / 1-d arrays: `(out[0], out[1])` as lists (one element for two scalars).  The
scale/translation shortcut normalises `x` and `y` **separately** and `polyval2d` then insists on **equal shapes**
(`ValueError: x, y are incompatible`); the general branch `A * (x, y)` broadcasts first, so a scalar against an
array (or a one-element array against a longer one) is accepted there, and shapes that do not broadcast make
`Affine.__mul__` give up (`TypeError`). -/
def call2 (P : Poly2d) (x y : Arg) : Except CallErr (List Rat × List Rat) :=
  if P.safeToGrid then
    if x.len? = y.len? then
      match broadcast2 x y with
      | some (pts, _) => .ok ((pts.map fun p => (P.eval p).1), (pts.map fun p => (P.eval p).2))
      | none => .error .valueError
    else .error .valueError
  else
    match broadcast2 x y with
    | some (pts, _) => .ok ((pts.map fun p => (P.eval p).1), (pts.map fun p => (P.eval p).2))
    | none => .error .typeError

/-- `P(pts)` for an `N×2` array: `self(x[..., 0], x[..., 1]).T`, i.e. the `N×2` array of images. -/
def callN (P : Poly2d) (pts : List (Rat × Rat)) : List (Rat × Rat) := pts.map P.eval

/-! #### arrays of more than one dimension -/

/-- row-major multi-index of flat index `i` in an array of shape `dims` -/
def unravel : List Nat → Nat → List Nat
  | [], _ => []
  | _ :: ds, i => (i / ds.prod) :: unravel ds (i % ds.prod)

/-- row-major flat index of a multi-index -/
def ravel : List Nat → List Nat → Nat
  | _ :: ds, j :: js => j * ds.prod + ravel ds js
  | _, _ => 0

/-- `arr.T` on a flat row-major list: the axes reversed. -/
def transposeFlat {α : Type} [Inhabited α] (shape : List Nat) (vals : List α) : List α :=
  (List.range shape.prod).map fun o => vals.getD (ravel shape (unravel shape.reverse o).reverse) default

/-- `P(x, y)` for two arrays of the **same** shape (any number of dimensions), flattened row-major: both outputs,
flattened, of shape `shape` each (the result array has shape `(2, *shape)`). -/
def callNd (P : Poly2d) (xs ys : List Rat) : List Rat × List Rat :=
  (((xs.zip ys).map fun p => (P.eval p).1), ((xs.zip ys).map fun p => (P.eval p).2))

/-- `P(X)` for one array `X` of shape `(*shape, 2)`: `self(X[..., 0], X[..., 1]).T` — the result `(2, *shape)` is
transposed as a whole, so the output has shape `(*reversed(shape), 2)`: for the documented `N×2` input that is `N×2`, for
an `a×b×2` input it is `b×a×2` with the two leading axes **swapped**.  Flat row-major list of output pairs. -/
def callLast2 (P : Poly2d) (shape : List Nat) (pts : List (Rat × Rat)) : List (Rat × Rat) :=
  transposeFlat shape (pts.map P.eval)

end Poly2d

/-! ### `Bin1D.__eq__` (math.py:607-614) -/

/-- `self == other` for another `Bin1D` (any other type compares unequal). -/
def Bin1D.beq (a b : Bin1D) : Bool :=
  decide (a.sz = b.sz) && decide (a.origin = b.origin) && decide (a.direction = b.direction)

/-! ### `apply_affine`, `stack_xy`, `unstack_xy` (math.py:295-317, 435-444) -/

/-- `apply_affine(A, x, y)` on two arrays of the same shape, flattened: `(x', y')`.  Arrays of different sizes make
`np.vstack` raise `ValueError`. -/
def applyAffine (A : Aff) (xs ys : List Rat) : Res (List Rat × List Rat) :=
  if xs.length ≠ ys.length then .error .valueError
  else .ok (((xs.zip ys).map fun p => (A.apply p).1), ((xs.zip ys).map fun p => (A.apply p).2))

/-- `stack_xy(pts)`: `N×2` rows in X, Y order. -/
def stackXy (pts : List (Rat × Rat)) : List (List Rat) := pts.map fun p => [p.1, p.2]

/-- `unstack_xy(arr)` for a 2-d array given by its rows (all of one length, as in an `ndarray`):
`assert pts.ndim == 2 and pts.shape[1] == 2`. -/
def unstackXy (rows : List (List Rat)) : Res (List (Rat × Rat)) :=
  rows.mapM fun r =>
    match r with
    | [x, y] => .ok (x, y)
    | _ => .error .assertion

/-! ### `decompose_rws` on an `ndarray` (math.py:418-432) -/

/-- `decompose_rws(A : ndarray)`: `assert A.shape == (2, 2)`, then the 2×2 core (`n`, `p` the Cholesky roots). -/
def decomposeRwsNd (rows : List (List Rat)) (n p : Rat) : Res RWS :=
  match rows with
  | [[a, b], [d, e]] => .ok (decomposeRws2 (m2 a b d e) n p)
  | _ => .error .assertion

end OdcGeo.C20
