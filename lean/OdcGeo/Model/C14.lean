/-
Model for C14 — `odc.geo.math.Bin1D` and `odc.geo.gridspec.GridSpec` (core Lean only, no Mathlib).

Every definition that performs float arithmetic in Python takes a rounding function
`fl : Rat → Rat` applied after each primitive operation, in the order CPython evaluates it.

* `fl := id`    exact arithmetic — the instance all theorems of `Props/C14.lean` are about;
* `fl := fl64`  IEEE-754 binary64 round-to-nearest-even — the instance the driver additionally runs,
                so that the model can be compared bit-for-bit with the real code on arbitrary doubles.

Integers are `Int`, reals `Rat`, errors `Res`.  CRS handling (`norm_crs_or_error`, the
`assert self.crs == bounds.crs` of `idx_bounds`, `to_crs` of the polygon query) is not part
of this model (property C01 covers CRS mixing).
-/
import OdcGeo.Model.IO
import OdcGeo.Model.Affine
namespace OdcGeo.C14

/-- rounding applied after each float operation -/
abbrev Rnd := Rat → Rat

/-! ### binary64 rounding (used by the driver only; validated against CPython each run) -/

def pow2 (e : Int) : Rat :=
  if 0 ≤ e then ((2 ^ e.toNat : Nat) : Rat) else 1 / ((2 ^ (-e).toNat : Nat) : Rat)

def roundHalfEven (r : Rat) : Int :=
  let f := r.floor
  let rem := r - (f : Rat)
  if rem < 1 / 2 then f else if 1 / 2 < rem then f + 1 else if f % 2 = 0 then f else f + 1

/-- round-to-nearest, ties-to-even, 53 significant bits, gradual underflow; no overflow
    (the harness never produces values near 1.8e308). -/
def fl64 (q : Rat) : Rat :=
  if q = 0 then 0 else
  let a := if q < 0 then -q else q
  let l : Int := (Nat.log2 a.num.natAbs : Int) - (Nat.log2 a.den : Int)
  let e0 := l - 52
  let s0 := a / pow2 e0
  let e1 := if s0 < pow2 52 then e0 - 1 else if pow2 53 ≤ s0 then e0 + 1 else e0
  let e := if e1 < -1074 then -1074 else e1
  let m := roundHalfEven (a / pow2 e)
  let r := (m : Rat) * pow2 e
  if q < 0 then -r else r

/-- `abs` on floats (exact) -/
def rabs (q : Rat) : Rat := if q < 0 then -q else q

/-! ### `Bin1D`  (odc/geo/math.py:568-637) -/

structure Bin1D where
  sz : Rat
  origin : Rat
  dir : Int
  deriving DecidableEq, Repr

/-- `Bin1D.__init__`: `assert direction in (-1, 1)`; `assert sz > 0`. -/
def Bin1D.new (sz origin : Rat) (dir : Int) : Res Bin1D :=
  if ¬ (dir = -1 ∨ dir = 1) then .error .assertion
  else if ¬ (0 < sz) then .error .assertion
  else .ok ⟨sz, origin, dir⟩

/-- `Bin1D.__getitem__(idx)[0]`: `_x = idx * self.sz * self.direction + self.origin` -/
def Bin1D.lo (fl : Rnd) (b : Bin1D) (k : Int) : Rat :=
  fl (fl (fl ((k : Rat) * b.sz) * (b.dir : Rat)) + b.origin)

/-- `Bin1D.__getitem__(idx)[1]`: `_x + self.sz` -/
def Bin1D.hi (fl : Rnd) (b : Bin1D) (k : Int) : Rat :=
  fl (b.lo fl k + b.sz)

/-- `Bin1D.bin(x)`: `ix = floor((x - self.origin) / self.sz); int(self.direction * ix)` -/
def Bin1D.bin (fl : Rnd) (b : Bin1D) (x : Rat) : Int :=
  b.dir * (fl (fl (x - b.origin) / b.sz)).floor

/-- `Bin1D.from_sample_bin(idx, (x0, x1), direction)` -/
def Bin1D.fromSampleBin (fl : Rnd) (idx : Int) (x0 x1 : Rat) (dir : Int) : Res Bin1D :=
  if ¬ (x0 < x1) then .error .assertion
  else
    let sz := fl (x1 - x0)
    let origin := fl (x0 - fl (fl (sz * (idx : Rat)) * (dir : Rat)))
    Bin1D.new sz origin dir

/-! ### `GridSpec`  (odc/geo/gridspec.py) -/

/-- `BoundingBox(left, bottom, right, top)`; iteration order is the same. -/
structure BBox where
  left : Rat
  bottom : Rat
  right : Rat
  top : Rat
  deriving DecidableEq, Repr

/-- `GeoBox(shape, affine, crs)` — shape `(ny, nx)` and pixel→world affine. -/
structure GeoBox where
  ny : Int
  nx : Int
  aff : Aff
  deriving DecidableEq, Repr

structure GridSpec where
  ny : Int
  nx : Int
  rx : Rat
  ry : Rat
  ox : Rat
  oy : Rat
  xbin : Bin1D
  ybin : Bin1D
  deriving DecidableEq, Repr

def dirOf (flip : Bool) : Int := if flip then -1 else 1

/-- `GridSpec.__init__` (gridspec.py:49-77): `tile_size = shape * abs(resolution)`,
    `_ybin = Bin1D(tile_size.y, oy, -1 if flipy else 1)`, then `_xbin` likewise. -/
def GridSpec.new (fl : Rnd) (ny nx : Int) (rx ry ox oy : Rat) (flipx flipy : Bool) : Res GridSpec := do
  let tsx := fl ((nx : Rat) * rabs rx)
  let tsy := fl ((ny : Rat) * rabs ry)
  let ybin ← Bin1D.new tsy oy (dirOf flipy)
  let xbin ← Bin1D.new tsx ox (dirOf flipx)
  pure ⟨ny, nx, rx, ry, ox, oy, xbin, ybin⟩

/-- `GridSpec.pt2idx(x, y)` → `(ix, iy)` -/
def GridSpec.pt2idx (fl : Rnd) (g : GridSpec) (x y : Rat) : Int × Int :=
  (g.xbin.bin fl x, g.ybin.bin fl y)

/-- `GridSpec._tile_txy`: world location of pixel (0,0): left/right (bottom/top) edge of the bin
    chosen by the sign of the resolution. -/
def GridSpec.tileTxy (fl : Rnd) (g : GridSpec) (k : Int × Int) : Rat × Rat :=
  let tx := if 0 < g.rx then g.xbin.lo fl k.1 else g.xbin.hi fl k.1
  let ty := if 0 < g.ry then g.ybin.lo fl k.2 else g.ybin.hi fl k.2
  (tx, ty)

/-- `GridSpec.tile_geobox((ix, iy))` = `GeoBox(shape, Affine(rx, 0, tx, 0, ry, ty))` -/
def GridSpec.tileGeobox (fl : Rnd) (g : GridSpec) (k : Int × Int) : GeoBox :=
  let t := g.tileTxy fl k
  ⟨g.ny, g.nx, ⟨g.rx, 0, t.1, 0, g.ry, t.2⟩⟩

/-- `Affine.__matmul__((vx, vy))`: `vx*sa + vy*sb + sc`, `vx*sd + vy*se + sf`, rounded per operation. -/
def applyF (fl : Rnd) (A : Aff) (p : Rat × Rat) : Rat × Rat :=
  (fl (fl (fl (p.1 * A.a) + fl (p.2 * A.b)) + A.c), fl (fl (fl (p.1 * A.d) + fl (p.2 * A.e)) + A.f))

/-- `GeoBox.boundingbox` = `BoundingBox.from_transform(shape, affine)` as on /repo HEAD (geom.py:276-292):
    images of all four pixel corners `(0,0),(0,ny),(nx,ny),(nx,0)`, `min`/`max` of their coordinates. -/
def GeoBox.bbox (fl : Rnd) (gb : GeoBox) : BBox :=
  let p0 := applyF fl gb.aff (0, 0)
  let p1 := applyF fl gb.aff (0, (gb.ny : Rat))
  let p2 := applyF fl gb.aff ((gb.nx : Rat), (gb.ny : Rat))
  let p3 := applyF fl gb.aff ((gb.nx : Rat), 0)
  ⟨min (min (min p0.1 p1.1) p2.1) p3.1, min (min (min p0.2 p1.2) p2.2) p3.2,
   max (max (max p0.1 p1.1) p2.1) p3.1, max (max (max p0.2 p1.2) p2.2) p3.2⟩

/-- `GeoBox.extent` for an affine geobox = `polygon_from_transform`: exterior ring
    `(0,0),(0,ny),(nx,ny),(nx,0)` mapped through the affine. -/
def GeoBox.extentPts (fl : Rnd) (gb : GeoBox) : List (Rat × Rat) :=
  [((0 : Rat), (0 : Rat)), (0, (gb.ny : Rat)), ((gb.nx : Rat), (gb.ny : Rat)), ((gb.nx : Rat), 0)].map
    (applyF fl gb.aff)

/-- the literal `tol = 1e-8` of `idx_bounds`: exact value of that double -/
def tol8 : Rat := 3022314549036573 / 302231454903657293676544

/-- `GridSpec.idx_bounds(bounds)` with the tolerance as a parameter (the code uses `tol8`):
    `(ix1, iy1, ix2, iy2)` meaning `[ix1, ix2) × [iy1, iy2)`. -/
def GridSpec.idxBounds (fl : Rnd) (tol : Rat) (g : GridSpec) (q : BBox) : Int × Int × Int × Int :=
  let i1 := g.pt2idx fl (fl (q.left + tol)) (fl (q.bottom + tol))
  let i2 := g.pt2idx fl (fl (q.right - tol)) (fl (q.top - tol))
  (min i1.1 i2.1, min i1.2 i2.2, max i1.1 i2.1 + 1, max i1.2 i2.2 + 1)

/-- `range(a, b)` over Python ints -/
def rangeI (a b : Int) : List Int := (List.range (b - a).toNat).map (fun (i : Nat) => a + (i : Int))

/-- `GridSpec.tiles(bounds)`: indices in the order the generator yields them
    (`for iy in range(iy1, iy2): for ix in range(ix1, ix2)`). -/
def GridSpec.tiles (fl : Rnd) (tol : Rat) (g : GridSpec) (q : BBox) : List (Int × Int) :=
  let r := g.idxBounds fl tol q
  (rangeI r.2.1 r.2.2.2).flatMap (fun iy => (rangeI r.1 r.2.2.1).map (fun ix => (ix, iy)))

/-- `GridSpec.tiles_from_geopolygon(poly)` after `to_crs`: `q` is `poly.boundingbox`,
    `disjoint gb` stands for shapely's `poly.disjoint(gb.extent)`. -/
def GridSpec.tilesFromPolygon (fl : Rnd) (tol : Rat) (g : GridSpec) (q : BBox)
    (disjoint : GeoBox → Bool) : List (Int × Int) :=
  (g.tiles fl tol q).filter (fun k => !disjoint (g.tileGeobox fl k))

/-- `GridSpec.from_sample_tile(box, shape=(ny,nx), idx=(ix,iy), flipx, flipy)`; `q = box.boundingbox`.
    Error order as in the code: shape sentinel, x-bin assert, y-bin assert, divisions, constructor. -/
def GridSpec.fromSampleTile (fl : Rnd) (q : BBox) (ny nx : Int) (ix iy : Int) (flipx flipy : Bool) :
    Res GridSpec := do
  if ny = -1 ∧ nx = -1 then throw .valueError
  let xbin ← Bin1D.fromSampleBin fl ix q.left q.right (dirOf flipx)
  let ybin ← Bin1D.fromSampleBin fl iy q.bottom q.top (dirOf flipy)
  if ny = 0 then throw .zeroDiv
  let ry := fl (-ybin.sz / (ny : Rat))
  if nx = 0 then throw .zeroDiv
  let rx := fl (xbin.sz / (nx : Rat))
  GridSpec.new fl ny nx rx ry xbin.origin ybin.origin flipx flipy

/-- `geom.box(l, b, r, t).boundingbox` = shapely bounds of the four corners. -/
def boxBounds (l b r t : Rat) : BBox := ⟨min l r, min b t, max l r, max b t⟩

/-- `GridSpec.web_tiles(zoom, npix)`; `P` is the double `math.pi * 6378137`.
    `tsz = pi*R*(2**(1-zoom))`; `tile0 = box(-P, P - tsz, -P + tsz, P)`; `flipy=True`. -/
def GridSpec.webTiles (fl : Rnd) (P : Rat) (zoom : Int) (npix : Int) : Res GridSpec :=
  let tsz := fl (P * pow2 (1 - zoom))
  let x := -P
  let y := P
  GridSpec.fromSampleTile fl (boxBounds x (fl (y - tsz)) (fl (x + tsz)) y) npix npix 0 0 false true

/-- `GridSpec.idx_bounds(bounds)` including its guard `assert self.crs == bounds.crs`; `sameCrs` is the
    outcome of that CRS comparison (CRS equality itself is property C01/C19, not modelled here).
    `tiles(bounds)` goes through the same guard. -/
def GridSpec.idxBoundsChecked (fl : Rnd) (tol : Rat) (g : GridSpec) (sameCrs : Bool) (q : BBox) :
    Res (Int × Int × Int × Int) :=
  if sameCrs then .ok (g.idxBounds fl tol q) else .error .assertion

/-- `list(GridSpec.tiles(bounds))` including the CRS guard of `idx_bounds` -/
def GridSpec.tilesChecked (fl : Rnd) (tol : Rat) (g : GridSpec) (sameCrs : Bool) (q : BBox) :
    Res (List (Int × Int)) :=
  if sameCrs then .ok (g.tiles fl tol q) else .error .assertion

/-! ### the caller-supplied `geobox_cache` (state carried across queries) -/

/-- `geobox_cache`: a dict `tile_index → GeoBox`, newest entry first -/
abbrev Cache := List ((Int × Int) × GeoBox)

/-- the local `geobox(tile_index)` of `GridSpec.tiles` with a cache:
    `gbox = cache.get(idx)`; if `None`: `gbox = self.tile_geobox(idx); cache[idx] = gbox`. -/
def GridSpec.geoboxC (fl : Rnd) (g : GridSpec) (c : Cache) (k : Int × Int) : GeoBox × Cache :=
  match c.lookup k with
  | some gb => (gb, c)
  | none => (g.tileGeobox fl k, (k, g.tileGeobox fl k) :: c)

/-- consuming the generator over the index list `ks`, threading the cache -/
def GridSpec.tilesGo (fl : Rnd) (g : GridSpec) : List (Int × Int) → Cache → List ((Int × Int) × GeoBox) × Cache
  | [], c => ([], c)
  | k :: ks, c =>
    let r := g.geoboxC fl c k
    let rest := GridSpec.tilesGo fl g ks r.2
    ((k, r.1) :: rest.1, rest.2)

/-- `list(GridSpec.tiles(bounds, geobox_cache))`: yielded `(index, geobox)` pairs and the cache afterwards -/
def GridSpec.tilesC (fl : Rnd) (tol : Rat) (g : GridSpec) (q : BBox) (c : Cache) :
    List ((Int × Int) × GeoBox) × Cache :=
  g.tilesGo fl (g.tiles fl tol q) c

/-- `list(GridSpec.tiles_from_geopolygon(poly, geobox_cache))`: every tile of the polygon's bounding box goes
    through the cache; the disjointness test is applied to the geobox that came out of the cache. -/
def GridSpec.tilesFromPolygonC (fl : Rnd) (tol : Rat) (g : GridSpec) (q : BBox) (disjoint : GeoBox → Bool)
    (c : Cache) : List ((Int × Int) × GeoBox) × Cache :=
  let r := g.tilesC fl tol q c
  (r.1.filter (fun e => !disjoint e.2), r.2)

/-- every cached geobox is the geobox of its key (what a cache filled only by this grid satisfies) -/
def GridSpec.Coherent (fl : Rnd) (g : GridSpec) (c : Cache) : Prop :=
  ∀ k gb, c.lookup k = some gb → gb = g.tileGeobox fl k

/-! ### `__eq__`, `alignment`, `geojson` index walk, multi-part query geometries -/

/-- `GridSpec.__eq__` (gridspec.py:79-88): `_shape`, `_ybin`, `_xbin` and `crs` are compared
    (`Bin1D.__eq__`: `sz`, `origin`, `direction`); `crsEq` is the outcome of the CRS comparison.
    The resolution (its sign) is NOT compared.  There is no `__hash__`: instances are unhashable. -/
def GridSpec.beq (g h : GridSpec) (crsEq : Bool) : Bool :=
  decide (g.ny = h.ny ∧ g.nx = h.nx) && decide (g.ybin = h.ybin) && decide (g.xbin = h.xbin) && crsEq

/-- CPython `float.__mod__` `a % b` (floatobject.c `float_rem`): `ZeroDivisionError` for `b = 0`; `mod = fmod(a, b)`
    — the truncated remainder, exact in IEEE — and, when `mod` is non-zero and its sign differs from `b`'s,
    `mod += b` (one rounded addition). -/
def pyFloatMod (fl : Rnd) (a b : Rat) : Res Rat :=
  if b = 0 then .error .zeroDiv
  else
    let q := a / b
    let t : Int := if 0 ≤ q then q.floor else q.ceil
    let m := a - (t : Rat) * b
    if m ≠ 0 ∧ (decide (b < 0) != decide (m < 0)) then .ok (fl (m + b)) else .ok m

/-- `GridSpec.alignment` (gridspec.py:95-101): `(origin.x % |res.x|, origin.y % |res.y|)` as `(x, y)` -/
def GridSpec.alignment (fl : Rnd) (g : GridSpec) : Res (Rat × Rat) := do
  let y ← pyFloatMod fl g.oy (rabs g.ry)
  let x ← pyFloatMod fl g.ox (rabs g.rx)
  pure (x, y)

/-- which query `GridSpec.geojson(bbox=…, geopolygon=…)` walks (gridspec.py:250-261): the polygon query if a
    geopolygon is given, else the bbox query, else the CRS' valid region (`none`: not modelled); the emitted
    features carry `idx = "ix,iy"` in that order. -/
def GridSpec.geojsonIdx (fl : Rnd) (tol : Rat) (g : GridSpec) (bbox : Option BBox)
    (poly : Option (BBox × (GeoBox → Bool))) : Option (List (Int × Int)) :=
  match poly, bbox with
  | some (q, dj), _ => some (g.tilesFromPolygon fl tol q dj)
  | none, some q => some (g.tiles fl tol q)
  | none, none => none

/-- shapely bounds of a multi-part geometry: hull of the parts' bounds (empty geometry: NaNs, `none`) -/
def hullBBox : List BBox → Option BBox
  | [] => none
  | q :: qs => some (qs.foldl (fun h p => ⟨min h.left p.left, min h.bottom p.bottom, max h.right p.right, max h.top p.top⟩) q)

/-- `tiles_from_geopolygon` for a multi-part geometry (MultiPolygon, GeometryCollection, …) given as its parts
    (bounds, `disjoint` test of that part): ONE scan of the bounding box of the whole geometry, a tile is kept
    unless it is disjoint from the whole geometry = from every part.  An empty geometry has NaN bounds and
    `floor(nan)` raises `ValueError`. -/
def GridSpec.tilesFromMulti (fl : Rnd) (tol : Rat) (g : GridSpec) (parts : List (BBox × (GeoBox → Bool))) :
    Res (List (Int × Int)) :=
  match hullBBox (parts.map (·.1)) with
  | none => .error .valueError
  | some q => .ok (g.tilesFromPolygon fl tol q (fun gb => parts.all (fun p => p.2 gb)))

/-! ### Vocabulary of the theorems (propositions, not code) -/

/-- closed rectangle -/
def BBox.memClosed (b : BBox) (p : Rat × Rat) : Prop :=
  b.left ≤ p.1 ∧ p.1 ≤ b.right ∧ b.bottom ≤ p.2 ∧ p.2 ≤ b.top

/-- open rectangle (interior) -/
def BBox.memInterior (b : BBox) (p : Rat × Rat) : Prop :=
  b.left < p.1 ∧ p.1 < b.right ∧ b.bottom < p.2 ∧ p.2 < b.top

/-- rectangle closed on the left/bottom, open on the right/top (in world coordinates) -/
def BBox.memHalfOpen (b : BBox) (p : Rat × Rat) : Prop :=
  b.left ≤ p.1 ∧ p.1 < b.right ∧ b.bottom ≤ p.2 ∧ p.2 < b.top

/-- the footprint of a GeoBox as a point set: image of the pixel rectangle `[0,nx]×[0,ny]`
    under the pixel→world affine -/
def GeoBox.covers (gb : GeoBox) (p : Rat × Rat) : Prop :=
  ∃ u v : Rat, 0 ≤ u ∧ u ≤ (gb.nx : Rat) ∧ 0 ≤ v ∧ v ≤ (gb.ny : Rat) ∧ gb.aff.apply (u, v) = p

/-- footprint (bounding box, exact arithmetic) of tile `k` of grid `g` -/
def GridSpec.footprint (g : GridSpec) (k : Int × Int) : BBox := (g.tileGeobox id k).bbox id

/-- index `k` lies in the closed/open index rectangle `(x1, y1, x2, y2)` returned by `idx_bounds` -/
def inRange (r : Int × Int × Int × Int) (k : Int × Int) : Prop :=
  r.1 ≤ k.1 ∧ k.1 < r.2.2.1 ∧ r.2.1 ≤ k.2 ∧ k.2 < r.2.2.2

/-- `1-D` well-formedness established by `Bin1D.new` -/
structure Bin1D.WF (b : Bin1D) : Prop where
  sz_pos : 0 < b.sz
  dir : b.dir = 1 ∨ b.dir = -1

end OdcGeo.C14
