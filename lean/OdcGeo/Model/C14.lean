/- Model for C14 (core Lean only, no Mathlib). -/
import OdcGeo.Model.IO
namespace OdcGeo.C14

end OdcGeo.C14
